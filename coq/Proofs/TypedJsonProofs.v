(* Proofs/TypedJsonProofs.v — proofs about Syntax/TypedJson.v, generic in schema and tables. *)
From Verif Require Import Base.Str Syntax.Schema Syntax.TypedJson Proofs.StrProofs Proofs.WalkProofs.
From Coq Require Import Lia.
Local Open Scope nat_scope.

(* ---- induction principle for the nested type [json] ------------------------------------------ *)
Section JsonInd.
  Variable P : json -> Prop.
  Hypothesis Hnull : P JNull.
  Hypothesis Hbool : forall b, P (JBool b).
  Hypothesis Hnum : forall n, P (JNum n).
  Hypothesis Hstr : forall s, P (JStr s).
  Hypothesis Harr : forall l, Forall P l -> P (JArr l).
  Hypothesis Hobj : forall ms, Forall (fun kv => P (snd kv)) ms -> P (JObj ms).
  Fixpoint json_ind' (j : json) : P j :=
    match j with
    | JNull => Hnull
    | JBool b => Hbool b
    | JNum n => Hnum n
    | JStr s => Hstr s
    | JArr l => Harr l ((fix go (l : list json) : Forall P l :=
                           match l with [] => Forall_nil P | x :: r => Forall_cons x (json_ind' x) (go r) end) l)
    | JObj ms => Hobj ms ((fix go (l : list (str * json)) : Forall (fun kv => P (snd kv)) l :=
                             match l with
                             | [] => Forall_nil _
                             | kv :: r => Forall_cons kv (json_ind' (snd kv)) (go r)
                             end) ms)
    end.
End JsonInd.

(* ---- map_res ------------------------------------------------------------------------------------------ *)
Lemma map_res_no_panic : forall A B (f : A -> res B) l,
  (forall x, In x l -> f x <> Panic) -> map_res f l <> Panic.
Proof.
  induction l as [|x r IH]; intros H; cbn; [discriminate|].
  pose proof (H x (or_introl eq_refl)) as Hx. destruct (f x); try congruence; try discriminate.
  specialize (IH (fun y Hy => H y (or_intror Hy))). destruct (map_res f r); try congruence; discriminate.
Qed.

Lemma map_res_ok : forall A B (f : A -> res B) l ys, map_res f l = Ok ys -> Forall2 (fun x y => f x = Ok y) l ys.
Proof.
  induction l as [|x r IH]; intros ys H; cbn in H.
  - inversion H. constructor.
  - destruct (f x) eqn:E; try discriminate. destruct (map_res f r) eqn:E2; try discriminate.
    inversion H; subst. constructor; auto.
Qed.

Lemma map_res_ext_ok : forall A B (f : A -> res B) l ys, Forall2 (fun x y => f x = Ok y) l ys -> map_res f l = Ok ys.
Proof.
  induction 1; cbn; auto. rewrite H. fold (map_res f l). rewrite IHForall2. reflexivity.
Qed.

(* ---- Decode never panics ------------------------------------------------------------------------ *)
Section DecodeTotal.
Variable sch : schema.
Variable tb : tables.

Lemma dec_pos_no_panic : forall j, dec_pos j <> Panic.
Proof.
  intros j. unfold dec_pos. destruct j; try discriminate.
  destruct (negb (Nat.eqb (length members) 3)); try discriminate.
  destruct (assoc_str k_Offset members) as [[]|]; try discriminate.
  destruct (assoc_str k_Line members) as [[]|]; try discriminate.
  destruct (assoc_str k_Col members) as [[]|]; try discriminate.
  destruct (json_uint n), (json_uint n0), (json_uint n1); discriminate.
Qed.

Theorem dec_no_panic : forall j t, dec sch tb t j <> Panic.
Proof.
  induction j using json_ind'; intros t.
  - cbn. discriminate.
  - cbn. destruct t; cbn; discriminate.
  - cbn [dec]. destruct (kind_of t) eqn:K; try discriminate.
    destruct (is_unmarshaler sch t); try discriminate.
    destruct (json_uint n); try discriminate. destruct t; try discriminate.
    destruct (uint_overflows sch uid n0); cbn; discriminate.
  - cbn [dec]. destruct (kind_of t) eqn:K; try (destruct t; cbn in K; try discriminate; cbn; discriminate).
    all: destruct (is_unmarshaler sch t) eqn:U; try discriminate;
      destruct (op_unmarshal tb n s); try discriminate;
      destruct t; cbn in U; try discriminate; cbn; discriminate.
  - cbn [dec]. destruct (kind_of t) eqn:K; try discriminate.
    destruct t; cbn in K; try discriminate. cbn [rv_slice_elem].
    assert (HG : map_res (dec sch tb t) l <> Panic).
    { apply map_res_no_panic. intros x Hx. rewrite Forall_forall in H. apply H. exact Hx. }
    destruct (map_res (dec sch tb t) l); try congruence; discriminate.
  - cbn [dec].
    match goal with |- match ?X with Ok _ => _ | Err _ => _ | Panic => _ end <> Panic => set (R := X) end.
    assert (HR : R <> Panic).
    { subst R. destruct (match assoc_str k_Type ms with Some (JStr s) => s | _ => [] end).
      - destruct t; discriminate.
      - destruct (assoc_str (n :: l) (by_name tb)); try discriminate.
        destruct (ptr_assignable sch n0 t) eqn:A; cbn [negb]; try discriminate.
        unfold rv_set_new. rewrite A. discriminate. }
    destruct R as [[st wrap]| |]; try congruence; try discriminate.
    destruct (kind_of st) eqn:K; try discriminate.
    destruct st; cbn in K; try discriminate; cbn [rv_struct_fields].
    + match goal with |- match map_res ?F ms with Ok _ => _ | Err _ => _ | Panic => _ end <> Panic =>
        assert (HG : map_res F ms <> Panic); [|destruct (map_res F ms); try congruence; discriminate] end.
      apply map_res_no_panic. intros [k fv] Hin. cbn [fst snd].
      rewrite Forall_forall in H. specialize (H _ Hin). cbn [snd] in H.
      destruct (is_meta_key k); try discriminate.
      destruct (index_of k (struct_fields sch sid) 0) as [[i ft]|]; try discriminate.
      assert (Hf : match ft with
                   | TPos => match dec_pos fv with Ok p => Ok (VPos p) | Err c => Err c | Panic => Panic end
                   | _ => dec sch tb ft fv end <> Panic).
      { destruct ft; try apply H. pose proof (dec_pos_no_panic fv). destruct (dec_pos fv); try congruence; discriminate. }
      destruct (match ft with TPos => _ | _ => _ end); try congruence; discriminate.
    + destruct (forallb (fun kv : str * json => is_meta_key (fst kv)) ms); discriminate.
Qed.

Theorem decode_no_panic : forall j, decode sch tb j <> Panic.
Proof.
  intros j. unfold decode. pose proof (dec_no_panic j (TIface (node_iface sch))) as H.
  destruct (dec sch tb (TIface (node_iface sch)) j) as [v| |]; try congruence; try discriminate.
  destruct v as [| | [u|] | | | | | ]; discriminate.
Qed.
End DecodeTotal.

(* ---- positions ------------------------------------------------------------------------------------- *)
Local Open Scope N_scope.

Lemma colMax_ones : colMax = N.ones 14. Proof. reflexivity. Qed.

Lemma lor_split_14 : forall a, N.lor (N.shiftl (N.shiftr a 14) 14) (N.land a colMax) = a.
Proof.
  intros a. apply N.bits_inj. intros i. rewrite N.lor_spec, N.land_spec, colMax_ones.
  destruct (N.lt_ge_cases i 14) as [Hlt|Hge].
  - rewrite N.shiftl_spec_low by exact Hlt. rewrite N.ones_spec_low by exact Hlt. cbn. apply andb_true_r.
  - rewrite N.shiftl_spec_high' by exact Hge. rewrite N.shiftr_spec'.
    rewrite N.ones_spec_high by exact Hge. rewrite andb_false_r, orb_false_r.
    f_equal. lia.
Qed.

Lemma shiftr14_le : forall a, a <= maxUint32 -> N.shiftr a 14 <= lineMax.
Proof.
  intros a H. rewrite N.shiftr_div_pow2. unfold maxUint32, lineMax in *.
  change (2 ^ 14) with 16384. apply N.lt_succ_r. apply N.div_lt_upper_bound; lia.
Qed.

Lemma land_colMax_le : forall a, N.land a colMax <= colMax.
Proof.
  intros a. rewrite colMax_ones, N.land_ones. change (N.ones 14) with 16383. change (2 ^ 14) with 16384.
  pose proof (N.mod_upper_bound a 16384). lia.
Qed.

Lemma pos_not_omitted_offs : forall p, pos_omitted p = false -> fst p <= offsetMax /\ pos_offset p = fst p.
Proof.
  intros [o lc] H. unfold pos_omitted, pos_valid, pos_is_recovered, pos_offset in *. cbn [fst snd] in *.
  destruct (offsetMax <? o) eqn:E.
  - exfalso. apply N.ltb_lt in E.
    assert (E2 : (o <=? offsetMax) = false) by (apply N.leb_gt; exact E). rewrite E2 in H. cbn in H.
    rewrite orb_true_r in H. discriminate.
  - apply N.ltb_ge in E. auto.
Qed.

Lemma new_pos_roundtrip : forall p, pos_wf p = true -> pos_omitted p = false ->
  new_pos (pos_offset p) (pos_line p) (pos_col p) = p.
Proof.
  intros [o lc] W H. destruct (pos_not_omitted_offs _ H) as [Ho Eo]. cbn [fst] in *.
  unfold pos_wf in W. cbn [fst snd] in W. apply andb_prop in W as [_ W]. apply N.leb_le in W.
  unfold new_pos. rewrite Eo. cbn [fst]. unfold pos_line, pos_col, colBitSize. cbn [snd].
  rewrite N.min_l by exact Ho.
  pose proof (shiftr14_le lc W) as H1. pose proof (land_colMax_le lc) as H2.
  assert (E1 : (lineMax <? N.shiftr lc 14) = false) by (apply N.ltb_ge; exact H1).
  assert (E2 : (colMax <? N.land lc colMax) = false) by (apply N.ltb_ge; exact H2).
  rewrite E1, E2, lor_split_14. reflexivity.
Qed.

Lemma json_uint_jn : forall n, n <= maxUint32 -> json_uint (JInt (Z.of_N n)) = Some n.
Proof.
  intros n H. unfold json_uint.
  assert (E1 : (0 <=? Z.of_N n)%Z = true) by (apply Z.leb_le; lia).
  assert (E2 : (Z.of_N n <=? Z.of_N maxUint32)%Z = true) by (apply Z.leb_le; lia).
  rewrite E1, E2. cbn. rewrite N2Z.id. reflexivity.
Qed.

Lemma dec_pos_enc_pos : forall p j, pos_wf p = true -> enc_pos p = Some j -> dec_pos j = Ok p.
Proof.
  intros p j W E. unfold enc_pos in E. destruct (pos_omitted p) eqn:Om; [discriminate|].
  inversion E; subst j. clear E.
  destruct (pos_not_omitted_offs _ Om) as [Ho Eo].
  assert (Hw := W). unfold pos_wf in Hw. apply andb_prop in Hw as [_ Hw]. apply N.leb_le in Hw.
  unfold dec_pos. cbn [length Nat.eqb negb].
  change (assoc_str k_Offset [(k_Offset, jn (pos_offset p)); (k_Line, jn (pos_line p)); (k_Col, jn (pos_col p))])
    with (Some (jn (pos_offset p))).
  change (assoc_str k_Line [(k_Offset, jn (pos_offset p)); (k_Line, jn (pos_line p)); (k_Col, jn (pos_col p))])
    with (Some (jn (pos_line p))).
  change (assoc_str k_Col [(k_Offset, jn (pos_offset p)); (k_Line, jn (pos_line p)); (k_Col, jn (pos_col p))])
    with (Some (jn (pos_col p))).
  unfold jn.
  rewrite json_uint_jn by (rewrite Eo; unfold offsetMax, maxUint32 in *; lia).
  rewrite json_uint_jn by (unfold pos_line, colBitSize; pose proof (shiftr14_le (snd p) Hw); unfold lineMax, maxUint32 in *; lia).
  rewrite json_uint_jn by (unfold pos_col; pose proof (land_colMax_le (snd p)); unfold colMax, maxUint32 in *; lia).
  rewrite new_pos_roundtrip by assumption. reflexivity.
Qed.

Lemma enc_pos_canon : forall p, enc_pos (canon_pos p) = enc_pos p.
Proof.
  intros p. unfold canon_pos. destruct (pos_omitted p) eqn:E; auto.
  unfold enc_pos. rewrite E. reflexivity.
Qed.
Local Close Scope N_scope.

(* ---- re-encoding the canonical tree gives the same JSON --------------------------------------------------- *)
Lemma map_res_map_ext : forall A B C (f : B -> res C) (g : A -> res C) (h : A -> B) l,
  (forall x, In x l -> f (h x) = g x) -> map_res f (map h l) = map_res g l.
Proof.
  induction l as [|x r IH]; intros H; cbn; auto.
  rewrite (H x (or_introl eq_refl)). fold (map_res f (map h r)). fold (map_res g r).
  rewrite IH by (intros y Hy; apply H; right; exact Hy). reflexivity.
Qed.

Section Reencode.
Variable sch : schema.
Variable tb : tables.

Definition enc_field (x : value) : res (option json) :=
  match x with VPos p => Ok (enc_pos p) | _ => enc sch tb x end.
Definition enc_elem (x : value) : res json :=
  match enc sch tb x with Ok (Some j) => Ok j | Ok None => Panic | Err c => Err c | Panic => Panic end.

Lemma enc_struct_unfold : forall sid a fs,
  enc sch tb (VStruct sid a fs) =
  match get_struct sch sid with
  | None => Err E_ILL
  | Some d =>
      if negb (Nat.eqb (length fs) (length (s_fields d))) then Err E_ILL else
      match map_res enc_field fs with
      | Ok os => Ok (Some (JObj ((match a with
                                  | Some (p, e) => opt_member k_Pos (enc_pos p) ++ opt_member k_End (enc_pos e)
                                  | None => [] end) ++ members (s_fields d) os)))
      | Err c => Err c
      | Panic => Panic
      end
  end.
Proof. reflexivity. Qed.

Lemma enc_slice_unfold : forall b x r,
  enc sch tb (VSlice b (x :: r)) =
  match map_res enc_elem (x :: r) with Ok js => Ok (Some (JArr js)) | Err c => Err c | Panic => Panic end.
Proof. reflexivity. Qed.

Lemma enc_field_canon : forall x, enc sch tb (canon x) = enc sch tb x -> enc_field (canon x) = enc_field x.
Proof.
  intros x H. destruct x as [sid a fs| [u|] | [u|] | b [|y l] | s | b | u n | p]; exact H.
Qed.

Theorem enc_canon : forall v, enc sch tb (canon v) = enc sch tb v.
Proof.
  induction v using value_ind'.
  - cbn [canon]. rewrite !enc_struct_unfold. destruct (get_struct sch sid) as [d|]; auto.
    rewrite map_length.
    rewrite (map_res_map_ext _ _ _ enc_field enc_field canon fs); auto.
    intros x Hx. apply enc_field_canon. rewrite Forall_forall in H. auto.
  - reflexivity.
  - cbn [canon]. cbn [enc]. exact IHv.
  - reflexivity.
  - cbn [canon].
    destruct v as [sid a fs| o | o | b l | s | b | u n | p];
      try (destruct o); try (destruct l); try reflexivity.
    change (canon (VStruct sid a fs)) with (VStruct sid a (map canon fs)) in *.
    cbn [enc] in *. rewrite IHv. reflexivity.
  - destruct l as [|x r]; [reflexivity|].
    change (canon (VSlice b (x :: r))) with (VSlice false (map canon (x :: r))).
    change (map canon (x :: r)) with (canon x :: map canon r).
    rewrite !enc_slice_unfold. change (canon x :: map canon r) with (map canon (x :: r)).
    rewrite (map_res_map_ext _ _ _ enc_elem enc_elem canon (x :: r)); auto.
    intros y Hy. unfold enc_elem. rewrite Forall_forall in H. rewrite (H y Hy). reflexivity.
  - reflexivity.
  - reflexivity.
  - reflexivity.
  - cbn. f_equal. apply enc_pos_canon.
Qed.

Theorem encode_canon : forall v, encode sch tb (canon v) = encode sch tb v.
Proof.
  intros v. destruct v as [sid a fs| [u|] | o | b l | s | b | u n | p]; try reflexivity.
  - destruct u as [sid a fs| o | o | b l | s | b | u n | p];
      try (destruct o); try (destruct l); try reflexivity.
    change (canon (VPtr (Some (VStruct sid a fs)))) with (VPtr (Some (VStruct sid a (map canon fs)))).
    unfold encode. change (VStruct sid a (map canon fs)) with (canon (VStruct sid a fs)).
    rewrite enc_canon. reflexivity.
  - destruct o; reflexivity.
  - destruct l; reflexivity.
Qed.
End Reencode.

(* ---- round trip ------------------------------------------------------------------------------------------- *)
Lemma in_combine_seq : forall A (l : list A) k i x, nth_error l i = Some x ->
  In (k + i, x) (combine (seq k (length l)) l).
Proof.
  induction l as [|a l IH]; intros k i x H; [destruct i; discriminate|].
  cbn [length seq combine]. destruct i as [|i]; cbn in H.
  - inversion H; subst. left. f_equal. lia.
  - right. replace (k + S i) with (S k + i) by lia. apply IH. exact H.
Qed.

Lemma str_eqb_sym : forall a b, str_eqb a b = str_eqb b a.
Proof.
  intros a b. destruct (str_eqb a b) eqn:E1, (str_eqb b a) eqn:E2; auto.
  - apply str_eqb_true in E1. subst. rewrite str_eqb_refl in E2. discriminate.
  - apply str_eqb_true in E2. subst. rewrite str_eqb_refl in E1. discriminate.
Qed.

Lemma map_res_app : forall A B (f : A -> res B) l1 l2 y1 y2,
  map_res f l1 = Ok y1 -> map_res f l2 = Ok y2 -> map_res f (l1 ++ l2) = Ok (y1 ++ y2).
Proof.
  induction l1 as [|x r IH]; intros l2 y1 y2 H1 H2; cbn in H1.
  - inversion H1; subst. exact H2.
  - cbn. destruct (f x); try discriminate. fold (map_res f r) in H1. fold (map_res f (r ++ l2)).
    destruct (map_res f r) as [ys| |] eqn:E; try discriminate. inversion H1; subst.
    rewrite (IH l2 ys y2 eq_refl H2). reflexivity.
Qed.

Fixpoint exp_found (k : nat) (fs : list value) (os : list (option json)) : list (nat * value) :=
  match fs, os with
  | x :: r, o :: os' =>
      (match o with Some _ => [(k, erase (canon x))] | None => [] end) ++ exp_found (S k) r os'
  | _, _ => []
  end.

Fixpoint zeros_ok (fs : list value) (ds : list field_decl) (os : list (option json)) : Prop :=
  match fs, ds, os with
  | x :: r, d :: ds', o :: os' =>
      (o = None -> erase (canon x) = zero_shallow (f_ty d)) /\ zeros_ok r ds' os'
  | [], [], [] => True
  | _, _, _ => False
  end.

Lemma exp_found_ge : forall fs os k i x, In (i, x) (exp_found k fs os) -> k <= i.
Proof.
  induction fs as [|y r IH]; intros [|o os] k i x H; cbn in H; try tauto.
  apply in_app_or in H as [H|H].
  - destruct o; cbn in H; [|tauto]. destruct H as [H|[]]. inversion H. lia.
  - apply IH in H. lia.
Qed.

Lemma lookup_nat_none : forall A (l : list (nat * A)) k, (forall i x, In (i, x) l -> i <> k) -> lookup_nat k l = None.
Proof.
  induction l as [|[i x] r IH]; intros k H; cbn; auto.
  destruct (Nat.eqb k i) eqn:E.
  - apply Nat.eqb_eq in E. exfalso. apply (H i x); [left; reflexivity|auto].
  - apply IH. intros j y Hin. apply (H j y). right. exact Hin.
Qed.

Lemma lookup_nat_app_none : forall A (l1 l2 : list (nat * A)) k,
  (forall i x, In (i, x) l1 -> i <> k) -> lookup_nat k (l1 ++ l2) = lookup_nat k l2.
Proof.
  induction l1 as [|[i x] r IH]; intros l2 k H; cbn; auto.
  destruct (Nat.eqb k i) eqn:E.
  - apply Nat.eqb_eq in E. exfalso. apply (H i x); [left; reflexivity|auto].
  - apply IH. intros j y Hin. apply (H j y). right. exact Hin.
Qed.

Lemma assemble_spec : forall fs ds os k0 pre,
  zeros_ok fs ds os -> (forall i x, In (i, x) pre -> i < k0) ->
  map (fun id : nat * field_decl =>
         match lookup_nat (fst id) (pre ++ exp_found k0 fs os) with
         | Some x => x | None => zero_shallow (f_ty (snd id)) end)
      (combine (seq k0 (length ds)) ds) = map (fun x => erase (canon x)) fs.
Proof.
  induction fs as [|x r IH]; intros [|d ds] [|o os] k0 pre Z Hpre; cbn in Z; try tauto; auto.
  destruct Z as [Z0 Z]. cbn [length seq combine map fst snd].
  f_equal.
  - rewrite lookup_nat_app_none by (intros i y Hin; apply Hpre in Hin; lia).
    cbn [exp_found]. destruct o as [j|]; cbn [app].
    + cbn [lookup_nat]. rewrite Nat.eqb_refl. reflexivity.
    + rewrite lookup_nat_none; [symmetry; auto|].
      intros i y Hin. apply exp_found_ge in Hin. lia.
  - cbn [exp_found]. rewrite app_assoc. apply IH; auto.
    intros i y Hin. apply in_app_or in Hin as [Hin|Hin].
    + apply Hpre in Hin. lia.
    + destruct o; cbn in Hin; [|tauto]. destruct Hin as [Hin|[]]. inversion Hin. lia.
Qed.

Lemma index_of_app : forall name dpre d ds k, name = f_name d ->
  (forall f, In f dpre -> str_eqb name (f_name f) = false) ->
  index_of name (dpre ++ d :: ds) k = Some (k + length dpre, f_ty d).
Proof.
  induction dpre as [|a r IH]; intros d ds k E H; cbn.
  - subst. rewrite str_eqb_refl. f_equal. f_equal. lia.
  - rewrite (H a (or_introl eq_refl)). rewrite IH; auto.
    + f_equal. f_equal. lia.
    + intros f Hf. apply H. right. exact Hf.
Qed.

Lemma nodup_str_app_head : forall (dpre : list field_decl) d ds,
  nodup_str (map f_name (dpre ++ d :: ds)) = true ->
  forall f, In f dpre -> str_eqb (f_name d) (f_name f) = false.
Proof.
  induction dpre as [|a r IH]; intros d ds H f Hin; [destruct Hin|].
  cbn in H. apply andb_prop in H as [H1 H2]. destruct Hin as [<-|Hin].
  - rewrite str_eqb_sym. destruct (str_eqb (f_name a) (f_name d)) eqn:E; auto.
    exfalso. apply negb_true_iff in H1. rewrite <- not_true_iff_false in H1. apply H1.
    apply existsb_exists. exists (f_name d). split; auto.
    rewrite map_app. apply in_or_app. right. left. reflexivity.
  - eapply IH; eauto.
Qed.

Section RoundTrip.
Variable sch : schema.
Variable tb : tables.
Hypothesis SOK : schema_json_ok sch tb = true.

(* the facts packed into schema_json_ok *)
Lemma sok_parts :
  forallb (fun d => nodup_str (map f_name (s_fields d)) &&
                    forallb (fun f => negb (is_meta_key (f_name f)) && field_ty_ok (f_ty f)) (s_fields d)) (structs sch) = true /\
  forallb (fun id => negb (s_node (snd id)) ||
                     match assoc_str (s_name (snd id)) (by_name tb) with
                     | Some sid => Nat.eqb sid (fst id) | None => false end)
          (combine (seq O (length (structs sch))) (structs sch)) = true /\
  forallb (fun d => match s_name d with [] => false | _ => true end) (structs sch) = true /\
  forallb (fun i => forallb (is_node sch) (i_impls i)) (ifaces sch) = true /\
  forallb (fun d => Bool.eqb (u_stringer d) (u_unmarshaler d) && (u_bits d <=? 32)%N) (uints sch) = true /\
  ops_roundtrip tb = true.
Proof.
  pose proof SOK as H. unfold schema_json_ok in H.
  apply andb_prop in H as [H H6]. apply andb_prop in H as [H H5]. apply andb_prop in H as [H H4].
  apply andb_prop in H as [H H3]. apply andb_prop in H as [H1 H2]. auto 10.
Qed.

Lemma sok_struct : forall sid d, get_struct sch sid = Some d ->
  nodup_str (map f_name (s_fields d)) = true /\
  (forall f, In f (s_fields d) -> is_meta_key (f_name f) = false /\ field_ty_ok (f_ty f) = true) /\
  s_name d <> [] /\
  (s_node d = true -> assoc_str (s_name d) (by_name tb) = Some sid).
Proof.
  intros sid d G. destruct sok_parts as (H1 & H2 & H3 & _).
  unfold get_struct in G. pose proof (nth_error_In _ _ G) as Hin.
  rewrite forallb_forall in H1, H3. specialize (H1 _ Hin). specialize (H3 _ Hin).
  apply andb_prop in H1 as [Hn Hf]. rewrite forallb_forall in Hf.
  split; [exact Hn|]. split; [|split].
  - intros f Hfin. specialize (Hf _ Hfin). apply andb_prop in Hf as [Ha Hb].
    split; auto. destruct (is_meta_key (f_name f)); auto; discriminate.
  - destruct (s_name d); [discriminate|]. discriminate.
  - intros Nd. rewrite forallb_forall in H2.
    pose proof (in_combine_seq _ _ O _ _ G) as Hc. cbn [Nat.add] in Hc.
    specialize (H2 _ Hc). cbn [fst snd] in H2. rewrite Nd in H2. cbn in H2.
    destruct (assoc_str (s_name d) (by_name tb)); [|discriminate].
    apply Nat.eqb_eq in H2. subst. reflexivity.
Qed.

Lemma sok_iface : forall iid sid, mem_nat sid (iface_impls sch iid) = true -> is_node sch sid = true.
Proof.
  intros iid sid M. destruct sok_parts as (_ & _ & _ & H4 & _).
  unfold iface_impls, get_iface in M. destruct (nth_error (ifaces sch) iid) as [i|] eqn:E; [|discriminate].
  rewrite forallb_forall in H4. specialize (H4 _ (nth_error_In _ _ E)). rewrite forallb_forall in H4.
  unfold mem_nat in M. apply existsb_exists in M as (y & Hy & Ey). apply Nat.eqb_eq in Ey. subst. auto.
Qed.

Lemma sok_uint : forall uid d, get_uint sch uid = Some d ->
  u_unmarshaler d = u_stringer d /\ (u_bits d <= 32)%N.
Proof.
  intros uid d G. destruct sok_parts as (_ & _ & _ & _ & H5 & _).
  rewrite forallb_forall in H5. specialize (H5 _ (nth_error_In _ _ G)).
  apply andb_prop in H5 as [Ha Hb]. apply eqb_prop in Ha. apply N.leb_le in Hb. auto.
Qed.

Lemma assoc_nat_in : forall A k (l : list (nat * A)) a, assoc_nat k l = Some a -> In (k, a) l.
Proof.
  induction l as [|[k' a'] r IH]; intros a H; cbn in H; [discriminate|].
  destruct (Nat.eqb k k') eqn:E.
  - apply Nat.eqb_eq in E. inversion H; subst. left. reflexivity.
  - right. auto.
Qed.
Lemma assoc_N_in : forall A k (l : list (N * A)) a, assoc_N k l = Some a -> In (k, a) l.
Proof.
  induction l as [|[k' a'] r IH]; intros a H; cbn in H; [discriminate|].
  destruct (N.eqb k k') eqn:E.
  - apply N.eqb_eq in E. inversion H; subst. left. reflexivity.
  - right. auto.
Qed.

Lemma sok_ops : forall uid n s, op_string tb uid n = Some s -> op_unmarshal tb uid s = Some n.
Proof.
  intros uid n s H. destruct sok_parts as (_ & _ & _ & _ & _ & H6).
  unfold op_string in H. destruct (assoc_nat uid (ops_str tb)) as [l|] eqn:E; [|discriminate].
  apply assoc_nat_in in E. apply assoc_N_in in H.
  unfold ops_roundtrip in H6. rewrite forallb_forall in H6. specialize (H6 _ E). cbn [fst snd] in H6.
  rewrite forallb_forall in H6. specialize (H6 _ H). cbn [fst snd] in H6.
  destruct (op_unmarshal tb uid s); [|discriminate]. apply N.eqb_eq in H6. congruence.
Qed.

(* ---- decoding an object into a struct -------------------------------------------------------------------- *)
Definition dec_member (ds : list field_decl) (kv : str * json) : res (option (nat * value)) :=
  if is_meta_key (fst kv) then Ok None
  else match index_of (fst kv) ds O with
       | None => Err E_DEC
       | Some (i, ft) =>
           match (match ft with
                  | TPos => match dec_pos (snd kv) with Ok p => Ok (VPos p) | Err c => Err c | Panic => Panic end
                  | _ => dec sch tb ft (snd kv) end) with
           | Ok x => Ok (Some (i, x))
           | Err c => Err c
           | Panic => Panic
           end
       end.

Definition assemble (sid : nat) (ds : list field_decl) (found : list (option (nat * value))) : value :=
  VStruct sid None
    (map (fun id : nat * field_decl =>
            match lookup_nat (fst id) (filter_some found) with
            | Some x => x | None => zero_shallow (f_ty (snd id)) end)
         (combine (seq O (length ds)) ds)).

Definition fill (sid : nat) (wrap : value -> value) (ms : list (str * json)) : res value :=
  match map_res (dec_member (struct_fields sch sid)) ms with
  | Ok found => Ok (wrap (assemble sid (struct_fields sch sid) found))
  | Err c => Err c
  | Panic => Panic
  end.

Lemma dec_struct_obj : forall sid ms, assoc_str k_Type ms = None ->
  dec sch tb (TStruct sid) (JObj ms) = fill sid (fun s => s) ms.
Proof. intros sid ms H. cbn [dec]. rewrite H. reflexivity. Qed.

Lemma dec_ptr_obj : forall sid ms, assoc_str k_Type ms = None ->
  dec sch tb (TPtr sid) (JObj ms) = fill sid (fun s => VPtr (Some s)) ms.
Proof. intros sid ms H. cbn [dec]. rewrite H. reflexivity. Qed.

Lemma dec_iface_obj : forall iid sid c name ms,
  assoc_str (c :: name) (by_name tb) = Some sid -> mem_nat sid (iface_impls sch iid) = true ->
  dec sch tb (TIface iid) (JObj ((k_Type, JStr (c :: name)) :: ms)) =
  fill sid (fun s => VIface (Some s)) ((k_Type, JStr (c :: name)) :: ms).
Proof.
  intros iid sid c name ms B M. cbn [dec].
  change (assoc_str k_Type ((k_Type, JStr (c :: name)) :: ms)) with (Some (JStr (c :: name))).
  cbn iota. rewrite B. unfold rv_set_new. cbn [ptr_assignable]. rewrite M. reflexivity.
Qed.


Definition val_ty_ok (t : ty) : bool :=
  match t with TPos => false | TSlice te => elem_ty_ok te | _ => true end.

(* the round-trip statement for one value at its static type *)
Definition RT (v : value) : Prop :=
  forall t, has_type sch t v = true -> val_ty_ok t = true ->
  forall o, enc sch tb v = Ok o ->
  match o with
  | None => erase (canon v) = zero_shallow t
  | Some j => dec sch tb t j = Ok (erase (canon v))
  end.

Lemma has_type_pos_ty : forall t p, has_type sch t (VPos p) = true -> t = TPos.
Proof. intros t p H. destruct t; cbn in H; try discriminate. reflexivity. Qed.

Lemma has_type_TPos_inv : forall x, has_type sch TPos x = true -> exists p, x = VPos p /\ pos_wf p = true.
Proof.
  intros x H. destruct x as [sid a fs| [u|] | [u|] | b l | s | b | u n | p]; try (cbn in H; discriminate).
  exists p. auto.
Qed.

Definition dec_field (ft : ty) (j : json) : res value :=
  match ft with
  | TPos => match dec_pos j with Ok p => Ok (VPos p) | Err c => Err c | Panic => Panic end
  | _ => dec sch tb ft j
  end.

Lemma field_rt : forall x ft o, has_type sch ft x = true -> field_ty_ok ft = true -> RT x ->
  enc_field sch tb x = Ok o ->
  match o with
  | None => erase (canon x) = zero_shallow ft
  | Some j => dec_field ft j = Ok (erase (canon x))
  end.
Proof.
  intros x ft o Ht Fo R E. destruct ft.
  1-7: assert (Hx : enc_field sch tb x = enc sch tb x)
        by (destruct x as [sid' a fs| [u|] | [u|] | b l | s | b | u n | p]; try reflexivity;
            apply has_type_pos_ty in Ht; discriminate).
  1-7: rewrite Hx in E; specialize (R _ Ht); cbn in Fo; try discriminate.
  - apply (R eq_refl _ E).
  - apply (R eq_refl _ E).
  - assert (V : val_ty_ok (TSlice ft) = true) by exact Fo. apply (R V _ E).
  - apply (R eq_refl _ E).
  - apply (R eq_refl _ E).
  - apply (R eq_refl _ E).
  - destruct (has_type_TPos_inv _ Ht) as (p & -> & W). cbn in E. inversion E; subst o. clear E.
    destruct (enc_pos p) as [j|] eqn:Ep.
    + cbn [dec_field]. rewrite (dec_pos_enc_pos _ _ W Ep). cbn [canon erase].
      unfold canon_pos. unfold enc_pos in Ep. destruct (pos_omitted p); [discriminate|]. reflexivity.
    + cbn [canon erase zero_shallow]. unfold canon_pos. unfold enc_pos in Ep.
      destruct (pos_omitted p); [reflexivity|discriminate].
Qed.

Lemma members_cons : forall d ds o os, members (d :: ds) (o :: os) = opt_member (f_name d) o ++ members ds os.
Proof. reflexivity. Qed.

Lemma fields_zero : forall fs ds os,
  fields_typed sch fs ds = true -> Forall RT fs -> (forall f, In f ds -> field_ty_ok (f_ty f) = true) ->
  map_res (enc_field sch tb) fs = Ok os -> zeros_ok fs ds os.
Proof.
  induction fs as [|x r IH]; intros [|d ds] os Ht HR Hok E; cbn in Ht; try discriminate.
  - cbn in E. inversion E. exact I.
  - apply andb_prop in Ht as [Hx Hr]. inversion HR; subst.
    cbn in E. destruct (enc_field sch tb x) as [o| |] eqn:Ex; try discriminate.
    fold (map_res (enc_field sch tb) r) in E.
    destruct (map_res (enc_field sch tb) r) as [os'| |] eqn:Er; try discriminate. inversion E; subst os.
    cbn [zeros_ok]. split.
    + intros ->. apply (field_rt x (f_ty d) None Hx (Hok d (or_introl eq_refl)) H1 Ex).
    + apply IH; auto. intros f Hf. apply Hok. right. exact Hf.
Qed.

Lemma fill_members : forall dsfull fs ds os dpre,
  dsfull = dpre ++ ds -> nodup_str (map f_name dsfull) = true ->
  (forall f, In f dsfull -> is_meta_key (f_name f) = false /\ field_ty_ok (f_ty f) = true) ->
  fields_typed sch fs ds = true -> Forall RT fs ->
  map_res (enc_field sch tb) fs = Ok os ->
  exists found, map_res (dec_member dsfull) (members ds os) = Ok found /\
                filter_some found = exp_found (length dpre) fs os.
Proof.
  intros dsfull. induction fs as [|x r IH]; intros [|d ds] os dpre Efull Nd Hok Ht HR E; cbn in Ht; try discriminate.
  - cbn in E. inversion E. exists []. auto.
  - apply andb_prop in Ht as [Hx Hr]. inversion HR as [|x0 r0 H1 H2]; subst.
    cbn in E. destruct (enc_field sch tb x) as [o| |] eqn:Ex; try discriminate.
    fold (map_res (enc_field sch tb) r) in E.
    destruct (map_res (enc_field sch tb) r) as [os'| |] eqn:Er; try discriminate. inversion E; subst os.
    assert (Efull' : dpre ++ d :: ds = (dpre ++ [d]) ++ ds) by (rewrite <- app_assoc; reflexivity).
    destruct (IH ds os' (dpre ++ [d]) Efull' Nd Hok Hr H2 eq_refl) as (found' & F1 & F2).
    rewrite app_length in F2. cbn [length] in F2. replace (length dpre + 1) with (S (length dpre)) in F2 by lia.
    rewrite members_cons. cbn [exp_found].
    assert (Hd : In d (dpre ++ d :: ds)) by (apply in_or_app; right; left; reflexivity).
    destruct (Hok d Hd) as [Hm Hf].
    destruct o as [j|]; cbn [opt_member app].
    + pose proof (field_rt x (f_ty d) (Some j) Hx Hf H1 Ex) as Hdec.
      assert (Hmem : dec_member (dpre ++ d :: ds) (f_name d, j) = Ok (Some (length dpre, erase (canon x)))).
      { unfold dec_member. cbn [fst snd]. rewrite Hm.
        rewrite (index_of_app (f_name d) dpre d ds 0 eq_refl (nodup_str_app_head dpre d ds Nd)).
        cbn [Nat.add]. unfold dec_field in Hdec. rewrite Hdec. reflexivity. }
      exists (Some (length dpre, erase (canon x)) :: found'). split.
      * cbn [map_res]. rewrite Hmem. fold (map_res (dec_member (dpre ++ d :: ds)) (members ds os')).
        rewrite F1. reflexivity.
      * cbn [filter_some]. rewrite F2. reflexivity.
    + exists found'. auto.
Qed.

Lemma filter_some_app : forall A (a b : list (option A)), filter_some (a ++ b) = filter_some a ++ filter_some b.
Proof. induction a as [|[x|] a IH]; intros b; cbn; auto. f_equal. auto. Qed.

Lemma map_res_meta : forall ds l, (forall kv, In kv l -> is_meta_key (fst kv) = true) ->
  exists nones, map_res (dec_member ds) l = Ok nones /\ filter_some nones = [].
Proof.
  induction l as [|kv r IH]; intros H.
  - exists []. auto.
  - destruct IH as (nones & M & F); [intros; apply H; right; auto|].
    exists (None :: nones). split; auto. cbn [map_res]. unfold dec_member at 1.
    rewrite (H kv (or_introl eq_refl)). fold (map_res (dec_member ds) r). rewrite M. reflexivity.
Qed.

Lemma assoc_str_none : forall A k (l : list (str * A)),
  (forall kv, In kv l -> str_eqb k (fst kv) = false) -> assoc_str k l = None.
Proof.
  induction l as [|[k' a] r IH]; intros H; cbn; auto.
  pose proof (H (k', a) (or_introl eq_refl)) as H0. cbn [fst] in H0. rewrite H0.
  apply IH. intros kv Hin. apply H. right. exact Hin.
Qed.

Lemma members_keys : forall ds os kv, In kv (members ds os) -> exists d, In d ds /\ fst kv = f_name d.
Proof.
  induction ds as [|d ds IH]; intros [|o os] kv H; cbn in H; try tauto.
  fold (members ds os) in H. apply in_app_or in H as [H|H].
  - destruct o; cbn in H; [|tauto]. destruct H as [<-|[]]. exists d. split; [left|]; reflexivity.
  - destruct (IH _ _ H) as (d' & Hd & E). exists d'. split; [right|]; auto.
Qed.

Lemma meta_key_not_type : forall k, is_meta_key k = false -> str_eqb k_Type k = false.
Proof.
  intros k H. unfold is_meta_key in H. apply orb_false_elim in H as [H _]. apply orb_false_elim in H as [H _].
  rewrite str_eqb_sym. exact H.
Qed.

(* shape of a struct's encoding, and decoding it back into the struct *)
Lemma struct_rt : forall sid a fs o, Forall RT fs ->
  has_type sch (TStruct sid) (VStruct sid a fs) = true -> enc sch tb (VStruct sid a fs) = Ok o ->
  exists ms, o = Some (JObj ms) /\ assoc_str k_Type ms = None /\
    forall wrap pre, (forall kv, In kv pre -> is_meta_key (fst kv) = true) ->
      fill sid wrap (pre ++ ms) = Ok (wrap (erase (canon (VStruct sid a fs)))).
Proof.
  intros sid a fs o HR Ht E. rewrite enc_struct_unfold in E.
  rewrite has_type_struct in Ht. apply andb_prop in Ht as [_ Hf].
  unfold struct_fields in Hf. destruct (get_struct sch sid) as [d|] eqn:G; [|discriminate].
  destruct (negb (Nat.eqb (length fs) (length (s_fields d)))); [discriminate|].
  destruct (map_res (enc_field sch tb) fs) as [os| |] eqn:Em; try discriminate. inversion E; subst o. clear E.
  destruct (sok_struct sid d G) as (Nd & Hok & _ & _).
  set (pe := match a with
             | Some (p, e) => opt_member k_Pos (enc_pos p) ++ opt_member k_End (enc_pos e)
             | None => [] end).
  assert (Hpe : forall kv, In kv pe -> is_meta_key (fst kv) = true /\ str_eqb k_Type (fst kv) = false).
  { intros kv Hin. subst pe. destruct a as [[p e]|]; [|destruct Hin].
    apply in_app_or in Hin as [Hin|Hin].
    - destruct (enc_pos p); cbn in Hin; [|tauto]. destruct Hin as [<-|[]]. split; reflexivity.
    - destruct (enc_pos e); cbn in Hin; [|tauto]. destruct Hin as [<-|[]]. split; reflexivity. }
  exists (pe ++ members (s_fields d) os). split; [reflexivity|]. split.
  - apply assoc_str_none. intros kv Hin. apply in_app_or in Hin as [Hin|Hin].
    + apply Hpe. exact Hin.
    + destruct (members_keys _ _ _ Hin) as (d' & Hd & ->). apply meta_key_not_type. apply Hok. exact Hd.
  - intros wrap pre Hpre. unfold fill. unfold struct_fields. rewrite G.
    destruct (map_res_meta (s_fields d) pre Hpre) as (n1 & M1 & F1).
    destruct (map_res_meta (s_fields d) pe (fun kv Hin => proj1 (Hpe kv Hin))) as (n2 & M2 & F2).
    destruct (fill_members (s_fields d) fs (s_fields d) os [] eq_refl Nd Hok Hf HR Em) as (found & M3 & F3).
    rewrite (map_res_app _ _ _ _ _ _ _ M1 (map_res_app _ _ _ _ _ _ _ M2 M3)).
    f_equal. f_equal. unfold assemble. rewrite !filter_some_app, F1, F2, F3. cbn [app length].
    cbn [canon erase]. f_equal. rewrite map_map.
    apply (assemble_spec fs (s_fields d) os 0 []).
    + apply fields_zero; auto. intros f Hfin. apply Hok. exact Hfin.
    + intros i x [].
Qed.

Lemma fill_meta_cons : forall sid wrap kv ms, is_meta_key (fst kv) = true ->
  fill sid wrap (kv :: ms) = fill sid wrap ms.
Proof.
  intros sid wrap kv ms H. unfold fill. cbn [map_res]. unfold dec_member at 1. rewrite H.
  fold (map_res (dec_member (struct_fields sch sid)) ms).
  destruct (map_res (dec_member (struct_fields sch sid)) ms); reflexivity.
Qed.

Lemma elem_val_ty_ok : forall te, elem_ty_ok te = true -> val_ty_ok te = true.
Proof. intros te H. destruct te; cbn in *; auto; discriminate. Qed.

Lemma uint_fits_le : forall uid n, uint_fits sch uid n = true ->
  exists d, get_uint sch uid = Some d /\ (n <= maxUint32)%N.
Proof.
  intros uid n H. unfold uint_fits in H. destruct (get_uint sch uid) as [d|] eqn:G; [|discriminate].
  exists d. split; auto. destruct (sok_uint uid d G) as [_ Hb]. apply N.ltb_lt in H.
  rewrite N.shiftl_1_l in H.
  assert (2 ^ u_bits d <= 2 ^ 32)%N by (apply N.pow_le_mono_r; lia).
  change (2 ^ 32)%N with 4294967296%N in H0. unfold maxUint32. lia.
Qed.

Lemma enc_ptr_unfold : forall u, enc sch tb (VPtr (Some u)) = enc sch tb u.
Proof. reflexivity. Qed.
Lemma enc_iface_unfold : forall sid a fs,
  enc sch tb (VIface (Some (VStruct sid a fs))) =
  match enc sch tb (VStruct sid a fs), get_struct sch sid with
  | Ok (Some (JObj ms)), Some d => Ok (Some (JObj ((k_Type, JStr (s_name d)) :: ms)))
  | Ok _, _ => Err E_ILL
  | Err c, _ => Err c
  | Panic, _ => Panic
  end.
Proof. reflexivity. Qed.

Theorem rt_all : forall v, RT v.
Proof.
  induction v using value_ind'; intros t Ht Vt o E.
  - (* struct *)
    pose proof (has_type_struct_ty sch _ _ _ _ Ht); subst t.
    destruct (struct_rt sid a fs o H Ht E) as (ms & -> & NT & Hfill).
    rewrite dec_struct_obj by exact NT. apply (Hfill (fun s => s) []). intros kv [].
  - (* nil pointer *)
    destruct t; cbn in Ht; try discriminate. cbn in E. inversion E. reflexivity.
  - (* pointer *)
    destruct t; try (cbn in Ht; discriminate). cbn in Ht.
    destruct (has_type_TStruct_inv sch _ _ Ht) as (a & fs & -> & _).
    rewrite enc_ptr_unfold in E.
    assert (Hs : exists ms, o = Some (JObj ms) /\ assoc_str k_Type ms = None).
    { rewrite enc_struct_unfold in E. destruct (get_struct sch sid) as [d|] eqn:G; [|discriminate].
      destruct (negb (Nat.eqb (length fs) (length (s_fields d)))); [discriminate|].
      destruct (map_res (enc_field sch tb) fs) as [os| |]; try discriminate. inversion E; subst o.
      eexists. split; [reflexivity|].
      destruct (sok_struct sid d G) as (_ & Hok & _ & _).
      apply assoc_str_none. intros kv Hin. apply in_app_or in Hin as [Hin|Hin].
      - destruct a as [[p e]|]; [|destruct Hin]. apply in_app_or in Hin as [Hin|Hin].
        + destruct (enc_pos p); cbn in Hin; [|tauto]. destruct Hin as [<-|[]]. reflexivity.
        + destruct (enc_pos e); cbn in Hin; [|tauto]. destruct Hin as [<-|[]]. reflexivity.
      - destruct (members_keys _ _ _ Hin) as (d' & Hd & ->). apply meta_key_not_type. apply Hok. exact Hd. }
    destruct Hs as (ms & -> & NT).
    pose proof (IHv (TStruct sid) Ht eq_refl _ E) as R. cbn iota in R.
    rewrite dec_struct_obj in R by exact NT. rewrite dec_ptr_obj by exact NT.
    unfold fill in *. destruct (map_res (dec_member (struct_fields sch sid)) ms) as [found| |]; try discriminate.
    assert (R' : assemble sid (struct_fields sch sid) found = erase (canon (VStruct sid a fs))) by congruence.
    rewrite R'. reflexivity.
  - (* nil interface *)
    destruct t; cbn in Ht; try discriminate. cbn in E. inversion E. reflexivity.
  - (* interface *)
    destruct t; try (cbn in Ht; discriminate). cbn in Ht.
    destruct v as [sid a fs| | | | | | | ]; try discriminate.
    apply andb_prop in Ht as [M Ht].
    rewrite enc_iface_unfold in E.
    destruct (enc sch tb (VStruct sid a fs)) as [o'| |] eqn:Eu; try discriminate.
    assert (Hs : exists ms, o' = Some (JObj ms) /\ assoc_str k_Type ms = None).
    { pose proof Eu as E2. rewrite enc_struct_unfold in E2. destruct (get_struct sch sid) as [d|] eqn:G; [|discriminate].
      destruct (negb (Nat.eqb (length fs) (length (s_fields d)))); [discriminate|].
      destruct (map_res (enc_field sch tb) fs) as [os| |]; try discriminate. inversion E2; subst o'.
      eexists. split; [reflexivity|].
      destruct (sok_struct sid d G) as (_ & Hok & _ & _).
      apply assoc_str_none. intros kv Hin. apply in_app_or in Hin as [Hin|Hin].
      - destruct a as [[p e]|]; [|destruct Hin]. apply in_app_or in Hin as [Hin|Hin].
        + destruct (enc_pos p); cbn in Hin; [|tauto]. destruct Hin as [<-|[]]. reflexivity.
        + destruct (enc_pos e); cbn in Hin; [|tauto]. destruct Hin as [<-|[]]. reflexivity.
      - destruct (members_keys _ _ _ Hin) as (d' & Hd & ->). apply meta_key_not_type. apply Hok. exact Hd. }
    destruct Hs as (ms & -> & NT).
    destruct (get_struct sch sid) as [d|] eqn:G; [|discriminate]. inversion E; subst o. clear E.
    destruct (sok_struct sid d G) as (_ & _ & Hname & Hby).
    pose proof (sok_iface _ _ M) as Nn. unfold is_node in Nn. rewrite G in Nn. specialize (Hby Nn).
    destruct (s_name d) as [|c name] eqn:En; [congruence|].
    rewrite (dec_iface_obj iid sid c name ms Hby M).
    rewrite fill_meta_cons by reflexivity.
    pose proof (IHv (TStruct sid) Ht eq_refl _ Eu) as R. cbn iota in R.
    rewrite dec_struct_obj in R by exact NT.
    unfold fill in *. destruct (map_res (dec_member (struct_fields sch sid)) ms) as [found| |]; try discriminate.
    assert (R' : assemble sid (struct_fields sch sid) found = erase (canon (VStruct sid a fs))) by congruence.
    rewrite R'. reflexivity.
  - (* slice *)
    destruct t; try (cbn in Ht; discriminate). rewrite has_type_slice in Ht. cbn in Vt.
    destruct l as [|x r].
    + cbn in E. inversion E. reflexivity.
    + rewrite enc_slice_unfold in E.
      destruct (map_res (enc_elem sch tb) (x :: r)) as [js| |] eqn:Em; try discriminate. inversion E; subst o. clear E.
      cbn [dec kind_of rv_slice_elem].
      assert (Hd : map_res (dec sch tb t) js = Ok (map (fun y => erase (canon y)) (x :: r))).
      { apply map_res_ext_ok. apply map_res_ok in Em.
        revert H Ht Em. generalize (x :: r) as l. intros l. revert js.
        induction l as [|y l IHl]; intros js HF Ht Em; inversion Em; subst; [constructor|].
        cbn in Ht. apply andb_prop in Ht as [Hy Hl]. inversion HF; subst. constructor.
        - unfold enc_elem in H1. destruct (enc sch tb y) as [[j|]| |] eqn:Ey; try discriminate.
          inversion H1; subst. apply (H2 t Hy (elem_val_ty_ok _ Vt) _ Ey).
        - apply IHl; auto. }
      rewrite Hd. cbn [map canon erase]. rewrite map_map. reflexivity.
  - (* string *)
    destruct t; cbn in Ht; try discriminate. destruct s as [|c s]; cbn in E; inversion E; reflexivity.
  - (* bool *)
    destruct t; cbn in Ht; try discriminate. destruct b; cbn in E; inversion E; reflexivity.
  - (* uint *)
    destruct t; try (cbn in Ht; discriminate). cbn in Ht. apply andb_prop in Ht as [Eu Hfit].
    apply Nat.eqb_eq in Eu. subst uid.
    cbn [enc] in E. destruct (n =? 0)%N eqn:En.
    + inversion E. apply N.eqb_eq in En. subst n. reflexivity.
    + destruct (uint_fits_le _ _ Hfit) as (d & G & Hle). rewrite G in E.
      destruct (sok_uint u d G) as [Hum _].
      destruct (u_stringer d) eqn:St.
      * destruct (op_string tb u n) as [s|] eqn:Os; [|discriminate]. inversion E; subst o.
        cbn [dec kind_of]. unfold is_unmarshaler. rewrite G, Hum.
        rewrite (sok_ops _ _ _ Os). reflexivity.
      * inversion E; subst o. unfold jn. cbn [dec kind_of]. unfold is_unmarshaler. rewrite G, Hum.
        rewrite (json_uint_jn _ Hle). unfold uint_overflows. rewrite Hfit. reflexivity.
  - (* pos: not a value type *)
    apply has_type_pos_ty in Ht. subst t. discriminate.
Qed.

(* the root: Encode then Decode *)
Theorem roundtrip_root : forall u j,
  has_type sch (TIface (node_iface sch)) (VIface (Some u)) = true ->
  encode sch tb (VPtr (Some u)) = Ok j ->
  decode sch tb j = Ok (VIface (Some (erase (canon u)))).
Proof.
  intros u j Ht E.
  assert (Ei : enc sch tb (VIface (Some u)) = Ok (Some j)).
  { unfold encode in E. destruct u as [sid a fs| | | | | | | ]; try discriminate.
    rewrite enc_iface_unfold.
    destruct (enc sch tb (VStruct sid a fs)) as [[[]|]| |]; try discriminate;
      destruct (get_struct sch sid); try discriminate.
    inversion E. reflexivity. }
  pose proof (rt_all (VIface (Some u)) _ Ht eq_refl _ Ei) as R. cbn iota in R.
  unfold decode. rewrite R. reflexivity.
Qed.
End RoundTrip.

(* ---- non-vacuity: a one-kind schema ------------------------------------------------------------------------ *)
Module MiniJ.
  Local Open Scope N_scope.
  (* struct 0 "L": node, fields [V string; P Pos; K []*L; C Node]; interface 0 "Node" = {L} *)
  Definition sch : schema :=
    {| structs := [ {| s_name := [76]; s_node := true;
                       s_fields := [ {| f_name := [86]; f_ty := TString |};
                                     {| f_name := [80]; f_ty := TPos |};
                                     {| f_name := [75]; f_ty := TSlice (TPtr 0) |};
                                     {| f_name := [67]; f_ty := TIface 0 |} ] |} ];
       ifaces := [ {| i_name := [78]; i_impls := [0%nat] |} ];
       uints := []; node_iface := 0 |}.
  Definition tb : tables := {| ops_str := []; ops_unm := []; by_name := [([76], 0%nat)] |}.
  Definition leaf (s : str) (p : pos) : value :=
    VStruct 0 (Some (p, p)) [VStr s; VPos p; VSlice false []; VIface None].
  (* a recovered position, an empty non-nil slice, a nested list and an interface field *)
  Definition tree : value :=
    VStruct 0 (Some ((1, 16385), (9, 16393)))
      [VStr [97]; VPos pos_recovered; VSlice false [VPtr (Some (leaf [98] (3, 16387)))]; VIface (Some (leaf [] (7, 0)))].
  Lemma ok : schema_json_ok sch tb = true. Proof. vm_compute. reflexivity. Qed.
  Lemma typed : has_type sch (TIface 0) (VIface (Some tree)) = true. Proof. vm_compute. reflexivity. Qed.
  Lemma encodes : exists j, encode sch tb (VPtr (Some tree)) = Ok j /\
                            decode sch tb j = Ok (VIface (Some (erase (canon tree)))) /\
                            erase (canon tree) <> erase tree.
  Proof.
    eexists. split; [vm_compute; reflexivity|]. split; [vm_compute; reflexivity|].
    vm_compute. intro H. discriminate.
  Qed.
End MiniJ.
