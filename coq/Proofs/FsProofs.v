From Verif Require Import Base.Str Shfmt.Fs.
Require Import ZifyN ZifyNat ZifyBool.

Lemma cmp_str_eq : forall a b, cmp_str a b = Eq <-> a = b.
Proof.
  induction a as [|x a IH]; destruct b as [|y b]; simpl; split; intro H; try congruence; try discriminate.
  - destruct (N.compare x y) eqn:E; try discriminate.
    apply N.compare_eq_iff in E. apply IH in H. congruence.
  - inversion H; subst. rewrite N.compare_refl. apply IH. reflexivity.
Qed.

Lemma str_eqb_eq : forall a b, str_eqb a b = true <-> a = b.
Proof.
  intros a b. unfold str_eqb. rewrite <- cmp_str_eq. destruct (cmp_str a b); split; congruence.
Qed.

Lemma str_eqb_refl : forall a, str_eqb a a = true.
Proof. intro a. apply str_eqb_eq. reflexivity. Qed.

Lemma str_eqb_neq : forall a b, str_eqb a b = false <-> a <> b.
Proof.
  intros a b. rewrite <- str_eqb_eq. destruct (str_eqb a b); split; congruence.
Qed.

Lemma str_eqb_sym : forall a b, str_eqb a b = str_eqb b a.
Proof.
  intros a b. destruct (str_eqb a b) eqn:E.
  - apply str_eqb_eq in E. subst. symmetry. apply str_eqb_refl.
  - apply str_eqb_neq in E. symmetry. apply str_eqb_neq. congruence.
Qed.

(* --- association lists ------------------------------------------------------ *)
Section AssocLemmas.
  Context {K V : Type} (eqb : K -> K -> bool).
  Hypothesis eqb_spec : forall a b, eqb a b = true <-> a = b.

  Lemma eqb_refl' : forall a, eqb a a = true.
  Proof. intro a. apply eqb_spec. reflexivity. Qed.

  Lemma eqb_false : forall a b, eqb a b = false <-> a <> b.
  Proof. intros a b. rewrite <- eqb_spec. destruct (eqb a b); split; congruence. Qed.

  Lemma alookup_remove_eq : forall k (l : list (K * V)), alookup eqb k (aremove eqb k l) = None.
  Proof.
    induction l as [|[k' v] l IH]; simpl; auto.
    destruct (eqb k k') eqn:E; auto. simpl. rewrite E. exact IH.
  Qed.

  Lemma alookup_remove_neq : forall k k' (l : list (K * V)), k <> k' ->
    alookup eqb k (aremove eqb k' l) = alookup eqb k l.
  Proof.
    induction l as [|[k2 v] l IH]; simpl; intro Hn; auto.
    destruct (eqb k' k2) eqn:E1.
    - apply eqb_spec in E1. subst k2. destruct (eqb k k') eqn:E2.
      + apply eqb_spec in E2. congruence.
      + auto.
    - simpl. destruct (eqb k k2); auto.
  Qed.

  Lemma alookup_in : forall k v (l : list (K * V)), alookup eqb k l = Some v -> In (k, v) l.
  Proof.
    induction l as [|[k2 v2] l IH]; simpl; intro H; try discriminate.
    destruct (eqb k k2) eqn:E.
    - apply eqb_spec in E. subst. inversion H; subst. auto.
    - auto.
  Qed.
End AssocLemmas.

Lemma Neqb_spec : forall a b : N, N.eqb a b = true <-> a = b.
Proof. intros. apply N.eqb_eq. Qed.

Lemma nlook_cons_eq : forall n (v : str * N) l, alookup str_eqb n ((n, v) :: l) = Some v.
Proof. intros. simpl. rewrite str_eqb_refl. reflexivity. Qed.

Lemma nlook_cons_neq : forall n n' (v : str * N) l, n <> n' -> alookup str_eqb n ((n', v) :: l) = alookup str_eqb n l.
Proof. intros. simpl. apply str_eqb_neq in H. rewrite H. reflexivity. Qed.

Lemma fd_on_false : forall c n fd m off, fd_on c n = false -> flook c fd = Some (m, off) -> m <> n.
Proof.
  intros c n fd m off Hf Hl Heq. subst m. unfold fd_on in Hf. unfold flook in Hl.
  apply (alookup_in N.eqb Neqb_spec) in Hl.
  assert (existsb (fun p : N * (str * nat) => str_eqb n (fst (snd p))) (c_fds c) = true).
  { apply existsb_exists. exists (fd, (n, off)). split; auto. simpl. apply str_eqb_refl. }
  congruence.
Qed.

(* --- non-vacuity: concrete histories ------------------------------------------ *)
Open Scope N_scope.
Definition ex_target : str := [47;100;47;97].           (* "/d/a" *)
Definition ex_tmp : str := [47;116;47;46;97;49].        (* "/t/.a1" *)
Definition ex_orig : str := [105;102;59].
Definition ex_new : str := [105;102;32;59;10].
Definition ex_s0 : fs := add_file empty_fs ex_target (mkInode ex_orig 493 Regular).

(* the renameio protocol as shfmt performs it (decoded from strace): create, write, fsync, close, rename *)
Definition ex_good : list op :=
  [OpenRead ex_target 7; Close 7;
   OpenCreatExcl ex_tmp 493 7; Write 7 ex_new; Fsync 7; Close 7; Rename ex_tmp ex_target].

(* in-place rewrite as os.WriteFile does it: open(O_TRUNC), write in two chunks, close *)
Definition ex_bad : list op :=
  [OpenRead ex_target 7; Close 7;
   OpenTrunc ex_target 493 7; Write 7 [105;102]; Write 7 [32;59;10]; Close 7].

Lemma ex_good_accepted : atomic_replace_ok ex_target 493 ex_new ex_good = true.
Proof. vm_compute. reflexivity. Qed.

Lemma ex_good_runs :
  match run ex_good ex_s0 with
  | Some s => look_is s ex_target (mkInode ex_new 493 Regular) && negb (is_some (dir s ex_tmp))
  | None => false
  end = true.
Proof. vm_compute. reflexivity. Qed.

Lemma ex_bad_rejected : atomic_replace_ok ex_target 493 ex_new ex_bad = false.
Proof. vm_compute. reflexivity. Qed.

(* the crash points 3 and 4 of the in-place history show an empty / a partial file *)
Lemma ex_bad_partial :
  exists k s, crash k ex_bad ex_s0 = Some s /\
    look_is s ex_target (mkInode ex_orig 493 Regular) = false /\
    look_is s ex_target (mkInode ex_new 493 Regular) = false /\
    look_is s ex_target (mkInode [105;102] 493 Regular) = true.
Proof.
  exists 4%nat. eexists. split; [vm_compute; reflexivity|]. vm_compute. auto.
Qed.
Close Scope N_scope.
