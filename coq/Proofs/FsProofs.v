From Verif Require Import Base.Str Shfmt.Fs.
Require Import ZifyN ZifyNat ZifyBool.

Lemma cmp_str_eq : forall a b, cmp_str a b = Eq <-> a = b.
Proof.
  induction a as [|x a IH]; destruct b as [|y b]; simpl; split; intro H; try congruence; try discriminate.
  - destruct (N.compare x y) eqn:E; try discriminate.
    apply N.compare_eq_iff in E. apply IH in H. congruence.
  - inversion H; subst. rewrite N.compare_refl. apply IH. reflexivity.
Qed.

Lemma str_eqb_eq : forall a b, str_eqb a b = true <-> a = b.
Proof.
  intros a b. unfold str_eqb. rewrite <- cmp_str_eq. destruct (cmp_str a b); split; congruence.
Qed.

Lemma str_eqb_refl : forall a, str_eqb a a = true.
Proof. intro a. apply str_eqb_eq. reflexivity. Qed.

Lemma str_eqb_neq : forall a b, str_eqb a b = false <-> a <> b.
Proof.
  intros a b. rewrite <- str_eqb_eq. destruct (str_eqb a b); split; congruence.
Qed.

Lemma str_eqb_sym : forall a b, str_eqb a b = str_eqb b a.
Proof.
  intros a b. destruct (str_eqb a b) eqn:E.
  - apply str_eqb_eq in E. subst. symmetry. apply str_eqb_refl.
  - apply str_eqb_neq in E. symmetry. apply str_eqb_neq. congruence.
Qed.

(* --- association lists ------------------------------------------------------ *)
Section AssocLemmas.
  Context {K V : Type} (eqb : K -> K -> bool).
  Hypothesis eqb_spec : forall a b, eqb a b = true <-> a = b.

  Lemma eqb_refl' : forall a, eqb a a = true.
  Proof. intro a. apply eqb_spec. reflexivity. Qed.

  Lemma eqb_false : forall a b, eqb a b = false <-> a <> b.
  Proof. intros a b. rewrite <- eqb_spec. destruct (eqb a b); split; congruence. Qed.

  Lemma alookup_remove_eq : forall k (l : list (K * V)), alookup eqb k (aremove eqb k l) = None.
  Proof.
    induction l as [|[k' v] l IH]; simpl; auto.
    destruct (eqb k k') eqn:E; auto. simpl. rewrite E. exact IH.
  Qed.

  Lemma alookup_remove_neq : forall k k' (l : list (K * V)), k <> k' ->
    alookup eqb k (aremove eqb k' l) = alookup eqb k l.
  Proof.
    induction l as [|[k2 v] l IH]; simpl; intro Hn; auto.
    destruct (eqb k' k2) eqn:E1.
    - apply eqb_spec in E1. subst k2. destruct (eqb k k') eqn:E2.
      + apply eqb_spec in E2. congruence.
      + auto.
    - simpl. destruct (eqb k k2); auto.
  Qed.

  Lemma alookup_in : forall k v (l : list (K * V)), alookup eqb k l = Some v -> In (k, v) l.
  Proof.
    induction l as [|[k2 v2] l IH]; simpl; intro H; try discriminate.
    destruct (eqb k k2) eqn:E.
    - apply eqb_spec in E. subst. inversion H; subst. auto.
    - auto.
  Qed.
End AssocLemmas.

Lemma Neqb_spec : forall a b : N, N.eqb a b = true <-> a = b.
Proof. intros. apply N.eqb_eq. Qed.

Lemma nlook_cons_eq : forall n (v : str * N) l, alookup str_eqb n ((n, v) :: l) = Some v.
Proof. intros. simpl. rewrite str_eqb_refl. reflexivity. Qed.

Lemma nlook_cons_neq : forall n n' (v : str * N) l, n <> n' -> alookup str_eqb n ((n', v) :: l) = alookup str_eqb n l.
Proof. intros. simpl. apply str_eqb_neq in H. rewrite H. reflexivity. Qed.

Lemma fd_on_false : forall c n fd m off, fd_on c n = false -> flook c fd = Some (m, off) -> m <> n.
Proof.
  intros c n fd m off Hf Hl Heq. subst m. unfold fd_on in Hf. unfold flook in Hl.
  apply (alookup_in N.eqb Neqb_spec) in Hl.
  assert (existsb (fun p : N * (str * nat) => str_eqb n (fst (snd p))) (c_fds c) = true).
  { apply existsb_exists. exists (fd, (n, off)). split; auto. simpl. apply str_eqb_refl. }
  congruence.
Qed.

(* the inode an open returns is one a directory entry points to *)
Lemma resolve_dir : forall fuel s n fin j, resolve fuel s n = Some (fin, Some j) -> dir s fin = Some j.
Proof.
  induction fuel; simpl; intros s n fin j.
  - destruct (dir s n) eqn:E; [|intro H; inversion H].
    destruct (ino s n0) as [[b m k]|]; [destruct k|]; intro H; inversion H; subst; auto.
  - destruct (dir s n) eqn:E; [|intro H; inversion H].
    destruct (ino s n0) as [[b m k]|]; [destruct k|]; intro H; try (inversion H; subst; auto; fail). eauto.
Qed.

Lemma resolve_regular : forall fuel s n j b m, dir s n = Some j -> ino s j = Some (mkInode b m Regular) ->
  resolve fuel s n = Some (n, Some j).
Proof. intros fuel s n j b m Hd Hi. destruct fuel; simpl; rewrite Hd, Hi; reflexivity. Qed.


Lemma nlook_set : forall (l : list (str * (str * N))) k v k',
  alookup str_eqb k' ((k, v) :: aremove str_eqb k l) = if str_eqb k' k then Some v else alookup str_eqb k' l.
Proof.
  intros. simpl. destruct (str_eqb k' k) eqn:E; auto.
  apply alookup_remove_neq. exact str_eqb_eq. apply str_eqb_neq. exact E.
Qed.
Lemma nlook_rm : forall (l : list (str * (str * N))) k k',
  alookup str_eqb k' (aremove str_eqb k l) = if str_eqb k' k then None else alookup str_eqb k' l.
Proof.
  intros. destruct (str_eqb k' k) eqn:E.
  - apply str_eqb_eq in E. subst. apply alookup_remove_eq.
  - apply alookup_remove_neq. exact str_eqb_eq. apply str_eqb_neq. exact E.
Qed.
Lemma flook_set : forall (l : list (N * (str * nat))) k v k',
  alookup N.eqb k' ((k, v) :: aremove N.eqb k l) = if N.eqb k' k then Some v else alookup N.eqb k' l.
Proof.
  intros. simpl. destruct (N.eqb k' k) eqn:E; auto.
  apply alookup_remove_neq. exact Neqb_spec. apply N.eqb_neq. exact E.
Qed.
Lemma flook_rm : forall (l : list (N * (str * nat))) k k',
  alookup N.eqb k' (aremove N.eqb k l) = if N.eqb k' k then None else alookup N.eqb k' l.
Proof.
  intros. destruct (N.eqb k' k) eqn:E.
  - apply N.eqb_eq in E. subst. apply alookup_remove_eq.
  - apply alookup_remove_neq. exact Neqb_spec. apply N.eqb_neq. exact E.
Qed.

(* --- the simulation invariant ------------------------------------------------ *)
Local Arguments str_eqb : simpl never.
Local Arguments resolve : simpl never.
Local Opaque LOOPMAX.
Local Arguments upd_s : simpl never.
Local Arguments upd_n : simpl never.
Local Arguments upd_N : simpl never.
Section Sim.
  Variables (replace : bool) (target : str) (mode : N) (new : str) (I0 : inode) (next0 : nat).

  Definition newI := mkInode new mode Regular.

  Definition target_ok (s : fs) : Prop :=
    exists ti I, dir s target = Some ti /\ ino s ti = Some I /\
                 (I = I0 \/ (replace = true /\ I = newI)).

  Definition sole_name (s : fs) (j : nat) (n : str) : Prop :=
    forall n', dir s n' = Some j -> n' = n.

  Definition names_ok (c : cst) (s : fs) : Prop :=
    forall n cont md, nlook c n = Some (cont, md) ->
      exists j, dir s n = Some j /\ ino s j = Some (mkInode cont md Regular) /\ sole_name s j n.

  Definition outside (c : cst) (s : fs) (j : nat) : Prop :=
    dir s target <> Some j /\ forall n, nlook c n <> None -> dir s n <> Some j.

  Definition fds_ok (c : cst) (s : fs) : Prop :=
    forall fd e, fds s fd = Some e ->
      match flook c fd with
      | Some (n, off) => nlook c n <> None /\ dir s n = Some (fe_ino e) /\ fe_off e = off /\ fe_wr e = true
      | None => fe_wr e = true -> outside c s (fe_ino e)
      end.

  Definition cfds_ok (c : cst) (s : fs) : Prop :=
    forall fd n off, flook c fd = Some (n, off) -> fds s fd <> None.

  Definition left_ok (c : cst) (s : fs) : Prop :=
    forall n j, dir s n = Some j -> next0 <= j -> n = target \/ nlook c n <> None.

  Record R (c : cst) (s : fs) : Prop := mkR {
    R_wf : wf s;
    R_next : next0 <= next s;
    R_t : target_ok s;
    R_tn : nlook c target = None;
    R_n : names_ok c s;
    R_f : fds_ok c s;
    R_cf : cfds_ok c s;
    R_l : left_ok c s
  }.

  Ltac str_cases :=
    repeat match goal with
    | H : context [str_eqb ?a ?b] |- _ =>
        let E := fresh "E" in destruct (str_eqb a b) eqn:E;
        [apply str_eqb_eq in E; try subst | apply str_eqb_neq in E]
    | |- context [str_eqb ?a ?b] =>
        let E := fresh "E" in destruct (str_eqb a b) eqn:E;
        [apply str_eqb_eq in E; try subst | apply str_eqb_neq in E]
    end.

  (* the target's inode is never the inode of a created name *)
  Lemma target_not_created : forall c s n cont md j,
    R c s -> nlook c n = Some (cont, md) -> dir s n = Some j -> dir s target <> Some j.
  Proof.
    intros c s n cont md j HR Hn Hd Ht.
    destruct (R_n _ _ HR _ _ _ Hn) as (j' & Hd' & _ & Hsole).
    rewrite Hd in Hd'. inversion Hd'; subst j'.
    apply Hsole in Ht. subst n. rewrite (R_tn _ _ HR) in Hn. discriminate.
  Qed.


  Ltac unf := unfold wf, target_ok, names_ok, fds_ok, cfds_ok, left_ok, outside, sole_name, nlook, flook in *;
              cbn [dir ino fds next fe_ino fe_wr fe_off c_names c_fds] in *.
  Ltac start HR := destruct HR as [[Hwd Hwf] Hnx Ht Htn Hn Hf Hcf Hl]; constructor; [split|..]; unf.

  Ltac beq :=
    match goal with
    | H : str_eqb ?a ?b = true |- _ => apply str_eqb_eq in H; try subst
    | H : str_eqb ?a ?b = false |- _ => apply str_eqb_neq in H
    | H : Nat.eqb ?a ?b = true |- _ => apply Nat.eqb_eq in H; try subst
    | H : Nat.eqb ?a ?b = false |- _ => apply Nat.eqb_neq in H
    | H : N.eqb ?a ?b = true |- _ => apply N.eqb_eq in H; try subst
    | H : N.eqb ?a ?b = false |- _ => apply N.eqb_neq in H
    end.
  Ltac cases :=
    repeat (match goal with
    | |- context [str_eqb ?a ?b] => destruct (str_eqb a b) eqn:?
    | |- context [Nat.eqb ?a ?b] => destruct (Nat.eqb a b) eqn:?
    | |- context [N.eqb ?a ?b] => destruct (N.eqb a b) eqn:?
    | H : context [str_eqb ?a ?b] |- _ => destruct (str_eqb a b) eqn:?
    | H : context [Nat.eqb ?a ?b] |- _ => destruct (Nat.eqb a b) eqn:?
    | H : context [N.eqb ?a ?b] |- _ => destruct (N.eqb a b) eqn:?
    end; repeat beq).
  Ltac fin := try congruence; try lia; eauto.


  Lemma step_Fsync : forall c s c' s' fd,
    R c s -> cstep replace target mode new c (Fsync fd) = Some c' -> step s (Fsync fd) = Some s' -> R c' s'.
  Proof. intros. simpl in *. congruence. Qed.

  Lemma step_OpenRead : forall c s c' s' n fd,
    R c s -> cstep replace target mode new c (OpenRead n fd) = Some c' -> step s (OpenRead n fd) = Some s' -> R c' s'.
  Proof.
    intros c s c' s' n fd HR Hc Hs. simpl in Hc, Hs.
    destruct (flook c fd) eqn:Efl; simpl in Hc; try discriminate. inversion Hc; subst c'; clear Hc.
    destruct (resolve LOOPMAX s n) as [[fin [j|]]|] eqn:Er; try discriminate. injection Hs as <-.
    start HR; auto.
    - intros fd' e. unfold upd_N. cases; fin. intro H; inversion H; subst; cbn [fe_ino fe_wr fe_off].
      apply resolve_dir in Er. eauto.
    - intros fd' e. unfold upd_N. destruct (N.eqb fd fd') eqn:E; beq; [|apply Hf].
      intro H; inversion H; subst; cbn [fe_ino fe_wr fe_off]. unfold flook in Efl. rewrite Efl. discriminate.
    - intros fd' m off H. unfold upd_N. destruct (N.eqb fd fd') eqn:E; beq; [discriminate|eapply Hcf; eauto].
  Qed.

  Lemma step_Close : forall c s c' s' fd,
    R c s -> cstep replace target mode new c (Close fd) = Some c' -> step s (Close fd) = Some s' -> R c' s'.
  Proof.
    intros c s c' s' fd HR Hc Hs. simpl in Hc, Hs. injection Hc as <-. injection Hs as <-.
    start HR; auto.
    - intros fd' e. unfold upd_N. destruct (N.eqb fd fd') eqn:E; beq; [discriminate|]. apply Hwf.
    - intros fd' e. unfold upd_N. destruct (N.eqb fd fd') eqn:E; beq; [discriminate|].
      rewrite flook_rm. replace (N.eqb fd' fd) with false by (symmetry; apply N.eqb_neq; congruence). apply Hf.
    - intros fd' m off. rewrite flook_rm. unfold upd_N. rewrite (N.eqb_sym fd fd').
      destruct (N.eqb fd' fd) eqn:E; [discriminate|]. apply Hcf.
  Qed.

  (* an inode that is neither the target's nor a created file's may change freely *)
  Lemma ino_frame : forall c s ino' fds',
    R c s ->
    (forall j, (dir s target = Some j \/ exists n, nlook c n <> None /\ dir s n = Some j) -> ino' j = ino s j) ->
    (forall fd e, fds' fd = Some e -> exists e0, fds s fd = Some e0 /\ fe_ino e = fe_ino e0 /\ fe_wr e = fe_wr e0 /\
                                        (flook c fd <> None -> fe_off e = fe_off e0)) ->
    (forall fd, fds s fd <> None -> fds' fd <> None) ->
    R c (mkFs (dir s) ino' fds' (next s)).
  Proof.
    intros c s ino' fds' HR Hino Hfds Hdom.
    start HR; auto.
    - intros fd e H. destruct (Hfds _ _ H) as (e0 & H0 & Hi & _). rewrite Hi. eapply Hwf; eauto.
    - destruct Ht as (ti & I & Hd & Hi & HI). exists ti, I. repeat split; auto. rewrite Hino; auto.
    - intros n cont md H. destruct (Hn _ _ _ H) as (j & Hd & Hi & Hso). exists j. repeat split; auto.
      rewrite Hino; auto. right. exists n. split; auto. congruence.
    - intros fd e H. destruct (Hfds _ _ H) as (e0 & H0 & Hi & Hw & Ho). specialize (Hf _ _ H0).
      destruct (alookup N.eqb fd (c_fds c)) as [[m off]|] eqn:El.
      + destruct Hf as (Hm & Hd & Hoff & Hwr). repeat split; auto; try congruence. rewrite Ho; auto. discriminate.
      + rewrite Hi, Hw. exact Hf.
    - intros fd m off H. apply Hdom. eapply Hcf; eauto.
  Qed.

  Lemma step_Write : forall c s c' s' fd data,
    R c s -> cstep replace target mode new c (Write fd data) = Some c' -> step s (Write fd data) = Some s' -> R c' s'.
  Proof.
    intros c s c' s' fd data HR Hc Hs. simpl in Hc, Hs.
    destruct (flook c fd) as [[n off]|] eqn:Efl.
    - (* a descriptor of a created file *)
      destruct (nlook c n) as [[cont md]|] eqn:Enl; try discriminate. injection Hc as <-.
      pose proof (R_cf _ _ HR _ _ _ Efl) as Hex. destruct (fds s fd) as [e|] eqn:Efd; [clear Hex|congruence].
      pose proof (R_f _ _ HR _ _ Efd) as Hfd. rewrite Efl in Hfd. destruct Hfd as (_ & Hdn & Hoff & Hwr).
      destruct (R_n _ _ HR _ _ _ Enl) as (j & Hdj & Hij & Hsole).
      assert (Hne : n <> target) by (intro; subst; rewrite (R_tn _ _ HR) in Enl; discriminate).
      destruct e as [j' w o]. simpl in *. subst w o. assert (j' = j) by congruence. subst j'.
      rewrite Hij in Hs. injection Hs as <-.
      start HR; auto.
      + intros fd' e. unfold upd_N. destruct (N.eqb fd fd') eqn:E; beq.
        * intro H; inversion H; subst; cbn [fe_ino fe_wr fe_off]. eapply Hwd; eauto.
        * apply Hwf.
      + destruct Ht as (ti & I & Hd & Hi & HI). exists ti, I. repeat split; auto.
        unfold upd_n. destruct (Nat.eqb j ti) eqn:E; beq; auto. apply Hsole in Hd. congruence.
      + rewrite nlook_set. replace (str_eqb target n) with false by (symmetry; apply str_eqb_neq; congruence). exact Htn.
      + intros n' cont' md'. rewrite nlook_set. destruct (str_eqb n' n) eqn:E; beq.
        * intro H; inversion H; subst. exists j. unfold upd_n. rewrite Nat.eqb_refl. repeat split; auto.
        * intro H. destruct (Hn _ _ _ H) as (j2 & Hd2 & Hi2 & Hso2). exists j2. repeat split; auto.
          unfold upd_n. destruct (Nat.eqb j j2) eqn:E2; beq; auto. apply Hso2 in Hdj. congruence.
      + intros fd' e. unfold upd_N. rewrite flook_set. rewrite (N.eqb_sym fd' fd). destruct (N.eqb fd fd') eqn:E; beq.
        * intro H; inversion H; subst; cbn [fe_ino fe_wr fe_off]. rewrite nlook_set, str_eqb_refl. repeat split; auto. discriminate.
        * intro H. specialize (Hf _ _ H). destruct (alookup N.eqb fd' (c_fds c)) as [[m o]|] eqn:El.
          -- destruct Hf as (Hm & Hd & Ho & Hw). repeat split; auto. rewrite nlook_set. destruct (str_eqb m n); auto. discriminate.
          -- intro Hw. destruct (Hf Hw) as [H1 H2]. split; auto. intros n2. rewrite nlook_set.
             destruct (str_eqb n2 n) eqn:E2; beq; [intros _|apply H2]. apply H2. unfold nlook in Enl. congruence.
      + intros fd' m o. rewrite flook_set. unfold upd_N. rewrite (N.eqb_sym fd' fd). destruct (N.eqb fd fd') eqn:E; beq.
        * discriminate.
        * apply Hcf.
      + intros n2 j2 Hd2 Hge. rewrite nlook_set. destruct (str_eqb n2 n) eqn:E; beq; [right; discriminate|]. eapply Hl; eauto.
    - (* any other descriptor *)
      injection Hc as <-.
      destruct (fds s fd) as [[j w off]|] eqn:Efd; [|congruence].
      destruct w; [|congruence].
      destruct (ino s j) as [i|] eqn:Ei; [|congruence]. injection Hs as <-.
      pose proof (R_f _ _ HR _ _ Efd) as Hfd. rewrite Efl in Hfd. simpl in Hfd. destruct (Hfd eq_refl) as [Ho1 Ho2].
      apply ino_frame; auto.
      + intros j' [H|(n & Hn1 & Hn2)]; unfold upd_n; destruct (Nat.eqb j j') eqn:E; beq; auto.
        * congruence.
        * exfalso. eapply Ho2; eauto.
      + intros fd' e. unfold upd_N. destruct (N.eqb fd fd') eqn:E; beq.
        * intro H; inversion H; subst; cbn [fe_ino fe_wr fe_off]. exists (mkFd j true off). repeat split; auto. congruence.
        * intro H. exists e. auto.
      + intros fd'. unfold upd_N. destruct (N.eqb fd fd') eqn:E; beq; auto. discriminate.
  Qed.

  (* contents / mode of a created file change, in the checker and in the state alike *)
  Lemma R_set_created : forall c s n cont md j cont' md',
    R c s -> nlook c n = Some (cont, md) -> dir s n = Some j ->
    R (mkCst ((n, (cont', md')) :: aremove str_eqb n (c_names c)) (c_fds c))
      (mkFs (dir s) (upd_n (ino s) j (Some (mkInode cont' md' Regular))) (fds s) (next s)).
  Proof.
    intros c s n cont md j cont' md' HR Enl Hdj.
    destruct (R_n _ _ HR _ _ _ Enl) as (j0 & Hdj0 & Hij & Hsole). assert (j0 = j) by congruence. subst j0.
    assert (Hne : n <> target) by (intro; subst; rewrite (R_tn _ _ HR) in Enl; discriminate).
    start HR; auto.
    - destruct Ht as (ti & I & Hd & Hi & HI). exists ti, I. repeat split; auto.
      unfold upd_n. destruct (Nat.eqb j ti) eqn:E; beq; auto. apply Hsole in Hd. congruence.
    - rewrite nlook_set. replace (str_eqb target n) with false by (symmetry; apply str_eqb_neq; congruence). exact Htn.
    - intros n' c2 m2. rewrite nlook_set. destruct (str_eqb n' n) eqn:E; beq.
      + intro H; inversion H; subst. exists j. unfold upd_n. rewrite Nat.eqb_refl. repeat split; auto.
      + intro H. destruct (Hn _ _ _ H) as (j2 & Hd2 & Hi2 & Hso2). exists j2. repeat split; auto.
        unfold upd_n. destruct (Nat.eqb j j2) eqn:E2; beq; auto. apply Hso2 in Hdj. congruence.
    - intros fd' e H. specialize (Hf _ _ H). destruct (alookup N.eqb fd' (c_fds c)) as [[m o]|] eqn:El.
      + destruct Hf as (Hm & Hd & Ho & Hw). repeat split; auto. rewrite nlook_set. destruct (str_eqb m n); auto. discriminate.
      + intro Hw. destruct (Hf Hw) as [H1 H2]. split; auto. intros n2. rewrite nlook_set.
        destruct (str_eqb n2 n) eqn:E2; beq; [intros _|apply H2]. apply H2. unfold nlook in Enl. congruence.
    - intros n2 j2 Hd2 Hge. rewrite nlook_set. destruct (str_eqb n2 n) eqn:E; beq; [right; discriminate|]. eapply Hl; eauto.
  Qed.

  Lemma step_Fchmod : forall c s c' s' fd md',
    R c s -> cstep replace target mode new c (Fchmod fd md') = Some c' -> step s (Fchmod fd md') = Some s' -> R c' s'.
  Proof.
    intros c s c' s' fd md' HR Hc Hs. simpl in Hc, Hs.
    destruct (flook c fd) as [[n off]|] eqn:Efl; try discriminate.
    destruct (nlook c n) as [[cont md]|] eqn:Enl; try discriminate. injection Hc as <-.
    pose proof (R_cf _ _ HR _ _ _ Efl) as Hex. destruct (fds s fd) as [e|] eqn:Efd; [clear Hex|congruence].
    pose proof (R_f _ _ HR _ _ Efd) as Hfd. rewrite Efl in Hfd. destruct Hfd as (_ & Hdn & _ & _).
    destruct (R_n _ _ HR _ _ _ Enl) as (j & Hdj & Hij & Hsole). assert (fe_ino e = j) by congruence.
    rewrite H, Hij in Hs. injection Hs as <-. unfold set_mode. cbn [i_bytes i_kind].
    eapply R_set_created; eauto.
  Qed.

  Lemma step_Chmod : forall c s c' s' n md',
    R c s -> cstep replace target mode new c (Chmod n md') = Some c' -> step s (Chmod n md') = Some s' -> R c' s'.
  Proof.
    intros c s c' s' n md' HR Hc Hs. simpl in Hc, Hs.
    destruct (nlook c n) as [[cont md]|] eqn:Enl; try discriminate. injection Hc as <-.
    destruct (R_n _ _ HR _ _ _ Enl) as (j & Hdj & Hij & Hsole).
    rewrite (resolve_regular _ _ _ _ _ _ Hdj Hij), Hij in Hs. injection Hs as <-. unfold set_mode. cbn [i_bytes i_kind].
    eapply R_set_created; eauto.
  Qed.

  Lemma step_Unlink : forall c s c' s' n,
    R c s -> cstep replace target mode new c (Unlink n) = Some c' -> step s (Unlink n) = Some s' -> R c' s'.
  Proof.
    intros c s c' s' n HR Hc Hs. simpl in Hc, Hs.
    destruct (str_eqb n target) eqn:Ent; simpl in Hc; try discriminate.
    destruct (fd_on c n) eqn:Efo; try discriminate. injection Hc as <-.
    destruct (dir s n) as [jn|] eqn:Edn; try discriminate. injection Hs as <-. beq.
    pose proof (fd_on_false c n) as Hfo.
    start HR; auto.
    - intros n' j. unfold upd_s. destruct (str_eqb n n') eqn:E; beq; [discriminate|apply Hwd].
    - destruct Ht as (ti & I & Hd & Hi & HI). exists ti, I. repeat split; auto.
      unfold upd_s. destruct (str_eqb n target) eqn:E; beq; congruence.
    - rewrite nlook_rm. destruct (str_eqb target n); auto.
    - intros n' c2 m2. rewrite nlook_rm. destruct (str_eqb n' n) eqn:E; beq; [discriminate|].
      intro H. destruct (Hn _ _ _ H) as (j2 & Hd2 & Hi2 & Hso2). exists j2. unfold upd_s.
      replace (str_eqb n n') with false by (symmetry; apply str_eqb_neq; congruence). repeat split; auto.
      intros n2. destruct (str_eqb n n2); [discriminate|apply Hso2].
    - intros fd' e H. specialize (Hf _ _ H). destruct (alookup N.eqb fd' (c_fds c)) as [[m o]|] eqn:El.
      + destruct Hf as (Hm & Hd & Ho & Hw). assert (m <> n) by (eapply Hfo; eauto).
        rewrite nlook_rm. unfold upd_s.
        replace (str_eqb m n) with false by (symmetry; apply str_eqb_neq; congruence).
        replace (str_eqb n m) with false by (symmetry; apply str_eqb_neq; congruence). auto.
      + intro Hw. destruct (Hf Hw) as [H1 H2]. unfold upd_s. split.
        * destruct (str_eqb n target) eqn:E; beq; congruence.
        * intros n2. rewrite nlook_rm. destruct (str_eqb n2 n) eqn:E; beq; [congruence|].
          replace (str_eqb n n2) with false by (symmetry; apply str_eqb_neq; congruence). apply H2.
    - intros n2 j2. unfold upd_s. rewrite nlook_rm. rewrite (str_eqb_sym n2 n). destruct (str_eqb n n2) eqn:E; beq; [discriminate|]. apply Hl.
  Qed.

  Lemma step_Rename : forall c s c' s' old nw,
    R c s -> cstep replace target mode new c (Rename old nw) = Some c' -> step s (Rename old nw) = Some s' -> R c' s'.
  Proof.
    intros c s c' s' old nw HR Hc Hs. simpl in Hc, Hs.
    destruct (nlook c old) as [[cont md]|] eqn:Enl; try discriminate.
    destruct (fd_on c old) eqn:Efo; simpl in Hc; try discriminate.
    destruct (str_eqb old nw) eqn:Eon; simpl in Hc; try discriminate.
    destruct (R_n _ _ HR _ _ _ Enl) as (j & Hdj & Hij & Hsole).
    rewrite Hdj in Hs. injection Hs as <-. beq.
    assert (Hot : old <> target) by (intro; subst; rewrite (R_tn _ _ HR) in Enl; discriminate).
    pose proof (fd_on_false c old) as Hfo.
    destruct (str_eqb nw target) eqn:Ent; beq.
    - (* the replacement of the target *)
      destruct replace eqn:Erep; simpl in Hc; try discriminate.
      destruct (str_eqb cont new) eqn:Ec; simpl in Hc; try discriminate.
      destruct (N.eqb md mode) eqn:Em; simpl in Hc; try discriminate. injection Hc as <-. repeat beq.
      start HR; auto.
      + intros n' j'. unfold upd_s. destruct (str_eqb old n'); [discriminate|]. destruct (str_eqb target n') eqn:E; beq.
        * intro H; inversion H; subst. eapply Hwd; eauto.
        * apply Hwd.
      + exists j, newI. unfold upd_s. replace (str_eqb old target) with false by (symmetry; apply str_eqb_neq; congruence).
        rewrite str_eqb_refl. repeat split; auto.
      + rewrite nlook_rm. destruct (str_eqb target old); auto.
      + intros n' c2 m2. rewrite nlook_rm. destruct (str_eqb n' old) eqn:E; beq; [discriminate|].
        intro H. destruct (Hn _ _ _ H) as (j2 & Hd2 & Hi2 & Hso2). exists j2.
        assert (n' <> target) by (intro; subst; unfold nlook in Htn; congruence).
        unfold upd_s. replace (str_eqb old n') with false by (symmetry; apply str_eqb_neq; congruence).
        replace (str_eqb target n') with false by (symmetry; apply str_eqb_neq; congruence). repeat split; auto.
        intros n2. destruct (str_eqb old n2); [discriminate|]. destruct (str_eqb target n2) eqn:E3; beq; [|apply Hso2].
        intro H3; inversion H3; subst. apply Hso2 in Hdj. congruence.
      + intros fd' e H. specialize (Hf _ _ H). destruct (alookup N.eqb fd' (c_fds c)) as [[m o]|] eqn:El.
        * destruct Hf as (Hm & Hd & Ho & Hw). assert (m <> old) by (eapply Hfo; eauto).
          assert (m <> target) by (intro; subst; congruence).
          rewrite nlook_rm. unfold upd_s.
          replace (str_eqb m old) with false by (symmetry; apply str_eqb_neq; congruence).
          replace (str_eqb old m) with false by (symmetry; apply str_eqb_neq; congruence).
          replace (str_eqb target m) with false by (symmetry; apply str_eqb_neq; congruence). auto.
        * intro Hw. destruct (Hf Hw) as [H1 H2]. unfold upd_s.
          replace (str_eqb old target) with false by (symmetry; apply str_eqb_neq; congruence). rewrite str_eqb_refl.
          assert (Hj : dir s old <> Some (fe_ino e)) by (apply H2; unfold nlook in Enl; congruence).
          split; [congruence|].
          intros n2. rewrite nlook_rm. destruct (str_eqb n2 old) eqn:E; beq; [congruence|]. intro Hn2.
          replace (str_eqb old n2) with false by (symmetry; apply str_eqb_neq; congruence).
          destruct (str_eqb target n2) eqn:E3; beq; [congruence|]. apply H2; auto.
      + intros n2 j2. unfold upd_s. rewrite nlook_rm. rewrite (str_eqb_sym n2 old).
        destruct (str_eqb old n2) eqn:E; beq; [discriminate|]. destruct (str_eqb target n2) eqn:E3; beq; [auto|]. apply Hl.
    - (* a created file gets another name *)
      destruct (fd_on c nw) eqn:Efn; try discriminate. injection Hc as <-.
      pose proof (fd_on_false c nw) as Hfn.
      assert (Hlk : forall k, alookup str_eqb k ((nw, (cont, md)) :: aremove str_eqb nw (aremove str_eqb old (c_names c))) =
                              if str_eqb k nw then Some (cont, md) else if str_eqb k old then None else alookup str_eqb k (c_names c)).
      { intro k. rewrite nlook_set. destruct (str_eqb k nw); auto. apply nlook_rm. }
      start HR; auto.
      + intros n' j'. unfold upd_s. destruct (str_eqb old n'); [discriminate|]. destruct (str_eqb nw n') eqn:E; beq.
        * intro H; inversion H; subst. eapply Hwd; eauto.
        * apply Hwd.
      + destruct Ht as (ti & I & Hd & Hi & HI). exists ti, I. repeat split; auto. unfold upd_s.
        replace (str_eqb old target) with false by (symmetry; apply str_eqb_neq; congruence).
        replace (str_eqb nw target) with false by (symmetry; apply str_eqb_neq; congruence). exact Hd.
      + rewrite Hlk. replace (str_eqb target nw) with false by (symmetry; apply str_eqb_neq; congruence).
        destruct (str_eqb target old); auto.
      + intros n' c2 m2. rewrite Hlk. destruct (str_eqb n' nw) eqn:E; beq.
        * intro H; inversion H; subst. exists j. unfold upd_s.
          replace (str_eqb old nw) with false by (symmetry; apply str_eqb_neq; congruence). rewrite str_eqb_refl.
          repeat split; auto. intros n2. destruct (str_eqb old n2) eqn:E2; beq; [discriminate|].
          destruct (str_eqb nw n2) eqn:E3; beq; auto. intro H3. apply Hsole in H3. congruence.
        * destruct (str_eqb n' old) eqn:E2; beq; [discriminate|].
          intro H. destruct (Hn _ _ _ H) as (j2 & Hd2 & Hi2 & Hso2). exists j2. unfold upd_s.
          replace (str_eqb old n') with false by (symmetry; apply str_eqb_neq; congruence).
          replace (str_eqb nw n') with false by (symmetry; apply str_eqb_neq; congruence). repeat split; auto.
          intros n2. destruct (str_eqb old n2); [discriminate|]. destruct (str_eqb nw n2) eqn:E3; beq; [|apply Hso2].
          intro H3; inversion H3; subst. apply Hso2 in Hdj. congruence.
      + intros fd' e H. specialize (Hf _ _ H). destruct (alookup N.eqb fd' (c_fds c)) as [[m o]|] eqn:El.
        * destruct Hf as (Hm & Hd & Ho & Hw). assert (m <> old) by (eapply Hfo; eauto). assert (m <> nw) by (eapply Hfn; eauto).
          rewrite Hlk. unfold upd_s.
          replace (str_eqb m nw) with false by (symmetry; apply str_eqb_neq; congruence).
          replace (str_eqb m old) with false by (symmetry; apply str_eqb_neq; congruence).
          replace (str_eqb old m) with false by (symmetry; apply str_eqb_neq; congruence).
          replace (str_eqb nw m) with false by (symmetry; apply str_eqb_neq; congruence). auto.
        * intro Hw. destruct (Hf Hw) as [H1 H2]. unfold upd_s.
          replace (str_eqb old target) with false by (symmetry; apply str_eqb_neq; congruence).
          replace (str_eqb nw target) with false by (symmetry; apply str_eqb_neq; congruence).
          assert (Hj : dir s old <> Some (fe_ino e)) by (apply H2; unfold nlook in Enl; congruence).
          split; auto.
          intros n2. rewrite Hlk. destruct (str_eqb n2 nw) eqn:E; beq.
          -- intros _. replace (str_eqb old nw) with false by (symmetry; apply str_eqb_neq; congruence).
             rewrite str_eqb_refl. congruence.
          -- destruct (str_eqb n2 old) eqn:E2; beq; [congruence|]. intro Hn2.
             replace (str_eqb old n2) with false by (symmetry; apply str_eqb_neq; congruence).
             replace (str_eqb nw n2) with false by (symmetry; apply str_eqb_neq; congruence). apply H2; auto.
      + intros n2 j2. unfold upd_s. rewrite Hlk. rewrite (str_eqb_sym n2 old), (str_eqb_sym n2 nw).
        destruct (str_eqb old n2) eqn:E; beq; [discriminate|]. destruct (str_eqb nw n2) eqn:E3; beq; [intros; right; discriminate|]. apply Hl.
  Qed.

  Lemma step_OpenCreatExcl : forall c s c' s' n md fd,
    R c s -> cstep replace target mode new c (OpenCreatExcl n md fd) = Some c' ->
    step s (OpenCreatExcl n md fd) = Some s' -> R c' s'.
  Proof.
    intros c s c' s' n md fd HR Hc Hs. simpl in Hc, Hs.
    destruct (str_eqb n target) eqn:Ent; simpl in Hc; try discriminate.
    destruct (nlook c n) eqn:Enl; simpl in Hc; try discriminate.
    destruct (flook c fd) eqn:Efl; simpl in Hc; try discriminate.
    injection Hc as <-.
    destruct (dir s n) eqn:Edn; try discriminate. injection Hs as <-. beq.
    start HR; cbn [alookup].
    - intros n' j. unfold upd_s. destruct (str_eqb n n') eqn:E; beq; intro H; [inversion H; lia | apply Hwd in H; lia].
    - intros fd' e. unfold upd_N. destruct (N.eqb fd fd') eqn:E; beq; intro H; [inversion H; subst; cbn [fe_ino]; lia | apply Hwf in H; lia].
    - lia.
    - destruct Ht as (ti & I & Hd & Hi & HI). exists ti, I. unfold upd_s, upd_n.
      replace (str_eqb n target) with false by (symmetry; apply str_eqb_neq; congruence).
      destruct (Nat.eqb (next s) ti) eqn:E; beq; auto. apply Hwd in Hd. lia.
    - replace (str_eqb target n) with false by (symmetry; apply str_eqb_neq; congruence). exact Htn.
    - intros n' cont md'. destruct (str_eqb n' n) eqn:E; beq.
      + intro H; inversion H; subst. exists (next s). unfold upd_s, upd_n. rewrite str_eqb_refl, Nat.eqb_refl.
        repeat split; auto. intros n2. destruct (str_eqb n n2) eqn:E2; beq; auto. intro H2. apply Hwd in H2. lia.
      + intro H. destruct (Hn _ _ _ H) as (j & Hd & Hi & Hso). exists j.
        assert (Hj : j < next s) by (eapply Hwd; eauto).
        unfold upd_s, upd_n.
        replace (str_eqb n n') with false by (symmetry; apply str_eqb_neq; congruence).
        replace (Nat.eqb (next s) j) with false by (symmetry; apply Nat.eqb_neq; lia).
        repeat split; auto. intros n2. destruct (str_eqb n n2) eqn:E2; beq; [|apply Hso].
        intro H2; inversion H2; lia.
    - intros fd' e. unfold upd_N. rewrite (N.eqb_sym fd' fd). destruct (N.eqb fd fd') eqn:E; beq.
      + intro H; inversion H; subst; cbn [fe_ino fe_wr fe_off]. rewrite str_eqb_refl. unfold upd_s. rewrite str_eqb_refl.
        repeat split; auto. discriminate.
      + intro He. specialize (Hf _ _ He).
        assert (Hj : fe_ino e < next s) by (eapply Hwf; eauto).
        destruct (alookup N.eqb fd' (c_fds c)) as [[m off]|] eqn:El.
        * destruct Hf as (Hm & Hd & Ho & Hw). unfold upd_s. destruct (str_eqb m n) eqn:E3; beq.
          -- unfold nlook in Enl. congruence.
          -- replace (str_eqb n m) with false by (symmetry; apply str_eqb_neq; congruence). auto.
        * intro Hw. destruct (Hf Hw) as [Ho1 Ho2]. unfold upd_s.
          replace (str_eqb n target) with false by (symmetry; apply str_eqb_neq; congruence). split; auto.
          intros n2. destruct (str_eqb n2 n) eqn:E3; beq.
          -- rewrite str_eqb_refl. intros _ H2. inversion H2. lia.
          -- replace (str_eqb n n2) with false by (symmetry; apply str_eqb_neq; congruence). apply Ho2.
    - intros fd' m off. unfold upd_N. rewrite (N.eqb_sym fd' fd). destruct (N.eqb fd fd') eqn:E; beq; [discriminate|]. apply Hcf.
    - intros n2 j. unfold upd_s. rewrite (str_eqb_sym n2 n). destruct (str_eqb n n2) eqn:E; beq; [intros; right; discriminate|]. apply Hl.
  Qed.

  (* --- one step, any operation ---------------------------------------------------- *)
  Lemma step_R : forall o c s c' s',
    R c s -> cstep replace target mode new c o = Some c' -> step s o = Some s' -> R c' s'.
  Proof.
    destruct o; intros c s c' s' HR Hc Hs.
    - eapply step_OpenCreatExcl; eauto.
    - eapply step_OpenRead; eauto.
    - simpl in Hc; discriminate.
    - simpl in Hc; discriminate.
    - eapply step_Write; eauto.
    - eapply step_Fchmod; eauto.
    - eapply step_Chmod; eauto.
    - eapply step_Fsync; eauto.
    - eapply step_Close; eauto.
    - eapply step_Rename; eauto.
    - eapply step_Unlink; eauto.
    - simpl in Hc; discriminate.
  Qed.

  Lemma run_R : forall t c s c' s',
    R c s -> crun replace target mode new c t = Some c' -> run t s = Some s' -> R c' s'.
  Proof.
    induction t as [|o t IH]; simpl; intros c s c' s' HR Hc Hs.
    - congruence.
    - destruct (cstep replace target mode new c o) as [c1|] eqn:E1; try discriminate.
      destruct (step s o) as [s1|] eqn:E2; try discriminate.
      apply (IH c1 s1 c' s'); auto. eapply step_R; eauto.
  Qed.

  Lemma crun_prefix : forall t c c' k,
    crun replace target mode new c t = Some c' -> exists c'', crun replace target mode new c (firstn k t) = Some c''.
  Proof.
    induction t as [|o t IH]; intros c c' k Hc.
    - rewrite firstn_nil. simpl. eauto.
    - destruct k; simpl; eauto. simpl in Hc.
      destruct (cstep replace target mode new c o) as [c1|] eqn:E1; try discriminate. eapply IH; eauto.
  Qed.

  Lemma R_init : forall s0,
    init_ok s0 target I0 -> next0 = next s0 -> R cst0 s0.
  Proof.
    intros s0 (Hwf & Hlook & Hfd) Hnx. unfold look in Hlook. destruct (dir s0 target) as [ti|] eqn:Ed; try discriminate.
    constructor; auto.
    - lia.
    - exists ti, I0. auto.
    - intros n cont md H. discriminate.
    - intros fd e H. simpl. intro Hw. split; [rewrite Ed; eapply Hfd; eauto|]. intros n Hn. exfalso; apply Hn; reflexivity.
    - intros fd n off H. discriminate.
    - intros n j Hd Hge. destruct Hwf as [Hwd _]. apply Hwd in Hd. lia.
  Qed.
End Sim.

(* --- the theorems of property C35 --------------------------------------------------- *)
Theorem checker_sound : forall target mode new orig s0 t,
  init_ok s0 target (mkInode orig mode Regular) ->
  atomic_replace_ok target mode new t = true ->
  (forall k s, crash k t s0 = Some s ->
     exists b, look s target = Some (mkInode b mode Regular) /\ (b = orig \/ b = new)) /\
  (forall s, run t s0 = Some s -> forall n j, dir s n = Some j -> next s0 <= j -> n = target).
Proof.
  intros target mode new orig s0 t Hinit Hok. unfold atomic_replace_ok in Hok.
  destruct (crun true target mode new cst0 t) as [c|] eqn:Ec; try discriminate.
  pose proof (R_init true target mode new (mkInode orig mode Regular) (next s0) s0 Hinit eq_refl) as HR0.
  split.
  - intros k s Hk. unfold crash in Hk.
    destruct (crun_prefix true target mode new t cst0 c k Ec) as (c2 & Hc2).
    pose proof (run_R _ _ _ _ _ _ _ _ _ _ _ HR0 Hc2 Hk) as HR.
    destruct (R_t _ _ _ _ _ _ _ _ HR) as (ti & I & Hd & Hi & HI). unfold look. rewrite Hd, Hi.
    destruct HI as [->|[_ ->]]; [exists orig | exists new]; auto.
  - intros s Hs n j Hd Hge.
    pose proof (run_R _ _ _ _ _ _ _ _ _ _ _ HR0 Ec Hs) as HR.
    destruct (R_l _ _ _ _ _ _ _ _ HR _ _ Hd Hge) as [H|H]; auto.
    exfalso. apply H. unfold no_names in Hok. unfold nlook. destruct (c_names c); [reflexivity|discriminate].
Qed.

Theorem nonregular_refused : forall target I0 s0 t,
  init_ok s0 target I0 ->
  untouched_ok target t = true ->
  (forall k s, crash k t s0 = Some s -> look s target = Some I0) /\
  (forall s, run t s0 = Some s -> forall n j, dir s n = Some j -> next s0 <= j -> n = target).
Proof.
  intros target I0 s0 t Hinit Hok. unfold untouched_ok in Hok.
  destruct (crun false target 0%N [] cst0 t) as [c|] eqn:Ec; try discriminate.
  pose proof (R_init false target 0%N [] I0 (next s0) s0 Hinit eq_refl) as HR0.
  split.
  - intros k s Hk. unfold crash in Hk.
    destruct (crun_prefix false target 0%N [] t cst0 c k Ec) as (c2 & Hc2).
    pose proof (run_R _ _ _ _ _ _ _ _ _ _ _ HR0 Hc2 Hk) as HR.
    destruct (R_t _ _ _ _ _ _ _ _ HR) as (ti & I & Hd & Hi & HI). unfold look. rewrite Hd, Hi.
    destruct HI as [->|[H _]]; [reflexivity|discriminate].
  - intros s Hs n j Hd Hge.
    pose proof (run_R _ _ _ _ _ _ _ _ _ _ _ HR0 Ec Hs) as HR.
    destruct (R_l _ _ _ _ _ _ _ _ HR _ _ Hd Hge) as [H|H]; auto.
    exfalso. apply H. unfold no_names in Hok. unfold nlook. destruct (c_names c); [reflexivity|discriminate].
Qed.

(* --- non-vacuity: concrete histories ------------------------------------------ *)
Open Scope N_scope.
Definition ex_target : str := [47;100;47;97].           (* "/d/a" *)
Definition ex_tmp : str := [47;116;47;46;97;49].        (* "/t/.a1" *)
Definition ex_orig : str := [105;102;59].
Definition ex_new : str := [105;102;32;59;10].
Definition ex_s0 : fs := add_file empty_fs ex_target (mkInode ex_orig 493 Regular).

(* the renameio protocol as shfmt performs it (decoded from strace): create, write, fsync, close, rename *)
Definition ex_good : list op :=
  [OpenRead ex_target 7; Close 7;
   OpenCreatExcl ex_tmp 493 7; Write 7 ex_new; Fsync 7; Close 7; Rename ex_tmp ex_target].

(* in-place rewrite as os.WriteFile does it: open(O_TRUNC), write in two chunks, close *)
Definition ex_bad : list op :=
  [OpenRead ex_target 7; Close 7;
   OpenTrunc ex_target 493 7; Write 7 [105;102]; Write 7 [32;59;10]; Close 7].

Lemma ex_good_accepted : atomic_replace_ok ex_target 493 ex_new ex_good = true.
Proof. vm_compute. reflexivity. Qed.

Lemma ex_good_runs :
  match run ex_good ex_s0 with
  | Some s => look_is s ex_target (mkInode ex_new 493 Regular) && negb (is_some (dir s ex_tmp))
  | None => false
  end = true.
Proof. vm_compute. reflexivity. Qed.

Lemma ex_bad_rejected : atomic_replace_ok ex_target 493 ex_new ex_bad = false.
Proof. vm_compute. reflexivity. Qed.

(* the crash points 3 and 4 of the in-place history show an empty / a partial file *)
Lemma ex_bad_partial :
  exists k s, crash k ex_bad ex_s0 = Some s /\
    look_is s ex_target (mkInode ex_orig 493 Regular) = false /\
    look_is s ex_target (mkInode ex_new 493 Regular) = false /\
    look_is s ex_target (mkInode [105;102] 493 Regular) = true.
Proof.
  exists 4%nat. eexists. split; [vm_compute; reflexivity|]. vm_compute. auto.
Qed.

(* the hypotheses of the theorems are satisfiable: ex_s0 is an admissible initial state *)
Lemma ex_init_ok : init_ok ex_s0 ex_target (mkInode ex_orig 493 Regular).
Proof.
  split; [split|split].
  - intros n j. unfold ex_s0, add_file, empty_fs. cbn [dir next]. unfold upd_s.
    destruct (str_eqb ex_target n); intro H; inversion H. lia.
  - intros fd e H. discriminate.
  - vm_compute. reflexivity.
  - intros fd e H. discriminate.
Qed.
Close Scope N_scope.
