(* Proofs/ArithAtoiProofs.v — atoi (through the ParseInt/ParseUint/atoiLargeBase models) agrees with the
   declarative constant grammar lit_value: decimal, 0octal, 0x/0X hex, base#digits for bases 2..64 with bash's
   digit alphabet, optional sign, surrounding blanks; values below 2^63. *)
From Verif Require Import Base.Str Expand.ArithSyntax Expand.Arith.
From Coq Require Import ZifyN ZifyNat ZifyBool.
Open Scope Z_scope.


(* ---------------- digit classes *)
Definition alnum_like (c : N) : Prop := word_char c = true /\ (c <> 43 /\ c <> 45 /\ c <> 35)%N.

Lemma digit_val_some c d : digit_val c = Some d -> 0 <= d /\ word_start c = true.
Proof.
  unfold digit_val, word_start, ascii_letter, ascii_digit, nz.
  destruct ((48 <=? c)%N && (c <=? 57)%N) eqn:E1; [intros H; inversion H; split; lia|].
  destruct ((97 <=? c)%N && (c <=? 122)%N) eqn:E2; [intros H; inversion H; split; lia|].
  destruct ((65 <=? c)%N && (c <=? 90)%N) eqn:E3; [intros H; inversion H; split; lia|]. discriminate.
Qed.

Lemma dec_digit_some c d : dec_digit c = Some d -> digit_val c = Some d /\ 0 <= d < 10 /\ ascii_digit c = true.
Proof.
  unfold dec_digit, digit_val, ascii_digit, nz.
  destruct ((48 <=? c)%N && (c <=? 57)%N) eqn:E; intros H; inversion H; subst. repeat split; lia.
Qed.

Lemma large_digit_some c d : large_digit c = Some d -> 0 <= d /\ word_char c = true /\ (c <> 35)%N.
Proof.
  unfold large_digit, word_char, word_start, ascii_letter, ascii_digit, nz.
  destruct ((48 <=? c)%N && (c <=? 57)%N) eqn:E1; [intros H; inversion H; repeat split; lia|].
  destruct ((97 <=? c)%N && (c <=? 122)%N) eqn:E2; [intros H; inversion H; repeat split; lia|].
  destruct ((65 <=? c)%N && (c <=? 90)%N) eqn:E3; [intros H; inversion H; repeat split; lia|].
  destruct (c =? 64)%N eqn:E4; [intros H; inversion H; repeat split; lia|].
  destruct (c =? 95)%N eqn:E5; [intros H; inversion H; repeat split; lia|]. discriminate.
Qed.

Lemma word_start_char c : word_start c = true -> word_char c = true /\ (c <> 43 /\ c <> 45 /\ c <> 35)%N /\ is_ws c = false.
Proof. unfold word_char, word_start, ascii_letter, ascii_digit, is_ws. lia. Qed.

Lemma word_char_not_ws c : word_char c = true -> is_ws c = false /\ is_space c = false.
Proof. unfold word_char, word_start, ascii_letter, ascii_digit, is_ws, is_space. lia. Qed.

(* ---------------- digits_val facts *)
Section DV.
  Variable dv : N -> option Z.
  Hypothesis dv_nonneg : forall c d, dv c = Some d -> 0 <= d.

  Lemma digits_mono : forall b s n v, 1 <= b -> 0 <= n -> digits_val dv b s n = Some v -> n <= v.
  Proof.
    induction s as [|c r IH]; intros n v Hb Hn H; simpl in H.
    - inversion H; lia.
    - destruct (dv c) as [d|] eqn:E; [|discriminate]. pose proof (dv_nonneg c d E).
      destruct (d <? b); [|discriminate]. apply IH in H; nia.
  Qed.

  Lemma digits_forall : forall b s n v, digits_val dv b s n = Some v -> Forall (fun c => dv c <> None) s.
  Proof.
    induction s as [|c r IH]; intros n v H; [constructor|]. simpl in H.
    destruct (dv c) as [d|] eqn:E; [|discriminate]. destruct (d <? b); [|discriminate].
    constructor; [congruence|eapply IH; exact H].
  Qed.
End DV.

(* ---------------- ParseUint / ParseInt on digit strings *)
Lemma uint_loop_gen dv : (forall c d, dv c = Some d -> digit_val c = Some d /\ 0 <= d) ->
  forall base maxval s n v, 2 <= base -> maxval <= two64 - 1 -> 0 <= n ->
  digits_val dv base s n = Some v -> v <= maxval -> parse_uint_loop base maxval s n = PUVal v.
Proof.
  intros Hdv base maxval. induction s as [|c r IH]; intros n v Hb Hmax Hn H Hv; cbn [digits_val parse_uint_loop] in *.
  - inversion H; reflexivity.
  - destruct (dv c) as [d|] eqn:E; [|discriminate]. destruct (Hdv c d E) as [Hd Hd0]. rewrite Hd.
    destruct (d <? base) eqn:Ed; [|discriminate].
    assert (Hm : n * base + d <= v).
    { apply (digits_mono dv (fun c d H => proj2 (Hdv c d H)) base r); [lia|nia|exact H]. }
    destruct (d >=? base) eqn:E1; [lia|].
    assert (Hq : n <= (two64 - 1) / base) by (apply Z.div_le_lower_bound; [lia|]; unfold two64 in *; lia).
    destruct (n >=? (two64 - 1) / base + 1) eqn:E2; [lia|].
    destruct (n * base + d >? maxval) eqn:E3; [lia|].
    apply IH; try assumption; nia.
Qed.

Lemma parse_int_digits dv : (forall c d, dv c = Some d -> digit_val c = Some d /\ 0 <= d) ->
  forall base bits s v, 2 <= base -> (bits = 8 \/ bits = 64) -> s <> [] ->
  digits_val dv base s 0 = Some v -> v < 2 ^ (bits - 1) -> parse_int s base bits = (v, false).
Proof.
  intros Hdv base bits s v Hb Hbits Hs H Hv.
  destruct s as [|c r]; [congruence|].
  assert (Hc : (c <> 43 /\ c <> 45)%N).
  { simpl in H. destruct (dv c) as [d|] eqn:E; [|discriminate]. destruct (Hdv c d E) as [Hd _].
    apply digit_val_some in Hd. destruct Hd as [_ Hw]. apply word_start_char in Hw. lia. }
  unfold parse_int. assert (E43 : (c =? 43)%N = false) by lia. assert (E45 : (c =? 45)%N = false) by lia.
  rewrite E43, E45.
  assert (H0 : 0 <= v) by (apply (digits_mono dv (fun c d H => proj2 (Hdv c d H)) base (c :: r) 0 v); [lia|lia|exact H]).
  rewrite (uint_loop_gen dv Hdv base (2 ^ bits - 1) (c :: r) 0 v); try assumption; try lia.
  - simpl negb. simpl andb. destruct (v >=? 2 ^ (bits - 1)) eqn:E; [lia|]. reflexivity.
  - destruct Hbits; subst bits; unfold two64; simpl; lia.
  - destruct Hbits; subst bits; simpl in *; lia.
Qed.

Lemma wrap64_small z : - two63 <= z < two63 -> wrap64 z = z.
Proof. unfold wrap64, two63, two64. intros H. rewrite Z.mod_small; lia. Qed.

Lemma atoi_large_spec : forall b s n v, 2 <= b -> 0 <= n ->
  digits_val large_digit b s n = Some v -> v < two63 -> atoi_large b s n = v.
Proof.
  induction s as [|c r IH]; intros n v Hb Hn H Hv; simpl in *.
  - inversion H; reflexivity.
  - destruct (large_digit c) as [d|] eqn:E; [|discriminate]. destruct (large_digit_some c d E) as [Hd _].
    destruct (d <? b) eqn:Ed; [|discriminate].
    assert (Hm : n * b + d <= v).
    { apply (digits_mono large_digit (fun c d H => proj1 (large_digit_some c d H)) b r); [lia|nia|exact H]. }
    destruct (d >=? b) eqn:E1; [lia|].
    rewrite wrap64_small by (unfold two63 in *; nia). apply IH; try assumption; nia.
Qed.

Lemma cut_byte_some : forall c s a b, cut_byte c s = Some (a, b) -> s = a ++ c :: b.
Proof.
  induction s as [|x r IH]; intros a b H; simpl in H; [discriminate|].
  destruct (x =? c)%N eqn:E.
  - inversion H; subst. apply N.eqb_eq in E. subst. reflexivity.
  - destruct (cut_byte c r) as [[a' b']|] eqn:E2; [|discriminate]. inversion H; subst.
    simpl. f_equal. apply IH. reflexivity.
Qed.

Lemma dec_hyp : forall c d, dec_digit c = Some d -> digit_val c = Some d /\ 0 <= d.
Proof. intros c d H. destruct (dec_digit_some c d H) as (H1 & H2 & _). split; [exact H1|lia]. Qed.
Lemma small_hyp : forall c d, small_digit c = Some d -> digit_val c = Some d /\ 0 <= d.
Proof. intros c d H. split; [exact H|]. apply digit_val_some in H. tauto. Qed.

(* ---------------- atoi on the constant grammar *)
Theorem atoi_body_lit : forall w n neg, lit_value w = Some n -> n < two63 ->
  atoi_body neg w = if neg then - n else n.
Proof.
  intros w n neg Hl Hn.
  assert (Hfin : forall m, 0 <= m < two63 -> (if neg then wrap64 (- m) else m) = if neg then - m else m).
  { intros m Hm. destruct neg; [|reflexivity]. apply wrap64_small. unfold two63 in *. lia. }
  unfold lit_value in Hl. unfold atoi_body. destruct w as [|c r]; [discriminate|].
  destruct (c =? 48)%N eqn:E48.
  - destruct r as [|c2 r2].
    + inversion Hl; subst. destruct neg; reflexivity.
    + destruct ((c2 =? 120)%N || (c2 =? 88)%N) eqn:Ex.
      * destruct r2 as [|c3 r3]; [discriminate|]. simpl nonempty in Hl. cbv iota in Hl.
        assert (H0 : 0 <= n) by (apply (digits_mono small_digit (fun c d H => proj2 (small_hyp c d H)) 16 (c3 :: r3) 0 n); [lia|lia|exact Hl]).
        assert (Hpi : parse_int (c3 :: r3) 16 64 = (n, false)) by (apply (parse_int_digits small_digit small_hyp); [lia|right; reflexivity|try discriminate; assumption|assumption|change (2 ^ (64 - 1)) with two63; lia]).
        rewrite Hpi; clear Hpi.
        simpl fst. apply Hfin; lia.
      * assert (H0 : 0 <= n) by (apply (digits_mono dec_digit (fun c d H => proj2 (dec_hyp c d H)) 8 (c2 :: r2) 0 n); [lia|lia|exact Hl]).
        assert (Hpi : parse_int (c2 :: r2) 8 64 = (n, false)) by (apply (parse_int_digits dec_digit dec_hyp); [lia|right; reflexivity|try discriminate; assumption|assumption|change (2 ^ (64 - 1)) with two63; lia]).
        rewrite Hpi; clear Hpi.
        simpl fst. apply Hfin; lia.
  - destruct (cut_byte 35 (c :: r)) as [[bs ds]|] eqn:Ecut.
    + destruct (digits_val dec_digit 10 bs 0) as [b|] eqn:Eb; [|discriminate].
      destruct (nonempty bs && (2 <=? b) && (b <=? 64) && nonempty ds) eqn:Econd; [|discriminate].
      assert (Hbs : bs <> [] /\ 2 <= b <= 64 /\ ds <> []).
      { destruct bs; destruct ds; simpl in Econd; try discriminate; try (rewrite ?andb_false_r in Econd; discriminate).
        repeat split; try discriminate; lia. }
      destruct Hbs as (Hbs & Hb & Hds).
      assert (Hpi : parse_int bs 10 8 = (b, false)) by (apply (parse_int_digits dec_digit dec_hyp); [lia|left; reflexivity|try discriminate; assumption|assumption|simpl; lia]).
        rewrite Hpi; clear Hpi.
      assert (Ec : false || (b <? 2) || (b >? 64) = false) by lia. rewrite Ec.
      destruct (b <=? 36) eqn:E36.
      * assert (H0 : 0 <= n) by (apply (digits_mono small_digit (fun c d H => proj2 (small_hyp c d H)) b ds 0 n); [lia|lia|exact Hl]).
        assert (Eg : (b >? 36) = false) by lia. rewrite Eg.
        assert (Hpi : parse_int ds b 64 = (n, false)) by (apply (parse_int_digits small_digit small_hyp); [lia|right; reflexivity|try discriminate; assumption|assumption|change (2 ^ (64 - 1)) with two63; lia]).
        rewrite Hpi; clear Hpi.
        simpl fst. apply Hfin; lia.
      * assert (H0 : 0 <= n) by (apply (digits_mono large_digit (fun c d H => proj1 (large_digit_some c d H)) b ds 0 n); [lia|lia|exact Hl]).
        assert (Eg : (b >? 36) = true) by lia. rewrite Eg.
        rewrite (atoi_large_spec b ds 0 n); try lia; try assumption. apply Hfin; lia.
    + assert (H0 : 0 <= n) by (apply (digits_mono dec_digit (fun c d H => proj2 (dec_hyp c d H)) 10 (c :: r) 0 n); [lia|lia|exact Hl]).
      assert (Hpi : parse_int (c :: r) 10 64 = (n, false)) by (apply (parse_int_digits dec_digit dec_hyp); [lia|right; reflexivity|try discriminate; assumption|assumption|change (2 ^ (64 - 1)) with two63; lia]).
        rewrite Hpi; clear Hpi.
      simpl fst. apply Hfin; lia.
Qed.



(* ---------------- characters of a constant *)
Lemma forall_word (dv : N -> option Z) s : (forall c, dv c <> None -> word_char c = true /\ (c <> 35)%N) ->
  Forall (fun c => dv c <> None) s -> Forall (fun c => word_char c = true /\ (c <> 35)%N) s.
Proof. intros H F. eapply Forall_impl; [|exact F]. intros c Hc. apply H. exact Hc. Qed.

Lemma dec_word c : dec_digit c <> None -> word_char c = true /\ (c <> 35)%N.
Proof.
  destruct (dec_digit c) as [d|] eqn:E; [|congruence]. intros _.
  destruct (dec_digit_some c d E) as (_ & _ & Hd). unfold word_char, word_start, ascii_letter, ascii_digit in *. lia.
Qed.
Lemma small_word c : small_digit c <> None -> word_char c = true /\ (c <> 35)%N.
Proof.
  unfold small_digit. destruct (digit_val c) as [d|] eqn:E; [|congruence]. intros _.
  apply digit_val_some in E. destruct E as [_ Hw]. apply word_start_char in Hw. tauto.
Qed.
Lemma large_word c : large_digit c <> None -> word_char c = true /\ (c <> 35)%N.
Proof.
  destruct (large_digit c) as [d|] eqn:E; [|congruence]. intros _.
  apply large_digit_some in E. tauto.
Qed.

Lemma Forall_wc s : Forall (fun c => word_char c = true /\ (c <> 35)%N) s -> Forall (fun c => word_char c = true) s.
Proof. intros H. eapply Forall_impl; [|exact H]. intros a [Ha _]. exact Ha. Qed.

Definition wordish (w : str) : Prop :=
  (exists c r, w = c :: r /\ ascii_digit c = true) /\ Forall (fun c => word_char c = true) w.

Lemma lit_wordish : forall w n, lit_value w = Some n -> wordish w.
Proof.
  intros w n Hl. unfold lit_value in Hl. destruct w as [|c r]; [discriminate|].
  destruct (c =? 48)%N eqn:E48.
  - assert (Hc : ascii_digit c = true /\ word_char c = true) by (unfold word_char, word_start, ascii_letter, ascii_digit; lia).
    split; [exists c, r; split; [reflexivity|tauto]|]. constructor; [tauto|].
    destruct r as [|c2 r2]; [constructor|].
    destruct ((c2 =? 120)%N || (c2 =? 88)%N) eqn:Ex.
    + constructor; [unfold word_char, word_start, ascii_letter; lia|].
      destruct (nonempty r2); [|discriminate].
      apply digits_forall in Hl. apply (forall_word _ _ small_word) in Hl.
      apply Forall_wc; exact Hl.
    + apply digits_forall in Hl. apply (forall_word _ _ dec_word) in Hl.
      apply Forall_wc; exact Hl.
  - destruct (cut_byte 35 (c :: r)) as [[bs ds]|] eqn:Ecut.
    + destruct (digits_val dec_digit 10 bs 0) as [b|] eqn:Eb; [|discriminate].
      destruct (nonempty bs && (2 <=? b) && (b <=? 64) && nonempty ds) eqn:Econd; [|discriminate].
      apply cut_byte_some in Ecut.
      assert (Fbs : Forall (fun c => word_char c = true) bs).
      { apply digits_forall in Eb. apply (forall_word _ _ dec_word) in Eb. apply Forall_wc; exact Eb. }
      assert (Fds : Forall (fun c => word_char c = true) ds).
      { destruct (b <=? 36); apply digits_forall in Hl;
          [apply (forall_word _ _ small_word) in Hl | apply (forall_word _ _ large_word) in Hl];
          apply Forall_wc; exact Hl. }
      split.
      * destruct bs as [|b0 bs']; [simpl in Econd; discriminate|]. simpl in Ecut. inversion Ecut; subst.
        exists b0, (bs' ++ 35%N :: ds). split; [reflexivity|].
        simpl in Eb. destruct (dec_digit b0) as [d|] eqn:Ed; [|discriminate].
        apply dec_digit_some in Ed. tauto.
      * rewrite Ecut. apply Forall_app. split; [exact Fbs|]. constructor; [reflexivity|exact Fds].
    + assert (F : Forall (fun c => word_char c = true) (c :: r)).
      { apply digits_forall in Hl. apply (forall_word _ _ dec_word) in Hl. apply Forall_wc; exact Hl. }
      split; [|exact F]. exists c, r. split; [reflexivity|].
      simpl in Hl. destruct (dec_digit c) as [d|] eqn:Ed; [|discriminate]. apply dec_digit_some in Ed. tauto.
Qed.

Lemma trim_left_blanks ws s : forallb blank ws = true -> trim_left (ws ++ s) = trim_left s.
Proof.
  induction ws as [|c r IH]; intros H; [reflexivity|]. simpl in H. apply andb_prop in H. destruct H as [Hc Hr].
  simpl. assert (E : is_ws c = true) by (unfold blank, is_ws in *; lia). rewrite E. apply IH. exact Hr.
Qed.

Lemma trim_left_nows c r : is_ws c = false -> trim_left (c :: r) = c :: r.
Proof. intros H. simpl. rewrite H. reflexivity. Qed.

Lemma trim_text ws1 body ws2 :
  forallb blank ws1 = true -> forallb blank ws2 = true -> body <> [] ->
  (forall c, In c body -> is_ws c = false) -> trim (ws1 ++ body ++ ws2) = body.
Proof.
  intros H1 H2 Hne Hb. unfold trim. rewrite trim_left_blanks by exact H1.
  destruct body as [|b0 br]; [congruence|]. simpl app.
  rewrite trim_left_nows by (apply Hb; left; reflexivity).
  change (b0 :: br ++ ws2) with ((b0 :: br) ++ ws2). rewrite rev_app_distr.
  rewrite trim_left_blanks by (rewrite forallb_forall in *; intros x Hx; apply H2; apply in_rev; exact Hx).
  destruct (rev (b0 :: br)) as [|l lr] eqn:Er.
  - apply (f_equal (@length N)) in Er. rewrite rev_length in Er. simpl in Er. lia.
  - rewrite trim_left_nows.
    + rewrite <- Er. apply rev_involutive.
    + apply Hb. apply in_rev. rewrite Er. left; reflexivity.
Qed.

Theorem atoi_int_text : forall v sg w n,
  int_text v sg w -> lit_value w = Some n -> n < two63 -> atoi v = sign_val sg n.
Proof.
  intros v sg w n (ws1 & ws2 & -> & Hb1 & Hb2) Hl Hn.
  destruct (lit_wordish w n Hl) as [(c & r & -> & Hc) Hall].
  assert (Hbody : forall x, In x (sign_text sg ++ c :: r) -> is_ws x = false).
  { intros x Hx. apply in_app_or in Hx. destruct Hx as [Hx|Hx].
    - destruct sg; simpl in Hx; try tauto; destruct Hx as [<-|[]]; reflexivity.
    - rewrite Forall_forall in Hall. apply word_char_not_ws. apply Hall. exact Hx. }
  unfold atoi.
  replace (ws1 ++ sign_text sg ++ (c :: r) ++ ws2) with (ws1 ++ (sign_text sg ++ c :: r) ++ ws2)
    by (rewrite <- app_assoc; reflexivity).
  rewrite trim_text; try assumption.
  - assert (E43 : (c =? 43)%N = false) by (unfold ascii_digit in Hc; lia).
    assert (E45 : (c =? 45)%N = false) by (unfold ascii_digit in Hc; lia).
    assert (Hss : strip_sign (sign_text sg ++ c :: r) = (match sg with SMinus => true | _ => false end, c :: r)).
    { destruct sg; simpl; rewrite ?E43, ?E45; reflexivity. }
    rewrite Hss. rewrite (atoi_body_lit _ n _ Hl Hn). destruct sg; reflexivity.
  - destruct sg; discriminate.
Qed.
