(* KF/C04KF.v -- Coq twins of the class predicates of the C04 known findings that are about
   the arithmetic tree (the Go twins are in harness/cmd/c04; the code leg compares the two on
   every exported arithmetic root).  Definitions only. *)
From Verif Require Import Base.Str Syntax.Simplify.
Open Scope N_scope.

(* names n such that the expression contains an operand $n / ${n} that inlineSimpleParams accepts *)
Fixpoint inlined_names (e : aexpr) : list str :=
  match e with
  | AWord [WParam _ fl name] => if valid_name name && (fl =? 0) then [name] else []
  | AWord _ => []
  | AUn _ _ x => inlined_names x
  | ABin _ x y => inlined_names x ++ inlined_names y
  | AParen x => inlined_names x
  end.

(* names written by ++ -- and the assignment operators *)
Fixpoint modified_names (e : aexpr) : list str :=
  match e with
  | AWord _ => []
  | AUn op _ x =>
      (if un_incdec op then match x with AWord w => [word_lit w] | _ => [] end else []) ++ modified_names x
  | ABin op x y =>
      (if bin_assign op then match x with AWord w => [word_lit w] | _ => [] end else [])
      ++ modified_names x ++ modified_names y
  | AParen x => modified_names x
  end.

(* KF-C04-3 arith_dollar_param_after_side_effect: the expression both inlines $v and modifies v *)
Definition kf_dollar_param_after_side_effect (e : aexpr) : bool :=
  existsb (fun n => existsb (str_eqb n) (modified_names e)) (inlined_names e).

(* KF-C04-1 assoc_index_param_inlined, tree part: a subscript with an inlinable operand below
   its top (whether the array is associative is a property of the program, not of the tree) *)
Definition kf_index_inlines_below_top (e : aexpr) : bool :=
  match e with
  | AWord _ => false
  | _ => match inlined_names e with [] => false | _ => true end
  end.

(* KF-C04-4 arith_dollar_exponent_unevaluated, tree part: some ** (operator code 24) has an
   inlinable operand in its exponent *)
Fixpoint kf_dollar_exponent (e : aexpr) : bool :=
  match e with
  | AWord _ => false
  | AUn _ _ x => kf_dollar_exponent x
  | ABin op x y =>
      ((op =? 24) && match inlined_names y with [] => false | _ => true end)
      || kf_dollar_exponent x || kf_dollar_exponent y
  | AParen x => kf_dollar_exponent x
  end.

(* the pinned witness  $((++c, $c))  is in the class; $((++c, $d)) is not *)
Example kf3_witness :
  kf_dollar_param_after_side_effect
    (ABin 100 (AUn 0 false (AWord [WLit [99]])) (AWord [WParam true 0 [99]])) = true /\
  kf_dollar_param_after_side_effect
    (ABin 100 (AUn 0 false (AWord [WLit [99]])) (AWord [WParam true 0 [100]])) = false.
Proof. split; reflexivity. Qed.
