(* Props/C32.v — Concurrent shell features are race-free (model level). Theorems only.
   The Go memory model is NOT modelled; these theorems are about ownership of heap
   cells in the sequentially consistent model Interp/Isolation.v.  Data-race freedom
   of the real binary rests on the race-detector runs of checks/c32.py. *)
From Verif Require Import Base.Str Base.GoSlice Interp.Isolation Proofs.IsolationProofs.

(* A background copy (background job, pipeline stage, process substitution,
   Runner.Subshell) never stores into a cell that existed when it was created,
   whatever it runs: the cells it shares with its parent are read-only for it. *)
Theorem C32_no_shared_writes_child :
  forall grow r h ops,
    let g := st_h (run_ops grow ops (subshell_state grow true r h)) in
    (forall l, l < length (ha h) -> nth_error (ha g) l = nth_error (ha h) l) /\
    (forall l, l < length (ho h) -> nth_error (ho g) l = nth_error (ho h) l).
Proof. exact (fun grow r h ops => child_writes_only_own_cells grow r h true ops). Qed.
Print Assumptions C32_no_shared_writes_child.

(* The thread that goes on in the parent Runner (after `&`, the last pipeline stage,
   the caller of Runner.Subshell): Pa/Po mark the cells only it can reach — its own
   overlay chain, Funcs, alias, dirStack array.  Whatever it runs, it stores only into
   those and into cells it allocates afterwards: every other existing cell, in
   particular every array and map a variable points to (which the child's shallow
   copies share), keeps its contents.
   PARTIAL: thread-modular; the interleaved execution of both threads is not modelled
   (it needs the additional invariant that a Runner holds no pointer to a cell
   allocated by the other thread), and reads are not tracked. *)
Theorem C32_no_shared_writes_parent_partial :
  forall grow (Pa Po : loc -> Prop) r h ops,
    let owna := fun l => Pa l \/ length (ha h) <= l in
    let owno := fun l => Po l \/ length (ho h) <= l in
    rinv owna owno r -> fs_closed owno h ->
    let g := st_h (run_ops grow ops (mkSt r h false)) in
    (forall l, l < length (ha h) -> ~ Pa l -> nth_error (ha g) l = nth_error (ha h) l) /\
    (forall l, l < length (ho h) -> ~ Po l -> nth_error (ho g) l = nth_error (ho h) l).
Proof. exact parent_writes_only_own_cells. Qed.
Print Assumptions C32_no_shared_writes_parent_partial.

(* `wait g<n>`: for every interleaving of job starts and goroutine steps, when wait
   returns it returns the status of the n-th started job (bgProcs is append-only,
   *bg.exit is written before done is closed). *)
Theorem C32_wait_status :
  forall (evs : list event) (n : nat) (st : N),
    wait_result (run_events evs []) (S n) = Some (Ok st) -> nth_error (spawned evs) n = Some st.
Proof. exact wait_status. Qed.
Print Assumptions C32_wait_status.

Theorem C32_wait_not_a_child :
  forall evs n, length (spawned evs) <= n -> wait_result (run_events evs []) (S n) = Some (Err 1%N).
Proof. exact wait_not_child. Qed.

Theorem C32_wait_returns_once_done :
  forall evs n,
    (exists j, nth_error (run_events evs []) n = Some j /\ j_pc j = 2) ->
    exists st, wait_result (run_events evs []) (S n) = Some (Ok st).
Proof. exact wait_returns. Qed.
Print Assumptions C32_wait_returns_once_done.
