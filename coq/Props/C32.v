(* Props/C32.v — Concurrent shell features are race-free (model level). Theorems only.
   The Go memory model is NOT modelled; these theorems are about ownership of heap
   cells in the sequentially consistent model Interp/Isolation.v.  Data-race freedom
   of the real binary rests on the race-detector runs of checks/c32.py. *)
From Verif Require Import Base.Str Base.GoSlice Interp.Isolation Proofs.IsolationProofs.

(* A background copy (background job, pipeline stage, process substitution,
   Runner.Subshell) never stores into a cell that existed when it was created,
   whatever it runs: the cells it shares with its parent are read-only for it. *)
Theorem C32_no_shared_writes_child :
  forall grow r h ops,
    let g := st_h (run_ops grow ops (subshell_state grow true r h)) in
    (forall l, l < length (ha h) -> nth_error (ha g) l = nth_error (ha h) l) /\
    (forall l, l < length (ho h) -> nth_error (ho g) l = nth_error (ho h) l).
Proof. exact (fun grow r h ops => child_writes_only_own_cells grow r h true ops). Qed.
Print Assumptions C32_no_shared_writes_child.

(* Two threads, ANY interleaving.  After Runner.subshell(true) the parent Runner and the
   copy take steps in an arbitrary order (list of (thread, operation)) on the shared heaps.
   ta/to classify the cells that exist at the fork: TParent = the parent's private roots
   (its overlay chain, Funcs, alias, dirStack array: any classification for which the
   parent's invariant tinv holds), TShared = everything else (all arrays and maps that
   variables point to, which the copy shares).  Cells allocated later are tagged with the
   thread that allocated them.  Then, for every schedule:
   - all_ok: every step of a thread leaves every existing cell NOT tagged with that thread
     unchanged (it writes neither a shared cell nor a cell of the other thread);
   - cinv holds of every reachable configuration: every pointer a Runner stores through
     (overlay chain, Funcs, alias, dirStack, saved scopes) is to an allocated cell tagged with
     its own thread, i.e. there is no pointer from one thread's roots into cells of the
     other, and no dangling one;
   - shared cells keep the contents they had at the fork.
   Not covered: pointers held INSIDE variables (slices, maps) are not tracked, so "thread u
   never READS a cell tagged t" is proved only for the root pointers; the Go memory model
   is not modelled. *)
Theorem C32_no_shared_writes :
  forall grow r h ta to (evs : list (bool * op)),
    length ta = length (ha h) -> length to = length (ho h) ->
    tinv TParent ta to r h -> (forall l, nth l to TShared <> TChild) ->
    all_ok grow evs (fork_conf grow r h ta to) /\
    cinv (run_sched grow evs (fork_conf grow r h ta to)) /\
    (forall l, l < length ta -> nth l ta TShared = TShared ->
       nth_error (ha (cf_h (run_sched grow evs (fork_conf grow r h ta to)))) l = nth_error (ha h) l) /\
    (forall l, l < length to -> nth l to TShared = TShared ->
       nth_error (ho (cf_h (run_sched grow evs (fork_conf grow r h ta to)))) l = nth_error (ho h) l).
Proof. exact no_shared_writes_interleaved. Qed.
Print Assumptions C32_no_shared_writes.

(* The copy's observation is unaffected by whatever the parent does after the fork.
   Hypotheses closedP/okR: what the copy can reach (its Runner, the cells not tagged TParent)
   stores no pointer to a parent-private cell.  They are decidable facts about the fork
   state (boolean checkers closedPb/okRb with soundness lemmas exist, see the Example below);
   that they hold for every reachable fork state (pointer closure of variables, established
   by Runner.subshell) is NOT proved here -- the deterministic `vis` matrix of checks/c32.py
   tests the statement on the code. *)
Theorem C32_copy_unaffected_by_parent :
  forall grow r h ta to (ops : list op),
    length ta = length (ha h) -> length to = length (ho h) ->
    tinv TParent ta to r h -> (forall l, nth l to TShared <> TChild) ->
    closedP (not_parent (cf_ta (fork_conf grow r h ta to))) (not_parent (cf_to (fork_conf grow r h ta to)))
            (cf_h (fork_conf grow r h ta to)) ->
    okR (not_parent (cf_ta (fork_conf grow r h ta to))) (not_parent (cf_to (fork_conf grow r h ta to)))
        (cf_c (fork_conf grow r h ta to)) ->
    observe (cf_c (fork_conf grow r h ta to))
            (cf_h (run_sched grow (map (fun o => (true, o)) ops) (fork_conf grow r h ta to))) =
    observe (cf_c (fork_conf grow r h ta to)) (cf_h (fork_conf grow r h ta to)).
Proof. exact copy_unaffected_by_parent. Qed.
Print Assumptions C32_copy_unaffected_by_parent.

(* The hypotheses of C32_copy_unaffected_by_parent are satisfiable: a concrete parent (array,
   associative array, function), the classification "environment objects and Funcs are the
   parent's, every array and map is shared", checked with the boolean checkers closedPb/okRb
   (sound by closedPb_spec / okRb_spec); and the theorem applied to it for ALL operation lists. *)
Example C32_copy_hypotheses_satisfiable :
  length ex_ta = length (ha (st_h ex_parent)) /\ length ex_to = length (ho (st_h ex_parent)) /\
  tinv TParent ex_ta ex_to (st_r ex_parent) (st_h ex_parent) /\
  (forall l, nth l ex_to TShared <> TChild) /\
  closedP (not_parent (cf_ta ex_cf)) (not_parent (cf_to ex_cf)) (cf_h ex_cf) /\
  okR (not_parent (cf_ta ex_cf)) (not_parent (cf_to ex_cf)) (cf_c ex_cf).
Proof. exact ex_fork_hyps. Qed.
Example C32_copy_unaffected_instance :
  forall ops,
    observe (cf_c ex_cf) (cf_h (run_sched ex_grow (map (fun o => (true, o)) ops) ex_cf)) =
    observe (cf_c ex_cf) (cf_h ex_cf).
Proof. exact ex_copy_unaffected. Qed.
Print Assumptions C32_copy_unaffected_instance.

(* `wait g<n>`: for every interleaving of job starts and goroutine steps, when wait
   returns it returns the status of the n-th started job (bgProcs is append-only,
   *bg.exit is written before done is closed). *)
Theorem C32_wait_status :
  forall (evs : list event) (n : nat) (st : N),
    wait_result (run_events evs []) (S n) = Some (Ok st) -> nth_error (spawned evs) n = Some st.
Proof. exact wait_status. Qed.
Print Assumptions C32_wait_status.

Theorem C32_wait_not_a_child :
  forall evs n, length (spawned evs) <= n -> wait_result (run_events evs []) (S n) = Some (Err 1%N).
Proof. exact wait_not_child. Qed.

Theorem C32_wait_returns_once_done :
  forall evs n,
    (exists j, nth_error (run_events evs []) n = Some j /\ j_pc j = 2) ->
    exists st, wait_result (run_events evs []) (S n) = Some (Ok st).
Proof. exact wait_returns. Qed.
Print Assumptions C32_wait_returns_once_done.
