(* Props/C26.v — property theorems only (placeholder while the proofs are being built). *)
From Verif Require Import Base.Str Interp.Core Interp.Flags Interp.Sem.
From Coq Require Import String.
Open Scope string_scope.

Example C26_models_compute :
  obs (run_prog 50 [Stmt false (CCall [WLit (bs "echo")] [[WLit (bs "a")]])] init_st) = ([97; 10]%N, 0%N, []).
Proof. vm_compute. reflexivity. Qed.
