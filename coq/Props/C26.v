(* Props/C26.v — C26 "The interpreter runs supported programs like bash": property theorems only.

   Full statement (properties.jsonl): for every program of the supported language the interpreter
   writes the same stdout and exits with the same status as bash.

   What is proved here, for the CORE language of Interp/Core.v (echo, true, false, ":", assignments,
   "$x", "$?", "$(list)" command substitution, !, && ||, pipelines | with set -o pipefail, lists, { }, ( ),
   if/elif/else, while/until, for, case with literal patterns, functions and return, break n / continue n,
   exit n, set -e / set +e, unknown commands):
   the flag machine transliterated from interp/runner.go (Interp/Flags.v: stop() tests, flags
   returning/exiting/breakEnclosing/contnEnclosing/inLoop/inFunc/noErrExit/lastExit) computes, for EVERY
   program, EVERY fuel and every clean initial state, exactly the stdout, status and variables of the
   structured big-step semantics (Interp/Sem.v), unless the semantics aborts with one of its named
   classes (Sem.abort: out of fuel, outside the core language, or one of the known divergences
   ABadCount / ABadStatus / AReturnOutside / ABreakInCond / ASetInIgnored / ANegatedInSubshell /
   AErrexitInSubst / APipeLastStage / ASubstStatus / AEmptyCond).
   The semantics itself is tied to real bash 5.2, and the machine to the real interp.Runner, by the
   legs of checks/c26.py on every run.  The model is of the REPAIRED tree: the divergences found while
   building this proof (statements after break/continue in nested blocks, break through function calls,
   stale break counters, errexit in negated commands/subshell conditions/compound commands, loop status,
   return without arguments, for-loop heads, ...) are fix: commits listed in known_findings.jsonl. *)
From Verif Require Import Base.Str Interp.Core Interp.Flags Interp.Sem Proofs.FlagsProofs.
From Coq Require Import String.
Open Scope string_scope.

Theorem C26_flags_refines_sem : forall fuel p,
  is_abort (outc (sem_prog fuel p init_sst)) = false ->
  obs (run_prog fuel p init_st) = sobs (sem_prog fuel p init_sst).
Proof. exact flags_refines_sem_init. Qed.
Print Assumptions C26_flags_refines_sem.

Theorem C26_flags_refines_sem_any_state : forall fuel p s0,
  clean s0 -> ctxof s0 = top_ctx ->
  is_abort (outc (sem_prog fuel p (abs s0))) = false ->
  obs (run_prog fuel p s0) = sobs (sem_prog fuel p (abs s0)).
Proof. exact flags_refines_sem. Qed.
Print Assumptions C26_flags_refines_sem_any_state.

(* the same for a single command in any dynamic context (inside loops, functions, conditions) *)
Theorem C26_cmd_refines_sem : forall fuel c s,
  clean s -> code (ex s) = 0%N ->
  noabort (sem fuel (ctxof s) c (abs s)) ->
  fin (run fuel c s) = fin (appc s (sem fuel (ctxof s) c (abs s)))
  /\ wfr (ctxof s) (outc (sem fuel (ctxof s) c (abs s)))
  /\ brk_code_ok c (sem fuel (ctxof s) c (abs s)).
Proof. exact run_sem. Qed.
Print Assumptions C26_cmd_refines_sem.

(* non-vacuity: a program with break inside a nested block, a function returning through a loop,
   errexit suppressed in a condition; the semantics does not abort and both sides print "1\n3\nz\n" *)
Definition w (s : string) : word := [WLit (bs s)].
Definition sample : prog :=
  [ Stmt false (CCall (w "set") [w "-e"]);
    Stmt false (CFunc (bs "f") (Stmt false (CBlock
      [Stmt false (CFor (bs "i") [w "1"; w "2"] [Stmt false (CCall (w "echo") [[WVar (bs "i")]]);
                                                 Stmt false (CCall (w "return") [w "3"])])])));
    Stmt false (CIf [Stmt false (CCall (w "f") [])] [Stmt false (CCall (w "echo") [w "no"])]
                    (Some (CIf [] [Stmt false (CCall (w "echo") [[WStatus]])] None)));
    Stmt false (CFor (bs "j") [w "a"; w "b"]
      [Stmt false (CBlock [Stmt false (CCall (w "break") []); Stmt false (CCall (w "echo") [w "x"])])]);
    Stmt false (CCall (w "echo") [w "z"]) ].

Example C26_nonvacuous :
  is_abort (outc (sem_prog 20 sample init_sst)) = false
  /\ obs (run_prog 20 sample init_st) = sobs (sem_prog 20 sample init_sst)
  /\ fst (fst (obs (run_prog 20 sample init_st))) = [49; 10; 51; 10; 122; 10]%N.
Proof. vm_compute. repeat split. Qed.

(* command substitution (trailing newlines stripped, status of an assignment), a pipeline under
   pipefail, errexit not triggered in a condition: both sides print "[ab] 1\n3\n" and end with status 3 *)
Definition sample2 : prog :=
  [ Stmt false (CAssign (bs "x") [WLit (bs "["); WSubst [Stmt false (CCall (w "echo") [w "ab"]);
                                                      Stmt false (CCall (w "echo") []);
                                                      Stmt false (CCall (w "false") [])]; WLit (bs "]")]);
    Stmt false (CCall (w "echo") [[WVar (bs "x")]; [WStatus]]);
    Stmt false (CCall (w "set") [w "-o"; w "pipefail"]);
    Stmt false (COr (Stmt false (CPipe (Stmt false (CSub [Stmt false (CCall (w "exit") [w "3"])]))
                                       (Stmt false (CCall (w "true") []))))
                    (Stmt false (CCall (w "echo") [[WStatus]])));
    Stmt false (CCall (w "exit") [[WSubst [Stmt false (CCall (w "echo") [w "3"])]]]) ].

Example C26_nonvacuous_subst_pipe :
  is_abort (outc (sem_prog 20 sample2 init_sst)) = false
  /\ obs (run_prog 20 sample2 init_st) = sobs (sem_prog 20 sample2 init_sst)
  /\ fst (obs (run_prog 20 sample2 init_st)) = ([91; 97; 98; 93; 32; 49; 10; 51; 10]%N, 3%N).
Proof. vm_compute. repeat split. Qed.

(* the named scope exclusions are reachable: e.g. `return 3` outside any function *)
Example C26_scope_return_outside :
  outc (sem_prog 20 [Stmt false (CCall (w "return") [w "3"])] init_sst) = OAbort AReturnOutside.
Proof. vm_compute. reflexivity. Qed.
