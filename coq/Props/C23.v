(* Props/C23.v — C23 "read splits lines like bash": property theorems only. *)
From Verif Require Import Base.Str Expand.Fields Expand.Read.
Open Scope N_scope.

(* IFS=: read a b c <<< 'x::y:z:'  gives  x '' y:z: *)
Example C23_ex_rest :
  read_fields (Some [58]) [120;58;58;121;58;122;58] 3 false = Ok [[120];[];[121;58;122;58]].
Proof. vm_compute. reflexivity. Qed.
