(* Props/C23.v — C23 "read splits lines like bash": property theorems only.
   Model: Expand/Read.v (ReadFields of the repaired code, fix: 3616507; readLine; the
   read builtin's assignment logic). *)
From Verif Require Import Base.Str Expand.Fields Expand.Read Proofs.ReadProofs.
Open Scope N_scope.

(* no index or slice expression of ReadFields goes out of range: every line, IFS, n
   (also 0 and negative, which used to panic), with and without -r *)
Theorem C23_no_panic : forall oifs line n raw, exists fs, read_fields oifs line n raw = Ok fs.
Proof. exact read_fields_no_panic. Qed.
Print Assumptions C23_no_panic.

(* nor does the builtin: readLine's line[:len(line)-1] and the three assignment paths *)
Theorem C23_builtin_no_panic : forall oifs raw t inp, exists r, read_builtin oifs raw t inp = Ok r.
Proof. exact read_builtin_no_panic. Qed.
Print Assumptions C23_builtin_no_panic.

(* ReadFields = the bash/POSIX read fields: every line, IFS (unset, empty, white space, other,
   mixed, multi-byte), n (<= 0: all fields), with and without -r.  Spec (Expand/Read.v): POSIX fields
   of the unescaped line; if there are more fields than names the last takes the line from the start
   of its field on, minus trailing IFS white space (escaped or not, as bash does) *)
Theorem C23_read_matches : forall oifs line n raw,
  read_fields oifs line n raw = Ok (spec_read_fields oifs line n raw).
Proof. exact read_fields_spec. Qed.
Print Assumptions C23_read_matches.

(* the builtin: logical line (continuations, -r), names padded with "", REPLY untrimmed, -a *)
Theorem C23_builtin_matches : forall oifs raw t inp,
  read_builtin oifs raw t inp = Ok (spec_read oifs raw t inp).
Proof. exact read_builtin_spec. Qed.
Print Assumptions C23_builtin_matches.

(* one expand.Config (one Runner) used for a sequence of reads while IFS changes in between (set,
   unset, emptied): every read splits by the IFS of its own environment, whatever an earlier call
   left in the Config; with C23_read_matches each one is the bash/POSIX read *)
Theorem C23_config_reuse : forall calls prev,
  read_seq prev calls =
  map (fun c => match c with (oifs, line, n, raw) => read_fields oifs line n raw end) calls.
Proof. exact read_seq_independent. Qed.
Print Assumptions C23_config_reuse.

Example C23_ex_seq : (* IFS=: read a b <<< 'x:y z'; unset IFS; read a b <<< 'x:y z' *)
  read_seq [] [(Some [58], [120;58;121;32;122], 2%Z, false); (None, [120;58;121;32;122], 2%Z, false)]
  = [Ok [[120];[121;32;122]]; Ok [[120;58;121];[122]]].
Proof. vm_compute. reflexivity. Qed.

(* IFS=: read a b c <<< 'x::y:z:'  gives  x '' y:z: ;  IFS=: read a <<< 'x:' gives x;
   read a b <<< 'a\ b c\ ' keeps the escaped blanks; spec and model agree on them *)
Example C23_ex_rest :
  read_fields (Some [58]) [120;58;58;121;58;122;58] 3 false = Ok [[120];[];[121;58;122;58]]
  /\ spec_read_fields (Some [58]) [120;58;58;121;58;122;58] 3 false = [[120];[];[121;58;122;58]].
Proof. vm_compute. split; reflexivity. Qed.
Example C23_ex_single_delim : read_fields (Some [58]) [120;58] 1 false = Ok [[120]].
Proof. vm_compute. reflexivity. Qed.
Example C23_ex_escapes :
  read_fields None [97;92;32;98;32;99;92;32] 2 false = Ok [[97;32;98];[99;32]]
  /\ read_fields None [97;92;32;98;32;99;92;32] 2 true = Ok [[97;92];[98;32;99;92]].
Proof. vm_compute. split; reflexivity. Qed.
Example C23_ex_builtin :
  read_builtin None false (TNames 2) [97;92;10;98;32;99;32;100;10;101] = Ok (AScalars [[97;98];[99;32;100]], false)
  /\ spec_read None false (TNames 2) [97;92;10;98;32;99;32;100;10;101] = (AScalars [[97;98];[99;32;100]], false).
Proof. vm_compute. split; reflexivity. Qed.
