(* Props/C12.v — property theorems only (model: Syntax/CoreGrammar.v, core token fragment).

   Full statement aimed at (NOT proved for unbounded length):
     C12_accepts_iff_grammar : forall ts, go_dev ts = false ->
        ((exists t, parse_core false ts = POk t) <-> accepts sh_bash ts = true)
   and the same for (parse_core true, sh_dash).  go_dev is the decidable (over-approximating) union of
   the known divergence classes KF-C12-1..5 and the documented `!` difference.
   Unbounded, proved below for the simple-command core only: callExpr's word/redirection loop accepts exactly the
   grammar's cmd_suffix (C12_simple_command_suffix_sound/_complete_partial, all token lists, induction on fuel).  The
   remaining part of the unbounded iff needs a simulation between the two differently factored recursive descents
   (stmts/getStmt/and_or/gotStmtPipe/pipe_loop/compound clauses vs list/and_or/pipeline/command/compound_command) and a
   suffix-closed reformulation of go_dev; it was not mechanised in the time available.
   Proved below: the statement for every token list of length <= 4 (31^0+..+31^4 = 954,305 lists, of which
   the in-scope ones are checked exhaustively inside the kernel), plus `_refuted` witnesses showing that each
   known class is a real divergence of the model (= of the Go parser, by the code leg) from the shells' grammar. *)
From Verif Require Import Base.Str Syntax.CoreGrammar Proofs.CoreGrammarBounded Proofs.CoreGrammarC12.

Theorem C12_accepts_iff_grammar_upto4_bash_partial : forall ts, length ts <= 4 -> go_dev ts = false ->
  accepted (parse_core false ts) = accepts sh_bash ts.
Proof. exact agree4_bash. Qed.
Print Assumptions C12_accepts_iff_grammar_upto4_bash_partial.

Theorem C12_accepts_iff_grammar_upto4_dash_partial : forall ts, length ts <= 4 -> go_dev ts = false ->
  accepted (parse_core true ts) = accepts sh_dash ts.
Proof. exact agree4_dash. Qed.
Print Assumptions C12_accepts_iff_grammar_upto4_dash_partial.

Theorem C12_in_as_command_refuted :
  accepted (parse_core false [TIn; TName]) = true /\ accepts sh_bash [TIn; TName] = false.
Proof. exact in_as_command_refuted. Qed.
Print Assumptions C12_in_as_command_refuted.

Theorem C12_funcdecl_body_simple_refuted :
  accepted (parse_core false [TName; TLparen; TRparen; TName]) = true /\ accepts sh_bash [TName; TLparen; TRparen; TName] = false.
Proof. exact funcdecl_body_simple_refuted. Qed.
Print Assumptions C12_funcdecl_body_simple_refuted.

Theorem C12_funcdecl_body_negated_refuted :
  accepted (parse_core true [TName; TLparen; TRparen; TBang; TName]) = true /\ accepts sh_dash [TName; TLparen; TRparen; TBang; TName] = false.
Proof. exact funcdecl_body_negated_refuted. Qed.
Print Assumptions C12_funcdecl_body_negated_refuted.

Theorem C12_leading_redirect_reserved_refuted :
  accepted (parse_core false [TRedir; TName; TThen; TName]) = false /\ accepts sh_bash [TRedir; TName; TThen; TName] = true.
Proof. exact leading_redirect_reserved_refuted. Qed.
Print Assumptions C12_leading_redirect_reserved_refuted.

Theorem C12_io_number_target_refuted :
  accepted (parse_core false [TName; TRedir; TIoRedir; TName]) = true /\ accepts sh_bash [TName; TRedir; TIoRedir; TName] = false.
Proof. exact io_number_target_refuted. Qed.
Print Assumptions C12_io_number_target_refuted.

Example C12_scope_nonvacuous : go_dev [TIf; TName; TSemi; TThen] = false /\ go_dev [TName; TPipe; TName; TAmp] = false /\
  accepts sh_bash [TName; TPipe; TName; TAmp] = true.
Proof. exact scope_nonvacuous. Qed.
Print Assumptions C12_scope_nonvacuous.

(* ---- unbounded component lemmas (simple-command core) ---- *)
Theorem C12_simple_command_suffix_sound_partial : forall px f o first ts rest,
  no_ionum_target ts = true ->
  call_loop px f o QNone first ts = POk rest -> a_suffix f ts = Some rest.
Proof. exact call_loop_sound. Qed.
Print Assumptions C12_simple_command_suffix_sound_partial.

Theorem C12_simple_command_suffix_complete_partial : forall px f o first ts rest,
  a_suffix f ts = Some rest -> not_paren_head rest = true ->
  call_loop px f o QNone first ts = POk rest.
Proof. exact call_loop_complete. Qed.
Print Assumptions C12_simple_command_suffix_complete_partial.
