(* Props/C12.v — property theorems only (model: Syntax/CoreGrammar.v, core token fragment). *)
From Verif Require Import Base.Str Syntax.CoreGrammar Proofs.CoreGrammarProofs.

Example C12_spec_nonvacuous :
  accepts sh_bash [TIf; TName; TSemi; TThen; TName; TSemi; TFi] = true /\
  accepts sh_dash [TIf; TName; TSemi; TThen; TName; TSemi] = false.
Proof. split; reflexivity. Qed.
Print Assumptions C12_spec_nonvacuous.
