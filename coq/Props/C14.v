(* Props/C14.v — property theorems only.
   Model: Syntax/Walk.v (syntax.Walk / syntax.Preorder over generic trees, driven by a walk table).
   Gen/Schema.v (reflection) and Gen/WalkTable.v (probing of the running Walk) are regenerated on every run. *)
From Verif Require Import Base.Str Syntax.Schema Syntax.Walk Gen.Schema Gen.WalkTable
  Proofs.WalkProofs Proofs.WalkTableOk.
From Coq Require Import Permutation.

(* The table probed from the running syntax.Walk covers, for every node kind Walk has a case for,
   exactly the node-reaching field paths of the schema reflected from the running code
   (finite check, re-run by the kernel on every regeneration). *)
Theorem walk_table_complete : table_ok gen_schema gen_walk_table = true.
Proof. exact gen_walk_table_ok. Qed.
Print Assumptions walk_table_complete.

(* "BraceExp" (never produced by the parser) is the only node kind Walk has no case for. *)
Theorem walk_panics_only_on_BraceExp :
  panic_kinds gen_schema gen_walk_table = [[66; 114; 97; 99; 101; 69; 120; 112]%N].
Proof. exact gen_walk_panic_kinds. Qed.
Print Assumptions walk_panics_only_on_BraceExp.

(* For ANY schema and table with table_ok, any well-typed tree, any stateful callback, any fuel:
   when Walk returns, its callback sequence satisfies WalkSpec: f(node) first; if f answered false,
   nothing else (children skipped, no nil); otherwise every child of the node (kids = all nodes
   reachable through the exported fields without crossing another node, each exactly once: a
   permutation) is walked recursively, f(nil) is called exactly once, and the deferred children
   (trailing comments of Stmt/CaseItem/ArrayElem) are walked right after that nil. *)
Theorem C14_walk_exactly_once :
  forall (sch : schema) (tbl : walk_table), table_ok sch tbl = true ->
  forall (S : Type) (cb : S -> ev -> S * bool) (fuel : nat) (s : S) (v : value) (sid : nat) (t : list ev) (s' : S),
    has_type sch (TStruct sid) v = true -> is_node sch sid = true ->
    walk tbl cb fuel s v = Ok (t, s') -> WalkSpec sch cb s v t s'.
Proof. intros sch tbl Tok S cb. exact (walk_spec sch tbl Tok cb). Qed.
Print Assumptions C14_walk_exactly_once.

(* Unpruned: the non-nil callbacks are a permutation of ALL nodes of the tree (each exactly once),
   the number of nil callbacks equals the number of nodes, and the root comes first. *)
Theorem C14_walk_unpruned_all_nodes_once :
  forall (sch : schema) (tbl : walk_table), table_ok sch tbl = true ->
  forall (fuel : nat) (v : value) (sid : nat) (t : list ev) (u : unit),
    has_type sch (TStruct sid) v = true -> is_node sch sid = true ->
    walk_all tbl fuel v = Ok (t, u) ->
    Permutation (somes t) (nodes_in sch v) /\ count_none t = length (nodes_in sch v) /\
    exists t', t = Some v :: t'.
Proof. exact walk_all_exactly_once. Qed.
Print Assumptions C14_walk_unpruned_all_nodes_once.

(* Preorder: the consumer (an arbitrary state machine [yield]) ends in exactly the state of being fed
   the node sequence of the unpruned Walk and never being called again once it answered false. *)
Theorem C14_preorder :
  forall (tbl : walk_table) (Y : Type) (yield : Y -> value -> Y * bool) (fuel : nat) (v : value) (t : list ev) (u : unit),
    walk_all tbl fuel v = Ok (t, u) ->
    forall y : Y, exists t', preorder yield tbl fuel y v = Ok (t', feed yield (true, y) (somes t)).
Proof. intros tbl Y yield fuel v t u W y. exact (preorder_feeds_walk_order tbl yield fuel v t u W (true, y)). Qed.
Print Assumptions C14_preorder.

(* The model's two artificial results are unreachable: on a well-typed tree with fuel above its height
   the walk never reports an ill-typed input or exhausted fuel (it returns, or panics like the code). *)
Theorem C14_walk_no_model_error :
  forall (sch : schema) (tbl : walk_table), table_ok sch tbl = true ->
  forall (S : Type) (cb : S -> ev -> S * bool) (fuel : nat) (s : S) (v : value) (sid : nat),
    has_type sch (TStruct sid) v = true -> is_node sch sid = true -> (height v < fuel)%nat ->
    forall e, walk tbl cb fuel s v <> Err e.
Proof. intros sch tbl Tok S cb. exact (walk_no_err sch tbl Tok cb). Qed.
Print Assumptions C14_walk_no_model_error.

(* The same for the code as it runs now: the generated schema and table. *)
Theorem C14_walk_exactly_once_running_code :
  forall (S : Type) (cb : S -> ev -> S * bool) (fuel : nat) (s : S) (v : value) (sid : nat) (t : list ev) (s' : S),
    has_type gen_schema (TStruct sid) v = true -> is_node gen_schema sid = true ->
    walk gen_walk_table cb fuel s v = Ok (t, s') -> WalkSpec gen_schema cb s v t s'.
Proof. intros S cb. exact (walk_spec gen_schema gen_walk_table gen_walk_table_ok cb). Qed.
Print Assumptions C14_walk_exactly_once_running_code.

(* Non-vacuity: a schema/table/tree satisfying every hypothesis, with trailing comments deferred past the nil. *)
Example C14_nonvacuous :
  table_ok Mini.sch Mini.tbl = true /\ has_type Mini.sch (TStruct 0) Mini.tree = true /\
  exists t, walk_all Mini.tbl 10 Mini.tree = Ok (t, tt) /\ length (somes t) = 6%nat.
Proof.
  split; [exact Mini.tbl_ok|]. split; [exact Mini.tree_typed|].
  eexists. split; [exact Mini.tree_walk|reflexivity].
Qed.
Print Assumptions C14_nonvacuous.
