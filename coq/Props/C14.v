(* Props/C14.v — property theorems only. *)
From Verif Require Import Base.Str Syntax.Schema Syntax.Walk Gen.Schema Gen.WalkTable Proofs.WalkTableOk.

(* The walk table probed from the running syntax.Walk covers, for every node kind that Walk
   handles, exactly the node-reaching field paths of the schema reflected from the running code. *)
Theorem walk_table_complete : table_ok gen_schema gen_walk_table = true.
Proof. exact gen_walk_table_ok. Qed.
Print Assumptions walk_table_complete.
