(* Props/C13.v — property theorems only (C13: Quote produces a word that expands back to the string).
   Model: Syntax/Quote.v (quote = syntax.Quote, unquote = word lexing + quote removal + $'..' decoding),
   Base/Utf8.v.  is_print (unicode.IsPrint) is universally quantified: the theorems hold for every table. *)
From Verif Require Import Base.Str Base.Utf8 Syntax.Quote Proofs.Utf8Proofs Proofs.QuoteProofs.
Open Scope N_scope.

(* Round trip, all four strategies (unquoted, '..', "..", $'..' incl. mksh re-quoting), all five variants,
   all byte strings (bytes < 256; absence of NUL follows from quote = Ok). *)
Theorem C13_roundtrip : forall (is_print : N -> bool) (s : str) (l : lang) (q : str),
  bytes_ok s -> quote is_print s l = Ok q -> unquote l q = Some s.
Proof. exact quote_roundtrip. Qed.
Print Assumptions C13_roundtrip.

(* Quote fails exactly when: NUL in s; or POSIX and some rune is an invalid byte or not printable;
   or mksh and some non-printable rune is above U+FFFD. *)
Theorem C13_fails_only_when : forall (is_print : N -> bool) (s : str) (l : lang),
  (exists c, quote is_print s l = Err c) <->
  (In 0 s
   \/ (is_posix l = true /\ exists e, In e (runes s) /\ non_print is_print (fst e) (snd e) = true)
   \/ (is_mksh l = true /\ exists r, In r (rune_values s) /\ 65533 < r /\ is_print r = false)).
Proof. exact quote_err_iff. Qed.
Print Assumptions C13_fails_only_when.

Theorem C13_never_panics : forall (is_print : N -> bool) (s : str) (l : lang), quote is_print s l <> Panic.
Proof. exact quote_not_panic. Qed.
Print Assumptions C13_never_panics.

(* A result is either s itself -- then s is non-empty, has no shell metacharacter and is no reserved word --
   or it is enclosed in '..', ".." or $'..'. *)
Theorem C13_keyword_or_meta_is_quoted : forall (is_print : N -> bool) (s : str) (l : lang) (q : str),
  quote is_print s l = Ok q ->
  (q = s /\ s <> [] /\ Forall (fun c => word_special c = false) s /\ is_keyword s = false)
  \/ (exists body, q = [39] ++ body ++ [39] \/ q = [34] ++ body ++ [34] \/ q = [36; 39] ++ body ++ [39]).
Proof. exact quote_shape. Qed.
Print Assumptions C13_keyword_or_meta_is_quoted.

(* UTF-8: encoding what was decoded gives the consumed bytes back (unless the byte was invalid) *)
Theorem C13_utf8_encode_decode : forall (s : str) (r : N) (n : nat),
  decode_rune s = (r, n) -> s <> [] -> ~ (r = RuneError /\ n = 1%nat) -> encode_rune r = firstn n s.
Proof. exact encode_decode. Qed.
Print Assumptions C13_utf8_encode_decode.

Theorem C13_utf8_runes_partition : forall s : str, concat (map snd (runes s)) = s.
Proof. exact runes_concat. Qed.
Print Assumptions C13_utf8_runes_partition.

(* non-vacuity: each strategy and each error is reachable *)
Example C13_ex_unquoted : quote ex_print [97; 46; 98] LBash = Ok [97; 46; 98].
Proof. exact ex_unquoted. Qed.
Example C13_ex_keyword : quote ex_print [105; 102] LPosix = Ok [39; 105; 102; 39].
Proof. exact ex_keyword. Qed.
Example C13_ex_single : quote ex_print [97; 32; 36; 98] LPosix = Ok [39; 97; 32; 36; 98; 39].
Proof. exact ex_single. Qed.
Example C13_ex_double : quote ex_print [97; 39; 36; 195; 169] LPosix = Ok [34; 97; 39; 92; 36; 195; 169; 34].
Proof. exact ex_double. Qed.
Example C13_ex_ansi : quote ex_print [97; 10; 255; 39] LBash = Ok [36; 39; 97; 92; 110; 92; 120; 102; 102; 92; 39; 39].
Proof. exact ex_ansi. Qed.
Example C13_ex_mksh_requote : quote ex_print [27; 97] LMksh = Ok [36; 39; 92; 120; 49; 98; 39; 36; 39; 97; 39].
Proof. exact ex_mksh_requote. Qed.
Example C13_ex_unicode : quote ex_print [194; 128; 240; 144; 128; 128] LZsh
  = Ok [36; 39; 92; 117; 48; 48; 56; 48; 92; 85; 48; 48; 48; 49; 48; 48; 48; 48; 39].
Proof. exact ex_unicode. Qed.
Example C13_ex_unquote_mksh_hex : unquote LMksh [36; 39; 92; 120; 49; 98; 97; 39] = None
  /\ unquote LBash [36; 39; 92; 120; 49; 98; 97; 39] = Some [27; 97].
Proof. exact ex_unquote_rejects_mksh_hex. Qed.
Example C13_ex_err_null : quote ex_print [97; 0] LBash = Err (8 * 1 + E_NULL).
Proof. exact ex_err_null. Qed.
Example C13_ex_err_posix : quote ex_print [97; 98; 10] LPosix = Err (8 * 2 + E_POSIX).
Proof. exact ex_err_posix. Qed.
Example C13_ex_err_mksh : quote ex_print [97; 240; 144; 128; 128] LMksh = Err (8 * 1 + E_MKSH).
Proof. exact ex_err_mksh. Qed.
Example C13_ex_ufffd_posix : quote ex_print [239; 191; 189] LPosix = Ok [239; 191; 189].
Proof. exact ex_ufffd_posix. Qed.
