(* Props/C13.v — property theorems only. *)
From Verif Require Import Base.Str Base.Utf8 Syntax.Quote Proofs.QuoteProofs.
Open Scope N_scope.

Theorem C13_empty_is_quoted : forall ip l, quote ip [] l = Ok [39; 39].
Proof. exact quote_empty. Qed.
Print Assumptions C13_empty_is_quoted.
