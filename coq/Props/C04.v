(* Props/C04.v — property theorems only. *)
From Verif Require Import Base.Str Syntax.Simplify Proofs.SimplifyProofs.

Theorem C04_placeholder : True.
Proof. exact placeholder_true. Qed.
Print Assumptions C04_placeholder.
