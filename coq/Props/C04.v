(* Props/C04.v -- property theorems only (C04 Simplify preserves behaviour).
   Model: Syntax/Simplify.v (syntax/simplify.go after the fix that leaves dollar-double-quoted
   strings alone).  Scope predicates wf_* are what the parser guarantees (checked on every run
   by the code leg): a double-quoted literal does not end inside an escape; the operand of
   ++/-- and the left operand of an assignment is one literal word. *)
From Verif Require Import Base.Str Syntax.Simplify Proofs.SimplifyProofs KF.C04KF.

(* arithmetic: the simplified expression has the same value AND leaves the same variable
   updates, for every integer environment; itoa/atoi are the shell's decimal conversions *)
Theorem C04_arith :
  forall (itoa : Z -> str) (atoi : str -> Z) pother binop assignop unop,
    (forall z, atoi (itoa z) = z) -> (forall z, valid_name (itoa z) = false) ->
    forall parens inline e, wf_arith e = true ->
    exists e' m, simplify_arith parens inline e = Some (e', m) /\
      forall env, aeval itoa atoi pother binop assignop unop e' env =
                  aeval itoa atoi pother binop assignop unop e env.
Proof. exact simplify_arith_sound. Qed.
Print Assumptions C04_arith.

(* the same with a concrete decimal itoa/atoi: the two hypotheses are satisfiable *)
Theorem C04_arith_decimal :
  forall pother binop assignop unop parens inline e, wf_arith e = true ->
    exists e' m, simplify_arith parens inline e = Some (e', m) /\
      forall env, aeval itoa_dec atoi_dec pother binop assignop unop e' env =
                  aeval itoa_dec atoi_dec pother binop assignop unop e env.
Proof. exact (fun po b a u => simplify_arith_sound itoa_dec atoi_dec po b a u atoi_itoa_dec itoa_dec_not_name). Qed.
Print Assumptions C04_arith_decimal.

(* [[ ]]: whenever the original expression has a truth value the simplified one has the same
   (Panic = a tree the parser does not build: a non-word operand of a word operator) *)
Theorem C04_test :
  forall pval pmatch untest_o bintest_o e, wf_test e = true ->
    exists e' m, simplify_test e = Some (e', m) /\
      forall b, teval pval pmatch untest_o bintest_o e = Ok b -> teval pval pmatch untest_o bintest_o e' = Ok b.
Proof. exact simplify_test_sound. Qed.
Print Assumptions C04_test.

(* words: the expansion (bytes and which of them are quoted) is unchanged *)
Theorem C04_word :
  forall pval w, wf_word w = true -> expand_q pval (fst (simplify_word w)) = expand_q pval w.
Proof. exact simplify_word_expand. Qed.
Print Assumptions C04_word.

(* dollar-double-quoted strings: left alone by the repaired code ... *)
Theorem C04_word_dollar_untouched :
  forall ps rest, simplify_word (WDbl true ps :: rest) = (WDbl true ps :: rest, false).
Proof. exact simplify_word_dollar_untouched. Qed.
Print Assumptions C04_word_dollar_untouched.

(* ... because the rewrite of the unchanged tree (simplify_word_prefix, Dollar kept) changed the
   expansion: the witness of the refuted statement, dollar-dquote a\\b became dollar-squote a\b *)
Theorem C04_word_dollar_refuted_before_fix :
  exists w, forall pval, expand_q pval (fst (simplify_word_prefix w)) <> expand_q pval w.
Proof. exact (ex_intro _ _ (proj2 dollar_rewrite_differs)). Qed.
Print Assumptions C04_word_dollar_refuted_before_fix.

(* nested subshells: same final state, output and status for every abstract command semantics *)
Theorem C04_subshell :
  forall State run_other modify set_status c,
    exists c' m, simplify_cmd c = Some (c', m) /\
      forall s, sem_cmd State run_other modify set_status c' s = sem_cmd State run_other modify set_status c s.
Proof. exact simplify_cmd_sound. Qed.
Print Assumptions C04_subshell.

(* the returned bool is true exactly when the tree changed *)
Theorem C04_modified_iff_word : forall w, snd (simplify_word w) = true <-> fst (simplify_word w) <> w.
Proof. exact simplify_word_mod_iff. Qed.
Print Assumptions C04_modified_iff_word.

Theorem C04_modified_iff_arith :
  forall parens inline e e' m, simplify_arith parens inline e = Some (e', m) -> (m = true <-> e' <> e).
Proof. exact simplify_arith_mod. Qed.
Print Assumptions C04_modified_iff_arith.

Theorem C04_modified_iff_test : forall e e' m, simplify_test e = Some (e', m) -> (m = true <-> e' <> e).
Proof. exact simplify_test_mod. Qed.
Print Assumptions C04_modified_iff_test.

Theorem C04_modified_iff_cmd : forall c c' m, simplify_cmd c = Some (c', m) -> (m = true <-> c' <> c).
Proof. exact simplify_cmd_mod. Qed.
Print Assumptions C04_modified_iff_cmd.

(* non-vacuity: concrete trees in scope that Simplify changes *)
Open Scope N_scope.
(* $(( ($a) + ((b)) ))  ->  a + (b), with a=3 b=4 both evaluate to 7 *)
Example C04_arith_example :
  let e := ABin 100 (AParen (AWord [WParam true 0 [97]])) (AParen (AParen (AWord [WLit [98]]))) in
  wf_arith e = true /\
  simplify_arith true true e = Some (ABin 100 (AParen (AWord [WLit [97]])) (AParen (AWord [WLit [98]])), true) /\
  aeval itoa_dec atoi_dec (fun _ _ _ => []) (fun _ x y => Ok (x + y)%Z) (fun _ _ y => Ok y) (fun _ x => Ok x)
        e [([97], 3%Z); ([98], 4%Z)] = Ok (7%Z, [([97], 3%Z); ([98], 4%Z)]).
Proof. vm_compute. repeat split. Qed.

(* [[ ! -z "$a" ]] -> [[ -n $a ]] *)
Example C04_test_example :
  let e := TUn T_NOT (TUn T_EMP (TWord [WDbl false [DParam true 0 [97]]])) in
  wf_test e = true /\ simplify_test e = Some (TUn T_NEMP (TWord [WParam true 0 [97]]), true).
Proof. vm_compute. split; reflexivity. Qed.

(* "a\$b" -> 'a$b' ; both expand to the quoted bytes a $ b *)
Example C04_word_example :
  let w := [WDbl false [DLit [97; 92; 36; 98]]] in
  wf_word w = true /\ simplify_word w = ([WSgl false [97; 36; 98]], true) /\
  expand_q (fun _ _ _ => []) w = [(97, true); (36, true); (98, true)].
Proof. vm_compute. repeat split. Qed.

(* ( ( (c1) ) ) -> (c1) *)
Example C04_subshell_example :
  simplify_cmd (CSub [St true (CSub [St true (CSub [St true (COther 1)])])]) = Some (CSub [St true (COther 1)], true).
Proof. vm_compute. reflexivity. Qed.

(* the class predicate of KF-C04-3 (Coq twin of the harness predicate, compared with it on every
   exported arithmetic root by the code leg) contains the pinned witness $((++c, $c)) *)
Example C04_kf3_witness_in_class :
  kf_dollar_param_after_side_effect
    (ABin 100 (AUn 0 false (AWord [WLit [99]])) (AWord [WParam true 0 [99]])) = true.
Proof. exact (proj1 kf3_witness). Qed.
