(* Props/C19.v — property theorems only.
   Model: Expand/Glob.v (Config.glob / globDir / the glob decision of FieldsSeq on an
   in-memory file system); Spec: Expand/GlobSpec.v — [path_rel]: the paths of the file system
   whose components match the components of the word ([bash_name_matches] = pattern match + the
   explicit-leading-dot rule; literal components must exist; non-final components must be
   directories, symlinks followed), "sorted bytewise", "the word itself unless nullglob".

   C19_glob_matches_spec covers words with any number of components in which no component is an
   active "**" (globstar off, or no "**" component).  With "**": C19_glob_globstar_partial — every
   path returned is a path of the tree whose components match ("**" = zero or more levels of
   non-dot entries), for every file system; on file systems without symbolic links none is missed.
   Missing: the exact symlink rule of the walk (a symlink to a directory is yielded but not descended)
   against a Spec, and that the fuel always suffices (both tied by code leg and bash search). *)
From Verif Require Import Base.Str Expand.Param Expand.ParamSpec Expand.Glob Expand.GlobSpec Proofs.GlobProofs.
Open Scope N_scope.

(* the result of glob: sorted, and (for non-empty paths) exactly the tree paths whose components match *)
Theorem C19_glob_matches_spec : forall fs o w l,
  no_globstar o (split_slash w []) -> all_simple (split_slash w []) ->
  glob fs o w = GOk l ->
  sorted_strs l /\
  forall p, p <> [] -> (In p l <-> path_rel fs (o_dot o) (split_slash w []) [] p).
Proof. exact glob_matches_spec. Qed.
Print Assumptions C19_glob_matches_spec.

(* words that may contain "**" with globstar on *)
Theorem C19_glob_globstar_partial : forall fs o w l,
  all_parts_ok o (split_slash w []) ->
  glob fs o w = GOk l ->
  sorted_strs l /\
  (forall p, p <> [] -> In p l -> path_rel_gs fs o (split_slash w []) [] p) /\
  (no_symlinks fs -> forall p, p <> [] -> path_rel_gs fs o (split_slash w []) [] p -> In p l).
Proof. exact glob_globstar_spec. Qed.
Print Assumptions C19_glob_globstar_partial.

(* set -f / ReadDir2 = nil: no expansion at all *)
Theorem C19_noglob : forall fs o w, o_noglob o = true -> glob_word fs o w = GOk [w].
Proof. exact noglob_word. Qed.
Print Assumptions C19_noglob.

Theorem C19_no_meta_word_unchanged : forall fs o w, has_meta w = false -> glob_word fs o w = GOk [w].
Proof. exact no_meta_word. Qed.
Print Assumptions C19_no_meta_word_unchanged.

(* nothing matches: the word itself, or no field under nullglob *)
Theorem C19_nullglob : forall fs o w,
  has_meta w = true -> o_noglob o = false -> glob fs o w = GOk [] ->
  glob_word fs o w = GOk (if o_null o then [] else [w]).
Proof. exact nullglob_word. Qed.
Print Assumptions C19_nullglob.

(* the component matcher built by glob() = the manual's rule, dot files included *)
Theorem C19_component_matcher_spec : forall dotglob part name,
  simple_comp part = true ->
  (comp_matcher dotglob part name = true <-> bash_name_matches dotglob part name).
Proof. exact comp_matcher_spec. Qed.
Print Assumptions C19_component_matcher_spec.

(* one-component words: exactly the entries of the directory whose names match *)
Theorem C19_glob_single_members_partial : forall fs o w n,
  no_slash w = true -> has_meta w = true -> (str_eqb w [42; 42] && o_star o) = false ->
  simple_comp w = true ->
  (forall k, ~ In ([], k) (entries_of fs [])) ->
  exists l, glob fs o w = GOk l /\
    (In n l <-> (exists k, In (n, k) (entries_of fs [])) /\ bash_name_matches (o_dot o) w n).
Proof. exact glob_single_members. Qed.
Print Assumptions C19_glob_single_members_partial.

(* ... in bytewise order *)
Theorem C19_glob_single_sorted_partial : forall fs o w l,
  no_slash w = true -> has_meta w = true -> (str_eqb w [42; 42] && o_star o) = false ->
  glob fs o w = GOk l -> sorted_strs l.
Proof. exact glob_single_sorted. Qed.
Print Assumptions C19_glob_single_sorted_partial.

(* non-vacuity + the repaired dot-file rule: ?x does not list .x, .? does *)
Example C19_dot_rule_example :
  let fs := [([[46; 120]], KFile); ([[97; 120]], KFile); ([[100]], KDir); ([[100]; [46; 121]], KFile)] in
  glob_word fs (mkO false false false false) [63; 120] = GOk [[97; 120]] /\
  glob_word fs (mkO false false false false) [46; 63] = GOk [[46; 120]] /\
  glob_word fs (mkO true false false false) [63; 120] = GOk [[46; 120]; [97; 120]] /\
  glob_word fs (mkO false false true false) [42; 42] = GOk [[97; 120]; [100]] /\
  glob_word fs (mkO false true false false) [122; 42] = GOk [] /\
  (* several components: */.?  and  ./d/* (a leading dot needs an explicit dot) *)
  glob_word fs (mkO false false false false) [42; 47; 46; 63] = GOk [[100; 47; 46; 121]] /\
  glob_word fs (mkO false false false false) [46; 47; 100; 47; 42] = GOk [[46; 47; 100; 47; 42]].
Proof. vm_compute. repeat split; reflexivity. Qed.
