(* Props/C09.v — "Source positions point at the source they describe": property theorems only. *)
From Verif Require Import Base.Str Syntax.Pos Syntax.Reader Syntax.PosCheck Proofs.PosProofs Proofs.ReaderProofs Proofs.LineColProofs Proofs.PosCheckProofs.
Open Scope N_scope.

(* C09_pos_pack, clause 1: below the limits NewPos is read back exactly by Offset/Line/Col. *)
Theorem C09_pos_pack : forall o l c, o <= offsetMax -> l <= lineMax -> c <= colMax ->
  Offset (NewPos o l c) = o /\ Line (NewPos o l c) = l /\ Col (NewPos o l c) = c.
Proof. exact pos_pack. Qed.
Print Assumptions C09_pos_pack.

(* clause 2: the documented saturation, for ALL arguments: the offset stops at offsetMax,
   a line or column above its maximum reads back as 0 ("?"). *)
Theorem C09_pos_pack_saturation : forall o l c,
  Offset (NewPos o l c) = N.min o offsetMax /\
  Line (NewPos o l c) = (if lineMax <? l then 0 else l) /\
  Col (NewPos o l c) = (if colMax <? c then 0 else c).
Proof. exact pos_pack_sat. Qed.
Print Assumptions C09_pos_pack_saturation.

(* clause 3: posAddCol on a valid position adds to offset (clamped to [0, offsetMax]) and to the
   column (dropped to 0 when it leaves [1, colMax], kept 0 when unknown) and never changes the line. *)
Theorem C09_posAddCol : forall p n, IsValid p = true ->
  Line (posAddCol p n) = Line p /\
  Z.of_N (Offset (posAddCol p n)) = Z.min (Z.max (Z.of_N (Offset p) + n) 0) (Z.of_N offsetMax) /\
  Z.of_N (Col (posAddCol p n)) =
    (if Col p =? 0 then 0%Z
     else let c := (Z.of_N (Col p) + n)%Z in
          if (c <? 1)%Z || (Z.of_N colMax <? c)%Z then 0%Z else c).
Proof. exact posAddCol_spec. Qed.
Print Assumptions C09_posAddCol.

(* clause 4: After is < on offsets for valid positions, and false for an invalid receiver. *)
Theorem C09_after : forall p p2, IsValid p = true -> IsValid p2 = true ->
  After p p2 = (Offset p2 <? Offset p).
Proof. exact after_valid. Qed.
Print Assumptions C09_after.

Theorem C09_after_invalid : forall p p2, IsValid p = false -> After p p2 = false.
Proof. exact after_invalid. Qed.
Print Assumptions C09_after_invalid.

(* non-vacuity: a position near all three limits *)
Example C09_pos_pack_example :
  let p := NewPos 4294967284 262143 16383 in
  (Offset p, Line p, Col p, IsValid p) = (4294967284, 262143, 16383, true) /\
  (Line (NewPos 5 262144 7), Col (NewPos 5 6 16384), Offset (NewPos 4294967290 1 1)) = (0, 0, 4294967284).
Proof. vm_compute. split; reflexivity. Qed.

(* C09_linecol — every position the reader hands out (the nextPos of every rune incl. the pseudo-runes
   escNewl and runeEOF, and the position of the "invalid UTF-8 encoding" error) is
   pos_of_offset input offset = (offset, 1 + newlines before it, 1 + bytes since the last newline),
   with 0 <= offset <= len(input): for EVERY input (any bytes), every schedule, EOF style, buffer size
   >= 4 and openBquotes/openBquoteDbls.  No known-finding class is excluded: the four reader-level
   defects that refuted this on the unrepaired code (after backslash-CR-LF every column of the next
   line one too large; backslash-LF with the offset of LF but the column of the backslash; rune() after
   EOF moving the column; the invalid-UTF-8 error using the previous rune's width) are repaired by the
   fix: commits d9731e1, bfde4b1, 478c986, d3fa48b (known_findings.jsonl).  The open C09 findings
   (KF-C09-1..7) are all ABOVE the reader: positions the parser derives with posAddCol / End() methods;
   they are outside this theorem and are validated per tree by the search. *)
Theorem C09_linecol : forall bufsz obq obqd input sched eager, (4 <= bufsz)%nat ->
  Forall (fun o => obs_ok input o = true) (trace bufsz obq obqd input sched eager).
Proof. exact trace_linecol. Qed.
Print Assumptions C09_linecol.

(* the same on the Spec reader (no buffer) *)
Theorem C09_linecol_spec : forall input obq obqd,
  Forall (fun o => obs_ok input o = true) (atrace obq obqd input).
Proof. exact atrace_linecol. Qed.
Print Assumptions C09_linecol_spec.

(* and the packed Pos that nextPos returns reads back exactly that triple below the limits *)
Theorem C09_nextPos_exact : forall o l c : Z,
  (0 <= o <= Z.of_N offsetMax)%Z -> (0 <= l <= Z.of_N lineMax)%Z -> (0 <= c <= Z.of_N colMax)%Z ->
  Z.of_N (Offset (next_pos o l c)) = o /\ Z.of_N (Line (next_pos o l c)) = l /\ Z.of_N (Col (next_pos o l c)) = c.
Proof. exact next_pos_exact. Qed.
Print Assumptions C09_nextPos_exact.

(* non-vacuity: the former witnesses, on the Spec reader and under a schedule with empty reads and data+EOF *)
Example C09_linecol_fixed_witnesses :
  forallb (fun i => forallb (obs_ok i) (atrace 0 0 i) && forallb (obs_ok i) (trace 1024 0 0 i [1;1;0;2;1]%nat true))
    [ [36;92;13;10;97];                      (* $\<CR><LF>a *)
      [34;102;111;111;92;10;32;32;98;97;114;34];  (* "foo\<LF>  bar" *)
      [92]; [97;32;92];                      (* lone backslash at EOF *)
      [195;169;255];                         (* invalid UTF-8 after a two-byte rune *)
      [97;0;98;13;10;99;92;13;10;100;10;240;159;152;128;101] ] = true.
Proof. vm_compute. reflexivity. Qed.

(* C09_checker_sound (fragment) — the Coq twin (Syntax/PosCheck.v check_file) of the Go position checker
   on the node fragment File > Stmt(; | &) > CallExpr > Word with one part > Lit | SglQuoted, using the
   transliterated Pos()/End() of those node types, is SOUND for the declarative specification FileSpec:
   every stored and derived position inside the input with the line/col of its offset, start <= end,
   the literal / quote / separator text standing at its position, statements in source order, every
   child within its parent.  The twin and the transliterated Pos()/End() are compared with the Go
   checker and the Go methods on every run (parsed trees and trees with one perturbed position).
   Partial: the fragment only; the Go checker's matcher "modulo dropped bytes" is the exact prefix test
   here (sources of the fragment leg contain no NUL, CR, backslash or backquote). *)
Theorem C09_checker_sound_fragment : forall src f, check_file src f = true -> FileSpec src f.
Proof. exact check_file_sound. Qed.
Print Assumptions C09_checker_sound_fragment.

(* what a user gets from it: a literal's Value is exactly the source bytes of [ValuePos, ValueEnd) *)
Theorem C09_lit_value_is_source_span : forall src f s l, check_file src f = true -> In s f -> In (PLit l) (s_args s) ->
  firstn (p_off (l_end l) - p_off (l_pos l)) (skipn (p_off (l_pos l)) src) = l_val l.
Proof. exact lit_value_is_source_span. Qed.
Print Assumptions C09_lit_value_is_source_span.

(* non-vacuity: the tree of "xy 'a;'\nq &" is accepted, the same tree with ValueEnd one byte late is not *)
Example C09_checker_example :
  let src := [120;121;32;39;97;59;39;10;113;32;38] in
  let good := [ mkstmt (0%nat,1%Z,1%Z) [PLit (mklit (0%nat,1%Z,1%Z) (2%nat,1%Z,3%Z) [120;121]);
                                        PSgl (mksgl (3%nat,1%Z,4%Z) (6%nat,1%Z,7%Z) [97;59])] None;
                mkstmt (8%nat,2%Z,1%Z) [PLit (mklit (8%nat,2%Z,1%Z) (9%nat,2%Z,2%Z) [113])] (Some (10%nat,2%Z,3%Z)) ] in
  let bad :=  [ mkstmt (0%nat,1%Z,1%Z) [PLit (mklit (0%nat,1%Z,1%Z) (3%nat,1%Z,4%Z) [120;121])] None ] in
  (check_file src good, check_file src bad) = (true, false).
Proof. vm_compute. reflexivity. Qed.
