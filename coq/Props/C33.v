(* Props/C33.v — property theorems only.  Model and Spec: Vars/Sparse.v; proofs: Proofs/SparseProofs.v.

   Reading guide.  [arr] = (List, Indexes) with Indexes = None for nil;  [Inv] = the documented invariant of
   expand.Variable.Indexes;  [abs] = the finite map an array value stands for;  [smap] with m_get/m_set/m_del/
   m_keys/m_count/m_max/m_resolve/m_slice = the reference map with bash's rules;  [step]/[run] = the interpreter's
   operations (a[k]=v, a[k]+=v, unset 'a[k]', a=(..), a+=(..), a=v, a+=v, unset a, ${a[k]=v}, ${a[k]:=v}) and their
   histories;  [s_step]/[s_run] = the same on the reference map. *)
From Verif Require Import Base.Str Vars.Sparse Proofs.SparseProofs.
Open Scope Z_scope.

(* --- the reference model is a finite map (so refinement to it means something) ------------------------- *)
Theorem C33_spec_get_set_same : forall k v m, m_get k (m_set k v m) = Some v.
Proof. exact m_get_set_same. Qed.
Print Assumptions C33_spec_get_set_same.

Theorem C33_spec_get_set_other : forall k k' v m, k' <> k -> m_get k' (m_set k v m) = m_get k' m.
Proof. exact m_get_set_other. Qed.
Print Assumptions C33_spec_get_set_other.

Theorem C33_spec_get_del_same : forall k m lo, m_wf lo m -> m_get k (m_del k m) = None.
Proof. exact m_get_del_same. Qed.
Print Assumptions C33_spec_get_del_same.

Theorem C33_spec_get_del_other : forall k k' m, k' <> k -> m_get k' (m_del k m) = m_get k' m.
Proof. exact m_get_del_other. Qed.
Print Assumptions C33_spec_get_del_other.

Theorem C33_spec_keys_domain : forall k m, In k (m_keys m) <-> m_get k m <> None.
Proof. exact m_keys_get. Qed.
Print Assumptions C33_spec_keys_domain.

Theorem C33_spec_extensional : forall m1 m2 lo, m_wf lo m1 -> m_wf lo m2 -> (forall k, m_get k m1 = m_get k m2) -> m1 = m2.
Proof. exact m_ext. Qed.
Print Assumptions C33_spec_extensional.

(* --- the invariant is the documented one ------------------------------------------------------------------ *)
Theorem C33_inv_documented : forall a, Inv a <->
  match a_idx a with
  | None => True
  | Some ix => length ix = length (a_list a) /\
               (forall i x, nth_error ix i = Some x -> 0 <= x) /\
               (forall i j x y, (i < j)%nat -> nth_error ix i = Some x -> nth_error ix j = Some y -> x < y) /\
               ix <> iota (length ix)
  end.
Proof. exact inv_documented. Qed.
Print Assumptions C33_inv_documented.

(* --- primitives: invariant preserved, refinement, no panic ------------------------------------------------ *)
Theorem C33_set_elem : forall a k v, Inv a -> 0 <= k ->
  exists a', set_elem a k v = Ok a' /\ Inv a' /\ abs a' = m_set k v (abs a).
Proof. exact set_elem_ok. Qed.
Print Assumptions C33_set_elem.

Theorem C33_delete_elem : forall a k, Inv a ->
  exists a', delete_elem a k = Ok a' /\ Inv a' /\ abs a' = m_del k (abs a).
Proof. exact delete_elem_ok. Qed.
Print Assumptions C33_delete_elem.

Theorem C33_lookup : forall a i, Inv a -> 0 <= i -> indexed_val a i = Ok (m_get i (abs a)).
Proof. exact indexed_val_ok. Qed.
Print Assumptions C33_lookup.

Theorem C33_keys : forall a, Inv a -> indexed_keys a = Ok (m_keys (abs a)).
Proof. exact indexed_keys_ok. Qed.
Print Assumptions C33_keys.

Theorem C33_count : forall a, Inv a -> count a = m_count (abs a).
Proof. exact count_ok. Qed.
Print Assumptions C33_count.

Theorem C33_values : forall a, Inv a -> a_list a = m_vals (abs a).
Proof. exact vals_ok. Qed.
Print Assumptions C33_values.

Theorem C33_negative_index : forall a k, Inv a -> resolve_neg (a_list a) (a_idx a) k = m_resolve (abs a) k.
Proof. exact resolve_ok. Qed.
Print Assumptions C33_negative_index.

Theorem C33_slice : forall a off len_, Inv a -> (forall n, len_ = Some n -> 0 <= n) ->
  slice_elems a off len_ = m_slice (abs a) off len_.
Proof. exact slice_elems_ok. Qed.
Print Assumptions C33_slice.

(* full statement without the length hypothesis is false for the code as it is (KF-C33-2):
     forall a off len_, Inv a -> slice_elems a off len_ = m_slice (abs a) off len_
   bash rejects a negative length, sliceElems counts it from the end *)
Theorem C33_slice_negative_length_refuted :
  exists a off n, Inv a /\ n < 0 /\ slice_elems a off (Some n) <> m_slice (abs a) off (Some n).
Proof. exact slice_negative_length_refuted. Qed.
Print Assumptions C33_slice_negative_length_refuted.

(* --- every interpreter operation: invariant, refinement of bash's rule, same error flag, no panic -------- *)
Theorem C33_step : forall v o, InvVar v ->
  exists v' e, step v o = Ok (v', e) /\ InvVar v' /\ (abs_var v', e) = s_step (abs_var v) o.
Proof. exact step_ok. Qed.
Print Assumptions C33_step.

(* --- all histories (fold_left over any list of operations, from the unset variable) ---------------------- *)
Theorem C33_histories : forall ops, exists v, run ops = Ok v /\ InvVar v /\ abs_var v = s_run ops.
Proof. exact run_ok. Qed.
Print Assumptions C33_histories.

Theorem C33_history_observations : forall ops, exists v, run ops = Ok v /\ agrees v (s_run ops).
Proof. exact history_observations. Qed.
Print Assumptions C33_history_observations.

Theorem C33_history_slices : forall ops a, run ops = Ok (VArr a) ->
  forall off len_, (forall n, len_ = Some n -> 0 <= n) ->
  exists m, s_run ops = SArr m /\ slice_elems a off len_ = m_slice m off len_.
Proof. exact history_slices. Qed.
Print Assumptions C33_history_slices.

Theorem C33_no_panic : forall ops, run ops <> Panic /\ (forall c, run ops <> Err c).
Proof. exact run_no_panic. Qed.
Print Assumptions C33_no_panic.

(* --- non-vacuity: a history that goes dense -> sparse -> dense again, with every kind of operation --------- *)
Example C33_example_history :
  run [OAssignArr [EVal [112%N]; EVal [113%N]; EVal [114%N]];           (* a=(p q r) *)
       OSetElem 7 [120%N];                                            (* a[7]=x      -> sparse *)
       OUnsetElem (-1);                                             (* unset 'a[-1]' -> dense again *)
       OUnsetElem 1;                                                (* unset 'a[1]' -> sparse *)
       OAppendArr [EVal [115%N]; EIdx 1 [116%N]];                       (* a+=(s [1]=t) -> dense *)
       OAppElem (-1) [33%N]; OAppendStr [122%N]; ODefault true 9 [100%N]] (* a[-1]+=! ; a+=z ; ${a[9]:=d} *)
  = Ok (VArr (mkArr [[112%N; 122%N]; [116%N]; [114%N]; [115%N; 33%N]; [100%N]] (Some [0; 1; 2; 3; 9]))).
Proof. vm_compute. reflexivity. Qed.

Example C33_example_inv : Inv (mkArr [[112%N]; [113%N]] (Some [2; 5])) /\ ~ Inv (mkArr [[112%N]; [113%N]] (Some [0; 1]))
                          /\ ~ Inv (mkArr [[112%N]; [113%N]] (Some [5; 2])).
Proof.
  unfold Inv; simpl. repeat split; try lia; intros (H1 & H2 & H3); try discriminate; simpl in H2; lia.
Qed.
