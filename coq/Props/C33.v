(* Props/C33.v — property theorems only. *)
From Verif Require Import Base.Str Vars.Sparse Proofs.SparseProofs.

Theorem C33_spec_get_set_same : forall k v m, m_get k (m_set k v m) = Some v.
Proof. exact m_get_set_same. Qed.
Print Assumptions C33_spec_get_set_same.
