(* Props/C08.v — property theorems only.
   C08 "Streaming, interactive and reused parsers agree with Parse".  The parser body is abstract in both models. *)
From Coq Require Import List Arith Bool.
From Verif Require Import Syntax.Reuse Syntax.Interactive Gen.ParserFields
                          Proofs.ReuseProofs Proofs.InteractiveProofs Proofs.ParserFieldsOK.
Import ListNotations.

(* ---- reuse: "a Parser or Printer that was used before on any other input gives the same result as a fresh one" *)
Theorem C08_reset_covers :
  forall (V I R : Type) (table : list frow) (init : nat -> V) (run : state V -> I -> R),
  fields_covered table = true ->
  write_first_frame V I R table run ->
  forall s s0 i, same_config V table s s0 ->
  api V I R table init run s i = api V I R table init run s0 i.
Proof. exact reset_covers. Qed.
Print Assumptions C08_reset_covers.

(* its table hypothesis holds for the real structs (regenerated and re-checked on every run) *)
Theorem C08_parser_fields_covered : fields_covered parser_fields = true.
Proof. exact parser_fields_covered. Qed.
Print Assumptions C08_parser_fields_covered.

Theorem C08_printer_fields_covered : fields_covered printer_fields = true.
Proof. exact printer_fields_covered. Qed.
Print Assumptions C08_printer_fields_covered.

Theorem C08_field_tables_sane :
  config_not_reset parser_fields = true /\ config_not_reset printer_fields = true /\
  reset_fields_dead parser_fields = true /\ reset_fields_dead printer_fields = true.
Proof. exact tables_sane. Qed.
Print Assumptions C08_field_tables_sane.

(* an uncovered field does break reuse (the coverage hypothesis is not decoration) *)
Theorem C08_uncovered_breaks_reuse :
  fields_covered bad_table = false /\
  exists (s s0 : state nat), same_config nat bad_table s s0 /\
    api nat unit nat bad_table (fun _ => 0) (fun st _ => st 1) s tt <> api nat unit nat bad_table (fun _ => 0) (fun st _ => st 1) s0 tt.
Proof. exact uncovered_breaks_reuse. Qed.
Print Assumptions C08_uncovered_breaks_reuse.

(* ---- interactive.
   Full statement wanted by the property: the statements handed out are exactly Parse's statements.
   REFUTED by the faithful model when the last statement is not followed by a newline token
   (C08_interactive_refuted; known finding interactive_last_line_without_newline); proved otherwise. *)
Theorem C08_interactive :
  forall tr, error_free tr = true -> stmt_at_newline_complete tr = true ->
  (* (a) complete batches ++ what is still accumulated = the statement sequence, always *)
  concat (complete_batches (snd (run init tr))) ++ acc (fst (run init tr)) = stmts_of tr /\
  (* (b) if the last statement is followed by a newline token nothing is left over *)
  (ends_at_newline tr = true -> concat (complete_batches (snd (run init tr))) = stmts_of tr) /\
  (* (c) a callback that reports Incomplete stems from a Read at a fresh line end at which the parser is incomplete *)
  (forall o, In o (snd (run init tr)) -> o_inc o = true -> exists line, In (ERead true line true) tr).
Proof.
  intros tr He Hc. split; [exact (interactive_partition tr He Hc)|]. split.
  - exact (interactive_all_statements tr He Hc).
  - intros o. exact (incomplete_only_from_read tr init o He Hc).
Qed.
Print Assumptions C08_interactive.

Theorem C08_interactive_refuted :
  let tr := [ERead false 1 false; EStmt 0 false false 1 false] in
  error_free tr = true /\ stmt_at_newline_complete tr = true /\
  concat (complete_batches (snd (run init tr))) = [] /\ stmts_of tr = [0].
Proof. exact last_line_without_newline_refuted. Qed.
Print Assumptions C08_interactive_refuted.

Example C08_tables_nontrivial :
  30 <= List.length parser_fields /\ 20 <= List.length (filter f_reset parser_fields) /\
  15 <= List.length printer_fields /\ 8 <= List.length (filter f_reset printer_fields).
Proof. exact tables_nontrivial. Qed.
