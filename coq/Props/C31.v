(* Props/C31.v — C31 "Cancelling the context stops any program promptly": property theorems only.

   Full statement (properties.jsonl): for every program, including infinite loops, blocked reads, waits
   on background jobs and process substitutions that are never read, cancelling the context passed to
   Run makes Run return within a bounded time (exec kill timeout + margin) with an error.

   Real time and the OS are outside any model (measured by checks/c31.py on every run).  What is proved
   is the discipline that makes the bound possible:

   * C31_stop_bound: in the flag machine of interp/runner.go (Interp/Flags.v), for EVERY program, fuel
     and state, once the context is cancelled every construct — command, statement, function call,
     while/until loop, for loop — returns after ONE observation of the context, without running
     anything (no output, no assignment, no function definition, no loop iteration, no fuel needed);
     a list of n statements costs exactly n observations, the rest of a loop body at most its length.
     So after cancellation the machine only unwinds: each remaining statement of each enclosing list
     is skipped once and each enclosing loop leaves at its next head.
     PARTIAL: the sum of these skips over the whole stack of enclosing constructs (the "depth p" bound
     of DESIGN.md) is not stated as one closed formula; it follows construct by construct from the
     lemmas below.
   * C31_returns: in the wait-for model of Interp/Conc.v, if every blocking operation is cancel-aware
     or waits only for threads that themselves return, every thread returns.
     The faithful annotation REFUTES the unconditional statement
        (forall sy t, exists fuel, returns fuel sy t = true):
     C31_returns_refuted — `: <(echo hi); wait` (FIFO of a process substitution never opened, then
     wait) never returns, even without cancellation; known-finding class
     procsubst_fifo_never_opened_then_wait. *)
From Verif Require Import Base.Str Interp.Core Interp.Flags Interp.Conc Proofs.ConcProofs.

Theorem C31_stop_bound : forall fuel c s, cancelled s ->
  cancelled (run fuel c s) /\ same_effects s (run fuel c s) /\ late (run fuel c s) = S (late s).
Proof. exact run_cancelled. Qed.
Print Assumptions C31_stop_bound.

Theorem C31_stop_bound_list : forall cmdf l s, cancelled s ->
  cancelled (rstmts cmdf l s) /\ same_effects s (rstmts cmdf l s)
  /\ late (rstmts cmdf l s) = (late s + length l)%nat.
Proof. exact rstmts_cancelled. Qed.
Print Assumptions C31_stop_bound_list.

Theorem C31_stop_bound_while : forall cmdf n u c b last s, cancelled s ->
  cancelled (while_loop cmdf n u c b last s) /\ same_effects s (while_loop cmdf n u c b last s)
  /\ late (while_loop cmdf n u c b last s) = S (late s).
Proof. exact while_cancelled. Qed.
Print Assumptions C31_stop_bound_while.

Theorem C31_stop_bound_for : forall cmdf x items b s, cancelled s ->
  cancelled (for_loop cmdf x items b s) /\ same_effects s (for_loop cmdf x items b s)
  /\ (late (for_loop cmdf x items b s) <= S (late s))%nat.
Proof. exact for_cancelled. Qed.
Print Assumptions C31_stop_bound_for.

Theorem C31_stop_bound_loop_body : forall cmdf old l s, cancelled s ->
  cancelled (fst (loop_body cmdf old l s)) /\ out (fst (loop_body cmdf old l s)) = out s
  /\ vars (fst (loop_body cmdf old l s)) = vars s
  /\ (late (fst (loop_body cmdf old l s)) <= late s + length l)%nat.
Proof. exact loop_body_cancelled. Qed.
Print Assumptions C31_stop_bound_loop_body.

Theorem C31_stop_bound_call : forall cmdf fields s, cancelled s ->
  cancelled (call cmdf fields s) /\ same_effects s (call cmdf fields s) /\ late (call cmdf fields s) = S (late s).
Proof. exact call_cancelled. Qed.
Print Assumptions C31_stop_bound_call.

Theorem C31_returns : forall sy, good_sys sy -> forall t, returns (S (length sy)) sy t = true.
Proof. exact returns_if_good. Qed.
Print Assumptions C31_returns.

Theorem C31_returns_refuted : forall fuel, returns fuel procsubst_never_opened_then_wait 0 = false.
Proof. exact returns_refuted. Qed.
Print Assumptions C31_returns_refuted.

Theorem C31_refuted_witness_in_class :
  procsubst_fifo_never_opened_then_wait procsubst_never_opened_then_wait = true.
Proof. exact refuted_in_class. Qed.

(* non-vacuity: an infinite loop cancelled after 20 observations of the context stops, having
   printed two lines, with a fatal exit status; and a good system: `read` blocked on a pipe, a
   pipeline stage, a background job that is waited for *)
From Coq Require Import String.
Open Scope string_scope.
Definition forever : cmd :=
  CWhile false [Stmt false (CCall [WLit (bs "true")] [])] [Stmt false (CCall [WLit (bs "echo")] [[WLit (bs "a")]])].
Example C31_nonvacuous_loop :
  let s := run 100 forever (set_ctx (Some 20%nat) init_st) in
  stuck s = false /\ fatalExit (ex s) = true /\ code (ex s) = 1%N /\ out s = [97; 10; 97; 10]%N /\ late s = 2%nat.
Proof. vm_compute. repeat split. Qed.

Example C31_nonvacuous_good :
  good_sys [[BWaitAll [1%nat; 2%nat]]; [BRead]; [BPipeIO 3%nat]; [BExec]].
Proof.
  intros t ops H. destruct t as [|[|[|[|t]]]]; cbn in H; inversion H; subst; repeat constructor.
  destruct t; discriminate.
Qed.
