(* Props/C25.v — property theorems only.
   Model: Expand/ShellApi.v (shell.Expand / shell.Fields on the word fragment);
   Spec: Expand/ShellSpec.v — here-document text by recursive descent (backslash quotes only $ \ `,
   $name / ${name} replaced, everything else literal) and argument words by marked characters
   (POSIX 2.6: split at IFS white space coming from unquoted expansions and at the blanks between
   words, drop empty unquoted fields, an empty variable is unset).  The lexer producing the items of a
   word list is shared by model and Spec for Fields; for Expand the Spec works on the raw text. *)
From Verif Require Import Base.Str Expand.ShellApi Expand.ShellSpec Proofs.ShellApiProofs Proofs.ShellSpecProofs.
Open Scope N_scope.

(* shell.Expand = the here-document Spec, for every environment and every text (outside the fragment
   both sides say EOut, on an unterminated ${ both say EErr) *)
Theorem C25_expand : forall env s, shell_expand env s = shell_expand_spec env s.
Proof. exact expand_correct. Qed.
Print Assumptions C25_expand.

(* shell.Fields = the argument Spec with empty = unset *)
Theorem C25_fields : forall env s, shell_fields env s = shell_fields_spec env s.
Proof. exact fields_correct. Qed.
Print Assumptions C25_fields.

(* the Spec really produces fields: x = (a b), e unset:  $x"$e"''$e  ->  a , b  (b followed by two
   empty quoted strings is the field b) ; $e alone -> nothing ; "$e" -> one empty field *)
Example C25_spec_example :
  let env := fun n : str => if str_eqb n [120] then [97; 32; 98] else [] in
  fields_of_marked (flat_map (expand_item env) [IVar [120]; IQMarkD; IQVar [101]; IQMarkS; IVar [101]]) = [[97]; [98]] /\
  fields_of_marked (flat_map (expand_item env) [IVar [101]]) = [] /\
  fields_of_marked (flat_map (expand_item env) [IQMarkD; IQVar [101]]) = [[]] /\
  shell_expand_spec env [36; 120; 92; 36; 92; 97; 36; 123; 120; 125; 34] = EOk [97; 32; 98; 36; 92; 97; 97; 32; 98; 34].
Proof. vm_compute. repeat split; reflexivity. Qed.

(* text without $ \ ` is returned unchanged, for every environment *)
Theorem C25_expand_plain : forall env s,
  forallb plain_char s = true -> shell_expand env s = EOk s.
Proof. exact expand_plain. Qed.
Print Assumptions C25_expand_plain.

(* C25_error_iff_invalid on the fragment lexer: Expand reports an error exactly when the text
   ends inside an unterminated ${ ... *)
Theorem C25_error_iff_invalid : forall env s,
  shell_expand env s = EErr <-> exists acc, snd (doc_loop env DText s) = DBr acc.
Proof. exact expand_error_iff. Qed.
Print Assumptions C25_error_iff_invalid.

(* ... and whether it does never depends on the environment *)
Theorem C25_expand_validity_env_independent : forall e1 e2 s,
  is_err (shell_expand e1 s) = is_err (shell_expand e2 s) /\
  is_out (shell_expand e1 s) = is_out (shell_expand e2 s).
Proof. exact expand_error_env_independent. Qed.
Print Assumptions C25_expand_validity_env_independent.

Theorem C25_fields_validity_env_independent : forall e1 e2 s,
  (shell_fields e1 s = SErr <-> shell_fields e2 s = SErr) /\
  (shell_fields e1 s = SOut <-> shell_fields e2 s = SOut).
Proof. exact fields_error_env_independent. Qed.
Print Assumptions C25_fields_validity_env_independent.

(* empty = unset: $n alone gives no field, "$n" gives one empty field *)
Theorem C25_fields_unset : forall env n,
  env n = [] -> word_fields env [IVar n] = [] /\ word_fields env [IQMarkD; IQVar n] = [[]].
Proof. exact fields_unset_var. Qed.
Print Assumptions C25_fields_unset.

(* non-vacuity: tilde, quoted and unquoted expansion of x = a b, an empty quoted word, an unset
   variable; an unclosed double quote is an error; here-document escapes *)
Example C25_fields_example :
  let env := fun n : str => if str_eqb n [120] then [97; 32; 98] else if str_eqb n HOME then [47; 104] else [] in
  shell_fields env [126; 47; 112; 32; 34; 36; 120; 34; 36; 120; 32; 39; 39; 32; 36; 101]
  = SOk [[47; 104; 47; 112]; [97; 32; 98; 97]; [98]; []]
  /\ shell_fields env [34; 36; 123; 120] = SErr
  /\ shell_expand env [36; 120; 92; 36; 92; 97; 36; 123; 120; 125] = EOk [97; 32; 98; 36; 92; 97; 97; 32; 98].
Proof. vm_compute. repeat split; reflexivity. Qed.
