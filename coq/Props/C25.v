(* Props/C25.v — property theorems only.
   Model: Expand/ShellApi.v (shell.Expand / shell.Fields on the word fragment).
   The full statements C25_expand (= here-document Spec) and C25_fields (= argument Spec)
   are NOT proved: the model is tied to the code by the code leg and to bash by the search.
   Proved here: clauses about validity and about "empty means unset". *)
From Verif Require Import Base.Str Expand.ShellApi Proofs.ShellApiProofs.
Open Scope N_scope.

(* text without $ \ ` is returned unchanged, for every environment *)
Theorem C25_expand_plain_partial : forall env s,
  forallb plain_char s = true -> shell_expand env s = EOk s.
Proof. exact expand_plain. Qed.
Print Assumptions C25_expand_plain_partial.

(* C25_error_iff_invalid on the fragment lexer: Expand reports an error exactly when the text
   ends inside an unterminated ${ ... *)
Theorem C25_error_iff_invalid : forall env s,
  shell_expand env s = EErr <-> exists acc, snd (doc_loop env DText s) = DBr acc.
Proof. exact expand_error_iff. Qed.
Print Assumptions C25_error_iff_invalid.

(* ... and whether it does never depends on the environment *)
Theorem C25_expand_validity_env_independent : forall e1 e2 s,
  is_err (shell_expand e1 s) = is_err (shell_expand e2 s) /\
  is_out (shell_expand e1 s) = is_out (shell_expand e2 s).
Proof. exact expand_error_env_independent. Qed.
Print Assumptions C25_expand_validity_env_independent.

Theorem C25_fields_validity_env_independent : forall e1 e2 s,
  (shell_fields e1 s = SErr <-> shell_fields e2 s = SErr) /\
  (shell_fields e1 s = SOut <-> shell_fields e2 s = SOut).
Proof. exact fields_error_env_independent. Qed.
Print Assumptions C25_fields_validity_env_independent.

(* empty = unset: $n alone gives no field, "$n" gives one empty field *)
Theorem C25_fields_unset_partial : forall env n,
  env n = [] -> word_fields env [IVar n] = [] /\ word_fields env [IQMarkD; IQVar n] = [[]].
Proof. exact fields_unset_var. Qed.
Print Assumptions C25_fields_unset_partial.

(* non-vacuity: tilde, quoted and unquoted expansion of x = a b, an empty quoted word, an unset
   variable; an unclosed double quote is an error; here-document escapes *)
Example C25_fields_example :
  let env := fun n : str => if str_eqb n [120] then [97; 32; 98] else if str_eqb n HOME then [47; 104] else [] in
  shell_fields env [126; 47; 112; 32; 34; 36; 120; 34; 36; 120; 32; 39; 39; 32; 36; 101]
  = SOk [[47; 104; 47; 112]; [97; 32; 98; 97]; [98]; []]
  /\ shell_fields env [34; 36; 123; 120] = SErr
  /\ shell_expand env [36; 120; 92; 36; 92; 97; 36; 123; 120; 125] = EOk [97; 32; 98; 36; 92; 97; 97; 32; 98].
Proof. vm_compute. repeat split; reflexivity. Qed.
