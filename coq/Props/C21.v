(* Props/C21.v — property theorems only.
   Model: Expand/Param.v (param_exp = Config.paramExp on the modelled fragment);
   Spec: Expand/ParamSpec.v (the bash manual's rule per operator).
   upper/lower/quote are unicode.ToUpper/ToLower and syntax.Quote: arbitrary functions here.

   Pattern operators: the pattern of a word is [pattern_of w] (quoted parts backslash-escaped, as bash's
   quote_string_for_globbing does) parsed into tokens [toks a]; fragment * ? literal \x.
   Not proved (by search and code leg only): the global form ${v//p/w}; the element-wise theorems cover the pattern operators (# ## % %% ^ ^^ , ,,) and replacement on
   indexed arrays and positional parameters, not slices / associative arrays / the default family; see notes/C21.md. *)
From Verif Require Import Base.Str Expand.Param Expand.ParamSpec Proofs.ParamMatchProofs Proofs.ParamProofs.
Open Scope N_scope.

(* the 8 x 3 matrix: for every state of the parameter (unset / null / non-null) and each of
   :- - := = :? ? :+ + the model yields what the manual says *)
Theorem C21_defaults : forall upper lower quote e name i op w v,
  is_params_name name = false ->
  is_list_idx i = false ->
  is_default_op op = true ->
  bash_value (env_get e name) i = PVal v ->
  assign_scope op i (env_get e name) = true ->
  param_exp upper lower quote e (mkP name i (PExp op w)) = bash_default op name v (literal_of w).
Proof. exact defaults_correct. Qed.
Print Assumptions C21_defaults.

Theorem C21_length : forall upper lower quote e name i v,
  is_params_name name = false ->
  is_list_idx i = false ->
  bash_value (env_get e name) i = PVal v ->
  param_exp upper lower quote e (mkP name i PLength) = OOk (bash_length v, None).
Proof. exact length_correct. Qed.
Print Assumptions C21_length.

(* all offsets and lengths, negative ones included; characters, not bytes (strings are rune lists) *)
Theorem C21_substring : forall upper lower quote e name i off len v,
  is_params_name name = false ->
  is_list_idx i = false ->
  bash_value (env_get e name) i = PVal v ->
  param_exp upper lower quote e (mkP name i (PSlice off len)) = lift (bash_substring v off len).
Proof. exact substring_correct. Qed.
Print Assumptions C21_substring.

(* @Q is syntax.Quote (C13), i.e. the documented difference is inside [quote] *)
Theorem C21_transform : forall upper lower quote e name i k v,
  is_params_name name = false ->
  is_list_idx i = false ->
  bash_value (env_get e name) i = PVal v ->
  In k [81; 85; 117; 76] ->
  param_exp upper lower quote e (mkP name i (PExp OtherOp [WLit [k]])) =
  OOk (bash_transform upper lower quote k v, None).
Proof. exact transform_correct. Qed.
Print Assumptions C21_transform.

(* ${p%w} / ${p%%w}: the value minus its shortest / longest suffix matching the pattern
   (existential split spec, optimal among all matching suffixes), unchanged if none matches *)
Theorem C21_remove_suffix : forall upper lower quote e name i op w v a,
  is_params_name name = false ->
  is_list_idx i = false ->
  bash_value (env_get e name) i = PVal v ->
  is_suffix_op op = true ->
  pat_atoms (pattern_of w) = PatOk a ->
  exists r, param_exp upper lower quote e (mkP name i (PExp op w)) = OOk (r, None) /\
            is_suffix_removal (is_longest_op op) (toks a) (cur v) r.
Proof. exact remove_suffix_param. Qed.
Print Assumptions C21_remove_suffix.

(* ${p#w} / ${p##w}: the value minus its shortest / longest prefix matching the pattern (greedy
   backtracking = longest, lazy = shortest: Proofs/ParamMatchProofs.v greedy_longest, lazy_shortest) *)
Theorem C21_remove_prefix : forall upper lower quote e name i op w v a,
  is_params_name name = false ->
  is_list_idx i = false ->
  bash_value (env_get e name) i = PVal v ->
  is_prefix_op op = true ->
  pat_atoms (pattern_of w) = PatOk a ->
  exists r, param_exp upper lower quote e (mkP name i (PExp op w)) = OOk (r, None) /\
            is_prefix_removal (is_longest_op op) (toks a) (cur v) r.
Proof. exact remove_prefix_param. Qed.
Print Assumptions C21_remove_prefix.

Theorem C21_case : forall upper lower quote e name i op w v a conv all,
  is_params_name name = false ->
  is_list_idx i = false ->
  bash_value (env_get e name) i = PVal v ->
  case_conv_of upper lower op = Some (conv, all) ->
  pat_atoms (pattern_of w) = PatOk a ->
  exists m : N -> bool,
    (forall c, m c = true <-> (a = [] \/ pmatch (toks a) [c])) /\
    param_exp upper lower quote e (mkP name i (PExp op w)) = OOk (bash_case conv all m (cur v), None).
Proof. exact case_param. Qed.
Print Assumptions C21_case.

(* ${p/%pat/w}: the longest suffix matching pat is replaced by w; unchanged when no suffix matches *)
Theorem C21_replace_anchored_end : forall upper lower quote e name i orig w s p a,
  is_params_name name = false -> is_list_idx i = false ->
  bash_value (env_get e name) i = PVal (Some s) ->
  split_anchor false orig (pattern_of orig) = (AEnd, p) ->
  pat_atoms p = PatOk a ->
  exists r, param_exp upper lower quote e (mkP name i (PRepl false orig w)) = OOk (r, None) /\
    ((exists pre suf, s = pre ++ suf /\ pmatch (toks a) suf /\ r = pre ++ literal_of w /\
        forall pre' suf', s = pre' ++ suf' -> pmatch (toks a) suf' -> (length suf' <= length suf)%nat)
     \/ (r = s /\ forall pre suf, s = pre ++ suf -> ~ pmatch (toks a) suf)).
Proof. exact replace_end_param. Qed.
Print Assumptions C21_replace_anchored_end.

(* ${p/#pat/w}: the longest prefix matching pat is replaced by w; unchanged when no prefix matches *)
Theorem C21_replace_anchored_begin : forall upper lower quote e name i orig w s p a,
  is_params_name name = false -> is_list_idx i = false ->
  bash_value (env_get e name) i = PVal (Some s) ->
  split_anchor false orig (pattern_of orig) = (ABegin, p) ->
  pat_atoms p = PatOk a ->
  exists r, param_exp upper lower quote e (mkP name i (PRepl false orig w)) = OOk (r, None) /\
    ((exists pre suf, s = pre ++ suf /\ pmatch (toks a) pre /\ r = literal_of w ++ suf /\
        forall pre' suf', s = pre' ++ suf' -> pmatch (toks a) pre' -> (length pre' <= length pre)%nat)
     \/ (r = s /\ forall pre suf, s = pre ++ suf -> ~ pmatch (toks a) pre)).
Proof. exact replace_begin_param. Qed.
Print Assumptions C21_replace_anchored_begin.

(* ${p/pat/w}: the occurrence replaced starts at the leftmost position where pat matches and is the longest
   match at that position; unchanged when pat matches nowhere *)
Theorem C21_replace_first : forall upper lower quote e name i orig w s p a,
  is_params_name name = false -> is_list_idx i = false ->
  bash_value (env_get e name) i = PVal (Some s) ->
  split_anchor false orig (pattern_of orig) = (ANone, p) ->
  p <> [] ->
  pat_atoms p = PatOk a ->
  exists r, param_exp upper lower quote e (mkP name i (PRepl false orig w)) = OOk (r, None) /\
    ((exists pre mid post, s = pre ++ mid ++ post /\ pmatch (toks a) mid /\ r = pre ++ literal_of w ++ post /\
        (forall pre' mid' post', s = pre' ++ mid' ++ post' -> pmatch (toks a) mid' -> (length pre <= length pre')%nat) /\
        (forall mid' post', mid ++ post = mid' ++ post' -> pmatch (toks a) mid' -> (length mid' <= length mid)%nat))
     \/ (r = s /\ forall pre mid post, s = pre ++ mid ++ post -> ~ pmatch (toks a) mid)).
Proof. exact replace_first_param. Qed.
Print Assumptions C21_replace_first.

Theorem C21_replace_unset : forall upper lower quote e name i all orig w,
  is_params_name name = false -> is_list_idx i = false ->
  bash_value (env_get e name) i = PVal None ->
  param_exp upper lower quote e (mkP name i (PRepl all orig w)) = OOk ([], None).
Proof. exact replace_unset_param. Qed.
Print Assumptions C21_replace_unset.

(* C21_elementwise: "${a[@]op}" / "$@": one field per element, "${a[*]op}" / "$*": the elements joined with the first
   IFS character; each element is exactly what the same operator gives on a scalar holding that element
   (C21_elementwise_scalar; by C21_remove_prefix / C21_remove_suffix / C21_case that is bash's result) *)
Theorem C21_elementwise_quoted : forall upper lower quote e name i op w l star f,
  list_of_subject e name i = Some (l, star) ->
  is_pat_op op = true ->
  pat_in_model (exp_arg op w) = true ->
  elem_op upper lower op (exp_arg op w) = Some f ->
  expand_word upper lower quote e (mkP name i (PExp op w)) true =
  OOk (if star then [ifs_join e (map f l)] else map f l, None).
Proof. exact elementwise_quoted. Qed.
Print Assumptions C21_elementwise_quoted.

Theorem C21_elementwise_scalar : forall upper lower quote e name op w x f,
  is_params_name name = false ->
  env_get e name = VStr x ->
  is_pat_op op = true ->
  pat_in_model (exp_arg op w) = true ->
  elem_op upper lower op (exp_arg op w) = Some f ->
  param_exp upper lower quote e (mkP name INone (PExp op w)) = OOk (f x, None).
Proof. exact elementwise_scalar. Qed.
Print Assumptions C21_elementwise_scalar.

(* unquoted: the converted elements are joined and the result is split at IFS ... *)
Theorem C21_elementwise_unquoted : forall upper lower quote e name i op w l star f,
  is_params_name name = false ->
  list_of_subject e name i = Some (l, star) ->
  is_pat_op op = true ->
  pat_in_model (exp_arg op w) = true ->
  elem_op upper lower op (exp_arg op w) = Some f ->
  expand_word upper lower quote e (mkP name i (PExp op w)) false =
  OOk (split_fields (ifs_of e) (if star then ifs_join e (map f l) else join SP (map f l)) [], None).
Proof. exact elementwise_unquoted. Qed.
Print Assumptions C21_elementwise_unquoted.

(* ... which, when IFS contains the space (the default), is splitting every element on its own, as bash does;
   with IFS='' it is not (known finding unquoted_list_op_null_ifs) *)
Theorem C21_split_of_joined_elements : forall ifs xs,
  in_str 32 ifs = true ->
  split_fields ifs (join SP xs) [] = flat_map (fun x => split_fields ifs x []) xs.
Proof. exact split_join_space. Qed.
Print Assumptions C21_split_of_joined_elements.

(* the same for replacement: "${a[@]/p/w}" "${a[*]//p/w}" "$@" with /# /% ... = the scalar replacement on every element *)
Theorem C21_elementwise_quoted_replace : forall upper lower quote e name i all orig w l star f,
  list_of_subject e name i = Some (l, star) ->
  repl_op all orig w = Some f ->
  expand_word upper lower quote e (mkP name i (PRepl all orig w)) true =
  OOk (if star then [ifs_join e (map f l)] else map f l, None).
Proof. exact elementwise_quoted_repl. Qed.
Print Assumptions C21_elementwise_quoted_replace.

Theorem C21_elementwise_scalar_replace : forall upper lower quote e name all orig w x f,
  is_params_name name = false ->
  env_get e name = VStr x ->
  repl_op all orig w = Some f ->
  param_exp upper lower quote e (mkP name INone (PRepl all orig w)) = OOk (f x, None).
Proof. exact elementwise_scalar_repl. Qed.
Print Assumptions C21_elementwise_scalar_replace.

Example C21_remove_nonvacuous :
  (* v = b NL a b ; ${v%*b} = b NL a (shortest suffix across the newline, repaired) ; ${v%%"*"b} unchanged *)
  param_exp (fun c => c) (fun c => c) (fun s => s) [([118], VStr [98; 10; 97; 98])]
            (mkP [118] INone (PExp RemSS [WLit [42; 98]])) = OOk ([98; 10; 97], None) /\
  param_exp (fun c => c) (fun c => c) (fun s => s) [([118], VStr [98; 10; 97; 98])]
            (mkP [118] INone (PExp RemLS [WQuo [42]; WLit [98]])) = OOk ([98; 10; 97; 98], None) /\
  pat_atoms (pattern_of [WQuo [42]; WLit [98]]) = PatOk [RChar 42; RChar 98].
Proof. vm_compute. repeat split; reflexivity. Qed.

Example C21_elementwise_nonvacuous :
  (* a=(foo "b ar") ; "${a[@]^}" = Foo, "B ar" ; ${a[@]#?} = oo, ar split: oo , ar  (3 fields: oo " ar" -> oo, ar) *)
  expand_word (fun c => if (97 <=? c) && (c <=? 122) then c - 32 else c) (fun c => c) (fun s => s)
              [([97], VIdx [[102; 111; 111]; [98; 32; 97; 114]] None)] (mkP [97] IAt (PExp UpFirst [])) true
  = OOk ([[70; 111; 111]; [66; 32; 97; 114]], None).
Proof. vm_compute. reflexivity. Qed.

(* full statement: forall e name v, bash_value (env_get e name) INone = PVal v ->
     param_exp e (mkP name INone PExcl) = lift (bash_indirect e v).
   Refuted on the pinned tree by the classes indirect_invalid_name (empty value) and
   indirect_to_assoc; proved outside them for plain scalars. *)
Theorem C21_indirect : forall upper lower quote e name v,
  is_params_name name = false ->
  plain_scalar (env_get e name) = true ->
  bash_value (env_get e name) INone = PVal v ->
  v <> Some [] ->
  not_assoc (env_get e (cur v)) = true ->
  param_exp upper lower quote e (mkP name INone PExcl) = lift (bash_indirect e v).
Proof. exact indirect_correct. Qed.
Print Assumptions C21_indirect.

Theorem C21_indirect_refuted : exists e name v,
  bash_value (env_get e name) INone = PVal v /\
  param_exp (fun c => c) (fun c => c) (fun s => s) e (mkP name INone PExcl)
  <> lift (bash_indirect e v).
Proof.
  exists [([114], VStr [])], [114], (Some []). split; [reflexivity|]. vm_compute. discriminate.
Qed.
Print Assumptions C21_indirect_refuted.

(* the model reproduces known finding default_op_on_list_subject: "${*+x}" with $1=a $2=b is "a b" *)
Example C21_default_on_list_refuted :
  expand_word (fun c => c) (fun c => c) (fun s => s)
            [([42], VIdx [[97]; [98]] None)] (mkP [42] INone (PExp AltUnset [WLit [120]])) true
  = OOk ([[97; 32; 98]], None).
Proof. vm_compute. reflexivity. Qed.

(* non-vacuity: the hypotheses are satisfiable by non-trivial inputs *)
Example C21_defaults_nonvacuous :
  let e := [([118], VIdx [[97]; []] (Some [2%Z; 5%Z]))] in
  bash_value (env_get e [118]) (INum (-1)%Z) = PVal (Some []) /\
  param_exp (fun c => c) (fun c => c) (fun s => s) e (mkP [118] (INum (-1)%Z) (PExp DefUnsetOrNull [WLit [120]; WQuo [42]]))
  = OOk ([120; 42], None).
Proof. split; vm_compute; reflexivity. Qed.

Example C21_substring_nonvacuous :
  param_exp (fun c => c) (fun c => c) (fun s => s) [([118], VStr [104; 233; 108; 108; 111])]
            (mkP [118] INone (PSlice (Some (-4)%Z) (Some (-1)%Z)))
  = OOk ([233; 108; 108], None)
  /\ bash_substring (Some [97; 98; 99]) (Some 2%Z) (Some (-2)%Z) = OErr 4.
Proof. split; vm_compute; reflexivity. Qed.
