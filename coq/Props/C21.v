(* Props/C21.v — property theorems only. *)
From Verif Require Import Base.Str Expand.Param Proofs.ParamProofs.
