(* Props/C24.v — property theorems only. *)
From Verif Require Import Base.Str Expand.Format Proofs.FormatProofs.
Open Scope N_scope.
