(* Props/C24.v — property theorems only.
   C24: DQUOTEfor every format string built from the directives the interpreter supports and every argument list,
   printf and echo -e write the same bytes and return the same status as bash's builtins, including reusing
   the format while arguments remain.DQUOTE
   The full statement  forall argv, builtin argv = bash argv  is FALSE for the faithful model: see the
   C24_*_refuted witnesses (one per narrow known class).  The positive theorems are stated on the domain of
   the partial Spec (Expand/Format.v, part 3: bash's rules per directive; None outside the subset). *)
From Verif Require Import Base.Str Expand.Format Proofs.FormatProofs.
Open Scope N_scope.

(* the reuse loop terminates: |args|+1 rounds are enough, each continuing round consumes >= 1 argument *)
Theorem C24_reuse_terminates : forall argv, printf_builtin argv <> BOutOfFuel.
Proof. exact printf_builtin_terminates. Qed.
Print Assumptions C24_reuse_terminates.

Theorem C24_format_terminates : forall fmt args, format fmt args <> FOutOfFuel.
Proof. exact format_no_oof. Qed.
Print Assumptions C24_format_terminates.

(* no index of formatInto, Format, the reuse loop (args[n:]) or echo can go out of range *)
Theorem C24_no_panic : forall argv, printf_builtin argv <> BPanic.
Proof. exact printf_builtin_no_panic. Qed.
Print Assumptions C24_no_panic.

Theorem C24_no_panic_format : forall fmt args, format fmt args <> FPanic.
Proof. exact format_no_panic. Qed.
Print Assumptions C24_no_panic_format.

Theorem C24_no_panic_echo : forall args, echo_builtin args <> BPanic /\ echo_builtin args <> BOutOfFuel.
Proof. exact echo_builtin_ok. Qed.
Print Assumptions C24_no_panic_echo.

(* C24_format_matches: for ALL formats and ALL argument lists inside the Spec's domain (the directive subset on
   which the code is right: %s %c %b %d %i %u %o %x %%, one flag of - + space, the 0 flag, widths up to 7 digits,
   every escape sequence in the format and in %b arguments, arguments that are complete in-range integers for the
   numeric conversions, fewer arguments than directives, more arguments = reuse of the format) the printf builtin
   writes exactly the Spec's bytes and returns the Spec's status.  The domain excludes precisely the refuted
   classes below (and what the property does not speak about); it is carved by the Spec returning None. *)
Theorem C24_format_matches : forall fmt args out st,
  spec_printf fmt args = Some (out, st) -> printf_builtin (fmt :: args) = BOut out st.
Proof. exact printf_matches. Qed.
Print Assumptions C24_format_matches.

(* the numeric core: bash's strtoimax and Go's strconv.ParseInt(s, 0, 0) agree on every complete in-range integer *)
Theorem C24_numeric_argument_matches : forall arg v, spec_int arg = Some v -> parse_int0 arg = v.
Proof. exact parse_int0_spec. Qed.
Print Assumptions C24_numeric_argument_matches.

(* the hypothesis is satisfiable by a non-trivial input: every conversion, flags, zero padding, hex and octal
   arguments, escapes, %b with \0NNN, %%, and one reuse of the format with missing arguments *)
Example C24_format_matches_nonvacuous :
  exists out, spec_printf ex_fmt ex_args = Some (out, 0) /\ printf_builtin (ex_fmt :: ex_args) = BOut out 0 /\ (40 < len out).
Proof. exact printf_matches_nonvacuous. Qed.

(* echo [-n] [-e] [-E] ...: for ALL argument lists inside the Spec's domain (option words = a dash followed by one or more of n e E, also combined like -ne; the
   last of e/E wins; under -e every escape \a \b \e \E \f \n \r \t \v \\ \0NNN \xHH \uHHHH \UHHHHHHHH (scalar
   values), unknown escapes and a trailing backslash; NOT \c, \' \DQUOTE \?, \NNN without the zero) the builtin writes
   the Spec's bytes with the Spec's status *)
Theorem C24_echo_matches : forall args out st, spec_echo args = Some (out, st) -> echo_builtin args = BOut out st.
Proof. exact echo_matches. Qed.
Print Assumptions C24_echo_matches.

(* a %b argument (and Format(DQUOTE%bDQUOTE, [arg])): same escapes plus \NNN *)
Theorem C24_percent_b_matches : forall arg o, spec_b MPercentB arg = Some o -> format [PCT; 98] (Some [arg]) = FOk o 1.
Proof. exact (fun arg o H => format_pct_b arg o (format_b_spec MPercentB arg o eq_refl H)). Qed.
Print Assumptions C24_percent_b_matches.

(* ---- refuted: the full statement fails on these inputs.  w_<class> is the argv, the literal bytes and status
   are what real bash 5.2 writes (the harness re-runs every witness against bash on every run); the Spec is
   undefined (None) on each of them, i.e. they are outside the scope of C24_format_matches. *)
(* printf '%.2s' 'abcdef'  -> bash: 'ab' status 0 *)
Theorem C24_refuted_precision_rejected : printf_builtin w_precision_rejected <> BOut [97;98] 0 /\ (fun a => spec_printf (hd [] a) (tl a)) w_precision_rejected = None.
Proof. exact refuted_precision_rejected. Qed.
Print Assumptions C24_refuted_precision_rejected.

(* printf '%d' 'abc'  -> bash: '0' status 1 *)
Theorem C24_refuted_invalid_number_argument : printf_builtin w_invalid_number_argument <> BOut [48] 1 /\ (fun a => spec_printf (hd [] a) (tl a)) w_invalid_number_argument = None.
Proof. exact refuted_invalid_number_argument. Qed.
Print Assumptions C24_refuted_invalid_number_argument.

(* printf '%d' DQUOTE'aDQUOTE  -> bash: '97' status 0 *)
Theorem C24_refuted_char_constant_argument : printf_builtin w_char_constant_argument <> BOut [57;55] 0 /\ (fun a => spec_printf (hd [] a) (tl a)) w_char_constant_argument = None.
Proof. exact refuted_char_constant_argument. Qed.
Print Assumptions C24_refuted_char_constant_argument.

(* printf '%05s|' 'ab'  -> bash: '   ab|' status 0 *)
Theorem C24_refuted_zero_flag_on_string : printf_builtin w_zero_flag_on_string <> BOut [32;32;32;97;98;124] 0 /\ (fun a => spec_printf (hd [] a) (tl a)) w_zero_flag_on_string = None.
Proof. exact refuted_zero_flag_on_string. Qed.
Print Assumptions C24_refuted_zero_flag_on_string.

(* printf '%+x' '255'  -> bash: 'ff' status 0 *)
Theorem C24_refuted_sign_flag_on_unsigned : printf_builtin w_sign_flag_on_unsigned <> BOut [102;102] 0 /\ (fun a => spec_printf (hd [] a) (tl a)) w_sign_flag_on_unsigned = None.
Proof. exact refuted_sign_flag_on_unsigned. Qed.
Print Assumptions C24_refuted_sign_flag_on_unsigned.

(* printf '%+ d' '5'  -> bash: '+5' status 0 *)
Theorem C24_refuted_multiple_flags_rejected : printf_builtin w_multiple_flags_rejected <> BOut [43;53] 0 /\ (fun a => spec_printf (hd [] a) (tl a)) w_multiple_flags_rejected = None.
Proof. exact refuted_multiple_flags_rejected. Qed.
Print Assumptions C24_refuted_multiple_flags_rejected.

(* printf 'abc%'  -> bash: 'abc' status 1 *)
Theorem C24_refuted_incomplete_directive_output : printf_builtin w_incomplete_directive_output <> BOut [97;98;99] 1 /\ (fun a => spec_printf (hd [] a) (tl a)) w_incomplete_directive_output = None.
Proof. exact refuted_incomplete_directive_output. Qed.
Print Assumptions C24_refuted_incomplete_directive_output.

(* printf '%5%|'  -> bash: '' status 1 *)
Theorem C24_refuted_percent_with_flags_or_width : printf_builtin w_percent_with_flags_or_width <> BOut [] 1 /\ (fun a => spec_printf (hd [] a) (tl a)) w_percent_with_flags_or_width = None.
Proof. exact refuted_percent_with_flags_or_width. Qed.
Print Assumptions C24_refuted_percent_with_flags_or_width.

(* printf '%u' '18446744073709551615'  -> bash: '18446744073709551615' status 0 *)
Theorem C24_refuted_unsigned_beyond_int64 : printf_builtin w_unsigned_beyond_int64 <> BOut [49;56;52;52;54;55;52;52;48;55;51;55;48;57;53;53;49;54;49;53] 0 /\ (fun a => spec_printf (hd [] a) (tl a)) w_unsigned_beyond_int64 = None.
Proof. exact refuted_unsigned_beyond_int64. Qed.
Print Assumptions C24_refuted_unsigned_beyond_int64.

(* printf '%b' 'a\\cb' 'x'  -> bash: 'a' status 0 *)
Theorem C24_refuted_b_backslash_c : printf_builtin w_b_backslash_c <> BOut [97] 0 /\ (fun a => spec_printf (hd [] a) (tl a)) w_b_backslash_c = None.
Proof. exact refuted_b_backslash_c. Qed.
Print Assumptions C24_refuted_b_backslash_c.

(* printf '%b' DQUOTE\\'DQUOTE  -> bash: DQUOTE\\'DQUOTE status 0 *)
Theorem C24_refuted_b_quote_escape : printf_builtin w_b_quote_escape <> BOut [92;39] 0 /\ (fun a => spec_printf (hd [] a) (tl a)) w_b_quote_escape = None.
Proof. exact refuted_b_quote_escape. Qed.
Print Assumptions C24_refuted_b_quote_escape.

(* printf '%5s|' 'é'  -> bash: '   é|' status 0 *)
Theorem C24_refuted_width_counts_runes : printf_builtin w_width_counts_runes <> BOut [32;32;32;195;169;124] 0 /\ (fun a => spec_printf (hd [] a) (tl a)) w_width_counts_runes = None.
Proof. exact refuted_width_counts_runes. Qed.
Print Assumptions C24_refuted_width_counts_runes.

(* printf '\\ud800'  -> bash: b'\xed\xa0\x80' status 0 *)
Theorem C24_refuted_unicode_escape_nonscalar : printf_builtin w_unicode_escape_nonscalar <> BOut [237;160;128] 0 /\ (fun a => spec_printf (hd [] a) (tl a)) w_unicode_escape_nonscalar = None.
Proof. exact refuted_unicode_escape_nonscalar. Qed.
Print Assumptions C24_refuted_unicode_escape_nonscalar.

(* echo '-e' '\\101'  -> bash: '\\101\n' status 0 *)
Theorem C24_refuted_echo_bare_octal : echo_builtin w_echo_bare_octal <> BOut [92;49;48;49;10] 0 /\ spec_echo w_echo_bare_octal = None.
Proof. exact refuted_echo_bare_octal. Qed.
Print Assumptions C24_refuted_echo_bare_octal.

