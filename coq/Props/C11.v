(* Props/C11.v — property theorems only.
   C11 "Language variants gate their features consistently".
   The whole parser is not modelled.  What is proved:
   (a) over the GENERATED table of every gate call site of syntax/*.go (Gen/LangSets.v, go/ast, regenerated and re-checked on
       every run; finite, so vm_compute is a proof): gating is complete, bash-in-set implies bats-in-set, the only gate that
       separates bats from bash is `@test`, no feature gate admits POSIX;
   (b) over an abstract gated parser (any deterministic process consulting gates / the recovery budget):
       the bash run and the bats run coincide unless a bats-only gate is consulted; an accepted run does not depend on the
       RecoverErrors budget;
   (c) soundness of the Coq twin of the non-POSIX tree checker that the check runs on every POSIX-accepted tree. *)
From Coq Require Import List Arith Bool String.
From Verif Require Import Syntax.LangGate Gen.LangSets Proofs.LangGateProofs Proofs.LangSetsOK.
Import ListNotations.

(* ---- (a) table lemmas: the whole parser's gating *)
Theorem C11_all_gated : all_gated_b gates = true.
Proof. exact all_gated. Qed.
Print Assumptions C11_all_gated.

Theorem C11_bash_subset_bats :
  forallb (fun g => implb (mem bash (g_set g)) (mem bats (g_set g))) (const_gates gates) = true.
Proof. exact bash_subset_bats. Qed.
Print Assumptions C11_bash_subset_bats.

Theorem C11_bats_extra :
  map g_set (bats_extra gates) = [[bats]] /\
  forallb (fun g => String.prefix "parser.go:gotStmtPipe" (g_site g)) (bats_extra gates) = true.
Proof. exact bats_extra_is_at_test. Qed.
Print Assumptions C11_bats_extra.

Theorem C11_posix_gate_table : posix_gate_b gates = true.
Proof. exact posix_gate_table. Qed.
Print Assumptions C11_posix_gate_table.

(* ---- (b) generic theorems over the abstract gated parser.
   Full statement wanted by the property:  accepted as bash -> accepted as bats with the same tree.
   It is REFUTED for processes that consult a bats-only gate (C11_bash_bats_refuted; in the code: the `@test` keyword, known
   finding bats_test_keyword) and proved for all others. *)
Theorem C11_bash_bats :
  forall (R : Type) (rejected : R) (sets : list (list nat)) (p : proc R) budget,
  subset_b sets = true ->
  (forall g, In g (consulted (oracle_of sets bash) budget p) -> ~ In g (extra_idx sets)) ->
  exec rejected (oracle_of sets bats) budget p = exec rejected (oracle_of sets bash) budget p.
Proof. exact bash_bats_same_run. Qed.
Print Assumptions C11_bash_bats.

(* instantiated with the generated table: its hypotheses hold for the real gate sets *)
Theorem C11_bash_bats_real_table :
  subset_b (sets_of (const_gates gates)) = true /\ List.length (extra_idx (sets_of (const_gates gates))) = 1.
Proof. exact (conj gates_subset gates_extra_single). Qed.
Print Assumptions C11_bash_bats_real_table.

Theorem C11_bash_bats_refuted :
  let sets := [[bash; bats]; [bats]] in
  let p := Ask 1 (fun b => if b then Ret 1 else Ret 2) in
  exec 0 (oracle_of sets bats) 0 p <> exec 0 (oracle_of sets bash) 0 p /\ subset_b sets = true /\ extra_idx sets = [1].
Proof. exact bash_bats_differ_on_extra. Qed.
Print Assumptions C11_bash_bats_refuted.

Theorem C11_gates_agree_same_run :
  forall (R : Type) (rejected : R) (p : proc R) o1 o2 budget,
  (forall g, In g (consulted o1 budget p) -> o1 g = o2 g) ->
  exec rejected o1 budget p = exec rejected o2 budget p.
Proof. exact exec_agree. Qed.
Print Assumptions C11_gates_agree_same_run.

Theorem C11_recover_transparent :
  forall (R : Type) (rejected : R) (p : proc R) o r n,
  exec rejected o 0 p = r -> r <> rejected -> exec rejected o n p = r.
Proof. exact recover_transparent. Qed.
Print Assumptions C11_recover_transparent.

(* ---- (c) the tree checker *)
Theorem C11_posix_checker_sound :
  forall forbidden t, posix_only forbidden t = true ->
  forall n, occurs n t -> forall f, In f (node_flags n) -> ~ In f forbidden.
Proof. exact posix_checker_sound. Qed.
Print Assumptions C11_posix_checker_sound.

Example C11_table_nontrivial : 80 <= List.length gates /\ 30 <= List.length (filter (fun g => mem bash (g_set g)) gates).
Proof. exact gates_nontrivial. Qed.
