(* Props/C36.v — property theorems only. *)
From Verif Require Import Base.Str Shfmt.Modes Shfmt.Patch Proofs.PatchProofs.

(* applying a well-formed unified diff of a (hunks hs) that describes b yields b *)
Theorem C36_patch_applier_correct : forall a hs b, describes 0 a hs b -> apply_patch a hs = Some b.
Proof. exact apply_patch_correct. Qed.
Print Assumptions C36_patch_applier_correct.

(* and the applier is strict: it accepts nothing else *)
Theorem C36_patch_applier_strict : forall a hs b, apply_patch a hs = Some b -> describes 0 a hs b.
Proof. exact (fun a hs b => apply_sound hs 0 a b). Qed.
Print Assumptions C36_patch_applier_strict.

Example C36_patch_nonvacuous :
  describes 0 [l_ 1; l_ 2; l_ 3; l_ 4; l_ 5]
            [mkHunk 1 [(Ctx, l_ 2); (Del, l_ 3); (Add, l_ 9)]; mkHunk 4 [(Del, l_ 5); (Add, l_ 7); (Add, l_ 8)]]
            [l_ 1; l_ 2; l_ 9; l_ 4; l_ 7; l_ 8].
Proof. exact describes_example. Qed.
