(* Props/C36.v — property theorems only.  The formatter [fmt] (parse + simplify + print with the options in
   force), fileutil.Shebang [sb] and langFromFilename [lff] are universally quantified. *)
From Verif Require Import Base.Str Shfmt.Modes Shfmt.Patch Proofs.ModesProofs Proofs.PatchProofs.

(* shfmt -l (no -w) lists exactly the files whose formatted output differs from their contents *)
Theorem C36_list_iff_differs : forall fmt sb lff fl flagl fs, listing fl = true -> f_write fl = false ->
  forall p, listed (fst (run_files fmt sb lff fl flagl fs)) p <->
            exists f, In f fs /\ fi_path f = p /\ differs fmt sb lff flagl f.
Proof. exact listed_iff_differs. Qed.
Print Assumptions C36_list_iff_differs.

(* ... and exits non-zero exactly when it lists any, or a file could not be parsed (then main prints the error) *)
Theorem C36_exit_iff_listed : forall fmt sb lff fl flagl fs, listing fl = true -> f_write fl = false ->
  (snd (run_files fmt sb lff fl flagl fs) = true <->
   (exists p, listed (fst (run_files fmt sb lff fl flagl fs)) p) \/ (exists f, In f fs /\ errors fmt sb lff flagl f)).
Proof. exact exit_iff. Qed.
Print Assumptions C36_exit_iff_listed.

(* shfmt -d prints a diff exactly for those files; with -l as well the two sets coincide *)
Theorem C36_diff_iff_listed : forall fmt sb lff fl flagl fs, f_diff fl = true -> f_write fl = false ->
  (forall p, diffed (fst (run_files fmt sb lff fl flagl fs)) p <->
             exists f, In f fs /\ fi_path f = p /\ differs fmt sb lff flagl f) /\
  (listing fl = true -> forall p, diffed (fst (run_files fmt sb lff fl flagl fs)) p <->
                                  listed (fst (run_files fmt sb lff fl flagl fs)) p).
Proof.
  exact (fun fmt sb lff fl flagl fs Hd Hw =>
           conj (diffed_iff_differs fmt sb lff fl flagl fs Hd Hw)
                (fun Hl => diffed_iff_listed fmt sb lff fl flagl fs Hl Hd Hw)).
Qed.
Print Assumptions C36_diff_iff_listed.

(* the diff that is printed is the one from the file's contents to its formatted output *)
Theorem C36_diff_is_src_to_formatted : forall fmt sb lff fl flagl fs p s r, f_diff fl = true -> f_write fl = false ->
  In (EvDiff p s r) (fst (run_files fmt sb lff fl flagl fs)) ->
  exists f, In f fs /\ fi_path f = p /\ fi_src f = s /\ fmt (file_lang sb lff flagl f) s = Ok r.
Proof. exact diff_is_src_to_formatted. Qed.
Print Assumptions C36_diff_is_src_to_formatted.

(* -w combined with any other mode flags (-l, -d): exactly the differing (regular) files are rewritten, with
   their formatted bytes *)
Theorem C36_write_iff_differs : forall fmt sb lff fl flagl fs p r,
  f_write fl = true -> (forall f, In f fs -> fi_isreg f = true) ->
  (In (EvWrite p r) (fst (run_files fmt sb lff fl flagl fs)) <->
   exists f, In f fs /\ fi_path f = p /\ skipped sb f = false /\
             fmt (file_lang sb lff flagl f) (fi_src f) = Ok r /\ r <> fi_src f).
Proof. exact write_iff_differs. Qed.
Print Assumptions C36_write_iff_differs.

(* after shfmt -w (alone or together with -l / -d: [flw] is any flag set with -w), shfmt -l lists nothing -- GIVEN that the formatter is idempotent (this hypothesis is
   property C02) and that the formatted bytes are detected as the same language as the source.  Both hypotheses
   are necessary: known findings c02_nonidempotent_input and language_redetected_after_format are the two ways
   the clause fails on the real binary. *)
Theorem C36_write_then_list_empty : forall fmt sb lff flw fll flagl fs,
  f_write flw = true -> listing fll = true -> f_write fll = false ->
  (forall l s r, fmt l s = Ok r -> fmt l r = Ok r) ->
  (forall f r, In f fs -> skipped sb f = false -> fmt (file_lang sb lff flagl f) (fi_src f) = Ok r ->
     let f' := mkFile (fi_path f) r (fi_check_shebang f) (fi_isreg f) in
     skipped sb f' = false -> file_lang sb lff flagl f' = file_lang sb lff flagl f) ->
  NoDup (map fi_path fs) -> (forall f, In f fs -> fi_isreg f = true) ->
  forall p, ~ listed (fst (run_files fmt sb lff fll flagl
                             (map (after_write (fst (run_files fmt sb lff flw flagl fs))) fs))) p.
Proof. exact write_then_list_empty. Qed.
Print Assumptions C36_write_then_list_empty.

(* formatting through stdin (--filename) gives the same events, hence the same bytes, as formatting the file,
   when the same language is detected; it is when -ln is given, when the file name decides, or when the shebang
   found in the whole source is the one found in its first 32 bytes (known finding shebang_cut_at_32_bytes is
   exactly the failure of that last condition) *)
Theorem C36_stdin_same : forall fmt sb lff fl flagl f, f_write fl = false -> skipped sb f = false ->
  (flagl <> None \/ lff (fi_path f) <> None \/ sb (fi_src f) = sb (head32 (fi_src f))) ->
  format_stdin fmt sb lff fl flagl (fi_path f) (fi_src f) = format_path fmt sb lff fl flagl f.
Proof.
  exact (fun fmt sb lff fl flagl f Hw Hs H =>
           stdin_same fmt sb lff fl flagl f Hw Hs (detect_same sb lff flagl (fi_path f) (fi_src f) H)).
Qed.
Print Assumptions C36_stdin_same.

(* non-vacuity of the mode theorems: a concrete idempotent formatter, one differing, one formatted, one erroneous
   file: -l lists the first and reports the third; after -w, -l lists nothing (and still reports the third) *)
Example C36_modes_nonvacuous :
  run_files ex_fmt ex_shebang ex_lff (mkFlags LNl false false) None ex_files
    = ([EvList [97] false; EvErr [99]], true)%N /\
  run_files ex_fmt ex_shebang ex_lff (mkFlags LNl false false) None
    (map (after_write (fst (run_files ex_fmt ex_shebang ex_lff (mkFlags LOff true false) None ex_files))) ex_files)
    = ([EvErr [99]], true)%N.
Proof. exact ex_modes_run. Qed.

(* applying a well-formed unified diff of a (hunks hs) that describes b yields b *)
Theorem C36_patch_applier_correct : forall a hs b, describes 0 a hs b -> apply_patch a hs = Some b.
Proof. exact apply_patch_correct. Qed.
Print Assumptions C36_patch_applier_correct.

(* and the applier is strict: it accepts nothing else *)
Theorem C36_patch_applier_strict : forall a hs b, apply_patch a hs = Some b -> describes 0 a hs b.
Proof. exact (fun a hs b => apply_sound hs 0 a b). Qed.
Print Assumptions C36_patch_applier_strict.

Example C36_patch_nonvacuous :
  describes 0 [l_ 1; l_ 2; l_ 3; l_ 4; l_ 5]
            [mkHunk 1 [(Ctx, l_ 2); (Del, l_ 3); (Add, l_ 9)]; mkHunk 4 [(Del, l_ 5); (Add, l_ 7); (Add, l_ 8)]]
            [l_ 1; l_ 2; l_ 9; l_ 4; l_ 7; l_ 8].
Proof. exact describes_example. Qed.
