(* Props/C03.v -- property theorems only (C03 formatting never changes what a script does).
   Core fragment of Syntax/FormatSem.v.  Scope: the parameter LINENO (the one position-dependent
   parameter) is not part of the fragment; the whole language is covered by the behavioural
   search of checks/c03.py, which is the oracle the property asks for. *)
From Verif Require Import Base.Str Syntax.FormatSem Proofs.FormatSemProofs.

(* everything norm erases (source lines, comments, `;` vs newline, line continuations,
   backquote spelling, braces around a parameter name) is invisible to the semantics:
   same final state, standard output and exit status, for every state, every abstract
   utility semantics, every fuel (running out of fuel included) *)
Theorem C03_norm_preserves_sem :
  forall State lookup run set_status t t' fuel s,
    norm_stmts t = norm_stmts t' ->
    sem_stmts State lookup run set_status fuel t s = sem_stmts State lookup run set_status fuel t' s.
Proof. exact norm_preserves_sem. Qed.
Print Assumptions C03_norm_preserves_sem.

(* non-vacuity: `echo \`true\` ${x}; false # c` on line 3 vs `echo $(true) $x` / `false` on lines 1-2 *)
Open Scope N_scope.
Example C03_example :
  let t  := SCons 3 None true
              (Simple (WsCons 0 (WCons (PLit [101;99;104;111]) WNil)
                      (WsCons 1 (WCons (PSub true (SCons 3 None false (Simple (WsCons 0 (WCons (PLit [116;114;117;101]) WNil) WsNil)) SNil)) WNil)
                      (WsCons 0 (WCons (PParam true [120]) WNil) WsNil))))
              (SCons 3 (Some [32;99]) false (Simple (WsCons 0 (WCons (PLit [102;97;108;115;101]) WNil) WsNil)) SNil) in
  let t' := SCons 1 None false
              (Simple (WsCons 0 (WCons (PLit [101;99;104;111]) WNil)
                      (WsCons 0 (WCons (PSub false (SCons 1 None false (Simple (WsCons 0 (WCons (PLit [116;114;117;101]) WNil) WsNil)) SNil)) WNil)
                      (WsCons 0 (WCons (PParam false [120]) WNil) WsNil))))
              (SCons 2 None false (Simple (WsCons 0 (WCons (PLit [102;97;108;115;101]) WNil) WsNil)) SNil) in
  t <> t' /\ norm_stmts t = norm_stmts t'.
Proof. split; [discriminate|reflexivity]. Qed.
