(* Props/C03.v -- property theorems only (C03 formatting never changes what a script does).
   Fragment of Syntax/FormatSem.v: simple commands with assignments, redirections and
   here-documents, ! && || { } ( ) if while/until for case, function declarations and calls,
   words of literals / quotes / parameters / command substitutions.
   Scope: the parameter LINENO (the one position-dependent parameter) is not part of the fragment;
   the whole language is covered by the behavioural search of checks/c03.py, which is the oracle
   the property asks for. *)
From Verif Require Import Base.Str Syntax.FormatSem Proofs.FormatSemProofs.

(* everything norm erases (source lines, comments, `;` vs newline, line continuations, backquote
   spelling, braces around a parameter name, leading tabs of dash here-document lines) is
   invisible to the semantics: same final state, standard output and exit status, for every
   state, every abstract utility / redirection / pattern / function-table semantics, every fuel
   (running out of fuel included) *)
Theorem C03_norm_preserves_sem :
  forall State lookup run set_status redir_open redir_close set_var pmatch def_func func_body enter_func leave_func
         t t' fuel s,
    norm_stmts t = norm_stmts t' ->
    sem_top State lookup run set_status redir_open redir_close set_var pmatch def_func func_body enter_func leave_func fuel t s =
    sem_top State lookup run set_status redir_open redir_close set_var pmatch def_func func_body enter_func leave_func fuel t' s.
Proof. exact norm_preserves_sem. Qed.
Print Assumptions C03_norm_preserves_sem.

(* norm is a normal form: applying it twice changes nothing (used for function bodies, which the
   function table stores normalised) *)
Theorem C03_norm_idempotent : forall t, norm_stmts (norm_stmts t) = norm_stmts t.
Proof. exact (proj1 (proj2 (proj2 (proj2 (proj2 (proj2 (proj2 (proj2 norm_idem_all)))))))). Qed.
Print Assumptions C03_norm_idempotent.

(* non-vacuity: `x=1 echo \`true\` ${x} >f; false # c` on line 3 with a dash here-document whose
   lines are indented, vs the re-laid-out text *)
Open Scope N_scope.
Example C03_example :
  let t  := SCons 3 None true
              (Redirected
                 (Simple (ACons false [120] (WCons (PLit [49]) WNil) ANil)
                    (WsCons 0 (WCons (PLit [101;99;104;111]) WNil)
                    (WsCons 1 (WCons (PSub true (SCons 3 None false (Simple ANil (WsCons 0 (WCons (PLit [116;114;117;101]) WNil) WsNil)) SNil)) WNil)
                    (WsCons 0 (WCons (PParam true [120]) WNil) WsNil))))
                 (RFile 1 None (WCons (PLit [102]) WNil)
                 (RHdoc true false [69] (DLit [9;9;97;10;9;98;10;9] DNil) RNil)))
              (SCons 3 (Some [32;99]) false (Simple ANil (WsCons 0 (WCons (PLit [102;97;108;115;101]) WNil) WsNil)) SNil) in
  let t' := SCons 1 None false
              (Redirected
                 (Simple (ACons false [120] (WCons (PLit [49]) WNil) ANil)
                    (WsCons 0 (WCons (PLit [101;99;104;111]) WNil)
                    (WsCons 0 (WCons (PSub false (SCons 1 None false (Simple ANil (WsCons 0 (WCons (PLit [116;114;117;101]) WNil) WsNil)) SNil)) WNil)
                    (WsCons 0 (WCons (PParam false [120]) WNil) WsNil))))
                 (RFile 1 None (WCons (PLit [102]) WNil)
                 (RHdoc true false [69] (DLit [97;10;98;10] DNil) RNil)))
              (SCons 5 None false (Simple ANil (WsCons 0 (WCons (PLit [102;97;108;115;101]) WNil) WsNil)) SNil) in
  t <> t' /\ norm_stmts t = norm_stmts t'.
Proof. split; [discriminate|reflexivity]. Qed.
