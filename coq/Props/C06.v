(* Props/C06.v — property theorems only.
   C06 "Parsing and printing never crash or hang" is established mainly by SEARCH (checks/c06.py).
   What is proved here is the progress argument behind "never hangs / roughly linear": any controller that obeys the
   parser's loop discipline (every iteration consumes >= 1 unit, opens a construct after consuming its opener, or
   returns; at EOF only returns) halts within 2*len + d0 steps.  The check ties it to the code by counting
   Parser.next / Parser.rune calls and loop iterations of the real parser on every searched input. *)
From Coq Require Import List Arith.
From Verif Require Import Syntax.Fuel Proofs.FuelProofs.

Theorem C06_progress_terminates :
  forall (A : Type) (ctl : st A -> act A), disciplined A ctl ->
  forall len d0 a, exists n fin, run A ctl (2 * len + d0 + 1) (mk len d0 a) = Done n fin /\ n <= 2 * len + d0.
Proof. exact progress_terminates. Qed.
Print Assumptions C06_progress_terminates.

Theorem C06_never_out_of_fuel :
  forall (A : Type) (ctl : st A -> act A), disciplined A ctl ->
  forall len d0 a fuel, 2 * len + d0 < fuel -> run A ctl fuel (mk len d0 a) <> OutOfFuel.
Proof. exact never_out_of_fuel. Qed.
Print Assumptions C06_never_out_of_fuel.

Theorem C06_consumed_le_len :
  forall (A : Type) (ctl : st A -> act A) fuel s, consumed A ctl fuel s <= rem s.
Proof. exact consumed_le. Qed.
Print Assumptions C06_consumed_le_len.

(* the discipline is necessary: a loop that stops advancing at EOF exhausts every fuel (this is what a hang is) *)
Theorem C06_stall_diverges : ~ disciplined unit stalling_ctl /\ forall fuel, run unit stalling_ctl fuel (mk 0 0 tt) = OutOfFuel.
Proof. exact (conj stalling_not_disciplined stalling_diverges). Qed.
Print Assumptions C06_stall_diverges.

(* non-vacuity: a disciplined controller exists and runs *)
Example C06_demo : disciplined unit demo_ctl /\ run unit demo_ctl 100 (mk 5 0 tt) = Done 8 (mk 0 0 tt).
Proof. exact (conj demo_disciplined demo_run). Qed.
