(* Props/C27.v — Subshells cannot change the parent shell. Theorems only.
   Model: Interp/Isolation.v (Runner state on the Go-slice heap), describing the
   code after fix d35f0af.  wf_heap / wf_runner = no dangling pointers (what Go's
   memory safety gives for every reachable state). *)
From Verif Require Import Base.Str Base.GoSlice Interp.Isolation Proofs.IsolationProofs.

(* For every growth policy of the Go runtime, every parent state, foreground
   (( ), $( )) and background (<( ), >( ), pipeline stage, &, Runner.Subshell)
   copies, and EVERY list of child operations: what the parent observes
   (all variables resolved through the heap, functions, aliases, options,
   directory, directory stack, positional parameters) is unchanged. *)
Theorem C27_isolated :
  forall (grow : nat -> nat -> nat) (r : runner) (h : heaps) (bg : bool) (ops : list op),
    wf_heap h -> wf_runner r h ->
    observe r (st_h (run_ops grow ops (subshell_state grow bg r h))) = observe r h.
Proof. exact isolated. Qed.
Print Assumptions C27_isolated.

(* the ownership invariant itself, without any well-formedness hypothesis: every
   cell that existed when the subshell was created keeps its contents *)
Theorem C27_child_writes_only_own_cells :
  forall grow r h bg ops,
    let g := st_h (run_ops grow ops (subshell_state grow bg r h)) in
    (forall l, l < length (ha h) -> nth_error (ha g) l = nth_error (ha h) l) /\
    (forall l, l < length (ho h) -> nth_error (ho g) l = nth_error (ho h) l).
Proof. exact child_writes_only_own_cells. Qed.
Print Assumptions C27_child_writes_only_own_cells.

(* non-vacuity: a well-formed parent with an array, an associative array and a
   function; a child whose own view does change *)
Example C27_hypotheses_satisfiable :
  wf_heap (st_h ex_parent) /\ wf_runner (st_r ex_parent) (st_h ex_parent).
Proof. exact ex_parent_wf. Qed.
Example C27_child_sees_its_change :
  forall bg,
    observe_var (st_r (ex_child bg)) (st_h (ex_child bg)) [97%N] <>
    observe_var (st_r ex_parent) (st_h ex_parent) [97%N].
Proof. exact ex_child_sees_change. Qed.

(* FIXED finding (d35f0af): with assignVal's old `prev.List[0] += s` (no clone) the
   property was refuted for foreground and background copies: a=(x y); (a+=z) *)
Theorem C27_old_array_scalar_append_refuted :
  forall bg, exists r h,
    wf_heap h /\ wf_runner r h /\ observe r (old_child_heap bg r h) <> observe r h.
Proof. exact old_append_scalar_changes_parent. Qed.
Print Assumptions C27_old_array_scalar_append_refuted.

(* OPEN finding, class pipeline_last_stage_in_parent: the property as stated
   ("as a pipeline stage") fails for the LAST stage, which runs in the parent
   Runner itself:  forall r h left right, observe (pipeline left right r h) = observe r h
   is refuted; every other stage is a background copy and covered by C27_isolated. *)
Theorem C27_pipeline_last_stage_refuted :
  exists r h right_,
    wf_heap h /\ wf_runner r h /\
    observe (st_r (pipeline ex_grow [] right_ r h)) (st_h (pipeline ex_grow [] right_ r h)) <> observe r h.
Proof. exact pipeline_last_stage_changes_parent. Qed.
Print Assumptions C27_pipeline_last_stage_refuted.
