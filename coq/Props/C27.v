(* placeholder, replaced below *)
From Verif Require Import Base.Str Base.GoSlice Interp.Isolation.
