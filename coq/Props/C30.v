(* Props/C30.v — Runner reuse is equivalent to a fresh runner.
   Model: Interp/Reuse.v; field table: Gen/RunnerFields.v (regenerated from the running code). *)
From Verif Require Import Base.Str Interp.Reuse Proofs.RunnerReuseProofs Gen.RunnerFields Proofs.RunnerReuseTable.

(* Generic in the table: whenever no field is both carried over by Reset and written by Run, and
   Reset only reads fields that are carried and never written, then for EVERY run function that
   writes only the fields marked written, EVERY reset recomputation, every starting runner s,
   every history and every program P: Reset then P = P on the freshly reset runner — the resulting
   runner (all fields: variables, options, ...) and the observations (output, exit status). *)
Theorem C30_reset_fresh :
  forall (val : Type) (dflt : val) (prog obs : Type) (tab : table)
         (reset_fn : nat -> list val -> val) (step : prog -> list val -> list val * obs),
    fields_covered tab = true ->
    forall s hist p,
      run val dflt prog obs tab step p
          (reset val dflt tab reset_fn (runs val dflt prog obs tab step hist (reset val dflt tab reset_fn s)))
      = run val dflt prog obs tab step p (reset val dflt tab reset_fn s).
Proof. exact reset_fresh. Qed.
Print Assumptions C30_reset_fresh.

(* the hypothesis holds of the table observed on the current tree (vm_compute at every build) *)
Theorem C30_fields_covered : fields_covered runner_fields = true.
Proof. exact runner_fields_covered. Qed.
Print Assumptions C30_fields_covered.

Theorem C30_reset_fresh_runner :
  forall (val : Type) (dflt : val) (prog obs : Type)
         (reset_fn : nat -> list val -> val) (step : prog -> list val -> list val * obs) s hist p,
    run val dflt prog obs runner_fields step p
        (reset val dflt runner_fields reset_fn (runs val dflt prog obs runner_fields step hist (reset val dflt runner_fields reset_fn s)))
    = run val dflt prog obs runner_fields step p (reset val dflt runner_fields reset_fn s).
Proof. exact runner_reset_fresh. Qed.
Print Assumptions C30_reset_fresh_runner.

(* the table is not degenerate: it has state fields, configuration fields and Reset dependencies *)
Example C30_table_nontrivial :
  (30 <= length runner_fields)%nat /\
  existsb (fun r => f_written r && negb (f_carried r)) runner_fields = true /\
  existsb (fun r => f_carried r && negb (f_written r)) runner_fields = true /\
  existsb (fun r => negb (match f_reads r with [] => true | _ => false end)) runner_fields = true.
Proof. exact runner_fields_nontrivial. Qed.

(* and the coverage condition is needed: with a field that Reset carries over and Run writes
   (e.g. Reset forgetting to clear r.alias) the statement fails *)
Example C30_uncovered_refuted :
  fields_covered bad_tab = false /\
  exists (step : unit -> list nat -> list nat * nat) s hist p,
    run nat 0%nat unit nat bad_tab step p (reset nat 0%nat bad_tab (fun _ _ => 0%nat) (runs nat 0%nat unit nat bad_tab step hist (reset nat 0%nat bad_tab (fun _ _ => 0%nat) s)))
    <> run nat 0%nat unit nat bad_tab step p (reset nat 0%nat bad_tab (fun _ _ => 0%nat) s).
Proof. exact uncovered_table_refuted. Qed.

(* Statement-at-a-time.  Full statement of the property's clause (any program, any statement
   semantics): running the statements one Run at a time until Exited() = running the file,
   except for the EXIT trap.  It FAILS for the class KF-C30-1 (a statement that turns noexec on
   and ends non-zero, `! set -n`): witnesses are re-run by the harness on every check.
   Proved outside that class ([noexec_clean]) for every statement semantics [body] that, at
   the top level, never leaves `returning` set, the file name or handlingTrap changed:
     - if some statement exits: the two final runner states are EQUAL (the EXIT trap ran in both);
     - otherwise the whole-file state is the statement-wise state after firing the EXIT trap. *)
Theorem C30_incremental :
  forall (Sigma stmt_t : Type) (body : stmt_t -> rs Sigma -> rs Sigma) (noexec : Sigma -> bool)
         (exit_trap : Sigma -> option (list stmt_t)),
    body_ok Sigma stmt_t body -> noexec_clean Sigma stmt_t body noexec ->
    forall sts r, fresh_top Sigma r ->
      let w := run_file Sigma stmt_t body noexec exit_trap [] sts r in
      let i := run_incr Sigma stmt_t body noexec exit_trap sts r in
      (e_exiting (ex i) = true -> w = i) /\
      (e_exiting (ex i) = false -> w = trap_callback Sigma stmt_t body noexec exit_trap i).
Proof. exact incremental. Qed.
Print Assumptions C30_incremental.

(* the excluded class is real in the model as well (Sigma = the noexec flag; statement `true`
   turns noexec on with status 1): whole-file status 1, statement-wise status 0 *)
Example C30_incremental_noexec_refuted :
  body_ok bool bool kf_body /\ fresh_top bool kf_r0 /\
  e_code (ex (run_file bool bool kf_body (fun b => b) (fun _ => None) [] [true; false] kf_r0)) = 1%N /\
  e_code (ex (run_incr bool bool kf_body (fun b => b) (fun _ => None) [true; false] kf_r0)) = 0%N.
Proof. exact incremental_noexec_refuted. Qed.

Theorem C30_incremental_status :
  forall (Sigma stmt_t : Type) (body : stmt_t -> rs Sigma -> rs Sigma) (noexec : Sigma -> bool)
         (exit_trap : Sigma -> option (list stmt_t)),
    body_ok Sigma stmt_t body -> noexec_clean Sigma stmt_t body noexec ->
    forall sts r, fresh_top Sigma r ->
      e_code (ex (run_file Sigma stmt_t body noexec exit_trap [] sts r)) =
      e_code (ex (run_incr Sigma stmt_t body noexec exit_trap sts r)).
Proof. exact incremental_status. Qed.
Print Assumptions C30_incremental_status.
