(* Props/C29.v — Running a program leaves the tree and Env untouched.
   Model: Interp/TreeRegion.v on the heap of Base/GoSliceLite.v.  The syntax tree and the
   caller's Environ are ALL objects that exist before the run ([h0], any heap); a run is ANY
   sequence of the modelled operations (alias definition and expansion, FieldsSeq's copy +
   SplitBraces + bracesSeqRec, flattenAssigns, the <<- here-document loop, overlayEnviron.Set
   from any function/subshell nesting, array element assignment and name+=scalar), with ANY
   arguments, ANY SplitBraces result shape, sequence values, word expansion and fuel. *)
From Verif Require Import Base.Str Base.GoSliceLite Interp.TreeRegion
  Proofs.TreeRegionProofs Proofs.TreeRegionExamples.

(* the contents of every object of the tree/Environ region are the same after the run *)
Theorem C29_tree_region_untouched :
  forall splitter seq_values expand_word fuel h0 caller os r',
    exec_ops splitter seq_values expand_word fuel os (start h0 caller) = Ok r' ->
    region_same (length h0) h0 (hp (rs_heap r')).
Proof. exact run_region_same. Qed.
Print Assumptions C29_tree_region_untouched.

(* stronger: no store (not even one that rewrites the same value) targets the region *)
Theorem C29_no_store_targets_region :
  forall splitter seq_values expand_word fuel h0 caller os r',
    exec_ops splitter seq_values expand_word fuel os (start h0 caller) = Ok r' ->
    no_store_below (length h0) (wlog (rs_heap r')).
Proof. exact run_no_store_below. Qed.
Print Assumptions C29_no_store_targets_region.

(* the Environ given through interp.Env: same contents, never the target of a store
   (in particular overlayEnviron.Set never reaches o.parent.(WriteEnviron).Set on it) *)
Theorem C29_env_never_written :
  forall splitter seq_values expand_word fuel h0 caller os r',
    caller < length h0 ->
    exec_ops splitter seq_values expand_word fuel os (start h0 caller) = Ok r' ->
    obj (rs_heap r') caller = nth caller h0 [] /\
    forall w, In w (wlog (rs_heap r')) -> fst (fst w) <> caller.
Proof. exact run_env_never_written. Qed.
Print Assumptions C29_env_never_written.

(* non-vacuity: a 13-operation run over a 23-object tree completes, allocates and stores *)
Example C29_example_run :
  (exists r, ex_run = Ok r) /\
  23 < length (heap_of ex_run) /\ 10 <= length (log_of ex_run) /\
  firstn 23 (heap_of ex_run) = h0.
Proof. exact ex_run_ok. Qed.

(* the theorems are not vacuous: each protective step is needed.
   Go's append on cm.Args[:i] (spare capacity) instead of slices.Concat writes the tree: *)
Example C29_alias_append_refuted :
  exists s' sl, mut1 = Ok (s', sl) /\ nth 9 (hp s') [] <> nth 9 h0 [] /\ In (9, 0, 3) (wlog s').
Proof. exact alias_append_writes_tree. Qed.

(* SplitBraces on the tree's word (FieldsSeq without `word := *word`) replaces its Parts: *)
Example C29_split_without_copy_refuted :
  exists s', split_braces ex_splitter (mkst h0 []) 8 = Ok (s', true) /\ nth 8 (hp s') [] <> nth 8 h0 [].
Proof. exact split_without_copy_writes_tree. Qed.

(* name+=scalar on an array of the Environ without slices.Clone (the code before fix d35f0af): *)
Example C29_append_noclone_refuted :
  let r0 := start h0 caller0 in
  exists s', append_scalar_noclone (rs_heap r0) caller0 (rs_env r0) s_a [82%N] = Ok s' /\
             nth 16 (hp s') [] <> nth 16 h0 [].
Proof. exact append_scalar_noclone_writes_env. Qed.

(* were the outermost overlay a function scope, Set would be forwarded to the caller's Environ: *)
Example C29_funcscope_bottom_refuted :
  let r0 := start h0 caller0 in
  exists s', env_set (rs_heap r0) caller0 [(23, true)] [122%N] (mkvar true false false false KString [49%N] SNil) = Ok s' /\
             nth 17 (hp s') [] <> nth 17 h0 [].
Proof. exact funcscope_bottom_writes_env. Qed.
