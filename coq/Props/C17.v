(* Props/C17.v — property theorems only. *)
From Verif Require Import Base.Str Pattern.Regex Pattern.Translate Pattern.GlobSpec Proofs.RegexProofs.

(* the executable matcher used by the regexp-meaning leg decides the denotation of the regexp AST,
   for every expression, every string and every folding *)
Theorem C17_matcher_decides_denotation :
  forall orbit s r, matchb orbit r s = true <-> matches orbit r s.
Proof. exact matchb_correct. Qed.
Print Assumptions C17_matcher_decides_denotation.
