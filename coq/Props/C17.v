(* Props/C17.v — property theorems only.
   Full-strength target (DESIGN C17), kept visible:
     C17_sound_complete : forall mode p, translate mode p = TOk txt bol eol (OOk r) ->
        forall s, rx_matches (fold mode) {bol; eol; r} s <-> glob_spec (flags mode) p s = true
     C17_error_iff_malformed : translate mode p = TErr _ <-> malformed p
   The faithful model violates both (lone trailing backslash: C17_trailing_backslash_refuted; further
   classes in known_findings.jsonl KF-C17-2..9), so the positive theorem is proved on a fragment and
   named _partial; brackets, extended operators, case folding and Filenames are covered by the code
   legs, the spec-vs-bash leg and the exhaustive search only. *)
From Verif Require Import Base.Str Pattern.Regex Pattern.Translate Pattern.GlobSpec Pattern.Fragment
  Proofs.RegexProofs Proofs.TranslateProofs.

(* the executable matcher used by the regexp-meaning leg decides the denotation of the regexp AST,
   for every expression, every string and every folding *)
Theorem C17_matcher_decides_denotation :
  forall orbit s r, matchb orbit r s = true <-> matches orbit r s.
Proof. exact matchb_correct. Qed.
Print Assumptions C17_matcher_decides_denotation.

(* both anchors (EntireString): the expression accepts exactly the language of its body *)
Theorem C17_entire_string_is_body_language : forall orbit r s,
  rx_matches orbit {| rx_bol := true; rx_eol := true; rx_body := r |} s <-> matches orbit r s.
Proof. exact rx_anchored. Qed.
Print Assumptions C17_entire_string_is_body_language.

(* PARTIAL: sound and complete w.r.t. bash's rule for every "flat" pattern ( * ? literals, backslash
   escapes; no NUL, no unescaped '[', no trailing backslash ), any length, all strings, in every mode with
   EntireString and without Filenames / ExtendedOperators / NoGlobCase (Shortest, NoGlobStar,
   GlobLeadingDot free).  Missing: bracket expressions, extended operators, folding, Filenames. *)
Theorem C17_sound_complete_flat_partial : forall wc m p txt bol eol body,
  m_entire m = true -> m_filenames m = false -> m_ext m = false -> m_nocase m = false ->
  flat p = true -> translate m p = TOk txt bol eol body ->
  exists r, body = OOk r /\ bol = true /\ eol = true /\
            forall s, matches orbit_id r s <-> glob_spec wc f_plain p s = true.
Proof. exact sound_complete_flat. Qed.
Print Assumptions C17_sound_complete_flat_partial.

(* PARTIAL (error clause): on that fragment Regexp never reports an error and never runs out of fuel *)
Theorem C17_flat_never_errors_partial : forall m p,
  m_entire m = true -> m_filenames m = false -> m_ext m = false -> flat p = true ->
  exists txt body, translate m p = TOk txt true true body.
Proof. exact flat_never_errors. Qed.
Print Assumptions C17_flat_never_errors_partial.

(* the hypotheses are satisfiable by a non-trivial pattern:  a*\?b?  *)
Example C17_flat_nonvacuous :
  flat [97; 42; 92; 63; 98; 63] = true /\
  (exists txt, translate mode_es [97; 42; 92; 63; 98; 63] =
     TOk txt true true (OOk (flat_re REps [97; 42; 92; 63; 98; 63]))) /\
  glob_spec no_wide f_plain [97; 42; 92; 63; 98; 63] [97; 120; 121; 63; 98; 122] = true /\
  glob_spec no_wide f_plain [97; 42; 92; 63; 98; 63] [97; 120; 98; 122] = false.
Proof. split; [reflexivity|]. split; [eexists; vm_compute; reflexivity|]. split; vm_compute; reflexivity. Qed.

(* REFUTED (known finding KF-C17-1): a lone trailing backslash is an error, bash's rule matches "\" *)
Theorem C17_trailing_backslash_refuted :
  exists p s, translate mode_es p = TErr EBackslash /\ glob_spec no_wide f_plain p s = true.
Proof. exact trailing_backslash_refuted. Qed.
Print Assumptions C17_trailing_backslash_refuted.
