(* Props/C17.v — property theorems only.
   Full-strength target (DESIGN C17), kept visible:
     C17_sound_complete : forall mode p, translate mode p = TOk txt bol eol (OOk r) ->
        forall s, rx_matches (fold mode) {bol; eol; r} s <-> glob_spec (flags mode) p s = true
     C17_error_iff_malformed : translate mode p = TErr _ <-> malformed p
   The faithful model violates both (lone trailing backslash: C17_trailing_backslash_refuted; further
   classes in known_findings.jsonl KF-C17-2..9), so the positive theorem is proved on a fragment and
   named _partial; named classes inside brackets, extended operators, case folding and Filenames are
   covered by the code legs, the spec-vs-bash leg and the exhaustive search only. *)
From Verif Require Import Base.Str Pattern.Regex Pattern.Translate Pattern.GlobSpec Pattern.Fragment
  Proofs.RegexProofs Proofs.TranslateProofs Proofs.CompilesProofs Proofs.PiecesProofs.

(* the executable matcher used by the regexp-meaning leg decides the denotation of the regexp AST,
   for every expression, every string and every folding *)
Theorem C17_matcher_decides_denotation :
  forall orbit s r, matchb orbit r s = true <-> matches orbit r s.
Proof. exact matchb_correct. Qed.
Print Assumptions C17_matcher_decides_denotation.

(* both anchors (EntireString): the expression accepts exactly the language of its body *)
Theorem C17_entire_string_is_body_language : forall orbit r s,
  rx_matches orbit {| rx_bol := true; rx_eol := true; rx_body := r |} s <-> matches orbit r s.
Proof. exact rx_anchored. Qed.
Print Assumptions C17_entire_string_is_body_language.

(* PARTIAL: sound and complete w.r.t. bash's rule for every "flat" pattern ( * ? literals, backslash
   escapes; no NUL, no unescaped '[', no trailing backslash ), any length, all strings, in every mode with
   EntireString and without Filenames / ExtendedOperators / NoGlobCase (Shortest, NoGlobStar,
   GlobLeadingDot free).  Missing: bracket expressions, extended operators, folding, Filenames. *)
Theorem C17_sound_complete_flat_partial : forall wc m p txt bol eol body,
  m_entire m = true -> m_filenames m = false -> m_ext m = false -> m_nocase m = false ->
  flat p = true -> translate m p = TOk txt bol eol body ->
  exists r, body = OOk r /\ bol = true /\ eol = true /\
            forall s, matches orbit_id r s <-> glob_spec wc f_plain p s = true.
Proof. exact sound_complete_flat. Qed.
Print Assumptions C17_sound_complete_flat_partial.

(* PARTIAL (error clause): on that fragment Regexp never reports an error and never runs out of fuel *)
Theorem C17_flat_never_errors_partial : forall m p,
  m_entire m = true -> m_filenames m = false -> m_ext m = false -> flat p = true ->
  exists txt body, translate m p = TOk txt true true body.
Proof. exact flat_never_errors. Qed.
Print Assumptions C17_flat_never_errors_partial.

(* the hypotheses are satisfiable by a non-trivial pattern:  a*\?b?  *)
Example C17_flat_nonvacuous :
  flat [97; 42; 92; 63; 98; 63] = true /\
  (exists txt, translate mode_es [97; 42; 92; 63; 98; 63] =
     TOk txt true true (OOk (flat_re REps [97; 42; 92; 63; 98; 63]))) /\
  glob_spec no_wide f_plain [97; 42; 92; 63; 98; 63] [97; 120; 121; 63; 98; 122] = true /\
  glob_spec no_wide f_plain [97; 42; 92; 63; 98; 63] [97; 120; 98; 122] = false.
Proof. split; [reflexivity|]. split; [eexists; vm_compute; reflexivity|]. split; vm_compute; reflexivity. Qed.

(* REFUTED (known finding KF-C17-1): a lone trailing backslash is an error, bash's rule matches "\" *)
Theorem C17_trailing_backslash_refuted :
  exists p s, translate mode_es p = TErr EBackslash /\ glob_spec no_wide f_plain p s = true.
Proof. exact trailing_backslash_refuted. Qed.
Print Assumptions C17_trailing_backslash_refuted.

(* PARTIAL, second fragment (subsumes the flat one): patterns that are a list of pieces
     literal | \escaped | * | ? | [ (! or ^)? (])? elements ]      elements: plain rune | \rune | a-b (a <= b)
   (Fragment.piece_ok; plain = any rune except NUL \ - ] [ ; any number of pieces and elements), in every mode with
   EntireString and without Filenames / ExtendedOperators / NoGlobCase: the translation succeeds with both anchors
   and its AST accepts exactly what bash's rule (GlobSpec, incl. the transliterated BRACKMATCH) accepts.
   Missing: [:class:] elements, a literal '-' first/last, the unclosed-bracket cases, extended operators,
   folding, Filenames. *)
Theorem C17_sound_complete_brackets_partial : forall wc m ps txt bol eol body,
  m_entire m = true -> m_filenames m = false -> m_ext m = false -> m_nocase m = false ->
  forallb piece_ok ps = true -> translate m (pat_text ps) = TOk txt bol eol body ->
  exists r, body = OOk r /\ bol = true /\ eol = true /\
            forall s, matches orbit_id r s <-> glob_spec wc f_plain (pat_text ps) s = true.
Proof. exact sound_complete_pieces. Qed.
Print Assumptions C17_sound_complete_brackets_partial.

(* PARTIAL (error clause, one direction): no error on that fragment, and the AST is the expected one *)
Theorem C17_brackets_never_error_partial : forall m ps,
  m_entire m = true -> m_filenames m = false -> m_ext m = false -> forallb piece_ok ps = true ->
  exists txt, translate m (pat_text ps) = TOk txt true true (OOk (pat_re REps ps)).
Proof. exact pieces_never_error. Qed.
Print Assumptions C17_brackets_never_error_partial.

(* non-vacuity:  a[!]b-dx\-]*[]^]?  is in the fragment; it accepts "ae-]q" and rejects "ac-]q" *)
Example C17_brackets_nonvacuous :
  let ps := [PLit 97; PSet (Some 33) true [ERng 98 100; EChar 120; EEsc 45]; PStar; PSet None true [EChar 94]; PAny] in
  forallb piece_ok ps = true /\
  pat_text ps = [97; 91;33;93;98;45;100;120;92;45;93; 42; 91;93;94;93; 63] /\
  glob_spec no_wide f_plain (pat_text ps) [97; 101; 45; 93; 113] = true /\
  glob_spec no_wide f_plain (pat_text ps) [97; 99; 45; 93; 113] = false.
Proof. cbv zeta. split; [reflexivity|]. split; [reflexivity|]. split; vm_compute; reflexivity. Qed.

(* C17_compiles (text side): for EVERY mode and EVERY pattern, whenever the translation yields an AST the regexp text
   it wrote is exactly that AST printed by Regex.print_re — bare on the short-cut path, otherwise between the
   "(?s[i][U])[^]" header and the optional "$".  (That Go's regexp package parses this text to this AST is the
   regexp-meaning leg's job; a text Go rejects is modelled as OBad and is never an AST.) *)
Theorem C17_text_is_printed_ast : forall m p txt bol eol r,
  translate m p = TOk txt bol eol (OOk r) ->
  txt = print_re r \/ txt = header m ++ print_re r ++ (if m_entire m then [36] else []).
Proof. exact text_is_printed_ast. Qed.
Print Assumptions C17_text_is_printed_ast.

(* PARTIAL (C17_error_iff_malformed on the one-range bracket shape): for plain runes a b (a not ! or ^), in every mode
   with EntireString and without Filenames / ExtendedOperators, the pattern [a-b] is the error "invalid range: a-b"
   exactly when the range is reversed.  Together with C17_brackets_never_error_partial (no error on the whole
   second fragment) this is what is proved of the error clause; a general "Err <-> malformed" (several ranges,
   invalid class names, the known-finding classes excluded) is not proved. *)
Theorem C17_error_iff_reversed_range_partial : forall m a b,
  m_entire m = true -> m_filenames m = false -> m_ext m = false ->
  plainc a = true -> plainc b = true -> (a =? cBANG)%N || (a =? cCARET)%N = false ->
  (translate m [cLBRK; a; cDASH; b; cRBRK] = TErr (ERange a b) <-> (b < a)%N).
Proof. exact range_error_iff. Qed.
Print Assumptions C17_error_iff_reversed_range_partial.
