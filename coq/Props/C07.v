(* Props/C07.v — "Parsing does not depend on how input bytes arrive": property theorems only.
   (theorems are added below as they are proved; see notes/C07.md) *)
From Verif Require Import Base.Str Syntax.Pos Syntax.Reader.
Open Scope N_scope.

(* The witnesses of the defects repaired by fix: commits c37b7a8 / 9108a51 / d3fa48b, evaluated on the
   model of the repaired code: one-byte reads, data+EOF reads and the single read now agree. *)
Example C07_fixed_witnesses :
  let ones n := repeat 1%nat n in
  (* zsh "<1-10> x": zshNumRange after the '<' *)
  (snd (zshNumRange 1024 (rune 1024 0 0 (init (mkreader [60;49;45;49;48;62;32;120] (ones 8%nat) false)))),
   snd (zshNumRange 1024 (rune 1024 0 0 (init (whole [60;49;45;49;48;62;32;120]))))) = (true, true)
  /\ (* "==foo}": peekTwo after the first '=' *)
  (snd (peekTwo 1024 (rune 1024 0 0 (init (mkreader [61;61;102;111;111;125] (ones 6%nat) false)))),
   snd (peekTwo 1024 (rune 1024 0 0 (init (whole [61;61;102;111;111;125]))))) = (102, 102)
  /\ (* five backslashes and '$' inside backquotes *)
  trace 1024 1 0 [92;92;92;92;92;36;120] (ones 7%nat) false = trace 1024 1 0 [92;92;92;92;92;36;120] [] false
  /\ (* "a" from a reader that returns the data together with io.EOF *)
  trace 1024 0 0 [97] [] true = trace 1024 0 0 [97] [] false.
Proof. vm_compute. repeat split; reflexivity. Qed.
