(* Props/C07.v — "Parsing does not depend on how input bytes arrive": property theorems only.
   Model: Syntax/Reader.v (the parser's byte reader under a read schedule: list of chunk lengths
   incl. 0 and 1, EOF with or after the last data; buffer size a parameter, 1024 in Go).
   Spec: the same functions on the unchunked input with no buffer at all (ast, arune, apeek...). *)
From Verif Require Import Base.Str Syntax.Pos Syntax.Reader Proofs.ReaderProofs Proofs.ReaderRuneProofs.
Open Scope N_scope.

(* C07_rune_stream: for EVERY input (any bytes: valid, truncated and invalid UTF-8 included), every
   schedule (chunk lengths incl. 0 and 1), EOF delivered with or after the last data, every buffer
   size >= 4 and every openBquotes/openBquoteDbls, the sequence of (rune, width, nextPos) — or the
   "invalid UTF-8 encoding" error with its position — produced by repeated rune() equals that of the
   Spec reader on the unchunked input.  Covers CRLF, NUL skipping, backslash-newline,
   backslash-CR-LF, the backquote-escape lookahead, multi-byte runes split across reads (the
   decodeRune refill loop), invalid bytes, and the EOF position. *)
Theorem C07_rune_stream : forall bufsz obq obqd input sched eager, (4 <= bufsz)%nat ->
  trace bufsz obq obqd input sched eager = atrace obq obqd input.
Proof. exact rune_stream_all. Qed.
Print Assumptions C07_rune_stream.

(* hence any two ways of delivering the bytes give the same stream *)
Theorem C07_rune_stream_schedule_free : forall bufsz obq obqd input sched eager sched' eager', (4 <= bufsz)%nat ->
  trace bufsz obq obqd input sched eager = trace bufsz obq obqd input sched' eager'.
Proof. exact rune_stream_schedule_free. Qed.
Print Assumptions C07_rune_stream_schedule_free.

(* one rune() call = one step of the Spec reader, and it preserves the invariant (all bytes) *)
Theorem C07_rune_step : forall bufsz obq obqd s, (4 <= bufsz)%nat -> Inv bufsz s -> perr s = None ->
  Inv bufsz (rune bufsz obq obqd s) /\ abs (rune bufsz obq obqd s) = arune obq obqd (abs s).
Proof. exact rune_spec. Qed.
Print Assumptions C07_rune_step.

(* Lookahead completeness, for EVERY reader state satisfying the invariant Inv (any bytes, any
   schedule, any buffer split).  Inv holds initially (C07_inv_init) and is preserved by fill, by every
   lookahead (the first conjuncts below) and by rune (C07_rune_step).
   [rem s] is the input not yet consumed: buffered-but-unread bytes ++ bytes the reader still holds. *)
Theorem C07_peek_complete : forall bufsz s s' b, Inv bufsz s -> r s <> runeEOF -> (0 < bufsz)%nat ->
  peek bufsz s = (s', b) ->
  Inv bufsz s' /\ same_abs s s' /\ b = ahd (rem s).
Proof. intros bufsz s s' b H1 H2 H3 H4. destruct (peek_spec bufsz s s' b H1 H2 H3 H4) as (A & B & C & _). auto. Qed.
Print Assumptions C07_peek_complete.

Theorem C07_peekTwo_complete : forall bufsz s s' a b, Inv bufsz s -> r s <> runeEOF -> (1 < bufsz)%nat ->
  peekTwo bufsz s = (s', a, b) ->
  Inv bufsz s' /\ same_abs s s' /\
  (a, b) = match rem s with [] => (RuneSelfB, RuneSelfB) | [x] => (x, RuneSelfB) | x :: y :: _ => (x, y) end.
Proof. exact peekTwo_spec. Qed.
Print Assumptions C07_peekTwo_complete.

(* zshNumRange sees exactly what the unbuffered Spec sees: digits* '-' digits* '>' within the next
   bufsz bytes of the remaining input, however the reader chunks them. *)
Theorem C07_zshNumRange_complete : forall bufsz s s' z a, Inv bufsz s -> r s <> runeEOF -> a_rem a = rem s ->
  zshNumRange bufsz s = (s', z) ->
  Inv bufsz s' /\ same_abs s s' /\ z = azshNumRange bufsz a.
Proof. exact zshNumRange_spec. Qed.
Print Assumptions C07_zshNumRange_complete.

(* C07_bquote_lookahead_complete is part of C07_rune_stream: obq/obqd are arbitrary there and
   the Spec's aloop tests the next unread byte, not the buffer. *)

Theorem C07_inv_init : forall bufsz rdr, Inv bufsz (init rdr).
Proof. exact Inv_init. Qed.
Print Assumptions C07_inv_init.

(* non-vacuity and the witnesses of the defects repaired by fix: c37b7a8 / 9108a51 / d3fa48b on the
   model of the repaired code: one-byte reads, data+EOF reads and the single read agree, also on
   non-ASCII input. *)
Example C07_fixed_witnesses :
  let ones n := repeat 1%nat n in
  (snd (zshNumRange 1024 (rune 1024 0 0 (init (mkreader [60;49;45;49;48;62;32;120] (ones 8%nat) false)))),
   snd (zshNumRange 1024 (rune 1024 0 0 (init (whole [60;49;45;49;48;62;32;120]))))) = (true, true)
  /\
  (snd (peekTwo 1024 (rune 1024 0 0 (init (mkreader [61;61;102;111;111;125] (ones 6%nat) false)))),
   snd (peekTwo 1024 (rune 1024 0 0 (init (whole [61;61;102;111;111;125]))))) = (102, 102)
  /\
  trace 1024 1 0 [92;92;92;92;92;36;120] (ones 7%nat) false = atrace 1 0 [92;92;92;92;92;36;120]
  /\
  trace 1024 0 0 [97] [] true = atrace 0 0 [97]
  /\
  trace 1024 0 0 [36;92;13;10;195;169;10;240;159;152;128;255] [1;0;2;1;1;3]%nat true
    = atrace 0 0 [36;92;13;10;195;169;10;240;159;152;128;255]
  /\ length (atrace 0 0 [36;92;13;10;195;169;10;240;159;152;128;255]) = 6%nat.
Proof. vm_compute. repeat split; reflexivity. Qed.
