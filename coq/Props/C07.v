(* Props/C07.v — "Parsing does not depend on how input bytes arrive": property theorems only.
   Model: Syntax/Reader.v (the parser's byte reader under a read schedule: list of chunk lengths
   incl. 0 and 1, EOF with or after the last data; buffer size a parameter, 1024 in Go).
   Spec: the same functions on the unchunked input with no buffer at all (ast, arune, apeek...). *)
From Verif Require Import Base.Str Syntax.Pos Syntax.Reader Proofs.ReaderProofs Proofs.ReaderRuneProofs.
Open Scope N_scope.

(* C07_rune_stream, full statement:
     forall bufsz obq obqd input sched eager, 4 <= bufsz ->
       trace bufsz obq obqd input sched eager = atrace obq obqd input
   (hence equal for any two schedules).  PROVED BELOW FOR INPUTS OF BYTES < 128 — all of CRLF,
   NUL skipping, backslash-newline, backslash-CR-LF, the backquote-escape lookahead, EOF position,
   every schedule and buffer size >= 4.  Missing for the _partial: the non-ASCII branch (decodeRune
   with its UTF-8 refill and the invalid-UTF-8 error), which needs the lemma
   "full_rune p or a valid decode of p => decode_rune (p ++ q) = decode_rune p"; that branch is
   covered by the code leg and the search only. *)
Theorem C07_rune_stream_partial : forall bufsz obq obqd input sched eager,
  (4 <= bufsz)%nat -> ascii input ->
  trace bufsz obq obqd input sched eager = atrace obq obqd input.
Proof. exact rune_stream_ascii. Qed.
Print Assumptions C07_rune_stream_partial.

Theorem C07_rune_stream_schedule_free_partial : forall bufsz obq obqd input sched eager,
  (4 <= bufsz)%nat -> ascii input ->
  trace bufsz obq obqd input sched eager = trace bufsz obq obqd input [] false.
Proof. exact rune_stream_schedule_free. Qed.
Print Assumptions C07_rune_stream_schedule_free_partial.

(* Lookahead completeness, for EVERY reader state satisfying the invariant Inv (any bytes, any
   schedule, any buffer split).  Inv holds initially (Inv_init) and is preserved by fill and by every
   lookahead (the first conjuncts below) and by rune on inputs of bytes < 128 (rune_spec).
   [rem s] is the input not yet consumed: buffered-but-unread bytes ++ bytes the reader still holds. *)
Theorem C07_peek_complete : forall bufsz s s' b, Inv bufsz s -> r s <> runeEOF -> (0 < bufsz)%nat ->
  peek bufsz s = (s', b) ->
  Inv bufsz s' /\ same_abs s s' /\ b = ahd (rem s).
Proof. intros bufsz s s' b H1 H2 H3 H4. destruct (peek_spec bufsz s s' b H1 H2 H3 H4) as (A & B & C & _). auto. Qed.
Print Assumptions C07_peek_complete.

Theorem C07_peekTwo_complete : forall bufsz s s' a b, Inv bufsz s -> r s <> runeEOF -> (1 < bufsz)%nat ->
  peekTwo bufsz s = (s', a, b) ->
  Inv bufsz s' /\ same_abs s s' /\
  (a, b) = match rem s with [] => (RuneSelfB, RuneSelfB) | [x] => (x, RuneSelfB) | x :: y :: _ => (x, y) end.
Proof. exact peekTwo_spec. Qed.
Print Assumptions C07_peekTwo_complete.

(* zshNumRange sees exactly what the unbuffered Spec sees: digits* '-' digits* '>' within the next
   bufsz bytes of the remaining input, however the reader chunks them. *)
Theorem C07_zshNumRange_complete : forall bufsz s s' z a, Inv bufsz s -> r s <> runeEOF -> a_rem a = rem s ->
  zshNumRange bufsz s = (s', z) ->
  Inv bufsz s' /\ same_abs s s' /\ z = azshNumRange bufsz a.
Proof. exact zshNumRange_spec. Qed.
Print Assumptions C07_zshNumRange_complete.

(* C07_bquote_lookahead_complete is part of C07_rune_stream_partial: obq/obqd are arbitrary there and
   the Spec's aloop tests the next unread byte, not the buffer. *)

Theorem C07_inv_init : forall bufsz rdr, Inv bufsz (init rdr).
Proof. exact Inv_init. Qed.
Print Assumptions C07_inv_init.

(* non-vacuity and the witnesses of the defects repaired by fix: c37b7a8 / 9108a51 / d3fa48b on the
   model of the repaired code: one-byte reads, data+EOF reads and the single read agree, also on
   non-ASCII input (outside the proved scope, evaluated). *)
Example C07_fixed_witnesses :
  let ones n := repeat 1%nat n in
  (snd (zshNumRange 1024 (rune 1024 0 0 (init (mkreader [60;49;45;49;48;62;32;120] (ones 8%nat) false)))),
   snd (zshNumRange 1024 (rune 1024 0 0 (init (whole [60;49;45;49;48;62;32;120]))))) = (true, true)
  /\
  (snd (peekTwo 1024 (rune 1024 0 0 (init (mkreader [61;61;102;111;111;125] (ones 6%nat) false)))),
   snd (peekTwo 1024 (rune 1024 0 0 (init (whole [61;61;102;111;111;125]))))) = (102, 102)
  /\
  trace 1024 1 0 [92;92;92;92;92;36;120] (ones 7%nat) false = atrace 1 0 [92;92;92;92;92;36;120]
  /\
  trace 1024 0 0 [97] [] true = atrace 0 0 [97]
  /\
  trace 1024 0 0 [36;92;13;10;195;169;10;240;159;152;128;255] [1;0;2;1;1;3]%nat true
    = atrace 0 0 [36;92;13;10;195;169;10;240;159;152;128;255]
  /\ length (atrace 0 0 [36;92;13;10;195;169;10;240;159;152;128;255]) = 6%nat.
Proof. vm_compute. repeat split; reflexivity. Qed.
