(* Props/C05.v — property theorems only.
   C05 "Formatting keeps every comment": model of the printer's pending-comment queue
   (Printer.comments / flushComments) driven by stmtList on a flat statement list.
   PARTIAL w.r.t. the property: the walk over nested constructs (if/case/loops, array
   elements, binary commands, heredocs), the parser's comment attachment and the
   tabwriter are covered by the whole-language search only (harness/cmd/c05). *)
From Verif Require Import Base.Str Syntax.CommentQueue Proofs.CommentQueueProofs.

(* Minify off: every comment handed to the queue is written exactly once, in order,
   wherever the flushes (newlines) fall. *)
Theorem C05_queue_partial : forall ss last,
  print_file false ss last = all_comments ss ++ last.
Proof. exact print_file_keeps_all. Qed.
Print Assumptions C05_queue_partial.

(* Minify on: what is written is exactly the first-line shebangs, nothing else. *)
Theorem C05_minify_shebang_only_partial : forall ss last c,
  In c (print_file true ss last) -> c_shebang c = true /\ c_at_1_1 c = true.
Proof. exact print_file_minify_only_shebang. Qed.
Print Assumptions C05_minify_shebang_only_partial.
