(* Props/C34.v — property theorems only. *)
From Verif Require Import Base.Str Vars.ListEnviron Proofs.ListEnvironProofs.

Theorem C34_func_empty_unset : forall f name, func_get f name = None <-> f name = [].
Proof. exact func_get_none_iff. Qed.
Print Assumptions C34_func_empty_unset.
