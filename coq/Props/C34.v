(* Props/C34.v — property C34 "Environment lists behave like an ordered map".
   Property theorems only; every proof is `exact <lemma>` from Proofs/ListEnvironProofs.v.
   Model: Vars/ListEnviron.v (transliteration of expand/environ.go after fix dec6fe0).
   Spec : spec_get = association list built left to right, a later valid pair wins
          (spec_get_last_binding below characterises it without recursion). *)
From Coq Require Import Sorting.Sorted.
From Verif Require Import Base.Str Vars.ListEnviron Proofs.ListEnvironProofs.

(* Get returns the last value given for a name and nothing for names never given;
   invalid pairs (no '=', empty name) are ignored; never panics — for ALL pair lists and ALL names,
   including names containing '=' or empty names. *)
Theorem C34_get : forall pairs name, api_get pairs name = Ok (spec_get pairs name).
Proof. exact api_get_spec. Qed.
Print Assumptions C34_get.

(* what the spec means, without recursion: the LAST valid pair with that name *)
Theorem C34_spec_get_last_binding : forall pairs n v, spec_get pairs n = Some v <->
  exists l1 p l2, pairs = l1 ++ p :: l2 /\ valid_pair p = Some (n, v) /\
                  Forall (fun q => forall w, valid_pair q <> Some (n, w)) l2.
Proof. exact spec_get_some_iff. Qed.
Print Assumptions C34_spec_get_last_binding.

(* Each never panics, yields names in strictly increasing plain string order (hence each at most once),
   and yields (n,v) exactly for the surviving bindings of the map. *)
Theorem C34_each : forall pairs,
  exists l, api_each pairs = Ok l /\
            StronglySorted lt_str (map fst l) /\
            forall n v, In (n, v) l <-> spec_get pairs n = Some v.
Proof. exact api_each_spec. Qed.
Print Assumptions C34_each.

Theorem C34_strictly_sorted_means_once_and_sorted : forall l : list str,
  StronglySorted lt_str l -> NoDup l /\ sorted_names l = true.
Proof. intros l H. split; [exact (ssorted_lt_nodup l H)|exact (ssorted_lt_sorted_names l H)]. Qed.
Print Assumptions C34_strictly_sorted_means_once_and_sorted.

(* construction never panics (the slices.Delete(list, i-1, i) with i = 0 cannot happen) *)
Theorem C34_construct_no_panic : forall pairs, exists out, list_environ pairs = Ok out.
Proof. intros pairs. destruct (list_environ_ok pairs) as (out & H & _). exists out. exact H. Qed.
Print Assumptions C34_construct_no_panic.

(* FuncEnviron treats an empty value as unset *)
Theorem C34_func_empty_unset : forall f name, func_get f name = None <-> f name = [].
Proof. exact func_get_none_iff. Qed.
Print Assumptions C34_func_empty_unset.

Theorem C34_func_nonempty_set : forall f name v, func_get f name = Some v <-> (f name = v /\ v <> []).
Proof. exact func_get_some. Qed.
Print Assumptions C34_func_nonempty_set.

(* non-vacuity: duplicates, prefix names (the pre-fix order bug: "A" vs "A1"), invalid pairs,
   '=' in values, a name containing '=' (the pre-fix panic: Get("A=5")) *)
Open Scope N_scope.
Example C34_example_each :
  api_each [[65;49;61;50]; [66]; [65;61;49]; [61;3]; [65;61;54;61;55]]   (* A1=2 B A=1 =\003 A=6=7 *)
  = Ok [([65], [54;61;55]); ([65;49], [50])].                            (* A -> 6=7, A1 -> 2 *)
Proof. vm_compute. reflexivity. Qed.
Example C34_example_get_eq_name : api_get [[65;61;53]] [65;61;53] = Ok None.   (* Get("A=5") on ["A=5"] *)
Proof. vm_compute. reflexivity. Qed.
