(* Props/C02.v — property theorems only.
   C02 "Formatting is idempotent", level W (words): PARTIAL w.r.t. the property.
   Layout decisions above the word level (newlines, indentation, comments, heredocs)
   are covered by the whole-language search only (harness/cmd/c02). *)
From Verif Require Import Base.Str Syntax.Word Proofs.WordProofs.

(* fmt(fmt(w)) = fmt(w) on words: whatever the lexer reads back from a printed
   well-formed word prints to the same bytes again (both Minify settings). *)
Theorem C02_word_fixpoint_partial : forall minify w d rest w' r',
  wf_word w -> not_comment_start w -> word_delim d = true ->
  lex_word (print_word minify w ++ d :: rest) = Some (w', r') ->
  print_word minify w' ++ r' = print_word minify w ++ d :: rest.
Proof. exact word_print_fixpoint. Qed.
Print Assumptions C02_word_fixpoint_partial.

Theorem C02_print_norm_partial : forall minify w,
  wf_word w -> print_word minify (norm_word minify w) = print_word minify w.
Proof. exact print_word_norm. Qed.
Print Assumptions C02_print_norm_partial.

(* ------------------------------------------------------------------ level S (statements)
   fmt(fmt(t)) = fmt(t) on the MiniSh statement fragment under SingleLine: whatever the
   model parser reads back from a printed well-formed tree prints to the same bytes.
   PARTIAL: SingleLine only, where no layout decision reads a position; the
   position-driven multi-line layout (the hard part of idempotence) is search only. *)
From Verif Require Import Syntax.MiniAst Syntax.MiniPrinter Syntax.MiniParser Proofs.MiniRoundtrip.

Theorem C02_stmt_idempotent_partial : forall o t t', opts_single o -> wf_file t ->
  parse_file (print_file o t) = Some t' -> print_file o t' = print_file o t.
Proof. exact stmt_idempotent. Qed.
Print Assumptions C02_stmt_idempotent_partial.

Theorem C02_stmt_text_fixpoint_partial : forall o t, opts_single o -> wf_file t ->
  option_map (print_file o) (parse_file (print_file o t)) = Some (print_file o t).
Proof. exact stmt_text_fixpoint. Qed.
Print Assumptions C02_stmt_text_fixpoint_partial.
