(* Props/C02.v — property theorems only.
   C02 "Formatting is idempotent", level W (words): PARTIAL w.r.t. the property.
   Layout decisions above the word level (newlines, indentation, comments, heredocs)
   are covered by the whole-language search only (harness/cmd/c02). *)
From Verif Require Import Base.Str Syntax.Word Proofs.WordProofs.

(* fmt(fmt(w)) = fmt(w) on words: whatever the lexer reads back from a printed
   well-formed word prints to the same bytes again (both Minify settings). *)
Theorem C02_word_fixpoint_partial : forall minify w d rest w' r',
  wf_word w -> not_comment_start w -> word_delim d = true ->
  lex_word (print_word minify w ++ d :: rest) = Some (w', r') ->
  print_word minify w' ++ r' = print_word minify w ++ d :: rest.
Proof. exact word_print_fixpoint. Qed.
Print Assumptions C02_word_fixpoint_partial.

Theorem C02_print_norm_partial : forall minify w,
  wf_word w -> print_word minify (norm_word minify w) = print_word minify w.
Proof. exact print_word_norm. Qed.
Print Assumptions C02_print_norm_partial.
