(* Props/C02.v — property theorems only.
   C02 "Formatting is idempotent", level W (words): PARTIAL w.r.t. the property.
   Layout decisions above the word level (newlines, indentation, comments, heredocs)
   are covered by the whole-language search only (harness/cmd/c02). *)
From Verif Require Import Base.Str Syntax.Word Proofs.WordProofs.

(* fmt(fmt(w)) = fmt(w) on words: whatever the lexer reads back from a printed
   well-formed word prints to the same bytes again (both Minify settings). *)
Theorem C02_word_fixpoint_partial : forall minify w d rest w' r',
  wf_word w -> not_comment_start w -> word_delim d = true ->
  lex_word (print_word minify w ++ d :: rest) = Some (w', r') ->
  print_word minify w' ++ r' = print_word minify w ++ d :: rest.
Proof. exact word_print_fixpoint. Qed.
Print Assumptions C02_word_fixpoint_partial.

Theorem C02_print_norm_partial : forall minify w,
  wf_word w -> print_word minify (norm_word minify w) = print_word minify w.
Proof. exact print_word_norm. Qed.
Print Assumptions C02_print_norm_partial.

(* ------------------------------------------------------------------ level S (statements)
   fmt(fmt(t)) = fmt(t) on the MiniSh statement fragment under SingleLine: whatever the
   model parser reads back from a printed well-formed tree prints to the same bytes.
   PARTIAL: SingleLine only, where no layout decision reads a position; the
   position-driven multi-line layout (the hard part of idempotence) is search only. *)
From Verif Require Import Syntax.MiniAst Syntax.MiniPrinter Syntax.MiniParser Proofs.MiniRoundtrip.

Theorem C02_stmt_idempotent_partial : forall o t t', opts_single o -> wf_file t ->
  parse_file (print_file o t) = Some t' -> print_file o t' = print_file o t.
Proof. exact stmt_idempotent. Qed.
Print Assumptions C02_stmt_idempotent_partial.

Theorem C02_stmt_text_fixpoint_partial : forall o t, opts_single o -> wf_file t ->
  option_map (print_file o) (parse_file (print_file o t)) = Some (print_file o t).
Proof. exact stmt_text_fixpoint. Qed.
Print Assumptions C02_stmt_text_fixpoint_partial.

(* ------------------------------------------------------------------ level S, DEFAULT (multi-line) mode
   Syntax/MiniPrinterML.v transliterates the position logic of printer.go (wantsNewline, newlines,
   indent, incLevel/decLevel with the levelIncs stack, nestedStmts' closing-position case, semiOrNewl,
   semiRsrv, the Subshell line tests, both BinaryCmd branches) on trees that carry source lines
   (Syntax/MiniPos.v); canon_file is the canonical position assignment (= the lines the real parser
   gives to the printer's own fully multi-line output; the code leg checks exactly that).
   Proved for ALL well-formed trees: on canonical positions the machine computes the compositional
   layout R_file (every body statement on its own line at its depth, closing words on their own
   lines, a one-statement condition inline), for every Indent n, and BinaryNextLine changes nothing.
   This is the PRINTER half of idempotence in default mode.  NOT proved (named gap): that parse_file
   reads R_file t back as t (the newline-token variants of the lexing and parsing layers), hence no
   C01_stmt_roundtrip_default / C02_stmt_idempotent_default theorem yet; that step is tied by the code
   leg only (model parse of the real output, real re-parse lines = canon_file, real Print(Parse(out)) = out). *)
From Verif Require Import Syntax.MiniPos Syntax.MiniPrinterML Proofs.MiniRenderML.

Theorem C02_stmt_default_layout_partial : forall ind bnl t, wf_file t ->
  ml_print_file ind bnl t = R_file ind t.
Proof. exact ml_print_file_render. Qed.
Print Assumptions C02_stmt_default_layout_partial.

Theorem C02_stmt_default_bnl_partial : forall ind t, wf_file t ->
  ml_print_file ind true t = ml_print_file ind false t.
Proof. exact ml_print_file_bnl. Qed.
Print Assumptions C02_stmt_default_bnl_partial.

(* non-vacuity: the example file of C01 in default mode (tabs, and Indent 4 + BinaryNextLine) *)
Example C02_stmt_default_example_prints : ml_print_file 0 false ex_file = ex_default_text.
Proof. exact ex_file_default_prints. Qed.
Example C02_stmt_default_example_roundtrip :
  parse_file (ml_print_file 0 false ex_file) = Some ex_file /\
  parse_file (ml_print_file 4 true ex_file) = Some ex_file.
Proof. exact ex_file_default_roundtrip. Qed.

(* ------------------------------------------------------------------ level S, DEFAULT mode: idempotence
   with canonical positions: print (canon (parse (print (canon t)))) = print (canon t), for ALL
   well-formed trees, every Indent n, both BinaryNextLine settings (ml_print_file applies canon_file).
   That the real parser assigns exactly canon_file's lines to the printed text is checked by the code
   leg (lines of the real re-parse = canon_file), not proved: the model parser carries no positions. *)
From Verif Require Import Proofs.MiniRoundtripML.

Theorem C02_stmt_idempotent_default_partial : forall ind bnl t t', wf_file t ->
  parse_file (ml_print_file ind bnl t) = Some t' -> ml_print_file ind bnl t' = ml_print_file ind bnl t.
Proof. exact stmt_idempotent_default. Qed.
Print Assumptions C02_stmt_idempotent_default_partial.

Theorem C02_stmt_text_fixpoint_default_partial : forall ind bnl t, wf_file t ->
  option_map (ml_print_file ind bnl) (parse_file (ml_print_file ind bnl t)) = Some (ml_print_file ind bnl t).
Proof. exact stmt_text_fixpoint_default. Qed.
Print Assumptions C02_stmt_text_fixpoint_default_partial.

(* ------------------------------------------------------------------ NOTE (supersedes a comment above)
   The comment above C02_stmt_default_layout_partial says that the default-mode round trip and
   idempotence are NOT proved.  That is out of date: they are proved further down in this file
   (C02_stmt_idempotent_default_partial, C02_stmt_text_fixpoint_default_partial) and in Props/C01.v
   (C01_stmt_roundtrip_default_partial), for all well-formed trees on canonical positions.  What
   remains unproved is stated in the comments of those theorems and in notes/C01S.md (round 3). *)
