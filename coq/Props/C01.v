(* Props/C01.v — property theorems only.
   C01 "Formatting preserves program structure", level W (words) of the MiniSh fragment:
   words made of Lit, '...', $'...', "..." / $"..." (with literals and parameter
   expansions inside) and simple parameter expansions $x / ${x}; LangBash lexing.
   PARTIAL w.r.t. the property: statements, separators, comments, here-documents and
   every other node kind are covered by the whole-language search only
   (harness/cmd/c01).  The full statement the fragment is meant to grow into:
     forall o t, wf_file t -> opts_ok o -> parse lang (print o t) = Some t' /\ norm o t' = norm o t. *)
From Verif Require Import Base.Str Syntax.Word Proofs.WordProofs.

(* For every well-formed word (Lit values are what the lexer can produce), every Minify
   flag and every delimiter that ends a word: lexing the printed word gives back the
   word modulo norm (doubled trailing backslash; ${x} -> $x where Minify does it). *)
Theorem C01_word_roundtrip : forall minify w d rest,
  wf_word w -> not_comment_start w -> word_delim d = true ->
  lex_word (print_word minify w ++ d :: rest) = Some (norm_word minify w, d :: rest).
Proof. exact word_roundtrip. Qed.
Print Assumptions C01_word_roundtrip.

(* non-vacuity: the word  a, ${x}, y, a double-quoted string holding ${x} and an escaped
   quote, a $-single-quoted escaped quote, ${1}, and 0 followed by a lone backslash
   is well-formed (it exercises the Minify guard next to a literal, nested double
   quotes, the dollar-single-quote form, ${1}0 and a trailing backslash) *)
Example C01_word_example_wf :
  wf_word [Lit [97]; Param false [120]; Lit [121]; Dbl false [QParam false [120]; QLit [45; 92; 34]];
           Sgl true [92; 39]; Param false [49]; Lit [48; 92]].
Proof. exact wf_example. Qed.
Print Assumptions C01_word_example_wf.
