(* Props/C01.v — property theorems only.
   C01 "Formatting preserves program structure", level W (words) of the MiniSh fragment:
   words made of Lit, '...', $'...', "..." / $"..." (with literals and parameter
   expansions inside) and simple parameter expansions $x / ${x}; LangBash lexing.
   PARTIAL w.r.t. the property: statements, separators, comments, here-documents and
   every other node kind are covered by the whole-language search only
   (harness/cmd/c01).  The full statement the fragment is meant to grow into:
     forall o t, wf_file t -> opts_ok o -> parse lang (print o t) = Some t' /\ norm o t' = norm o t. *)
From Verif Require Import Base.Str Syntax.Word Proofs.WordProofs.

(* For every well-formed word (Lit values are what the lexer can produce), every Minify
   flag and every delimiter that ends a word: lexing the printed word gives back the
   word modulo norm (doubled trailing backslash; ${x} -> $x where Minify does it). *)
Theorem C01_word_roundtrip : forall minify w d rest,
  wf_word w -> not_comment_start w -> word_delim d = true ->
  lex_word (print_word minify w ++ d :: rest) = Some (norm_word minify w, d :: rest).
Proof. exact word_roundtrip. Qed.
Print Assumptions C01_word_roundtrip.

(* non-vacuity: the word  a, ${x}, y, a double-quoted string holding ${x} and an escaped
   quote, a $-single-quoted escaped quote, ${1}, and 0 followed by a lone backslash
   is well-formed (it exercises the Minify guard next to a literal, nested double
   quotes, the dollar-single-quote form, ${1}0 and a trailing backslash) *)
Example C01_word_example_wf :
  wf_word [Lit [97]; Param false [120]; Lit [121]; Dbl false [QParam false [120]; QLit [45; 92; 34]];
           Sgl true [92; 39]; Param false [49]; Lit [48; 92]].
Proof. exact wf_example. Qed.
Print Assumptions C01_word_example_wf.

(* ------------------------------------------------------------------ level S (statements)
   MiniSh fragment: statement lists, simple commands (words of level W), `;` / newline
   separators, `&`, `!`, `&&` `||` `|`, { } blocks, ( ) subshells (with the `( (` and `) )`
   spacing rules), if/then/elif/else/fi, while/until do done; LangBash.
   Model: Syntax/MiniPrinter.v = transliteration of the separator state machine of
   printer.go under SingleLine (wantSpace / wantNewline / wroteSemi / firstLine),
   Syntax/MiniParser.v = fuelled recursive-descent parser following parser.go.
   Proved for ALL well-formed trees (no size bound, mutual induction):
   print then parse gives the tree back.
   PARTIAL: option sets with SingleLine only (Indent n / BinaryNextLine do not change the
   output there); the default multi-line layout, Minify, redirections, assignments,
   for/case/functions, comments and heredocs are not in this theorem (search only).
   wf_file excludes an odd trailing backslash in a word (impossible before a delimiter),
   so norm_file is the identity on well-formed trees; it is kept in the statement because
   it is the statement the fragment grows into. *)
From Verif Require Import Syntax.MiniAst Syntax.MiniPrinter Syntax.MiniParser Proofs.MiniRoundtrip.

Theorem C01_stmt_roundtrip_partial : forall o t, opts_single o -> wf_file t ->
  parse_file (print_file o t) = Some (norm_file t).
Proof. exact stmt_roundtrip. Qed.
Print Assumptions C01_stmt_roundtrip_partial.

(* non-vacuity: one file holding  ( (a) ) ; if a; then b; elif c; then d; else e; fi ;
   a && b || c | d & ; and a negated pipeline of nested blocks and a while loop whose body
   is ( (y) | z )  is well-formed, and the model prints / parses it as expected *)
Example C01_stmt_example_wf : wf_file ex_file.
Proof. exact ex_file_wf. Qed.
Example C01_stmt_example_prints : sl_print_file ex_file = ex_text.
Proof. exact ex_file_prints. Qed.
Example C01_stmt_example_parses : parse_file ex_text = Some ex_file.
Proof. exact ex_file_parses. Qed.
Print Assumptions C01_stmt_example_wf.

(* ------------------------------------------------------------------ level S, DEFAULT (multi-line) mode
   ml_print_file ind bnl t = the default printer (Syntax/MiniPrinterML.v: transliteration with the
   position logic, options Indent n and BinaryNextLine) run on the canonical positions canon_file t
   (Syntax/MiniPos.v).  For ALL well-formed trees, every Indent n and both BinaryNextLine settings:
   parsing the printed multi-line text gives the tree back.  Proof: machine = layout R_file
   (MiniRenderML.v), R_file lexes to the newline-token list of the tree (MiniLexML.v), which parses to
   the tree through the leading-newline path of p_stmts (MiniParseML.v).
   PARTIAL: canonical positions only (arbitrary source layouts: code leg, byte-wise); same fragment
   and same wf_file as the SingleLine theorem; no Minify, redirections, assignments, for/case. *)
From Verif Require Import Syntax.MiniPos Syntax.MiniPrinterML Proofs.MiniRoundtripML.

Theorem C01_stmt_roundtrip_default_partial : forall ind bnl t, wf_file t ->
  parse_file (ml_print_file ind bnl t) = Some (norm_file t).
Proof. exact stmt_roundtrip_default. Qed.
Print Assumptions C01_stmt_roundtrip_default_partial.

(* ------------------------------------------------------------------ level S+ : assignments and redirections
   Syntax/MiniRedir.v models ONE simple command  Stmt{Cmd: CallExpr{Assigns, Args}, Redirs}  with
   scalar assignments (prefix `x=w cmd` and standalone `x=w`) and redirections > >> < >& with an
   optional fd and a word target: printer = assigns + wordJoin + stmtRedirs with the SpaceRedirects
   option (identical under SingleLine and default mode on one line), parser = callExpr's loop with
   getAssign and doRedirect.  PARTIAL, named honestly:
   * proved (all simple commands): the printer state machine writes the items separated by single
     blanks (x_print_file = x_render_file);
   * NOT proved: parse_xfile (x_print_file sr x) = Some x (example only), and the fragment is NOT
     integrated into the statement-level trees / theorems above (no redirections on compound
     commands, no simple command with redirections inside lists, blocks, if, while);
   both are tied to the real printer / parser by the code leg only (one-statement files). *)
From Verif Require Import Syntax.MiniRedir Proofs.MiniRedirProofs.

Theorem C01_simplecmd_redirs_render_partial : forall sr x, x_items sr x <> [] ->
  x_print_file sr x = x_render_file sr x.
Proof. exact x_print_file_render. Qed.
Print Assumptions C01_simplecmd_redirs_render_partial.

Example C01_simplecmd_redirs_example :
  parse_xfile (x_print_file false ex_x) = Some ex_x /\ parse_xfile (x_print_file true ex_x) = Some ex_x /\
  x_print_file true ex_x =
    [120;61;49;32;121;61;32;99;109;100;32;39;97;32;98;39;32;50;62;38;49;32;62;62;32;108;111;103;32;60;32;105;110;10].
Proof. exact ex_x_roundtrip. Qed.
