(* Props/C28.v — property theorems only. *)
From Verif Require Import Base.Str Interp.Builtins Proofs.BuiltinsProofs.
