(* Props/C28.v — property theorems only.
   Model: Interp/Builtins.v (transliteration of the argument handling / indexing of the builtins,
   every Go index and slice operation explicit, Panic when Go's run-time check fails).
   The library functions (strconv.Atoi, interp.atoi, Itoa, []rune, string(runes), IndexRune,
   ValidName, changeDir) are universally quantified: the theorems hold whatever they return.
   inv = the invariant of reachable Runner states the builtins rely on
         (optState.argidx >= 0, optState.runeidx >= 0, len(dirStack) >= 1);
   it holds after Reset (C28_init_inv), every modelled call preserves it (C28_history_total), and it
   is needed (C28_pushd_needs_inv).

   Full-strength statements for the code BEFORE the fix: commits b5da917 / 6bcd06f in /repo:
     forall args st, inv st -> bi_shift_prefix atoi args st <> Panic   -- REFUTED: C28_shift_prefix_refuted
     forall histories, the pre-fix getopts <> Panic                    -- REFUTED: C28_getopts_prefix_refuted
   After the fixes the positive theorems below hold for the repaired code, which is the model the code
   leg runs against interp.Runner on every check. *)
From Verif Require Import Base.Str Interp.Builtins Proofs.BuiltinsProofs.
From Coq Require Import Strings.String.
From Coq Require Import List ZArith.
Import ListNotations.
Open Scope Z_scope.

(* --- refutations of the unchanged tree (both witnesses were first reproduced against the real code) *)
(* set -- a b; shift -1   :   r.Params[-1:] *)
Theorem C28_shift_prefix_refuted : exists args st, inv st /\ bi_shift_prefix atoi_c args st = Panic.
Proof. exact shift_prefix_refuted_ex. Qed.
Print Assumptions C28_shift_prefix_refuted.

(* set -- -ab; getopts ab x; set -- -a; getopts ab x   :   opts[g.runeidx] with a stale rune index *)
Theorem C28_getopts_prefix_refuted : getopts_hist false = Panic.
Proof. exact getopts_prefix_refuted. Qed.
Print Assumptions C28_getopts_prefix_refuted.

(* the same history on the repaired code: no panic, and x = "a" like bash *)
Example C28_getopts_fixed_witness :
  exists v, getopts_hist true = Ok v /\ var_get (vars (r_st v)) (b "x") = Some (b "a").
Proof. exact getopts_fixed_witness. Qed.
Print Assumptions C28_getopts_fixed_witness.

(* --- each modelled builtin: all argument vectors, all states satisfying inv, all library functions *)
Theorem C28_shift_total : forall atoi args st, inv st -> bi_shift atoi args st <> Panic.
Proof. exact shift_total. Qed.
Print Assumptions C28_shift_total.

Theorem C28_getopts_total : forall atoi itoa runes_of str_of_runes index_rune valid_name args st, inv st ->
  bi_getopts atoi itoa runes_of str_of_runes index_rune valid_name args st <> Panic.
Proof. exact getopts_total. Qed.
Print Assumptions C28_getopts_total.

(* getopts.next alone: any optstring, any argument list, any non-negative saved position *)
Theorem C28_getopts_next_total : forall runes_of str_of_runes index_rune optstr args g,
  0 <= g_arg g -> 0 <= g_rune g ->
  getopts_next runes_of str_of_runes index_rune optstr args g <> Panic.
Proof. exact getopts_next_total. Qed.
Print Assumptions C28_getopts_next_total.

(* set / interp.Params with the flagParser: never panics AND the fuelled loop always ends
   (Err = out of fuel is excluded as well) *)
Theorem C28_set_total : forall args st, inv st -> exists v, bi_set args st = Ok v.
Proof. exact set_total. Qed.
Print Assumptions C28_set_total.

Theorem C28_break_continue_total : forall atoi cont args st, inv st -> bi_break atoi cont args st <> Panic.
Proof. exact break_continue_total. Qed.
Print Assumptions C28_break_continue_total.

Theorem C28_exit_total : forall atoi args st, inv st -> bi_exit atoi args st <> Panic.
Proof. exact exit_total. Qed.
Print Assumptions C28_exit_total.

Theorem C28_return_total : forall atoi args st, inv st -> bi_return atoi args st <> Panic.
Proof. exact return_total. Qed.
Print Assumptions C28_return_total.

Theorem C28_wait_total : forall atoi64 args st, inv st -> bi_wait atoi64 args st <> Panic.
Proof. exact wait_total. Qed.
Print Assumptions C28_wait_total.

Theorem C28_pushd_total : forall change_dir args st, inv st -> bi_pushd change_dir args st <> Panic.
Proof. exact pushd_total. Qed.
Print Assumptions C28_pushd_total.

Theorem C28_pushd_needs_inv : exists change_dir args st, bi_pushd change_dir args st = Panic.
Proof. exact pushd_needs_inv. Qed.
Print Assumptions C28_pushd_needs_inv.

Theorem C28_popd_total : forall change_dir args st, inv st -> bi_popd change_dir args st <> Panic.
Proof. exact popd_total. Qed.
Print Assumptions C28_popd_total.

Theorem C28_dirs_total : forall args st, inv st -> bi_dirs args st <> Panic.
Proof. exact dirs_total. Qed.
Print Assumptions C28_dirs_total.

(* echo's and pwd's option loops, unset's option loop + cutElemSubscript per name (scalar variables) *)
Theorem C28_echo_total : forall format args st, inv st -> bi_echo format args st <> Panic.
Proof. exact echo_total. Qed.
Print Assumptions C28_echo_total.

Theorem C28_pwd_total : forall eval_symlinks args st, inv st -> bi_pwd eval_symlinks args st <> Panic.
Proof. exact pwd_total. Qed.
Print Assumptions C28_pwd_total.

Theorem C28_unset_total : forall valid_name args st, inv st -> bi_unset valid_name args st <> Panic.
Proof. exact unset_total. Qed.
Print Assumptions C28_unset_total.

(* $1 .. $9 *)
Theorem C28_positional_total : forall c st, positional c st <> Panic.
Proof. exact positional_total. Qed.
Print Assumptions C28_positional_total.

(* unset 'a[i]': cutElemSubscript on any string; DeleteIndexedElem for any index (negative, huge) and
   every well-formed indexed variable (Indexes nil, or as long as List) *)
Theorem C28_cut_elem_subscript_total : forall valid_name arg, cut_elem_subscript valid_name arg <> Panic.
Proof. exact cut_elem_subscript_total. Qed.
Print Assumptions C28_cut_elem_subscript_total.

Theorem C28_unset_elem_total : forall l ix k, var_wf l ix -> unset_indexed l ix k <> Panic.
Proof. exact unset_indexed_total. Qed.
Print Assumptions C28_unset_elem_total.

(* ${v:o:l} for every string and every offset/length, negative included *)
Theorem C28_slice_str_total : forall rs set off len, slice_str rs set off len <> Panic.
Proof. exact slice_str_total. Qed.
Print Assumptions C28_slice_str_total.

(* ${@:o:l}, ${*:o:l} (positional, Indexes nil) and ${a[@]:o:l} (dense or sparse) *)
Theorem C28_slice_elems_total : forall arg0 elems ix positional off len,
  ix = [] \/ (positional = false /\ length ix = length elems) ->
  slice_elems arg0 elems ix positional off len <> Panic.
Proof. exact slice_elems_total. Qed.
Print Assumptions C28_slice_elems_total.

(* --- histories: any sequence of the modelled calls (getopts repeatedly while `set --`, shift and
   OPTIND assignments change the arguments between calls; break/continue in nested loops; pushd/popd;
   wait after background jobs; ...) from any state satisfying inv ends in Ok (no Panic, no out of fuel)
   in a state satisfying inv *)
Theorem C28_history_total :
  forall atoi atoi64 itoa runes_of str_of_runes index_rune valid_name change_dir format eval_symlinks cs st, inv st ->
  exists st' ev code,
    run_calls atoi atoi64 itoa runes_of str_of_runes index_rune valid_name change_dir format eval_symlinks cs st = Ok (st', ev, code)
    /\ inv st'.
Proof. exact history_total. Qed.
Print Assumptions C28_history_total.

Theorem C28_init_inv : forall d, inv (init_state d).
Proof. exact init_inv. Qed.
Print Assumptions C28_init_inv.

(* non-vacuity: the refuting history, on the repaired model with the concrete library instances *)
Example C28_history_nonvacuous :
  exists st' ev, run_calls_c [b "/T"] hist_witness (init_state (b "/T")) = Ok (st', ev, 0) /\ params st' = [b "-a"].
Proof. exact history_nonvacuous. Qed.
Print Assumptions C28_history_nonvacuous.
