(* Props/C16.v — property theorems only (C16 Brace expansion matches bash).
   Model: Expand/Braces.v (SplitBraces, printer rendering, bracesSeqRec/BracesSeq after the fix: commits
   recorded in known_findings.jsonl; Spec = bash's brace_expand). A word is one literal, w : str. *)
From Verif Require Import Base.Str Expand.Braces Proofs.BracesProofs Proofs.BracesPrintProofs Proofs.BracesSimProofs.

(* 1. splitting braces leaves the word's printed form unchanged *)
Theorem C16_split_preserves_text : forall w, render (snd (split_braces w)) = render [PLit w].
Proof. exact split_preserves_text'. Qed.
Print Assumptions C16_split_preserves_text.

(* ... also with the Printer's rule for literals (an odd number of trailing backslashes gets one more) *)
Theorem C16_split_preserves_print : forall w, print (snd (split_braces w)) = print [PLit w].
Proof. exact split_preserves_print. Qed.
Print Assumptions C16_split_preserves_print.

(* 2. ... and reports whether it found a brace expansion.
   (On the pinned tree this was refuted by w = "a{b": flag true, no BraceExp; repaired by fix 6c22f31,
   so the model is the repaired code and the full statement is proved.) *)
Theorem C16_split_reports : forall w,
  fst (split_braces w) = true <-> exists sq es, In (PBrace sq es) (snd (split_braces w)).
Proof. exact split_reports. Qed.
Print Assumptions C16_split_reports.

Theorem C16_split_false_untouched : forall w,
  fst (split_braces w) = false -> snd (split_braces w) = [PLit w].
Proof. exact split_false_untouched. Qed.
Print Assumptions C16_split_false_untouched.

(* 3. expansion of a split word never panics and never runs out of model fuel *)
Theorem C16_no_panic : forall w,
  expand (snd (split_braces w)) <> Panic /\ expand (snd (split_braces w)) <> Err E_FUEL.
Proof. exact expand_no_panic. Qed.
Print Assumptions C16_no_panic.

(* 4. an error exactly when the list exceeds the limit, and it is the limit error *)
Theorem C16_error_iff_above_limit : forall w c,
  expand (snd (split_braces w)) = Err c <->
  c = E_LIMIT /\ exists l, braces_rec (S (word_size (snd (split_braces w)))) (snd (split_braces w)) = Ok l
                           /\ (limit < length l)%nat.
Proof. exact expand_error_iff_above_limit. Qed.
Print Assumptions C16_error_iff_above_limit.

Theorem C16_expand_total : forall w,
  (exists l, expand (snd (split_braces w)) = Ok l /\ (length l <= limit)%nat) \/
  (expand (snd (split_braces w)) = Err E_LIMIT /\
   exists l, braces_rec (S (word_size (snd (split_braces w)))) (snd (split_braces w)) = Ok l /\ (limit < length l)%nat).
Proof. exact expand_split_total. Qed.
Print Assumptions C16_expand_total.

(* 5. expansion = bash (Spec). Full statement (NOT provable for the code as it is: refuted below):
        forall w, to_sres (expand_word w) = spec w
      where to_sres maps the limit error to "more than 16384 words".
   Proved on stated scopes; the words outside KnownClass are what the search samples against bash. *)

(* refuted in general: KF-C16-1 (bash looks past a '}' that follows no ',' or ".."), e.g. "{a}b,c}" *)
Theorem C16_expand_matches_spec_refuted : exists w, to_sres (expand_word w) <> spec w.
Proof. exact expand_matches_spec_refuted. Qed.
Print Assumptions C16_expand_matches_spec_refuted.

(* scope A: words without '{' *)
Theorem C16_expand_matches_spec_nobrace_partial : forall w, contains_byte LB w = false ->
  expand_word w = Ok [w] /\ spec w = Words [w].
Proof. exact no_brace_word. Qed.
Print Assumptions C16_expand_matches_spec_nobrace_partial.

(* scope B: EVERY word of length 1..5 over { } , . - \ 0 1 9 a z outside the class KF-C16-1
   (finite domain, decided in the kernel). Missing for the full statement: unbounded length. *)
Theorem C16_expand_matches_spec_len5_partial : forall w,
  (1 <= length w <= 5)%nat -> (forall c, In c w -> In c A11) ->
  skipped_close w = false -> to_sres (expand_word w) = spec w.
Proof. exact expand_matches_spec_len5. Qed.
Print Assumptions C16_expand_matches_spec_len5_partial.

(* scope C: scope B plus all words of length 6 over { } , . 1 a, length 7 over { } . 1 a and over { } , a *)
Theorem C16_expand_matches_spec_short_partial : forall w,
  In w short_words -> skipped_close w = false -> to_sres (expand_word w) = spec w.
Proof. exact expand_matches_spec_short. Qed.
Print Assumptions C16_expand_matches_spec_short_partial.

(* scope D (UNBOUNDED length and nesting depth): regular words = plain runs (no { } , . \) and comma groups with
   at least two alternatives, properly nested and closed. [regular] is a decidable recogniser; [U t] is the word of
   a tree t of the grammar. Proved by a simulation between the stack splitter + bracesSeqRec and bash's
   gobbler-based recursion. Missing for the full statement outside the listed classes: sequences {x..y[..n]},
   '.' and backslashes in the text, unclosed or unmatched braces (covered by scopes B/C up to the stated lengths). *)
Theorem C16_expand_matches_spec_regular_partial : forall w, regular w = true -> to_sres (expand_word w) = spec w.
Proof. exact expand_matches_spec_regular_word. Qed.
Print Assumptions C16_expand_matches_spec_regular_partial.

Theorem C16_expand_matches_spec_tree_partial : forall t, ok_wt t = true -> to_sres (expand_word (U t)) = spec (U t).
Proof. exact expand_matches_spec_regular. Qed.
Print Assumptions C16_expand_matches_spec_tree_partial.

(* what the two sides compute on a regular word: the preamble x alternatives x postscript product, cut at the limit *)
Theorem C16_spec_regular_is_product : forall t, ok_wt t = true -> spec (U t) = lim (T t).
Proof. intros t H. rewrite (spec_regular t H). exact (proj1 E_lim t H). Qed.
Print Assumptions C16_spec_regular_is_product.

Example C16_ex_regular :   (* a{b,{c,d}e,}f{x,y} is regular, in no listed class, and expands to 8 words *)
  let w := [97;123;98;44;123;99;44;100;125;101;44;125;102;123;120;44;121;125] in
  regular w = true /\ known_class w = false
  /\ spec w = Words [[97;98;102;120]; [97;98;102;121]; [97;99;101;102;120]; [97;99;101;102;121];
                     [97;100;101;102;120]; [97;100;101;102;121]; [97;102;120]; [97;102;121]].
Proof. exact ex_regular. Qed.

(* non-vacuity *)
Example C16_ex_split : split_braces [97;123;98;44;99;125;100]    (* a{b,c}d *)
  = (true, [PLit [97]; PBrace false [[PLit [98]]; [PLit [99]]]; PLit [100]]).
Proof. exact ex_split. Qed.
Example C16_ex_unfound : split_braces [97;123;98] = (false, [PLit [97;123;98]]).   (* a{b *)
Proof. exact ex_unfound. Qed.
Example C16_ex_expand : expand_word [97;123;98;44;99;125;100] = Ok [[97;98;100]; [97;99;100]]
  /\ spec [97;123;98;44;99;125;100] = Words [[97;98;100]; [97;99;100]].
Proof. exact ex_expand. Qed.
Example C16_ex_limit :    (* {1..16385} errors, {1..16384} does not *)
  expand_word [123;49;46;46;49;54;51;56;53;125] = Err E_LIMIT /\ spec [123;49;46;46;49;54;51;56;53;125] = Many
  /\ exists l, expand_word [123;49;46;46;49;54;51;56;52;125] = Ok l /\ length l = limit.
Proof. exact ex_limit. Qed.
Example C16_ex_scope_nonempty :   (* a length-5 word in scope B with a real expansion: {a,z} *)
  skipped_close [123;97;44;122;125] = false /\ to_sres (expand_word [123;97;44;122;125]) = Words [[97]; [122]].
Proof. exact ex_scope. Qed.
Example C16_ex_overflow_edge :   (* {9223372036854775806..9223372036854775807} : two words, no wrap-around *)
  exists a b, expand_word [123;57;50;50;51;51;55;50;48;51;54;56;53;52;55;55;53;56;48;54;46;46;57;50;50;51;51;55;50;48;51;54;56;53;52;55;55;53;56;48;55;125] = Ok [a; b].
Proof. exact ex_overflow. Qed.
