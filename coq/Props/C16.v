(* Props/C16.v — property theorems only (C16 Brace expansion matches bash).
   Model: Expand/Braces.v (SplitBraces, printer rendering, bracesSeqRec/BracesSeq after the fix: commits
   recorded in known_findings.jsonl; Spec = bash's brace_expand). A word is one literal, w : str. *)
From Verif Require Import Base.Str Expand.Braces Proofs.BracesProofs.

(* 1. splitting braces leaves the word's printed form unchanged *)
Theorem C16_split_preserves_text : forall w, render (snd (split_braces w)) = render [PLit w].
Proof. exact split_preserves_text'. Qed.
Print Assumptions C16_split_preserves_text.

(* 2. ... and reports whether it found a brace expansion.
   (On the pinned tree this was refuted by w = "a{b": flag true, no BraceExp; repaired by fix 6c22f31,
   so the model is the repaired code and the full statement is proved.) *)
Theorem C16_split_reports : forall w,
  fst (split_braces w) = true <-> exists sq es, In (PBrace sq es) (snd (split_braces w)).
Proof. exact split_reports. Qed.
Print Assumptions C16_split_reports.

Theorem C16_split_false_untouched : forall w,
  fst (split_braces w) = false -> snd (split_braces w) = [PLit w].
Proof. exact split_false_untouched. Qed.
Print Assumptions C16_split_false_untouched.

(* 3. expansion of a split word never panics and never runs out of model fuel *)
Theorem C16_no_panic : forall w,
  expand (snd (split_braces w)) <> Panic /\ expand (snd (split_braces w)) <> Err E_FUEL.
Proof. exact expand_no_panic. Qed.
Print Assumptions C16_no_panic.

(* 4. an error exactly when the list exceeds the limit, and it is the limit error *)
Theorem C16_error_iff_above_limit : forall w c,
  expand (snd (split_braces w)) = Err c <->
  c = E_LIMIT /\ exists l, braces_rec (S (word_size (snd (split_braces w)))) (snd (split_braces w)) = Ok l
                           /\ (limit < length l)%nat.
Proof. exact expand_error_iff_above_limit. Qed.
Print Assumptions C16_error_iff_above_limit.

Theorem C16_expand_total : forall w,
  (exists l, expand (snd (split_braces w)) = Ok l /\ (length l <= limit)%nat) \/
  (expand (snd (split_braces w)) = Err E_LIMIT /\
   exists l, braces_rec (S (word_size (snd (split_braces w)))) (snd (split_braces w)) = Ok l /\ (limit < length l)%nat).
Proof. exact expand_split_total. Qed.
Print Assumptions C16_expand_total.
