(* Props/C16.v — property theorems only (C16 Brace expansion matches bash).
   Model: Expand/Braces.v (SplitBraces, printer rendering, bracesSeqRec/BracesSeq after the fix: commits
   recorded in known_findings.jsonl; Spec = bash's brace_expand). A word is one literal, w : str. *)
From Verif Require Import Base.Str Expand.Braces Proofs.BracesProofs Proofs.BracesPrintProofs Proofs.BracesSeqProofs Proofs.BracesSeqTermProofs Proofs.BracesSimProofs.

(* 1. splitting braces leaves the word's printed form unchanged *)
Theorem C16_split_preserves_text : forall w, render (snd (split_braces w)) = render [PLit w].
Proof. exact split_preserves_text'. Qed.
Print Assumptions C16_split_preserves_text.

(* ... also with the Printer's rule for literals (an odd number of trailing backslashes gets one more) *)
Theorem C16_split_preserves_print : forall w, print (snd (split_braces w)) = print [PLit w].
Proof. exact split_preserves_print. Qed.
Print Assumptions C16_split_preserves_print.

(* 2. ... and reports whether it found a brace expansion.
   (On the pinned tree this was refuted by w = "a{b": flag true, no BraceExp; repaired by fix 6c22f31,
   so the model is the repaired code and the full statement is proved.) *)
Theorem C16_split_reports : forall w,
  fst (split_braces w) = true <-> exists sq es, In (PBrace sq es) (snd (split_braces w)).
Proof. exact split_reports. Qed.
Print Assumptions C16_split_reports.

Theorem C16_split_false_untouched : forall w,
  fst (split_braces w) = false -> snd (split_braces w) = [PLit w].
Proof. exact split_false_untouched. Qed.
Print Assumptions C16_split_false_untouched.

(* 3. expansion of a split word never panics and never runs out of model fuel *)
Theorem C16_no_panic : forall w,
  expand (snd (split_braces w)) <> Panic /\ expand (snd (split_braces w)) <> Err E_FUEL.
Proof. exact expand_no_panic. Qed.
Print Assumptions C16_no_panic.

(* 4. an error exactly when the list exceeds the limit, and it is the limit error *)
Theorem C16_error_iff_above_limit : forall w c,
  expand (snd (split_braces w)) = Err c <->
  c = E_LIMIT /\ exists l, braces_rec (S (word_size (snd (split_braces w)))) (snd (split_braces w)) = Ok l
                           /\ (limit < length l)%nat.
Proof. exact expand_error_iff_above_limit. Qed.
Print Assumptions C16_error_iff_above_limit.

Theorem C16_expand_total : forall w,
  (exists l, expand (snd (split_braces w)) = Ok l /\ (length l <= limit)%nat) \/
  (expand (snd (split_braces w)) = Err E_LIMIT /\
   exists l, braces_rec (S (word_size (snd (split_braces w)))) (snd (split_braces w)) = Ok l /\ (limit < length l)%nat).
Proof. exact expand_split_total. Qed.
Print Assumptions C16_expand_total.

(* 5. expansion = bash (Spec). Full statement (NOT provable for the code as it is: refuted below):
        forall w, to_sres (expand_word w) = spec w
      where to_sres maps the limit error to "more than 16384 words".
   Proved on stated scopes; the words outside KnownClass are what the search samples against bash. *)

(* refuted in general: KF-C16-1 (bash looks past a '}' that follows no ',' or ".."), e.g. "{a}b,c}" *)
Theorem C16_expand_matches_spec_refuted : exists w, to_sres (expand_word w) <> spec w.
Proof. exact expand_matches_spec_refuted. Qed.
Print Assumptions C16_expand_matches_spec_refuted.

(* scope A: words without '{' *)
Theorem C16_expand_matches_spec_nobrace_partial : forall w, contains_byte LB w = false ->
  expand_word w = Ok [w] /\ spec w = Words [w].
Proof. exact no_brace_word. Qed.
Print Assumptions C16_expand_matches_spec_nobrace_partial.

(* scope B: EVERY word of length 1..5 over { } , . - \ 0 1 9 a z outside the class KF-C16-1
   (finite domain, decided in the kernel). Missing for the full statement: unbounded length. *)
Theorem C16_expand_matches_spec_len5_partial : forall w,
  (1 <= length w <= 5)%nat -> (forall c, In c w -> In c A11) ->
  skipped_close w = false -> to_sres (expand_word w) = spec w.
Proof. exact expand_matches_spec_len5. Qed.
Print Assumptions C16_expand_matches_spec_len5_partial.

(* scope C: scope B plus all words of length 6 over { } , . 1 a, length 7 over { } . 1 a and over { } , a *)
Theorem C16_expand_matches_spec_short_partial : forall w,
  In w short_words -> skipped_close w = false -> to_sres (expand_word w) = spec w.
Proof. exact expand_matches_spec_short. Qed.
Print Assumptions C16_expand_matches_spec_short_partial.

(* scope D (UNBOUNDED length and nesting depth): regular words = plain runs (no { } , . \), comma groups with at
   least two alternatives, and clean sequences {x..y} / {x..y..n} (x, y single ASCII letters, or decimal int64 numbers
   with optional '-' and leading zeros, outside bash's end-start overflow guard; n a decimal int64 other than -2^63),
   all properly nested and closed, to any depth. [regular] is a decidable recogniser; [U t] is the word of a tree t of
   the grammar. Proved by a simulation between the stack splitter + bracesSeqRec and bash's gobbler-based recursion,
   with the sequence loop reduced to its closed form. Missing for the full statement outside the listed classes:
   '+' signs and out-of-range numbers, '.' and backslashes in plain text, unclosed or unmatched braces, {x}
   (covered by scopes B/C up to the stated lengths, by the code leg and by the search). *)
Theorem C16_expand_matches_spec_regular_partial : forall w, regular w = true -> to_sres (expand_word w) = spec w.
Proof. exact expand_matches_spec_regular_word. Qed.
Print Assumptions C16_expand_matches_spec_regular_partial.

Theorem C16_expand_matches_spec_tree_partial : forall t, ok_wt t = true -> to_sres (expand_word (U t)) = spec (U t).
Proof. exact expand_matches_spec_regular. Qed.
Print Assumptions C16_expand_matches_spec_tree_partial.

(* what the two sides compute on a regular word: the preamble x alternatives x postscript product, cut at the limit *)
Theorem C16_spec_regular_is_product : forall t, ok_wt t = true -> spec (U t) = lim (T t).
Proof. intros t H. rewrite (spec_regular t H). exact (proj1 E_lim t H). Qed.
Print Assumptions C16_spec_regular_is_product.

(* the Go sequence loop equals its closed form (count_up k n s = n, n+s, ..., k values), cut after fuel values *)
Theorem C16_seq_loop_closed_form_up : forall f n to step k, (0 < step)%Z -> (to <= MAX64)%Z -> (n <= to)%Z ->
  ((to - n) / step = Z.of_nat k)%Z -> seq_loop f true n to step = count_up (Nat.min f (S k)) n step.
Proof. exact seq_loop_up. Qed.
Print Assumptions C16_seq_loop_closed_form_up.
Theorem C16_seq_loop_closed_form_down : forall f n to step k, (0 < step)%Z -> (MIN64 <= to)%Z -> (to <= n)%Z ->
  ((n - to) / step = Z.of_nat k)%Z -> seq_loop f false n to (- step) = count_up (Nat.min f (S k)) n (- step).
Proof. exact seq_loop_down. Qed.
Print Assumptions C16_seq_loop_closed_form_down.

(* Go's ParseInt and the Spec's strtoimax agree on decimal numbers: same value, accepted iff it fits int64 *)
Theorem C16_readers_agree : forall s, is_num s = true ->
  strtoimax s = Some (num_val s, []) /\ snd (parse_int s) = in64 (num_val s)
  /\ (in64 (num_val s) = true -> fst (parse_int s) = num_val s).
Proof. exact readers_agree. Qed.
Print Assumptions C16_readers_agree.

(* a clean sequence: SplitBraces accepts it, Go's values V are non-empty, and bash's result is V cut at the limit *)
Theorem C16_clean_sequence_agrees : forall d, sq_okb d = true ->
  seq_values (sq_es d) = Ok (sq_vals d) /\ sq_vals d <> [] /\ seq_broken (sq_es d) = false
  /\ tack_of (sq_text d) = BracesSeqProofs.lim (sq_vals d).
Proof. intros d H. destruct (sq_agree d H) as (A & B & C & D & _). auto. Qed.
Print Assumptions C16_clean_sequence_agrees.

Example C16_ex_regular_seq :   (* a{{1..3},{x..z..2}b}{08..10} : regular, in no listed class, 15 words *)
  let w := [97;123;123;49;46;46;51;125;44;123;120;46;46;122;46;46;50;125;98;125;123;48;56;46;46;49;48;125] in
  regular w = true /\ known_class w = false
  /\ spec w = Words [[97;49;48;56]; [97;49;48;57]; [97;49;49;48]; [97;50;48;56]; [97;50;48;57]; [97;50;49;48];
                     [97;51;48;56]; [97;51;48;57]; [97;51;49;48]; [97;120;98;48;56]; [97;120;98;48;57]; [97;120;98;49;48];
                     [97;122;98;48;56]; [97;122;98;48;57]; [97;122;98;49;48]].
Proof. exact ex_regular_seq. Qed.
Example C16_ex_regular_many :   (* x{1..20000} : regular; both sides: more than 16384 words *)
  let w := [120;123;49;46;46;50;48;48;48;48;125] in
  regular w = true /\ spec w = Many /\ expand_word w = Err E_LIMIT.
Proof. exact ex_regular_many. Qed.

Example C16_ex_regular :   (* a{b,{c,d}e,}f{x,y} is regular, in no listed class, and expands to 8 words *)
  let w := [97;123;98;44;123;99;44;100;125;101;44;125;102;123;120;44;121;125] in
  regular w = true /\ known_class w = false
  /\ spec w = Words [[97;98;102;120]; [97;98;102;121]; [97;99;101;102;120]; [97;99;101;102;121];
                     [97;100;101;102;120]; [97;100;101;102;121]; [97;102;120]; [97;102;121]].
Proof. exact ex_regular. Qed.

(* non-vacuity *)
Example C16_ex_split : split_braces [97;123;98;44;99;125;100]    (* a{b,c}d *)
  = (true, [PLit [97]; PBrace false [[PLit [98]]; [PLit [99]]]; PLit [100]]).
Proof. exact ex_split. Qed.
Example C16_ex_unfound : split_braces [97;123;98] = (false, [PLit [97;123;98]]).   (* a{b *)
Proof. exact ex_unfound. Qed.
Example C16_ex_expand : expand_word [97;123;98;44;99;125;100] = Ok [[97;98;100]; [97;99;100]]
  /\ spec [97;123;98;44;99;125;100] = Words [[97;98;100]; [97;99;100]].
Proof. exact ex_expand. Qed.
Example C16_ex_limit :    (* {1..16385} errors, {1..16384} does not *)
  expand_word [123;49;46;46;49;54;51;56;53;125] = Err E_LIMIT /\ spec [123;49;46;46;49;54;51;56;53;125] = Many
  /\ exists l, expand_word [123;49;46;46;49;54;51;56;52;125] = Ok l /\ length l = limit.
Proof. exact ex_limit. Qed.
Example C16_ex_scope_nonempty :   (* a length-5 word in scope B with a real expansion: {a,z} *)
  skipped_close [123;97;44;122;125] = false /\ to_sres (expand_word [123;97;44;122;125]) = Words [[97]; [122]].
Proof. exact ex_scope. Qed.
Example C16_ex_overflow_edge :   (* {9223372036854775806..9223372036854775807} : two words, no wrap-around *)
  exists a b, expand_word [123;57;50;50;51;51;55;50;48;51;54;56;53;52;55;55;53;56;48;54;46;46;57;50;50;51;51;55;50;48;51;54;56;53;52;55;55;53;56;48;55;125] = Ok [a; b].
Proof. exact ex_overflow. Qed.
