(* Props/C16.v — property theorems only (C16 Brace expansion matches bash). *)
From Verif Require Import Base.Str Expand.Braces Proofs.BracesProofs.

(* splitting braces leaves the word's printed form unchanged (plain rendering of the part tree) *)
Theorem C16_split_preserves_text : forall w, render (snd (split_braces w)) = render [PLit w].
Proof. exact split_preserves_text'. Qed.
Print Assumptions C16_split_preserves_text.
