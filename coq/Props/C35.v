(* Props/C35.v — property theorems only. *)
From Verif Require Import Base.Str Shfmt.Fs Proofs.FsProofs.

(* Soundness of the protocol checker that is run on the system-call trace of the real shfmt -w.
   For EVERY admissible initial state (well-formed; the target name shows a regular file with bytes [orig]
   and permission bits [mode]; no descriptor already open for writing refers to it) and EVERY trace the
   checker accepts:
   - at EVERY crash point k (the state left by the first k calls of the trace) the target name shows a regular
     file with exactly the original or exactly the new bytes, and the original permission bits;
   - after the full trace no directory entry other than the target refers to an inode created during the run
     (no temporary file is left behind). *)
Theorem C35_checker_sound : forall target mode new orig s0 t,
  init_ok s0 target (mkInode orig mode Regular) ->
  atomic_replace_ok target mode new t = true ->
  (forall k s, crash k t s0 = Some s ->
     exists b, look s target = Some (mkInode b mode Regular) /\ (b = orig \/ b = new)) /\
  (forall s, run t s0 = Some s -> forall n j, dir s n = Some j -> next s0 <= j -> n = target).
Proof. exact checker_sound. Qed.
Print Assumptions C35_checker_sound.

(* A target that must not be replaced (symlink, FIFO, any kind of inode record I0): a trace accepted by
   untouched_ok leaves the entry showing the very same record (bytes or link text, mode, kind) at every crash
   point, and leaves no created file behind. *)
Theorem C35_nonregular_refused : forall target I0 s0 t,
  init_ok s0 target I0 ->
  untouched_ok target t = true ->
  (forall k s, crash k t s0 = Some s -> look s target = Some I0) /\
  (forall s, run t s0 = Some s -> forall n j, dir s n = Some j -> next s0 <= j -> n = target).
Proof. exact nonregular_refused. Qed.
Print Assumptions C35_nonregular_refused.

(* non-vacuity, negative side: an in-place open(O_TRUNC)+write history is rejected by the checker,
   and it really has a crash point at which the target holds partial contents *)
Theorem C35_truncate_write_refuted :
  atomic_replace_ok ex_target 493 ex_new ex_bad = false /\
  exists k s, crash k ex_bad ex_s0 = Some s /\
    look_is s ex_target (mkInode ex_orig 493 Regular) = false /\
    look_is s ex_target (mkInode ex_new 493 Regular) = false /\
    look_is s ex_target (mkInode [105;102]%N 493 Regular) = true.
Proof. exact (conj ex_bad_rejected ex_bad_partial). Qed.
Print Assumptions C35_truncate_write_refuted.

(* non-vacuity, positive side: the renameio history (as decoded from strace) is accepted, its initial state is
   admissible, and it is a real history of that state ending with the new file and no temporary entry *)
Example C35_renameio_trace_accepted :
  init_ok ex_s0 ex_target (mkInode ex_orig 493 Regular) /\
  atomic_replace_ok ex_target 493 ex_new ex_good = true /\
  match run ex_good ex_s0 with
  | Some s => look_is s ex_target (mkInode ex_new 493 Regular) && negb (is_some (dir s ex_tmp))
  | None => false
  end = true.
Proof. exact (conj ex_init_ok (conj ex_good_accepted ex_good_runs)). Qed.
Print Assumptions C35_renameio_trace_accepted.
