(* Props/C35.v — property theorems only. *)
From Verif Require Import Base.Str Shfmt.Fs Proofs.FsProofs.

(* non-vacuity, negative side: an in-place open(O_TRUNC)+write history is rejected by the checker,
   and it really has a crash point at which the target holds partial contents *)
Theorem C35_truncate_write_refuted :
  atomic_replace_ok ex_target 493 ex_new ex_bad = false /\
  exists k s, crash k ex_bad ex_s0 = Some s /\
    look_is s ex_target (mkInode ex_orig 493 Regular) = false /\
    look_is s ex_target (mkInode ex_new 493 Regular) = false /\
    look_is s ex_target (mkInode [105;102]%N 493 Regular) = true.
Proof. exact (conj ex_bad_rejected ex_bad_partial). Qed.
Print Assumptions C35_truncate_write_refuted.

(* non-vacuity, positive side: the renameio history is accepted and is a real history of a state *)
Example C35_renameio_trace_accepted : atomic_replace_ok ex_target 493 ex_new ex_good = true.
Proof. exact ex_good_accepted. Qed.
Print Assumptions C35_renameio_trace_accepted.
