(* Props/C22.v — C22 "Field splitting and quote removal match bash": property theorems only.
   Model: Expand/Fields.v (wordFields of the repaired code, fix: 3616507).
   Scope of the main theorem (in_scope): no empty unquoted literal (the parser never
   yields one; brace expansion {,a} can, and there the Go code produces an extra
   empty field: C22_empty_literal_refuted).  Everything else is covered. *)
From Verif Require Import Base.Str Expand.Fields Proofs.FieldsProofs.

(* the full statement, for every IFS (unset, empty, white space, other, mixed,
   multi-byte: characters are code points) and every word in scope *)
Theorem C22_fields_match_posix : forall oifs ps, in_scope ps = true ->
  word_fields oifs ps = spec_fields oifs ps.
Proof. exact word_fields_spec_full. Qed.
Print Assumptions C22_fields_match_posix.

(* forall oifs ps, word_fields oifs ps = spec_fields oifs ps   does not hold: *)
Theorem C22_empty_literal_refuted : exists oifs ps, word_fields oifs ps <> spec_fields oifs ps.
Proof. exact empty_literal_refuted. Qed.
Print Assumptions C22_empty_literal_refuted.

(* one unquoted expansion = the text-book POSIX 2.6.5 splitter, every IFS, every value *)
Theorem C22_split_matches : forall oifs v,
  word_fields oifs [PExp v] = posix_split (cfg_ifs oifs) v.
Proof. exact split_matches. Qed.
Print Assumptions C22_split_matches.

Theorem C22_empty_ifs_no_split : forall v,
  word_fields (Some []) [PExp v] = match v with [] => [] | _ => [v] end.
Proof. exact empty_ifs_no_split. Qed.
Print Assumptions C22_empty_ifs_no_split.

(* quote removal: a word without unquoted expansions is one field, its text *)
Theorem C22_quote_removal : forall oifs ps,
  ps <> [] -> word_ok oifs ps = true -> forallb no_split_part ps = true ->
  word_fields oifs ps = [concat (map (part_text (cfg_ifs oifs)) ps)].
Proof. exact quote_removal. Qed.
Print Assumptions C22_quote_removal.

(* "$@": one field per parameter (empty ones kept, none for none); "$*": one field
   joined by the first character of IFS; pre"$@"post glues the ends *)
Theorem C22_at_star : forall oifs es,
  word_fields oifs [PAt es] = es /\
  word_fields oifs [PStar es] = [join (ifs_sep (cfg_ifs oifs)) es].
Proof. intros. split; [exact (quoted_at_fields oifs es)|exact (quoted_star_field oifs es)]. Qed.
Print Assumptions C22_at_star.

Theorem C22_at_affixes : forall oifs pre post e es last,
  pre <> [] -> post <> [] ->
  word_fields oifs [PLit pre; PAt (e :: es ++ [last]); PLit post] = (pre ++ e) :: es ++ [last ++ post].
Proof. exact quoted_at_affixes. Qed.
Print Assumptions C22_at_affixes.

(* "a$@b": a list expansion next to other text inside one pair of double quotes *)
Theorem C22_at_siblings : forall oifs a b e es last,
  word_fields oifs [PDblMix [DVal a; DList (e :: es ++ [last]); DVal b]] = (a ++ e) :: es ++ [last ++ b].
Proof. exact quoted_at_siblings. Qed.
Print Assumptions C22_at_siblings.

(* one expand.Config (one Runner) used for a sequence of expansions while IFS changes in between
   (set, unset, emptied): every call splits by the IFS of its own environment, whatever
   value an earlier call left in the Config; with C22_fields_match_posix each is POSIX *)
Theorem C22_config_reuse : forall calls prev,
  fields_seq prev calls = map (fun c => word_fields (fst c) (snd c)) calls.
Proof. exact fields_seq_independent. Qed.
Print Assumptions C22_config_reuse.

(* non-vacuity: IFS=:  and the word  $x  with x='a::b:'  gives a '' b ; pre$x"q"$y with
   IFS=" :" *)
Open Scope N_scope.
Example C22_ex_adjacent : word_fields (Some [58]) [PExp [97;58;58;98;58]] = [[97];[];[98]].
Proof. vm_compute. reflexivity. Qed.
Example C22_ex_leading : word_fields (Some [58]) [PExp [58;97]] = [[];[97]].
Proof. vm_compute. reflexivity. Qed.
Example C22_ex_mixed :
  word_ok (Some [32;58]) [PLit [112]; PExp [32;58;97;32;58;32;98]; PDbl []; PExp [32;99;58]] = true /\
  word_fields (Some [32;58]) [PLit [112]; PExp [32;58;97;32;58;32;98]; PDbl []; PExp [32;99;58]]
    = [[112];[97];[98];[99]].
Proof. vm_compute. split; reflexivity. Qed.
Example C22_ex_empty_ifs_list : (* IFS=; set -- "a b" "" c; $@ *)
  in_scope [PUList [[97;32;98];[];[99]]] = true /\
  word_fields (Some []) [PUList [[97;32;98];[];[99]]] = [[97;32;98];[99]].
Proof. vm_compute. split; reflexivity. Qed.
Example C22_ex_dbl_vanishes : (* set --; x=; "$x$@" is no field, "$x" is one *)
  word_fields None [PDblMix [DVal []; DList []]] = [] /\ word_fields None [PDblMix [DVal []]] = [[]].
Proof. vm_compute. split; reflexivity. Qed.
Example C22_ex_seq : (* IFS=:; p $a; unset IFS; p $a   with a='x:y z' *)
  fields_seq [] [(Some [58], [PExp [120;58;121;32;122]]); (None, [PExp [120;58;121;32;122]])]
  = [[[120];[121;32;122]]; [[120;58;121];[122]]].
Proof. vm_compute. reflexivity. Qed.
Example C22_ex_unset_ifs : word_fields None [PExp [32;97;9;10;98;32]] = [[97];[98]].
Proof. vm_compute. reflexivity. Qed.
