(* Props/C10.v — property theorems only (model: Syntax/CoreGrammar.v, core token fragment). *)
From Verif Require Import Base.Str Syntax.CoreGrammar Proofs.CoreGrammarProofs.

(* posErr's Incomplete flag = input exhausted inside an open statement *)
Theorem C10_posErr_incomplete_iff_eof_in_open_stmt : forall (A : Type) o cur c p,
  incomplete (@perr A o cur c p) = true <-> cur = [] /\ 0 < o.
Proof. exact perr_incomplete_iff. Qed.
Print Assumptions C10_posErr_incomplete_iff_eof_in_open_stmt.

(* Every parsing function of the model, entered with the input exhausted inside an open statement
   (openNodes = S o), returns success with nothing left, or an error marked Incomplete (never a plain
   error); for any fuel, both variants. [eof_ok e x] = x is POk v with e v, or PErr _ _ true, or PFuel. *)
Theorem C10_eof_errors_incomplete : forall px fuel,
  (forall o q stops ge any, eof_ok end_lb (stmts px fuel o q stops ge any [])) /\
  (forall o q re bc, eof_ok (end_ob []) (get_stmt px fuel (S o) q re bc [])) /\
  (forall o q re bc, eof_ok (end_ob []) (and_or px fuel (S o) q re bc [])) /\
  (forall o q ng bc sp, eof_ok (end_o []) (stmt_pipe px fuel (S o) q ng bc sp [])) /\
  (forall o q bc, eof_ok (end_o []) (pipe_loop px fuel (S o) q bc [])) /\
  (forall o q lpos stops, eof_ok end_l (follow_stmts px fuel (S o) q lpos stops [])) /\
  (forall o q t, eof_ok end_l (block px fuel (S o) q [t])) /\
  (forall o t, eof_ok end_l (subshell px fuel (S o) [t])) /\
  (forall o q t, eof_ok end_l (if_clause px fuel (S o) q [t])) /\
  (forall o q ipos, eof_ok end_l (elif_loop px fuel (S o) q ipos [])) /\
  (forall o q t, eof_ok end_l (while_clause px fuel (S o) q [t])) /\
  (forall o q t, eof_ok end_l (for_clause px fuel (S o) q [t])) /\
  (forall o q t, eof_ok end_l (case_clause px fuel (S o) q [t])) /\
  (forall o prev, eof_ok end_l (case_items px fuel (S o) prev [])) /\
  (forall o q npos, eof_ok end_l (func_decl px fuel (S o) q npos [])).
Proof. exact eof_all. Qed.
Print Assumptions C10_eof_errors_incomplete.
