(* Props/C10.v — property theorems only (model: Syntax/CoreGrammar.v, core token fragment). *)
From Verif Require Import Base.Str Syntax.CoreGrammar Proofs.CoreGrammarProofs Proofs.CoreGrammarPrefixBounded Proofs.CoreGrammarFuel.

(* posErr's Incomplete flag = input exhausted inside an open statement *)
Theorem C10_posErr_incomplete_iff_eof_in_open_stmt : forall (A : Type) o cur c p,
  incomplete (@perr A o cur c p) = true <-> cur = [] /\ 0 < o.
Proof. exact perr_incomplete_iff. Qed.
Print Assumptions C10_posErr_incomplete_iff_eof_in_open_stmt.

(* Every parsing function of the model, entered with the input exhausted inside an open statement
   (openNodes = S o), returns success with nothing left, or an error marked Incomplete (never a plain
   error); for any fuel, both variants. [eof_ok e x] = x is POk v with e v, or PErr _ _ true, or PFuel. *)
Theorem C10_eof_errors_incomplete : forall px fuel,
  (forall o q stops ge any, eof_ok end_lb (stmts px fuel o q stops ge any [])) /\
  (forall o q re bc, eof_ok (end_ob []) (get_stmt px fuel (S o) q re bc [])) /\
  (forall o q re bc, eof_ok (end_ob []) (and_or px fuel (S o) q re bc [])) /\
  (forall o q ng bc sp, eof_ok (end_o []) (stmt_pipe px fuel (S o) q ng bc sp [])) /\
  (forall o q bc, eof_ok (end_o []) (pipe_loop px fuel (S o) q bc [])) /\
  (forall o q lpos stops, eof_ok end_l (follow_stmts px fuel (S o) q lpos stops [])) /\
  (forall o q t, eof_ok end_l (block px fuel (S o) q [t])) /\
  (forall o t, eof_ok end_l (subshell px fuel (S o) [t])) /\
  (forall o q t, eof_ok end_l (if_clause px fuel (S o) q [t])) /\
  (forall o q ipos, eof_ok end_l (elif_loop px fuel (S o) q ipos [])) /\
  (forall o q t, eof_ok end_l (while_clause px fuel (S o) q [t])) /\
  (forall o q t, eof_ok end_l (for_clause px fuel (S o) q [t])) /\
  (forall o q t, eof_ok end_l (case_clause px fuel (S o) q [t])) /\
  (forall o prev, eof_ok end_l (case_items px fuel (S o) prev [])) /\
  (forall o q npos, eof_ok end_l (func_decl px fuel (S o) q npos [])).
Proof. exact eof_all. Qed.
Print Assumptions C10_eof_errors_incomplete.

(* ---- fuel ----
   The model uses explicit fuel (12 * length + 16 for parse_core).  It never runs out, and a larger fuel gives the
   same result (fuel monotonicity for all 15 functions: mono_all; sufficiency with per-function bounds: suf_all,
   using the length invariant inv_all). *)
Theorem C10_parse_core_never_out_of_fuel : forall px ts, parse_core px ts <> PFuel.
Proof. exact parse_core_no_fuel. Qed.
Print Assumptions C10_parse_core_never_out_of_fuel.

Theorem C10_parse_core_fuel_irrelevant : forall px ts f, fuel_for (norm ts) <= f ->
  stmts px f 0 QNone [] true false (norm ts) = parse_core px ts.
Proof. exact parse_core_fuel_irrelevant. Qed.
Print Assumptions C10_parse_core_fuel_irrelevant.

(* ---- prefix clause on the model ----
   C10_prefix_monotone_parse_core: for ALL token lists q, r and both variants: if parse_core accepts q ++ r then on
   the prefix q (cut at ANY token boundary, hence at every newline token) it succeeds or fails with an error marked
   Incomplete.  (Mutual induction over the 15 parsing functions: lockstep until q is used up, then
   C10_eof_errors_incomplete; fuel handled by the two theorems above; the lexer's merging of newline runs commutes
   with taking a prefix: norm_app_exists.)  C10_prefix_monotone is the underlying statement for an explicit fuel. *)
Theorem C10_prefix_monotone_parse_core : forall px q r,
  accepted (parse_core px (q ++ r)) = true ->
  accepted (parse_core px q) = true \/ incomplete (parse_core px q) = true.
Proof. exact prefix_parse_core. Qed.
Print Assumptions C10_prefix_monotone_parse_core.

Theorem C10_prefix_monotone : forall px fuel q r,
  accepted (stmts px fuel 0 QNone [] true false (q ++ r)) = true ->
  let res := stmts px fuel 0 QNone [] true false q in
  accepted res = true \/ incomplete res = true \/ out_of_fuel res = true.
Proof. exact prefix_ok_or_incomplete. Qed.
Print Assumptions C10_prefix_monotone.

Theorem C10_prefix_monotone_simple_command_partial : forall r px fuel o q first ts,
  pre_g end_l (lock_l r) (call_loop px fuel (S o) q first (ts ++ r)) (call_loop px fuel (S o) q first ts).
Proof. exact pre_call_loop. Qed.
Print Assumptions C10_prefix_monotone_simple_command_partial.

Theorem C10_prefix_monotone_stmts_step_partial : forall r px f,
  (forall o q re bc ts, pre_g (end_ob ts) (lock_ob r) (get_stmt px f (S o) q re bc (ts ++ r)) (get_stmt px f (S o) q re bc ts)) ->
  (forall o q stops ge any ts, pre_g end_lb (lock_lb r) (stmts px f o q stops ge any (ts ++ r)) (stmts px f o q stops ge any ts)) ->
  forall o q stops ge any ts,
    pre_g end_lb (lock_lb r) (stmts px (S f) o q stops ge any (ts ++ r)) (stmts px (S f) o q stops ge any ts).
Proof. exact pre_stmts_step. Qed.
Print Assumptions C10_prefix_monotone_stmts_step_partial.

Theorem C10_prefix_ok_or_incomplete_upto4_partial : forall posix ts, length ts <= 4 ->
  accepted (parse_core posix ts) = true ->
  forall k, k <= length ts ->
    accepted (parse_core posix (firstn k ts)) = true \/ incomplete (parse_core posix (firstn k ts)) = true.
Proof. exact prefix4. Qed.
Print Assumptions C10_prefix_ok_or_incomplete_upto4_partial.

(* ---- position clause on the model ----
   C10_error_pos_inside: for ALL token lists, the position of every error (counted as the number of tokens that
   remained when the token it points at was current) is at most the number of tokens of the (newline-merged) input,
   i.e. the error points inside the input.  (Invariant inv_all over the 15 functions: rests never grow, positions
   passed down and reported are bounded.)  The exhaustive version below additionally gives 1 <= p. *)
Theorem C10_error_pos_inside : forall px ts c p i, parse_core px ts = PErr c p i -> p <= length (norm ts).
Proof. exact error_pos_inside. Qed.
Print Assumptions C10_error_pos_inside.

Theorem C10_error_pos_inside_upto4_partial : forall posix ts c p i, length ts <= 4 ->
  parse_core posix ts = PErr c p i -> 1 <= p <= length (norm ts).
Proof. exact pos4. Qed.
Print Assumptions C10_error_pos_inside_upto4_partial.

Example C10_prefix_nonvacuous :
  accepted (parse_core false [TIf; TName; TNewl; TThen; TName; TNewl; TFi]) = true /\
  incomplete (parse_core false [TIf; TName; TNewl]) = true /\
  incomplete (parse_core false [TIf; TName; TNewl; TThen; TName; TNewl]) = true.
Proof. exact prefix_nonvacuous. Qed.
Print Assumptions C10_prefix_nonvacuous.
