(* Props/C10.v — property theorems only (model: Syntax/CoreGrammar.v, core token fragment). *)
From Verif Require Import Base.Str Syntax.CoreGrammar Proofs.CoreGrammarProofs.

Theorem C10_posErr_incomplete_iff_eof_in_open_stmt : forall (A : Type) o cur c p,
  incomplete (@perr A o cur c p) = true <-> cur = [] /\ 0 < o.
Proof. exact perr_incomplete_iff. Qed.
Print Assumptions C10_posErr_incomplete_iff_eof_in_open_stmt.
