(* Props/C10.v — property theorems only (model: Syntax/CoreGrammar.v, core token fragment). *)
From Verif Require Import Base.Str Syntax.CoreGrammar Proofs.CoreGrammarProofs Proofs.CoreGrammarPrefixBounded.

(* posErr's Incomplete flag = input exhausted inside an open statement *)
Theorem C10_posErr_incomplete_iff_eof_in_open_stmt : forall (A : Type) o cur c p,
  incomplete (@perr A o cur c p) = true <-> cur = [] /\ 0 < o.
Proof. exact perr_incomplete_iff. Qed.
Print Assumptions C10_posErr_incomplete_iff_eof_in_open_stmt.

(* Every parsing function of the model, entered with the input exhausted inside an open statement
   (openNodes = S o), returns success with nothing left, or an error marked Incomplete (never a plain
   error); for any fuel, both variants. [eof_ok e x] = x is POk v with e v, or PErr _ _ true, or PFuel. *)
Theorem C10_eof_errors_incomplete : forall px fuel,
  (forall o q stops ge any, eof_ok end_lb (stmts px fuel o q stops ge any [])) /\
  (forall o q re bc, eof_ok (end_ob []) (get_stmt px fuel (S o) q re bc [])) /\
  (forall o q re bc, eof_ok (end_ob []) (and_or px fuel (S o) q re bc [])) /\
  (forall o q ng bc sp, eof_ok (end_o []) (stmt_pipe px fuel (S o) q ng bc sp [])) /\
  (forall o q bc, eof_ok (end_o []) (pipe_loop px fuel (S o) q bc [])) /\
  (forall o q lpos stops, eof_ok end_l (follow_stmts px fuel (S o) q lpos stops [])) /\
  (forall o q t, eof_ok end_l (block px fuel (S o) q [t])) /\
  (forall o t, eof_ok end_l (subshell px fuel (S o) [t])) /\
  (forall o q t, eof_ok end_l (if_clause px fuel (S o) q [t])) /\
  (forall o q ipos, eof_ok end_l (elif_loop px fuel (S o) q ipos [])) /\
  (forall o q t, eof_ok end_l (while_clause px fuel (S o) q [t])) /\
  (forall o q t, eof_ok end_l (for_clause px fuel (S o) q [t])) /\
  (forall o q t, eof_ok end_l (case_clause px fuel (S o) q [t])) /\
  (forall o prev, eof_ok end_l (case_items px fuel (S o) prev [])) /\
  (forall o q npos, eof_ok end_l (func_decl px fuel (S o) q npos [])).
Proof. exact eof_all. Qed.
Print Assumptions C10_eof_errors_incomplete.

(* ---- prefix clause on the model ----
   C10_prefix_monotone: for ALL token lists q, r, both variants and every fuel: if the parser accepts q ++ r then on
   the prefix q (cut at ANY token boundary, hence at every newline token) it succeeds, or fails with an error marked
   Incomplete, or runs out of fuel.  Proved by a mutual induction over the 15 parsing functions (lockstep until q is
   used up, then C10_eof_errors_incomplete).  PARTIAL in one respect only: the out-of-fuel alternative is not
   excluded (no fuel-monotonicity lemma), so the statement is about [stmts px fuel] with the same fuel on both
   inputs rather than about parse_core's own fuel_for; the code leg never observes PFuel (it would be a mismatch).
   Also proved: the same statement for parse_core itself on every token list of length <= 4 (exhaustive), and the
   lemma for the simple-command loop / the stmts step as separate theorems. *)
Theorem C10_prefix_monotone : forall px fuel q r,
  accepted (stmts px fuel 0 QNone [] true false (q ++ r)) = true ->
  let res := stmts px fuel 0 QNone [] true false q in
  accepted res = true \/ incomplete res = true \/ out_of_fuel res = true.
Proof. exact prefix_ok_or_incomplete. Qed.
Print Assumptions C10_prefix_monotone.

Theorem C10_prefix_monotone_simple_command_partial : forall r px fuel o q first ts,
  pre_g end_l (lock_l r) (call_loop px fuel (S o) q first (ts ++ r)) (call_loop px fuel (S o) q first ts).
Proof. exact pre_call_loop. Qed.
Print Assumptions C10_prefix_monotone_simple_command_partial.

Theorem C10_prefix_monotone_stmts_step_partial : forall r px f,
  (forall o q re bc ts, pre_g (end_ob ts) (lock_ob r) (get_stmt px f (S o) q re bc (ts ++ r)) (get_stmt px f (S o) q re bc ts)) ->
  (forall o q stops ge any ts, pre_g end_lb (lock_lb r) (stmts px f o q stops ge any (ts ++ r)) (stmts px f o q stops ge any ts)) ->
  forall o q stops ge any ts,
    pre_g end_lb (lock_lb r) (stmts px (S f) o q stops ge any (ts ++ r)) (stmts px (S f) o q stops ge any ts).
Proof. exact pre_stmts_step. Qed.
Print Assumptions C10_prefix_monotone_stmts_step_partial.

Theorem C10_prefix_ok_or_incomplete_upto4_partial : forall posix ts, length ts <= 4 ->
  accepted (parse_core posix ts) = true ->
  forall k, k <= length ts ->
    accepted (parse_core posix (firstn k ts)) = true \/ incomplete (parse_core posix (firstn k ts)) = true.
Proof. exact prefix4. Qed.
Print Assumptions C10_prefix_ok_or_incomplete_upto4_partial.

(* ---- position clause on the model ----
   Full statement aimed at (NOT proved for unbounded length): forall posix ts c p i,
     parse_core posix ts = PErr c p i -> 1 <= p <= length (norm ts).  Proved exhaustively up to length 4. *)
Theorem C10_error_pos_inside_upto4_partial : forall posix ts c p i, length ts <= 4 ->
  parse_core posix ts = PErr c p i -> 1 <= p <= length (norm ts).
Proof. exact pos4. Qed.
Print Assumptions C10_error_pos_inside_upto4_partial.

Example C10_prefix_nonvacuous :
  accepted (parse_core false [TIf; TName; TNewl; TThen; TName; TNewl; TFi]) = true /\
  incomplete (parse_core false [TIf; TName; TNewl]) = true /\
  incomplete (parse_core false [TIf; TName; TNewl; TThen; TName; TNewl]) = true.
Proof. exact prefix_nonvacuous. Qed.
Print Assumptions C10_prefix_nonvacuous.
