(* Props/C15.v — property theorems only.
   Model: Syntax/TypedJson.v (typedjson encodeValue/decodeValue over generic values and a JSON AST).
   Gen/Schema.v (reflection) and Gen/Operators.v (operator strings, UnmarshalText tables, typedjson's
   type names; dumped from the running code) are regenerated on every run. *)
From Verif Require Import Base.Str Syntax.Schema Syntax.TypedJson Gen.Schema Gen.Operators
  Proofs.TypedJsonProofs Proofs.TypedJsonTableOk.

(* Every defined constant of every operator type (constants read from the source, String() and
   UnmarshalText run in the harness) survives String -> UnmarshalText. Finite, by computation. *)
Theorem C15_ops_roundtrip :
  forall uid consts n s, In (uid, consts) (ops_str gen_tables) -> In (n, s) consts ->
  op_unmarshal gen_tables uid s = Some n.
Proof.
  intros uid consts n s H1 H2. pose proof gen_ops_roundtrip as H. unfold ops_roundtrip in H.
  rewrite forallb_forall in H. specialize (H _ H1). cbn [fst snd] in H.
  rewrite forallb_forall in H. specialize (H _ H2). cbn [fst snd] in H.
  destruct (op_unmarshal gen_tables uid s); [|discriminate]. apply N.eqb_eq in H. congruence.
Qed.
Print Assumptions C15_ops_roundtrip.

(* What the round-trip proof needs from the running code's schema and tables (finite, re-checked each run):
   field names distinct and never Type/Pos/End, no struct-valued fields besides Pos, every node struct is in
   typedjson's nodeByName under its own name, interface implementers are nodes, Stringer <-> TextUnmarshaler,
   operator tables round-trip. *)
Theorem C15_schema_ok : schema_json_ok gen_schema gen_tables = true.
Proof. exact gen_schema_json_ok. Qed.
Print Assumptions C15_schema_ok.

(* Round trip, for ANY schema and tables with schema_json_ok and any well-typed tree whose Encode
   succeeds: Decode of the encoding is the tree with (a) positions that encodePos leaves out - recovered
   positions (and the zero position, and the unconstructible offsets above the maximum) - unset,
   (b) empty slices nil [my reading of "equal": a nil and an empty slice hold the same elements],
   (c) the results of the Pos()/End() methods, which are not fields, dropped (erase). *)
Theorem C15_roundtrip :
  forall (sch : schema) (tb : tables), schema_json_ok sch tb = true ->
  forall (u : value) (j : json),
    has_type sch (TIface (node_iface sch)) (VIface (Some u)) = true ->
    encode sch tb (VPtr (Some u)) = Ok j ->
    decode sch tb j = Ok (VIface (Some (erase (canon u)))).
Proof. exact roundtrip_root. Qed.
Print Assumptions C15_roundtrip.

Theorem C15_roundtrip_running_code :
  forall (u : value) (j : json),
    has_type gen_schema (TIface (node_iface gen_schema)) (VIface (Some u)) = true ->
    encode gen_schema gen_tables (VPtr (Some u)) = Ok j ->
    decode gen_schema gen_tables j = Ok (VIface (Some (erase (canon u)))).
Proof. exact (roundtrip_root gen_schema gen_tables gen_schema_json_ok). Qed.
Print Assumptions C15_roundtrip_running_code.

(* canon only touches what the encoding cannot see: the canonical tree has the same JSON.
   Byte-identical re-encoding of the DECODED tree follows if Pos()/End() of the decoded tree equal
   those of the original. The methods are not modelled; the Go-side search compares the bytes on every
   tree. It holds on every tree without recovered positions that was explored and FAILS on trees with
   recovered positions (known finding KF-C15-1: a method comparing offsets with a recovered position
   answers differently once that position is unset; only derived Pos/End members differ). *)
Theorem C15_reencode :
  forall (sch : schema) (tb : tables) (v : value), encode sch tb (canon v) = encode sch tb v.
Proof. exact encode_canon. Qed.
Print Assumptions C15_reencode.

(* Decode never panics: for any schema, tables, destination type and JSON value every reflect
   operation of decodeValue runs under its guard. *)
Theorem C15_decode_total :
  forall (sch : schema) (tb : tables) (j : json), decode sch tb j <> Panic.
Proof. exact decode_no_panic. Qed.
Print Assumptions C15_decode_total.

Theorem C15_decode_value_total :
  forall (sch : schema) (tb : tables) (j : json) (t : ty), dec sch tb t j <> Panic.
Proof. exact dec_no_panic. Qed.
Print Assumptions C15_decode_value_total.

(* Non-vacuity: a schema, tables and a tree (recovered position, empty non-nil slice, nested list,
   interface field) satisfying the hypotheses, whose round trip really changes the tree. *)
Example C15_nonvacuous :
  schema_json_ok MiniJ.sch MiniJ.tb = true /\
  has_type MiniJ.sch (TIface 0) (VIface (Some MiniJ.tree)) = true /\
  exists j, encode MiniJ.sch MiniJ.tb (VPtr (Some MiniJ.tree)) = Ok j /\
            decode MiniJ.sch MiniJ.tb j = Ok (VIface (Some (erase (canon MiniJ.tree)))) /\
            erase (canon MiniJ.tree) <> erase MiniJ.tree.
Proof. split; [exact MiniJ.ok|]. split; [exact MiniJ.typed|]. exact MiniJ.encodes. Qed.
Print Assumptions C15_nonvacuous.
