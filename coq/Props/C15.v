(* Props/C15.v — property theorems only. *)
From Verif Require Import Base.Str Syntax.Schema Syntax.TypedJson Gen.Schema Gen.Operators Proofs.TypedJsonTableOk.

(* Every defined constant of every operator type (constants read from the source, String() and
   UnmarshalText run in the harness) survives String -> UnmarshalText. Finite, by computation. *)
Theorem C15_ops_roundtrip :
  forall uid consts n s, In (uid, consts) (ops_str gen_tables) -> In (n, s) consts ->
  op_unmarshal gen_tables uid s = Some n.
Proof.
  intros uid consts n s H1 H2. pose proof gen_ops_roundtrip as H. unfold ops_roundtrip in H.
  rewrite forallb_forall in H. specialize (H _ H1). cbn [fst snd] in H.
  rewrite forallb_forall in H. specialize (H _ H2). cbn [fst snd] in H.
  destruct (op_unmarshal gen_tables uid s); [|discriminate]. apply N.eqb_eq in H. congruence.
Qed.
Print Assumptions C15_ops_roundtrip.
