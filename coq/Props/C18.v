(* Props/C18.v — property theorems only (on the C17 model: Translate.quote_meta_glob / has_meta,
   GlobSpec.glob_spec = bash's matching rule).
   Full-strength statements:
     C18_quotemeta_matches_only_self : forall flags s t, glob_spec flags (quote_meta s) t = true <-> t = s
     C18_hasmeta_false_single : forall flags p t, has_meta p = false -> glob_spec flags p t = true -> t = unescape p
   Both are REFUTED when the extended operators are on (QuoteMeta/HasMeta ignore them; witnesses below,
   known finding KF-C18-1), and hold without them as proved here. *)
From Verif Require Import Base.Str Pattern.Regex Pattern.Translate Pattern.GlobSpec Pattern.Fragment
  Proofs.TranslateProofs Proofs.MetaProofs Proofs.OpenBracketProofs.

(* QuoteMeta(s) matches s and nothing else: every string without NUL, every candidate t, no extended operators *)
Theorem C18_quotemeta_matches_only_self : forall wc s t, no_nul s ->
  (glob_spec wc f_plain (quote_meta_glob s) t = true <-> t = s).
Proof. exact quotemeta_matches_only_self. Qed.
Print Assumptions C18_quotemeta_matches_only_self.

(* ... and is a pattern without metacharacters (all strings) *)
Theorem C18_quotemeta_no_meta : forall s, has_meta (quote_meta_glob s) = false.
Proof. exact quotemeta_no_meta. Qed.
Print Assumptions C18_quotemeta_no_meta.

(* PARTIAL: HasMeta false => at most one string, p with escapes removed; proved for flat patterns
   (no unescaped '[', no trailing backslash, no NUL).  Missing: patterns with an unclosed '[' (by search only). *)
Theorem C18_hasmeta_false_single_flat_partial : forall wc p t, flat p = true -> has_meta p = false ->
  glob_spec wc f_plain p t = true -> t = unescape p.
Proof. exact hasmeta_false_single_flat. Qed.
Print Assumptions C18_hasmeta_false_single_flat_partial.

Example C18_nonvacuous :
  no_nul [42; 97; 91; 92] /\ quote_meta_glob [42; 97; 91; 92] = [92; 42; 97; 92; 91; 92; 92] /\
  flat [97; 92; 42; 93] = true /\ has_meta [97; 92; 42; 93] = false /\ unescape [97; 92; 42; 93] = [97; 42; 93].
Proof. split; [repeat constructor; discriminate|]. repeat split; reflexivity. Qed.

(* REFUTED with ExtendedOperators: QuoteMeta("@(a)") = "@(a)" still matches "a" *)
Theorem C18_quotemeta_ext_refuted :
  exists s t, t <> s /\ has_meta (quote_meta_glob s) = false /\
              glob_spec no_wide f_extglob (quote_meta_glob s) t = true.
Proof. exact quotemeta_ext_refuted. Qed.
Print Assumptions C18_quotemeta_ext_refuted.

(* REFUTED with ExtendedOperators: HasMeta("@(a|b)") = false but it matches two strings *)
Theorem C18_hasmeta_ext_refuted :
  exists p t1 t2, t1 <> t2 /\ has_meta p = false /\
     glob_spec no_wide f_extglob p t1 = true /\ glob_spec no_wide f_extglob p t2 = true.
Proof. exact hasmeta_ext_refuted. Qed.
Print Assumptions C18_hasmeta_ext_refuted.

(* HasMeta false => at most one string, for EVERY pattern that contains no "]" at all — in particular patterns with
   an open "[" (which bash takes literally or fails on), a trailing backslash, any escapes; no other side condition.
   PARTIAL only in that a HasMeta-false pattern may also contain escaped "\]" after a "[", which is not covered. *)
Theorem C18_hasmeta_false_single_open_bracket_partial : forall wc p t, ~ In 93%N p -> has_meta p = false ->
  glob_spec wc f_plain p t = true -> t = unescape p.
Proof. exact hasmeta_false_single_norbrk. Qed.
Print Assumptions C18_hasmeta_false_single_open_bracket_partial.

Example C18_open_bracket_nonvacuous :
  ~ In 93%N [97; 91; 98; 92; 42] /\ has_meta [97; 91; 98; 92; 42] = false /\
  glob_spec no_wide f_plain [97; 91; 98; 92; 42] [97; 91; 98; 42] = true /\ unescape [97; 91; 98; 92; 42] = [97; 91; 98; 42].
Proof. split; [intros H; simpl in H; repeat destruct H as [H|H]; try discriminate; auto|]. repeat split; vm_compute; reflexivity. Qed.
