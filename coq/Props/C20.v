(* Props/C20.v — property theorems only. *)
From Verif Require Import Base.Str Expand.ArithSyntax Expand.Arith Proofs.ArithProofs.

(* "variables whose values are themselves expressions": refuted on the faithful model
   (known finding arith_var_holds_expression): x='1+2'; $((x)) is 0 in expand.Arithm, 3 in bash. *)
Theorem C20_eval_matches_refuted :
  exists e en, wf e = true /\ no_index e = true /\
    snd (bash_eval e en) = BV 3%Z /\ snd (arithm e en) = Ok 0%Z.
Proof. exact eval_matches_refuted. Qed.
Print Assumptions C20_eval_matches_refuted.
