(* Props/C20.v — property theorems only. *)
From Verif Require Import Base.Str Expand.ArithSyntax Expand.Arith Proofs.ArithSyntaxProofs Proofs.ArithProofs.

(* The parser realises exactly the precedence/associativity table: printing any parser-producible
   tree with the parentheses the table requires (and no others) and parsing the tokens gives the
   tree back; the inserted nodes are only ParenArithm (strip removes them). *)
Theorem C20_parse_print : forall e, wf e = true ->
  parse_tokens (print_min e) = Some (Some (min_paren e), []) /\ strip (min_paren e) = strip e.
Proof. exact parse_print_min. Qed.
Print Assumptions C20_parse_print.

Theorem C20_parse_print_wp : forall e, wp e = true -> parse_tokens (print e) = Some (Some e, []).
Proof. exact parse_print_wp. Qed.
Print Assumptions C20_parse_print_wp.

(* the operator lists the Go chain passes to arithmExprBinary are the left-associative rows of the table *)
Theorem C20_level_table : forall o k, op_in o (level_ops k) = true <->
  (prec o = k /\ is_assign o = false /\ rassoc o = false /\ o <> TernColon).
Proof. exact level_ops_table. Qed.
Print Assumptions C20_level_table.

(* "variables whose values are themselves expressions": refuted on the faithful model
   (known finding arith_var_holds_expression): x='1+2'; $((x)) is 0 in expand.Arithm, 3 in bash.
   Full statement that fails:  forall e en, wf e -> arithm e en = bash_eval e en. *)
Theorem C20_eval_matches_refuted :
  exists e en, wf e = true /\ no_index e = true /\
    snd (bash_eval e en) = BV 3%Z /\ snd (arithm e en) = Ok 0%Z.
Proof. exact eval_matches_refuted. Qed.
Print Assumptions C20_eval_matches_refuted.

(* never panics on any tree the parser can produce *)
Theorem C20_no_panic : forall e en, wf e = true -> snd (arithm e en) <> Panic.
Proof. exact no_panic. Qed.
Print Assumptions C20_no_panic.

(* division / modulo by zero and negative exponents are errors in both *)
Theorem C20_errors_div_zero : forall o x y en en1 en2 l,
  o = Quo \/ o = Rem -> arithm x en = (en1, Ok l) -> arithm y en1 = (en2, Ok 0%Z) ->
  arithm (Bin o x y) en = (en2, Err EDivZero).
Proof. exact div_zero_impl. Qed.
Print Assumptions C20_errors_div_zero.

Theorem C20_errors_div_zero_bash : forall var o x y en en1 en2 l,
  o = Quo \/ o = Rem -> bash_step var x en = (en1, BV l) -> bash_step var y en1 = (en2, BV 0%Z) ->
  bash_step var (Bin o x y) en = (en2, BE EDivZero).
Proof. exact div_zero_spec. Qed.
Print Assumptions C20_errors_div_zero_bash.

Theorem C20_errors_neg_exp : forall x y en en1 en2 l r,
  arithm x en = (en1, Ok l) -> arithm y en1 = (en2, Ok r) -> (r < 0)%Z ->
  arithm (Bin Pow x y) en = (en2, Err ENegExp).
Proof. exact neg_exp_impl. Qed.
Print Assumptions C20_errors_neg_exp.

Theorem C20_errors_neg_exp_bash : forall var x y en en1 en2 l r,
  bash_step var x en = (en1, BV l) -> bash_step var y en1 = (en2, BV r) -> (r < 0)%Z ->
  bash_step var (Bin Pow x y) en = (en2, BE ENegExp).
Proof. exact neg_exp_spec. Qed.
Print Assumptions C20_errors_neg_exp_bash.

Theorem C20_errors_div_zero_assign : forall o name y en en1,
  o = QuoAssgn \/ o = RemAssgn -> arithm y en = (en1, Ok 0%Z) ->
  arithm (Bin o (Word name) y) en = (en1, Err EDivZero).
Proof. exact div_zero_assign_impl. Qed.
Print Assumptions C20_errors_div_zero_assign.

(* C20_eval_matches, PARTIAL: the full statement
     forall e en, wf e -> no_index e -> lits_ok e -> (every value of en is an integer literal) ->
       snd (bash_eval e en) <> BU -> arithm e en = (fst (bash_eval e en), to_res (snd (bash_eval e en)))
   is not proved (missing: atoi = lit_value on the literal grammar, C20_atoi, and the lexer lemma that an
   integer literal parses to itself; both sides are compared by the code and spec legs on every run instead).
   What is proved is the operator layer: wherever bash's result is defined (no signed overflow, shift count
   0..63) every binary operator (incl. `**`: intPow = wrapped power) and every assignment operator of the Go code, with its int64
   wrap-around, gives bash's value or bash's error. *)
Theorem C20_eval_matches_operators_partial : forall o x y,
  bash_bin o x y <> BU -> bin_arit o x y = to_res (bash_bin o x y).
Proof. exact bin_matches_all. Qed.
Print Assumptions C20_eval_matches_operators_partial.

(* intPow (square-and-multiply with wrapping products) is the wrapped mathematical power *)
Theorem C20_int_pow : forall a b, (0 <= b)%Z -> int_pow a b = wrap64 (a ^ b).
Proof. exact int_pow_spec. Qed.
Print Assumptions C20_int_pow.

Theorem C20_eval_matches_assign_partial : forall o v a,
  is_assign o = true -> bash_assgn_op o v a <> BU -> assgn_op o v a = to_res (bash_assgn_op o v a).
Proof. exact assgn_matches. Qed.
Print Assumptions C20_eval_matches_assign_partial.

(* C20_atoi, PARTIAL: proved for decimal constants (non-empty digit string not starting with 0, value < 2^63):
   atoi reads exactly the value of bash's constant grammar [lit_value].  Not proved (legs only: 60 pinned strings and
   all generated literal forms on every run): 0octal, 0xhex, base#digits, optional sign and surrounding blanks,
   and that atoi gives 0 on everything the grammar rejects. *)
Theorem C20_atoi_decimal_partial : forall c r v,
  c <> 48%N -> digits_val dec_digit 10 (c :: r) 0 = Some v -> (v < two63)%Z ->
  atoi (c :: r) = v /\ lit_value (c :: r) = Some v.
Proof. exact atoi_decimal. Qed.
Print Assumptions C20_atoi_decimal_partial.

(* non-vacuity: a tree with every kind of node is well-formed, needs parentheses, and round-trips *)
Example C20_example_roundtrip :
  let e := Bin Mul (Bin Add (Word [49%N]) (Un Inc true (Word [120%N])))
                   (Un Minus false (Bin Pow (Word [50%N]) (Bin TernQuest (Word [121%N]) (Bin TernColon (Word [51%N]) (Bin Assgn (Word [122%N]) (Word [52%N])))))) in
  wf e = true /\ wp e = false /\ parse_tokens (print_min e) = Some (Some (min_paren e), []).
Proof. vm_compute. repeat split. Qed.
