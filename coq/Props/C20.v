(* Props/C20.v — property theorems only. *)
From Verif Require Import Base.Str Expand.ArithSyntax Expand.Arith Proofs.ArithSyntaxProofs Proofs.ArithProofs
  Proofs.ArithAtoiProofs Proofs.ArithEvalProofs.

(* The parser realises exactly the precedence/associativity table: printing any parser-producible
   tree with the parentheses the table requires (and no others) and parsing the tokens gives the
   tree back; the inserted nodes are only ParenArithm (strip removes them). *)
Theorem C20_parse_print : forall e, wf e = true ->
  parse_tokens (print_min e) = Some (Some (min_paren e), []) /\ strip (min_paren e) = strip e.
Proof. exact parse_print_min. Qed.
Print Assumptions C20_parse_print.

Theorem C20_parse_print_wp : forall e, wp e = true -> parse_tokens (print e) = Some (Some e, []).
Proof. exact parse_print_wp. Qed.
Print Assumptions C20_parse_print_wp.

(* the operator lists the Go chain passes to arithmExprBinary are the left-associative rows of the table *)
Theorem C20_level_table : forall o k, op_in o (level_ops k) = true <->
  (prec o = k /\ is_assign o = false /\ rassoc o = false /\ o <> TernColon).
Proof. exact level_ops_table. Qed.
Print Assumptions C20_level_table.

(* "variables whose values are themselves expressions": refuted on the faithful model
   (known finding arith_var_holds_expression): x='1+2'; $((x)) is 0 in expand.Arithm, 3 in bash.
   Full statement that fails:  forall e en, wf e -> arithm e en = bash_eval e en. *)
Theorem C20_eval_matches_refuted :
  exists e en, wf e = true /\ no_index e = true /\
    snd (bash_eval e en) = BV 3%Z /\ snd (arithm e en) = Ok 0%Z.
Proof. exact eval_matches_refuted. Qed.
Print Assumptions C20_eval_matches_refuted.

(* never panics on any tree the parser can produce *)
Theorem C20_no_panic : forall e en, wf e = true -> snd (arithm e en) <> Panic.
Proof. exact no_panic. Qed.
Print Assumptions C20_no_panic.

(* division / modulo by zero and negative exponents are errors in both *)
Theorem C20_errors_div_zero : forall o x y en en1 en2 l,
  o = Quo \/ o = Rem -> arithm x en = (en1, Ok l) -> arithm y en1 = (en2, Ok 0%Z) ->
  arithm (Bin o x y) en = (en2, Err EDivZero).
Proof. exact div_zero_impl. Qed.
Print Assumptions C20_errors_div_zero.

Theorem C20_errors_div_zero_bash : forall var o x y en en1 en2 l,
  o = Quo \/ o = Rem -> bash_step var x en = (en1, BV l) -> bash_step var y en1 = (en2, BV 0%Z) ->
  bash_step var (Bin o x y) en = (en2, BE EDivZero).
Proof. exact div_zero_spec. Qed.
Print Assumptions C20_errors_div_zero_bash.

Theorem C20_errors_neg_exp : forall x y en en1 en2 l r,
  arithm x en = (en1, Ok l) -> arithm y en1 = (en2, Ok r) -> (r < 0)%Z ->
  arithm (Bin Pow x y) en = (en2, Err ENegExp).
Proof. exact neg_exp_impl. Qed.
Print Assumptions C20_errors_neg_exp.

Theorem C20_errors_neg_exp_bash : forall var x y en en1 en2 l r,
  bash_step var x en = (en1, BV l) -> bash_step var y en1 = (en2, BV r) -> (r < 0)%Z ->
  bash_step var (Bin Pow x y) en = (en2, BE ENegExp).
Proof. exact neg_exp_spec. Qed.
Print Assumptions C20_errors_neg_exp_bash.

Theorem C20_errors_div_zero_assign : forall o name y en en1,
  o = QuoAssgn \/ o = RemAssgn -> arithm y en = (en1, Ok 0%Z) ->
  arithm (Bin o (Word name) y) en = (en1, Err EDivZero).
Proof. exact div_zero_assign_impl. Qed.
Print Assumptions C20_errors_div_zero_assign.

(* C20_eval_matches: inside the scope, expand.Arithm (model [arithm]) gives bash's value, bash's final
   environment and bash's error (to_res maps BV z to Ok z and BE c to Err c).
   in_scope e en  =  wf e                 the tree is parser-producible
                  && no_index e           no a[i] (not in the Coq evaluator)
                  && lits_ok e            every constant is valid and below 2^63   (excludes arith_invalid_literal_is_zero)
                  && env_lits_b en        every variable is empty or  blanks sign? constant blanks
                                          (excludes arith_var_holds_expression)
                  && bash's result is defined: no signed overflow, shift counts 0..63 (not BU).
   All five are decidable (booleans). *)
Theorem C20_eval_matches : forall e en, in_scope e en = true ->
  arithm e en = (fst (bash_eval e en), to_res (snd (bash_eval e en))).
Proof. exact eval_matches. Qed.
Print Assumptions C20_eval_matches.

(* the same for any recursion depth >= 1, with the declarative scope kept as an invariant: after the
   evaluation every variable is again a text that both sides read alike *)
Theorem C20_eval_matches_invariant : forall d e en en' r,
  wf e = true -> no_index e = true -> lits_ok e = true -> Inv en ->
  bash_arith (S d) e en = (en', r) -> r <> BU -> arithm e en = (en', to_res r) /\ Inv en'.
Proof. exact eval_matches_inv. Qed.
Print Assumptions C20_eval_matches_invariant.

Theorem C20_scope_decidable_sound : forall en, env_lits_b en = true -> Inv en.
Proof. exact Inv_of_lits_b. Qed.
Print Assumptions C20_scope_decidable_sound.

Example C20_in_scope_example :
  in_scope (Bin Comma (Bin AddAssgn (Word [120%N]) (Bin Mul (Word [121%N]) (Word [48%N;120%N;49%N;48%N])))
                      (Bin TernQuest (Bin Gtr (Word [120%N]) (Word [53%N]))
                         (Bin TernColon (Un Inc true (Word [121%N])) (Bin Quo (Word [49%N]) (Word [48%N])))))
           [([120%N], [32%N;45%N;51%N]); ([121%N], [49%N;54%N;35%N;102%N;102%N])] = true.
Proof. exact in_scope_example. Qed.

(* the operator layer used by it: wherever bash's result is defined every binary operator (incl. `**`) and
   every assignment operator of the Go code, with its int64 wrap-around, gives bash's value or error *)
Theorem C20_operators_match : forall o x y,
  bash_bin o x y <> BU -> bin_arit o x y = to_res (bash_bin o x y).
Proof. exact bin_matches_all. Qed.
Print Assumptions C20_operators_match.

Theorem C20_int_pow : forall a b, (0 <= b)%Z -> int_pow a b = wrap64 (a ^ b).
Proof. exact int_pow_spec. Qed.
Print Assumptions C20_int_pow.

Theorem C20_assign_operators_match : forall o v a,
  is_assign o = true -> bash_assgn_op o v a <> BU -> assgn_op o v a = to_res (bash_assgn_op o v a).
Proof. exact assgn_matches. Qed.
Print Assumptions C20_assign_operators_match.

(* C20_atoi: atoi (TrimSpace, sign, 0x/0X, leading 0, base#digits through strconv.ParseInt(_,10,8),
   strconv.ParseInt / atoiLargeBase) reads exactly the value of the declarative grammar: blanks, optional sign,
   then a constant of [lit_value] = decimal | 0 octal | 0x hex | base#digits with base 2..64 and bash's digit
   alphabet (0-9 a-z A-Z @ _ ; letters of either case below base 37); values below 2^63. *)
Theorem C20_atoi : forall v sg w n,
  int_text v sg w -> lit_value w = Some n -> (n < two63)%Z -> atoi v = sign_val sg n.
Proof. exact atoi_int_text. Qed.
Print Assumptions C20_atoi.

(* FormatInt output (what an arithmetic assignment stores) is again such a text, for every int64 *)
Theorem C20_atoi_format : forall n, (0 <= n)%Z -> lit_value (fmt_nat n) = Some n.
Proof. exact lit_fmt_nat. Qed.
Print Assumptions C20_atoi_format.

(* non-vacuity: a tree with every kind of node is well-formed, needs parentheses, and round-trips *)
Example C20_example_roundtrip :
  let e := Bin Mul (Bin Add (Word [49%N]) (Un Inc true (Word [120%N])))
                   (Un Minus false (Bin Pow (Word [50%N]) (Bin TernQuest (Word [121%N]) (Bin TernColon (Word [51%N]) (Bin Assgn (Word [122%N]) (Word [52%N])))))) in
  wf e = true /\ wp e = false /\ parse_tokens (print_min e) = Some (Some (min_paren e), []).
Proof. vm_compute. repeat split. Qed.
