# bash oracle for C17/C18. usage: bash oracle.sh <cfg> <infile>
# infile: pairs of lines: pattern, then the non-empty test strings separated by the unit separator (0x1f).
# Pattern and strings only ever live in variables (never in script text). Output: one line of 0/1 per pattern,
# first bit = the empty string.
cfg=$1
case $cfg in
dbl) shopt -s extglob ;;
case_ext) shopt -s extglob ;;
case_noext) shopt -u extglob ;;
fold) shopt -s extglob nocasematch ;;
case_fold) shopt -s extglob nocasematch ;;
quoted) shopt -s extglob ;;
esac
while IFS= read -r p && IFS=$'\x1f' read -r -a strs; do
	out=
	case $cfg in
	dbl | fold)
		if [[ '' == $p ]]; then out+=1; else out+=0; fi
		for s in "${strs[@]}"; do
			if [[ $s == $p ]]; then out+=1; else out+=0; fi
		done
		;;
	quoted)
		# the pattern is the quoted expansion: must match only itself
		case '' in "$p") out+=1 ;; *) out+=0 ;; esac
		for s in "${strs[@]}"; do
			case $s in "$p") out+=1 ;; *) out+=0 ;; esac
		done
		;;
	*)
		case '' in $p) out+=1 ;; *) out+=0 ;; esac
		for s in "${strs[@]}"; do
			case $s in $p) out+=1 ;; *) out+=0 ;; esac
		done
		;;
	esac
	printf '%s\n' "$out"
done <"$2"
