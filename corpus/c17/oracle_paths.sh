# bash oracle for the Filenames star-run law. usage: bash oracle_paths.sh <infile> ; cwd = an empty scratch directory.
# Builds a tree of directories named a .a b ab three levels deep, then for every pair of lines (pattern with a run
# of >= 3 stars, the same pattern with the runs collapsed to one star) prints 1 if pathname expansion with
# `shopt -s globstar` yields the same list for both, else 0 followed by the two lists.  Patterns only live in variables.
shopt -s globstar nullglob
for x in a .a b ab; do for y in a .a b ab; do mkdir -p "$x/$y/a" "$x/$y/.a" "$x/$y/b"; done; done
IFS=
while read -r p && read -r q; do
	e1=($p)
	e2=($q)
	if [[ "${e1[*]}" == "${e2[*]}" ]]; then echo 1; else echo "0 ${e1[*]} | ${e2[*]}"; fi
done <"$1"
