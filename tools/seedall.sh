#!/bin/bash
# Re-run every seeded change against the current /repo HEAD and the current checks (4 in parallel).
# usage: tools/seedall.sh [pattern]   -> writes seeded/<dir>/detect.log, updates meta.json, prints a summary
cd /verif
pat=${1:-}
ls -d seeded/*${pat}*/ | sed 's|/$||' | xargs -P ${SEEDALL_JOBS:-4} -I{} sh -c '
  d={}; ids=$(python3 -c "import json;j=json.load(open(\"$d/meta.json\"));print(\" \".join(sorted(set([j[\"property\"]]+[c.split(\":\")[0] for c in j.get(\"checks_run\",[])]))))");
  tools/seedtest.sh $d $ids > $d/detect.log 2>&1; echo "$d rc=$?"'
tools/seedmeta.py seeded/*${pat}*/ | sort
