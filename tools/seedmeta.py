#!/usr/bin/env python3
"""tools/seedmeta.py seeded/<ID>-k ... : (re)write meta.json from README.md, confirm.log and detect.log"""
import json, os, re, sys
for d in sys.argv[1:]:
    d = d.rstrip("/")
    pid = re.match(r"C\d+", os.path.basename(d)).group(0)
    readme = open(os.path.join(d, "README.md")).read() if os.path.exists(os.path.join(d, "README.md")) else ""
    conf = open(os.path.join(d, "confirm.log")).read() if os.path.exists(os.path.join(d, "confirm.log")) else ""
    det = open(os.path.join(d, "detect.log")).read() if os.path.exists(os.path.join(d, "detect.log")) else ""
    old = {}
    try:
        old = json.load(open(os.path.join(d, "meta.json")))
    except Exception:
        pass
    if old.get("obsolete"):
        print(d, "obsolete (kept)", old.get("detected_by")); continue
    viol = re.findall(r"^VIOLATION property=(C\d+)[^\n]*", det, re.M)
    ran = re.findall(r"^(C\d+) (ok|FAIL)", det, re.M)
    paras = [p.strip() for p in readme.split("\n\n") if p.strip()]
    meta = {
        "property": pid,
        "breaks": old.get("breaks", pid),
        "what": old.get("what") or (paras[0][:600] if paras else ""),
        "needs_to_manifest": old.get("needs_to_manifest") or next((p[:600] for p in paras if re.search(r"(?i)condition|trigger|needs|manifest", p)), ""),
        "origin": "fresh sub-agent given only the property text and its own scratch worktree (nothing from /verif)",
        "confirmed_by_me": {
            "cmd": "tools/seedconfirm.sh %s <pkgdir> <pkgs> (scratch worktree: patch applies, builds, listed packages' tests pass modulo sandbox baseline noise, demo passes without / fails with the patch)" % d,
            "demo_without_patch": "pass" if re.search(r"WITHOUT patch:\s*\nok", conf) else ("see confirm.log" if conf else "n/a"),
            "demo_with_patch": "FAIL" if re.search(r"WITH patch:\s*\n(FAIL|---)", conf) else ("see confirm.log" if conf else "n/a"),
        },
        "checks_run": ["%s:%s" % (a, b) for a, b in ran],
        "obsolete": old.get("obsolete", False),
        "detected_by": sorted(set(viol)),
        "detected": bool(viol),
        "detect_cmd": "tools/seedtest.sh %s %s" % (d, " ".join(sorted(set(a for a, _ in ran)))),
    }
    if old.get("note"):
        meta["note"] = old["note"]
    json.dump(meta, open(os.path.join(d, "meta.json"), "w"), indent=1)
    print(d, "detected" if viol else "MISSED", sorted(set(viol)))
