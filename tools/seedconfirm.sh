#!/bin/bash
# usage: tools/seedconfirm.sh <seeded-dir> <demo-dest-dir-relative-to-repo> "<go test packages>"
# Confirms in a scratch worktree: patch applies+compiles, listed packages' tests pass (modulo root-only interp failures
# #1317-#1321 and the flaky TestKillSignal), demo fails with the patch and passes without it.
set -u
d=$(cd "$1" && pwd); dest=$2; pkgs=$3
export GOFLAGS=-mod=mod GOPROXY=off
wt=$(mktemp -d /tmp/seedcf.XXXXXX); rmdir "$wt"
git -C /repo worktree add -q --detach "$wt" HEAD || exit 2
trap 'git -C /repo worktree remove --force "$wt" >/dev/null 2>&1' EXIT
cd "$wt"
demo=$(ls "$d"/demo* | head -1)
if [ "${demo##*.}" = sh ]; then
  mkdir -p out/k && cp "$d"/* out/k/ 2>/dev/null
  run_demo() { if ROOT="$wt" timeout 900 bash out/k/demo.sh > out/k/demo.out 2>&1; then echo "ok demo.sh exit 0"; else echo "FAIL demo.sh exit $? : $(tail -2 out/k/demo.out | tr '\n' ' ' | cut -c1-200)"; fi; }
else
cp "$demo" "$dest/zz_$(basename "$demo")"
run_demo() { go test -count=1 -run 'Demo|Seed' ./"$dest"/ 2>&1 | tail -3; }
fi
echo "--- demo WITHOUT patch:"; run_demo | tail -1
git apply "$d/patch.diff" || { echo "patch does not apply"; exit 2; }
go build $(go list ./... | grep -v /out/) || { echo "does not compile"; exit 2; }
echo "--- demo WITH patch:"; run_demo | tail -1
rm -f "$dest"/zz_demo*
echo "--- suite WITH patch:"
go test -count=1 -p 4 -parallel 4 -skip 'TestParseConfirm|TestKillSignal|TestKillTimeout' $pkgs 2>&1 | grep -E '^(ok|FAIL|---|\s+--- FAIL)' | grep -v -E '#13(17|18|19|20|21)' | head -20
