#!/bin/bash
# usage: tools/seedtest.sh <seeded-dir> [property ids...]
# Applies <seeded-dir>/patch.diff to a scratch worktree of /repo HEAD and runs the given checks
# (default: the property in meta.json) against it via VERIF_REPO. Exit 0 if at least one check reports VIOLATION.
set -u
d=$(cd "$1" && pwd); shift
ids="$*"
[ -n "$ids" ] || ids=$(python3 -c "import json,sys;print(json.load(open('$d/meta.json'))['property'])")
wt=$(mktemp -d /tmp/seedwt.XXXXXX); rmdir "$wt"
git -C /repo worktree add -q --detach "$wt" HEAD || exit 2
trap 'git -C /repo worktree remove --force "$wt" >/dev/null 2>&1; rm -f /verif/build/*-$(python3 -c "import hashlib;print(hashlib.sha1(\"$wt\".encode()).hexdigest()[:8])") /verif/build/go-*.mod /verif/build/go-*.sum' EXIT
if ! git -C "$wt" apply "$d/patch.diff"; then echo "PATCH DOES NOT APPLY: $d"; exit 2; fi
caught=1
cd /verif
for id in $ids; do
  out=$(env VERIF_REPO="$wt" ${TIER:+VERIF_TIER=$TIER} ./check "$id" 2>&1)
  echo "$out" | grep -E "^(VIOLATION|KNOWN-FINDING|C[0-9]+ (ok|FAIL))" | cut -c1-300
  echo "$out" | grep -q "^VIOLATION property=$id" && caught=0
done
# the evidence files were rewritten from a mutated tree: restore the committed ones
git -C /verif checkout -- evidence 2>/dev/null
exit $caught
