#!/bin/bash
# Runs the repository's baseline test command with the verif tag OFF and compares with BASELINE.json stable_pass.
cd /repo
out=/tmp/baseline_$$.json
: > $out
for m in . ./moreinterp; do (cd /repo/$m && GOFLAGS=-mod=mod GOPROXY=off go test -json -vet=off -count=1 -timeout 25m ./... >> $out 2>/dev/null); done
python3 - $out <<'PY'
import json,sys
b=json.load(open('/root/.vp/BASELINE.json')); stable=set(b['stable_pass'])
res={}
for l in open(sys.argv[1]):
    try: e=json.loads(l)
    except ValueError: continue
    if e.get('Action') in ('pass','fail','skip') and e.get('Test'):
        res[e['Package'].replace('mvdan.cc/sh/v3','mvdan.cc/sh')+'::'+e['Test']]=e['Action']
        res[e['Package']+'::'+e['Test']]=e['Action']
bad=[t for t in stable if res.get(t)!='pass']
print('stable_pass:',len(stable),'not passing now:',len(bad))
for t in sorted(bad)[:60]: print('  ',t,res.get(t))
PY
rm -f $out
