#!/bin/bash
# usage: tools/coqbuild.sh [make targets...]   (no targets = everything)
# Regenerates coq/_CoqProject from the file tree, then runs a full .vo make (never -vos).
# Fast path: when the file list is unchanged and make says the targets are up to date, only a SHARED lock is
# taken (concurrent checks do not wait for each other); otherwise an exclusive lock serialises the build.
set -u
cd "$(dirname "$0")/../coq" || exit 2
exec 9>>.buildlock
gen() {
  echo "-Q . Verif"
  echo "-arg -w -arg -deprecated-hint-without-locality,-deprecated-instance-without-locality,-notation-overridden,-ambiguous-paths"
  find . -name '*.v' -not -path './Cases/*' | sed 's|^\./||' | LC_ALL=C sort
}
flock -s 9
new=_CoqProject.new.$$
gen > $new
if cmp -s $new _CoqProject 2>/dev/null && [ -f Makefile ] && [ -f .Makefile.d ] && make -q "$@" >/dev/null 2>&1; then
  rm -f $new; exit 0
fi
flock -u 9
flock 9
gen > $new
if ! cmp -s $new _CoqProject 2>/dev/null; then
  mv $new _CoqProject
  coq_makefile -f _CoqProject -o Makefile >/dev/null || exit 2
else
  rm -f $new
  [ -f Makefile ] || coq_makefile -f _CoqProject -o Makefile >/dev/null || exit 2
fi
timeout "${VERIF_COQ_TIMEOUT:-1500}" make -j"${VERIF_JOBS:-16}" "$@"
