#!/bin/bash
# usage: tools/coqbuild.sh [make targets...]   (no targets = everything)
# Regenerates coq/_CoqProject from the file tree, then runs a full .vo make
# (never -vos) under a lock so concurrent checks do not race on .vo files.
set -u
cd "$(dirname "$0")/../coq" || exit 2
exec 9>.buildlock
flock 9
{
  echo "-Q . Verif"
  echo "-arg -w -arg -deprecated-hint-without-locality,-deprecated-instance-without-locality,-notation-overridden,-ambiguous-paths"
  find . -name '*.v' -not -path './Cases/*' | sed 's|^\./||' | LC_ALL=C sort
} > _CoqProject.new
if ! cmp -s _CoqProject.new _CoqProject 2>/dev/null; then
  mv _CoqProject.new _CoqProject
  coq_makefile -f _CoqProject -o Makefile >/dev/null || exit 2
else
  rm -f _CoqProject.new
  [ -f Makefile ] || coq_makefile -f _CoqProject -o Makefile >/dev/null || exit 2
fi
timeout "${VERIF_COQ_TIMEOUT:-1500}" make -j"${VERIF_JOBS:-16}" "$@"
