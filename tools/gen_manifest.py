#!/usr/bin/env python3
"""Regenerate MANIFEST.json from the META dict of every checks/cXX.py."""
import importlib, json, os, sys
ROOT = os.path.dirname(os.path.dirname(os.path.abspath(__file__)))
sys.path.insert(0, os.path.join(ROOT, "lib")); sys.path.insert(0, os.path.join(ROOT, "checks"))
props = [json.loads(l) for l in open(os.path.join(ROOT, "properties.jsonl"))]
checks, na = [], []
for p in props:
    pid = p["id"]
    path = os.path.join(ROOT, "checks", pid.lower() + ".py")
    meta = None
    if os.path.exists(path):
        try:
            meta = getattr(importlib.import_module(pid.lower()), "META", None)
        except Exception as e:
            print("warning: %s does not import: %s" % (pid, e), file=sys.stderr)
    if not meta:
        na.append({"property_id": pid, "reason": "check not built yet in this development (see DESIGN.md section 9 for the plan); not claimed"})
        continue
    if meta.get("not_applicable"):
        na.append({"property_id": pid, "reason": meta["not_applicable"]})
        continue
    checks.append({
        "property_id": pid,
        "quick_cmd": "./check %s --tier quick" % pid,
        "thorough_cmd": "./check %s --tier thorough" % pid,
        "evidence_file": "/verif/evidence/%s.json" % pid,
        "replay_cmd_template": "./check %s --replay {path}" % pid,
        "engine": "coq+harness",
        "level_claimed": {"category": (meta.get("category", "proof") if meta.get("category", "proof") in ("exploration","fault_enumeration","model_checking","proof","translation_validation","other") else ("proof" if str(meta.get("category")).startswith("proof") else "other")), "text": meta["text"], "design_ref": meta.get("design_ref", "DESIGN.md section 4, " + pid)},
        "level_note": meta["note"],
        "technique": meta.get("technique", "machine-checked proof in Coq 8.16.1 over a hand-written Gallina model + correspondence check (model vs Go on generated inputs) + failing-input search"),
    })
man = {
    "version": 1,
    "setup_cmd": "./setup.sh",
    "hooks": {
        "guard": "verif",
        "enable": "go build -tags verif (files named verif_*.go with //go:build verif)",
        "baseline_off_cmd": "for m in . ./moreinterp; do (cd /repo/$m && GOFLAGS=-mod=mod go test -json -vet=off -count=1 -timeout 25m ./...); done",
        "source_commits": [l.split()[0] for l in open(os.path.join(ROOT, "MANIFEST.hooks")) if l.strip() and not l.startswith("#")] if os.path.exists(os.path.join(ROOT, "MANIFEST.hooks")) else [],
        "add_only": True,
    },
    "engines": [{"name": "coq+harness", "path": "/verif/check", "serves_properties": [c["property_id"] for c in checks],
                 "kind_free_text": "Coq 8.16.1 development under /verif/coq (models, proofs, Props/Cxx.v), Go harness under /verif/harness built against /repo's working tree, Python driver ./check"}],
    "checks": checks,
    "not_applicable": na,
    "notes": "See DESIGN.md. Every check = Coq theorems (Props/<id>.v) + correspondence leg(s) tying the model to the current /repo tree + a failing-input search; known findings in known_findings.jsonl.",
}
json.dump(man, open(os.path.join(ROOT, "MANIFEST.json"), "w"), indent=1)
print("MANIFEST.json: %d checks, %d not claimed" % (len(checks), len(na)))
