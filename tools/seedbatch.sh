#!/bin/bash
# usage: tools/seedbatch.sh <ID> <worktree with out/k> <demo dest dir in repo> "<test pkgs>" [extra property ids to also run]
# copies out/k to seeded/<ID>-k, confirms each (tools/seedconfirm.sh) and runs the check(s) against it (tools/seedtest.sh)
set -u
id=$1; src=$2; dest=$3; pkgs=$4; shift 4; extra="$*"
cd /verif
for k in $(ls "$src/out" | sort); do
  [ -f "$src/out/$k/patch.diff" ] || continue
  d=seeded/$id${SUFFIX:-}-$k; mkdir -p $d; cp "$src/out/$k/"* $d/ 2>/dev/null
  [ -f $d/meta.json ] || echo "{\"property\":\"$id\"}" > $d/meta.json
  if ls $d/demo*_test.go >/dev/null 2>&1; then
    dd=$dest
    if [ "$dd" = auto ]; then
      pk=$(grep -m1 '^package ' $d/demo*_test.go | awk '{print $2}' | sed 's/_test$//')
      case $pk in main) dd=cmd/shfmt;; typedjson) dd=syntax/typedjson;; *) dd=$pk;; esac
    fi
    tools/seedconfirm.sh $d "$dd" "$pkgs" > $d/confirm.log 2>&1;   elif [ -f $d/demo.sh ]; then tools/seedconfirm.sh $d cmd/shfmt "$pkgs" > $d/confirm.log 2>&1
  else echo "no demo found" > $d/confirm.log; fi
  tools/seedtest.sh $d $id $extra > $d/detect.log 2>&1; rc=$?
  echo "== $d caught=$([ $rc = 0 ] && echo yes || echo NO)"; grep -E "demo W|^ok|^FAIL|does not" $d/confirm.log | tr '\n' ' ' | cut -c1-300; echo; grep -E "^(VIOLATION|C[0-9]+ (ok|FAIL)|PATCH)" $d/detect.log | cut -c1-200
done
