#!/usr/bin/env python3
"""print the prompt for a seeding sub-agent: tools/seedprompt.py C16  (creates the scratch worktree too)"""
import json, subprocess, sys
pid = sys.argv[1]
n = sys.argv[2] if len(sys.argv) > 2 else "3"
p = [json.loads(l) for l in open('/verif/properties.jsonl') if json.loads(l)['id'] == pid][0]
wt = "/tmp/seed" + (sys.argv[3] if len(sys.argv) > 3 else "") + "_" + pid.lower()
subprocess.run(["git", "-C", "/repo", "worktree", "add", "-q", "--detach", wt, "HEAD"], check=False)
files = ", ".join(p['anchors']['files'])
mech = "; ".join("%s (%s)" % (m.get('name'), m.get('where')) for m in p['anchors'].get('mechanism', []))
print(f"""You are testing how robust a Go library's guarantees are. You have your own scratch git worktree of the Go repository mvdan/sh (module mvdan.cc/sh/v3: shell parser, formatter `shfmt`, and interpreter) at {wt} — work ONLY inside {wt} (never touch /repo or /verif, and do not read anything under /verif). Go env for every shell call: `export GOFLAGS=-mod=mod GOPROXY=off` (no network; do not set GOSUMDB or GOTOOLCHAIN). Real bash 5.2 (/usr/bin/bash) and dash are installed.

The property under test ({pid}): "{p['title']}. {p['statement']}"
It is quantified over: {p['quantifier']['text']}
Code it is anchored in: {files} — mechanisms: {mech}

Your job: produce {n} different, realistic changes to the library source (each a separate patch against the worktree's HEAD) that BREAK this property while (a) the code still compiles (`go build ./...`), (b) the existing test suite still passes for every package the change could affect: `cd {wt} && go test -count=1 ./... 2>&1 | grep -v '^ok' | tail -30` (known baseline noise to ignore in THIS sandbox: interp subtests TestRunnerRun/#1317–#1321 always fail because tests run as root; interp TestKillSignal/TestKillTimeout are timing-flaky when the machine is loaded — re-run them alone before blaming your change), and (c) the breakage needs something SPECIFIC to manifest — an unusual input shape, a particular combination of options or constructs, a multi-step sequence of operations, a particular interleaving or crash/fault point, or two cooperating sites that each look fine alone — NOT something ordinary use would expose at once. Think of plausible refactoring mistakes, "optimisations", off-by-one edits, a dropped special case, a copy that became an alias, a check moved after its use. The changes should differ from each other in mechanism and location.

For each change write into {wt}/out/<k>/ (k = 1..{n}): `patch.diff` (`git diff` output of just that change; `git checkout -- .` between changes), a demonstration — `demo_test.go` (a Go test file with `package <pkg>` or `<pkg>_test`, test function name starting with `TestDemo`, to be dropped into one package directory of the repo; say which directory in the README) or, if a Go test cannot show it (e.g. needs the shfmt binary or a real shell), a small `demo.sh` that exits non-zero with the change and zero without — that FAILS with the change applied and PASSES without it, and `README.md` with: what the change does, what specific condition it needs to manifest, which package directory the demo goes into, and the exact commands you ran with their results (compiles; suite passes; demo fails with patch; demo passes without). Verify all of that yourself before finishing. Leave the worktree clean at the end (`git checkout -- .`, remove stray files) keeping only out/. Final answer: a short summary (one paragraph per change).""")
