#!/bin/bash
# usage: tools/runall.sh [seed] [tier]  — runs every check once, sequentially, prints id rc wall and VIOLATION lines
cd /verif
seed=${1:-1}; tier=${2:-quick}
for i in $(seq -w 1 36); do
  id=C$i; s=$(date +%s)
  out=$(VERIF_SEED=$seed ./check $id --tier $tier 2>&1); rc=$?
  e=$(date +%s)
  echo "$id rc=$rc wall=$((e-s))s kf=$(echo "$out" | grep -c '^KNOWN-FINDING') $(echo "$out" | grep -E '^VIOLATION' | head -1 | cut -c1-150)"
  [ $rc -ne 0 ] && echo "$out" | grep -E '^  (broken|failing)' | head -3 | cut -c1-400
done
