module verifharness

go 1.26.0

require mvdan.cc/sh/v3 v3.0.0

require (
	golang.org/x/sys v0.47.0 // indirect
	golang.org/x/term v0.45.0 // indirect
)

replace mvdan.cc/sh/v3 => /repo
