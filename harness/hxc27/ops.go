// Package hxc27 holds what the C27 and C32 harnesses share: the operation
// vocabulary of coq/Interp/Isolation.v, its rendering to shell source, the
// generators, and running programs in interp.Runner with structured snapshots
// (interp.VerifC27Snapshot) taken by a CallHandler at `__snap TAG` commands.
package hxc27

import (
	"fmt"
	"math/rand/v2"
	"strconv"
	"strings"
)

type ArrElem struct {
	HasIdx bool   `json:"hi,omitempty"`
	Idx    int64  `json:"i,omitempty"`
	V      string `json:"v"`
}

type Rhs struct {
	Kind  string      `json:"k"` // str none arr assoc
	S     string      `json:"s,omitempty"`
	Arr   []ArrElem   `json:"arr,omitempty"`
	Assoc [][2]string `json:"assoc,omitempty"`
}

// Op mirrors the constructors of Isolation.op.
type Op struct {
	Op      string   `json:"op"`
	Name    string   `json:"name,omitempty"`
	HasIdx  bool     `json:"hasidx,omitempty"`
	Idx     int64    `json:"idx,omitempty"`
	App     bool     `json:"app,omitempty"`
	Rhs     *Rhs     `json:"rhs,omitempty"`
	Variant string   `json:"variant,omitempty"` // declare local export readonly
	Fx      bool     `json:"fx,omitempty"`
	Fr      bool     `json:"fr,omitempty"`
	Fg      bool     `json:"fg,omitempty"`
	Vt      string   `json:"vt,omitempty"` // "", a, A
	N       int      `json:"n,omitempty"`
	Args    []string `json:"args,omitempty"`
	Path    string   `json:"path,omitempty"`
	Src     string   `json:"src,omitempty"`
	Body    int      `json:"body,omitempty"`   // interned printed body (filled after rendering)
	BodyN   int      `json:"bodyn,omitempty"`  // generator's choice of body text for plain funcdefs
	Helper  bool     `json:"helper,omitempty"` // funcdef of the helper that the following callbegin calls
	Opt     int      `json:"opt,omitempty"`
	On      bool     `json:"on,omitempty"`
}

func q(s string) string { return "'" + s + "'" } // values never contain a single quote

func renderRhs(r *Rhs) string {
	switch r.Kind {
	case "str":
		return q(r.S)
	case "none":
		return ""
	case "arr":
		var sb strings.Builder
		sb.WriteString("(")
		for i, e := range r.Arr {
			if i > 0 {
				sb.WriteString(" ")
			}
			if e.HasIdx {
				fmt.Fprintf(&sb, "[%d]=", e.Idx)
			}
			sb.WriteString(q(e.V))
		}
		sb.WriteString(")")
		return sb.String()
	case "assoc":
		var sb strings.Builder
		sb.WriteString("(")
		for i, e := range r.Assoc {
			if i > 0 {
				sb.WriteString(" ")
			}
			fmt.Fprintf(&sb, "[\"%s\"]=%s", e[0], q(e[1]))
		}
		sb.WriteString(")")
		return sb.String()
	}
	panic("rhs kind")
}

var OptNames = []string{"allexport", "errexit", "noexec", "noglob", "nounset", "xtrace", "pipefail",
	"dotglob", "expand_aliases", "extglob", "globstar", "nocaseglob", "nullglob"}

func renderOne(o Op) string {
	switch o.Op {
	case "assign":
		s := o.Name
		if o.HasIdx {
			s += "[" + strconv.FormatInt(o.Idx, 10) + "]"
		}
		if o.App {
			s += "+"
		}
		return s + "=" + renderRhs(o.Rhs)
	case "decl":
		s := o.Variant
		if o.Fx {
			s += " -x"
		}
		if o.Fr {
			s += " -r"
		}
		if o.Fg {
			s += " -g"
		}
		if o.Vt != "" {
			s += " -" + o.Vt
		}
		s += " " + o.Name
		if o.Rhs != nil {
			if o.App {
				s += "+"
			}
			s += "=" + renderRhs(o.Rhs)
		}
		return s
	case "unset":
		return "unset " + o.Name
	case "unsetelem":
		return "unset '" + o.Name + "[" + strconv.FormatInt(o.Idx, 10) + "]'"
	case "unsetall":
		return "unset '" + o.Name + "[@]'"
	case "unsetf":
		return "unset -f " + o.Name
	case "shift":
		return "shift " + strconv.Itoa(o.N)
	case "setparams":
		s := "set --"
		for _, a := range o.Args {
			s += " " + q(a)
		}
		return s
	case "cd":
		return "cd " + q(o.Path)
	case "pushd":
		return "pushd " + q(o.Path)
	case "pushdswap":
		return "pushd"
	case "popd":
		return "popd"
	case "alias":
		return "alias " + o.Name + "=" + q(o.Src)
	case "unalias":
		return "unalias " + o.Name
	case "funcdef":
		return fmt.Sprintf("%s() { echo %d; }", o.Name, o.BodyN)
	case "setstr":
		switch o.N {
		case 1: // arithmetic assignment (numeric value)
			return "(( " + o.Name + " = " + o.Src + " ))"
		case 3: // the assignment happens inside the expansion of an argument
			return ": $(( " + o.Name + " = " + o.Src + " ))"
		case 4:
			return "echo \"$(( " + o.Name + " = " + o.Src + " ))\""
		case 2:
			return "for " + o.Name + " in " + q(o.Src) + "; do :; done"
		}
		return "read -r " + o.Name + " <<< " + q(o.Src)
	case "setopt":
		name := OptNames[o.Opt]
		if o.Opt < 7 {
			if o.On {
				return "set -o " + name
			}
			return "set +o " + name
		}
		if o.On {
			return "shopt -s " + name
		}
		return "shopt -u " + name
	}
	panic("renderOne: " + o.Op)
}

// Render renders ops; tail (may be empty) is placed after the last op at the
// nesting level that is open there (inside the bodies of unclosed calls).
func Render(ops []Op, tail string) string {
	var parts []string
	i := 0
	for i < len(ops) {
		o := ops[i]
		switch {
		case o.Op == "funcdef" && o.Helper:
			i++ // rendered together with the callbegin that follows
		case o.Op == "callbegin":
			// matching callend
			depth, j := 0, i+1
			for ; j < len(ops); j++ {
				if ops[j].Op == "callbegin" {
					depth++
				} else if ops[j].Op == "callend" {
					if depth == 0 {
						break
					}
					depth--
				}
			}
			name := ops[i-1].Name
			var inner string
			if j < len(ops) {
				inner = Render(ops[i+1:j], "")
			} else {
				inner = Render(ops[i+1:], tail)
				tail = ""
			}
			if strings.TrimSpace(inner) == "" {
				inner = ":"
			}
			call := name
			for _, a := range o.Args {
				call += " " + q(a)
			}
			parts = append(parts, name+"() { "+inner+"; }", call)
			if j < len(ops) {
				i = j + 1
			} else {
				i = len(ops)
			}
		case o.Op == "callend":
			i++ // unbalanced: no-op (never generated)
		default:
			parts = append(parts, renderOne(o))
			i++
		}
	}
	if tail != "" {
		parts = append(parts, tail)
	}
	return strings.Join(parts, "; ")
}

// ---- generators ------------------------------------------------------------

type Gen struct {
	R       *rand.Rand
	Dirs    []string // absolute clean existing directories
	nhelper int
}

var varNames = []string{"a", "b", "s", "m"}
var values = []string{"x", "y", "z", "", "a b", "1", "q*", "-n"}
var keys = []string{"k", "j", "2", "0"}

func (g *Gen) pick(l []string) string { return l[g.R.IntN(len(l))] }
func (g *Gen) p(n int) bool           { return g.R.IntN(n) == 0 }

func (g *Gen) arrRhs() *Rhs {
	n := g.R.IntN(5)
	r := &Rhs{Kind: "arr"}
	sparse := g.p(2)
	for i := 0; i < n; i++ {
		e := ArrElem{V: g.pick(values)}
		if sparse && g.p(2) {
			e.HasIdx = true
			e.Idx = int64(g.R.IntN(9))
			if g.p(8) {
				e.Idx = -int64(1 + g.R.IntN(3))
			}
		}
		r.Arr = append(r.Arr, e)
	}
	return r
}

func (g *Gen) assocRhs() *Rhs {
	n := 1 + g.R.IntN(3)
	r := &Rhs{Kind: "assoc"}
	for i := 0; i < n; i++ {
		r.Assoc = append(r.Assoc, [2]string{g.pick(keys), g.pick(values)})
	}
	return r
}

func (g *Gen) idx() int64 {
	if g.p(5) {
		return -int64(1 + g.R.IntN(4))
	}
	return int64(g.R.IntN(7))
}

// AssignOp generates one variable-changing operation.
func (g *Gen) VarOp() Op {
	name := g.pick(varNames)
	switch g.R.IntN(16) {
	case 0, 1:
		return Op{Op: "assign", Name: name, Rhs: &Rhs{Kind: "str", S: g.pick(values)}}
	case 2, 3: // the += shapes
		if g.p(2) {
			return Op{Op: "assign", Name: name, App: true, Rhs: &Rhs{Kind: "str", S: g.pick(values)}}
		}
		return Op{Op: "assign", Name: name, App: true, Rhs: g.arrRhs()}
	case 4, 5:
		return Op{Op: "assign", Name: name, Rhs: g.arrRhs()}
	case 6:
		return Op{Op: "assign", Name: name, App: g.p(4), Rhs: g.assocRhs()}
	case 7, 8:
		return Op{Op: "assign", Name: name, HasIdx: true, Idx: g.idx(), App: g.p(3), Rhs: &Rhs{Kind: "str", S: g.pick(values)}}
	case 9:
		if g.p(2) {
			return g.SetStr(name)
		}
		return Op{Op: "unset", Name: name}
	case 10, 11:
		return Op{Op: "unsetelem", Name: name, Idx: g.idx()}
	case 12:
		return Op{Op: "unsetall", Name: name}
	default:
		return g.DeclOp(name)
	}
}

func (g *Gen) DeclOp(name string) Op {
	o := Op{Op: "decl", Name: name, Variant: g.pick([]string{"declare", "declare", "local", "export", "readonly"})}
	o.Fx = g.p(5)
	o.Fr = g.p(9)
	o.Fg = o.Variant == "declare" && g.p(6)
	switch g.R.IntN(8) {
	case 0, 1, 2: // naked
		o.Vt = g.pick([]string{"", "", "a", "A"})
	case 3, 4:
		o.Rhs = &Rhs{Kind: "str", S: g.pick(values)}
		o.App = g.p(3)
		o.Vt = g.pick([]string{"", "", "", "a"})
	case 5, 6:
		o.Rhs = g.arrRhs()
		o.App = g.p(3)
		o.Vt = g.pick([]string{"", "a"})
	default:
		o.Rhs = g.assocRhs()
		o.App = g.p(5)
		o.Vt = g.pick([]string{"", "A"})
	}
	return o
}

var safeOpts = []int{0, 3, 6, 7, 8, 9, 10, 11, 12}

func (g *Gen) OtherOp() Op {
	switch g.R.IntN(14) {
	case 0:
		return Op{Op: "shift", N: g.R.IntN(3)}
	case 1:
		n := g.R.IntN(4)
		o := Op{Op: "setparams", Args: []string{}}
		for i := 0; i < n; i++ {
			o.Args = append(o.Args, g.pick(values))
		}
		return o
	case 2, 3:
		return Op{Op: "cd", Path: g.pick(g.Dirs)}
	case 4:
		return Op{Op: "pushd", Path: g.pick(g.Dirs)}
	case 5:
		return Op{Op: "pushdswap"}
	case 6:
		return Op{Op: "popd"}
	case 7:
		return Op{Op: "alias", Name: g.pick([]string{"ll", "gg"}), Src: g.pick([]string{"echo hi", "true ", "echo a b"})}
	case 8:
		return Op{Op: "unalias", Name: g.pick([]string{"ll", "gg"})}
	case 9, 10:
		return Op{Op: "funcdef", Name: g.pick([]string{"f", "g"}), BodyN: 1 + g.R.IntN(3)}
	case 11:
		if g.p(2) {
			return Op{Op: "unsetf", Name: g.pick([]string{"f", "g"})}
		}
		return Op{Op: "unset", Name: g.pick([]string{"f", "g"})}
	default:
		return Op{Op: "setopt", Opt: safeOpts[g.R.IntN(len(safeOpts))], On: g.p(2)}
	}
}

// Ops generates n operations, with function calls (balanced unless open is true,
// in which case one call may be left open at the end).
func (g *Gen) Ops(n int, open bool, depth int) []Op {
	var out []Op
	for len(out) < n {
		switch {
		case depth < 2 && g.p(7):
			g.nhelper++
			name := fmt.Sprintf("h%d", g.nhelper)
			args := []string{}
			for i := g.R.IntN(3); i > 0; i-- {
				args = append(args, g.pick(values))
			}
			out = append(out, Op{Op: "funcdef", Name: name, Helper: true}, Op{Op: "callbegin", Args: args})
			inner := g.Ops(1+g.R.IntN(3), false, depth+1)
			out = append(out, inner...)
			if open && g.p(2) {
				return out // left open: the rest of the program runs inside this call
			}
			out = append(out, Op{Op: "callend"})
		case g.p(3):
			out = append(out, g.OtherOp())
		default:
			out = append(out, g.VarOp())
		}
	}
	return out
}

// Targeted returns a parent operation creating a non-empty array or map and a
// child operation that writes into it (the shapes that can alias the parent's storage).
func (g *Gen) Targeted() (Op, Op) {
	name := g.pick(varNames)
	if g.p(5) {
		pre := Op{Op: "assign", Name: name, Rhs: g.assocRhs()}
		switch g.R.IntN(3) {
		case 0:
			return pre, Op{Op: "assign", Name: name, HasIdx: true, Idx: g.idx(), App: g.p(2), Rhs: &Rhs{Kind: "str", S: g.pick(values)}}
		case 1:
			return pre, Op{Op: "unsetelem", Name: name, Idx: g.idx()}
		}
		return pre, Op{Op: "assign", Name: name, App: true, Rhs: &Rhs{Kind: "str", S: g.pick(values)}}
	}
	arr := g.arrRhs()
	for len(arr.Arr) == 0 {
		arr = g.arrRhs()
	}
	pre := Op{Op: "assign", Name: name, Rhs: arr}
	switch g.R.IntN(7) {
	case 6:
		return pre, g.SetStr(name)
	case 0, 1:
		return pre, Op{Op: "assign", Name: name, App: true, Rhs: &Rhs{Kind: "str", S: g.pick(values)}}
	case 2:
		return pre, Op{Op: "assign", Name: name, App: true, Rhs: g.arrRhs()}
	case 3:
		return pre, Op{Op: "assign", Name: name, HasIdx: true, Idx: g.idx(), App: g.p(2), Rhs: &Rhs{Kind: "str", S: g.pick(values)}}
	case 4:
		return pre, Op{Op: "unsetelem", Name: name, Idx: g.idx()}
	}
	return pre, Op{Op: "decl", Name: name, Variant: g.pick([]string{"declare", "export", "readonly"}), App: true, Rhs: &Rhs{Kind: "str", S: g.pick(values)}}
}

// Undo returns a parent operation that establishes a piece of state and the
// child operation that removes exactly that state (function, alias, variable,
// option, directory stack entry, positional parameter); the child operation is
// meant to be the FIRST command of the child.
func (g *Gen) Undo(k int) (Op, Op) {
	switch k % 8 {
	case 0:
		return Op{Op: "funcdef", Name: "f", BodyN: 1 + g.R.IntN(3)}, Op{Op: "unsetf", Name: "f"}
	case 1:
		return Op{Op: "funcdef", Name: "g", BodyN: 1 + g.R.IntN(3)}, Op{Op: "unset", Name: "g"}
	case 2:
		return Op{Op: "alias", Name: "ll", Src: "echo hi"}, Op{Op: "unalias", Name: "ll"}
	case 3:
		name := g.pick(varNames)
		if g.p(2) {
			return Op{Op: "assign", Name: name, Rhs: &Rhs{Kind: "str", S: "x"}}, Op{Op: "unset", Name: name}
		}
		return Op{Op: "assign", Name: name, Rhs: &Rhs{Kind: "arr", Arr: []ArrElem{{V: "x"}, {V: "y"}}}}, Op{Op: "unsetall", Name: name}
	case 4:
		o := safeOpts[g.R.IntN(len(safeOpts))]
		return Op{Op: "setopt", Opt: o, On: true}, Op{Op: "setopt", Opt: o, On: false}
	case 5:
		return Op{Op: "pushd", Path: g.Dirs[1]}, Op{Op: "popd"}
	case 6:
		return Op{Op: "setparams", Args: []string{"p", "q"}}, Op{Op: "shift", N: 1}
	}
	return Op{Op: "cd", Path: g.Dirs[2]}, Op{Op: "cd", Path: g.Dirs[1]}
}

// SetStr: an operation that ends in Runner.setVar(name, string): read, arithmetic assignment, for.
func (g *Gen) SetStr(name string) Op {
	k := g.R.IntN(5)
	if k == 1 || k >= 3 {
		return Op{Op: "setstr", Name: name, N: k, Src: g.pick([]string{"7", "0", "42"})}
	}
	return Op{Op: "setstr", Name: name, N: k, Src: g.pick(values)}
}
