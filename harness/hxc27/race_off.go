//go:build !race

package hxc27

// RaceEnabled reports whether the harness was built with the race detector.
const RaceEnabled = false
