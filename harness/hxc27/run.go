package hxc27

import (
	"bufio"
	"bytes"
	"context"
	"encoding/json"
	"fmt"
	"io"
	"os"
	"os/exec"
	"sort"
	"strings"
	"sync"
	"time"

	"mvdan.cc/sh/v3/expand"
	"mvdan.cc/sh/v3/interp"
	"mvdan.cc/sh/v3/syntax"
	"verifharness/hx"
)

// Var / Snap: JSON form of interp.VerifC27Snapshot, all strings hex.
type Var struct {
	Name     string      `json:"name"`
	Set      bool        `json:"set"`
	Local    bool        `json:"local"`
	Exported bool        `json:"exported"`
	ReadOnly bool        `json:"readonly"`
	Kind     int         `json:"kind"`
	Str      string      `json:"str"`
	List     []string    `json:"list"`
	Indexes  []int       `json:"indexes"`
	HasIdx   bool        `json:"hasidx"`
	Map      [][2]string `json:"map"` // sorted by key
	HasMap   bool        `json:"hasmap"`
}

type Snap struct {
	Vars     []Var       `json:"vars"`
	Funcs    [][2]string `json:"funcs"` // name, printed body (hex)
	Alias    [][2]string `json:"alias"`
	Opts     []bool      `json:"opts"`
	Dir      string      `json:"dir"`
	DirStack []string    `json:"dirstack"`
	Params   []string    `json:"params"`
	InFunc   bool        `json:"infunc"`
}

func sortedPairs(m map[string]string) [][2]string {
	out := make([][2]string, 0, len(m))
	for k, v := range m {
		out = append(out, [2]string{hx.Hex(k), hx.Hex(v)})
	}
	sort.Slice(out, func(i, j int) bool { return hx.UnHex(out[i][0]) < hx.UnHex(out[j][0]) })
	return out
}

func FromVerif(s interp.VerifC27Snapshot) Snap {
	var o Snap
	for _, v := range s.Vars {
		o.Vars = append(o.Vars, Var{Name: hx.Hex(v.Name), Set: v.Set, Local: v.Local, Exported: v.Exported,
			ReadOnly: v.ReadOnly, Kind: v.Kind, Str: hx.Hex(v.Str), List: hx.HexList(v.List),
			Indexes: append([]int{}, v.Indexes...), HasIdx: v.HasIndexes, Map: sortedPairs(v.Map), HasMap: v.Map != nil})
	}
	o.Funcs = sortedPairs(s.Funcs)
	o.Alias = sortedPairs(s.Alias)
	o.Opts = s.Opts
	o.Dir = hx.Hex(s.Dir)
	o.DirStack = hx.HexList(s.DirStack)
	o.Params = hx.HexList(s.Params)
	o.InFunc = s.InFunc
	return o
}

// Recorder collects snapshots by tag; safe for concurrent subshells.
type Recorder struct {
	mu    sync.Mutex
	Snaps map[string]Snap
	Order []string
	// Yield, when set, is called at every command of every (sub)shell: the
	// scheduling perturbation of C32.
	Yield func()
	gmu   sync.Mutex
	gates map[string]chan struct{}
}

// gate returns the named gate of this case (created on first use).
func (rec *Recorder) gate(name string) chan struct{} {
	rec.gmu.Lock()
	defer rec.gmu.Unlock()
	if rec.gates == nil {
		rec.gates = map[string]chan struct{}{}
	}
	g, ok := rec.gates[name]
	if !ok {
		g = make(chan struct{})
		rec.gates[name] = g
	}
	return g
}

func (rec *Recorder) openGate(name string) {
	g := rec.gate(name)
	rec.gmu.Lock()
	defer rec.gmu.Unlock()
	select {
	case <-g:
	default:
		close(g)
	}
}

func (rec *Recorder) call(ctx context.Context, args []string) ([]string, error) {
	if rec.Yield != nil {
		rec.Yield()
	}
	if len(args) >= 2 && args[0] == "__snap" {
		s := FromVerif(interp.VerifC27SnapshotCtx(ctx))
		rec.mu.Lock()
		if rec.Snaps == nil {
			rec.Snaps = map[string]Snap{}
		}
		rec.Snaps[args[1]] = s
		rec.Order = append(rec.Order, args[1])
		rec.mu.Unlock()
		return []string{"true"}, nil
	}
	return args, nil
}

// refuse every external command; `__drain` reads its stdin to EOF.
func (rec *Recorder) execHandler(next interp.ExecHandlerFunc) interp.ExecHandlerFunc {
	return func(ctx context.Context, args []string) error {
		// __gate_wait NAME / __gate_open NAME: order events between shells of one case without sleeps
		if args[0] == "__gate_wait" && len(args) > 1 {
			select {
			case <-rec.gate(args[1]):
			case <-ctx.Done():
			}
			return nil
		}
		if args[0] == "__gate_open" && len(args) > 1 {
			rec.openGate(args[1])
			return nil
		}
		if args[0] == "__spin" { // sleep a little: completion order perturbation
			n := 0
			if len(args) > 1 {
				fmt.Sscan(args[1], &n)
			}
			time.Sleep(time.Duration(n) * 300 * time.Microsecond)
			return nil
		}
		if args[0] == "__drain" {
			hc := interp.HandlerCtx(ctx)
			if hc.Stdin != nil {
				io.Copy(io.Discard, hc.Stdin)
			}
			return nil
		}
		return interp.ExitStatus(127)
	}
}

// NewRunner: a Runner in scratch dir with a minimal environment, no external commands.
func NewRunner(scratch string, rec *Recorder, stdout io.Writer) (*interp.Runner, error) {
	return interp.New(
		interp.Env(expand.ListEnviron("HOME="+scratch, "PATH=/nonexistent")),
		interp.Dir(scratch),
		interp.StdIO(nil, stdout, io.Discard),
		interp.ExecHandlers(rec.execHandler),
		interp.CallHandler(rec.call),
	)
}

func Parse(src string) (*syntax.File, error) {
	return syntax.NewParser(syntax.Variant(syntax.LangBash)).Parse(strings.NewReader(src), "")
}

// FuncBodies returns the printed body of every function declaration of src in
// document order (the order of the funcdef operations that were rendered).
func FuncBodies(src string) ([]string, error) {
	f, err := Parse(src)
	if err != nil {
		return nil, err
	}
	var out []string
	syntax.Walk(f, func(n syntax.Node) bool {
		if fd, ok := n.(*syntax.FuncDecl); ok {
			var buf bytes.Buffer
			syntax.NewPrinter().Print(&buf, fd.Body)
			out = append(out, buf.String())
		}
		return true
	})
	return out, nil
}

// ---- a case and its execution -------------------------------------------------

// Case: programs to run in order on one Runner. Steps with Sub=true run on a
// Runner.Subshell() copy made right before (the "api" context).
type Step struct {
	Src   string `json:"src"`
	Sub   bool   `json:"sub,omitempty"`
	Async bool   `json:"async,omitempty"` // with Sub: run the copy in its own goroutine, concurrently with the later steps
}

type Case struct {
	ID    int    `json:"id"`
	Steps []Step `json:"steps"`
}

type Result struct {
	ID     int             `json:"id"`
	Snaps  map[string]Snap `json:"snaps"`
	Panic  string          `json:"panic,omitempty"`
	Hang   bool            `json:"hang,omitempty"`
	ErrMsg string          `json:"err,omitempty"`
	Out    string          `json:"out,omitempty"`
}

// RunCase runs one case in this process (used by the worker).
func RunCase(scratch string, c Case, yield func()) Result {
	res := Result{ID: c.ID}
	rec := &Recorder{Yield: yield}
	var out bytes.Buffer
	var lim = &limitWriter{w: &out, n: 1 << 16}
	p, msg := hx.Try(func() {
		r, err := NewRunner(scratch, rec, lim)
		if err != nil {
			res.ErrMsg = err.Error()
			return
		}
		ctx, cancel := context.WithTimeout(context.Background(), 5*time.Second)
		defer cancel()
		var wg sync.WaitGroup
		defer wg.Wait()
		for _, st := range c.Steps {
			f, err := Parse(st.Src)
			if err != nil {
				res.ErrMsg = "parse: " + err.Error()
				return
			}
			run := r
			if st.Sub {
				run = r.Subshell()
			}
			if st.Sub && st.Async {
				wg.Add(1)
				go func() {
					defer wg.Done()
					run.Run(ctx, f)
				}()
				continue
			}
			err = run.Run(ctx, f)
			if ctx.Err() != nil {
				res.Hang = true
				return
			}
			_ = err
		}
	})
	if p {
		res.Panic = msg
	}
	rec.mu.Lock()
	res.Snaps = make(map[string]Snap, len(rec.Snaps)) // a copy: a job that outlives the case may still record
	for k, v := range rec.Snaps {
		res.Snaps[k] = v
	}
	rec.mu.Unlock()
	lim.mu.Lock() // a job that outlives the case may still be writing
	res.Out = hx.Hex(out.String())
	lim.mu.Unlock()
	return res
}

type limitWriter struct {
	mu sync.Mutex
	w  io.Writer
	n  int
}

func (l *limitWriter) Write(p []byte) (int, error) {
	l.mu.Lock()
	defer l.mu.Unlock()
	if l.n > 0 {
		k := min(len(p), l.n)
		l.w.Write(p[:k])
		l.n -= k
	}
	return len(p), nil
}

// MakeScratch creates the scratch tree and returns (root, dirs).
func MakeScratch(prefix string) (string, []string) {
	root, err := os.MkdirTemp("", prefix)
	if err != nil {
		panic(err)
	}
	dirs := []string{root, root + "/d1", root + "/d2", root + "/d1/e"}
	for _, d := range dirs[1:] {
		os.MkdirAll(d, 0o755)
	}
	return root, dirs
}

// WorkerMain: read cases (JSON lines) on stdin, write results on stdout.
func WorkerMain(scratch string, yield func()) {
	in := bufio.NewReaderSize(os.Stdin, 1<<20)
	out := bufio.NewWriter(os.Stdout)
	for {
		line, err := in.ReadBytes('\n')
		if len(line) > 1 {
			var c Case
			if json.Unmarshal(line, &c) == nil {
				r := RunCase(scratch, c, yield)
				b, _ := json.Marshal(r)
				out.Write(b)
				out.WriteByte('\n')
				out.Flush()
			}
		}
		if err != nil {
			return
		}
	}
}

// Pool runs cases in a worker subprocess (same binary, `worker` mode) with a
// per-case watchdog; a hang or crash kills and restarts the worker and is
// recorded as the observation of that case.
type Pool struct {
	RaceHalt bool // worker dies at the first race report (attribution to the running case)
	Scratch  string
	Args     []string // extra args for the worker
	cmd      *exec.Cmd
	stdin    io.WriteCloser
	lines    chan []byte
	Stderr   bytes.Buffer
}

func (p *Pool) start() {
	args := append([]string{"worker", "-in", p.Scratch}, p.Args...)
	exe, err := os.Executable()
	if err != nil {
		exe = os.Args[0]
	}
	p.cmd = exec.Command(exe, args...)
	if p.RaceHalt {
		p.cmd.Env = append(os.Environ(), "GORACE=halt_on_error=1")
	} else {
		p.cmd.Env = append(os.Environ(), "GORACE=halt_on_error=0")
	}
	p.Stderr.Reset()
	p.stdin, _ = p.cmd.StdinPipe()
	so, _ := p.cmd.StdoutPipe()
	p.cmd.Stderr = &p.Stderr
	p.cmd.Dir = p.Scratch
	if err := p.cmd.Start(); err != nil {
		panic(err)
	}
	ch := make(chan []byte, 4)
	p.lines = ch
	go func() {
		rd := bufio.NewReaderSize(so, 1<<20)
		for {
			l, err := rd.ReadBytes('\n')
			if len(l) > 1 {
				ch <- l
			}
			if err != nil {
				close(ch)
				return
			}
		}
	}()
}

func (p *Pool) kill() {
	if p.cmd != nil {
		p.stdin.Close()
		p.cmd.Process.Kill()
		p.cmd.Wait()
		p.cmd = nil
	}
}

func (p *Pool) Close() {
	if p.cmd != nil {
		p.stdin.Close()
		done := make(chan struct{})
		go func() { p.cmd.Wait(); close(done) }()
		select {
		case <-done:
		case <-time.After(3 * time.Second):
			p.cmd.Process.Kill()
		}
		p.cmd = nil
	}
}

func (p *Pool) Run(c Case) Result {
	if p.cmd == nil {
		p.start()
	}
	b, _ := json.Marshal(c)
	b = append(b, '\n')
	if _, err := p.stdin.Write(b); err != nil {
		p.kill()
		return Result{ID: c.ID, Panic: "worker write failed: " + err.Error()}
	}
	select {
	case l, ok := <-p.lines:
		if !ok {
			p.kill()
			msg := p.Stderr.String()
			if len(msg) > 6000 {
				msg = msg[:6000]
			}
			return Result{ID: c.ID, Panic: "worker died: " + msg}
		}
		var r Result
		if err := json.Unmarshal(l, &r); err != nil {
			return Result{ID: c.ID, ErrMsg: fmt.Sprint("bad worker output: ", err)}
		}
		return r
	case <-time.After(15 * time.Second):
		p.kill()
		return Result{ID: c.ID, Hang: true}
	}
}
