// Package hxsplit holds what the C22 (field splitting) and C23 (read) harnesses
// share: shell-safe encoding of values, the in-process interpreter runner with
// a timeout, and the batched bash oracle.
package hxsplit

import (
	"bytes"
	"context"
	"fmt"
	"os"
	"os/exec"
	"path/filepath"
	"strings"
	"time"

	"mvdan.cc/sh/v3/expand"
	"mvdan.cc/sh/v3/interp"
	"mvdan.cc/sh/v3/syntax"
)

// Ansi renders s as a $'..' word made of \xHH escapes only (no quoting problems).
func Ansi(s string) string {
	var sb strings.Builder
	sb.WriteString("$'")
	for i := 0; i < len(s); i++ {
		fmt.Fprintf(&sb, "\\x%02x", s[i])
	}
	sb.WriteString("'")
	return sb.String()
}

// Runes gives the code points of a valid UTF-8 string as ints (for the Coq model).
func Runes(s string) []int {
	out := []int{}
	for _, r := range s {
		out = append(out, int(r))
	}
	return out
}

func RunesList(l []string) [][]int {
	out := [][]int{}
	for _, s := range l {
		out = append(out, Runes(s))
	}
	return out
}

// RunInterp runs src in a fresh in-process Runner (cwd dir) with a timeout.
// The result is the combined output, or "PANIC:..", "HANG", "PARSE:..".
func RunInterp(dir, src string, timeout time.Duration) string {
	f, err := syntax.NewParser().Parse(strings.NewReader(src), "")
	if err != nil {
		return "PARSE:" + err.Error()
	}
	type result struct{ out string }
	ch := make(chan result, 1)
	ctx, cancel := context.WithTimeout(context.Background(), timeout)
	defer cancel()
	go func() {
		var out bytes.Buffer
		defer func() {
			if e := recover(); e != nil {
				ch <- result{"PANIC:" + fmt.Sprint(e)}
			}
		}()
		r, err := interp.New(interp.StdIO(nil, &out, &out), interp.Dir(dir),
			interp.Env(expand.ListEnviron("PATH=/nonexistent", "HOME="+dir, "LC_ALL=C.UTF-8")))
		if err != nil {
			ch <- result{"NEW:" + err.Error()}
			return
		}
		r.Run(ctx, f)
		ch <- result{out.String()}
	}()
	select {
	case r := <-ch:
		return r.out
	case <-time.After(timeout + 2*time.Second):
		return "HANG"
	}
}

// Bash runs one script made of the given case bodies in a single bash process
// and returns the output of each case. Every body's output is followed by a
// marker line; a case whose marker is missing gets "MISSING".
func Bash(dir, prelude string, bodies []string) []string {
	var sb strings.Builder
	sb.WriteString(prelude)
	sb.WriteString("\n")
	for i, b := range bodies {
		sb.WriteString(b)
		fmt.Fprintf(&sb, "\nprintf '\\n@@%d@@\\n'\n", i)
	}
	script := filepath.Join(dir, "bash_script.sh")
	if err := os.WriteFile(script, []byte(sb.String()), 0o600); err != nil {
		panic(err)
	}
	cmd := exec.Command("env", "-i", "LC_ALL=C.UTF-8", "PATH=/nonexistent", "HOME="+dir,
		"/usr/bin/timeout", "-k", "5", "120", "/bin/bash", "--norc", "--noprofile", script)
	cmd.Dir = dir
	var out bytes.Buffer
	cmd.Stdout = &out
	cmd.Stderr = &out
	cmd.Run()
	res := make([]string, len(bodies))
	rest := out.String()
	for i := range bodies {
		mark := fmt.Sprintf("\n@@%d@@\n", i)
		j := strings.Index(rest, mark)
		if j < 0 {
			res[i] = "MISSING"
			continue
		}
		res[i] = rest[:j]
		rest = rest[j+len(mark):]
	}
	return res
}
