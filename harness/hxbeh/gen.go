package hxbeh

import (
	"fmt"
	"math/rand/v2"
	"strings"
)

// Gen generates runnable programs over the interpreter's supported subset: builtins and
// functions only, bounded loops, variables in arithmetic hold plain integers.
// Rich > 0 biases towards the constructs Simplify rewrites; Messy > 0 makes the layout
// irregular (what the printer normalises): separators, blank lines, comments, escaped
// newlines, backquotes, ${x} vs $x, `function f` vs `f()`, redirect placement.
type Gen struct {
	R     *rand.Rand
	Rich  bool
	Messy bool
	nfunc int
	nloop int
	nfile int
	funcs []string
	Feats map[string]bool
}

func NewGen(r *rand.Rand, rich, messy bool) *Gen {
	return &Gen{R: r, Rich: rich, Messy: messy, Feats: map[string]bool{}}
}

var intVars = []string{"a", "b", "c", "n", "m"}
var strVars = []string{"s", "t", "u", "e"}

func (g *Gen) p(n int) bool           { return g.R.IntN(n) == 0 }
func (g *Gen) pick(l []string) string { return l[g.R.IntN(len(l))] }
func (g *Gen) feat(s string)          { g.Feats[s] = true }

// sp is inter-token space.
func (g *Gen) sp() string {
	if !g.Messy {
		return " "
	}
	switch g.R.IntN(10) {
	case 0:
		return "  "
	case 1:
		return " \t"
	case 2:
		g.feat("escnl")
		return " \\\n "
	case 3:
		return "   "
	}
	return " "
}

// sep separates two statements.
func (g *Gen) sep() string {
	if !g.Messy {
		return "\n"
	}
	switch g.R.IntN(8) {
	case 0, 1:
		return "; "
	case 2:
		return "\n\n"
	case 3:
		g.feat("comment")
		return " # " + g.pick([]string{"note", "x; y", "it's", "a \"b\"", "$(nope)", "`"}) + "\n"
	case 4:
		return " ;\n"
	case 5:
		return "\n\t"
	}
	return "\n"
}

func (g *Gen) intVar() string { return g.pick(intVars) }
func (g *Gen) strVar() string { return g.pick(strVars) }

func (g *Gen) param(v string) string {
	if g.p(3) {
		return "${" + v + "}"
	}
	return "$" + v
}

// ---------------------------------------------------------------- arithmetic

func (g *Gen) arithAtom() string {
	switch g.R.IntN(9) {
	case 0, 1:
		return g.intVar()
	case 2, 3:
		g.feat("arith-dollar")
		return g.param(g.intVar())
	case 4:
		return g.pick([]string{"0", "1", "2", "3", "7", "10", "0x10", "010", "255"})
	case 5:
		return fmt.Sprint(g.R.IntN(12))
	case 6:
		g.feat("arith-nonsimple")
		return g.pick([]string{"${#s}", "${#arr[@]}", "$#", "${arr[1]}", "${n:-4}", "${#}", "$1"})
	case 7:
		g.feat("arith-quoted")
		return g.pick([]string{`"2"`, `"3"`, `"$a"`, `"${b}"`})
	}
	return fmt.Sprint(1 + g.R.IntN(5))
}

func (g *Gen) arith(d int) string {
	if d <= 0 {
		return g.arithAtom()
	}
	sp := func() string {
		if g.p(3) {
			return ""
		}
		return " "
	}
	switch g.R.IntN(16) {
	case 0, 1, 2:
		op := g.pick([]string{"+", "-", "*", "/", "%", "+", "-", "*", "<", ">", "<=", ">=", "==", "!=", "&", "|", "^", "<<", ">>", "&&", "||", "**"})
		return g.arith(d-1) + " " + op + " " + g.arith(d-1)
	case 3, 4:
		g.feat("arith-paren")
		return "(" + sp() + g.arith(d-1) + sp() + ")"
	case 5:
		g.feat("arith-paren2")
		return "((" + g.arith(d-1) + "))"
	case 6:
		g.feat("arith-paren-needed")
		return "(" + g.arith(d-1) + " + " + g.arith(d-1) + ") * " + g.arith(d-1)
	case 7:
		return g.pick([]string{"-", "!", "~", "+"}) + g.arithAtom()
	case 8:
		g.feat("arith-tern")
		return g.arith(d-1) + " ? " + g.arith(d-1) + " : " + g.arith(d-1)
	case 9:
		g.feat("arith-assign")
		return g.intVar() + " " + g.pick([]string{"=", "+=", "-=", "*=", "|=", "<<="}) + " " + g.arith(d-1)
	case 10:
		g.feat("arith-incdec")
		return g.pick([]string{g.intVar() + "++", g.intVar() + "--", "++" + g.intVar(), "--" + g.intVar()})
	case 11:
		g.feat("arith-comma")
		return g.arith(d-1) + ", " + g.arith(d-1)
	case 12:
		g.feat("arith-paren-dollar")
		return "(" + g.param(g.intVar()) + ")"
	}
	return g.arithAtom()
}

// ---------------------------------------------------------------- words

var plainWords = []string{"foo", "bar", "a", "b1", "x.y", "-n", "1", "42", "A_B", "%s", "hello", "=", "a=b", "-e"}

func (g *Gen) dqBody() string {
	var sb strings.Builder
	n := 1 + g.R.IntN(4)
	for i := 0; i < n; i++ {
		switch g.R.IntN(14) {
		case 0:
			sb.WriteString(`\$`)
			g.feat("dq-esc")
		case 1:
			sb.WriteString(`\"`)
			g.feat("dq-esc")
		case 2:
			sb.WriteString(`\\`)
			g.feat("dq-esc")
		case 3:
			sb.WriteString("\\`")
			g.feat("dq-esc")
		case 4:
			sb.WriteString(g.pick([]string{`\n`, `\t`, `\b`, `\a`, `\x`, `\'`, `\ `}))
			g.feat("dq-otheresc")
		case 5:
			sb.WriteString("'")
			g.feat("dq-sq")
		case 6:
			sb.WriteString(g.param(g.pick(append(append([]string{}, intVars...), strVars...))))
			g.feat("dq-param")
		case 7:
			sb.WriteString(g.pick([]string{" ", "  ", "*", "?", ";", "#", "|", "&", "(", ")", "{", "}", "<", ">", "!", "~"}))
		case 8:
			sb.WriteString(g.pick([]string{`\\b`, `\\n`, `\\t`, `a\\b`, `\\\\`, `\\x41`, `\\101`, `\$x`, `\\$`, `%s\\n`}))
			g.feat("dq-esc-ansi")
		default:
			sb.WriteString(g.pick([]string{"a", "b", "x", "y z", "foo", "1", "é", "-"}))
		}
	}
	return sb.String()
}

func (g *Gen) wordPart() string {
	switch g.R.IntN(20) {
	case 0, 1, 2:
		return g.pick(plainWords)
	case 3, 4, 5:
		return `"` + g.dqBody() + `"`
	case 6:
		g.feat("dollar-dq")
		return `$"` + g.dqBody() + `"`
	case 7:
		return "'" + g.pick([]string{"a b", "$x", `\n`, `"`, "*", "", "a\\b", "#", "`"}) + "'"
	case 8:
		g.feat("ansi-c")
		return "$'" + g.pick([]string{`a\tb`, `\n`, `x\\y`, `\'`, `\x41`, `\101`, "q"}) + "'"
	case 9:
		return g.param(g.strVar())
	case 10:
		return `"` + g.param(g.strVar()) + `"`
	case 11:
		return g.param(g.intVar())
	case 12:
		g.feat("arithexp")
		if g.Messy && g.p(3) {
			return "$((" + strings.ReplaceAll(g.arith(2), " ", "") + "))"
		}
		return "$((" + g.sp1() + g.arith(2) + g.sp1() + "))"
	case 13:
		g.feat("cmdsubst")
		inner := g.simpleCmd(0)
		if g.Messy && g.p(2) && !strings.ContainsAny(inner, "`\\") {
			g.feat("backquote")
			return "`" + inner + "`"
		}
		if g.Rich && g.p(2) {
			g.feat("cmdsubst-subshell")
			return "$( (" + inner + ") )"
		}
		return "$(" + inner + ")"
	case 14:
		return g.pick([]string{`\*`, `\ `, `\$`, `\\`, `\"`, `\'`, `\#`, `a\ b`})
	case 15:
		g.feat("pexp")
		return g.pick([]string{"${s:-d}", "${#s}", "${s%l*}", "${s#h}", "${t/ /_}", "${s:1:2}", "${s:(1)}", "${s:$a}", "${s:(($a))}",
			"${u:-$s}", "${u:=z}", "${s^^}", "${arr[1]}", "${arr[(1)]}", "${arr[$a]}", "${arr[$a-1]}", "${#arr[@]}", `"${arr[@]}"`, "${arr[*]}",
			"${s:$a:$b}", "${s: -2}", "${!s}", "${e}", "$#", "$?", "$1", `"$@"`, "$*", "${t}", `"${t}"`, `"$e"`})
	case 16:
		return g.pick([]string{`""`, `''`})
	}
	return g.pick(plainWords)
}

func (g *Gen) sp1() string {
	if g.p(2) {
		return " "
	}
	return ""
}

func (g *Gen) word() string {
	n := 1
	if g.p(4) {
		n = 2 + g.R.IntN(2)
	}
	var sb strings.Builder
	for i := 0; i < n; i++ {
		sb.WriteString(g.wordPart())
	}
	w := sb.String()
	if w == "" {
		return "x"
	}
	return w
}

func (g *Gen) words(lo, hi int) string {
	n := lo + g.R.IntN(hi-lo+1)
	var l []string
	for i := 0; i < n; i++ {
		l = append(l, g.word())
	}
	return strings.Join(l, g.sp())
}

// ---------------------------------------------------------------- tests

func (g *Gen) testWord() string {
	switch g.R.IntN(8) {
	case 0, 1:
		g.feat("test-quoted-param")
		return `"` + g.param(g.pick(append(append([]string{}, intVars...), strVars...))) + `"`
	case 2:
		return g.param(g.strVar())
	case 3:
		return `"` + g.dqBody() + `"`
	case 4:
		return g.pick([]string{"foo", "hello", "h*", "*l*", "[a-h]ello", "a", "''", `""`, "x", "3", "?"})
	case 5:
		return g.pick([]string{`"$s"x`, `"${#s}"`, `"$1"`, `"$@"`, `"${arr[0]}"`, `"$*"`, `$"$s"`, `"${s:-d}"`, `"$s$t"`})
	}
	return g.param(g.intVar())
}

func (g *Gen) test(d int) string {
	if d > 0 {
		switch g.R.IntN(10) {
		case 0, 1:
			g.feat("test-not")
			return "! " + g.test(d-1)
		case 2:
			g.feat("test-paren")
			return "( " + g.test(d-1) + " )"
		case 3:
			return g.test(d-1) + " && " + g.test(d-1)
		case 4:
			return g.test(d-1) + " || " + g.test(d-1)
		case 5:
			g.feat("test-notnot")
			return "! ! " + g.test(d-1)
		}
	}
	switch g.R.IntN(10) {
	case 0, 1:
		g.feat("test-un")
		return g.pick([]string{"-z", "-n", "-z", "-n", "-v", "-e", "-f", "-d"}) + " " + g.testWord()
	case 2, 3, 4:
		g.feat("test-match")
		return g.testWord() + " " + g.pick([]string{"=", "==", "!=", "=", "=="}) + " " + g.testWord()
	case 5:
		return g.testWord() + " " + g.pick([]string{"-eq", "-ne", "-lt", "-gt", "-le", "-ge"}) + " " + g.pick([]string{`"$a"`, "$b", "3", `"${n}"`, `"2"`})
	case 6:
		return g.testWord() + " " + g.pick([]string{"<", ">"}) + " " + g.testWord()
	case 7:
		g.feat("test-re")
		return g.testWord() + " =~ " + g.pick([]string{"^h", "l+", "[0-9]+", `"$s"`, "$s", `"h.l"`, "h.l"})
	}
	return g.testWord()
}

// ---------------------------------------------------------------- commands

func (g *Gen) simpleCmd(d int) string {
	switch g.R.IntN(8) {
	case 0, 1, 2:
		return "echo" + g.sp() + g.words(1, 3)
	case 3:
		return "printf" + g.sp() + g.pick([]string{`'%s\n'`, `"%s|"`, `'<%s>\n'`, `"[%s]\n"`, `'%d\n'`}) + g.sp() + g.words(1, 2)
	case 4:
		return "echo" + g.sp() + `"$((` + g.arith(2) + `))"`
	case 5:
		return g.strVar() + "=" + g.word()
	case 6:
		if len(g.funcs) > 0 {
			return g.pick(g.funcs) + g.sp() + g.words(0, 2)
		}
	}
	return "echo" + g.sp() + g.word()
}

func (g *Gen) cond() string {
	switch g.R.IntN(8) {
	case 0, 1, 2:
		g.feat("testclause")
		return "[[ " + g.test(2) + " ]]"
	case 3, 4:
		g.feat("arithcmd")
		return "((" + g.sp1() + g.arith(2) + g.sp1() + "))"
	case 5:
		return "[ " + g.pick([]string{`"$s" = hello`, `-n "$u"`, `"$a" -lt 5`, `-z "$t"`, `"$s" != "$t"`, `! -n "$s"`}) + " ]"
	case 6:
		return g.pick([]string{"true", "false", "! true", "! false"})
	}
	return "test " + g.pick([]string{`-n "$s"`, `"$a" -eq 3`, `x = x`})
}

func (g *Gen) block(d, n int) string {
	var sb strings.Builder
	for i := 0; i < n; i++ {
		sb.WriteString(g.Stmt(d))
		if i < n-1 {
			sb.WriteString(g.sep())
		}
	}
	return sb.String()
}

// nl is a separator that may be `;` or a newline where both are legal (after a list).
func (g *Gen) nl() string {
	if g.Messy && g.p(2) {
		return "\n"
	}
	return "; "
}

func (g *Gen) redirFile() string {
	g.nfile++
	return fmt.Sprintf("f%d", g.nfile)
}

// Stmt generates one statement (never ends in a separator).
func (g *Gen) Stmt(d int) string {
	k := g.R.IntN(32)
	if d <= 0 && k >= 8 {
		k = g.R.IntN(8)
	}
	switch k {
	case 0, 1, 2, 3:
		return g.simpleCmd(d)
	case 4:
		g.feat("arithcmd")
		return "((" + g.sp1() + g.arith(2) + g.sp1() + "))"
	case 5:
		return g.intVar() + "=$((" + g.arith(2) + "))"
	case 6:
		g.feat("testclause")
		return "[[ " + g.test(2) + " ]]" + g.pick([]string{" && echo yes", " || echo no", "; echo $?", " && echo y || echo n"})
	case 7:
		g.feat("let")
		return "let " + g.pick([]string{`"a = $b + 1"`, "a+=1", `"c = (a + b) * 2"`, "n++", `"m = ((a))"`})
	case 8, 9:
		g.feat("if")
		s := "if " + g.cond() + g.nl() + "then" + g.sp() + g.block(d-1, 1+g.R.IntN(2))
		if g.p(3) {
			s += g.nl() + "elif " + g.cond() + g.nl() + "then " + g.block(d-1, 1)
		}
		if g.p(2) {
			s += g.nl() + "else" + g.sp() + g.block(d-1, 1)
		}
		return s + g.nl() + "fi"
	case 10:
		g.feat("while")
		g.nloop++
		v := fmt.Sprintf("i%d", g.nloop)
		head := v + "=0" + g.nl()
		switch g.R.IntN(3) {
		case 0:
			head += "while ((" + v + " < " + fmt.Sprint(1+g.R.IntN(3)) + "))"
		case 1:
			head += "while [[ $" + v + " -lt " + fmt.Sprint(1+g.R.IntN(3)) + " ]]"
		default:
			head += "until [ \"$" + v + "\" -ge 2 ]"
		}
		return head + g.nl() + "do" + g.sp() + g.block(d-1, 1+g.R.IntN(2)) + g.nl() + g.pick([]string{"((" + v + "++))", v + "=$((" + v + " + 1))", "let " + v + "+=1", ": $((" + v + " += 1))"}) + g.nl() + "done"
	case 11:
		g.feat("for")
		g.nloop++
		v := fmt.Sprintf("x%d", g.nloop)
		if g.p(3) {
			g.feat("cfor")
			return "for ((" + v + " = 0; " + v + " < " + g.pick([]string{"2", "3", "(3)", "${#arr[@]}"}) + "; " + v + "++))" + g.nl() + "do " + g.block(d-1, 1) + g.nl() + "done"
		}
		return "for " + v + " in " + g.words(1, 3) + g.nl() + "do" + g.sp() + "echo \"$" + v + "\"" + g.nl() + g.block(d-1, 1) + g.nl() + "done"
	case 12:
		g.feat("case")
		s := "case " + g.word() + " in"
		n := 1 + g.R.IntN(3)
		for i := 0; i < n; i++ {
			pat := g.pick([]string{"foo", "h*", "*", "[0-9]", "a|b", `"$s"`, "$s", "'*'", `"h*"`, "?", "1|2|3", "hello", `\*`})
			if g.Messy && g.p(3) {
				pat = "(" + pat
			}
			s += "\n" + pat + ") " + g.block(d-1, 1) + g.pick([]string{" ;;", "\n;;", ";;"})
		}
		return s + "\nesac"
	case 13, 14:
		g.feat("subshell")
		inner := g.block(d-1, 1+g.R.IntN(2))
		if g.Rich || g.p(3) {
			switch g.R.IntN(4) {
			case 0:
				g.feat("subshell-nested")
				return "( (" + inner + ") )"
			case 1:
				g.feat("subshell-nested3")
				return "( ( (" + inner + ") ) )"
			case 2:
				g.feat("subshell-nested-redir")
				return "( (" + inner + ") >" + g.redirFile() + " )"
			}
		}
		return "(" + g.sp1() + inner + g.sp1() + ")"
	case 15:
		g.feat("block")
		return "{ " + g.block(d-1, 1+g.R.IntN(2)) + g.nl() + "}"
	case 16:
		g.feat("func")
		g.nfunc++
		name := fmt.Sprintf("fn%d", g.nfunc)
		body := g.block(d-1, 1+g.R.IntN(2))
		if g.p(3) {
			body = "local s=" + g.word() + g.nl() + body
		}
		if g.p(3) {
			body += g.nl() + "return " + fmt.Sprint(g.R.IntN(3))
		}
		var s string
		switch {
		case g.Messy && g.p(3):
			s = "function " + name + " {\n" + body + "\n}"
		case g.Messy && g.p(3):
			s = "function " + name + "() {\n" + body + "; }"
		case g.Messy && g.p(3):
			s = name + " ( ) {\n" + body + "\n}"
		default:
			s = name + "() {\n" + body + "\n}"
		}
		g.funcs = append(g.funcs, name)
		return s + "\n" + name + g.sp() + g.words(0, 2) + g.pick([]string{"", "; echo $?"})
	case 17:
		g.feat("andor")
		op1, op2 := g.pick([]string{"&&", "||"}), g.pick([]string{"&&", "||"})
		if g.Messy && g.p(2) {
			return g.cond() + " " + op1 + "\n" + g.simpleCmd(d) + " " + op2 + "\n\t" + g.simpleCmd(d)
		}
		return g.cond() + " " + op1 + " " + g.simpleCmd(d) + " " + op2 + " " + g.simpleCmd(d)
	case 18:
		g.feat("pipe")
		rd := g.pick([]string{"while read -r l; do echo \"<$l>\"; done", "{ read x y; echo \"$y:$x\"; }", "( read z; echo $z )", "while read l; do echo $l; done"})
		if g.Messy && g.p(2) {
			return g.simpleCmd(d) + " |\n" + rd
		}
		return g.simpleCmd(d) + " | " + rd
	case 19:
		g.feat("heredoc")
		tag := g.pick([]string{"EOF", "E", "'EOF'", `"EOF"`, "END"})
		op := "<<"
		body := g.pick([]string{"a $s\n  b\n", "x\\y $((a+1))\n", "`echo q` $(echo r)\n", "\tt ${s}\n\t\tu\n", "'q' \"r\" \\$s\n", "*\n"})
		if g.p(3) {
			op = "<<-"
		}
		end := strings.Trim(tag, `'"`)
		return "while read -r l; do echo \"[$l]\"; done " + op + tag + "\n" + body + end
	case 20:
		g.feat("herestring")
		return "read -r q r <<<" + g.word() + g.nl() + "echo \"$q|$r\""
	case 21:
		g.feat("redir-file")
		f := g.redirFile()
		if g.Messy && g.p(2) {
			return ">" + f + " echo " + g.word() + g.nl() + "read -r y <" + f + g.nl() + "echo \"$y\""
		}
		return "echo " + g.word() + " >" + f + g.nl() + "echo more >>" + f + g.nl() + "while read -r y; do echo \"$y\"; done <" + f
	case 22:
		g.feat("set--")
		return "set -- " + g.words(1, 3) + g.nl() + "echo $# \"$1\" \"$@\"" + g.nl() + "shift" + g.nl() + "echo \"$*\""
	case 23:
		g.feat("array")
		return g.pick([]string{
			"arr=(" + g.words(1, 3) + ")\necho \"${arr[@]}\" ${#arr[@]}",
			"arr[$a]=x; echo \"${arr[a]}\" \"${arr[$a]}\"",
			"arr[(1)]=y; echo ${arr[1]}",
			"arr[a+1]=z; echo ${arr[a + 1]} ${arr[$a+1]}",
			"arr+=(q); echo ${#arr[@]}",
			"for k in \"${!arr[@]}\"; do echo $k; done",
		})
	case 24:
		g.feat("cmdsubst-multi")
		return g.strVar() + "=$(" + g.block(d-1, 2) + ")" + g.nl() + "echo \"$" + g.strVar() + "\""
	case 25:
		g.feat("negate")
		return "! " + g.simpleCmd(d) + g.nl() + "echo $?"
	case 26:
		g.feat("brace-redirect")
		f := g.redirFile()
		return "{ " + g.block(d-1, 2) + g.nl() + "} >" + f + g.nl() + "read -r y <" + f + g.nl() + "echo \"$y\""
	case 27:
		g.feat("slice")
		return "echo " + g.pick([]string{"${s:$a}", "${s:($a)}", "${s:(1):(2)}", "${s:$a:$b}", "${s:a}", "${arr[@]:$a}", "${arr[@]:(1):1}", "${@:$a}", "${s:${a}:${b}}"})
	case 29, 30:
		// several backquote substitutions in one file: a double-quoted one first, then unquoted
		// ones whose bodies contain escaped quotes, backslashes and dollars (parser state that
		// leaks from one substitution to the next shows up only in such sequences)
		g.feat("backquote-sequence")
		first := g.pick([]string{"q=\"`echo hi`\"", "echo \"`echo a  b`\"", "q=\"x`echo \\\"y\\\"`z\"", "printf '%s\\n' \"`echo 1` `echo 2`\""})
		later := []string{
			"echo `echo \\\"a   b\\\"`",
			"echo `echo \\\\$s \\$s`",
			"echo `echo \\\"$t\\\"` `echo 'c  d'`",
			"printf '%s\\n' `echo \\\"x\\\" \\\\\\\\y`",
			"echo `echo \"a   b\"`",
			"r=`echo \\\"p   q\\\"`; echo \"$r\" $r",
		}
		s := first + g.sep() + g.pick(later)
		if g.p(2) {
			s += g.sep() + g.pick(later)
		}
		return s
	case 28:
		g.feat("errexit")
		return g.pick([]string{"set -e", "set -u", "set +e", "set -o pipefail", "shopt -s nullglob", "set -f", "shopt -s extglob"})
	}
	return g.simpleCmd(d)
}

// Program = preamble giving every variable used in arithmetic a plain integer value and
// the string variables a value, then n statements, optionally an explicit exit.
func (g *Gen) Program(n int) string {
	var sb strings.Builder
	ints := []string{"0", "1", "2", "3", "5", "7", "10", "-1", "-2", "12"}
	for _, v := range intVars {
		sb.WriteString(v + "=" + g.pick(ints) + "\n")
	}
	sb.WriteString("s=hello\nt='a b'\nu=\ne='*'\narr=(p q r s)\nset -- one 'two words' 3\n")
	sb.WriteString(g.block(2, n))
	sb.WriteString("\n")
	if g.p(4) {
		sb.WriteString(g.pick([]string{"exit 3", "exit $a", "false", "(exit 5)", "exit $((a > 1))"}) + "\n")
	}
	return sb.String()
}
