// Package hxbeh is shared by the behavioural harnesses c03 and c04: the pinned corpus of
// interpreter test programs (read from interp/interp_test.go as data), the safety filter
// that decides which programs may be executed at all, a pool of worker subprocesses that
// run programs under interp.Runner (a hang or crash costs one worker, not the run), and
// the real-bash runner.
package hxbeh

import (
	"bufio"
	"bytes"
	"context"
	"encoding/json"
	"fmt"
	"go/ast"
	"go/parser"
	"go/token"
	"io"
	"os"
	"os/exec"
	"path/filepath"
	"strconv"
	"strings"
	"sync"
	"syscall"
	"time"

	"mvdan.cc/sh/v3/expand"
	"mvdan.cc/sh/v3/interp"
	"mvdan.cc/sh/v3/syntax"
)

// Repo is the repository whose test files are read as data.
func Repo() string {
	if r := os.Getenv("VERIF_REPO"); r != "" {
		return r
	}
	return "/repo"
}

// ---------------------------------------------------------------- corpus

func constString(e ast.Expr) (string, bool) {
	switch e := e.(type) {
	case *ast.BasicLit:
		if e.Kind != token.STRING {
			return "", false
		}
		s, err := strconv.Unquote(e.Value)
		return s, err == nil
	case *ast.BinaryExpr:
		if e.Op != token.ADD {
			return "", false
		}
		a, ok1 := constString(e.X)
		b, ok2 := constString(e.Y)
		return a + b, ok1 && ok2
	case *ast.ParenExpr:
		return constString(e.X)
	}
	return "", false
}

// InterpTestPrograms returns the `in` strings of the runTest tables of
// interp/interp_test.go, in file order, without duplicates.
func InterpTestPrograms() []string {
	path := filepath.Join(Repo(), "interp", "interp_test.go")
	fset := token.NewFileSet()
	f, err := parser.ParseFile(fset, path, nil, 0)
	if err != nil {
		return nil
	}
	var out []string
	seen := map[string]bool{}
	ast.Inspect(f, func(n ast.Node) bool {
		cl, ok := n.(*ast.CompositeLit)
		if !ok {
			return true
		}
		at, ok := cl.Type.(*ast.ArrayType)
		if !ok {
			return true
		}
		id, ok := at.Elt.(*ast.Ident)
		if !ok || id.Name != "runTest" {
			return true
		}
		for _, el := range cl.Elts {
			ecl, ok := el.(*ast.CompositeLit)
			if !ok || len(ecl.Elts) == 0 {
				continue
			}
			first := ecl.Elts[0]
			if kv, ok := first.(*ast.KeyValueExpr); ok {
				first = kv.Value
			}
			if s, ok := constString(first); ok && !seen[s] {
				seen[s] = true
				out = append(out, s)
			}
		}
		return false
	})
	return out
}

// ReadRegress reads the pinned regression corpus corpus/<id>/regress.txt (programs separated
// by lines starting with "#===="): minimised inputs of earlier catches, run first on every
// seed and tier through the same oracles as the generated inputs.
func ReadRegress(id string) []string {
	var data []byte
	for _, p := range []string{filepath.Join("corpus", id, "regress.txt"), filepath.Join("/verif/corpus", id, "regress.txt")} {
		if b, err := os.ReadFile(p); err == nil {
			data = b
			break
		}
	}
	var out []string
	var cur []string
	started := false
	flush := func() {
		if started && len(cur) > 0 {
			out = append(out, strings.Join(cur, "\n")+"\n")
		}
		cur = nil
	}
	for _, l := range strings.Split(strings.TrimRight(string(data), "\n"), "\n") {
		if strings.HasPrefix(l, "#====") {
			flush()
			started = true
			continue
		}
		cur = append(cur, l)
	}
	flush()
	return out
}

// ---------------------------------------------------------------- safety

var allowedBuiltins = map[string]bool{
	"echo": true, "printf": true, "true": true, "false": true, ":": true, "test": true, "[": true,
	"set": true, "unset": true, "shift": true, "local": true, "declare": true, "typeset": true,
	"export": true, "readonly": true, "read": true, "return": true, "exit": true, "break": true,
	"continue": true, "let": true, "getopts": true, "type": true, "shopt": true, "trap": true,
	"mapfile": true, "readarray": true, "pwd": true,
}

var forbiddenText = []string{
	"LINENO", "RANDOM", "SECONDS", "EPOCH", "PPID", "BASHPID", "$$", "$!", "BASH_SOURCE", "BASH_LINENO",
	"BASH_COMMAND", "BASH_ARGV", "BASH_SUBSHELL", "BASH_EXECUTION", "/dev/", "kill", "exec", "ulimit", "GOSH", "$0", "${0",
	"$_", "${_", "$-", "${-", "UID", "HOSTNAME", "HOSTTYPE", "MACHTYPE", "OSTYPE", "SHLVL", "COLUMNS", "LINES", "TMPDIR",
	"history", "-o posix", "-o vi", "-o emacs", "monitor", "set -m", "set +m", "\x00",
}

// SafeText is the textual part of the filter (DESIGN 3.5): nothing that can reach the
// process table, devices, the clock, or position-dependent parameters.
func SafeText(src string) (bool, string) {
	for _, w := range forbiddenText {
		if strings.Contains(src, w) {
			return false, "text:" + w
		}
	}
	return true, ""
}

func litWord(w *syntax.Word) (string, bool) {
	if w == nil {
		return "", false
	}
	var sb strings.Builder
	for _, p := range w.Parts {
		switch p := p.(type) {
		case *syntax.Lit:
			if strings.Contains(p.Value, "\\") {
				return "", false
			}
			sb.WriteString(p.Value)
		case *syntax.SglQuoted:
			if p.Dollar {
				return "", false
			}
			sb.WriteString(p.Value)
		case *syntax.DblQuoted:
			for _, q := range p.Parts {
				l, ok := q.(*syntax.Lit)
				if !ok || strings.Contains(l.Value, "\\") {
					return "", false
				}
				sb.WriteString(l.Value)
			}
		default:
			return "", false
		}
	}
	return sb.String(), true
}

// SafeProgram decides whether a parsed program may be run by bash and by the interpreter:
// every command word it can reach is a literal naming an allowed builtin or a function the
// program defines; no background jobs, coprocesses, process substitutions; redirections only
// to plain relative file names (inside the scratch directory) or between descriptors.
func SafeProgram(f *syntax.File) (ok bool, why string) {
	funcs := map[string]bool{}
	syntax.Walk(f, func(n syntax.Node) bool {
		if fd, ok := n.(*syntax.FuncDecl); ok && fd.Name != nil {
			funcs[fd.Name.Value] = true
		}
		return true
	})
	ok = true
	bad := func(s string) {
		if ok {
			ok, why = false, s
		}
	}
	syntax.Walk(f, func(n syntax.Node) bool {
		if !ok {
			return false
		}
		switch n := n.(type) {
		case *syntax.Stmt:
			if n.Background || n.Coprocess || n.Disown {
				bad("background")
			}
		case *syntax.ProcSubst:
			bad("procsubst")
		case *syntax.CoprocClause:
			bad("coproc")
		case *syntax.TimeClause:
			bad("time")
		case *syntax.FuncDecl:
			if n.Name != nil && (allowedBuiltins[n.Name.Value] || strings.ContainsAny(n.Name.Value, "/.")) {
				bad("func-shadows-builtin")
			}
		case *syntax.CallExpr:
			if len(n.Args) == 0 {
				break
			}
			name, lit := litWord(n.Args[0])
			if !lit {
				bad("dynamic-command")
				break
			}
			if !allowedBuiltins[name] && !funcs[name] {
				bad("command:" + name)
				break
			}
			if name == "trap" {
				for i, a := range n.Args[1:] {
					s, lit := litWord(a)
					if !lit {
						bad("trap-dynamic")
						break
					}
					if i == 0 {
						continue // the action (or an option)
					}
					switch s {
					case "EXIT", "ERR", "0", "RETURN":
					default:
						bad("trap-signal:" + s)
					}
				}
			}
			if name == "set" || name == "shopt" || name == "declare" || name == "typeset" || name == "local" || name == "export" || name == "readonly" {
				for _, a := range n.Args[1:] {
					s, lit := litWord(a)
					if lit && (s == "-m" || s == "-b" || s == "-i" && name == "set" || strings.Contains(s, "monitor") || s == "-n" && name != "set") {
						bad("option:" + s)
					}
				}
			}
		case *syntax.DeclClause:
			for _, a := range n.Args {
				if a.Name == nil && a.Value != nil {
					if s, lit := litWord(a.Value); lit && (s == "-n" || s == "-i") {
						bad("decl-option:" + s) // namerefs and integer attributes: out of the integer-variable scope
					}
				}
			}
		case *syntax.Redirect:
			switch n.Op {
			case syntax.Hdoc, syntax.DashHdoc, syntax.WordHdoc:
			case syntax.DplIn, syntax.DplOut:
				s, lit := litWord(n.Word)
				if !lit {
					bad("redirect-dynamic")
					break
				}
				for _, c := range s {
					if !(c >= '0' && c <= '9') && c != '-' {
						bad("redirect-dup-target")
					}
				}
			default:
				s, lit := litWord(n.Word)
				if !lit || s == "" || strings.ContainsAny(s, "/~*?[{$") || strings.HasPrefix(s, ".") || strings.HasPrefix(s, "-") {
					bad("redirect-target")
				}
			}
		}
		return ok
	})
	return ok, why
}

// ---------------------------------------------------------------- results

// Result of running one program text.
type Result struct {
	Out    string `json:"out"`  // stdout (scratch directory name replaced by $DIR), capped
	Status int    `json:"st"`   // exit status; -1 when Note != ""
	Note   string `json:"note"` // "" | "hang" | "panic" | "parse" | "crash"
}

func (a Result) Same(b Result) bool { return a == b }

const outCap = 1 << 16

func normOut(out []byte, dir string) string {
	if len(out) > outCap {
		out = out[:outCap]
	}
	s := string(out)
	if dir != "" {
		s = strings.ReplaceAll(s, dir, "$DIR")
	}
	return s
}

var scratchRoot string
var scratchOnce sync.Once
var scratchSeq int
var scratchMu sync.Mutex

// ScratchRoot creates (once) the private scratch tree; Cleanup removes it.
func ScratchRoot() string {
	scratchOnce.Do(func() {
		d, err := os.MkdirTemp("", "hxsh")
		if err != nil {
			panic(err)
		}
		scratchRoot = d
		os.Mkdir(filepath.Join(d, "emptypath"), 0o755)
	})
	return scratchRoot
}

func Cleanup() {
	if scratchRoot != "" {
		os.RemoveAll(scratchRoot)
	}
}

func newCaseDir() string {
	root := ScratchRoot()
	scratchMu.Lock()
	scratchSeq++
	n := scratchSeq
	scratchMu.Unlock()
	d := filepath.Join(root, fmt.Sprintf("c%d_%d", os.Getpid(), n))
	os.Mkdir(d, 0o755)
	return d
}

// ---------------------------------------------------------------- bash

// Bash runs src as a script file under real bash with an empty PATH, a scratch HOME and
// cwd, no stdin, resource limits and a timeout (scaled by slow).
func Bash(src string, slow int) Result {
	dir := newCaseDir()
	defer os.RemoveAll(dir)
	work := filepath.Join(dir, "w")
	os.Mkdir(work, 0o755)
	script := filepath.Join(dir, "prog.sh")
	if err := os.WriteFile(script, []byte(src), 0o644); err != nil {
		return Result{Status: -1, Note: "crash"}
	}
	timeout := time.Duration(slow) * 5 * time.Second
	ctx, cancel := context.WithTimeout(context.Background(), timeout)
	defer cancel()
	cmd := exec.Command("/bin/bash", "--norc", "--noprofile", "-c",
		`ulimit -v 2000000 -f 20000 2>/dev/null; exec /bin/bash --norc --noprofile "$1"`, "_", script)
	cmd.Env = []string{"PATH=" + filepath.Join(ScratchRoot(), "emptypath"), "HOME=" + work, "LC_ALL=C.UTF-8"}
	cmd.Dir = work
	cmd.Stdin = nil
	var out bytes.Buffer
	cmd.Stdout = &limitWriter{w: &out, n: outCap + 1024}
	cmd.Stderr = io.Discard
	cmd.SysProcAttr = &syscall.SysProcAttr{Setsid: true}
	if err := cmd.Start(); err != nil {
		return Result{Status: -1, Note: "crash"}
	}
	done := make(chan error, 1)
	go func() { done <- cmd.Wait() }()
	select {
	case <-ctx.Done():
		syscall.Kill(-cmd.Process.Pid, syscall.SIGKILL)
		<-done
		return Result{Status: -1, Note: "hang"}
	case err := <-done:
		st := 0
		if err != nil {
			if ee, ok := err.(*exec.ExitError); ok {
				st = ee.ExitCode()
				if st < 0 {
					st = 128 + int(ee.Sys().(syscall.WaitStatus).Signal())
				}
			} else {
				return Result{Status: -1, Note: "crash"}
			}
		}
		s := normOut(out.Bytes(), work)
		s = strings.ReplaceAll(s, dir, "$DIR")
		return Result{Out: s, Status: st}
	}
}

// BashStderr re-runs src under bash and returns its standard error (used only to attribute
// an already observed difference to a known-finding class).
func BashStderr(src string) string {
	dir := newCaseDir()
	defer os.RemoveAll(dir)
	work := filepath.Join(dir, "w")
	os.Mkdir(work, 0o755)
	script := filepath.Join(dir, "prog.sh")
	if err := os.WriteFile(script, []byte(src), 0o644); err != nil {
		return ""
	}
	ctx, cancel := context.WithTimeout(context.Background(), 20*time.Second)
	defer cancel()
	cmd := exec.CommandContext(ctx, "/bin/bash", "--norc", "--noprofile", "-c",
		`ulimit -v 2000000 -f 20000 2>/dev/null; exec /bin/bash --norc --noprofile "$1"`, "_", script)
	cmd.Env = []string{"PATH=" + filepath.Join(ScratchRoot(), "emptypath"), "HOME=" + work, "LC_ALL=C.UTF-8"}
	cmd.Dir = work
	var errb bytes.Buffer
	cmd.Stdout = io.Discard
	cmd.Stderr = &limitWriter{w: &errb, n: outCap}
	cmd.SysProcAttr = &syscall.SysProcAttr{Setsid: true}
	cmd.Run()
	return errb.String()
}

type limitWriter struct {
	w io.Writer
	n int
}

func (l *limitWriter) Write(p []byte) (int, error) {
	if l.n <= 0 {
		return len(p), nil
	}
	q := p
	if len(q) > l.n {
		q = q[:l.n]
	}
	l.n -= len(q)
	l.w.Write(q)
	return len(p), nil
}

// ---------------------------------------------------------------- interp worker

type req struct {
	Src  string `json:"src"`
	Slow int    `json:"slow"`
}

// runInterp runs one program in this process (used by the worker only).
func runInterp(src string, slow int) Result {
	p := syntax.NewParser(syntax.Variant(syntax.LangBash))
	f, err := p.Parse(strings.NewReader(src), "")
	if err != nil {
		return Result{Status: -1, Note: "parse"}
	}
	dir := newCaseDir()
	defer os.RemoveAll(dir)
	var out bytes.Buffer
	lw := &limitWriter{w: &out, n: outCap + 1024}
	refuse := func(next interp.ExecHandlerFunc) interp.ExecHandlerFunc {
		return func(ctx context.Context, args []string) error {
			return interp.ExitStatus(127)
		}
	}
	open := func(ctx context.Context, path string, flag int, perm os.FileMode) (io.ReadWriteCloser, error) {
		hc := interp.HandlerCtx(ctx)
		abs := path
		if !filepath.IsAbs(abs) {
			abs = filepath.Join(hc.Dir, path)
		}
		abs = filepath.Clean(abs)
		if abs != "/dev/null" && !strings.HasPrefix(abs, dir+string(filepath.Separator)) {
			return nil, fmt.Errorf("open %s: refused by harness", path)
		}
		return interp.DefaultOpenHandler()(ctx, path, flag, perm)
	}
	r, err := interp.New(
		interp.StdIO(nil, lw, io.Discard),
		interp.Dir(dir),
		interp.Env(expand.ListEnviron("PATH="+filepath.Join(ScratchRoot(), "emptypath"), "HOME="+dir, "LC_ALL=C.UTF-8")),
		interp.ExecHandlers(refuse),
		interp.OpenHandler(open),
	)
	if err != nil {
		return Result{Status: -1, Note: "crash"}
	}
	ctx, cancel := context.WithTimeout(context.Background(), time.Duration(slow)*2*time.Second)
	defer cancel()
	res := Result{}
	done := make(chan struct{})
	go func() {
		defer close(done)
		defer func() {
			if rec := recover(); rec != nil {
				res = Result{Status: -1, Note: "panic"}
			}
		}()
		err := r.Run(ctx, f)
		st := 0
		if err != nil {
			if es, ok := err.(interp.ExitStatus); ok {
				st = int(es)
			} else {
				st = 1
			}
		}
		res = Result{Out: normOut(out.Bytes(), dir), Status: st}
	}()
	<-done
	if ctx.Err() != nil {
		return Result{Status: -1, Note: "hang"}
	}
	return res
}

// WorkerMain serves requests (one JSON object per line) until stdin closes.
func WorkerMain() {
	defer Cleanup()
	in := bufio.NewReaderSize(os.Stdin, 1<<20)
	out := bufio.NewWriter(os.Stdout)
	for {
		line, err := in.ReadBytes('\n')
		if len(line) > 0 {
			var q req
			if json.Unmarshal(line, &q) == nil {
				if q.Slow < 1 {
					q.Slow = 1
				}
				res := runInterp(q.Src, q.Slow)
				b, _ := json.Marshal(res)
				out.Write(b)
				out.WriteByte('\n')
				out.Flush()
			}
		}
		if err != nil {
			return
		}
	}
}

type worker struct {
	cmd *exec.Cmd
	in  io.WriteCloser
	out *bufio.Reader
}

func startWorker() *worker {
	cmd := exec.Command(os.Args[0], "worker")
	cmd.Env = append(os.Environ(), "TMPDIR="+ScratchRoot())
	in, _ := cmd.StdinPipe()
	outp, _ := cmd.StdoutPipe()
	cmd.Stderr = io.Discard
	cmd.SysProcAttr = &syscall.SysProcAttr{Setsid: true}
	if err := cmd.Start(); err != nil {
		return nil
	}
	return &worker{cmd: cmd, in: in, out: bufio.NewReaderSize(outp, 1<<20)}
}

func (w *worker) kill() {
	if w == nil || w.cmd.Process == nil {
		return
	}
	syscall.Kill(-w.cmd.Process.Pid, syscall.SIGKILL)
	w.cmd.Wait()
}

func (w *worker) ask(src string, slow int) (Result, bool) {
	b, _ := json.Marshal(req{Src: src, Slow: slow})
	b = append(b, '\n')
	type ans struct {
		r  Result
		ok bool
	}
	ch := make(chan ans, 1)
	go func() {
		if _, err := w.in.Write(b); err != nil {
			ch <- ans{Result{Status: -1, Note: "crash"}, false}
			return
		}
		line, err := w.out.ReadBytes('\n')
		if err != nil {
			ch <- ans{Result{Status: -1, Note: "crash"}, false}
			return
		}
		var r Result
		if json.Unmarshal(line, &r) != nil {
			ch <- ans{Result{Status: -1, Note: "crash"}, false}
			return
		}
		ch <- ans{r, true}
	}()
	select {
	case a := <-ch:
		return a.r, a.ok
	case <-time.After(time.Duration(slow)*2*time.Second + 3*time.Second):
		return Result{Status: -1, Note: "hang"}, false
	}
}

// Job is one program text to run under both runners.
type Job struct {
	Src    string
	Interp Result
	Bash   Result
}

// RunAll runs every distinct source under the interpreter (worker pool) and under bash,
// nw goroutines wide. A case that hangs or crashes is re-run alone with a 10x budget
// before the observation is kept (DESIGN 3.7a).
func RunAll(srcs []string, nw int, wantInterp, wantBash bool) map[string]*Job {
	jobs := map[string]*Job{}
	var order []*Job
	for _, s := range srcs {
		if _, ok := jobs[s]; !ok {
			j := &Job{Src: s}
			jobs[s] = j
			order = append(order, j)
		}
	}
	ch := make(chan *Job)
	var wg sync.WaitGroup
	for i := 0; i < nw; i++ {
		wg.Add(1)
		go func() {
			defer wg.Done()
			var w *worker
			defer func() { w.kill() }()
			for j := range ch {
				t0 := time.Now()
				if wantInterp {
					if w == nil {
						w = startWorker()
					}
					if w == nil {
						j.Interp = Result{Status: -1, Note: "crash"}
					} else {
						r, ok := w.ask(j.Src, 1)
						if !ok {
							w.kill()
							w = startWorker()
							if w != nil && r.Note == "hang" {
								r2, ok2 := w.ask(j.Src, 10)
								if ok2 {
									r = r2
								} else {
									w.kill()
									w = nil
								}
							} else if w != nil {
								// crash: classify by a second attempt
								r2, ok2 := w.ask(j.Src, 1)
								if ok2 {
									r = r2
								} else {
									r = Result{Status: -1, Note: "panic"}
									w.kill()
									w = nil
								}
							}
						} else if r.Note == "hang" {
							r2, ok2 := w.ask(j.Src, 10)
							if ok2 {
								r = r2
							} else {
								w.kill()
								w = nil
							}
						}
						j.Interp = r
					}
				}
				if wantBash {
					r := Bash(j.Src, 1)
					if r.Note == "hang" {
						r = Bash(j.Src, 4)
					}
					j.Bash = r
				}
				if d := time.Since(t0); d > 3*time.Second && os.Getenv("HXBEH_SLOW") != "" {
					fmt.Fprintf(os.Stderr, "SLOW %v interp=%q bash=%q\n%s\n=====\n", d, j.Interp.Note, j.Bash.Note, j.Src)
				}
			}
		}()
	}
	for _, j := range order {
		ch <- j
	}
	close(ch)
	wg.Wait()
	return jobs
}
