package hxgram

import "strings"

// HdocPrograms: a fixed enumeration of VALID programs around a here-document opener that shares its line with
// other things. Four covering sets (not the full cross product):
//  1. opener flavour x construct later/earlier on the line x joiner (both orders), plain body, top level;
//  2. body texts that are significant as shell code (apostrophe, lone `)`, `fi`, empty, ...) x opener x line shape x joiner;
//  3. statement terminators and trailing comments after the opener x opener x enclosing construct (top level and nested);
//  4. `<<-` with 0..3 leading tabs on body and delimiter lines.
// posixOnly drops the constructs/joiners that only bash-like variants accept.
func HdocPrograms(posixOnly bool) []string {
	type opener struct{ op, delim, tab string }
	openers := []opener{
		{"<<EOF", "EOF", ""}, {"<<-EOF", "EOF", "\t"}, {"<<'EOF'", "EOF", ""}, {"<<\"EOF\"", "EOF", ""}, {"<<\\EOF", "EOF", ""}, {"<<-'EOF'", "EOF", "\t"},
	}
	type constr struct {
		src, extra string
		posix      bool
	}
	constructs := []constr{
		{"(grep body)", "", true}, {"( grep body; x )", "", true}, {"{ grep body; }", "", true}, {"grep $(echo body)", "", true}, {"grep `echo body`", "", true},
		{"[[ a == b ]]", "", false}, {"(( 1 + 2 ))", "", false}, {"f() { grep body; }", "", true}, {"f() ( grep body )", "", true}, {"function g { x; }", "", false},
		{"tr a b <<E2", "second\nE2\n", true}, {"tr a b <<-'E2'", "\tsecond\n\tE2\n", true}, {"(tr a b <<E2)", "second\nE2\n", true},
		{"if a; then b; fi", "", true}, {"while a; do b; done", "", true}, {"for i in 1 2; do b; done", "", true}, {"case x in a) b ;; esac", "", true},
		{"! grep body", "", true}, {"x=1 grep body", "", true}, {"grep \"$(echo body)\"", "", true}, {"grep ${x:-body}", "", true}, {"grep $((1+2))", "", true},
		{"arr=(1 2)", "", false}, {"declare y=1", "", false}, {"let 1", "", false}, {"echo 'q' \"d\"", "", true}, {"( (a) )", "", true}, {"{ (a); }", "", true}, {"(a) >f", "", true}, {"( a ) 2>&1 | b", "", true},
		{"$( (a) )", "", true}, {"time (a)", "", false}, {"coproc (a)", "", false}, {"(a) && (b)", "", true}, {"select i in 1; do b; done", "", false}, {"until a; do b; done", "", true},
	}
	type joiner struct {
		s     string
		posix bool
	}
	joiners := []joiner{{" | ", true}, {" && ", true}, {" || ", true}, {"; ", true}, {" & ", true}, {" |& ", false}, {" |\n", true}}
	var out []string
	body0 := func(o opener) string { return o.tab + "body $x\n" + o.tab + "( more `y`\n" + o.tab + o.delim + "\n" }
	// set 1
	for _, o := range openers {
		for _, c := range constructs {
			if posixOnly && !c.posix {
				continue
			}
			for _, j := range joiners {
				if posixOnly && !j.posix {
					continue
				}
				out = append(out, "cat "+o.op+j.s+c.src+"\n"+body0(o)+c.extra+"echo after\n")
				out = append(out, c.src+j.s+"cat "+o.op+"\n"+c.extra+o.tab+"body\n"+o.tab+o.delim+"\necho after\n")
			}
		}
	}
	// set 2
	bodies := []string{"", "'\n", ")\n", "fi\n", "\"\n", "}\n", "done\n", "esac\n", "(\n", "it's; then\n", "a b\n'\n", "\n"}
	shapes := []constr{{"", "", true}, {"(tr a b)", "", true}, {"( tr a b; x )", "", true}, {"{ tr a b; }", "", true}, {"tr $(echo a) b", "", true},
		{"tr a b <<E2", "second\nE2\n", true}, {"f() ( tr a b )", "", true}, {"if a; then (b); fi", "", true}}
	for _, o := range openers {
		for _, b := range bodies {
			for _, c := range shapes {
				for _, j := range []string{" | ", " && ", " || ", "; "} {
					line := "cat " + o.op
					if c.src != "" {
						line += j + c.src
					} else if j != " | " {
						continue
					}
					bb := b
					if o.tab != "" && b != "" {
						bb = o.tab + b
					}
					out = append(out, line+"\n"+bb+o.tab+o.delim+"\n"+c.extra+"echo after\n")
				}
			}
		}
	}
	// set 3
	terms := []string{"", " ;", " &", " # c", "; # c", " & # c", " ;# c"}
	if !posixOnly {
		terms = append(terms, " &!", " &|")
	}
	wrappers := [][2]string{{"", ""}, {"{\n", "}\n"}, {"(\n", ")\n"}, {"x=$(\n", ")\n"}, {"if true; then\n", "fi\n"}, {"f() {\n", "}\n"}, {"while a; do\n", "done\n"}, {"case x in a)\n", ";; esac\n"}}
	for _, o := range openers {
		for _, t := range terms {
			for _, w := range wrappers {
				out = append(out, w[0]+"cat "+o.op+t+"\n"+o.tab+"body\n"+o.tab+o.delim+"\nwait\n"+w[1])
			}
		}
	}
	// set 4
	for _, op := range []string{"<<-EOF", "<<-'EOF'", "<<-\"EOF\""} {
		for bt := 0; bt <= 3; bt++ {
			for dt := 0; dt <= 3; dt++ {
				for _, w := range [][2]string{{"", ""}, {"if a; then\n\t{\n", "\t}\nfi\n"}} {
					out = append(out, w[0]+"\t\tcat "+op+"\n"+strings.Repeat("\t", bt)+"one\n"+strings.Repeat("\t", bt)+"two $x\n"+strings.Repeat("\t", dt)+"EOF\n\t\techo after\n"+w[1])
				}
			}
		}
	}
	return out
}
