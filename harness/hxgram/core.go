package hxgram

import (
	"strings"

	"mvdan.cc/sh/v3/syntax"
	"verifharness/hx"
)

// CoreRes is what the Go parser reports for a core token program in one variant.
type CoreRes struct {
	Ok   bool   `json:"ok"`
	Msg  string `json:"msg,omitempty"`  // error text without the position prefix
	Inc  bool   `json:"inc,omitempty"`  // syntax.IsIncomplete(err)
	Kind string `json:"kind,omitempty"` // ParseError | LangError | other
	Idx  int    `json:"idx"`            // index (in the normalised token list) of the token the error points at; n = end of input
}

type CoreCase struct {
	Toks  []string `json:"toks"` // normalised token kinds (runs of Newl merged, as the lexer does)
	Src   string   `json:"src"`
	Base  bool     `json:"base,omitempty"`
	Cut   bool     `json:"cut,omitempty"`
	Bash  CoreRes  `json:"bash"`
	Posix CoreRes  `json:"posix"`
}

// normStarts: normalised kinds and the byte offset where each normalised token starts in Render(ts).
func normStarts(ts []Tok) (kinds []string, starts []int) {
	off := 0
	for i, t := range ts {
		if i > 0 && t.K != KNewl && ts[i-1].K != KNewl {
			off++ // the separating space
		}
		if !(t.K == KNewl && i > 0 && ts[i-1].K == KNewl) {
			kinds = append(kinds, t.K)
			starts = append(starts, off)
		}
		off += len(t.T)
	}
	return
}

func coreParse(src string, lang syntax.LangVariant, starts []int) CoreRes {
	var err error
	name := "" // the posix variant goes through Parse with a file name, the bash variant without
	if lang == syntax.LangPOSIX {
		name = "core.sh"
	}
	if p, pm := hx.Try(func() {
		_, err = syntax.NewParser(syntax.Variant(lang)).Parse(strings.NewReader(src), name)
	}); p {
		return CoreRes{Msg: "PANIC: " + pm, Kind: "panic"}
	}
	if err == nil {
		return CoreRes{Ok: true}
	}
	r := CoreRes{Inc: syntax.IsIncomplete(err)}
	var pos syntax.Pos
	switch x := err.(type) {
	case syntax.ParseError:
		r.Kind, r.Msg, pos = "ParseError", x.Text, x.Pos
	case syntax.LangError:
		r.Kind, pos = "LangError", x.Pos
		r.Msg = x.Feature + " LANGERROR"
	default:
		r.Kind, r.Msg = "other", err.Error()
		return r
	}
	offs := int(pos.Offset())
	r.Idx = len(starts)
	if offs < len(src) {
		r.Idx = 0
		for i, s := range starts {
			if s <= offs {
				r.Idx = i
			}
		}
	}
	return r
}

func CoreObserve(ts []Tok) CoreCase {
	kinds, starts := normStarts(ts)
	src := Render(ts)
	return CoreCase{Toks: kinds, Src: src,
		Bash:  coreParse(src, syntax.LangBash, starts),
		Posix: coreParse(src, syntax.LangPOSIX, starts)}
}

// CoreMain: n base programs; for each the program, every token-boundary prefix of it,
// and perBase of its single-token mutations. One JSON line per distinct token-kind list.
func CoreMain(seed uint64, n int, perBase int) {
	r := hx.Rand(seed, 1012)
	g := &Gen{R: r}
	seen := map[string]bool{}
	emit := func(ts []Tok, base, cut bool) {
		c := CoreObserve(ts)
		key := strings.Join(c.Toks, " ")
		if seen[key] {
			return
		}
		seen[key] = true
		c.Base, c.Cut = base, cut
		hx.Emit(c)
	}
	// fixed enumeration: all structured templates and a seed-rotated sixteenth of their mutations (thorough: all)
	sb, sm := StructuredCases()
	for _, ts := range sb {
		emit(ts, true, false)
	}
	slices := uint64(16)
	if perBase > 6 {
		slices = 1
	}
	for i, ts := range sm {
		if uint64(i)%slices == seed%slices {
			emit(ts, false, false)
		}
	}
	for i := 0; i < n; i++ {
		ts := g.Program(1 + r.IntN(3))
		if len(ts) > 40 {
			continue
		}
		emit(ts, true, false)
		for k := 0; k < len(ts); k++ {
			emit(ts[:k], false, true)
		}
		ms := Mutations(ts, r)
		for k := 0; k < perBase && len(ms) > 0; k++ {
			emit(ms[r.IntN(len(ms))], false, false)
		}
	}
}
