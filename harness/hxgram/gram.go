// Package hxgram is shared by the C10 and C12 harness commands: a token-level
// generator for the shared core of the shell grammar (POSIX sh ∩ bash), the
// single-token mutations of its output, the token classifier used for the Coq
// model (coq/Syntax/CoreGrammar.v), the extraction of test-table string
// literals and flipConfirm entries from the repository's *_test.go files
// (parsed with go/parser AS DATA), and a parallel `sh -n` runner.
package hxgram

import (
	"bytes"
	"context"
	"fmt"
	"go/ast"
	"go/parser"
	"go/printer"
	"go/token"
	"math/rand/v2"
	"os"
	"os/exec"
	"path/filepath"
	"strconv"
	"strings"
	"sync"
	"time"
)

// ---------------------------------------------------------------- tokens

// Token kinds; the names are the constructor names of `token` in
// coq/Syntax/CoreGrammar.v (prefixed with T there).
const (
	KWord    = "Word"    // a word with quotes or expansions: 'q r', "$x", $(a)
	KLit     = "Lit"     // unquoted literal that is neither a valid name nor reserved: -x, a.b, 1, x/y
	KName    = "Name"    // unquoted literal that is a valid name and not reserved: a, foo
	KAssign  = "Assign"  // name=value, value purely literal
	KAssignW = "AssignW" // name=value whose value has a quoted or expanded part
	KIf      = "If"
	KThen    = "Then"
	KElif    = "Elif"
	KElse    = "Else"
	KFi      = "Fi"
	KWhile   = "While"
	KUntil   = "Until"
	KDo      = "Do"
	KDone    = "Done"
	KFor     = "For"
	KIn      = "In"
	KCase    = "Case"
	KEsac    = "Esac"
	KLbrace  = "Lbrace"
	KRbrace  = "Rbrace"
	KBang    = "Bang"
	KSemi    = "Semi"
	KAmp     = "Amp"
	KAndAnd  = "AndAnd"
	KOrOr    = "OrOr"
	KPipe    = "Pipe"
	KLparen  = "Lparen"
	KRparen  = "Rparen"
	KDSemi   = "DSemi"
	KNewl    = "Newl"
	KRedir   = "Redir"   // > < >> ; must be followed by a word
	KIoRedir = "IoRedir" // 2> 1> : an io-number glued to a redirection operator
)

type Tok struct {
	K string `json:"k"`
	T string `json:"t"`
}

var fixedText = map[string]string{
	KIf: "if", KThen: "then", KElif: "elif", KElse: "else", KFi: "fi", KWhile: "while", KUntil: "until",
	KDo: "do", KDone: "done", KFor: "for", KIn: "in", KCase: "case", KEsac: "esac", KLbrace: "{", KRbrace: "}",
	KBang: "!", KSemi: ";", KAmp: "&", KAndAnd: "&&", KOrOr: "||", KPipe: "|", KLparen: "(", KRparen: ")",
	KDSemi: ";;", KNewl: "\n",
}

// AllKinds in a fixed order (used for insertion mutations).
var AllKinds = []string{KWord, KLit, KName, KAssign, KIf, KThen, KElif, KElse, KFi, KWhile, KUntil, KDo, KDone, KFor, KIn,
	KCase, KEsac, KLbrace, KRbrace, KBang, KSemi, KAmp, KAndAnd, KOrOr, KPipe, KLparen, KRparen, KDSemi, KNewl, KRedir, KIoRedir}

var wordTexts = []string{"'q r'", `"$x"`, "$(a)", "$x", "${x}", `"d e"`, `"$(a b)"`, "'*'"}
var litTexts = []string{"-x", "a.b", "1", "x/y"}
var nameTexts = []string{"a", "b", "c", "foo", "f", "x", "y"}
var assignTexts = []string{"v=1", "v=", "w='a b'", "v=$x", "u=a"}
var redirTexts = []string{">", "<", ">>"}
var ioRedirTexts = []string{"2>", "1>", "0<"}

func T(k string) Tok { return Tok{K: k, T: fixedText[k]} }

func RandTok(r *rand.Rand, k string) Tok {
	switch k {
	case KWord:
		return Tok{k, wordTexts[r.IntN(len(wordTexts))]}
	case KLit:
		return Tok{k, litTexts[r.IntN(len(litTexts))]}
	case KName:
		return Tok{k, nameTexts[r.IntN(len(nameTexts))]}
	case KAssign:
		t := assignTexts[r.IntN(len(assignTexts))]
		if strings.ContainsAny(t, "'\"$") {
			return Tok{KAssignW, t}
		}
		return Tok{k, t}
	case KRedir:
		return Tok{k, redirTexts[r.IntN(len(redirTexts))]}
	case KIoRedir:
		return Tok{k, ioRedirTexts[r.IntN(len(ioRedirTexts))]}
	}
	return T(k)
}

// Render joins the tokens with single spaces (none around a newline token).
func Render(ts []Tok) string {
	var sb strings.Builder
	for i, t := range ts {
		if i > 0 && t.K != KNewl && ts[i-1].K != KNewl {
			sb.WriteByte(' ')
		}
		sb.WriteString(t.T)
	}
	return sb.String()
}

func Kinds(ts []Tok) []string {
	out := make([]string, len(ts))
	for i, t := range ts {
		out[i] = t.K
	}
	return out
}

// ---------------------------------------------------------------- generator

type Gen struct {
	R *rand.Rand
}

func (g *Gen) word() Tok {
	switch g.R.IntN(5) {
	case 0, 1:
		return RandTok(g.R, KName)
	case 2:
		return RandTok(g.R, KLit)
	}
	return RandTok(g.R, KWord)
}

// sep: a list separator/terminator
func (g *Gen) sep() []Tok {
	switch g.R.IntN(8) {
	case 0:
		return []Tok{T(KNewl)}
	case 1:
		return []Tok{T(KAmp)}
	case 2:
		return []Tok{T(KSemi), T(KNewl)}
	case 3:
		return []Tok{T(KAmp), T(KNewl)}
	default:
		return []Tok{T(KSemi)}
	}
}

func (g *Gen) optNewl() []Tok {
	if g.R.IntN(6) == 0 {
		return []Tok{T(KNewl)}
	}
	return nil
}

func (g *Gen) redir() []Tok {
	if g.R.IntN(4) == 0 {
		return []Tok{RandTok(g.R, KIoRedir), g.word()}
	}
	return []Tok{RandTok(g.R, KRedir), g.word()}
}

func (g *Gen) simple() []Tok {
	var ts []Tok
	for g.R.IntN(5) == 0 {
		ts = append(ts, RandTok(g.R, KAssign))
	}
	if g.R.IntN(8) == 0 {
		ts = append(ts, g.redir()...)
	}
	if len(ts) == 0 || g.R.IntN(3) > 0 {
		// command name: mostly a name
		if g.R.IntN(5) == 0 {
			ts = append(ts, g.word())
		} else {
			ts = append(ts, RandTok(g.R, KName))
		}
		n := g.R.IntN(3)
		for i := 0; i < n; i++ {
			switch g.R.IntN(12) {
			case 0:
				ts = append(ts, RandTok(g.R, KAssign))
			case 1:
				ts = append(ts, g.redir()...)
			case 2:
				// reserved word as an argument
				ts = append(ts, T(Pick(g.R, []string{KIf, KThen, KFi, KDo, KDone, KIn, KEsac, KLbrace, KElse, KFor, KCase, KBang})))
			default:
				ts = append(ts, g.word())
			}
		}
	}
	return ts
}

func Pick[T any](r *rand.Rand, l []T) T { return l[r.IntN(len(l))] }

// term: a list followed by its terminator (";" / newline / "&")
func (g *Gen) term(d int) []Tok {
	ts := g.list(d)
	return append(ts, g.sep()...)
}

func (g *Gen) compound(d int) []Tok {
	var ts []Tok
	switch g.R.IntN(8) {
	case 0:
		ts = append(ts, T(KLparen))
		ts = append(ts, g.optNewl()...)
		ts = append(ts, g.list(d-1)...)
		if g.R.IntN(3) == 0 {
			ts = append(ts, g.sep()...)
		}
		ts = append(ts, T(KRparen))
	case 1:
		ts = append(ts, T(KLbrace))
		ts = append(ts, g.optNewl()...)
		ts = append(ts, g.term(d-1)...)
		ts = append(ts, T(KRbrace))
	case 2, 3:
		ts = append(ts, T(KIf))
		ts = append(ts, g.term(d-1)...)
		ts = append(ts, T(KThen))
		ts = append(ts, g.optNewl()...)
		ts = append(ts, g.term(d-1)...)
		for g.R.IntN(4) == 0 {
			ts = append(ts, T(KElif))
			ts = append(ts, g.term(d-1)...)
			ts = append(ts, T(KThen))
			ts = append(ts, g.term(d-1)...)
		}
		if g.R.IntN(3) == 0 {
			ts = append(ts, T(KElse))
			ts = append(ts, g.optNewl()...)
			ts = append(ts, g.term(d-1)...)
		}
		ts = append(ts, T(KFi))
	case 4:
		ts = append(ts, T(Pick(g.R, []string{KWhile, KUntil})))
		ts = append(ts, g.term(d-1)...)
		ts = append(ts, T(KDo))
		ts = append(ts, g.optNewl()...)
		ts = append(ts, g.term(d-1)...)
		ts = append(ts, T(KDone))
	case 5:
		ts = append(ts, T(KFor), RandTok(g.R, KName))
		switch g.R.IntN(6) {
		case 0: // for x do ... / for x; do
			if g.R.IntN(2) == 0 {
				ts = append(ts, T(KSemi))
			}
		case 1:
			ts = append(ts, T(KNewl))
		default:
			ts = append(ts, g.optNewl()...)
			ts = append(ts, T(KIn))
			n := g.R.IntN(3)
			for i := 0; i < n; i++ {
				ts = append(ts, g.word())
			}
			if g.R.IntN(4) == 0 {
				ts = append(ts, T(KNewl))
			} else {
				ts = append(ts, T(KSemi))
				ts = append(ts, g.optNewl()...)
			}
		}
		ts = append(ts, T(KDo))
		ts = append(ts, g.term(d-1)...)
		ts = append(ts, T(KDone))
	default:
		ts = append(ts, T(KCase), g.word())
		ts = append(ts, g.optNewl()...)
		ts = append(ts, T(KIn))
		ts = append(ts, g.optNewl()...)
		n := g.R.IntN(3)
		for i := 0; i < n; i++ {
			if g.R.IntN(4) == 0 {
				ts = append(ts, T(KLparen))
			}
			ts = append(ts, g.word())
			for g.R.IntN(4) == 0 {
				ts = append(ts, T(KPipe), g.word())
			}
			ts = append(ts, T(KRparen))
			ts = append(ts, g.optNewl()...)
			last := i == n-1
			switch g.R.IntN(4) {
			case 0: // empty body
			default:
				ts = append(ts, g.list(d-1)...)
				if g.R.IntN(3) == 0 {
					ts = append(ts, g.sep()...)
				}
			}
			if !last || g.R.IntN(3) > 0 {
				ts = append(ts, T(KDSemi))
				ts = append(ts, g.optNewl()...)
			} else if len(ts) > 0 && ts[len(ts)-1].K != KNewl && ts[len(ts)-1].K != KSemi && ts[len(ts)-1].K != KAmp {
				// last item without ;; needs a separator before esac unless the body is empty
				if ts[len(ts)-1].K != KRparen {
					ts = append(ts, T(KSemi))
				}
			}
		}
		ts = append(ts, T(KEsac))
	}
	for g.R.IntN(10) == 0 {
		ts = append(ts, g.redir()...)
	}
	return ts
}

func (g *Gen) command(d int) []Tok {
	if d <= 0 {
		return g.simple()
	}
	switch g.R.IntN(10) {
	case 0, 1, 2, 3:
		return g.compound(d)
	case 4:
		ts := []Tok{RandTok(g.R, KName), T(KLparen), T(KRparen)}
		ts = append(ts, g.optNewl()...)
		return append(ts, g.compound(d)...)
	default:
		return g.simple()
	}
}

func (g *Gen) pipeline(d int) []Tok {
	var ts []Tok
	if g.R.IntN(10) == 0 {
		ts = append(ts, T(KBang))
	}
	ts = append(ts, g.command(d)...)
	for g.R.IntN(6) == 0 {
		ts = append(ts, T(KPipe))
		ts = append(ts, g.optNewl()...)
		ts = append(ts, g.command(d)...)
	}
	return ts
}

func (g *Gen) andor(d int) []Tok {
	ts := g.pipeline(d)
	for g.R.IntN(6) == 0 {
		ts = append(ts, T(Pick(g.R, []string{KAndAnd, KOrOr})))
		ts = append(ts, g.optNewl()...)
		ts = append(ts, g.pipeline(d)...)
	}
	return ts
}

func (g *Gen) list(d int) []Tok {
	ts := g.andor(d)
	for g.R.IntN(4) == 0 {
		ts = append(ts, g.sep()...)
		ts = append(ts, g.andor(d)...)
	}
	return ts
}

// Program generates a valid core program as a token list.
func (g *Gen) Program(d int) []Tok {
	var ts []Tok
	if g.R.IntN(12) == 0 {
		ts = append(ts, T(KNewl))
	}
	ts = append(ts, g.list(d)...)
	switch g.R.IntN(4) {
	case 0:
		ts = append(ts, g.sep()...)
	case 1:
		ts = append(ts, T(KNewl))
	}
	return ts
}

// ---------------------------------------------------------------- mutations

// Mutations enumerates the single-token mutations of ts in a fixed order:
// deletions, adjacent swaps, insertions of every kind at every position.
// pick chooses the concrete text of an inserted token.
func Mutations(ts []Tok, r *rand.Rand) [][]Tok {
	var out [][]Tok
	for i := range ts {
		m := append(append([]Tok{}, ts[:i]...), ts[i+1:]...)
		out = append(out, m)
	}
	for i := 0; i+1 < len(ts); i++ {
		if ts[i] == ts[i+1] {
			continue
		}
		m := append([]Tok{}, ts...)
		m[i], m[i+1] = m[i+1], m[i]
		out = append(out, m)
	}
	for i := 0; i <= len(ts); i++ {
		for _, k := range AllKinds {
			m := append(append(append([]Tok{}, ts[:i]...), RandTok(r, k)), ts[i:]...)
			out = append(out, m)
		}
	}
	return out
}

// ---------------------------------------------------------------- corpus from the repo's test tables

func constString(e ast.Expr) (string, bool) {
	switch e := e.(type) {
	case *ast.BasicLit:
		if e.Kind == token.STRING {
			s, err := strconv.Unquote(e.Value)
			return s, err == nil
		}
	case *ast.ParenExpr:
		return constString(e.X)
	case *ast.BinaryExpr:
		if e.Op == token.ADD {
			a, ok1 := constString(e.X)
			b, ok2 := constString(e.Y)
			return a + b, ok1 && ok2
		}
	}
	return "", false
}

// Corpus returns the distinct string constants (literals and their
// concatenations) of the given Go files, in order of first appearance.
func Corpus(files ...string) ([]string, error) {
	seen := map[string]bool{}
	var out []string
	for _, fn := range files {
		fset := token.NewFileSet()
		f, err := parser.ParseFile(fset, fn, nil, parser.SkipObjectResolution)
		if err != nil {
			return nil, err
		}
		ast.Inspect(f, func(n ast.Node) bool {
			e, ok := n.(ast.Expr)
			if !ok {
				return true
			}
			if s, ok := constString(e); ok {
				if !seen[s] {
					seen[s] = true
					out = append(out, s)
				}
				return false
			}
			return true
		})
	}
	return out, nil
}

type Flip struct {
	In    string `json:"in"`
	Langs string `json:"langs"` // source text of the language-set expression
	File  string `json:"file"`
}

// Flips extracts every errCase(...)/fileTest(...) call that carries a
// flipConfirm* option, with its input(s).
func Flips(files ...string) ([]Flip, error) {
	var out []Flip
	for _, fn := range files {
		fset := token.NewFileSet()
		f, err := parser.ParseFile(fset, fn, nil, parser.SkipObjectResolution)
		if err != nil {
			return nil, err
		}
		// resolve `var flipConfirmX = flipConfirm(...)`
		vars := map[string]string{}
		exprText := func(e ast.Expr) string {
			var b bytes.Buffer
			printer.Fprint(&b, fset, e)
			return b.String()
		}
		flipOf := func(e ast.Expr) (string, bool) {
			switch e := e.(type) {
			case *ast.Ident:
				if v, ok := vars[e.Name]; ok {
					return v, true
				}
			case *ast.CallExpr:
				if id, ok := e.Fun.(*ast.Ident); ok && strings.HasPrefix(id.Name, "flipConfirm") && len(e.Args) == 1 {
					return exprText(e.Args[0]), true
				}
			}
			return "", false
		}
		for _, d := range f.Decls {
			gd, ok := d.(*ast.GenDecl)
			if !ok || gd.Tok != token.VAR {
				continue
			}
			for _, sp := range gd.Specs {
				vs := sp.(*ast.ValueSpec)
				for i, nm := range vs.Names {
					if i < len(vs.Values) && strings.HasPrefix(nm.Name, "flipConfirm") {
						if v, ok := flipOf(vs.Values[i]); ok {
							vars[nm.Name] = v
						}
					}
				}
			}
		}
		ast.Inspect(f, func(n ast.Node) bool {
			c, ok := n.(*ast.CallExpr)
			if !ok {
				return true
			}
			id, ok := c.Fun.(*ast.Ident)
			if !ok || (id.Name != "errCase" && id.Name != "fileTest") || len(c.Args) == 0 {
				return true
			}
			var langs string
			found := false
			for _, a := range c.Args[1:] {
				if v, ok := flipOf(a); ok {
					langs, found = v, true
				}
			}
			if !found {
				return true
			}
			var ins []string
			if s, ok := constString(c.Args[0]); ok {
				ins = append(ins, s)
			} else if cl, ok := c.Args[0].(*ast.CompositeLit); ok {
				for _, el := range cl.Elts {
					if s, ok := constString(el); ok {
						ins = append(ins, s)
					}
				}
			}
			for _, in := range ins {
				out = append(out, Flip{In: in, Langs: langs, File: filepath.Base(fn)})
			}
			return true
		})
	}
	return out, nil
}

// ---------------------------------------------------------------- shells

type ShellJob struct {
	Src  string
	Bash int // exit status of bash -n (-1 = not run, 124 = timeout)
	Dash int
}

// RunShells runs `bash -n` and `dash -n` on every job's source (one script
// file per job in dir) with `par` parallel workers. Nothing is executed by
// the shells: -n only parses.
func RunShells(dir string, jobs []ShellJob, par int, doBash, doDash bool) error {
	if err := os.MkdirAll(dir, 0o700); err != nil {
		return err
	}
	var wg sync.WaitGroup
	ch := make(chan int, 256)
	env := []string{"PATH=/usr/bin:/bin", "HOME=" + dir, "LC_ALL=C.UTF-8"}
	runOne := func(shell, file string) int {
		for attempt := 0; ; attempt++ {
			to := 5 * time.Second
			if attempt > 0 {
				to = 50 * time.Second
			}
			ctx, cancel := context.WithTimeout(context.Background(), to)
			cmd := exec.CommandContext(ctx, shell, "-n", file)
			cmd.Env = env
			cmd.Dir = dir
			err := cmd.Run()
			timedOut := ctx.Err() != nil
			cancel()
			if timedOut {
				if attempt == 0 {
					continue
				}
				return 124
			}
			if err == nil {
				return 0
			}
			if ee, ok := err.(*exec.ExitError); ok {
				return ee.ExitCode()
			}
			return 125
		}
	}
	for w := 0; w < par; w++ {
		wg.Add(1)
		go func(w int) {
			defer wg.Done()
			file := filepath.Join(dir, fmt.Sprintf("s%d.sh", w))
			for i := range ch {
				j := &jobs[i]
				j.Bash, j.Dash = -1, -1
				if err := os.WriteFile(file, []byte(j.Src), 0o600); err != nil {
					j.Bash, j.Dash = 125, 125
					continue
				}
				if doBash {
					j.Bash = runOne("/usr/bin/bash", file)
				}
				if doDash {
					j.Dash = runOne("/usr/bin/dash", file)
				}
			}
			os.Remove(file)
		}(w)
	}
	for i := range jobs {
		ch <- i
	}
	close(ch)
	wg.Wait()
	return nil
}

// ---------------------------------------------------------------- tokenizer for the core alphabet

var kindOfText = func() map[string]string {
	m := map[string]string{}
	for k, t := range fixedText {
		m[t] = k
	}
	return m
}()

func isNameText(s string) bool {
	if s == "" {
		return false
	}
	for i, c := range s {
		if !(c == '_' || c >= 'a' && c <= 'z' || c >= 'A' && c <= 'Z' || i > 0 && c >= '0' && c <= '9') {
			return false
		}
	}
	return true
}

// Tokenize splits a source written in the core alphabet (tokens separated by
// single spaces or newlines; words may contain '..', "..", $(..) with spaces)
// into classified tokens. ok=false if a token is outside the alphabet.
func Tokenize(src string) (ts []Tok, ok bool) {
	var cur strings.Builder
	sq, dq, par := false, false, 0
	flush := func() {
		if cur.Len() > 0 {
			ts = append(ts, Tok{T: cur.String()})
			cur.Reset()
		}
	}
	for i := 0; i < len(src); i++ {
		c := src[i]
		switch {
		case sq:
			if c == '\'' {
				sq = false
			}
		case c == '\'' && !dq:
			sq = true
		case c == '"':
			dq = !dq
		case c == '$' && i+1 < len(src) && src[i+1] == '(':
			par++
			cur.WriteByte(c)
			i++
			c = src[i]
		case c == ')' && par > 0:
			par--
		case (c == ' ' || c == '\n') && !dq && par == 0:
			flush()
			if c == '\n' {
				ts = append(ts, T(KNewl))
			}
			continue
		}
		cur.WriteByte(c)
	}
	flush()
	ok = !sq && !dq && par == 0
	for i := range ts {
		t := &ts[i]
		if t.K != "" {
			continue
		}
		s := t.T
		switch {
		case kindOfText[s] != "":
			t.K = kindOfText[s]
		case s == ">" || s == "<" || s == ">>":
			t.K = KRedir
		case len(s) >= 2 && s[0] >= '0' && s[0] <= '9' && (s[1:] == ">" || s[1:] == "<" || s[1:] == ">>"):
			t.K = KIoRedir
		case strings.ContainsAny(s, "<>&|;()`\\#*?[]{}~!") && !strings.ContainsAny(s, "'\"$"):
			ok = false
		case strings.IndexByte(s, '=') > 0 && isNameText(s[:strings.IndexByte(s, '=')]):
			t.K = KAssign
			if strings.ContainsAny(s, "'\"$") {
				t.K = KAssignW
			}
		case isNameText(s):
			t.K = KName
		case !strings.ContainsAny(s, "'\"$="):
			t.K = KLit
		case s[0] == '\'' || s[0] == '"' || s[0] == '$':
			t.K = KWord
		default:
			ok = false
		}
	}
	return ts, ok
}

// ---------------------------------------------------------------- fixed enumeration of structured mutations

var structuredTemplates = []string{
	"if a ; b ; then c ; d ; elif e ; f ; then g ; h ; else i ; j ; fi",
	"if a ; then b ; else c ; d ; fi",
	"if a ; then b ; c ; fi",
	"while a ; b ; do c ; d ; done",
	"until a ; do b ; c ; done",
	"for x in y z ; do a ; b ; done",
	"for x ; do a ; b ; done",
	"case x in a ) b ; c ;; d | e ) f ; g ;; esac",
	"case x in ( a ) b ;; esac",
	"case x in a ) b ; esac",
	"case x in a ) if b ; then c ; fi\nesac",
	"{ a ; b ; }",
	"( a ; b )",
	"f ( ) { a ; b ; }",
	"a && b || c ; d | e & f",
	"! a | b > c ; v=1 d < e",
	"if a\nthen b\nc\nelse d\ne\nfi",
	"while a\ndo b\nc\ndone",
	"case x in\na ) b\nc ;;\nesac",
	"if a ; then while b ; do c ; d ; done ; else for x in y ; do e ; f ; done ; g ; fi",
	"while a ; do if b ; then c ; else d ; e ; fi ; case x in a ) f ; g ;; esac ; done",
	"f ( ) { if a ; then b ; c ; fi ; { d ; e ; } ; ( g ; h ) ; }",
	"case x in a ) if b ; then c ; else d ; fi ;; e ) while f ; do g ; done ;; esac",
	// invalid by construction: a keyword of the enclosing compound repeated or misplaced in a later branch
	"if a ; then b ; else c ; else d ; fi",
	"if a ; then b ; else c ; elif d ; then e ; fi",
	"if a ; then b ; then c ; fi",
	"if a ; then b ; elif c ; else d ; fi",
	"if a ; then b ; fi fi",
	"while a ; do b ; do c ; done",
	"while a ; do b ; done done",
	"for x in y in z ; do a ; done",
	"for x in y ; do a ; done ; done",
	"case x in in a ) b ;; esac",
	"case x in a ) b ;; esac esac",
	"case x in a ) b ;; ;; esac",
	"{ a ; } }",
	"( a ) )",
}

// SubstWrapped: every valid structured template as the body of a command substitution (backquotes, $( ),
// bare, double-quoted, in an assignment), i.e. with its last reserved word right before the closing delimiter.
// (`$( ` with a space: `$((` is the documented no-backtracking difference.)
func SubstWrapped() []string {
	var out []string
	for _, src := range structuredTemplates {
		if strings.HasPrefix(src, "if a ; then b ; else c ; else d") {
			break // the invalid-by-construction templates start here
		}
		for _, w := range [][2]string{{"echo `", "`"}, {"echo $( ", ")"}, {"echo \"`", "`\""}, {"echo \"$( ", ")\""}, {"x=`", "`"}, {"x=$( ", ")"}, {"echo `", " `"}, {"echo `echo $( ", ")`"}} {
			out = append(out, w[0]+src+w[1])
		}
	}
	return out
}

func firstTok(k string) Tok {
	switch k {
	case KWord:
		return Tok{k, wordTexts[0]}
	case KLit:
		return Tok{k, litTexts[0]}
	case KName:
		return Tok{k, "z"}
	case KAssign:
		return Tok{k, "v=1"}
	case KRedir:
		return Tok{k, ">"}
	case KIoRedir:
		return Tok{k, "2>"}
	}
	return T(k)
}

// StructuredCases: every template, and for every template every single-token deletion, adjacent swap and
// insertion of each token kind (plus an assignment with a quoted value) at every position. Deterministic:
// a fixed enumeration over (compound template x position x inserted token), independent of any seed.
func StructuredCases() (bases [][]Tok, muts [][]Tok) {
	kinds := append(append([]string{}, AllKinds...), KAssignW)
	for _, src := range structuredTemplates {
		ts, ok := Tokenize(src)
		if !ok || Render(ts) != src {
			panic("bad structured template: " + src)
		}
		bases = append(bases, ts)
		for i := range ts {
			muts = append(muts, append(append([]Tok{}, ts[:i]...), ts[i+1:]...))
		}
		for i := 0; i+1 < len(ts); i++ {
			if ts[i] == ts[i+1] {
				continue
			}
			m := append([]Tok{}, ts...)
			m[i], m[i+1] = m[i+1], m[i]
			muts = append(muts, m)
		}
		for i := 0; i <= len(ts); i++ {
			for _, k := range kinds {
				tk := firstTok(k)
				if k == KAssignW {
					tk = Tok{k, "w='a b'"}
				}
				muts = append(muts, append(append(append([]Tok{}, ts[:i]...), tk), ts[i:]...))
			}
		}
	}
	return
}

// ArithWords: a fixed enumeration of VALID arithmetic expansions $((E)) over POSIX arithmetic operators:
// every binary operator and the conditional operator applied to every combination of a small set of operands
// (name, number, parenthesized, unary, binary, conditional, parenthesized assignment), i.e. every operator in
// every operand position of every other. The shells accept all of them; so must the parser, in both variants.
func ArithWords() []string {
	ops := []string{"+", "-", "*", "/", "%", "<<", ">>", "<", "<=", ">", ">=", "==", "!=", "&", "^", "|", "&&", "||"}
	asg := []string{"=", "+=", "-=", "*=", "/=", "%=", "<<=", ">>=", "&=", "^=", "|="}
	sub := []string{"a", "1", "(a)", "-a", "!a", "~a", "a + 1", "a * b", "a ? 1 : b", "(a = 1)", "a < b", "a && b"}
	seen := map[string]bool{}
	var out []string
	add := func(e string) {
		if !seen[e] {
			seen[e] = true
			out = append(out, "$(("+e+"))")
		}
	}
	for _, x := range sub {
		add(x)
		for _, y := range sub {
			for _, op := range ops {
				add(x + " " + op + " " + y)
			}
			for _, z := range sub {
				add(x + " ? " + y + " : " + z)
			}
		}
		for _, op := range asg {
			add("a " + op + " " + x)
		}
	}
	return out
}
