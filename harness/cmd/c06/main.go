// c06: "Parsing and printing never crash or hang".
//
//	c06 search -seed S -tier T     parent: builds the input list, feeds a worker subprocess under a
//	                               per-input watchdog; a hang or crash is an observation of that input
//	c06 worker                     child: one hex input per stdin line -> one JSON line
//	c06 scale  -seed S -tier T     repeated/nested families at sizes n,2n,4n,8n: step counts and times
//	c06 one -in FILE               replay one input (hex in FILE) in-process
//
// Per input the worker runs the six entry points x 5 variants x KeepComments x StopAt x RecoverErrors(0..3)
// (full cross on every 8th input and on short inputs, a seeded sample otherwise), then Print (5 option
// sets), Walk, typedjson.Encode, Simplify, Print on every node that came back.
package main

import (
	"bufio"
	"encoding/hex"
	"encoding/json"
	"fmt"
	"io"
	"math/rand/v2"
	"os"
	"os/exec"
	"sort"
	"strings"
	"sync"
	"time"

	"mvdan.cc/sh/v3/syntax"
	"verifharness/hx"
	hs "verifharness/hxc06"
)

type panicObs struct {
	Entry string `json:"entry"`
	Cfg   string `json:"cfg"`
	Stage string `json:"stage"`
	Msg   string `json:"msg"`
	Err   string `json:"err,omitempty"` // error the entry point returned alongside the node ("" = none)
}

type obs struct {
	ID      string     `json:"id"`
	Hex     string     `json:"hex"`
	Len     int        `json:"len"`
	NConf   int        `json:"nconf"`
	NTrees  int        `json:"ntrees"`
	NErr    int        `json:"nerr"`
	Panics  []panicObs `json:"panics,omitempty"`
	NsMax   int64      `json:"ns_max"`   // slowest single entry-point call
	NsParse int64      `json:"ns_parse"` // Parse, bash, KeepComments: min of 3
	Next    int64      `json:"next"`     // counters for that same Parse (0 without instrumentation)
	Rune    int64      `json:"rune"`
	Loop    int64      `json:"loop"`
	MaxStep int64      `json:"max_step"` // max over all calls of next+rune+loop
	MaxCfg  string     `json:"max_cfg"`
	XRune   int64      `json:"xrune"` // max over all calls of (rune calls - len)
	XNext   int64      `json:"xnext"` // max over all calls of (next calls - len)
	XCfg    string     `json:"xcfg"`
	Hang    string     `json:"hang,omitempty"`
	Crash   string     `json:"crash,omitempty"`
}

func allCfgs() []hs.Cfg {
	var out []hs.Cfg
	for _, l := range hs.Langs {
		for _, keep := range []bool{true, false} {
			for _, stop := range []string{"", "$$"} {
				for rec := 0; rec <= 3; rec++ {
					out = append(out, hs.Cfg{Lang: l, Keep: keep, StopAt: stop, Recover: rec})
				}
			}
		}
	}
	return out
}

func steps() int64 { return syntax.VerifNextCount + syntax.VerifRuneCount + syntax.VerifLoopCount }

// truncJobs: the configurations a truncated input is run under: recovery on, every variant.
func truncJobs(all bool) (jobs []struct {
	cfg   hs.Cfg
	entry string
}) {
	add := func(c hs.Cfg, e string) {
		jobs = append(jobs, struct {
			cfg   hs.Cfg
			entry string
		}{c, e})
	}
	for _, l := range hs.Langs {
		if all {
			for _, rec := range []int{0, 1, 3} {
				add(hs.Cfg{Lang: l, Keep: true, Recover: rec}, "Parse")
			}
			if l == syntax.LangBash || l == syntax.LangZsh {
				add(hs.Cfg{Lang: l, Keep: false, Recover: 1}, "StmtsSeq")
			}
			if l == syntax.LangBash {
				add(hs.Cfg{Lang: l, Keep: true, Recover: 2}, "Parse")
				for _, e := range []string{"InteractiveSeq", "WordsSeq", "Document", "Arithmetic"} {
					add(hs.Cfg{Lang: l, Keep: true, Recover: 1}, e)
				}
			}
		} else {
			add(hs.Cfg{Lang: l, Keep: true, Recover: 1}, "Parse")
			add(hs.Cfg{Lang: l, Keep: false, Recover: 3}, "Parse")
		}
	}
	if !all {
		add(hs.Cfg{Lang: syntax.LangBash, Keep: true, Recover: 2}, "StmtsSeq")
		add(hs.Cfg{Lang: syntax.LangBash, Keep: true, Recover: 2}, "Arithmetic")
	}
	return jobs
}

func runInput(id, src string, mode string, r *rand.Rand) obs {
	full := mode == "1"
	o := obs{ID: id, Hex: hx.Hex(src), Len: len(src)}
	cfgs := allCfgs()
	type job struct {
		cfg   hs.Cfg
		entry string
	}
	var jobs []job
	if mode == "m" || mode == "b" {
		for _, l := range hs.Langs {
			jobs = append(jobs, job{hs.Cfg{Lang: l, Keep: true}, "Parse"})
		}
		if mode == "m" {
			jobs = append(jobs, job{hs.Cfg{Lang: syntax.LangBash, Keep: true, Recover: 1}, "Parse"}, job{hs.Cfg{Lang: syntax.LangZsh, Keep: true}, "StmtsSeq"})
		}
		jobs = append(jobs, job{hs.Cfg{Lang: syntax.LangBash, Keep: false}, "InteractiveSeq"})
		if mode == "b" {
			jobs = append(jobs, job{hs.Cfg{Lang: syntax.LangBash, Keep: true, StopAt: "$$"}, "Parse"}, job{hs.Cfg{Lang: syntax.LangZsh, Keep: false, StopAt: "#"}, "StmtsSeq"})
		}
		full = mode == "m" // all printer option sets for the operand matrix
	} else if mode == "T" || mode == "t" {
		for _, j := range truncJobs(mode == "T") {
			jobs = append(jobs, job{j.cfg, j.entry})
		}
		full = false // two printer option sets per node are enough here; the volume is in the prefixes
	} else if full {
		for _, c := range cfgs {
			for _, e := range hs.Entries {
				jobs = append(jobs, job{c, e})
			}
		}
	} else {
		// every (variant, entry) pair once with seeded options, plus 20 random pairs
		for _, l := range hs.Langs {
			for _, e := range hs.Entries {
				jobs = append(jobs, job{hs.Cfg{Lang: l, Keep: r.IntN(2) == 0, StopAt: hx.Pick(r, []string{"", "", "$$", "#", "x"}), Recover: r.IntN(4)}, e})
			}
		}
		for i := 0; i < 20; i++ {
			jobs = append(jobs, job{cfgs[r.IntN(len(cfgs))], hx.Pick(r, hs.Entries)})
		}
	}
	for _, j := range jobs {
		p := j.cfg.New()
		syntax.VerifCountersReset()
		t0 := time.Now()
		res := hs.Call(p, j.entry, src)
		d := time.Since(t0).Nanoseconds()
		st := steps()
		o.NConf++
		if d > o.NsMax {
			o.NsMax = d
		}
		if x := syntax.VerifRuneCount - int64(len(src)); x > o.XRune || o.NConf == 1 {
			o.XRune, o.XCfg = x, j.entry+"/"+j.cfg.String()
		}
		if x := syntax.VerifNextCount - int64(len(src)); x > o.XNext || o.NConf == 1 {
			o.XNext = x
		}
		if st > o.MaxStep {
			o.MaxStep, o.MaxCfg = st, j.entry+"/"+j.cfg.String()
		}
		if res.Panic != "" {
			o.Panics = append(o.Panics, panicObs{j.entry, j.cfg.String(), "parse", res.Panic, ""})
			continue
		}
		if res.Err != nil {
			o.NErr++
		}
		for _, n := range res.Nodes {
			o.NTrees++
			var sets []string
			if mode == "b" {
				sets = []string{"default"}
			} else if !full {
				sets = []string{"default", hs.PrinterSetNames[1+r.IntN(len(hs.PrinterSetNames)-1)]}
			}
			for _, pm := range hs.Post(n, sets...) {
				stage, msg, _ := strings.Cut(pm, ": ")
				o.Panics = append(o.Panics, panicObs{j.entry, j.cfg.String(), stage, msg, hs.ErrStr(res.Err)})
			}
		}
	}
	// reference timing / step count: Parse, bash, comments kept
	ref := hs.Cfg{Lang: syntax.LangBash, Keep: true}
	o.NsParse = 1 << 62
	for i := 0; i < 3; i++ {
		p := ref.New()
		syntax.VerifCountersReset()
		t0 := time.Now()
		hs.Call(p, "Parse", src)
		if d := time.Since(t0).Nanoseconds(); d < o.NsParse {
			o.NsParse = d
		}
		o.Next, o.Rune, o.Loop = syntax.VerifNextCount, syntax.VerifRuneCount, syntax.VerifLoopCount
	}
	if len(o.Panics) > 12 {
		o.Panics = o.Panics[:12]
	}
	return o
}

// ---------------------------------------------------------------- worker

func worker() {
	hs.Guard(24*time.Hour, 3<<30) // memory only: time is the parent's watchdog
	in := bufio.NewReaderSize(os.Stdin, 1<<20)
	out := bufio.NewWriterSize(os.Stdout, 1<<20)
	for {
		line, err := in.ReadString('\n')
		if line = strings.TrimSpace(line); line != "" {
			f := strings.Split(line, "\t") // id, hex, full(0/1), cfgseed
			src := hx.UnHex(f[1])
			var cs uint64
			fmt.Sscan(f[3], &cs)
			o := runInput(f[0], src, f[2], hx.Rand(cs, 601))
			b, _ := json.Marshal(o)
			out.Write(b)
			out.WriteByte('\n')
			out.Flush()
		}
		if err != nil {
			return
		}
	}
}

type child struct {
	cmd *exec.Cmd
	in  io.WriteCloser
	out *bufio.Reader
}

func startChild() *child {
	cmd := exec.Command(os.Args[0], "worker")
	cmd.Stderr = nil
	in, _ := cmd.StdinPipe()
	outp, _ := cmd.StdoutPipe()
	if err := cmd.Start(); err != nil {
		panic(err)
	}
	return &child{cmd, in, bufio.NewReaderSize(outp, 1<<20)}
}

func (c *child) kill() {
	c.in.Close()
	c.cmd.Process.Kill()
	c.cmd.Wait()
}

// ask sends one request; returns the reply line, or "" with reason "hang"/"crash".
func (c *child) ask(req string, budget time.Duration) (string, string) {
	type rep struct {
		line string
		err  error
	}
	ch := make(chan rep, 1)
	go func() {
		if _, err := io.WriteString(c.in, req+"\n"); err != nil {
			ch <- rep{"", err}
			return
		}
		l, err := c.out.ReadString('\n')
		ch <- rep{l, err}
	}()
	select {
	case r := <-ch:
		if r.err != nil || !strings.HasPrefix(r.line, "{") {
			return "", "crash"
		}
		return r.line, ""
	case <-time.After(budget):
		return "", "hang"
	}
}

type input struct {
	id, src string
	full    bool
	mode    string // "" (by full), "T" truncation of a catalogue construct, "t" truncation of a corpus item
}

func buildInputs(seed uint64, tier string, nGen int) []input {
	corpus := hs.Corpus(4000)
	var ins []input
	parts := 8
	if nGen <= 0 {
		nGen = 100
	}
	if tier == "thorough" {
		parts = 1
	}
	for i, s := range hs.Regress("c06") { // minimised regression inputs run first
		ins = append(ins, input{id: fmt.Sprintf("regress:%d", i), src: s, full: true})
	}
	for i, s := range hs.Always() {
		ins = append(ins, input{id: fmt.Sprintf("pinned:%d", i), src: s, full: true})
	}
	for i, s := range corpus {
		if parts > 1 && uint64(i)%uint64(parts) != seed%uint64(parts) {
			continue
		}
		ins = append(ins, input{id: fmt.Sprintf("corpus:%d", i), src: s, full: i%32 == 0 || len(s) < 6})
	}
	// fixed enumeration: every byte-prefix of every catalogue construct (always, all of them), and the prefixes of the
	// corpus slice at every token boundary, parsed with recovery on
	seenT := map[string]bool{}
	for ci, c := range hs.Catalogue {
		for b := 1; b <= len(c); b++ {
			if p := c[:b]; !seenT[p] {
				seenT[p] = true
				ins = append(ins, input{id: fmt.Sprintf("trunc-cat:%d:%d", ci, b), src: p, mode: "T"})
			}
		}
	}
	for si, stream := range hs.Streams {
		r := hx.Rand(seed, 610+uint64(si))
		for i := 0; i < nGen; i++ {
			s := hs.ByName(r, stream, corpus)
			ins = append(ins, input{id: fmt.Sprintf("%s:%d:%d", stream, seed, i), src: s, full: i%16 == 0})
		}
	}
	// fixed enumeration: operand matrix (every template slot x every degenerate operand shape), rotated in thirds in quick
	for i, m := range hs.Matrix() {
		if tier == "thorough" || uint64(i)%3 == seed%3 {
			ins = append(ins, input{id: fmt.Sprintf("matrix:%d", i), src: m, mode: "m"})
		}
	}
	// fixed enumeration: runs that end on either side of 1x / 2x the read buffer, in every lexical context
	for i, e := range hs.BufEdge(hs.BufSize()) {
		ins = append(ins, input{id: fmt.Sprintf("bufedge:%d", i), src: e, mode: "b"})
	}
	tparts := 32
	if tier == "thorough" {
		tparts = 1
	}
	for i, s := range corpus {
		if uint64(i)%uint64(tparts) != seed%uint64(tparts) || len(s) > 600 {
			continue
		}
		for _, b := range hs.TokenBoundaries(s) {
			if p := s[:b]; !seenT[p] {
				seenT[p] = true
				ins = append(ins, input{id: fmt.Sprintf("trunc:%d:%d", i, b), src: p, mode: "t"})
			}
		}
	}
	return ins
}

func search(o hx.Opts) {
	ins := buildInputs(o.Seed, o.Tier, o.N)
	budget := 6 * time.Second
	workers := 6
	fmt.Sscan(os.Getenv("C06_WORKERS"), &workers)
	if workers < 1 {
		workers = 1
	}
	var mu sync.Mutex
	nHang, nCrash, nDone := 0, 0, 0
	start := time.Now()
	capS := 0
	fmt.Sscan(os.Getenv("C06_BUDGET_S"), &capS)
	next := 0
	take := func() (int, bool) { // inputs are handed out in order; the cap cuts the tail of the list
		mu.Lock()
		defer mu.Unlock()
		if next >= len(ins) || (capS > 0 && time.Since(start) > time.Duration(capS)*time.Second) {
			return 0, false
		}
		next++
		nDone++
		return next - 1, true
	}
	emit := func(v any) {
		mu.Lock()
		hx.Emit(v)
		mu.Unlock()
	}
	var wg sync.WaitGroup
	for w := 0; w < workers; w++ {
		wg.Add(1)
		go func() {
			defer wg.Done()
			c := startChild()
			defer func() { c.kill() }()
			for {
				i, ok := take()
				if !ok {
					return
				}
				in := ins[i]
				mode := in.mode
				if mode == "" {
					mode = fmt.Sprint(b2i(in.full))
				}
				req := fmt.Sprintf("%s\t%s\t%s\t%d", in.id, hex.EncodeToString([]byte(in.src)), mode, o.Seed*1000003+uint64(i))
				line, why := c.ask(req, budget)
				if why != "" {
					// never a verdict by itself: re-run alone in a fresh worker with 10x the budget
					c.kill()
					c = startChild()
					line, why = c.ask(req, 10*budget)
					if why != "" {
						c.kill()
						c = startChild()
						ob := obs{ID: in.id, Hex: hx.Hex(in.src), Len: len(in.src)}
						mu.Lock()
						if why == "hang" {
							ob.Hang = fmt.Sprintf("no answer within %v (fresh worker)", 10*budget)
							nHang++
						} else {
							ob.Crash = "worker died (fatal error: not recoverable by recover())"
							nCrash++
						}
						mu.Unlock()
						emit(ob)
						continue
					}
				}
				emit(json.RawMessage(strings.TrimSpace(line)))
			}
		}()
	}
	wg.Wait()
	hx.Emit(map[string]any{"summary": map[string]any{"inputs": len(ins), "done": nDone, "hangs": nHang, "crashes": nCrash, "workers": workers}})
}

func b2i(b bool) int {
	if b {
		return 1
	}
	return 0
}

// ---------------------------------------------------------------- scale

type scaleObs struct {
	Family  string  `json:"family"`
	Closed  bool    `json:"closed"`
	Lang    string  `json:"lang"`
	Entry   string  `json:"entry"`
	Sizes   []int   `json:"sizes"` // input lengths
	Steps   []int64 `json:"steps"`
	Ns      []int64 `json:"ns"`
	Panic   string  `json:"panic,omitempty"`
	Hang    string  `json:"hang,omitempty"`
	Crash   string  `json:"crash,omitempty"`
	WithErr bool    `json:"with_err,omitempty"` // the post-processing panic happened on a node returned together with an error
}

// scale: every family runs in its own child process under a watchdog (a non-advancing loop must not hang the check).
func scale(o hx.Opts) {
	r := hx.Rand(o.Seed, 620)
	nNest := len(hs.NestPairs)
	for fi := 0; fi < nNest+len(hs.ProductFamilies); fi++ {
		var p struct{ Open, Close string }
		if fi < nNest {
			if o.Tier != "thorough" && uint64(fi)%3 != o.Seed%3 {
				continue
			}
			p.Open, p.Close = hs.NestPairs[fi].Open, hs.NestPairs[fi].Close
		} else {
			// product families: all of them on every run (they are the only inputs where two parts of one construct grow together)
			pf := hs.ProductFamilies[fi-nNest]
			p.Open, p.Close = "product:"+pf.Head+"["+pf.A+"]*n"+pf.Mid+"["+pf.B+"]*n", ""
		}
		for _, closed := range []bool{true, false} {
			if !closed && p.Close == "" {
				continue
			}
			lang := hs.Langs[r.IntN(len(hs.Langs))]
			entry := "Parse"
			if r.IntN(4) == 0 {
				entry = hx.Pick(r, hs.Entries)
			}
			cmd := exec.Command(os.Args[0], "scale1", "-tier", o.Tier, fmt.Sprint(fi), fmt.Sprint(closed), lang.String(), entry)
			var outb strings.Builder
			cmd.Stdout = &outb
			if err := cmd.Start(); err != nil {
				panic(err)
			}
			done := make(chan error, 1)
			go func() { done <- cmd.Wait() }()
			select {
			case err := <-done:
				line := strings.TrimSpace(outb.String())
				if err != nil || !strings.HasPrefix(line, "{") {
					hx.Emit(scaleObs{Family: p.Open + "…" + p.Close, Closed: closed, Lang: lang.String(), Entry: entry, Crash: "child died: " + fmt.Sprint(err)})
				} else {
					hx.Emit(json.RawMessage(line))
				}
			case <-time.After(120 * time.Second):
				cmd.Process.Kill()
				<-done
				hx.Emit(scaleObs{Family: p.Open + "…" + p.Close, Closed: closed, Lang: lang.String(), Entry: entry, Hang: "no answer within 120s"})
			}
		}
	}
}

func scale1(o hx.Opts) {
	hs.Guard(24*time.Hour, 4<<30)
	base := 250
	if o.Tier == "thorough" {
		base = 1500
	}
	var fi int
	fmt.Sscan(o.Args[0], &fi)
	closed := o.Args[1] == "true"
	lang := hs.LangByName(o.Args[2])
	entry := o.Args[3]
	var mk func(n int) string
	so := scaleObs{Closed: closed, Lang: lang.String(), Entry: entry}
	if fi < len(hs.NestPairs) {
		p := hs.NestPairs[fi]
		so.Family = p.Open + "…" + p.Close
		mk = func(n int) string { return hs.Nest(p, n, closed) }
	} else {
		pf := hs.ProductFamilies[fi-len(hs.NestPairs)]
		so.Family = "product:" + pf.Head + "[" + pf.A + "]*n" + pf.Mid + "[" + pf.B + "]*n"
		mk = func(n int) string { return hs.Product(pf, n) }
		base *= 2
	}
	for _, mult := range []int{1, 2, 4, 8} {
		src := mk(base * mult)
		best := int64(1 << 62)
		var st int64
		for rep := 0; rep < 2; rep++ {
			pr := hs.Cfg{Lang: lang, Keep: true}.New()
			syntax.VerifCountersReset()
			t0 := time.Now()
			res := hs.Call(pr, entry, src)
			if d := time.Since(t0).Nanoseconds(); d < best {
				best = d
			}
			st = steps()
			if res.Panic != "" {
				so.Panic = "parse: " + res.Panic
			}
			if rep == 0 && mult == 1 && res.Panic == "" { // post-process the smallest size only: the point here is the step count
				for _, n := range res.Nodes {
					if pm := hs.Post(n, "default"); len(pm) > 0 {
						so.Panic = pm[0]
						so.WithErr = res.Err != nil
					}
				}
			}
		}
		so.Sizes = append(so.Sizes, len(src))
		so.Steps = append(so.Steps, st)
		so.Ns = append(so.Ns, best)
	}
	hx.Emit(so)
}

func main() {
	o := hx.ParseArgs()
	defer hx.Flush()
	switch o.Mode {
	case "worker":
		worker()
	case "search":
		search(o)
	case "scale":
		scale(o)
	case "scale1":
		scale1(o)
	case "one":
		b, err := os.ReadFile(o.In)
		if err != nil {
			panic(err)
		}
		src := hx.UnHex(strings.TrimSpace(string(b)))
		ob := runInput("one", src, "T", hx.Rand(1, 1))
		hx.Emit(ob)
		ob = runInput("one", src, "1", hx.Rand(1, 1))
		hx.Emit(ob)
	case "list":
		ins := buildInputs(o.Seed, o.Tier, o.N)
		sort.Slice(ins, func(i, j int) bool { return len(ins[i].src) > len(ins[j].src) })
		hx.Emit(map[string]any{"n": len(ins), "longest": len(ins[0].src)})
	}
}
