// c14: syntax.Walk / syntax.Preorder against a reflection enumeration of the tree.
//
//	gen  -in <repo>            emit coq/Gen/Schema.v and coq/Gen/WalkTable.v (reflection + probing of Walk)
//	walk -in <repo> -seed -n   corpus + generated programs, every language variant:
//	                           search (Walk/Preorder vs reflection; pruning at every node and early stop
//	                           at every position on small trees) and cases for the in-kernel model leg
package main

import (
	"fmt"
	"hash/fnv"
	"reflect"
	"sort"
	"strings"

	"mvdan.cc/sh/v3/syntax"
	"verifharness/hx"
	"verifharness/hxsyn"
)

type failure struct {
	Clause string `json:"clause"`
	Class  string `json:"class"`
	Src    string `json:"src"`
	Lang   string `json:"lang"`
	Detail string `json:"detail"`
}

type kcase struct {
	Src    string `json:"src"`
	Lang   string `json:"lang"`
	Nodes  int    `json:"nodes"`
	Value  string `json:"value"`  // Coq term
	Trace  string `json:"trace"`  // Coq list (option key), unpruned Walk
	PruneK int    `json:"prune_k"`
	PTrace string `json:"ptrace"` // Walk answering false at the k-th non-nil call
	StopK  int    `json:"stop_k"`
	Yields string `json:"yields"` // Preorder stopped by the consumer after stop_k+1 yields
}

type tracer struct {
	sch   *hxsyn.Schema
	refs  []hxsyn.NodeRef
	byPtr map[any]int
}

func newTracer(sch *hxsyn.Schema, root syntax.Node) *tracer {
	t := &tracer{sch: sch, refs: hxsyn.Enumerate(root), byPtr: map[any]int{}}
	for i, r := range t.refs {
		t.byPtr[r.Ptr] = i
	}
	return t
}

// run walks root; decide(i) answers the i-th non-nil callback. Events are ref
// indices, -1 for nil, -2 for a node the enumeration does not know.
func (t *tracer) run(root syntax.Node, decide func(i int) bool) (evs []int, keys []string, panicked bool, msg string) {
	used := map[int]bool{}
	byKey := map[string][]int{}
	for i, r := range t.refs {
		byKey[r.Key] = append(byKey[r.Key], i)
	}
	i := 0
	panicked, msg = hx.Try(func() {
		syntax.Walk(root, func(n syntax.Node) bool {
			if n == nil {
				evs = append(evs, -1)
				keys = append(keys, "")
				return true
			}
			idx := -2
			if j, ok := t.byPtr[n]; ok && !used[j] {
				idx = j
			} else {
				rv := reflect.ValueOf(n)
				if !(rv.Kind() == reflect.Pointer && rv.IsNil()) {
					for _, j := range byKey[hxsyn.NodeKey(n)] {
						if !used[j] {
							idx = j
							break
						}
					}
				}
			}
			if idx >= 0 {
				used[idx] = true
			}
			evs = append(evs, idx)
			keys = append(keys, coqKey(t.sch, n))
			r := decide(i)
			i++
			return r
		})
	})
	return
}

func coqKey(sch *hxsyn.Schema, n syntax.Node) string {
	rv := reflect.ValueOf(n)
	if rv.Kind() != reflect.Pointer || rv.IsNil() {
		return "Some (0%nat,(0,0),(0,0))"
	}
	sid, _ := sch.SID(rv.Type().Elem())
	po, pl := hxsyn.RawPos(n.Pos())
	eo, el := hxsyn.RawPos(n.End())
	return fmt.Sprintf("Some (%d%%nat,(%d,%d),(%d,%d))", sid, po, pl, eo, el)
}

func coqTrace(keys []string) string {
	var sb strings.Builder
	sb.WriteByte('[')
	for i, k := range keys {
		if i > 0 {
			sb.WriteByte(';')
		}
		if k == "" {
			sb.WriteString("None")
		} else {
			sb.WriteString(k)
		}
	}
	sb.WriteByte(']')
	return sb.String()
}

func isSubseq(small, big []int) bool {
	j := 0
	for _, x := range big {
		if j < len(small) && small[j] == x {
			j++
		}
	}
	return j == len(small)
}

type stats struct {
	Trees, Nodes, PruneRuns, StopRuns, SmallTrees, ParseFail, Programs int
	Kinds                                                               map[string]int
	Deferred                                                            int // trees where some comment arrives after its parent's nil
}

func (t *tracer) descendants(k int) map[int]bool {
	d := map[int]bool{}
	for i := range t.refs {
		for p := t.refs[i].Parent; p >= 0; p = t.refs[p].Parent {
			if p == k {
				d[i] = true
				break
			}
		}
	}
	return d
}

func checkTree(sch *hxsyn.Schema, src, lang string, file *syntax.File, small int, st *stats, fail func(failure)) (full []int, fullKeys []string, tr *tracer, ok bool) {
	tr = newTracer(sch, file)
	st.Trees++
	st.Nodes += len(tr.refs)
	for _, r := range tr.refs {
		st.Kinds[r.Kind]++
	}
	mk := func(clause, class, detail string) {
		fail(failure{Clause: clause, Class: class, Src: src, Lang: lang, Detail: detail})
	}
	full, fullKeys, panicked, msg := tr.run(file, func(int) bool { return true })
	if panicked {
		mk("walk_panics", "", msg)
		return nil, nil, tr, false
	}
	ok = true
	// exactly once
	count := make([]int, len(tr.refs))
	first := make([]int, len(tr.refs))
	nils, entered, depth, minDepth := 0, 0, 0, 0
	for i, e := range full {
		switch {
		case e == -1:
			nils++
			depth--
			if depth < minDepth {
				minDepth = depth
			}
		case e == -2:
			ok = false
			mk("walk_visits_unknown_node", "", fullKeys[i])
			entered++
			depth++
		default:
			if count[e] == 0 {
				first[e] = i
			}
			count[e]++
			entered++
			depth++
		}
	}
	for i, c := range count {
		if c == 0 {
			ok = false
			par := "root"
			if p := tr.refs[i].Parent; p >= 0 {
				par = tr.refs[p].Kind
			}
			mk("walk_misses_node", "", fmt.Sprintf("%s under %s never visited: %s", tr.refs[i].Kind, par, tr.refs[i].Key))
			break
		}
		if c > 1 {
			ok = false
			mk("walk_visits_twice", "", tr.refs[i].Key)
			break
		}
	}
	if nils != entered || depth != 0 || minDepth < 0 {
		ok = false
		mk("nil_not_once_per_entered_node", "", fmt.Sprintf("entered=%d nils=%d final depth=%d min depth=%d", entered, nils, depth, minDepth))
	}
	if ok {
		for i, r := range tr.refs {
			if r.Parent >= 0 && first[r.Parent] > first[i] {
				ok = false
				mk("child_before_parent", "", r.Key)
				break
			}
		}
	}
	if !ok {
		return
	}
	// deferred comments: a child arriving at nesting depth of its parent's siblings
	{
		stack := []int{}
		def := false
		for _, e := range full {
			if e == -1 {
				stack = stack[:len(stack)-1]
				continue
			}
			if p := tr.refs[e].Parent; p >= 0 && (len(stack) == 0 || stack[len(stack)-1] != p) {
				def = true
			}
			stack = append(stack, e)
		}
		if def {
			st.Deferred++
		}
	}
	// Preorder: same sequence
	var nonnil []int
	for _, e := range full {
		if e >= 0 {
			nonnil = append(nonnil, e)
		}
	}
	preSeq := func(stopAfter int) (got []int, extraCalls int, panicked bool) {
		used := map[int]bool{}
		byKey := map[string][]int{}
		for i, r := range tr.refs {
			byKey[r.Key] = append(byKey[r.Key], i)
		}
		stopped := false
		panicked, _ = hx.Try(func() {
			syntax.Preorder(file)(func(n syntax.Node) bool {
				if stopped {
					extraCalls++
					return false
				}
				idx := -2
				if n != nil {
					if j, ok := tr.byPtr[n]; ok && !used[j] {
						idx = j
					} else {
						for _, j := range byKey[hxsyn.NodeKey(n)] {
							if !used[j] {
								idx = j
								break
							}
						}
					}
				}
				if idx >= 0 {
					used[idx] = true
				}
				got = append(got, idx)
				if stopAfter >= 0 && len(got) == stopAfter+1 {
					stopped = true
					return false
				}
				return true
			})
		})
		return
	}
	got, _, pan := preSeq(-1)
	if pan || !reflect.DeepEqual(got, nonnil) {
		ok = false
		mk("preorder_differs_from_walk", "", fmt.Sprintf("panic=%v walk=%v preorder=%v", pan, nonnil, got))
		return
	}
	if len(tr.refs) <= small {
		st.SmallTrees++
		for k := range nonnil {
			// pruning at the k-th node
			pk, _, pan, msg := tr.run(file, func(i int) bool { return i != k })
			st.PruneRuns++
			if pan {
				ok = false
				mk("walk_panics_when_pruning", "", msg)
				break
			}
			desc := tr.descendants(nonnil[k])
			seen := map[int]bool{}
			pn := 0
			for _, e := range pk {
				if e >= 0 {
					seen[e] = true
				} else if e == -1 {
					pn++
				}
			}
			bad := !isSubseq(pk, full) || pn != nils-len(desc)-1
			for i := range tr.refs {
				if seen[i] == desc[i] { // visited iff not a descendant of the pruned node
					bad = true
				}
			}
			if bad {
				ok = false
				mk("prune_does_not_skip_exactly_the_children", "", fmt.Sprintf("k=%d node=%s full=%v pruned=%v", k, tr.refs[nonnil[k]].Key, full, pk))
				break
			}
			// early stop after k+1 yields
			got, extra, pan := preSeq(k)
			st.StopRuns++
			if pan || extra > 0 || !reflect.DeepEqual(got, nonnil[:k+1]) {
				ok = false
				mk("preorder_does_not_stop", "", fmt.Sprintf("k=%d panic=%v calls after stop=%d got=%v want=%v", k, pan, extra, got, nonnil[:k+1]))
				break
			}
		}
	}
	return
}

func main() {
	o := hx.ParseArgs()
	defer hx.Flush()
	repo := o.In
	if repo == "" {
		repo = "/repo"
	}
	sch := hxsyn.BuildSchema()
	switch o.Mode {
	case "gen":
		rows := sch.ProbeWalk()
		missing, extra, err := hxsyn.RegistryDiff(repo)
		info := map[string]any{"registry_missing": missing, "registry_extra": extra, "problems": sch.Problems,
			"probe_notes": hxsyn.Missing(rows), "structs": len(sch.Structs)}
		if err != nil {
			info["source_error"] = err.Error()
		}
		hx.Emit(map[string]any{"file": "Schema.v", "text": sch.CoqSchema()})
		hx.Emit(map[string]any{"file": "WalkTable.v", "text": sch.CoqWalkTable(rows)})
		hx.Emit(map[string]any{"info": info})
	case "walk":
		corpus, err := hxsyn.Corpus(repo)
		if err != nil {
			hx.Emit(map[string]any{"error": err.Error()})
			return
		}
		// pinned regression corpus first, on every seed and tier
		pinnedSrc := map[string]bool{}
		var progs []string
		if len(o.Args) > 0 {
			reg, err := hxsyn.LoadRegress(o.Args[0])
			if err != nil {
				hx.Emit(map[string]any{"error": "regress corpus: " + err.Error()})
				return
			}
			for _, r := range reg {
				if r.Src != "" {
					progs = append(progs, r.Src)
					pinnedSrc[r.Src] = true
				}
			}
		}
		progs = append(progs, corpus...)
		progs = append(progs, hxsyn.Extra...)
		r := hx.Rand(o.Seed, 14)
		base := append(append([]string{}, corpus...), hxsyn.Extra...)
		for i := 0; i < o.N; i++ {
			progs = append(progs, hxsyn.Mutate(r, base))
		}
		small, kcases, kmax := 40, 120, 160
		if o.Tier == "thorough" {
			small, kcases = 90, 1200
		}
		st := &stats{Kinds: map[string]int{}}
		nfail := 0
		seenTree := map[string]bool{}
		var cands []kcase
		for _, src := range progs {
			st.Programs++
			parsed := false
			hxsyn.ParseAll(src, func(li int, file *syntax.File) {
				parsed = true
				lang := hxsyn.LangNames[li]
				full, keys, tr, ok := checkTree(sch, src, lang, file, small, st, func(f failure) {
					nfail++
					if nfail <= 200 {
						hx.Emit(map[string]any{"fail": f})
					}
				})
				if !ok || len(tr.refs) > kmax || len(tr.refs) < 2 {
					return
				}
				val, err := sch.Export(reflect.ValueOf(file).Elem(), true)
				if err != nil {
					hx.Emit(map[string]any{"export_error": err.Error(), "src": src, "lang": lang})
					return
				}
				h := fnv.New64a()
				h.Write([]byte(val))
				id := fmt.Sprint(h.Sum64())
				if seenTree[id] {
					return
				}
				seenTree[id] = true
				nn := 0
				for _, e := range full {
					if e >= 0 {
						nn++
					}
				}
				hv := h.Sum64() ^ (o.Seed * 0x9E3779B97F4A7C15)
				pk := int(hv % uint64(nn))
				sk := int((hv >> 20) % uint64(nn))
				_, pkeys, _, _ := tr.run(file, func(i int) bool { return i != pk })
				var ykeys []string
				cnt := 0
				syntax.Preorder(file)(func(n syntax.Node) bool {
					ykeys = append(ykeys, coqKey(sch, n))
					cnt++
					return cnt < sk+1
				})
				cands = append(cands, kcase{Src: src, Lang: lang, Nodes: len(tr.refs), Value: val, Trace: coqTrace(keys),
					PruneK: pk, PTrace: coqTrace(pkeys), StopK: sk, Yields: coqTrace(ykeys)})
			})
			if !parsed {
				st.ParseFail++
			}
		}
		// seed-rotated sample for the in-kernel leg; trees with comments and rare kinds first
		sort.SliceStable(cands, func(i, j int) bool {
			if pinnedSrc[cands[i].Src] != pinnedSrc[cands[j].Src] {
				return pinnedSrc[cands[i].Src] // pinned items are always in the in-kernel sample
			}
			hi, hj := fnv.New64a(), fnv.New64a()
			hi.Write([]byte(fmt.Sprint(o.Seed, cands[i].Src, cands[i].Lang)))
			hj.Write([]byte(fmt.Sprint(o.Seed, cands[j].Src, cands[j].Lang)))
			return hi.Sum64() < hj.Sum64()
		})
		if len(cands) > kcases {
			cands = cands[:kcases]
		}
		for _, c := range cands {
			hx.Emit(map[string]any{"case": c})
		}
		hx.Emit(map[string]any{"summary": st, "failures": nfail})
	default:
		panic("unknown mode " + o.Mode)
	}
}
