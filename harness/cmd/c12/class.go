package main

import (
	"strings"

	"mvdan.cc/sh/v3/syntax"
	"verifharness/hxgram"
)

// classify attributes one disagreement (clause) on case o to a documented
// intentional difference ("documented:<mechanism>") or to a known-finding
// class. Every predicate is decided on the input alone: on its token kinds,
// or on the tree the parser builds for it when the parser accepts it; each
// names one mechanism. "" = unattributed.
func classify(o *obs, clause string) string {
	switch clause {
	case "bash_accepts_parser_rejects":
		// documented (parser_test.go, flipConfirm(LangBash) on "! !": "bash allows lone `!`, unlike dash, mksh, and us")
		if strings.HasSuffix(o.GoBash, "cannot form a statement alone") {
			return "documented:lone_bang"
		}
		if strings.HasSuffix(o.GoBash, "cannot negate a command multiple times") {
			return "documented:double_bang"
		}
		if leadingRedirThenReserved(o.Toks) {
			return "leading_redirect_then_reserved_word"
		}
	case "dash_accepts_parser_rejects":
		if leadingRedirThenReserved(o.Toks) {
			return "leading_redirect_then_reserved_word"
		}
		if hasSeq(o.Toks, hxgram.KFor, "*", hxgram.KNewl, hxgram.KSemi) {
			return "dash_for_newline_semicolon"
		}
		if operatorAsCasePattern(o.Toks) {
			return "dash_operator_as_case_pattern"
		}
	case "parser_accepts_bash_rejects":
		if c := classifyAccepted(o.Src, syntax.LangBash, true); c != "" {
			return c
		}
		if forNewlineInAfterCase(o.Toks) {
			return "bash_for_newline_in_after_case"
		}
	case "parser_accepts_dash_rejects":
		return classifyAccepted(o.Src, syntax.LangPOSIX, false)
	}
	return ""
}

// forNewlineInAfterCase: `for NAME <newline> in` somewhere after a `case` keyword. bash 5.2 then no
// longer recognises `in` (its lexer state from the case command leaks), although the grammar allows it.
func forNewlineInAfterCase(toks []string) bool {
	seenCase := false
	for i := 0; i+3 < len(toks); i++ {
		if toks[i] == hxgram.KCase {
			seenCase = true
		}
		if seenCase && toks[i] == hxgram.KFor && toks[i+2] == hxgram.KNewl && toks[i+3] == hxgram.KIn {
			return true
		}
	}
	return false
}

// operatorAsCasePattern: inside a case clause, an operator token where a pattern must start (after `in`, `;;`,
// a newline, `(` or `|`) directly followed by `)` or `|`. dash takes any token as a pattern there.
func operatorAsCasePattern(toks []string) bool {
	seenCase := false
	for i := 1; i+1 < len(toks); i++ {
		if toks[i-1] == hxgram.KCase || toks[i] == hxgram.KCase {
			seenCase = true
		}
		if !seenCase {
			continue
		}
		switch toks[i] {
		case hxgram.KSemi, hxgram.KAmp, hxgram.KAndAnd, hxgram.KOrOr, hxgram.KDSemi:
		default:
			continue
		}
		switch toks[i-1] {
		case hxgram.KIn, hxgram.KDSemi, hxgram.KNewl, hxgram.KLparen, hxgram.KPipe:
		default:
			continue
		}
		if toks[i+1] == hxgram.KRparen || toks[i+1] == hxgram.KPipe {
			return true
		}
	}
	return false
}

func hasSeq(toks []string, pat ...string) bool {
outer:
	for i := 0; i+len(pat) <= len(toks); i++ {
		for j, p := range pat {
			if p != "*" && toks[i+j] != p {
				continue outer
			}
		}
		return true
	}
	return false
}

func wordLike(k string) bool {
	switch k {
	case hxgram.KWord, hxgram.KName, hxgram.KLit, hxgram.KAssign, hxgram.KAssignW:
		return true
	}
	return false
}

func reservedKind(k string) bool {
	switch k {
	case hxgram.KIf, hxgram.KThen, hxgram.KElif, hxgram.KElse, hxgram.KFi, hxgram.KWhile, hxgram.KUntil, hxgram.KDo, hxgram.KDone,
		hxgram.KFor, hxgram.KCase, hxgram.KEsac, hxgram.KLbrace, hxgram.KRbrace, hxgram.KBang, hxgram.KIn:
		return true
	}
	return false
}

// leadingRedirThenReserved: a command that starts with one or more
// redirections followed by a reserved word. The shells no longer recognise a
// reserved word after a redirection (it is an ordinary command word); the
// parser still dispatches on it.
func leadingRedirThenReserved(toks []string) bool {
	for i := 2; i < len(toks); i++ {
		if !reservedKind(toks[i]) || toks[i] == hxgram.KIn {
			continue
		}
		// walk back over (Redir target) pairs
		j := i
		for j >= 2 && (toks[j-2] == hxgram.KRedir || toks[j-2] == hxgram.KIoRedir) && (wordLike(toks[j-1]) || reservedKind(toks[j-1])) {
			j -= 2
		}
		if j == i {
			continue
		}
		// the redirections must start the command: nothing word-like right before them
		if j == 0 || !(wordLike(toks[j-1])) {
			return true
		}
	}
	return false
}

func leftmost(s *syntax.Stmt) *syntax.Stmt {
	for s != nil {
		b, ok := s.Cmd.(*syntax.BinaryCmd)
		if !ok {
			return s
		}
		s = b.X
	}
	return s
}

func classifyAccepted(src string, lang syntax.LangVariant, bash bool) string {
	f, err := syntax.NewParser(syntax.Variant(lang)).Parse(strings.NewReader(src), "")
	if err != nil {
		return ""
	}
	class := ""
	set := func(c string, prio int) {
		if class == "" {
			class = c
		}
	}
	var visit func(n syntax.Node) bool
	visit = func(n syntax.Node) bool {
		switch x := n.(type) {
		case *syntax.Stmt:
			if c, ok := x.Cmd.(*syntax.CallExpr); ok && len(c.Assigns) == 0 && len(c.Args) > 0 && c.Args[0].Lit() == "in" {
				first := true
				for _, r := range x.Redirs {
					if r.Pos().Offset() < c.Args[0].Pos().Offset() {
						first = false
					}
				}
				if first {
					set("in_as_command", 0)
				}
			}
			for i, r := range x.Redirs {
				if r.Word == nil {
					continue
				}
				lit := r.Word.Lit()
				if lit == "" || strings.Trim(lit, "0123456789") != "" {
					continue
				}
				end := int(r.Word.End().Offset())
				if end < len(src) && (src[end] == '<' || src[end] == '>') && i+1 <= len(x.Redirs) {
					set("io_number_as_redirect_target", 0)
				}
			}
		case *syntax.FuncDecl:
			if b := leftmost(x.Body); b != nil {
				if b.Negated || x.Body.Negated {
					set("funcdecl_body_negated", 0)
				} else if bash {
					switch b.Cmd.(type) {
					case *syntax.Block, *syntax.Subshell, *syntax.IfClause, *syntax.WhileClause, *syntax.ForClause, *syntax.CaseClause:
					default:
						set("funcdecl_body_simple_command", 0)
					}
				}
			}
		}
		return true
	}
	syntax.Walk(f, visit)
	return class
}
