// c12: parser acceptance vs `bash -n` / `dash -n` on grammar-generated core
// programs and their single-token mutations.
//
//	c12 gen    -seed S -n N [-tier quick|thorough]   one JSON line per case
//	c12 flips  <repo>                                flipConfirm entries of the repo's tests (data)
//	c12 src    -in FILE                              cases from a file (one Go-quoted source per line)
package main

import (
	"bufio"
	"compress/gzip"
	"encoding/json"
	"fmt"
	"io"
	"math/rand/v2"
	"os"
	"runtime"
	"strconv"
	"strings"

	"mvdan.cc/sh/v3/syntax"
	"verifharness/hx"
	"verifharness/hxgram"
)

type obs struct {
	Toks   []string `json:"toks,omitempty"` // token kinds
	Src    string   `json:"src"`
	Base   bool     `json:"base,omitempty"` // an unmutated generated program
	GoBash string   `json:"go_bash"`        // "" = accepted, else error text
	GoPosx string   `json:"go_posix"`
	IncB   bool     `json:"inc_bash,omitempty"` // IsIncomplete(err) in LangBash
	IncP   bool     `json:"inc_posix,omitempty"`
	Bash   int      `json:"bash"` // exit status of bash -n
	Dash   int      `json:"dash"`
	Live   bool     `json:"live,omitempty"`
	// BashOnly: the program uses bash-only syntax; only the LangBash / bash -n comparison is made
	BashOnly bool    `json:"bash_only,omitempty"` // shells run live for this case (else verdicts from the oracle cache)
	Fails    []failT `json:"fails,omitempty"`
}

type failT struct {
	Clause string `json:"clause"`
	Class  string `json:"class,omitempty"` // known-finding class, or "documented:<mechanism>"
}

func goParse(src string, lang syntax.LangVariant) (msg string, inc bool) {
	var err error
	if p, pm := hx.Try(func() {
		_, err = syntax.NewParser(syntax.Variant(lang)).Parse(strings.NewReader(src), "")
	}); p {
		return "PANIC: " + pm, false
	}
	if err == nil {
		return "", false
	}
	return err.Error(), syntax.IsIncomplete(err)
}

func judge(o *obs) {
	bashOK := o.Bash == 0
	dashOK := o.Dash == 0
	if o.Bash == 124 || o.Bash == 125 || o.Dash == 124 || o.Dash == 125 {
		o.Fails = append(o.Fails, failT{Clause: "shell_run_failed"})
		return
	}
	if (o.GoBash == "") != bashOK {
		if bashOK {
			o.Fails = append(o.Fails, failT{Clause: "bash_accepts_parser_rejects"})
		} else {
			o.Fails = append(o.Fails, failT{Clause: "parser_accepts_bash_rejects"})
		}
	}
	if (o.GoPosx == "") != dashOK {
		if dashOK {
			o.Fails = append(o.Fails, failT{Clause: "dash_accepts_parser_rejects"})
		} else {
			o.Fails = append(o.Fails, failT{Clause: "parser_accepts_dash_rejects"})
		}
	}
	for i := range o.Fails {
		o.Fails[i].Class = classify(o, o.Fails[i].Clause)
	}
}

type cacheEnt struct {
	S string `json:"s"`
	B int    `json:"b"`
	D int    `json:"d"`
}

func loadCache(path string) map[string]cacheEnt {
	m := map[string]cacheEnt{}
	if path == "" {
		return m
	}
	f, err := os.Open(path)
	if err != nil {
		return m
	}
	defer f.Close()
	var rd io.Reader = f
	if strings.HasSuffix(path, ".gz") {
		z, err := gzip.NewReader(f)
		if err != nil {
			return m
		}
		rd = z
	}
	sc := bufio.NewScanner(rd)
	sc.Buffer(make([]byte, 1<<20), 1<<20)
	for sc.Scan() {
		var e cacheEnt
		if json.Unmarshal(sc.Bytes(), &e) == nil {
			m[e.S] = e
		}
	}
	return m
}

// runCases fills in the shell verdicts (from the oracle cache where present,
// re-running `recheck` of the cached ones live; everything else live), the Go
// verdicts (always live), judges and emits.
func runCases(cases []obs, cache map[string]cacheEnt, recheck int, r *rand.Rand) {
	dir, err := os.MkdirTemp("/tmp", "c12-")
	if err != nil {
		panic(err)
	}
	defer os.RemoveAll(dir)
	var jobs []hxgram.ShellJob
	var jobIdx []int
	cached := 0
	for i := range cases {
		_, ok := cache[cases[i].Src]
		if ok && !(recheck > 0 && r.IntN(len(cases)) < recheck) {
			cached++
			continue
		}
		jobs = append(jobs, hxgram.ShellJob{Src: cases[i].Src})
		jobIdx = append(jobIdx, i)
	}
	par := runtime.NumCPU()
	if par > 16 {
		par = 16
	}
	if err := hxgram.RunShells(dir, jobs, par, true, true); err != nil {
		panic(err)
	}
	live := map[int]hxgram.ShellJob{}
	for k, i := range jobIdx {
		live[i] = jobs[k]
	}
	stale := 0
	for i := range cases {
		o := &cases[i]
		o.GoBash, o.IncB = goParse(o.Src, syntax.LangBash)
		o.GoPosx, o.IncP = goParse(o.Src, syntax.LangPOSIX)
		if j, ok := live[i]; ok {
			o.Bash, o.Dash, o.Live = j.Bash, j.Dash, true
			if e, ok := cache[o.Src]; ok && (e.B != j.Bash || e.D != j.Dash) {
				stale++
				o.Fails = append(o.Fails, failT{Clause: "oracle_cache_stale"})
			}
		} else {
			e := cache[o.Src]
			o.Bash, o.Dash = e.B, e.D
		}
		judge(o)
		hx.Emit(o)
	}
	hx.Emit(map[string]any{"summary": map[string]int{"cases": len(cases), "live": len(jobs), "cached": cached, "stale": stale}})
}

// genCases: n base programs and their mutations (all of them, or perBase sampled).
func genCases(r *rand.Rand, n, perBase int, seen map[string]bool) []obs {
	g := &hxgram.Gen{R: r}
	var cases []obs
	add := func(ts []hxgram.Tok, base bool) {
		src := hxgram.Render(ts)
		if seen[src] {
			return
		}
		seen[src] = true
		cases = append(cases, obs{Toks: hxgram.Kinds(ts), Src: src, Base: base})
	}
	for i := 0; i < n; i++ {
		ts := g.Program(1 + r.IntN(3))
		if len(ts) > 40 {
			continue
		}
		add(ts, true)
		ms := hxgram.Mutations(ts, r)
		if len(ms) <= perBase {
			for _, m := range ms {
				add(m, false)
			}
		} else {
			for k := 0; k < perBase; k++ {
				add(ms[r.IntN(len(ms))], false)
			}
		}
	}
	return cases
}

// structuredCases: the fixed enumeration (compound template x position x inserted token), every run, all of it
func structuredCases(seen map[string]bool) []obs {
	var cases []obs
	add := func(ts []hxgram.Tok, base bool) {
		src := hxgram.Render(ts)
		if seen[src] {
			return
		}
		seen[src] = true
		cases = append(cases, obs{Toks: hxgram.Kinds(ts), Src: src, Base: base})
	}
	b, m := hxgram.StructuredCases()
	for _, ts := range b {
		add(ts, true)
	}
	for _, ts := range m {
		add(ts, false)
	}
	// valid programs around a here-document opener that shares its line with other constructs of the shared core
	// (no token list: search only); the bash-only constructs of the enumeration (time, let, coproc, select, [[ ]],
	// (( )), arrays, declare, function, |&) are outside this property's domain and are exercised by C10 only
	for _, src := range hxgram.HdocPrograms(true) {
		if !seen[src] {
			seen[src] = true
			cases = append(cases, obs{Src: src, Base: true})
		}
	}
	// every valid template inside a command substitution (search only)
	for _, src := range hxgram.SubstWrapped() {
		if !seen[src] {
			seen[src] = true
			cases = append(cases, obs{Src: src, Base: true})
		}
	}
	// valid arithmetic expansions as the argument of a simple command
	for _, w := range hxgram.ArithWords() {
		add([]hxgram.Tok{{K: hxgram.KName, T: "echo"}, {K: hxgram.KWord, T: w}}, true)
	}
	return cases
}

const poolSeed = 20260922 // the pinned pool does not depend on VERIF_SEED

func main() {
	o := hx.ParseArgs()
	defer hx.Flush()
	arg := func(k string) string {
		for _, a := range o.Args {
			if strings.HasPrefix(a, k+"=") {
				return a[len(k)+1:]
			}
		}
		return ""
	}
	switch o.Mode {
	case "core":
		// code-leg data for coq/Syntax/CoreGrammar.v: core token programs, their cuts and mutations
		per := 6
		if o.Tier == "thorough" {
			per = 40
		}
		hxgram.CoreMain(o.Seed, o.N, per)
		return
	case "pool":
		// the whole pinned pool, every case live (thorough tier; also used to (re)build the oracle cache)
		seen := map[string]bool{}
		cases := genCases(hx.Rand(poolSeed, 12), o.N, 12, seen)
		cases = append(cases, structuredCases(seen)...)
		runCases(cases, loadCache(arg("cache")), 1<<30, hx.Rand(o.Seed, 13))
	case "gen":
		// quick tier: a VERIF_SEED-chosen slice of the pinned pool (verdicts of bash/dash from the oracle
		// cache, `recheck` of them re-run live) + fresh=K new base programs of this seed, all live.
		cache := loadCache(arg("cache"))
		seen := map[string]bool{}
		pool := genCases(hx.Rand(poolSeed, 12), o.N, 12, seen)
		slices, _ := strconv.Atoi(arg("slices"))
		if slices < 1 {
			slices = 1
		}
		var cases []obs
		for i := range pool {
			if uint64(i)%uint64(slices) == o.Seed%uint64(slices) {
				cases = append(cases, pool[i])
			}
		}
		cases = append(cases, structuredCases(seen)...)
		fresh, _ := strconv.Atoi(arg("fresh"))
		cases = append(cases, genCases(hx.Rand(o.Seed, 12), fresh, 8, seen)...)
		recheck, _ := strconv.Atoi(arg("recheck"))
		runCases(cases, cache, recheck, hx.Rand(o.Seed, 13))
	case "src":
		f, err := os.Open(o.In)
		if err != nil {
			panic(err)
		}
		var cases []obs
		sc := bufio.NewScanner(f)
		sc.Buffer(make([]byte, 1<<20), 1<<20)
		for sc.Scan() {
			s, err := strconv.Unquote(sc.Text())
			if err != nil {
				fmt.Fprintln(os.Stderr, "bad line:", sc.Text())
				continue
			}
			c := obs{Src: s}
			if ts, ok := hxgram.Tokenize(s); ok && hxgram.Render(ts) == s {
				c.Toks = hxgram.Kinds(ts)
			}
			cases = append(cases, c)
		}
		runCases(cases, map[string]cacheEnt{}, 0, hx.Rand(o.Seed, 13))
	case "flips":
		repo := "/repo"
		if len(o.Args) > 0 {
			repo = o.Args[0]
		}
		fl, err := hxgram.Flips(repo+"/syntax/parser_test.go", repo+"/syntax/filetests_test.go")
		if err != nil {
			panic(err)
		}
		for _, f := range fl {
			hx.Emit(f)
		}
	}
}
