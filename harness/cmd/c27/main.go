// c27: subshell isolation. Runs generated parent states x mutating command lists
// x isolating contexts in interp.Runner (worker subprocess, watchdog, no external
// commands) and snapshots the Runner state (interp.VerifC27Snapshot) at
// `__snap init|p0|c|p1`. Emits per case the operations (for the Coq model), the
// snapshots, and the direct verdict p0 == p1.
package main

import (
	"encoding/json"
	"fmt"
	"os"
	"regexp"
	"strings"

	"verifharness/hx"
	"verifharness/hxc27"
)

type Out struct {
	ID      int                   `json:"id"`
	Mode    string                `json:"mode"`
	Ctx     string                `json:"ctx"`
	Bg      bool                  `json:"bg"`
	Parent  []hxc27.Op            `json:"parent,omitempty"`
	Child   []hxc27.Op            `json:"child,omitempty"`
	ChildS  string                `json:"childsrc,omitempty"`
	Prog    string                `json:"prog"`
	Bash    string                `json:"bash,omitempty"`
	Bodies  []string              `json:"bodies,omitempty"` // hex printed bodies; id = index+1
	Snaps   map[string]hxc27.Snap `json:"snaps"`
	Fails   []string              `json:"fails"`
	Class   string                `json:"class"`
	Detail  string                `json:"detail,omitempty"`
	Hang    bool                  `json:"hang,omitempty"`
	Panic   string                `json:"panic,omitempty"`
	Err     string                `json:"err,omitempty"`
	Scratch string                `json:"scratch,omitempty"`
}

var ctxKinds = []string{"subshell", "cmdsubst", "procin", "procout", "pipe", "bg", "api"}

func isBg(ctx string) bool {
	switch ctx {
	case "subshell", "cmdsubst", "backquote":
		return false
	}
	return true
}

// wrap places child source C into the isolating construct.
func wrap(ctx, c string) string {
	switch ctx {
	case "subshell":
		return "( " + c + " )"
	case "cmdsubst":
		return ": \"$( " + c + " )\""
	case "backquote":
		return ": \"`" + c + "`\""
	case "procin":
		return "__drain < <( " + c + " ); wait"
	case "procout":
		return ": > >( " + c + " ); wait"
	case "pipe":
		return "{ " + c + "; } | :"
	case "bg":
		return "{ " + c + "; } & wait"
	case "pipe_last":
		return ": | { " + c + "; }"
	case "none": // no isolation at all: sanity that the dump sees the mutation
		return "{ " + c + "; }"
	}
	panic("ctx " + ctx)
}

var snapRe = regexp.MustCompile(`__snap (\w+)`)

const bashPrelude = `__drain() { while IFS= read -r __l; do :; done; }
__snap() { { echo "@@ $1"; shift; declare -p a b s m n r IFS OPTIND PWD OLDPWD __l 2>/dev/null; declare -f f g; alias; set -o; shopt dotglob expand_aliases extglob globstar nocaseglob nullglob; pwd; dirs; echo "$#:$*"; echo "@@end"; } >&3 2>/dev/null; }
__l=
`

func bashProg(prog string) string {
	return bashPrelude + snapRe.ReplaceAllString(prog, `__snap $1 "$$@"`) + "\n"
}

func diffSnap(a, b hxc27.Snap) string {
	ja, _ := json.Marshal(a)
	jb, _ := json.Marshal(b)
	if string(ja) == string(jb) {
		return ""
	}
	var parts []string
	am := map[string]string{}
	for _, v := range a.Vars {
		j, _ := json.Marshal(v)
		am[v.Name] = string(j)
	}
	bm := map[string]string{}
	for _, v := range b.Vars {
		j, _ := json.Marshal(v)
		bm[v.Name] = string(j)
		if am[v.Name] != string(j) {
			parts = append(parts, "var "+hx.UnHex(v.Name))
		}
	}
	for n := range am {
		if _, ok := bm[n]; !ok {
			parts = append(parts, "var "+hx.UnHex(n)+" gone")
		}
	}
	cmp := func(what string, x, y any) {
		jx, _ := json.Marshal(x)
		jy, _ := json.Marshal(y)
		if string(jx) != string(jy) {
			parts = append(parts, what)
		}
	}
	cmp("funcs", a.Funcs, b.Funcs)
	cmp("alias", a.Alias, b.Alias)
	cmp("opts", a.Opts, b.Opts)
	cmp("dir", a.Dir, b.Dir)
	cmp("dirstack", a.DirStack, b.DirStack)
	cmp("params", a.Params, b.Params)
	return strings.Join(parts, ",")
}

func verdict(o *Out, res hxc27.Result) {
	o.Snaps = res.Snaps
	o.Hang, o.Panic, o.Err = res.Hang, res.Panic, res.ErrMsg
	if res.Panic != "" || res.Hang {
		// a crash or hang of the interpreter is C28 / C31 territory: reported as "skipped", not as a C27 failure
		return
	}
	p0, ok0 := res.Snaps["p0"]
	p1, ok1 := res.Snaps["p1"]
	if o.Ctx == "none" { // no isolation: only records that the dump sees the mutation
		if ok0 && ok1 {
			o.Detail = diffSnap(p0, p1)
		}
		return
	}
	if !ok0 || !ok1 {
		o.Fails = append(o.Fails, "parent_did_not_continue")
	} else if d := diffSnap(p0, p1); d != "" {
		o.Fails = append(o.Fails, "parent_changed")
		o.Detail = d
	}
	if len(o.Fails) > 0 && o.Ctx == "pipe_last" {
		o.Class = "pipeline_last_stage_in_parent"
	}
}

func internBodies(o *Out, texts ...string) error {
	var all []string
	for _, t := range texts {
		b, err := hxc27.FuncBodies(t)
		if err != nil {
			return err
		}
		all = append(all, b...)
	}
	ids := map[string]int{}
	var table []string
	k := 0
	set := func(ops []hxc27.Op) error {
		for i := range ops {
			if ops[i].Op != "funcdef" {
				continue
			}
			if k >= len(all) {
				return fmt.Errorf("funcdef count mismatch")
			}
			id, ok := ids[all[k]]
			if !ok {
				table = append(table, hx.Hex(all[k]))
				id = len(table)
				ids[all[k]] = id
			}
			ops[i].Body = id
			k++
		}
		return nil
	}
	if err := set(o.Parent); err != nil {
		return err
	}
	if err := set(o.Child); err != nil {
		return err
	}
	if k != len(all) {
		return fmt.Errorf("funcdef count mismatch %d/%d", k, len(all))
	}
	o.Bodies = table
	return nil
}

// wide child command templates for the search (beyond the modelled operations)
var wideCmds = []string{
	"a=5", "a+=z", "b+=z", "s+=z", "a+=(q r)", "b+=(q)", "a[1]=w", "b[0]+=w", "a[-1]=e", "b[7]=h",
	"m[k]=v9", "m[zz]+=v", "m+=([j]=w)", "unset a", "unset 'a[0]'", "unset 'b[1]'", "unset 'm[k]'", "unset 'a[@]'",
	"declare -a a", "declare -A m", "declare -x s", "declare -r r=1", "export a", "export b=3", "readonly s", "readonly -a b",
	"declare a+=q", "declare b+=(q)", "declare -i n=3", "declare -n ref=a; ref=9", "declare -n ref=b; ref+=zz", "declare -n ref=b; ref[1]=zz",
	"read -r a <<< 'hi there'", "read -r a b <<< '1 2'", "read -ra b <<< '1 2 3'", "read -r 'b[1]' <<< u", "mapfile -t b <<< x",
	"printf -v s %s hi", "printf -v 'b[1]' %s hi", "(( n++ ))", "(( n = 7 ))", "(( a += 2 ))", ": $(( n = 4 ))", "let n=5", "let 'b[2]=5'", ": ${s:=val}", ": ${u:=val}", ": ${b[5]:=val}", "for a in 1 2; do :; done", "for ((n=0; n<2; n++)); do :; done",
	"getopts ab opt -a", "getopts ab opt -a; getopts ab opt -a", "OPTIND=3", "IFS=:", "select a in x; do break; done <<< 1",
	"eval 'a=9'", "eval 'b+=(9)'", "command eval 'a=9'", "builtin eval s=2", "a=9 eval :", "a=9 :", "a+=9 :", "b+=9 true", "f() { echo 9; }", "g() { a=1; }; g", "unset -f f", "unset f", "f() { b+=z; }; f", "f() { local b; b+=(l); }; f", "f() { local -a b=(l); b[0]+=q; }; f",
	"f() { declare -g s=2; }; f", "f() { declare -g b+=z; }; f", "f() { unset b; }; f", "f() { local a; unset a; a=3; }; f",
	"alias ll='echo hi'", "unalias ll", "unalias -a", "shopt -s extglob", "shopt -u extglob", "shopt -s nullglob", "set -o noglob", "set +o noglob",
	"set -f", "set -a", "set -o pipefail", "set -u", "set -- p q", "set --", "shift", "shift 2", "set -- \"$@\" extra",
	"cd D1", "cd D2", "cd ..", "cd -", "cd", "pushd D1", "pushd D2; pushd", "popd", "pushd D1; popd", "PWD=/x", "OLDPWD=/y", "HOME=D2; cd",
	"exit 3", "exit", "return 2", "break", "set -e; false; a=1", "trap 'a=T' EXIT", "a=1; exit 0", "wait", "true & wait",
	"exec 2>/dev/null", "exec", "test -n x && a=t", "[[ x == x ]] && a=t", "case x in x) a=c;; esac", "if true; then a=i; fi",
	"while a=w; do break; done", "until a=u || true; do :; done", "{ a=g; }", "( a=ss )", ": $(a=cs)", "a=$(echo v)", "b=($(echo 1 2))", "a=`echo v`",
	"a=o | true", "true | a=o", "a=o & wait", "time a=1", "! a=1", "a=1 && b=2 || s=3",
	"local a=1", "typeset a=1", "typeset -a b=(1)", "nameref r2=a", "readonly", "export", "declare -p a", "declare -f", "declare", "set", "unset IFS", "unset PWD",
	"source /dev/null", ". /nonexistent", "type f", "dirs", "dirs -c", "pushd -n D1", "popd -n", "shopt -s expand_aliases; alias q=':'; q",
	"b=(1 2 3); b=(\"${b[@]:1}\")", "b=(\"${b[@]}\" x)", "a=${a}x", "a=${b[0]}${b[1]}", "s=\"$*\"", "s=$#", "DIRSTACK+=x", "DIRSTACK[0]=y", "BASH_REMATCH=1", "[[ abc =~ (b) ]]",
	"RANDOM=1", "SECONDS=1", "LINENO=1", "FUNCNAME=x", "PIPESTATUS=1", "UID=5", "EUID=5", "PPID=1", "_=1", "a=1 b=2 s=3 m=4",
}

// soloCmds: the mutation happens INSIDE AN EXPANSION of an argument of a harmless command,
// which is the only statement of the isolating construct (no inner snapshot)
var soloCmds = []string{
	"echo $((i++))", "echo $((i+=2))", "echo $((x=5))", "echo $((i--)) $((x=7))", "echo ${d:=v}", "echo ${d=v}", "echo ${e:=w}${d:=v}",
	"printf %s ${d:=v}", "printf '%s' \"$((i++))\"", "printf %s ${a[5]=x}", "printf %s ${a[5]:=x}", "echo \"${a[$((i++))]}\"", "echo ${#d} ${d:=vv}",
	"pwd", ": $((i++))", ": ${d:=v}", "true $((x=5)) ${d:=v}", "test -n $((i++))", "[ $((i++)) -gt 0 ]", "[[ $((i++)) -gt 0 ]]", "(( i++ ))", "let i++",
	"echo $(( a[1]=9 ))", "echo ${m[k]:=vv}", "echo $((OPTIND=5))", "echo ${IFS:=x}${IFS::0}", "echo $(echo $((i++)))", "echo `echo $((i++))`",
	"echo hi >/dev/null $((i++))", "i=$((i+1)) echo", "echo $((i++)) & wait", "echo $((i++)) | :", "x=5", "read -r x <<< 5", "for x in 5; do :; done",
}

const soloPre = "i=1; x=0; a=(p q); declare -A m=([j]=w); unset d e"

// corpusLines reads a pinned corpus file (relative to /verif), skipping comments.
func corpusLines(rel string) []string {
	var out []string
	for _, p := range []string{rel, "/verif/" + rel} {
		b, err := os.ReadFile(p)
		if err != nil {
			continue
		}
		for _, ln := range strings.Split(string(b), "\n") {
			if ln != "" && !strings.HasPrefix(ln, "#") {
				out = append(out, ln)
			}
		}
		break
	}
	return out
}

func main() {
	o := hx.ParseArgs()
	defer hx.Flush()
	switch o.Mode {
	case "worker":
		hxc27.WorkerMain(o.In, nil)
		return
	}
	scratch, dirs := hxc27.MakeScratch("c27_")
	defer os.RemoveAll(scratch)
	pool := &hxc27.Pool{Scratch: scratch}
	defer pool.Close()
	switch o.Mode {
	case "gen":
		// modelled fragment: operation lists, for the code leg and the direct verdict
		r := hx.Rand(o.Seed, 27)
		g := &hxc27.Gen{R: r, Dirs: dirs}
		for i := 0; i < o.N; i++ {
			ctx := ctxKinds[i%len(ctxKinds)]
			out := Out{ID: i, Mode: "gen", Ctx: ctx, Bg: isBg(ctx), Scratch: scratch}
			out.Parent = g.Ops(2+r.IntN(6), ctx != "api", 0)
			out.Child = g.Ops(1+r.IntN(5), false, 0)
			if i%3 == 0 {
				// targeted: the child writes into an array / map the parent owns
				pre, first := g.Targeted()
				out.Parent = append([]hxc27.Op{pre}, out.Parent...)
				out.Child = append([]hxc27.Op{first}, out.Child...)
			} else if i%3 == 1 {
				// targeted: the FIRST command of the child removes state the parent has just set up
				// (function, alias, variable, option, dirstack entry, positional parameter)
				pre, first := g.Undo(i / 3)
				out.Parent = append(out.Parent, pre)
				out.Child = append([]hxc27.Op{first}, out.Child...)
			}
			childSrc := hxc27.Render(out.Child, "__snap c")
			var c hxc27.Case
			c.ID = i
			if ctx == "api" {
				p := "__snap init; " + hxc27.Render(out.Parent, "__snap p0")
				c.Steps = []hxc27.Step{{Src: p}, {Src: childSrc, Sub: true}, {Src: "__snap p1"}}
				out.Prog = p + " ### Subshell(): " + childSrc + " ### __snap p1"
				if err := internBodies(&out, p, childSrc); err != nil {
					out.Err = err.Error()
				}
			} else {
				tail := "__snap p0; " + wrap(ctx, childSrc) + "; __snap p1"
				out.Prog = "__snap init; " + hxc27.Render(out.Parent, tail)
				out.Bash = bashProg(out.Prog)
				c.Steps = []hxc27.Step{{Src: out.Prog}}
				if err := internBodies(&out, out.Prog); err != nil {
					out.Err = err.Error()
				}
			}
			verdict(&out, pool.Run(c))
			hx.Emit(out)
		}
	case "search":
		// whole input space: parent states from operations, child = wide command lists
		r := hx.Rand(o.Seed, 2700)
		g := &hxc27.Gen{R: r, Dirs: dirs}
		kinds := []string{"subshell", "cmdsubst", "procin", "procout", "pipe", "bg", "pipe_last", "none", "backquote"}
		rep := strings.NewReplacer("D1", dirs[1], "D2", dirs[2])
		for i := 0; i < o.N; i++ {
			ctx := kinds[i%len(kinds)]
			out := Out{ID: i, Mode: "search", Ctx: ctx, Bg: isBg(ctx), Scratch: scratch}
			parent := g.Ops(2+r.IntN(6), true, 0)
			var cs []string
			for k := 1 + r.IntN(4); k > 0; k-- {
				if r.IntN(4) == 0 {
					cs = append(cs, hxc27.Render(g.Ops(1, false, 1), ""))
				} else {
					cs = append(cs, rep.Replace(hx.Pick(r, wideCmds)))
				}
			}
			if i%3 == 2 {
				// the first command of the child removes state the parent has just set up
				pre, first := g.Undo(i / 3)
				parent = append(parent, pre)
				cs = append([]string{hxc27.Render([]hxc27.Op{first}, "")}, cs...)
			}
			out.ChildS = strings.Join(cs, "; ")
			tail := "__snap p0; " + wrap(ctx, out.ChildS+"; __snap c") + "; __snap p1"
			if i%5 == 4 {
				// solo: a single command whose argument expansion assigns; nothing else inside the construct
				out.ChildS = hx.Pick(r, soloCmds)
				tail = "__snap p0; " + wrap(ctx, out.ChildS) + "; __snap p1"
				parent = append(parent, hxc27.Op{Op: "assign", Name: "i", Rhs: &hxc27.Rhs{Kind: "str", S: "1"}})
			}
			if ctx == "backquote" && strings.Contains(tail, "`") {
				// nested backquotes would need escaping: use $( ) for these
				ctx = "cmdsubst"
				out.Ctx = ctx
				if i%5 == 4 {
					tail = "__snap p0; " + wrap(ctx, out.ChildS) + "; __snap p1"
				} else {
					tail = "__snap p0; " + wrap(ctx, out.ChildS+"; __snap c") + "; __snap p1"
				}
			}
			out.Prog = "n=1; r=0; " + hxc27.Render(parent, tail)
			out.Bash = bashProg(out.Prog)
			if _, err := hxc27.Parse(out.Prog); err != nil {
				out.Err = "parse: " + err.Error()
				hx.Emit(out)
				continue
			}
			verdict(&out, pool.Run(hxc27.Case{ID: i, Steps: []hxc27.Step{{Src: out.Prog}}}))
			out.Snaps = nil // not needed by the check; keeps the output small
			hx.Emit(out)
		}
	case "witness":
		// fixed witnesses: the repaired array append in every context, and the open finding
		progs := []struct{ ctx, pre, child string }{}
		for _, ctx := range []string{"subshell", "cmdsubst", "procin", "procout", "pipe", "bg"} {
			progs = append(progs,
				struct{ ctx, pre, child string }{ctx, "a=(x y)", "a+=z"},
				struct{ ctx, pre, child string }{ctx, "a=([1]=x [2]=y [3]=w)", "a+=z"},
				struct{ ctx, pre, child string }{ctx, "a=(x y)", "declare a+=z"},
				struct{ ctx, pre, child string }{ctx, "a=(x y)", "a+=z true"},
				struct{ ctx, pre, child string }{ctx, "f() { local a=(x y); X; }", "a+=z"},
			)
		}
		// the first command of the child removes what the parent set up: every pair x context x placement
		undo := [][2]string{
			{"f() { echo 1; }", "unset -f f"}, {"f() { echo 1; }", "unset f"}, {"f() { echo 1; }", "f() { echo 2; }"},
			{"alias ll='echo hi'", "unalias ll"}, {"alias ll='echo hi'", "unalias -a"}, {"a=1", "unset a"}, {"a=(x y)", "unset 'a[0]'"},
			{"declare -A m=([k]=v)", "unset 'm[k]'"}, {"export a=1", "unset a"}, {"shopt -s extglob", "shopt -u extglob"},
			{"set -o noglob", "set +o noglob"}, {"pushd " + dirs[1], "popd"}, {"set -- p q", "shift"}, {"set -- p q", "set --"},
			{"cd " + dirs[1], "cd " + dirs[2]},
		}
		for _, ctx := range []string{"subshell", "cmdsubst", "procin", "procout", "pipe", "bg"} {
			for _, u := range undo {
				progs = append(progs,
					struct{ ctx, pre, child string }{ctx, u[0], u[1]},
					struct{ ctx, pre, child string }{ctx, u[0], "( " + u[1] + "; : )"},
					struct{ ctx, pre, child string }{ctx, u[0], ": \"$( " + u[1] + " )\""},
					struct{ ctx, pre, child string }{ctx, u[0] + "; w() { X; }", u[1]},
					struct{ ctx, pre, child string }{ctx, u[0], "w2() { " + u[1] + "; }; w2"},
				)
			}
		}
		// pinned regression corpus (corpus/c27/regress.txt), visited on every seed and tier
		for _, ln := range corpusLines("corpus/c27/regress.txt") {
			f := strings.Split(ln, "\t")
			if len(f) != 3 {
				continue
			}
			var ctxs []string
			switch f[0] {
			case "*":
				ctxs = []string{"subshell", "cmdsubst", "backquote", "procin", "procout", "pipe", "bg"}
			case "fg":
				ctxs = []string{"subshell", "cmdsubst", "backquote"}
			case "bg":
				ctxs = []string{"procin", "procout", "pipe", "bg"}
			default:
				ctxs = []string{f[0]}
			}
			for _, ctx := range ctxs {
				progs = append(progs, struct{ ctx, pre, child string }{ctx, f[1], f[2]})
			}
		}
		progs = append(progs, struct{ ctx, pre, child string }{"pipe_last", "a=1", "a=5"})
		// solo: one command, mutation inside an argument expansion, no snapshot inside the construct
		for _, ctx := range []string{"subshell", "cmdsubst", "backquote", "procin", "procout", "pipe", "bg"} {
			for _, c := range soloCmds {
				if ctx == "backquote" && (strings.Contains(c, "`") || strings.Contains(c, "[[")) {
					continue
				}
				progs = append(progs, struct{ ctx, pre, child string }{ctx, "SOLO", c})
				progs = append(progs, struct{ ctx, pre, child string }{ctx, "SOLOF", c})
			}
		}
		progs = append(progs, struct{ ctx, pre, child string }{"pipe_last", "b=(x y)", "b+=(z); cd /"})
		for i, p := range progs {
			out := Out{ID: i, Mode: "witness", Ctx: p.ctx, Bg: isBg(p.ctx)}
			body := "__snap p0; " + wrap(p.ctx, p.child+"; __snap c") + "; __snap p1"
			if p.pre == "SOLO" {
				out.Prog = soloPre + "; __snap p0; " + wrap(p.ctx, p.child) + "; __snap p1"
			} else if p.pre == "SOLOF" { // inside a function body, with a local of the same name
				out.Prog = soloPre + "; w() { local i=3; __snap p0; " + wrap(p.ctx, p.child) + "; __snap p1; }; w"
			} else if strings.Contains(p.pre, "w() {") && strings.Contains(p.pre, "X;") {
				out.Prog = strings.Replace(p.pre, "X;", body+";", 1) + "; w"
			} else if strings.Contains(p.pre, "X") {
				out.Prog = strings.Replace(p.pre, "X", body, 1) + "; f"
			} else {
				out.Prog = p.pre + "; " + body
			}
			out.Bash = bashProg(out.Prog)
			verdict(&out, pool.Run(hxc27.Case{ID: i, Steps: []hxc27.Step{{Src: out.Prog}}}))
			out.Snaps = nil
			hx.Emit(out)
		}
	default:
		fmt.Fprintln(os.Stderr, "unknown mode")
		os.Exit(2)
	}
}
