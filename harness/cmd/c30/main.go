// c30: Runner reuse is equivalent to a fresh runner.
//
//	fields -seed S -n N -in REPO  behavioural table of interp.Runner's fields, one JSON line per field:
//	                              which fields Run writes, which fields Reset carries over, which fields the
//	                              post-Reset value of each field depends on (found by poking one field at a
//	                              time through the verif hook), which fields are mere storage (go/ast)
//	gen    -seed S -n N -in REPO  histories of 1..6 programs, Reset, P  vs  P on a fresh Runner
//	incr   -seed S -n N -in REPO  whole-file Run vs one Run per top-level statement until Exited()
package main

import (
	"context"
	"fmt"
	"go/ast"
	"go/parser"
	"go/token"
	"os"
	"path/filepath"
	"sort"
	"strings"

	"mvdan.cc/sh/v3/interp"
	"verifharness/hx"
	"verifharness/hxsh"
)

type rig struct {
	r        *interp.Runner
	out, err *hxsh.ConcBuffer
}

// newRig builds a Runner with every option the harness uses; all rigs are built identically.
func newRig(s *hxsh.Scratch, variant int) rig {
	g := rig{out: &hxsh.ConcBuffer{}, err: &hxsh.ConcBuffer{}}
	params := []string{"--", "p1", "p2 q", "p3"}
	switch variant % 4 {
	case 1:
		params = []string{"-f", "--", "p1"}
	case 3:
		params = []string{"-o", "pipefail"}
	}
	opts := s.Options(nil, g.out, g.err, params...)
	if variant%4 == 2 {
		opts = append(opts, interp.Interactive(true))
	}
	opts = append(opts, interp.CallHandler(func(ctx context.Context, args []string) ([]string, error) { return args, nil }))
	r, err := interp.New(opts...)
	if err != nil {
		panic(err)
	}
	g.r = r
	return g
}

func snap(r *interp.Runner) map[string]string { return interp.VerifRunnerSnapshot(r) }

// storageOnly finds the Runner fields that are only ever used as `x.f[lo:hi]`
// (backing storage for another slice field, e.g. dirBootstrap) in REPO/interp/*.go.
func storageOnly(repo string) map[string]bool {
	fields := map[string]bool{}
	for _, f := range interp.VerifRunnerFields() {
		fields[f[0]] = true
	}
	sliced := map[string]int{}
	other := map[string]int{}
	fset := token.NewFileSet()
	files, _ := filepath.Glob(filepath.Join(repo, "interp", "*.go"))
	for _, fn := range files {
		base := filepath.Base(fn)
		if strings.HasSuffix(base, "_test.go") || strings.HasPrefix(base, "verif_") {
			continue
		}
		f, err := parser.ParseFile(fset, fn, nil, 0)
		if err != nil {
			continue
		}
		inSlice := map[*ast.SelectorExpr]bool{}
		ast.Inspect(f, func(n ast.Node) bool {
			switch n := n.(type) {
			case *ast.SliceExpr:
				if se, ok := n.X.(*ast.SelectorExpr); ok {
					inSlice[se] = true
				}
			case *ast.SelectorExpr:
				if fields[n.Sel.Name] {
					if inSlice[n] {
						sliced[n.Sel.Name]++
					} else {
						other[n.Sel.Name]++
					}
				}
			case *ast.KeyValueExpr:
				// composite literal key `f: value`
				if id, ok := n.Key.(*ast.Ident); ok && fields[id.Name] {
					other[id.Name]++
				}
			}
			return true
		})
	}
	out := map[string]bool{}
	for f := range fields {
		if sliced[f] > 0 && other[f] == 0 {
			out[f] = true
		}
	}
	return out
}

var dirtyBattery = []string{
	"x=1; y=2; arr=(a b c); declare -A m=([k0]=v); export z=3; readonly ro0=r",
	"f() { echo f; }; g() { local x=l; return 3; }; g",
	"shopt -s expand_aliases nullglob extglob; alias a1='echo hi'; alias ll='a1 '",
	"set -e -o pipefail -f -a; set -- q1 q2 q3 q4; shift",
	"cd d1; pushd sub >/dev/null; pushd .. >/dev/null",
	"trap 'echo bye' EXIT; trap 'echo err' ERR; false; true",
	"while getopts ab: o -a -b v; do :; done; getopts ab: o -a",
	"{ echo bg; } >bg.out & wait; x=$!",
	"exec >o.txt 2>e.txt; echo hidden",
	"false; exit 7",
	"echo $(echo sub) | while read -r l; do echo $l; done; source ./lib.sh",
	"unset E1; E2=changed; for i in 1 2; do continue; done; nosuchcmd; [[ a == b ]]",
	"set -n; echo never",
	"x=$(false); echo \"$x\" $(exit 3)",
	"exec <in.txt; read -r l; echo $l",
	"read -r l <<EOF\nhere\nEOF\nmapfile -t brr <in.txt",
}

func diffAgainst(base, cur map[string]string) []string { return hxsh.DiffFields(base, cur, nil) }

func fieldsMode(s *hxsh.Scratch, o hx.Opts) {
	storage := storageOnly(o.In)
	s.Wipe()
	g0 := newRig(s, 1)
	f0 := snap(g0.r)
	g0.r.Reset()
	f1 := snap(g0.r)
	g0.r.Reset()
	idem := diffAgainst(f1, snap(g0.r))
	// two rigs built the same way must agree (the snapshot is identity-free)
	g1 := newRig(s, 1)
	g1.r.Reset()
	same := diffAgainst(f1, snap(g1.r))

	written := map[string]bool{}
	nprogs := 0
	runOne := func(src string) {
		file, err := hxsh.Parse(src)
		if err != nil {
			return
		}
		s.Wipe()
		g := newRig(s, 1)
		g.r.Reset()
		oc := hxsh.Run(g.r, file)
		if oc.Bad() {
			return
		}
		nprogs++
		for _, f := range diffAgainst(f1, snap(g.r)) {
			written[f] = true
		}
	}
	for _, src := range dirtyBattery {
		runOne(src)
	}
	gen := hxsh.NewGen(hx.Rand(o.Seed, 3001))
	for i := 0; i < o.N; i++ {
		runOne(gen.Program(2 + gen.R.IntN(8)))
	}

	type row struct {
		Field       string   `json:"field"`
		Type        string   `json:"type"`
		Fresh       string   `json:"fresh"`     // value after New+Reset (truncated)
		PreReset    bool     `json:"prereset"`  // differs between New and New+Reset
		Pokeable    bool     `json:"pokeable"`  // the poke changed the snapshot of this field
		PokeChanged []string `json:"poke_also"` // other fields the poke changed (aliasing)
		ResetPanics string   `json:"reset_panics,omitempty"`
		Affected    []string `json:"affected"` // fields whose post-Reset value differs from fresh when this field is poked
		Written     bool     `json:"written"`  // some Run left it different from the fresh value
		Storage     bool     `json:"storage"`  // only ever used as x.f[lo:hi]
	}
	for _, fd := range interp.VerifRunnerFields() {
		name := fd[0]
		rw := row{Field: name, Type: fd[1], Written: written[name], Storage: storage[name], PreReset: f0[name] != f1[name]}
		rw.Fresh = f1[name]
		if len(rw.Fresh) > 120 {
			rw.Fresh = rw.Fresh[:120] + "..."
		}
		s.Wipe()
		g := newRig(s, 1)
		g.r.Reset()
		ok := interp.VerifRunnerPoke(g.r, name)
		p := snap(g.r)
		rw.Pokeable = ok && p[name] != f1[name]
		rw.PokeChanged = []string{}
		for _, f := range diffAgainst(f1, p) {
			if f != name {
				rw.PokeChanged = append(rw.PokeChanged, f)
			}
		}
		rw.Affected = []string{}
		if panicked, msg := hx.Try(func() { g.r.Reset() }); panicked {
			rw.ResetPanics = msg
			rw.Affected = []string{name}
		} else {
			rw.Affected = append(rw.Affected, diffAgainst(f1, snap(g.r))...)
		}
		hx.Emit(rw)
	}
	hx.Emit(map[string]any{"meta": true, "reset_idempotent_diff": idem, "two_rigs_diff": same, "programs": nprogs,
		"nfields": len(interp.VerifRunnerFields())})
}

type histObs struct {
	Key     string   `json:"key"`
	Hist    []string `json:"hist"` // hex
	P       string   `json:"p"`    // hex
	Skip    string   `json:"skip,omitempty"`
	Feats   []string `json:"feats"`
	HistSt  []int    `json:"hist_status"`
	Status  int      `json:"status"`
	OutLen  int      `json:"outlen"`
	Fails   []string `json:"fails"`
	Detail  string   `json:"detail,omitempty"`
	Dirtied []string `json:"dirtied"` // fields the history left different from fresh (before Reset)
}

func firstDiff(a, b string) string {
	i := 0
	for i < len(a) && i < len(b) && a[i] == b[i] {
		i++
	}
	lo := max(0, i-50)
	return fmt.Sprintf("at %d: reused %q fresh %q", i, a[lo:min(len(a), i+70)], b[lo:min(len(b), i+70)])
}

func fieldDiffDetail(a, b map[string]string, fs []string) string {
	var sb strings.Builder
	for i, f := range fs {
		if i >= 3 {
			break
		}
		fmt.Fprintf(&sb, "%s: %s; ", f, firstDiff(a[f], b[f]))
	}
	return sb.String()
}

func genMode(s *hxsh.Scratch, o hx.Opts) {
	storage := storageOnly(o.In)
	// the pinned histories first, under every option variant of the rig
	for _, e := range hxsh.LoadRegress("c30") {
		if e.Kind != "hist" || len(e.Progs) < 2 {
			continue
		}
		for v := 0; v < 4; v++ {
			histCase(s, storage, e.Progs[:len(e.Progs)-1], e.Progs[len(e.Progs)-1], v, []string{"pinned:" + e.Name})
		}
	}
	g := hxsh.NewGen(hx.Rand(o.Seed, 30))
	for i := 0; i < o.N; i++ {
		nh := 1 + g.R.IntN(6)
		feats := map[string]bool{}
		var hist []string
		for j := 0; j < nh; j++ {
			src := g.Program(1 + g.R.IntN(6))
			for f := range g.Feats {
				feats[f] = true
			}
			hist = append(hist, src)
		}
		p := g.Probe()
		fl := []string{}
		for f := range feats {
			fl = append(fl, f)
		}
		sort.Strings(fl)
		histCase(s, storage, hist, p, i, fl)
	}
}

func histCase(s *hxsh.Scratch, storage map[string]bool, hist []string, p string, i int, feats []string) {
	nh := len(hist)
	ob := histObs{Fails: []string{}, Feats: feats, Dirtied: []string{}}
	for _, src := range hist {
		ob.Hist = append(ob.Hist, hx.Hex(src))
	}
	ob.P = hx.Hex(p)
	ob.Key = fmt.Sprintf("%x", hashStr(strings.Join(hist, "\x00")+"\x01"+p+fmt.Sprint(i%4)))
	{
		pf, err := hxsh.Parse(p)
		if err != nil {
			ob.Skip = "parse P: " + err.Error()
			hx.Emit(ob)
			return
		}
		// --- reused runner
		ctx, cancel := hxsh.CaseCtx(nh + 2)
		s.Wipe()
		r1 := newRig(s, i)
		bad := ""
		for _, src := range hist {
			f, err := hxsh.Parse(src)
			if err != nil {
				bad = "parse hist: " + err.Error()
				break
			}
			oc := hxsh.RunCtx(ctx, r1.r, f)
			ob.HistSt = append(ob.HistSt, oc.Status)
			if oc.Bad() {
				bad = "hist run: " + oc.String()
				break
			}
		}
		if bad != "" {
			ob.Skip = bad
			hx.Emit(ob)
			cancel()
			return
		}
		dirty := snap(r1.r)
		s.Wipe()
		r1.out.Reset()
		r1.err.Reset()
		r1.r.Reset()
		snapR := snap(r1.r)
		oc1 := hxsh.RunCtx(ctx, r1.r, pf)
		snapP1 := snap(r1.r)
		o1, e1 := r1.out.String(), r1.err.String()
		// --- fresh runner
		s.Wipe()
		r2 := newRig(s, i)
		r2.r.Reset()
		snapF := snap(r2.r)
		oc2 := hxsh.RunCtx(ctx, r2.r, pf)
		snapP2 := snap(r2.r)
		o2, e2 := r2.out.String(), r2.err.String()
		cancel()
		if oc1.Bad() || oc2.Bad() {
			ob.Skip = "P run: " + oc1.String() + " / " + oc2.String()
			hx.Emit(ob)
			return
		}
		ob.Dirtied = hxsh.DiffFields(snapF, dirty, storage)
		ob.Status, ob.OutLen = oc2.Status, len(o2)
		if d := hxsh.DiffFields(snapR, snapF, storage); len(d) > 0 {
			ob.Fails = append(ob.Fails, "reset_state_differs")
			ob.Detail += "after Reset: " + fieldDiffDetail(snapR, snapF, d)
		}
		if o1 != o2 {
			ob.Fails = append(ob.Fails, "output_differs")
			ob.Detail += "stdout " + firstDiff(o1, o2) + "; "
		}
		if e1 != e2 {
			ob.Fails = append(ob.Fails, "stderr_differs")
			ob.Detail += "stderr " + firstDiff(e1, e2) + "; "
		}
		if oc1.Status != oc2.Status || oc1.Err != oc2.Err {
			ob.Fails = append(ob.Fails, "status_differs")
			ob.Detail += fmt.Sprintf("status %s / %s; ", oc1, oc2)
		}
		if d := hxsh.DiffFields(snapP1, snapP2, storage); len(d) > 0 {
			ob.Fails = append(ob.Fails, "final_variables_or_state_differ")
			ob.Detail += "after P: " + fieldDiffDetail(snapP1, snapP2, d)
		}
		hx.Emit(ob)
	}
}

func hashStr(s string) uint64 {
	var h uint64 = 1469598103934665603
	for i := 0; i < len(s); i++ {
		h ^= uint64(s[i])
		h *= 1099511628211
	}
	return h
}

type incrObs struct {
	Key      string   `json:"key"`
	Src      string   `json:"src"`
	Skip     string   `json:"skip,omitempty"`
	Feats    []string `json:"feats"`
	Stmts    int      `json:"stmts"`
	RanStmts int      `json:"ran_stmts"`
	Exited   bool     `json:"exited"`    // some statement made Exited() true
	ExitTrap bool     `json:"exit_trap"` // an EXIT trap was pending at the end of the statement-wise run
	Status   int      `json:"status"`
	OutLen   int      `json:"outlen"`
	Fails    []string `json:"fails"`
	Class    string   `json:"class,omitempty"` // known-finding class of the failure ("" = none)
	Detail   string   `json:"detail,omitempty"`
}

// noexecOn reads opts[optNoExec] (index 2 of the option table) out of a snapshot.
func noexecOn(snapshot map[string]string) bool {
	o := snapshot["opts"]
	i := strings.Index(o, "{")
	if i < 0 {
		return false
	}
	parts := strings.Split(o[i+1:], ",")
	return len(parts) > 2 && parts[2] == "true"
}

func incrMode(s *hxsh.Scratch, o hx.Opts) {
	storage := storageOnly(o.In)
	g := hxsh.NewGen(hx.Rand(o.Seed, 3002))
	for i, src := range incrPinned {
		incrCase(s, storage, src, i, []string{"pinned"})
	}
	for _, e := range hxsh.LoadRegress("c30") {
		if e.Kind == "incr" && len(e.Progs) == 1 {
			for v := 0; v < 4; v++ {
				incrCase(s, storage, e.Progs[0], v, []string{"pinned:" + e.Name})
			}
		}
	}
	for i := 0; i < o.N; i++ {
		src := g.Program(2 + g.R.IntN(9))
		feats := []string{}
		for f := range g.Feats {
			feats = append(feats, f)
		}
		sort.Strings(feats)
		incrCase(s, storage, src, i, feats)
	}
}

// programs every run checks first
var incrPinned = []string{
	"echo foo; false; echo bar; exit 0; echo baz",
	"trap 'echo bye' EXIT\necho a\necho b\nexit 3\necho never",
	"trap 'echo bye $?' EXIT\necho a\nfalse",
	"set -e\necho a\nfalse\necho never",
	"x=1\nunset x\ny=2\necho $x$y",
	"set -n\necho never",
	"shopt -s -o nounset\necho \"value: $never_set\"\necho after",
	"shopt -s -o noglob\necho *\nshopt -u -o noglob\necho *",
	"set -f\necho *\nset +f\necho *\nshopt -s nullglob\necho nomatch*",
	"echo a\n! set -n\necho never", // KF-C30-1 witness
	"set -n -Z\necho never",        // KF-C30-1 witness
	"f() { return 3; }\nf\necho $?\nreturn 2>/dev/null\necho after",
	"set -u\necho $nope\necho never",
	"cd d1\npwd\n{ echo bg; } >o.txt &\nwait\necho $?",
}

func incrCase(s *hxsh.Scratch, storage map[string]bool, src string, i int, feats []string) {
	{
		ob := incrObs{Src: hx.Hex(src), Fails: []string{}, Feats: feats, Key: fmt.Sprintf("%x", hashStr(src))}
		file, err := hxsh.Parse(src)
		if err != nil {
			ob.Skip = "parse: " + err.Error()
			hx.Emit(ob)
			return
		}
		ob.Stmts = len(file.Stmts)
		// whole file
		ctx, cancel := hxsh.CaseCtx(2)
		s.Wipe()
		ra := newRig(s, i)
		ocA := hxsh.RunCtx(ctx, ra.r, file)
		snapA := snap(ra.r)
		oA, eA := ra.out.String(), ra.err.String()
		// statement by statement
		s.Wipe()
		rb := newRig(s, i)
		var ocB hxsh.Outcome
		bad := false
		for _, st := range file.Stmts {
			ocB = hxsh.RunCtx(ctx, rb.r, st)
			ob.RanStmts++
			if ocB.Bad() {
				bad = true
				break
			}
			if rb.r.Exited() {
				ob.Exited = true
				break
			}
		}
		snapB := snap(rb.r)
		oB, eB := rb.out.String(), rb.err.String()
		cancel()
		if ocA.Bad() || bad {
			ob.Skip = "run: " + ocA.String() + " / " + ocB.String()
			hx.Emit(ob)
			return
		}
		ob.Status, ob.OutLen = ocA.Status, len(oA)
		ob.ExitTrap = !ob.Exited && snapB["callbackExit"] != `""`
		if ob.ExitTrap {
			// the one sanctioned difference: only the whole-file run fires the EXIT trap.
			// What the statement-wise run printed must be a prefix of the whole-file output
			// (the rest is the trap's), and the status is the same (a trap does not change it).
			if !strings.HasPrefix(oA, oB) || !strings.HasPrefix(eA, eB) {
				ob.Fails = append(ob.Fails, "output_differs_before_exit_trap")
				ob.Detail += "stdout " + firstDiff(oB, oA) + "; stderr " + firstDiff(eB, eA) + "; "
			}
			// everything but what the trap body itself may touch is equal
			trapTouched := map[string]bool{"Vars": true, "writeEnv": true, "ecfg": true, "lastExpandExit": true, "Funcs": true,
				"alias": true, "opts": true, "Dir": true, "dirStack": true, "Params": true, "bgProcs": true, "optState": true,
				"callbackErr": true, "callbackExit": true, "stdout": true, "stderr": true, "stdin": true}
			for f := range storage {
				trapTouched[f] = true
			}
			if d := hxsh.DiffFields(snapB, snapA, trapTouched); len(d) > 0 {
				ob.Fails = append(ob.Fails, "final_state_differs_beyond_exit_trap")
				ob.Detail += "final: " + fieldDiffDetail(snapB, snapA, d)
			}
			if ocA.Status != ocB.Status {
				ob.Fails = append(ob.Fails, "status_differs")
				ob.Detail += fmt.Sprintf("status file %s / stmts %s; ", ocA, ocB)
			}
			hx.Emit(ob)
			return
		}
		if oA != oB {
			ob.Fails = append(ob.Fails, "output_differs")
			ob.Detail += "stdout " + firstDiff(oB, oA) + "; "
		}
		if eA != eB {
			ob.Fails = append(ob.Fails, "stderr_differs")
			ob.Detail += "stderr " + firstDiff(eB, eA) + "; "
		}
		if ocA.Status != ocB.Status || ocA.Err != ocB.Err {
			ob.Fails = append(ob.Fails, "status_differs")
			ob.Detail += fmt.Sprintf("status file %s / stmts %s; ", ocA, ocB)
		}
		d := hxsh.DiffFields(snapB, snapA, storage)
		if len(d) > 0 {
			ob.Fails = append(ob.Fails, "final_variables_or_state_differ")
			ob.Detail += "final: " + fieldDiffDetail(snapB, snapA, d)
		}
		// KF-C30-1: a statement turned noexec on and itself ended with a non-zero status
		// (`! set -n`, `set -n -Z`): the whole-file run keeps that status, every later
		// Run(stmt) clears it. Signature: noexec on in both final states, same output,
		// only exit/lastExit (and hence the status) differ, whole-file status non-zero.
		if len(ob.Fails) > 0 && noexecOn(snapA) && noexecOn(snapB) && oA == oB && eA == eB && ocA.Status != 0 && ocB.Status == 0 {
			only := true
			for _, f := range d {
				if f != "exit" && f != "lastExit" {
					only = false
				}
			}
			if only {
				ob.Class = "noexec_enabled_by_failing_statement"
			}
		}
		hx.Emit(ob)
	}
}

func main() {
	o := hx.ParseArgs()
	defer hx.Flush()
	if o.In == "" {
		o.In = "/repo"
	}
	_ = os.Args
	s := hxsh.NewScratch("c30-")
	defer s.Close()
	switch o.Mode {
	case "fields":
		fieldsMode(s, o)
	case "gen":
		genMode(s, o)
	case "incr":
		incrMode(s, o)
	case "incrsrc": // replay: the program text is in the file given by -in; REPO is the first extra argument (default /repo)
		src, err := os.ReadFile(o.In)
		if err != nil {
			panic(err)
		}
		repo := "/repo"
		if len(o.Args) > 0 {
			repo = o.Args[0]
		}
		incrCase(s, storageOnly(repo), string(src), 0, nil)
	}
}
