// c01: search harness for property C01 (see hxfmt.Run and checks/c01.py).
//   c01 search -tier quick|thorough -seed N   whole-language search over the fixed enumeration
//   c01 one -in FILE                          replay one case {"src":hex,"lang":..,"opts":..,"simplify":..}
package main

import (
	"verifharness/hx"
	"verifharness/hxfmt"
)

func main() {
	o := hx.ParseArgs()
	defer hx.Flush()
	hxfmt.Main("C01", o)
}
