// c15: typedjson round trips.
//
//	gen  -in <repo>            emit coq/Gen/Schema.v and coq/Gen/Operators.v
//	json -in <repo> -seed -n   search: Encode/Decode/DeepEqual (modulo recovered positions and nil-vs-empty
//	                           slices)/byte-identical re-encode on every parsed tree (root and sub-nodes),
//	                           Decode on mutated JSON never panics; cases for the in-kernel model legs
package main

import (
	"bytes"
	"encoding/json"
	"fmt"
	"hash/fnv"
	"math/rand/v2"
	"reflect"
	"sort"
	"strings"

	"mvdan.cc/sh/v3/syntax"
	"mvdan.cc/sh/v3/syntax/typedjson"
	"verifharness/hx"
	"verifharness/hxsyn"
)

type failure struct {
	Clause string `json:"clause"`
	Class  string `json:"class"`
	Src    string `json:"src"`
	Lang   string `json:"lang"`
	Detail string `json:"detail"`
}

type ecase struct {
	Src   string `json:"src"`
	Lang  string `json:"lang"`
	Kind  string `json:"kind"`  // kind of the encoded node
	Value string `json:"value"` // Coq value (VPtr (Some node)), with attrs
	JSON  string `json:"json"`  // Coq json, member order as in the bytes
}

type dcase struct {
	Doc  string `json:"doc"`  // the JSON text (for replay)
	JSON string `json:"json"` // Coq json as decodeValue sees it
	Res  string `json:"res"`  // "E" error | "O" + Coq value without attrs
}

func encode(n syntax.Node) (b []byte, panicked bool, msg string, err error) {
	var buf bytes.Buffer
	panicked, msg = hx.Try(func() { err = typedjson.Encode(&buf, n) })
	return buf.Bytes(), panicked, msg, err
}

func decode(b []byte) (n syntax.Node, panicked bool, msg string, err error) {
	panicked, msg = hx.Try(func() { n, err = typedjson.Decode(bytes.NewReader(b)) })
	return
}

type stats struct {
	Trees, Recovered, SubNodes, Docs, DocsValid, DocsAccepted, ByteDocs, EmptyVsNil, Programs int
	Kinds                                                                                     map[string]int
}

// roundTrip checks one node as the encoded root; returns the JSON bytes.
func roundTrip(n syntax.Node, src, lang string, st *stats, fail func(failure)) ([]byte, bool) {
	mk := func(clause, detail string) {
		fail(failure{Clause: clause, Src: src, Lang: lang, Detail: fmt.Sprintf("%T: %s", n, detail)})
	}
	b1, pan, msg, err := encode(n)
	if pan || err != nil {
		mk("encode_fails", fmt.Sprint(msg, err))
		return nil, false
	}
	n2, pan, msg, err := decode(b1)
	if pan {
		mk("decode_panics", msg)
		return b1, false
	}
	if err != nil {
		mk("decode_rejects_own_encoding", err.Error())
		return b1, false
	}
	want := hxsyn.CanonCopy(reflect.ValueOf(n)).Interface()
	if !reflect.DeepEqual(want, n2) {
		mk("decoded_tree_differs", firstDiff(reflect.ValueOf(want), reflect.ValueOf(n2), ""))
		return b1, false
	}
	if !reflect.DeepEqual(n, n2) {
		st.EmptyVsNil++
	}
	b2, pan, msg, err := encode(n2)
	if pan || err != nil || !bytes.Equal(b1, b2) {
		class := ""
		if !pan && err == nil && hxsyn.HasRecovered(n) && equalModuloDerived(b1, b2) {
			// KF-C15-1: the tree holds a recovered position and the two encodings differ only in the
			// derived Pos/End members (a Pos()/End() method compared offsets with the recovered position)
			class = "recovered_changes_derived_pos_end"
		}
		fail(failure{Clause: "reencode_differs", Class: class, Src: src, Lang: lang, Detail: fmt.Sprintf("%T: %s%v first difference at byte %d", n, msg, err, firstByteDiff(b1, b2))})
		return b1, class != ""
	}
	return b1, true
}

func firstByteDiff(a, b []byte) int {
	for i := 0; i < len(a) && i < len(b); i++ {
		if a[i] != b[i] {
			return i
		}
	}
	return min(len(a), len(b))
}

// equalModuloDerived reports whether two encodings are the same JSON once every Pos and End
// member (the results of the Pos()/End() methods; no node field has these names) is removed.
func equalModuloDerived(a, b []byte) bool {
	var x, y any
	if json.Unmarshal(a, &x) != nil || json.Unmarshal(b, &y) != nil {
		return false
	}
	return reflect.DeepEqual(stripDerived(x), stripDerived(y))
}

func stripDerived(v any) any {
	switch t := v.(type) {
	case map[string]any:
		out := map[string]any{}
		for k, e := range t {
			if k == "Pos" || k == "End" {
				continue
			}
			out[k] = stripDerived(e)
		}
		return out
	case []any:
		out := make([]any, len(t))
		for i, e := range t {
			out[i] = stripDerived(e)
		}
		return out
	}
	return v
}

// witnesses of KF-C15-1, parsed with RecoverErrors on every run
var recoverPinned = []string{
	"P # trailing\n# next\n# next2\n(#i)",
	"# lead\n\" # t1\n# t2\n",
	"`foo bar` # trailing\n# next\n# next2\nwhile",
	"a=b # inline\nbar # trailing\n# next\n# next2\nfoo bar`",
	"(foo |", "if a; then b", "foo # c\n(", "{ a; # c1\n# c2\n", "case x in a) b ;; # c\n",
}

func firstDiff(a, b reflect.Value, path string) string {
	if a.IsValid() != b.IsValid() {
		return path + ": validity"
	}
	if !a.IsValid() {
		return ""
	}
	if a.Type() != b.Type() {
		return fmt.Sprintf("%s: type %s vs %s", path, a.Type(), b.Type())
	}
	switch a.Kind() {
	case reflect.Pointer, reflect.Interface:
		if a.IsNil() != b.IsNil() {
			return fmt.Sprintf("%s: nil %v vs %v", path, a.IsNil(), b.IsNil())
		}
		if a.IsNil() {
			return ""
		}
		return firstDiff(a.Elem(), b.Elem(), path)
	case reflect.Struct:
		if a.Type() == hxsyn.PosT {
			if a.Interface() != b.Interface() {
				ao, al := hxsyn.RawPos(a.Interface().(syntax.Pos))
				bo, bl := hxsyn.RawPos(b.Interface().(syntax.Pos))
				return fmt.Sprintf("%s: pos (%d,%d) vs (%d,%d)", path, ao, al, bo, bl)
			}
			return ""
		}
		for i := 0; i < a.NumField(); i++ {
			if d := firstDiff(a.Field(i), b.Field(i), path+"."+a.Type().Field(i).Name); d != "" {
				return d
			}
		}
	case reflect.Slice:
		if a.Len() != b.Len() || a.IsNil() != b.IsNil() {
			return fmt.Sprintf("%s: len %d nil %v vs len %d nil %v", path, a.Len(), a.IsNil(), b.Len(), b.IsNil())
		}
		for i := 0; i < a.Len(); i++ {
			if d := firstDiff(a.Index(i), b.Index(i), fmt.Sprintf("%s[%d]", path, i)); d != "" {
				return d
			}
		}
	default:
		if !reflect.DeepEqual(a.Interface(), b.Interface()) {
			return fmt.Sprintf("%s: %v vs %v", path, a.Interface(), b.Interface())
		}
	}
	return ""
}

// ---- JSON mutation -----------------------------------------------------------------------------

var typeNames = []string{"File", "Stmt", "Lit", "Word", "CallExpr", "Comment", "ParamExp", "BinaryCmd", "Slice", "Pos", "Nope", "", "BraceExp", "IfClause", "CaseItem", "Redirect", "Node"}
var fieldNames = []string{"Stmts", "Cmd", "Parts", "Value", "Op", "X", "Y", "Position", "Hash", "Text", "Args", "Comments", "Negated", "Split", "Bogus", "offs", "Type", "Pos", "End", "Last", "Slice", "Offset"}

func replacements(r *rand.Rand) any {
	opts := []any{nil, true, false, 0.0, 1.0, 2.0, 3.0, -1.0, 1.5, 255.0, 256.0, 4294967295.0, 4294967296.0, 1e300, "str", "", "&&", ">", "-f", "==", "+",
		[]any{}, []any{nil}, []any{1.0, "x"}, map[string]any{}, map[string]any{"Type": "Lit"}, map[string]any{"Type": "Lit", "Value": "v"},
		map[string]any{"Offset": 1.0, "Line": 1.0, "Col": 1.0}, map[string]any{"Offset": 1.0, "Line": 1.0}, map[string]any{"Offset": -1.0, "Line": 1.0, "Col": 1.0},
		map[string]any{"Offset": 1.0, "Line": 1.0, "Col": 1.0, "X": 1.0}, map[string]any{"Offset": 5e9, "Line": 1.5, "Col": 1.0}, map[string]any{"Offset": "1", "Line": 1.0, "Col": 1.0},
		map[string]any{"Offset": 4294967295.0, "Line": 262144.0, "Col": 16384.0}, map[string]any{"Type": "Word", "Parts": []any{map[string]any{"Type": "Lit", "Value": "z"}}},
		map[string]any{"Type": 3.0}, map[string]any{"Type": "Stmt", "Cmd": map[string]any{"Type": "Lit"}}}
	return opts[r.IntN(len(opts))]
}

func countNodes(v any) int {
	n := 1
	switch t := v.(type) {
	case []any:
		for _, e := range t {
			n += countNodes(e)
		}
	case map[string]any:
		for _, e := range t {
			n += countNodes(e)
		}
	}
	return n
}

// mutateAt rewrites the k-th node (preorder, sorted keys) of v.
func mutateAt(r *rand.Rand, v any, k *int) any {
	if *k == 0 {
		*k = -1
		switch t := v.(type) {
		case map[string]any:
			switch r.IntN(6) {
			case 0: // change or add the Type
				c := copyMap(t)
				c["Type"] = typeNames[r.IntN(len(typeNames))]
				return c
			case 1: // drop a key
				c := copyMap(t)
				ks := sortedKeys(c)
				if len(ks) > 0 {
					delete(c, ks[r.IntN(len(ks))])
				}
				return c
			case 2: // add a field
				c := copyMap(t)
				c[fieldNames[r.IntN(len(fieldNames))]] = replacements(r)
				return c
			case 3: // rename a key
				c := copyMap(t)
				ks := sortedKeys(c)
				if len(ks) > 0 {
					old := ks[r.IntN(len(ks))]
					c[fieldNames[r.IntN(len(fieldNames))]] = c[old]
					delete(c, old)
				}
				return c
			}
		case []any:
			switch r.IntN(4) {
			case 0:
				return append(append([]any{}, t...), replacements(r))
			case 1:
				if len(t) > 0 {
					return t[0]
				}
			}
		}
		return replacements(r)
	}
	*k--
	switch t := v.(type) {
	case []any:
		out := make([]any, len(t))
		for i, e := range t {
			if *k >= 0 {
				out[i] = mutateAt(r, e, k)
			} else {
				out[i] = e
			}
		}
		return out
	case map[string]any:
		out := map[string]any{}
		for _, key := range sortedKeys(t) {
			if *k >= 0 {
				out[key] = mutateAt(r, t[key], k)
			} else {
				out[key] = t[key]
			}
		}
		return out
	}
	return v
}

func copyMap(m map[string]any) map[string]any {
	c := map[string]any{}
	for k, v := range m {
		c[k] = v
	}
	return c
}

func sortedKeys(m map[string]any) []string {
	ks := make([]string, 0, len(m))
	for k := range m {
		ks = append(ks, k)
	}
	sort.Strings(ks)
	return ks
}

var handDocs = []string{
	`null`, `true`, `1`, `"x"`, `[]`, `{}`, `{"Type":""}`, `{"Type":"Nope"}`, `{"Type":"Slice"}`, `{"Type":"Lit"}`,
	`{"Type":"Lit","Value":"a","ValuePos":{"Offset":0,"Line":1,"Col":1},"ValueEnd":{"Offset":1,"Line":1,"Col":2}}`,
	`{"Type":"Lit","ValuePos":null}`, `{"Type":"Lit","ValuePos":{"Offset":0,"Line":0,"Col":0}}`,
	`{"Type":"Lit","ValuePos":{"Offset":7,"Line":0,"Col":0}}`, `{"Type":"Lit","ValuePos":{"Offset":4294967295,"Line":1,"Col":1}}`,
	`{"Type":"Lit","ValuePos":{"Offset":1,"Line":262144,"Col":16384}}`, `{"Type":"Lit","ValuePos":[1,2,3]}`,
	`{"Type":"Lit","Pos":"junk","End":[1]}`, `{"Type":"Lit","Value":1}`, `{"Type":"Lit","Value":null}`, `{"Type":"Lit","Value":["a"]}`,
	`{"Type":"Stmt","Cmd":{"Type":"Lit"}}`, `{"Type":"Stmt","Cmd":{}}`, `{"Type":"Stmt","Cmd":null}`, `{"Type":"Stmt","Cmd":{"Type":"CallExpr","Args":[{"Parts":[{"Type":"Lit","Value":"x"}]}]}}`,
	`{"Type":"Stmt","Negated":true,"Background":false}`, `{"Type":"Stmt","Negated":1}`, `{"Type":"Stmt","Negated":"true"}`,
	`{"Type":"Stmt","Comments":[{"Text":"c"}]}`, `{"Type":"Stmt","Comments":[{"Type":"Comment","Text":"c"}]}`, `{"Type":"Stmt","Comments":[null]}`, `{"Type":"Stmt","Comments":{}}`,
	`{"Type":"Stmt","Redirs":[null]}`, `{"Type":"Stmt","Redirs":[{"Op":">"}]}`, `{"Type":"Stmt","Redirs":[{"Op":"nope"}]}`, `{"Type":"Stmt","Redirs":[{"Op":61}]}`, `{"Type":"Stmt","Redirs":[{"Type":"Lit"}]}`,
	`{"Type":"ParamExp","Split":1}`, `{"Type":"ParamExp","Split":256}`, `{"Type":"ParamExp","Split":"="}`, `{"Type":"ParamExp","Split":1.5}`, `{"Type":"ParamExp","Split":-1}`,
	`{"Type":"ParamExp","Slice":{}}`, `{"Type":"ParamExp","Slice":{"Type":"Slice"}}`, `{"Type":"ParamExp","Slice":{"Offset":{"Type":"Word"}}}`, `{"Type":"ParamExp","Exp":{"Op":":-"}}`,
	`{"Type":"ParamExp","Names":"*"}`, `{"Type":"ParamExp","Names":"!"}`, `{"Type":"ParamExp","Modifiers":[{"Value":"h"}]}`,
	`{"Type":"BinaryCmd","Op":"&&"}`, `{"Type":"BinaryCmd","Op":"&"}`, `{"Type":"File","Stmts":[[]]}`, `{"Type":"File","Stmts":[{"Type":"Stmt"}]}`, `{"Type":"File","Stmts":[{"Type":"Lit"}]}`,
	`{"Type":"File","Name":"n","Stmts":[]}`, `{"Type":"File","name":"n"}`, `{"Type":"File","Bogus":1}`, `{"Type":["File"]}`, `{"Type":null,"Value":"x"}`,
	`[{"Type":"File"}]`, `{"Type":"BraceExp","Elems":[{"Parts":[{"Type":"Lit","Value":"a"}]}]}`, `{"Type":"Word","Parts":[{"Value":"x"}]}`, `{"Type":"Word","Parts":[{"Type":"Word"}]}`,
	`{"Type":"Comment","Hash":{"Offset":1,"Line":1,"Col":1},"Text":"t"}`, `{"Type":"UnaryTest","Op":"-f","X":{"Type":"Word"}}`, `{"Type":"UnaryTest","Op":"&&"}`,
}

func main() {
	o := hx.ParseArgs()
	defer hx.Flush()
	repo := o.In
	if repo == "" {
		repo = "/repo"
	}
	sch := hxsyn.BuildSchema()
	switch o.Mode {
	case "gen":
		missing, extra, err := hxsyn.RegistryDiff(repo)
		info := map[string]any{"registry_missing": missing, "registry_extra": extra, "problems": sch.Problems, "structs": len(sch.Structs)}
		if err != nil {
			info["source_error"] = err.Error()
		}
		tabs, err := sch.ProbeOps(repo)
		if err != nil {
			info["source_error"] = err.Error()
			hx.Emit(map[string]any{"info": info})
			return
		}
		info["probe_notes"] = tabs.Notes
		hx.Emit(map[string]any{"file": "Schema.v", "text": sch.CoqSchema()})
		hx.Emit(map[string]any{"file": "Operators.v", "text": sch.CoqOperators(tabs)})
		hx.Emit(map[string]any{"info": info})
	case "json":
		corpus, err := hxsyn.Corpus(repo)
		if err != nil {
			hx.Emit(map[string]any{"error": err.Error()})
			return
		}
		base := append(append([]string{}, corpus...), hxsyn.Extra...)
		// pinned regression corpus first, on every seed and tier
		var progs, regDocs []string
		pinnedSrc := map[string]bool{}
		if len(o.Args) > 0 {
			reg, err := hxsyn.LoadRegress(o.Args[0])
			if err != nil {
				hx.Emit(map[string]any{"error": "regress corpus: " + err.Error()})
				return
			}
			for _, r := range reg {
				if r.Src != "" {
					progs = append(progs, r.Src)
					pinnedSrc[r.Src] = true
				}
				if r.Doc != "" {
					regDocs = append(regDocs, r.Doc)
				}
			}
		}
		progs = append(progs, base...)
		r := hx.Rand(o.Seed, 15)
		for i := 0; i < o.N; i++ {
			progs = append(progs, hxsyn.Mutate(r, base))
		}
		ecases, dcasesN, subMax, kmax, docMax := 40, 220, 12, 60, 1500
		if o.Tier == "thorough" {
			ecases, dcasesN, subMax, kmax, docMax = 300, 1500, 1<<30, 120, 4000
		}
		st := &stats{Kinds: map[string]int{}}
		nfail := 0
		fail := func(f failure) {
			nfail++
			if nfail <= 200 {
				hx.Emit(map[string]any{"fail": f})
			}
		}
		var ec []ecase
		var docs [][]byte
		seen := map[uint64]bool{}
		addE := func(n syntax.Node, b []byte, src, lang string) {
			if len(b) > 60000 {
				return
			}
			h := fnv.New64a()
			h.Write(b)
			if seen[h.Sum64()] {
				return
			}
			seen[h.Sum64()] = true
			val, err := sch.Export(reflect.ValueOf(n).Elem(), true)
			if err != nil {
				return
			}
			js, err := hxsyn.CoqJSONOrdered(b)
			if err != nil {
				return
			}
			ec = append(ec, ecase{Src: src, Lang: lang, Kind: reflect.TypeOf(n).Elem().Name(), Value: "(VPtr (Some " + val + "))", JSON: js})
		}
		handle := func(src string, lang string, file *syntax.File) {
			st.Trees++
			b, ok := roundTrip(file, src, lang, st, fail)
			if !ok {
				return
			}
			refs := hxsyn.Enumerate(file)
			if len(refs) <= kmax {
				addE(file, b, src, lang)
			}
			if len(docs) < 4000 && len(b) < docMax {
				docs = append(docs, b)
			}
			// sub-nodes as the encoded root
			step := 1
			if len(refs) > subMax {
				step = len(refs) / subMax
			}
			off := int(o.Seed) % step
			for i := 1 + off; i < len(refs); i += step {
				n := refs[i].Ptr.(syntax.Node)
				st.SubNodes++
				st.Kinds[refs[i].Kind]++
				bs, ok := roundTrip(n, src, lang, st, fail)
				if ok && i%7 == int(o.Seed)%7 {
					addE(n, bs, src, lang)
				}
			}
		}
		for _, src := range progs {
			st.Programs++
			parsed := false
			hxsyn.ParseAll(src, func(li int, file *syntax.File) {
				parsed = true
				handle(src, hxsyn.LangNames[li], file)
			})
			if !parsed || pinnedSrc[src] {
				hxsyn.ParseRecover(src, func(li int, file *syntax.File) {
					st.Recovered++
					handle(src, hxsyn.LangNames[li]+"+recover", file)
				})
			}
		}
		for _, src := range recoverPinned {
			hxsyn.ParseRecover(src, func(li int, file *syntax.File) {
				st.Recovered++
				handle(src, hxsyn.LangNames[li]+"+recover", file)
			})
		}
		// pinned: a position whose line and column overflowed keeps its offset
		{
			big := strings.Repeat("\n", 262144) + strings.Repeat(" ", 16390) + "a"
			hxsyn.ParseAll(big, func(li int, file *syntax.File) {
				if li == 0 {
					st.Trees++
					roundTrip(file, "<262144 newlines, 16390 spaces, a>", "bash", st, fail)
				}
			})
		}
		// pinned hand-built nodes for the encode leg: positions with line and column zero but an
		// offset (kept), the zero position (left out), an empty non-nil slice
		var pinned []ecase
		for _, n := range []syntax.Node{
			&syntax.Lit{ValuePos: syntax.NewPos(7, 0, 0), ValueEnd: syntax.NewPos(8, 0, 0), Value: "x"},
			&syntax.Lit{ValuePos: syntax.NewPos(0, 0, 0), ValueEnd: syntax.NewPos(1, 1, 2), Value: "y"},
			&syntax.Comment{Hash: syntax.NewPos(4294967295, 262144, 16384), Text: "c"},
			&syntax.Word{Parts: []syntax.WordPart{&syntax.Lit{ValuePos: syntax.NewPos(3, 1, 4), ValueEnd: syntax.NewPos(4, 1, 5), Value: "z"}}},
			&syntax.Stmt{Comments: []syntax.Comment{}, Position: syntax.NewPos(9, 0, 0), Negated: true, Redirs: []*syntax.Redirect{}},
		} {
			st.Trees++
			if b, ok := roundTrip(n, fmt.Sprintf("<hand-built %T>", n), "-", st, fail); ok {
				before := len(ec)
				addE(n, b, fmt.Sprintf("<hand-built %T>", n), "-")
				if len(ec) > before {
					pinned = append(pinned, ec[len(ec)-1])
					ec = ec[:len(ec)-1]
				}
			}
		}
		// ---- Decode on mutated documents
		var dc []dcase
		emitDoc := func(doc []byte) {
			st.Docs++
			n, pan, msg, err := decode(doc)
			if pan {
				fail(failure{Clause: "decode_panics", Src: string(doc), Detail: msg})
				return
			}
			var ast any
			if json.NewDecoder(bytes.NewReader(doc)).Decode(&ast) != nil {
				return
			}
			st.DocsValid++
			res := "E"
			if err == nil {
				st.DocsAccepted++
				val, xerr := sch.Export(reflect.ValueOf(&n).Elem(), false)
				if xerr != nil {
					return
				}
				res = "O" + val
			}
			if len(doc) < 30000 {
				dc = append(dc, dcase{Doc: string(doc), JSON: hxsyn.CoqJSONAny(ast), Res: res})
			}
		}
		for _, d := range append(append([]string{}, regDocs...), handDocs...) {
			emitDoc([]byte(d))
		}
		nhand := len(dc)
		rm := hx.Rand(o.Seed, 1500)
		for i := 0; i < dcasesN*3 && len(docs) > 0; i++ {
			doc := docs[rm.IntN(len(docs))]
			var ast any
			if json.Unmarshal(doc, &ast) != nil {
				continue
			}
			nm := 1 + rm.IntN(2)
			for j := 0; j < nm; j++ {
				k := rm.IntN(countNodes(ast))
				ast = mutateAt(rm, ast, &k)
			}
			out, err := json.Marshal(ast)
			if err != nil {
				continue
			}
			emitDoc(out)
		}
		// byte-level damage: only "never panics"
		for i := 0; i < dcasesN*2 && len(docs) > 0; i++ {
			doc := append([]byte{}, docs[rm.IntN(len(docs))]...)
			switch rm.IntN(4) {
			case 0:
				doc = doc[:rm.IntN(len(doc))]
			case 1:
				doc[rm.IntN(len(doc))] = byte(rm.IntN(256))
			case 2:
				p := rm.IntN(len(doc))
				doc = append(doc[:p], append([]byte(`{"Type":"Lit"}`), doc[p:]...)...)
			default:
				p, q := rm.IntN(len(doc)), rm.IntN(len(doc))
				doc[p], doc[q] = doc[q], doc[p]
			}
			st.ByteDocs++
			if _, pan, msg, _ := decode(doc); pan {
				fail(failure{Clause: "decode_panics", Src: string(doc), Detail: msg})
			}
		}
		// seed-rotated samples for the in-kernel legs
		rot := func(key string) uint64 {
			h := fnv.New64a()
			h.Write([]byte(fmt.Sprint(o.Seed, key)))
			return h.Sum64()
		}
		sort.SliceStable(ec, func(i, j int) bool {
			if pinnedSrc[ec[i].Src] != pinnedSrc[ec[j].Src] {
				return pinnedSrc[ec[i].Src]
			}
			return rot(ec[i].JSON) < rot(ec[j].JSON)
		})
		if len(ec) > ecases {
			ec = ec[:ecases]
		}
		for _, c := range append(pinned, ec...) {
			hx.Emit(map[string]any{"ecase": c})
		}
		// keep all hand documents, sample the rest
		hand := dc[:nhand]
		rest := dc[nhand:]
		sort.SliceStable(rest, func(i, j int) bool { return rot(rest[i].Doc) < rot(rest[j].Doc) })
		if len(rest) > dcasesN {
			rest = rest[:dcasesN]
		}
		for _, c := range append(append([]dcase{}, hand...), rest...) {
			hx.Emit(map[string]any{"dcase": c})
		}
		hx.Emit(map[string]any{"summary": st, "failures": nfail})
	default:
		panic("unknown mode " + o.Mode)
	}
}
