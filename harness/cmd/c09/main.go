// c09: "Source positions point at the source they describe".
//
//	pos    - code leg for coq/Syntax/Pos.v: NewPos/Offset/Line/Col/IsValid/After/posAddCol/nextPos
//	         on generated numbers around every limit.
//	search - the property on real parse trees: for every node of every tree parsed from the
//	         corpus and from generated inputs (CRLF, NUL, escaped newlines, heredocs, backquotes,
//	         multi-byte runes), in all five variants:
//	           start<=end, offsets inside the input, line/col == those of the offset (for every
//	           Pos value stored anywhere in the tree and every Pos()/End()), the text of
//	           keywords/operators/quotes/literals found at their positions, statements in
//	           source order, children within their parents.
//	         Text is compared modulo the bytes the reader drops by design (NUL, the CR of CRLF,
//	         backslash-newline, backquote-level backslashes): a precise matcher, no input is exempted.
package main

import (
	"fmt"
	"math/rand/v2"
	"reflect"
	"strings"

	"mvdan.cc/sh/v3/syntax"
	"verifharness/hx"
	"verifharness/hxreader"
)

func b2i(b bool) int64 {
	if b {
		return 1
	}
	return 0
}

// ---------------------------------------------------------------- pos probes

type posRow struct {
	Kind string  `json:"kind"`
	Args []int64 `json:"args"`
	Out  []int64 `json:"out"`
}

func bigN(r *rand.Rand) uint64 {
	switch r.IntN(8) {
	case 0:
		return uint64(r.IntN(4))
	case 1:
		return uint64(16380 + r.IntN(8))
	case 2:
		return uint64(262140 + r.IntN(8))
	case 3:
		return uint64(4294967280 + r.IntN(20))
	case 4:
		return r.Uint64() >> 2
	default:
		return uint64(r.IntN(70000))
	}
}

func posOut(p syntax.Pos) []int64 {
	o, lc := syntax.VerifPosRaw(p)
	return []int64{int64(o), int64(lc), int64(p.Offset()), int64(p.Line()), int64(p.Col()), b2i(p.IsValid()), b2i(p.IsRecovered())}
}

func posCase(r *rand.Rand) posRow {
	switch r.IntN(4) {
	case 0:
		o, l, c := bigN(r), bigN(r), bigN(r)
		return posRow{Kind: "new", Args: []int64{int64(o), int64(l), int64(c)}, Out: posOut(syntax.NewPos(uint(o), uint(l), uint(c)))}
	case 1:
		o, l, c := bigN(r), bigN(r), bigN(r)
		n := int64(r.IntN(40000)) - 20000
		if r.IntN(4) == 0 {
			n = int64(r.IntN(10)) - 5
		}
		if r.IntN(6) == 0 {
			n = int64(r.Uint64()>>3) - (1 << 60)
		}
		p := syntax.NewPos(uint(o), uint(l), uint(c))
		return posRow{Kind: "add", Args: []int64{int64(o), int64(l), int64(c), n}, Out: posOut(syntax.VerifPosAddCol(p, int(n)))}
	case 2:
		a := syntax.NewPos(uint(bigN(r)), uint(bigN(r)), uint(bigN(r)))
		b := syntax.NewPos(uint(bigN(r)), uint(bigN(r)), uint(bigN(r)))
		if r.IntN(5) == 0 {
			b = a
		}
		return posRow{Kind: "after", Args: append(posOut(a)[:2], posOut(b)[:2]...), Out: []int64{b2i(a.After(b))}}
	default:
		offs, line, col := int64(bigN(r)), int64(bigN(r)), int64(bigN(r))
		bsp, w := uint(r.IntN(1030)), r.IntN(5)
		return posRow{Kind: "next", Args: []int64{offs, int64(bsp), int64(w), line, col}, Out: posOut(syntax.VerifNextPos(offs, bsp, w, line, col))}
	}
}

// ---------------------------------------------------------------- position checker

type failure struct {
	Clause string `json:"clause"`
	Msg    string `json:"msg"`
	Class  string `json:"class,omitempty"` // known-finding class this failure falls in, if any
}

type checker struct {
	hdocLast   map[*syntax.Lit]bool // last literal of a here-document body
	assignLits map[*syntax.Lit]bool // name / first value literal of an assignment whose head has dropped bytes
	stored     []syntax.Pos         // every Pos stored in the tree
	escComEnds []syntax.Pos         // End() of comments whose text ends in backslash-newline
	lang       syntax.LangVariant
	tabs       bool // the input has a <<- here-document: leading tabs of body lines are dropped
	src        string
	bquote     bool // the input has a backquote: backquote-level backslashes may have been dropped
	fails      []failure
	npos       int
	nnodes     int
}

func (c *checker) failc(clause, class, format string, a ...any) {
	if len(c.fails) < 12 {
		c.fails = append(c.fails, failure{clause, fmt.Sprintf(format, a...), class})
	}
}

func (c *checker) failf(clause, format string, a ...any) { c.failc(clause, "", format, a...) }

func (c *checker) consistent(p syntax.Pos) bool {
	off := int(p.Offset())
	if !p.IsValid() || off > len(c.src) {
		return false
	}
	l, cl := lineCol(c.src, off)
	return p.Line() == l && p.Col() == cl
}

// Known-finding class "comment_ending_in_escaped_newline": a comment closed by backslash-newline
// keeps "\\\n" in its Text, the line goes on after it, and Comment.End() = Hash + 1 + len(Text)
// is neither the end of the comment in the source (CRLF) nor on the right line; File.End and
// Stmt.End inherit it.
func (c *checker) escComment(p syntax.Pos) bool {
	for _, e := range c.escComEnds {
		if e == p {
			return true
		}
	}
	return false
}

// Known-finding class "pos_by_column_arithmetic_across_newline": p's line/col disagree with its
// offset, and the tree stores a consistent position q on the same line from which p is exactly
// posAddCol(q, n) (offset and column advanced by the same n > 0) although the source between
// them contains a newline. That is how Comment.End, the End of clauses closed by a keyword,
// index brackets and assignment parts are computed.
func (c *checker) arithClass(p syntax.Pos) string {
	if !p.IsValid() || int(p.Offset()) > len(c.src) {
		return ""
	}
	if c.escComment(p) {
		return "comment_ending_in_escaped_newline"
	}
	for _, q := range c.stored {
		if q.Line() == p.Line() && q.Col() < p.Col() && q.Offset() < p.Offset() &&
			p.Offset()-q.Offset() == p.Col()-q.Col() && c.consistent(q) &&
			strings.Contains(c.src[q.Offset():p.Offset()], "\n") {
			return "pos_by_column_arithmetic_across_newline"
		}
	}
	return ""
}

func lineCol(src string, off int) (uint, uint) {
	line, col := uint(1), uint(1)
	for i := 0; i < off && i < len(src); i++ {
		if src[i] == '\n' {
			line++
			col = 1
		} else {
			col++
		}
	}
	return line, col
}

// a valid position: inside the input, line/col those of its offset
func (c *checker) posOK(what string, p syntax.Pos) bool {
	if !p.IsValid() {
		return true
	}
	c.npos++
	off := int(p.Offset())
	if off > len(c.src) {
		c.failf("outside_input", "%s offset %d > len %d", what, off, len(c.src))
		return false
	}
	l, cl := lineCol(c.src, off)
	if p.Line() != l || p.Col() != cl {
		c.failc("linecol_disagrees_with_offset", c.arithClass(p), "%s %d:%d offset %d is %d:%d", what, p.Line(), p.Col(), off, l, cl)
		return false
	}
	return true
}

// skippable reports how many bytes at src[i:] the reader drops by design, given that the
// next wanted byte is not there: NUL, backslash-newline, backslash-CR-LF, the CR of CRLF,
// and (when the input has backquotes) a backslash escaping $ ` \ " at backquote level.
func (c *checker) skippable(i int) int {
	s := c.src
	switch {
	case s[i] == 0:
		return 1
	case s[i] == '\\' && i+1 < len(s) && s[i+1] == '\n':
		return 2
	case s[i] == '\\' && i+2 < len(s) && s[i+1] == '\r' && s[i+2] == '\n':
		return 3
	case s[i] == '\r' && i+1 < len(s) && s[i+1] == '\n':
		return 1
	case c.bquote && s[i] == '\\' && i+1 < len(s) && strings.IndexByte("$`\\\"", s[i+1]) >= 0:
		return 1
	}
	return 0
}

// match: is there a way to read want from src[off:] where every source byte is either the next
// wanted byte or part of a dropped sequence (plus, for <<- here-documents, a tab at the start of
// a source line)? With end >= 0 the reading must stop exactly at end (dropped bytes after the last
// wanted byte may or may not be included). Exhaustive search with memoisation: exact, so an
// input like '\<nl>' in single quotes (not dropped there) is matched literally.
func (c *checker) match(off int, want string, end int) (int, bool) {
	type key struct{ i, j int }
	seen := map[key]bool{}
	var rec func(i, j int) (int, bool)
	rec = func(i, j int) (int, bool) {
		if j == len(want) && (end < 0 || i == end) {
			return i, true
		}
		if i >= len(c.src) || (end >= 0 && i >= end) {
			return i, false
		}
		k := key{i, j}
		if seen[k] {
			return i, false
		}
		seen[k] = true
		if j < len(want) && c.src[i] == want[j] {
			if e, ok := rec(i+1, j+1); ok {
				return e, true
			}
		}
		if n := c.skippable(i); n > 0 {
			if e, ok := rec(i+n, j); ok {
				return e, true
			}
		}
		if c.tabs && c.src[i] == '\t' && (i == 0 || c.src[i-1] == '\n' || c.src[i-1] == '\t') {
			if e, ok := rec(i+1, j); ok {
				return e, true
			}
		}
		return i, false
	}
	return rec(off, 0)
}

func (c *checker) matchAt(off int, want string) (int, bool) { return c.match(off, want, -1) }

func (c *checker) textAt(what string, p syntax.Pos, wants ...string) {
	if !p.IsValid() {
		c.failf("invalid_pos", "%s is not valid", what)
		return
	}
	off := int(p.Offset())
	if off > len(c.src) {
		return // reported by posOK
	}
	for _, w := range wants {
		if _, ok := c.matchAt(off, w); ok {
			return
		}
	}
	c.failf("text_not_at_position", "%s: want one of %q at offset %d, found %q", what, wants, off, trunc(c.src[off:], 16))
}

func trunc(s string, n int) string {
	if len(s) > n {
		return s[:n]
	}
	return s
}

func addCol(p syntax.Pos, n int) syntax.Pos { return syntax.VerifPosAddCol(p, n) }

func (c *checker) node(n syntax.Node) {
	c.nnodes++
	T := fmt.Sprintf("%T", n)
	ps, pe := n.Pos(), n.End()
	c.posOK(T+".Pos()", ps)
	c.posOK(T+".End()", pe)
	if ps.IsValid() && pe.IsValid() && ps.After(pe) {
		c.failf("start_after_end", "%s Pos %d End %d", T, ps.Offset(), pe.Offset())
	}
	switch n := n.(type) {
	case *syntax.Comment:
		c.textAt("Comment.Hash", n.Hash, "#"+n.Text)
	case *syntax.Stmt:
		if n.Semicolon.IsValid() {
			c.textAt("Stmt.Semicolon", n.Semicolon, ";", "&", "|&")
		}
		if n.Negated {
			c.textAt("Stmt.Position(negated)", n.Position, "!")
		}
	case *syntax.Redirect:
		strs := []string{n.Op.String()}
		switch n.Op {
		case syntax.RdrClob:
			strs = append(strs, ">!")
		case syntax.AppClob:
			strs = append(strs, ">>!")
		case syntax.RdrAllClob:
			strs = append(strs, "&>!", ">&|", ">&!")
		case syntax.AppAll:
			strs = append(strs, ">>&")
		case syntax.AppAllClob:
			strs = append(strs, "&>>!", ">>&|", ">>&!")
		}
		c.textAt("Redirect.OpPos", n.OpPos, strs...)
		if n.Hdoc != nil && len(n.Hdoc.Parts) > 0 {
			if l, ok := n.Hdoc.Parts[len(n.Hdoc.Parts)-1].(*syntax.Lit); ok {
				c.hdocLast[l] = true
			}
		}
	case *syntax.Lit:
		c.lit(n)
	case *syntax.Assign:
		// Known-finding class "assign_pos_by_length_arithmetic": the positions inside name=value are
		// computed from lengths within the token; they are off when the head of the assignment
		// (name up to '=') contains bytes the reader drops.
		if n.Name != nil && n.Name.ValuePos.IsValid() {
			off := int(n.Name.ValuePos.Offset())
			if off <= len(c.src) {
				head := c.src[off:]
				if i := strings.IndexByte(head, '='); i >= 0 {
					head = head[:i+1]
				}
				if hxreader.HasAny(head, "\x00", "\\\n", "\\\r\n", "\r\n") {
					c.assignLits[n.Name] = true
					if n.Value != nil && len(n.Value.Parts) > 0 {
						if l, ok := n.Value.Parts[0].(*syntax.Lit); ok {
							c.assignLits[l] = true
						}
					}
				}
			}
		}
	case *syntax.Subshell:
		c.textAt("Subshell.Lparen", n.Lparen, "(")
		c.textAt("Subshell.Rparen", n.Rparen, ")")
	case *syntax.Block:
		c.textAt("Block.Lbrace", n.Lbrace, "{")
		c.textAt("Block.Rbrace", n.Rbrace, "}")
	case *syntax.IfClause:
		if n.ThenPos.IsValid() {
			c.textAt("IfClause.Position", n.Position, "if", "elif")
			c.textAt("IfClause.ThenPos", n.ThenPos, "then")
		} else {
			c.textAt("IfClause.Position(else)", n.Position, "else")
		}
		c.textAt("IfClause.FiPos", n.FiPos, "fi")
	case *syntax.WhileClause:
		if n.Until {
			c.textAt("WhileClause.WhilePos", n.WhilePos, "until")
		} else {
			c.textAt("WhileClause.WhilePos", n.WhilePos, "while")
		}
		c.textAt("WhileClause.DoPos", n.DoPos, "do")
		c.textAt("WhileClause.DonePos", n.DonePos, "done")
	case *syntax.ForClause:
		if n.Select {
			c.textAt("ForClause.ForPos", n.ForPos, "select")
		} else {
			c.textAt("ForClause.ForPos", n.ForPos, "for")
		}
		if n.Braces {
			c.textAt("ForClause.DoPos", n.DoPos, "{")
			c.textAt("ForClause.DonePos", n.DonePos, "}")
		} else {
			c.textAt("ForClause.DoPos", n.DoPos, "do")
			c.textAt("ForClause.DonePos", n.DonePos, "done")
		}
	case *syntax.WordIter:
		if n.InPos.IsValid() {
			c.textAt("WordIter.InPos", n.InPos, "in")
		}
	case *syntax.CStyleLoop:
		c.textAt("CStyleLoop.Lparen", n.Lparen, "((")
		c.textAt("CStyleLoop.Rparen", n.Rparen, "))")
	case *syntax.SglQuoted:
		if n.Dollar {
			c.textAt("SglQuoted.Left", n.Left, "$'")
		} else {
			c.textAt("SglQuoted.Left", n.Left, "'")
		}
		c.textAt("SglQuoted.Right", n.Right, "'")
		c.textAt("SglQuoted.End()-1", addCol(n.End(), -1), "'")
		// the quoted text is read from Left exactly up to End() = Right+1 (modulo dropped bytes): Right must
		// be the quote that closes this Value, not just some quote (found by the Coq twin, PosCheck.v)
		want := "'" + n.Value + "'"
		if n.Dollar {
			want = "$" + want
		}
		c.textAt("SglQuoted.Value", n.Left, want)
		if lo, hi := int(n.Left.Offset()), int(n.End().Offset()); n.Left.IsValid() && lo <= len(c.src) && hi <= len(c.src) {
			if _, ok := c.match(lo, want, hi); !ok {
				c.failf("quote_span_mismatch", "SglQuoted %q from %d does not end at End() %d", trunc(n.Value, 16), lo, hi)
			}
		}
	case *syntax.DblQuoted:
		if n.Dollar {
			c.textAt("DblQuoted.Left", n.Left, `$"`)
		} else {
			c.textAt("DblQuoted.Left", n.Left, `"`)
		}
		c.textAt("DblQuoted.Right", n.Right, `"`)
		c.textAt("DblQuoted.End()-1", addCol(n.End(), -1), `"`)
	case *syntax.UnaryArithm:
		c.textAt("UnaryArithm.OpPos", n.OpPos, n.Op.String())
	case *syntax.UnaryTest:
		strs := []string{n.Op.String()}
		switch n.Op {
		case syntax.TsExists:
			strs = append(strs, "-a")
		case syntax.TsSmbLink:
			strs = append(strs, "-h")
		}
		c.textAt("UnaryTest.OpPos", n.OpPos, strs...)
	case *syntax.BinaryCmd:
		c.textAt("BinaryCmd.OpPos", n.OpPos, n.Op.String())
	case *syntax.BinaryArithm:
		c.textAt("BinaryArithm.OpPos", n.OpPos, n.Op.String())
	case *syntax.BinaryTest:
		strs := []string{n.Op.String()}
		if n.Op == syntax.TsMatch {
			strs = append(strs, "=")
		}
		c.textAt("BinaryTest.OpPos", n.OpPos, strs...)
	case *syntax.ParenArithm:
		c.textAt("ParenArithm.Lparen", n.Lparen, "(")
		c.textAt("ParenArithm.Rparen", n.Rparen, ")")
	case *syntax.ParenTest:
		c.textAt("ParenTest.Lparen", n.Lparen, "(")
		c.textAt("ParenTest.Rparen", n.Rparen, ")")
	case *syntax.FuncDecl:
		if n.RsrvWord {
			c.textAt("FuncDecl.Position", n.Position, "function")
		}
	case *syntax.ParamExp:
		if n.Dollar.IsValid() {
			c.textAt("ParamExp.Dollar", n.Dollar, "$")
		}
		if !n.Short {
			c.textAt("ParamExp.Rbrace", n.Rbrace, "}")
		}
	case *syntax.ArithmExp:
		if n.Bracket {
			c.textAt("ArithmExp.Left", n.Left, "$[")
			c.textAt("ArithmExp.Right", n.Right, "]")
		} else {
			c.textAt("ArithmExp.Left", n.Left, "$((")
			c.textAt("ArithmExp.Right", n.Right, "))")
		}
	case *syntax.ArithmCmd:
		c.textAt("ArithmCmd.Left", n.Left, "((")
		c.textAt("ArithmCmd.Right", n.Right, "))")
	case *syntax.CmdSubst:
		switch {
		case n.TempFile:
			c.textAt("CmdSubst.Left", n.Left, "${ ", "${\t", "${\n")
			c.textAt("CmdSubst.Right", n.Right, "}")
		case n.ReplyVar:
			c.textAt("CmdSubst.Left", n.Left, "${|")
			c.textAt("CmdSubst.Right", n.Right, "}")
		case n.Backquotes:
			c.textAt("CmdSubst.Left", n.Left, "`", "\\`")
			c.textAt("CmdSubst.Right", n.Right, "`", "\\`")
		default:
			c.textAt("CmdSubst.Left", n.Left, "$(")
			c.textAt("CmdSubst.Right", n.Right, ")")
		}
	case *syntax.CaseClause:
		c.textAt("CaseClause.Case", n.Case, "case")
		if n.Braces {
			c.textAt("CaseClause.In", n.In, "{")
			c.textAt("CaseClause.Esac", n.Esac, "}")
		} else {
			c.textAt("CaseClause.In", n.In, "in")
			c.textAt("CaseClause.Esac", n.Esac, "esac")
		}
	case *syntax.CaseItem:
		if n.OpPos.IsValid() {
			c.textAt("CaseItem.OpPos", n.OpPos, n.Op.String(), "esac", "}")
		}
	case *syntax.TestClause:
		c.textAt("TestClause.Left", n.Left, "[[")
		c.textAt("TestClause.Right", n.Right, "]]")
	case *syntax.TimeClause:
		c.textAt("TimeClause.Time", n.Time, "time")
	case *syntax.CoprocClause:
		c.textAt("CoprocClause.Coproc", n.Coproc, "coproc")
	case *syntax.LetClause:
		c.textAt("LetClause.Let", n.Let, "let")
	case *syntax.TestDecl:
		c.textAt("TestDecl.Position", n.Position, "@test")
	case *syntax.ArrayExpr:
		c.textAt("ArrayExpr.Lparen", n.Lparen, "(")
		c.textAt("ArrayExpr.Rparen", n.Rparen, ")")
	case *syntax.ExtGlob:
		c.textAt("ExtGlob.OpPos", n.OpPos, n.Op.String())
		c.textAt("ExtGlob.End()-1", addCol(n.End(), -1), ")")
	case *syntax.ProcSubst:
		c.textAt("ProcSubst.OpPos", n.OpPos, n.Op.String())
		c.textAt("ProcSubst.Rparen", n.Rparen, ")")
	}
}

// a literal: its value is read from ValuePos to ValueEnd (modulo dropped bytes). The last literal
// of a here-document body may extend over the line of the closing delimiter.
func (c *checker) lit(n *syntax.Lit) {
	if !n.ValuePos.IsValid() || !n.ValueEnd.IsValid() {
		c.failf("invalid_pos", "Lit %q has an invalid position", trunc(n.Value, 12))
		return
	}
	off, end := int(n.ValuePos.Offset()), int(n.ValueEnd.Offset())
	if off > len(c.src) || end > len(c.src) {
		return
	}
	class := ""
	if c.assignLits[n] {
		class = "assign_pos_by_length_arithmetic"
	}
	// Known-finding class "zsh_dollar_prefix_literal": in zsh a "$#", "$+", "$%", "$=", "$~" or "$^" that is not followed
	// by a parameter name becomes the literal "$" spanning both bytes (the prefix byte is lost).
	if c.lang == syntax.LangZsh && n.Value == "$" && end == off+2 && off+1 < len(c.src) &&
		c.src[off] == '$' && strings.IndexByte("#+%=~^", c.src[off+1]) >= 0 {
		class = "zsh_dollar_prefix_literal"
	}
	// Known-finding class "dollar_before_escaped_newline": a '$' followed by backslash-newline becomes the
	// literal "$" and swallows the rest of the word (in "ba$\<nl>4z" the text 4z is lost).
	if n.Value == "$" && off < len(c.src) && c.src[off] == '$' &&
		(strings.HasPrefix(c.src[off+1:], "\\\n") || strings.HasPrefix(c.src[off+1:], "\\\r\n")) {
		class = "dollar_before_escaped_newline"
	}
	if _, ok := c.match(off, n.Value, end); ok {
		return
	}
	e, ok := c.matchAt(off, n.Value)
	if !ok {
		c.failc("text_not_at_position", class, "Lit %q not at offset %d, found %q", trunc(n.Value, 16), off, trunc(c.src[off:], 16))
		return
	}
	if c.hdocLast[n] {
		// some reading of the value ends at e2 <= end with only the delimiter line in between?
		for e2 := off; e2 <= end; e2++ {
			if _, ok := c.match(off, n.Value, e2); ok && !strings.Contains(c.src[e2:end], "\n") {
				return
			}
		}
	}
	c.failc("lit_end_mismatch", class, "Lit %q at %d ends at %d, ValueEnd says %d", trunc(n.Value, 16), off, e, end)
}

var posType = reflect.TypeFor[syntax.Pos]()

// every Pos stored anywhere in the tree
func (c *checker) allPos(v reflect.Value, path string, depth int) {
	if depth > 400 {
		return
	}
	switch v.Kind() {
	case reflect.Interface, reflect.Pointer:
		if !v.IsNil() {
			c.allPos(v.Elem(), path, depth+1)
		}
	case reflect.Struct:
		if v.Type() == posType {
			if p := v.Interface().(syntax.Pos); p.IsValid() {
				c.stored = append(c.stored, p)
			}
			return
		}
		for i := range v.NumField() {
			if v.Type().Field(i).IsExported() {
				c.allPos(v.Field(i), v.Type().Name()+"."+v.Type().Field(i).Name, depth+1)
			}
		}
	case reflect.Slice:
		for i := range v.Len() {
			c.allPos(v.Index(i), path, depth+1)
		}
	}
}

// statement lists anywhere in the tree are in source order
func (c *checker) stmtOrder(v reflect.Value, depth int) {
	if depth > 400 {
		return
	}
	switch v.Kind() {
	case reflect.Interface, reflect.Pointer:
		if !v.IsNil() {
			c.stmtOrder(v.Elem(), depth+1)
		}
	case reflect.Struct:
		if v.Type() == posType {
			return
		}
		for i := range v.NumField() {
			if v.Type().Field(i).IsExported() {
				c.stmtOrder(v.Field(i), depth+1)
			}
		}
	case reflect.Slice:
		if sl, ok := v.Interface().([]*syntax.Stmt); ok {
			for i := 1; i < len(sl); i++ {
				a, b := sl[i-1].Pos(), sl[i].Pos()
				if a.IsValid() && b.IsValid() && !b.After(a) {
					c.failf("statements_out_of_order", "stmt %d at %d, stmt %d at %d", i-1, a.Offset(), i, b.Offset())
				}
			}
		}
		for i := range v.Len() {
			c.stmtOrder(v.Index(i), depth+1)
		}
	}
}

func checkTree(src string, f *syntax.File, lang syntax.LangVariant) *checker {
	c := &checker{src: src, lang: lang, bquote: strings.Contains(src, "`"), tabs: strings.Contains(src, "<<-"),
		hdocLast: map[*syntax.Lit]bool{}, assignLits: map[*syntax.Lit]bool{}}
	c.allPos(reflect.ValueOf(f), "File", 0)
	syntax.Walk(f, func(n syntax.Node) bool {
		if cm, ok := n.(*syntax.Comment); ok && strings.HasSuffix(cm.Text, "\\\n") {
			c.escComEnds = append(c.escComEnds, cm.End())
		}
		return true
	})
	for _, p := range c.stored {
		c.posOK("stored Pos", p)
	}
	c.stmtOrder(reflect.ValueOf(f), 0)
	var stack []syntax.Node
	syntax.Walk(f, func(n syntax.Node) bool {
		if n == nil {
			stack = stack[:len(stack)-1]
			return true
		}
		c.node(n)
		if len(stack) > 0 {
			c.within(stack[len(stack)-1], n)
		}
		stack = append(stack, n)
		return true
	})
	return c
}

// child within parent. Comments are attached to the node that follows or precedes them and
// are by design outside it (Stmt.Comments, File.Last, ...): for a Comment only "inside the file".
func (c *checker) within(parent, child syntax.Node) {
	if _, ok := child.(*syntax.Comment); ok {
		return
	}
	pp, pe := parent.Pos(), parent.End()
	cp, ce := child.Pos(), child.End()
	if pp.IsValid() && cp.IsValid() && pp.After(cp) {
		c.failf("child_starts_before_parent", "%T at %d in %T at %d", child, cp.Offset(), parent, pp.Offset())
	}
	if pe.IsValid() && ce.IsValid() && ce.After(pe) {
		class := ""
		if c.escComment(pe) {
			class = "comment_ending_in_escaped_newline"
		} else if !c.consistent(pe) {
			class = c.arithClass(pe) // the parent's End is itself a mis-computed position
		}
		if f, ok := parent.(*syntax.File); ok && class == "" && len(f.Last) > 0 {
			// Known-finding class "file_end_is_inner_comment": File.End() is the End of the last comment
			// of File.Last even when that comment sits inside the last statement, which goes on after it.
			if lc := f.Last[len(f.Last)-1]; lc.End() == pe && ce.After(lc.Hash) && !cp.After(lc.Hash) {
				class = "file_end_is_inner_comment"
			}
		}
		if class == "" && hdocEnds(child, ce) {
			class = "heredoc_body_after_parent_end"
		}
		c.failc("child_ends_after_parent", class, "%T ends %d in %T ending %d", child, ce.Offset(), parent, pe.Offset())
	}
}

// Known-finding class "heredoc_body_after_parent_end": the child's End is the end of a
// here-document body inside it (bodies come after the rest of the line), and the parent's End
// (BinaryCmd: End of Y; Stmt: last redirect only; CaseItem: its operator; ...) does not cover it.
func hdocEnds(child syntax.Node, end syntax.Pos) bool {
	found := false
	syntax.Walk(child, func(n syntax.Node) bool {
		if r, ok := n.(*syntax.Redirect); ok && r.Hdoc != nil && r.Hdoc.End() == end {
			found = true
		}
		return !found
	})
	return found
}

// ---------------------------------------------------------------- fragment leg (coq/Syntax/PosCheck.v)

// The node fragment of PosCheck.v: File > Stmt(;|&) > CallExpr > Word with one part > Lit | SglQuoted.
type fragRow struct {
	Src     string     `json:"src"`
	Stmts   [][]any    `json:"stmts"`   // per stmt: [pos3, semi3|null, [[kind, p1_3, p2_3, valuehex]...]]
	Derived [][3]int64 `json:"derived"` // Go Pos()/End(): file, then per stmt: stmt, call, each word
	GoOK    bool       `json:"go_ok"`
	Mut     string     `json:"mut,omitempty"`
}

func p3(p syntax.Pos) [3]int64 { return [3]int64{int64(p.Offset()), int64(p.Line()), int64(p.Col())} }

func inFragment(f *syntax.File) bool {
	if len(f.Last) > 0 || len(f.Stmts) == 0 {
		return false
	}
	for _, s := range f.Stmts {
		ce, ok := s.Cmd.(*syntax.CallExpr)
		if !ok || len(s.Comments) > 0 || len(s.Redirs) > 0 || s.Negated || s.Coprocess || s.Disown || len(ce.Assigns) > 0 || len(ce.Args) == 0 {
			return false
		}
		for _, w := range ce.Args {
			if len(w.Parts) != 1 {
				return false
			}
			switch x := w.Parts[0].(type) {
			case *syntax.Lit:
			case *syntax.SglQuoted:
				if x.Dollar {
					return false
				}
			default:
				return false
			}
		}
	}
	return true
}

func fragDump(src string, f *syntax.File, mut string) fragRow {
	row := fragRow{Src: hx.Hex(src), Mut: mut}
	row.Derived = append(row.Derived, p3(f.Pos()), p3(f.End()))
	for _, s := range f.Stmts {
		ce := s.Cmd.(*syntax.CallExpr)
		var semi any
		if s.Semicolon.IsValid() {
			semi = p3(s.Semicolon)
		}
		var parts []any
		row.Derived = append(row.Derived, p3(s.Pos()), p3(s.End()), p3(ce.Pos()), p3(ce.End()))
		for _, w := range ce.Args {
			row.Derived = append(row.Derived, p3(w.Pos()), p3(w.End()))
			switch x := w.Parts[0].(type) {
			case *syntax.Lit:
				parts = append(parts, []any{0, p3(x.ValuePos), p3(x.ValueEnd), hx.Hex(x.Value)})
			case *syntax.SglQuoted:
				parts = append(parts, []any{1, p3(x.Left), p3(x.Right), hx.Hex(x.Value)})
			}
		}
		row.Stmts = append(row.Stmts, []any{p3(s.Position), semi, parts})
	}
	row.GoOK = len(checkTree(src, f, syntax.LangBash).fails) == 0
	return row
}

func genFragSrc(r *rand.Rand) string {
	var sb strings.Builder
	word := func() {
		if r.IntN(3) == 0 {
			sb.WriteByte('\'')
			for i := r.IntN(5); i > 0; i-- {
				sb.WriteString(hx.Pick(r, []string{"x", "y", " ", ";", "&", "\n", "é", "$", "\""}))
			}
			sb.WriteByte('\'')
		} else {
			for i := 1 + r.IntN(4); i > 0; i-- {
				sb.WriteString(hx.Pick(r, []string{"x", "y", "z", "q", "1", "_", "/", ".", "é", "世"}))
			}
		}
	}
	sb.WriteString(hx.Pick(r, []string{"", "", " ", "\n", "\t"}))
	for n := 1 + r.IntN(4); n > 0; n-- {
		for k := 1 + r.IntN(3); k > 0; k-- {
			word()
			if k > 1 {
				sb.WriteString(hx.Pick(r, []string{" ", "  ", "\t"}))
			}
		}
		if n > 1 {
			sb.WriteString(hx.Pick(r, []string{"; ", ";", "\n", " &\n", " & ", "\n\n", " ;\n"}))
		} else {
			sb.WriteString(hx.Pick(r, []string{"", "", ";", " &", "\n"}))
		}
	}
	return sb.String()
}

// perturb one stored position of the tree by one (offset, column, line, or offset and column together)
func perturb(r *rand.Rand, f *syntax.File) string {
	var ptrs []*syntax.Pos
	var names []string
	for si, s := range f.Stmts {
		ptrs = append(ptrs, &s.Position)
		names = append(names, fmt.Sprintf("stmt%d.Position", si))
		if s.Semicolon.IsValid() {
			ptrs = append(ptrs, &s.Semicolon)
			names = append(names, fmt.Sprintf("stmt%d.Semicolon", si))
		}
		for wi, w := range s.Cmd.(*syntax.CallExpr).Args {
			switch x := w.Parts[0].(type) {
			case *syntax.Lit:
				ptrs = append(ptrs, &x.ValuePos, &x.ValueEnd)
				names = append(names, fmt.Sprintf("stmt%d.arg%d.ValuePos", si, wi), fmt.Sprintf("stmt%d.arg%d.ValueEnd", si, wi))
			case *syntax.SglQuoted:
				ptrs = append(ptrs, &x.Left, &x.Right)
				names = append(names, fmt.Sprintf("stmt%d.arg%d.Left", si, wi), fmt.Sprintf("stmt%d.arg%d.Right", si, wi))
			}
		}
	}
	i := r.IntN(len(ptrs))
	p := *ptrs[i]
	o, l, c := int(p.Offset()), int(p.Line()), int(p.Col())
	d := 1
	if r.IntN(2) == 0 {
		d = -1
	}
	kind := r.IntN(4)
	switch kind {
	case 0:
		o += d
	case 1:
		c += d
	case 2:
		l += d
	default:
		o += d
		c += d
	}
	if o < 0 || l < 1 || c < 1 {
		return ""
	}
	*ptrs[i] = syntax.NewPos(uint(o), uint(l), uint(c))
	return fmt.Sprintf("%s kind%d %+d", names[i], kind, d)
}

type searchRow struct {
	In    string    `json:"in"`
	Lang  string    `json:"lang"`
	Fails []failure `json:"fails"`
}

type totals struct{ inputs, trees, nodes, positions, failing int }

func searchOne(t *totals, in string, l syntax.LangVariant) {
	t.inputs++
	var f *syntax.File
	var err error
	if p, msg := hx.Try(func() { f, err = hxreader.ParseWith(strings.NewReader(in), l) }); p {
		hx.Emit(searchRow{In: hx.Hex(in), Lang: l.String(), Fails: []failure{{"parser_panics", msg, ""}}})
		t.failing++
		return
	}
	if err != nil {
		return
	}
	t.trees++
	var c *checker
	if p, msg := hx.Try(func() { c = checkTree(in, f, l) }); p {
		hx.Emit(searchRow{In: hx.Hex(in), Lang: l.String(), Fails: []failure{{"checker_panics", msg, ""}}})
		t.failing++
		return
	}
	t.nodes += c.nnodes
	t.positions += c.npos
	if len(c.fails) > 0 {
		t.failing++
		hx.Emit(searchRow{In: hx.Hex(in), Lang: l.String(), Fails: c.fails})
	}
}

var witnesses = []struct {
	class string
	in    string
	lang  syntax.LangVariant
}{
	{"heredoc_body_after_parent_end", "<<EOF | b\nfoo\nEOF", syntax.LangBash},
	{"heredoc_body_after_parent_end", "foo <<EOF >f\nbar\nEOF", syntax.LangBash},
	{"comment_ending_in_escaped_newline", "#\\\n#", syntax.LangBash},
	{"comment_ending_in_escaped_newline", "foo # b\\\r\nar", syntax.LangMirBSDKorn},
	{"pos_by_column_arithmetic_across_newline", "case $i in\n#foo\ne\\\r\nsac", syntax.LangBash},
	{"pos_by_column_arithmetic_across_newline", "((a[i\n]=4))", syntax.LangZsh},
	{"assign_pos_by_length_arithmetic", "a\x00+=1", syntax.LangBats},
	{"assign_pos_by_length_arithmetic", "c\\\r\n=d", syntax.LangBash},
	{"file_end_is_inner_comment", "[[ a #-ne b && c\n -le d ]]", syntax.LangMirBSDKorn},
	{"zsh_dollar_prefix_literal", "echo $#", syntax.LangZsh},
	{"dollar_before_escaped_newline", "\"ba$\\\n4z\"", syntax.LangBash},
}

func main() {
	o := hx.ParseArgs()
	defer hx.Flush()
	switch o.Mode {
	case "pos":
		r := hx.Rand(o.Seed, 909)
		for i := 0; i < o.N; i++ {
			hx.Emit(posCase(r))
		}
	case "search":
		r := hx.Rand(o.Seed, 99)
		corpus := append(hxreader.Corpus(4000), hxreader.Extra...)
		thorough := o.Tier == "thorough"
		var t totals
		// pinned regression inputs first: every seed and tier
		for _, it := range hxreader.Regress("c09") {
			for _, l := range it.Langs {
				searchOne(&t, it.Src, l)
			}
		}
		for _, in := range corpus {
			for _, l := range hxreader.Langs {
				searchOne(&t, in, l)
			}
		}
		// CRLF and NUL variants of every corpus input
		for _, in := range corpus {
			if strings.Contains(in, "\n") {
				crlf := strings.ReplaceAll(in, "\n", "\r\n")
				for _, l := range hxreader.Langs {
					searchOne(&t, crlf, l)
				}
			}
		}
		var total int
		for _, c := range corpus {
			total += hxreader.MutCount(c)
		}
		want := o.N
		if thorough {
			want = total
		}
		stride := max(total/max(want, 1), 1)
		idx := int(o.Seed % uint64(stride))
		pos := 0
		for _, c := range corpus {
			mc := hxreader.MutCount(c)
			for ; idx < pos+mc; idx += stride {
				m := hxreader.Mutate(c, idx-pos)
				if thorough {
					for _, l := range hxreader.Langs {
						searchOne(&t, m, l)
					}
				} else {
					searchOne(&t, m, hxreader.Langs[(idx/stride)%len(hxreader.Langs)])
				}
			}
			pos += mc
		}
		for i := 0; i < o.N/2; i++ {
			m := hxreader.RandMutate(r, corpus[r.IntN(len(corpus))], corpus)
			searchOne(&t, m, hxreader.Langs[r.IntN(len(hxreader.Langs))])
		}
		hx.Emit(map[string]any{"summary": map[string]int{"inputs": t.inputs, "trees": t.trees, "nodes": t.nodes, "positions": t.positions,
			"failing_inputs": t.failing, "corpus": len(corpus), "mutations_total": total}})
	case "frag":
		r := hx.Rand(o.Seed, 9090)
		emitted := 0
		for tries := 0; emitted < o.N && tries < 20*o.N; tries++ {
			src := genFragSrc(r)
			f, err := hxreader.ParseWith(strings.NewReader(src), syntax.LangBash)
			if err != nil || !inFragment(f) {
				continue
			}
			hx.Emit(fragDump(src, f, ""))
			emitted++
			// and a perturbed copy of the same tree
			f2, _ := hxreader.ParseWith(strings.NewReader(src), syntax.LangBash)
			if m := perturb(r, f2); m != "" {
				var row fragRow
				if p, _ := hx.Try(func() { row = fragDump(src, f2, m) }); !p {
					hx.Emit(row)
					emitted++
				}
			}
		}
	case "witness":
		// the witnesses of the listed known findings, every time: each must still fail in its class
		for _, w := range witnesses {
			var f *syntax.File
			var err error
			f, err = hxreader.ParseWith(strings.NewReader(w.in), w.lang)
			row := map[string]any{"witness": w.class, "in": hx.Hex(w.in), "lang": w.lang.String(), "reproduced": false}
			if err == nil {
				for _, fl := range checkTree(w.in, f, w.lang).fails {
					if fl.Class == w.class {
						row["reproduced"] = true
					}
				}
			}
			hx.Emit(row)
		}
	case "one":
		in := hx.UnHex(o.In)
		var t totals
		for _, l := range hxreader.Langs {
			searchOne(&t, in, l)
		}
	}
}
