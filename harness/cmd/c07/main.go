// c07: "Parsing does not depend on how input bytes arrive".
//
//	trace  - code leg: drives the real Parser.rune/peek/peekTwo/zshNumRange through the
//	         hook syntax.VerifReaderScript under generated read schedules and prints what
//	         each operation left behind (compared with coq/Syntax/Reader.v by checks/c07.py);
//	         also the direct verdict: rune stream under the schedule == rune stream unchunked.
//	search - the property itself on the real syntax.Parser.Parse: tree with all positions (or
//	         the error) under one-byte reads, data+EOF reads, every/sampled split points and
//	         random chunkings with empty reads must equal the result of a single read.
package main

import (
	"fmt"
	"math/rand/v2"
	"strings"

	"mvdan.cc/sh/v3/syntax"
	"verifharness/hx"
	"verifharness/hxreader"
)

var alphabet = []string{
	"a", "b", " ", "\n", "\\", "\\", "\\\n", "\\\r\n", "\r\n", "\r", "\x00", "$", "`", "\"", "<", "-", ">", "1", "23", "<1-2>", "<-",
	"é", "世", "😀", "\xff", "\xc3", "\xe4\xb8", "\xf0\x9f", "\x80", "\xef\xbf\xbd", "\\\\", "\\$", "\\`", "\\\"",
}

func genInput(r *rand.Rand) string {
	n := r.IntN(9)
	if r.IntN(6) == 0 {
		n = 8 + r.IntN(10)
	}
	var sb strings.Builder
	for i := 0; i < n; i++ {
		sb.WriteString(alphabet[r.IntN(len(alphabet))])
	}
	return sb.String()
}

// long inputs put the interesting bytes around the 1024-byte buffer end
func genLong(r *rand.Rand) string {
	var sb strings.Builder
	pre := syntax.VerifBufSize - 8 + r.IntN(12)
	if r.IntN(3) == 0 {
		pre = r.IntN(8)
	}
	sb.WriteString(strings.Repeat("a", pre))
	switch r.IntN(5) {
	case 0:
		sb.WriteString("<" + strings.Repeat("7", syntax.VerifBufSize-6+r.IntN(10)) + "-5>")
	case 1:
		sb.WriteString("<1-" + strings.Repeat("7", syntax.VerifBufSize-8+r.IntN(12)) + ">")
	case 2:
		sb.WriteString("<12-34> \\\r\n é世😀 \\\n")
	case 3:
		sb.WriteString("\\\\\\\\\\$ 😀😀\xf0\x9f")
	default:
		sb.WriteString(genInput(r) + genInput(r))
	}
	sb.WriteString(genInput(r))
	return sb.String()
}

func genScript(r *rand.Rand, in string) string {
	var sb strings.Builder
	dens := r.IntN(4) // 0: runes only
	for i := 0; i < len(in)+3; i++ {
		if dens > 0 && r.IntN(5-dens) == 0 {
			sb.WriteByte("PTZPTZZ"[r.IntN(7)])
			if r.IntN(3) == 0 {
				sb.WriteByte("PTZ"[r.IntN(3)])
			}
		}
		sb.WriteByte('R')
	}
	return sb.String()
}

type traceRow struct {
	In     string    `json:"in"`
	Sched  []int     `json:"sched"`
	Eager  bool      `json:"eager"`
	Obq    int       `json:"obq"`
	Obqd   int       `json:"obqd"`
	Script string    `json:"script"`
	From   int       `json:"from"` // obs holds the rows from this operation on (long inputs)
	Obs    [][]int64 `json:"obs"`
	Panic  string    `json:"panic,omitempty"`
	Fails  []string  `json:"fails,omitempty"`
	Class  string    `json:"class,omitempty"`
}

func b2i(b bool) int64 {
	if b {
		return 1
	}
	return 0
}

func runScript(in string, sched []int, eager bool, obq, obqd int, script string) (rows [][]int64, obs []syntax.VerifReaderObs, pmsg string) {
	p, msg := hx.Try(func() {
		obs = syntax.VerifReaderScript(hxreader.NewSched(in, sched, eager), obq, obqd, []byte(script))
	})
	if p {
		return nil, nil, msg
	}
	for _, o := range obs {
		rows = append(rows, []int64{int64(o.R), int64(o.W), int64(o.B1), int64(o.B2), b2i(o.Z), o.Offs, o.Line, o.Col,
			int64(o.Left), int64(o.Pos.Offset()), int64(o.Pos.Line()), int64(o.Pos.Col()),
			b2i(o.Err), int64(o.EPos.Offset()), int64(o.EPos.Line()), int64(o.EPos.Col())})
	}
	return rows, obs, ""
}

func lineCol(src string, off int) (int64, int64) {
	line, col := int64(1), int64(1)
	for i := 0; i < off && i < len(src); i++ {
		if src[i] == '\n' {
			line++
			col = 1
		} else {
			col++
		}
	}
	return line, col
}

// rune-level observations only (what C07_rune_stream and C09_linecol speak about)
func runeStream(obs []syntax.VerifReaderObs) string {
	var sb strings.Builder
	for _, o := range obs {
		if o.Op != 'R' {
			continue
		}
		if o.Err {
			// after "invalid UTF-8 encoding" the parser stops; the position of the
			// stop (end of the current buffer) is never handed out
			fmt.Fprintf(&sb, "ERR!%d:%d:%d", o.EPos.Offset(), o.EPos.Line(), o.EPos.Col())
			break
		}
		fmt.Fprintf(&sb, "%d/%d@%d:%d:%d ", o.R, o.W, o.Offs, o.Line, o.Col)
		if o.R == 0x110000 {
			break
		}
	}
	return sb.String()
}

func traceCase(in string, sched []int, eager bool, obq, obqd int, script string) traceRow {
	row := traceRow{In: hx.Hex(in), Sched: sched, Eager: eager, Obq: obq, Obqd: obqd, Script: script}
	if row.Sched == nil {
		row.Sched = []int{}
	}
	rows, _, pmsg := runScript(in, sched, eager, obq, obqd, script)
	if pmsg != "" {
		row.Panic = pmsg
		row.Fails = append(row.Fails, "reader_panics")
		return row
	}
	if len(rows) > 300 {
		row.From = len(rows) - 120
		if i := strings.IndexAny(in, "<\\"); i >= 0 && i < row.From {
			row.From = max(0, min(i-2, len(rows)-400))
		}
		rows = rows[row.From:]
	}
	row.Obs = rows
	// direct verdicts
	onlyR := strings.Repeat("R", len(in)+3)
	_, a, p1 := runScript(in, sched, eager, obq, obqd, onlyR)
	_, b, p2 := runScript(in, nil, false, obq, obqd, onlyR)
	if p1 != "" || p2 != "" {
		row.Fails = append(row.Fails, "reader_panics")
	} else if runeStream(a) != runeStream(b) {
		row.Fails = append(row.Fails, "rune_stream_depends_on_schedule")
	}
	sawErr := false
	for _, o := range a {
		if o.Err && !sawErr {
			sawErr = true
			l, c := lineCol(in, int(o.EPos.Offset()))
			if int64(o.EPos.Line()) != l || int64(o.EPos.Col()) != c {
				row.Fails = append(row.Fails, "error_linecol_disagrees_with_offset")
			}
			break // positions after the error are not handed out
		}
		l, c := lineCol(in, int(o.Offs))
		if o.Offs < 0 || o.Offs > int64(len(in)) || o.Line != l || o.Col != c {
			row.Fails = append(row.Fails, "linecol_disagrees_with_offset")
			break
		}
	}
	return row
}

// ---------------------------------------------------------------- search on Parse

type searchFail struct {
	Sched []int  `json:"sched"`
	Eager bool   `json:"eager"`
	Want  string `json:"want"`
	Got   string `json:"got"`
}

type searchRow struct {
	In     string       `json:"in"`
	Lang   string       `json:"lang"`
	Nsched int          `json:"nsched"`
	Err    bool         `json:"err"`
	Fails  []searchFail `json:"fails,omitempty"`
	Clause string       `json:"clause,omitempty"`
	Class  string       `json:"class,omitempty"`
}

func parseDump(in string, l syntax.LangVariant, sched []int, eager bool, whole bool) string {
	var out string
	p, msg := hx.Try(func() {
		if whole {
			out = hxreader.Dump(hxreader.ParseWith(strings.NewReader(in), l))
		} else {
			out = hxreader.Dump(hxreader.ParseWith(hxreader.NewSched(in, sched, eager), l))
		}
	})
	if p {
		return "PANIC " + msg
	}
	return out
}

func trim(s string) string {
	if len(s) > 300 {
		return s[:300] + "..."
	}
	return s
}

// firstDiff returns a window around the first difference
func firstDiff(a, b string) (string, string) {
	i := 0
	for i < len(a) && i < len(b) && a[i] == b[i] {
		i++
	}
	lo := max(i-80, 0)
	return trim(a[lo:]), trim(b[lo:])
}

func searchInput(r *rand.Rand, in string, l syntax.LangVariant, allSplits bool, nrand int) searchRow {
	row := searchRow{In: hx.Hex(in), Lang: l.String()}
	want := parseDump(in, l, nil, false, true)
	row.Err = strings.HasPrefix(want, "ERR")
	try := func(sched []int, eager bool) {
		row.Nsched++
		got := parseDump(in, l, sched, eager, false)
		if got != want && len(row.Fails) < 3 {
			w, g := firstDiff(want, got)
			row.Fails = append(row.Fails, searchFail{Sched: sched, Eager: eager, Want: w, Got: g})
		}
	}
	n := len(in)
	try(hxreader.Ones(n), false)
	try(nil, true)
	try(hxreader.Ones(n), true)
	if allSplits || n <= 24 {
		for k := 1; k < n; k++ {
			try([]int{k}, false)
		}
	} else {
		for i := 0; i < 10; i++ {
			try([]int{1 + r.IntN(n-1)}, r.IntN(4) == 0)
		}
	}
	for i := 0; i < nrand; i++ {
		try(hxreader.RandSched(r, n), r.IntN(3) == 0)
	}
	if len(row.Fails) > 0 {
		row.Clause = "parse_depends_on_read_schedule"
	}
	return row
}

// ---------------------------------------------------------------- read-buffer boundary family

// lookahead-sensitive constructs; each is placed so that every one of its bytes (and the two bytes
// around it) falls on a read-buffer boundary VerifBufSize*k, k = 1, 2
var boundaryConstructs = []struct {
	src  string
	lang syntax.LangVariant
}{
	{"${==x}", syntax.LangZsh}, {"${~~x}", syntax.LangZsh}, {"${^^x}", syntax.LangZsh}, {"${=^~x}", syntax.LangZsh}, {"$==x", syntax.LangZsh},
	{"<1-10>", syntax.LangZsh}, {"<->", syntax.LangZsh}, {"<12-", syntax.LangZsh}, {"$#x $+x", syntax.LangZsh},
	{"\\\r\nb", syntax.LangBash}, {"\\\nb", syntax.LangBash}, {"x\r\ny", syntax.LangBash}, {"\\\\ \\", syntax.LangBash},
	{"$'a\\'b' $\"c\"", syntax.LangBash}, {"$((1+2)) $[3]", syntax.LangBash}, {"$(( (a) ))", syntax.LangBash},
	{"é世😀", syntax.LangBash}, {"😀😀", syntax.LangPOSIX}, {"\xf0\x9f\x98", syntax.LangBash},
	{"`echo \\\\\\\\\\$x \\`y\\``", syntax.LangBash}, {"\"`echo \\\"z\\\"`\"", syntax.LangBash},
	{"${x:-y} ${#x} ${x/a/b}", syntax.LangBash}, {"<(a) >(b) <<<c", syntax.LangBash}, {"a&&b||c|&d;;", syntax.LangBash},
	{"x=(a b) y+=z", syntax.LangMirBSDKorn}, {"@(a|b) !(c)", syntax.LangBash}, {"a\x00b", syntax.LangBash},
}

func searchBoundary(emit func(searchRow)) {
	B := syntax.VerifBufSize
	for _, c := range boundaryConstructs {
		for k := 1; k <= 2; k++ {
			for start := B*k - len(c.src) - 1; start <= B*k+1; start++ {
				// "echo " + padding word + " " + construct + " z": the construct starts at offset start
				pad := start - len("echo ") - 1
				in := "echo " + strings.Repeat("a", pad) + " " + c.src + " z\n"
				row := searchRow{In: hx.Hex(in), Lang: c.lang.String()}
				want := parseDump(in, c.lang, nil, false, true) // whole reads (strings.Reader): 1024-byte chunks
				row.Err = strings.HasPrefix(want, "ERR")
				try := func(sched []int, eager bool) {
					row.Nsched++
					got := parseDump(in, c.lang, sched, eager, false)
					if got != want && len(row.Fails) < 3 {
						w, g := firstDiff(want, got)
						row.Fails = append(row.Fails, searchFail{Sched: sched, Eager: eager, Want: w, Got: g})
					}
				}
				n := len(in)
				halves := make([]int, 0, n/(B/2)+1)
				for left := n; left > 0; left -= B / 2 {
					halves = append(halves, B/2)
				}
				try(hxreader.Ones(n), false)     // one byte at a time
				try(halves, false)               // half-buffer reads
				try(nil, true)                   // whole reads, data+EOF
				try([]int{start + 1}, false)     // a read ending inside the construct
				try([]int{B*k - 1}, false)       // one unread byte left before the boundary
				try([]int{B*k + 1, 0, 1}, false) // boundary crossed by one byte, then an empty read
				if len(row.Fails) > 0 {
					row.Clause = "parse_depends_on_read_schedule"
				}
				emit(row)
			}
		}
	}
}

func main() {
	o := hx.ParseArgs()
	defer hx.Flush()
	switch o.Mode {
	case "trace":
		r := hx.Rand(o.Seed, 7)
		for i := 0; i < o.N; i++ {
			var in string
			long := i%150 == 149
			if long {
				in = genLong(r)
			} else {
				in = genInput(r)
			}
			var sched []int
			switch r.IntN(5) {
			case 0:
				sched = nil
			case 1:
				sched = hxreader.Ones(len(in))
			default:
				sched = hxreader.RandSched(r, len(in))
			}
			obq := []int{0, 0, 0, 1, 1, 2, 3}[r.IntN(7)]
			obqd := 0
			if obq > 0 {
				obqd = r.IntN(obq + 1)
			}
			hx.Emit(traceCase(in, sched, r.IntN(3) == 0, obq, obqd, genScript(r, in)))
		}
	case "witness":
		// the fixed findings' witnesses at the reader level, every time
		for _, w := range []struct {
			in        string
			obq, obqd int
			script    string
		}{
			{"<1-10> x", 0, 0, "RZRRRRRRRRRR"},
			{"==foo}", 0, 0, "TRTRRRRRRR"},
			{"$\\\r\na", 0, 0, "RRRRRR"},
			{"\"foo\\\n  bar\"", 0, 0, "RRRRRRRRRRRRRRR"},
			{"\\", 0, 0, "RRRR"},
			{"a", 0, 0, "RRR"},
			{"é\xff", 0, 0, "RRR"},
			{"\\\\\\\\\\$x", 1, 0, "RRRRRRRRR"},
			{"\\\\\\\\\\\\\\$x", 2, 1, "RRRRRRRRRRR"},
			{"a\r\nb\r\n", 0, 0, "RRRRRR"},
			{"~~x} ^^y}", 0, 0, "TRTRRRRTRTRRRR"},
			{strings.Repeat("a", 1017) + "<1-10> x", 0, 0, strings.Repeat("R", 1018) + "ZRRRRRRRRRR"},
			{strings.Repeat("a", 1021) + "😀é", 0, 0, strings.Repeat("R", 1026)},
		} {
			for si, sc := range [][]int{nil, hxreader.Ones(len(w.in))} {
				for ei, eager := range []bool{false, true} {
					if len(w.in) > 500 && si != ei {
						continue // long witnesses: whole reads, and one-byte reads with data+EOF
					}
					hx.Emit(traceCase(w.in, sc, eager, w.obq, w.obqd, w.script))
				}
			}
		}
	case "search":
		r := hx.Rand(o.Seed, 77)
		corpus := append(hxreader.Corpus(4000), hxreader.Extra...)
		thorough := o.Tier == "thorough"
		ninputs, nsched, nfail := 0, 0, 0
		emit := func(row searchRow) {
			ninputs++
			nsched += row.Nsched
			if len(row.Fails) > 0 {
				nfail++
				hx.Emit(row)
			}
		}
		// pinned regression inputs first: every seed and tier, every split point
		for _, it := range hxreader.Regress("c07") {
			for _, l := range it.Langs {
				emit(searchInput(r, it.Src, l, true, 3))
			}
		}
		// quick: a third of the corpus (rotated by the seed) in all variants, all split points of
		// inputs up to 24 bytes; thorough: everything, every split point of every input
		for ci, in := range corpus {
			if !thorough && uint64(ci)%3 != o.Seed%3 {
				continue
			}
			for _, l := range hxreader.Langs {
				emit(searchInput(r, in, l, thorough, 1))
			}
		}
		// lookahead-sensitive constructs straddling the read-buffer boundary (every tier, every seed)
		searchBoundary(emit)
		// fixed enumeration of mutations; the seed rotates the slice the quick tier visits
		type mut struct{ ci, k int }
		var total int
		for _, c := range corpus {
			total += hxreader.MutCount(c)
		}
		want := o.N
		if thorough {
			want = total
		}
		stride := max(total/max(want, 1), 1)
		idx := int(o.Seed % uint64(stride))
		pos := 0
		for _, c := range corpus {
			mc := hxreader.MutCount(c)
			for ; idx < pos+mc; idx += stride {
				m := hxreader.Mutate(c, idx-pos)
				l := hxreader.Langs[(idx/stride)%len(hxreader.Langs)]
				emit(searchInput(r, m, l, false, 1))
			}
			pos += mc
		}
		// random multi-mutations
		for i := 0; i < o.N/2; i++ {
			m := hxreader.RandMutate(r, corpus[r.IntN(len(corpus))], corpus)
			emit(searchInput(r, m, hxreader.Langs[r.IntN(len(hxreader.Langs))], false, 2))
		}
		hx.Emit(map[string]any{"summary": map[string]int{"inputs": ninputs, "schedules": nsched, "failing_inputs": nfail, "corpus": len(corpus), "mutations_total": total}})
	case "one":
		// replay: c07 one -in <hex> (args: lang)
		in := hx.UnHex(o.In)
		for _, l := range hxreader.Langs {
			hx.Emit(searchInput(hx.Rand(o.Seed, 1), in, l, true, 20))
		}
	}
}
