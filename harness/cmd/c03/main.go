// c03: formatting never changes what a script does.
//
//	search  for generated runnable programs (messy layout) and the safe subset of the
//	        interp_test.go literals: run the original text and the text printed by
//	        syntax.Printer under 8 option sets + Minify, under interp.Runner (worker
//	        subprocesses) and under bash; compare stdout + exit status original-vs-formatted.
//	frag    code leg for coq/Syntax/FormatSem.v: export the core-fragment statements of a
//	        program before printing and after printing + re-parsing, as Coq terms; the check
//	        verifies norm t = norm t' inside the kernel (the hypothesis of C03_norm_preserves_sem).
//	worker  interp worker (see hxbeh).
package main

import (
	"bytes"
	"fmt"
	"os"
	"regexp"
	"strings"

	"mvdan.cc/sh/v3/syntax"
	"verifharness/hx"
	"verifharness/hxbeh"
)

type variant struct {
	Name string
	Opts []syntax.PrinterOption
	Min  bool
}

var variants = []variant{
	{"default", nil, false},
	{"indent2", []syntax.PrinterOption{syntax.Indent(2)}, false},
	{"indent4-binnext", []syntax.PrinterOption{syntax.Indent(4), syntax.BinaryNextLine(true)}, false},
	{"casesindent", []syntax.PrinterOption{syntax.SwitchCaseIndent(true)}, false},
	{"spaceredirs", []syntax.PrinterOption{syntax.SpaceRedirects(true)}, false},
	{"keeppadding", []syntax.PrinterOption{syntax.KeepPadding(true)}, false},
	{"funcnextline", []syntax.PrinterOption{syntax.FunctionNextLine(true), syntax.Indent(3)}, false},
	{"singleline", []syntax.PrinterOption{syntax.SingleLine(true)}, false},
	{"minify", []syntax.PrinterOption{syntax.Minify(true)}, true},
}

func parse(src string, comments bool) (*syntax.File, error) {
	return syntax.NewParser(syntax.Variant(syntax.LangBash), syntax.KeepComments(comments)).Parse(strings.NewReader(src), "")
}

func format(src string, v variant) (string, string) {
	f, err := parse(src, !v.Min)
	if err != nil {
		return "", "parse"
	}
	var buf bytes.Buffer
	var perr error
	if p, msg := hx.Try(func() { perr = syntax.NewPrinter(v.Opts...).Print(&buf, f) }); p {
		return "", "printer-panic:" + msg
	}
	if perr != nil {
		return "", "printer-error:" + perr.Error()
	}
	return buf.String(), ""
}

type caseOut struct {
	Src     string   `json:"src"`
	From    string   `json:"from"`
	Ran     bool     `json:"ran"`
	Skip    string   `json:"skip,omitempty"`
	NVar    int      `json:"nvar"` // distinct formatted texts that differ from the source
	Fails   []string `json:"fails"`
	Class   string   `json:"class"`
	Variant string   `json:"variant,omitempty"`
	Fmt     string   `json:"fmt,omitempty"`
	Detail  string   `json:"detail,omitempty"`
	Feats   []string `json:"feats,omitempty"`
}

// ---------------------------------------------------------------- known-finding classes

// assocIndexRespaced: the program declares an associative array and uses a subscript whose
// printed form differs from its source text (the printer re-spaces it as arithmetic).
func assocIndexRespaced(src string) bool {
	f, err := parse(src, false)
	if err != nil {
		return false
	}
	assoc, hit := false, false
	check := func(x syntax.ArithmExpr) {
		if x == nil {
			return
		}
		if _, isWord := x.(*syntax.Word); isWord {
			return
		}
		var buf bytes.Buffer
		syntax.NewPrinter().Print(&buf, &syntax.ArithmExp{X: x})
		printed := strings.TrimSuffix(strings.TrimPrefix(buf.String(), "$(("), "))")
		st, en := x.Pos().Offset(), x.End().Offset()
		if int(en) <= len(src) && st < en && src[st:en] != printed {
			hit = true
		}
	}
	syntax.Walk(f, func(n syntax.Node) bool {
		switch n := n.(type) {
		case *syntax.DeclClause:
			for _, a := range n.Args {
				if a.Name == nil && a.Value != nil && strings.HasPrefix(a.Value.Lit(), "-") && strings.Contains(a.Value.Lit(), "A") {
					assoc = true
				}
			}
		case *syntax.Assign:
			check(n.Index)
		case *syntax.ParamExp:
			check(n.Index)
		}
		return true
	})
	return assoc && hit
}

var fatalBashError = regexp.MustCompile(`(?s)line \d+: .*(syntax error|division by 0|invalid indirect expansion|bad substitution|unbound variable|exponent less than 0|substring expression < 0|attempted assignment|invalid arithmetic|expression expected|operand expected|value too great|readonly variable|invalid variable name|not a valid identifier|bad array subscript|expression recursion)`)

// errorAbortsLine: bash abandons the rest of the current complete command (input line)
// after a fatal expansion or arithmetic error; the printer changes which commands share a
// line (`;` lists are split, SingleLine joins).  Signature: only bash differs, one output
// is a prefix of the other, the shorter run failed, and its stderr shows such an error.
func errorAbortsLine(orig, fmtd string, ro, rf hxbeh.Result) bool {
	if ro.Note != "" || rf.Note != "" {
		return false
	}
	short, shortText := ro, orig
	long := rf
	if len(rf.Out) < len(ro.Out) || (len(rf.Out) == len(ro.Out) && rf.Status != 0 && ro.Status == 0) {
		short, shortText, long = rf, fmtd, ro
	}
	if !strings.HasPrefix(long.Out, short.Out) || short.Status == 0 {
		return false
	}
	return fatalBashError.MatchString(hxbeh.BashStderr(shortText))
}

// extglobSameLine: SingleLine joins `shopt -s extglob` and a later use of an extended glob
// into one line, which bash parses completely before the option is set.
func extglobSameLine(src, fmtd string, variantName string) bool {
	if variantName != "singleline" || !strings.Contains(src, "extglob") {
		return false
	}
	return strings.Contains(hxbeh.BashStderr(fmtd), "syntax error near unexpected token")
}

// declareFLayout: the interpreter's `declare -f` / `typeset -f` / `type` prints the function
// body with the layout of the source it was parsed from.
func declareFLayout(src string) bool {
	f, err := parse(src, false)
	if err != nil {
		return false
	}
	hit := false
	syntax.Walk(f, func(n syntax.Node) bool {
		switch n := n.(type) {
		case *syntax.DeclClause:
			for _, a := range n.Args {
				if a.Name == nil && a.Value != nil && strings.HasPrefix(a.Value.Lit(), "-") && strings.ContainsAny(a.Value.Lit(), "fp") {
					hit = true
				}
			}
		case *syntax.CallExpr:
			if len(n.Args) > 0 && n.Args[0].Lit() == "type" {
				hit = true
			}
		}
		return true
	})
	return hit
}

// ---------------------------------------------------------------- fragment exporter (FormatSem.v)

func coqStr(s string) string {
	var sb strings.Builder
	sb.WriteByte('[')
	for i := 0; i < len(s); i++ {
		if i > 0 {
			sb.WriteByte(';')
		}
		fmt.Fprintf(&sb, "%d", s[i])
	}
	sb.WriteByte(']')
	return sb.String()
}

func coqBool(b bool) string {
	if b {
		return "true"
	}
	return "false"
}

type exporter struct {
	src string
	ok  bool
}

func (e *exporter) fail() string { e.ok = false; return "" }

func simpleParam(pe *syntax.ParamExp) bool {
	return pe.Param != nil && pe.Flags == nil && !pe.Excl && !pe.Length && !pe.Width && !pe.IsSet && pe.NestedParam == nil &&
		pe.Index == nil && len(pe.Modifiers) == 0 && pe.Slice == nil && pe.Repl == nil && pe.Names == 0 && pe.Exp == nil &&
		pe.Split == syntax.OptUnset && pe.GlobSubst == syntax.OptUnset && pe.RcExpand == syntax.OptUnset &&
		pe.Param.Value != "LINENO"
}

// mergeLits concatenates adjacent literal parts: the parser splits a literal at every line
// continuation (backslash-newline, which it drops), the re-parsed formatted text has one part.
func mergeLits(parts []syntax.WordPart) []syntax.WordPart {
	var out []syntax.WordPart
	for _, p := range parts {
		if l, ok := p.(*syntax.Lit); ok && len(out) > 0 {
			if prev, ok := out[len(out)-1].(*syntax.Lit); ok {
				out[len(out)-1] = &syntax.Lit{ValuePos: prev.ValuePos, ValueEnd: l.ValueEnd, Value: prev.Value + l.Value}
				continue
			}
		}
		out = append(out, p)
	}
	return out
}

func (e *exporter) dq(parts []syntax.WordPart) string {
	return e.dq1(mergeLits(parts))
}

func (e *exporter) dq1(parts []syntax.WordPart) string {
	if len(parts) == 0 {
		return "DNil"
	}
	rest := e.dq1(parts[1:])
	switch p := parts[0].(type) {
	case *syntax.Lit:
		return fmt.Sprintf("(DLit %s %s)", coqStr(p.Value), rest)
	case *syntax.ParamExp:
		if !simpleParam(p) {
			return e.fail()
		}
		return fmt.Sprintf("(DParam %s %s %s)", coqBool(!p.Short), coqStr(p.Param.Value), rest)
	case *syntax.CmdSubst:
		if p.TempFile || p.ReplyVar || len(p.Last) > 0 {
			return e.fail()
		}
		return fmt.Sprintf("(DSub %s %s %s)", coqBool(p.Backquotes), e.stmts(p.Stmts), rest)
	}
	return e.fail()
}

func (e *exporter) word(w *syntax.Word) string {
	return e.parts(mergeLits(w.Parts))
}

func (e *exporter) parts(parts []syntax.WordPart) string {
	if len(parts) == 0 {
		return "WNil"
	}
	rest := e.parts(parts[1:])
	var p string
	switch x := parts[0].(type) {
	case *syntax.Lit:
		p = "(PLit " + coqStr(x.Value) + ")"
	case *syntax.SglQuoted:
		if x.Dollar {
			return e.fail()
		}
		p = "(PSgl " + coqStr(x.Value) + ")"
	case *syntax.DblQuoted:
		if x.Dollar {
			return e.fail()
		}
		p = "(PDbl " + e.dq(x.Parts) + ")"
	case *syntax.ParamExp:
		if !simpleParam(x) {
			return e.fail()
		}
		p = fmt.Sprintf("(PParam %s %s)", coqBool(!x.Short), coqStr(x.Param.Value))
	case *syntax.CmdSubst:
		if x.TempFile || x.ReplyVar || len(x.Last) > 0 {
			return e.fail()
		}
		p = fmt.Sprintf("(PSub %s %s)", coqBool(x.Backquotes), e.stmts(x.Stmts))
	default:
		return e.fail()
	}
	return fmt.Sprintf("(WCons %s %s)", p, rest)
}

// escaped newlines between prev end and this word's start (line continuations)
func (e *exporter) escnl(from, to syntax.Pos) int {
	a, b := int(from.Offset()), int(to.Offset())
	if !from.IsValid() || !to.IsValid() || a > b || b > len(e.src) {
		return 0
	}
	return strings.Count(e.src[a:b], "\\\n")
}

func (e *exporter) words(ws []*syntax.Word, prev syntax.Pos) string {
	if len(ws) == 0 {
		return "WsNil"
	}
	n := e.escnl(prev, ws[0].Pos())
	return fmt.Sprintf("(WsCons %d %s %s)", n, e.word(ws[0]), e.words(ws[1:], ws[0].End()))
}

func redirOpCode(op syntax.RedirOperator) int {
	return int(op) // the token value: the printer must keep the operator, so any injective code does
}

// delimiter text of a here-document and whether any part of it is quoted
func hdocDelim(w *syntax.Word) (string, bool, bool) {
	var sb strings.Builder
	quoted := false
	for _, p := range w.Parts {
		switch p := p.(type) {
		case *syntax.Lit:
			if strings.Contains(p.Value, "\\") {
				quoted = true
			}
			sb.WriteString(strings.ReplaceAll(p.Value, "\\", ""))
		case *syntax.SglQuoted:
			if p.Dollar {
				return "", false, false
			}
			quoted = true
			sb.WriteString(p.Value)
		case *syntax.DblQuoted:
			quoted = true
			for _, q := range p.Parts {
				l, ok := q.(*syntax.Lit)
				if !ok {
					return "", false, false
				}
				sb.WriteString(l.Value)
			}
		default:
			return "", false, false
		}
	}
	return sb.String(), quoted, true
}

func (e *exporter) redirs(rs []*syntax.Redirect) string {
	if len(rs) == 0 {
		return "RNil"
	}
	r := rs[0]
	rest := e.redirs(rs[1:])
	switch r.Op {
	case syntax.Hdoc, syntax.DashHdoc:
		if r.N != nil {
			return e.fail()
		}
		delim, quoted, ok := hdocDelim(r.Word)
		if !ok {
			return e.fail()
		}
		body := "DNil"
		if r.Hdoc != nil {
			body = e.dq1(mergeLits(r.Hdoc.Parts))
		}
		return fmt.Sprintf("(RHdoc %s %s %s %s %s)", coqBool(r.Op == syntax.DashHdoc), coqBool(quoted), coqStr(delim), body, rest)
	}
	fd := "None"
	if r.N != nil {
		fd = "(Some " + coqStr(r.N.Value) + ")"
	}
	return fmt.Sprintf("(RFile %d %s %s %s)", redirOpCode(r.Op), fd, e.word(r.Word), rest)
}

func (e *exporter) assigns(as []*syntax.Assign) string {
	if len(as) == 0 {
		return "ANil"
	}
	a := as[0]
	if a.Naked || a.Index != nil || a.Array != nil || a.Name == nil {
		return e.fail()
	}
	v := "WNil"
	if a.Value != nil {
		v = e.word(a.Value)
	}
	return fmt.Sprintf("(ACons %s %s %s %s)", coqBool(a.Append), coqStr(a.Name.Value), v, e.assigns(as[1:]))
}

func (e *exporter) stmt(st *syntax.Stmt) string {
	if st.Background || st.Coprocess || st.Disown {
		return e.fail()
	}
	c := ""
	if st.Cmd == nil {
		c = "(Simple ANil WsNil)" // a statement made of redirections only
	} else {
		c = e.cmd(st.Cmd)
	}
	if len(st.Redirs) > 0 {
		c = fmt.Sprintf("(Redirected %s %s)", c, e.redirs(st.Redirs))
	}
	if st.Negated {
		return "(Not " + c + ")"
	}
	return c
}

func (e *exporter) citems(items []*syntax.CaseItem) string {
	if len(items) == 0 {
		return "CNil"
	}
	it := items[0]
	if it.Op != syntax.Break || len(it.Patterns) == 0 {
		return e.fail()
	}
	return fmt.Sprintf("(CCons %s %s %s)", e.words(it.Patterns, it.Patterns[0].Pos()), e.stmts(it.Stmts), e.citems(items[1:]))
}

func (e *exporter) cmd(c syntax.Command) string {
	switch c := c.(type) {
	case *syntax.CallExpr:
		ws := "WsNil"
		if len(c.Args) > 0 {
			ws = e.words(c.Args, c.Args[0].Pos())
		}
		return fmt.Sprintf("(Simple %s %s)", e.assigns(c.Assigns), ws)
	case *syntax.BinaryCmd:
		if c.Op != syntax.AndStmt && c.Op != syntax.OrStmt {
			return e.fail()
		}
		return fmt.Sprintf("(AndOr %s %s %s)", coqBool(c.Op == syntax.AndStmt), e.stmt(c.X), e.stmt(c.Y))
	case *syntax.Block:
		return "(Brace " + e.stmts(c.Stmts) + ")"
	case *syntax.Subshell:
		return "(Subshell " + e.stmts(c.Stmts) + ")"
	case *syntax.IfClause:
		els := "SNil"
		if c.Else != nil {
			if len(c.Else.Cond) > 0 {
				// elif: a nested if as the only statement of the else branch
				els = fmt.Sprintf("(SCons 0 None true %s SNil)", e.cmd(c.Else))
			} else {
				els = e.stmts(c.Else.Then)
			}
		}
		return fmt.Sprintf("(If %s %s %s)", e.stmts(c.Cond), e.stmts(c.Then), els)
	case *syntax.WhileClause:
		return fmt.Sprintf("(While %s %s %s)", coqBool(c.Until), e.stmts(c.Cond), e.stmts(c.Do))
	case *syntax.ForClause:
		wi, ok := c.Loop.(*syntax.WordIter)
		if !ok || c.Select || !wi.InPos.IsValid() || wi.Name == nil {
			return e.fail()
		}
		items := "WsNil"
		if len(wi.Items) > 0 {
			items = e.words(wi.Items, wi.Items[0].Pos())
		}
		return fmt.Sprintf("(For %s %s %s)", coqStr(wi.Name.Value), items, e.stmts(c.Do))
	case *syntax.CaseClause:
		return fmt.Sprintf("(Case %s %s)", e.word(c.Word), e.citems(c.Items))
	case *syntax.FuncDecl:
		if c.Name == nil || len(c.Names) > 0 {
			return e.fail()
		}
		return fmt.Sprintf("(FuncDecl %s %s)", coqStr(c.Name.Value), e.stmt(c.Body))
	}
	return e.fail()
}

func (e *exporter) stmts(l []*syntax.Stmt) string {
	if len(l) == 0 {
		return "SNil"
	}
	st := l[0]
	comment := "None"
	for _, c := range st.Comments {
		comment = "(Some " + coqStr(c.Text) + ")"
	}
	semi := st.Semicolon.IsValid()
	return fmt.Sprintf("(SCons %d %s %s %s %s)", st.Pos().Line(), comment, coqBool(semi), e.stmt(st), e.stmts(l[1:]))
}

func exportFile(src string, f *syntax.File) (string, bool) {
	if len(f.Last) > 0 {
		// trailing comments of the file: position information only
	}
	e := &exporter{src: src, ok: true}
	s := e.stmts(f.Stmts)
	return s, e.ok
}

// fragment program generator: only what FormatSem.v models, laid out messily
type fgen struct {
	g *hxbeh.Gen
}

func (f fgen) word(d int) string {
	g := f.g
	r := g.R
	n := 1
	if r.IntN(4) == 0 {
		n = 2
	}
	var sb strings.Builder
	for i := 0; i < n; i++ {
		switch r.IntN(9) {
		case 0, 1:
			sb.WriteString(hx.Pick(r, []string{"foo", "bar", "a", "x1", "-n", "1", `\*`, `a\ b`, `\$x`, "=", "%s"}))
		case 2:
			sb.WriteString("'" + hx.Pick(r, []string{"a b", "$x", `\n`, `"`, "*", "", "#"}) + "'")
		case 3:
			sb.WriteString(`"` + hx.Pick(r, []string{"a b", `\$x`, `\"q\"`, `\\`, "x'y", "#c", "a\\\nb", ""}) + `"`)
		case 4:
			sb.WriteString(hx.Pick(r, []string{"$s", "${s}", "$t", "${u}", "$e"}))
		case 5:
			sb.WriteString(`"` + hx.Pick(r, []string{"$s", "${s}", "pre$s", "${t}post", "$s $t"}) + `"`)
		case 6:
			if d > 0 {
				inner := f.simple(d - 1)
				if r.IntN(2) == 0 && !strings.ContainsAny(inner, "`\\") {
					sb.WriteString("`" + inner + "`")
				} else {
					sb.WriteString("$(" + inner + ")")
				}
			} else {
				sb.WriteString("w")
			}
		case 7:
			if d > 0 {
				inner := f.simple(d - 1)
				if !strings.ContainsAny(inner, "`\\\"") {
					sb.WriteString("\"$(" + inner + ")\"")
				} else {
					sb.WriteString("q")
				}
			} else {
				sb.WriteString("v")
			}
		default:
			sb.WriteString(hx.Pick(r, []string{"hello", "x", "y"}))
		}
	}
	return sb.String()
}

func (f fgen) sp() string {
	switch f.g.R.IntN(8) {
	case 0:
		return "  "
	case 1:
		return " \\\n  "
	case 2:
		return "\t"
	}
	return " "
}

func (f fgen) redir() string {
	r := f.g.R
	sp := ""
	if r.IntN(3) == 0 {
		sp = " "
	}
	return hx.Pick(r, []string{">" + sp + "f1", ">>" + sp + "f2", "<" + sp + "f1", "2>&1", ">&2", "2>" + sp + "f3", ">" + sp + "\"$s\"", "<<<" + sp + f.word(0), ">|" + sp + "f4", "&>" + sp + "f5"})
}

func (f fgen) simple(d int) string {
	r := f.g.R
	n := 1 + r.IntN(3)
	s := ""
	// prefix assignments
	for r.IntN(5) == 0 {
		s += hx.Pick(r, []string{"x=", "y=", "s=", "PATH+=", "t+="}) + hx.Pick(r, []string{"", f.word(d), "1"}) + " "
	}
	if s != "" && r.IntN(3) == 0 {
		return strings.TrimRight(s, " ") // standalone assignment(s)
	}
	if r.IntN(6) == 0 {
		s += f.redir() + " " // a redirection before the command
	}
	s += hx.Pick(r, []string{"echo", "printf '%s\\n'", "true", "false", ":", "echo", "fn1", "fn2", "read"})
	for i := 0; i < n; i++ {
		s += f.sp() + f.word(d)
	}
	for r.IntN(4) == 0 {
		s += " " + f.redir()
	}
	return s
}

func (f fgen) heredoc(indent string) string {
	r := f.g.R
	cmd := hx.Pick(r, []string{"cat", "read -r l", "while read -r l; do echo \"$l\"; done"})
	dash := r.IntN(2) == 0
	delim := hx.Pick(r, []string{"EOF", "E", "'EOF'", "\"EOF\"", "END", "\\EOF"})
	end := strings.Trim(strings.ReplaceAll(delim, "\\", ""), "'\"")
	op := "<<"
	tabs := ""
	if dash {
		op = "<<-"
		tabs = hx.Pick(r, []string{"", "\t", "\t\t", indent})
	}
	if r.IntN(3) == 0 {
		op += " "
	}
	var body strings.Builder
	for i, n := 0, r.IntN(4); i < n; i++ {
		body.WriteString(tabs)
		body.WriteString(hx.Pick(r, []string{"a $s b", "plain", "  spaced\tx", "${t} and `echo q`", "$(echo r) \\$s", "'q' \"r\"", "*", "", "x\\\\y"}))
		body.WriteString("\n")
	}
	tail := ""
	if r.IntN(4) == 0 {
		tail = " " + f.redir()
	}
	return cmd + " " + op + delim + tail + "\n" + body.String() + tabs + end
}

func (f fgen) sep() string {
	switch f.g.R.IntN(6) {
	case 0:
		return "; "
	case 1:
		return "\n\n"
	case 2:
		return " # c" + fmt.Sprint(f.g.R.IntN(9)) + "\n"
	case 3:
		return " ;\n"
	}
	return "\n"
}

// endsHdoc: the text ends with the closing delimiter of a here-document, after which only a
// newline may follow.
func endsHdoc(s string) bool {
	i := strings.LastIndexByte(s, '\n')
	last := strings.TrimLeft(s[i+1:], "\t")
	return i >= 0 && (last == "EOF" || last == "E" || last == "END")
}

func (f fgen) list(d, n int) string {
	s := ""
	for i := 0; i < n; i++ {
		s += f.stmt(d)
		if i < n-1 {
			if endsHdoc(s) {
				s += "\n"
			} else {
				s += f.sep()
			}
		}
	}
	return s
}

// fixHdocEnds puts whatever the generator appended to a here-document's closing line
// (`; fi`, ` # c`, `;;` ...) on the next line.
func fixHdocEnds(src string) string {
	lines := strings.Split(src, "\n")
	for i, l := range lines {
		body := strings.TrimLeft(l, "\t")
		for _, d := range []string{"EOF", "END", "E"} {
			if strings.HasPrefix(body, d) && len(body) > len(d) && strings.ContainsAny(body[len(d):len(d)+1], " ;)#") {
				rest := strings.TrimLeft(body[len(d):], " ")
				if !strings.HasPrefix(rest, ";;") {
					rest = strings.TrimLeft(strings.TrimPrefix(rest, ";"), " ")
				}
				lines[i] = l[:len(l)-len(body)] + d + "\n" + rest
				break
			}
		}
	}
	return strings.Join(lines, "\n")
}

func (f fgen) nlAfter(s string) string {
	if endsHdoc(s) {
		return "\n"
	}
	return f.nl()
}

func (f fgen) nl() string {
	if f.g.R.IntN(2) == 0 {
		return "\n"
	}
	return "; "
}

func (f fgen) stmt(d int) string {
	r := f.g.R
	if d <= 0 {
		return f.simple(1)
	}
	switch r.IntN(16) {
	case 0:
		return "! " + f.simple(d)
	case 1:
		op := hx.Pick(r, []string{"&&", "||"})
		if r.IntN(3) == 0 {
			return f.stmt(d-1) + " " + op + "\n" + f.stmt(d-1)
		}
		return f.simple(d) + " " + op + " " + f.simple(d)
	case 2:
		l := f.list(d-1, 1+r.IntN(2))
		s := "{ " + l + f.nlAfter(l) + "}"
		if r.IntN(3) == 0 {
			s += " " + f.redir()
		}
		return s
	case 3:
		l := f.list(d-1, 1+r.IntN(2))
		s := "(" + l
		if endsHdoc(l) {
			s += "\n"
		}
		s += ")"
		if r.IntN(4) == 0 {
			s += " " + f.redir()
		}
		return s
	case 4:
		s := "if " + f.list(d-1, 1) + f.nl() + "then" + f.sp() + f.list(d-1, 1+r.IntN(2))
		if r.IntN(3) == 0 {
			s += f.nl() + "elif " + f.simple(d-1) + f.nl() + "then " + f.list(d-1, 1)
		}
		if r.IntN(2) == 0 {
			s += f.nl() + "else " + f.list(d-1, 1)
		}
		return s + f.nl() + "fi"
	case 5:
		s := hx.Pick(r, []string{"while", "until"}) + " " + hx.Pick(r, []string{"false", "! true", "[ x ]"}) + f.nl() + "do " + f.list(d-1, 1) + f.nl() + "done"
		if r.IntN(4) == 0 {
			s += " " + f.redir()
		}
		return s
	case 6, 7:
		items := ""
		for i, n := 0, r.IntN(4); i < n; i++ {
			items += " " + f.word(d-1)
		}
		return "for " + hx.Pick(r, []string{"i", "x", "v_1"}) + " in" + items + f.nl() + "do" + f.sp() + f.list(d-1, 1+r.IntN(2)) + f.nl() + "done"
	case 8, 9:
		s := "case " + f.word(d-1) + " in"
		for i, n := 0, r.IntN(4); i < n; i++ {
			pat := hx.Pick(r, []string{"foo", "a|b", "'x y'", "\"$s\"", "hello", "1|2|3", "-n", "x1"})
			if r.IntN(3) == 0 {
				pat = "(" + pat
			}
			body := ""
			if r.IntN(6) > 0 {
				body = " " + f.list(d-1, 1+r.IntN(2))
			}
			s += "\n" + pat + ")" + body + hx.Pick(r, []string{" ;;", "\n;;", ";;"})
		}
		return s + "\nesac"
	case 10:
		name := hx.Pick(r, []string{"fn1", "fn2"})
		body := "{ " + f.list(d-1, 1+r.IntN(2)) + f.nl() + "}"
		if r.IntN(4) == 0 {
			body = "(" + f.list(d-1, 1) + ")"
		}
		switch r.IntN(4) {
		case 0:
			return "function " + name + " " + body
		case 1:
			return "function " + name + "() " + body
		case 2:
			return name + " ( )\n" + body
		}
		return name + "() " + body
	case 11, 12:
		return f.heredoc(strings.Repeat("\t", 1+r.IntN(2)))
	}
	return f.simple(d)
}

func main() {
	if len(os.Args) > 1 && os.Args[1] == "worker" {
		hxbeh.WorkerMain()
		return
	}
	o := hx.ParseArgs()
	defer hx.Flush()
	defer hxbeh.Cleanup()
	switch o.Mode {
	case "search":
		r := hx.Rand(o.Seed, 3)
		var cases []*caseOut
		for _, w := range []string{
			"declare -A x; x[a+b]=v; echo \"${!x[@]}\"\n",                   // KF-C03-1
			"x=0; echo $((1/0 && x++)); echo $x\n",                          // KF-C03-2
			"shopt -s extglob\ncase \"bar\" in !(foo)) echo match;; esac\n", // KF-C03-3
			"f() { echo hello; }; declare -f f\n",                           // KF-C03-4
		} {
			cases = append(cases, &caseOut{Src: w, From: "witness"})
		}
		for _, src := range hxbeh.ReadRegress("c03") {
			cases = append(cases, &caseOut{Src: src, From: "regress"})
		}
		// quick tier: a seed-rotated sixth of the pinned corpus; thorough tier: all of it
		// (every corpus item the quick tier can see has been classified by a thorough run)
		for i, src := range hxbeh.InterpTestPrograms() {
			if o.Tier == "quick" && uint64(i)%6 != o.Seed%6 {
				continue
			}
			cases = append(cases, &caseOut{Src: src, From: "corpus"})
		}
		for i := 0; i < o.N; i++ {
			g := hxbeh.NewGen(r, i%3 == 0, true)
			src := g.Program(2 + r.IntN(4))
			c := &caseOut{Src: src, From: "gen"}
			for k := range g.Feats {
				c.Feats = append(c.Feats, k)
			}
			cases = append(cases, c)
		}
		var toRun []string
		type fv struct {
			name, text string
		}
		plan := map[*caseOut][]fv{}
		for _, c := range cases {
			if strings.HasSuffix(strings.TrimRight(c.Src, "\n"), "\\") {
				c.Skip = "trailing-backslash"
				continue
			}
			f, err := parse(c.Src, true)
			if err != nil {
				c.Skip = "parse"
				continue
			}
			if c.From != "witness" && c.From != "regress" {
				if ok, why := hxbeh.SafeText(c.Src); !ok {
					c.Skip = why
					continue
				}
				if ok, why := hxbeh.SafeProgram(f); !ok {
					c.Skip = why
					continue
				}
			}
			seen := map[string]bool{c.Src: true}
			var vs []fv
			for _, v := range variants {
				text, e := format(c.Src, v)
				if e != "" {
					c.Fails = append(c.Fails, "format_fails")
					c.Variant, c.Detail = v.Name, e
					continue
				}
				if seen[text] {
					continue
				}
				seen[text] = true
				vs = append(vs, fv{v.Name, text})
				toRun = append(toRun, text)
			}
			c.NVar = len(vs)
			if len(vs) > 0 {
				toRun = append(toRun, c.Src)
				plan[c] = vs
			}
		}
		jobs := hxbeh.RunAll(toRun, 8, true, true)
		for _, c := range cases {
			vs, ok := plan[c]
			if ok {
				c.Ran = true
				jo := jobs[c.Src]
				for _, v := range vs {
					jf := jobs[v.text]
					bad := ""
					if jo.Interp != jf.Interp {
						bad = "behaviour_interp"
						c.Detail += fmt.Sprintf(" [%s] interp: %q/%d/%s vs %q/%d/%s", v.name, jo.Interp.Out, jo.Interp.Status, jo.Interp.Note, jf.Interp.Out, jf.Interp.Status, jf.Interp.Note)
					}
					if jo.Bash != jf.Bash {
						if bad == "" {
							bad = "behaviour_bash"
						} else {
							bad = "behaviour_interp_and_bash"
						}
						c.Detail += fmt.Sprintf(" [%s] bash: %q/%d/%s vs %q/%d/%s", v.name, jo.Bash.Out, jo.Bash.Status, jo.Bash.Note, jf.Bash.Out, jf.Bash.Status, jf.Bash.Note)
					}
					if bad != "" {
						dup := false
						for _, x := range c.Fails {
							dup = dup || x == bad
						}
						if !dup {
							c.Fails = append(c.Fails, bad)
						}
						if c.Variant == "" {
							c.Variant, c.Fmt = v.name, v.text
						}
					}
				}
			}
			if len(c.Fails) > 0 && ok {
				// attribute to a known class only if EVERY differing variant falls into it
				jo := jobs[c.Src]
				classes := map[string]bool{}
				for _, v := range vs {
					jf := jobs[v.text]
					if jo.Interp == jf.Interp && jo.Bash == jf.Bash {
						continue
					}
					cl := ""
					switch {
					case jo.Interp != jf.Interp && jo.Bash == jf.Bash && declareFLayout(c.Src):
						cl = "interp_declare_f_prints_source_layout"
					case jo.Interp != jf.Interp:
					case assocIndexRespaced(c.Src):
						cl = "assoc_index_respaced"
					case extglobSameLine(c.Src, v.text, v.name):
						cl = "singleline_extglob_enabled_on_same_line"
					case errorAbortsLine(c.Src, v.text, jo.Bash, jf.Bash):
						cl = "bash_error_aborts_rest_of_line"
					}
					classes[cl] = true
				}
				if len(classes) == 1 {
					for cl := range classes {
						c.Class = cl
					}
				} else if !classes[""] {
					// several listed classes at once: report the first alphabetically
					for _, cl := range []string{"assoc_index_respaced", "bash_error_aborts_rest_of_line", "interp_declare_f_prints_source_layout", "singleline_extglob_enabled_on_same_line"} {
						if classes[cl] {
							c.Class = cl
							break
						}
					}
				}
			}
			if len(c.Detail) > 1500 {
				c.Detail = c.Detail[:1500]
			}
			hx.Emit(c)
		}
	case "frag":
		r := hx.Rand(o.Seed, 33)
		emitted := 0
		for i := 0; emitted < o.N && i < o.N*6; i++ {
			g := fgen{hxbeh.NewGen(r, false, true)}
			src := fixHdocEnds(g.list(2, 1+r.IntN(3)) + "\n")
			f, err := parse(src, true)
			if err != nil {
				continue
			}
			before, ok := exportFile(src, f)
			if !ok {
				continue
			}
			v := variants[i%len(variants)]
			text, e := format(src, v)
			row := map[string]any{"src": src, "variant": v.Name, "b": before}
			if e != "" {
				row["a"], row["err"] = "", e
				hx.Emit(row)
				emitted++
				continue
			}
			f2, err := parse(text, true)
			if err != nil {
				row["a"], row["err"] = "", "reparse: "+err.Error()
				hx.Emit(row)
				emitted++
				continue
			}
			after, ok2 := exportFile(text, f2)
			if !ok2 {
				row["a"], row["err"] = "", "formatted text leaves the fragment"
			} else {
				row["a"] = after
			}
			row["fmt"] = text
			hx.Emit(row)
			emitted++
		}
	case "one":
		b, err := os.ReadFile(o.In)
		if err != nil {
			panic(err)
		}
		src := string(b)
		texts := []string{src}
		for _, v := range variants {
			t, e := format(src, v)
			fmt.Fprintf(os.Stderr, "--- %s %s\n%s", v.Name, e, t)
			if e == "" {
				texts = append(texts, t)
			}
		}
		jobs := hxbeh.RunAll(texts, 4, true, true)
		for _, t := range texts {
			hx.Emit(map[string]any{"text": t, "interp": jobs[t].Interp, "bash": jobs[t].Bash})
		}
	}
}
