// c22: field splitting and quote removal.
//
// A case is (IFS, positional parameters, a word given as a list of parts).
// Per case the harness emits
//   - the word in model form (for the Coq model Expand/Fields.v) and the fields
//     expand.Fields returns for it (code leg),
//   - the output of the same shell text run by an in-process interp.Runner and by
//     real bash (search); "fails" lists the clauses on which Go differs from bash.
//
// Streams: "gen" = random words inside the modelled fragment; "wild" = words with
// forms that are not modelled (command substitution, invalid UTF-8 in values,
// arrays); "pinned" = fixed witnesses incl. the known findings.
package main

import (
	"fmt"
	"math/rand/v2"
	"os"
	"strings"
	"time"
	"unicode/utf8"

	"mvdan.cc/sh/v3/expand"
	"mvdan.cc/sh/v3/syntax"
	"verifharness/hx"
	"verifharness/hxsplit"
)

// ---- model form of a word ------------------------------------------------

type part struct {
	K  string  `json:"k"`            // lit sgl dbl exp at star ulist
	V  []int   `json:"v,omitempty"`  // lit, sgl, exp: the value (code points)
	Vs [][]int `json:"vs,omitempty"` // dbl: values of the inner parts; at/star/ulist: the elements

	Items []ditem `json:"items,omitempty"` // dblmix: inner values and list expansions

	ck    string   // for classification: "split" (unquoted expansion result), "at", "ulist", "" (literal/quoted)
	cs    string   // split: the value
	celem []string // at, ulist: the elements
}

type ditem struct {
	List bool    `json:"list"`
	V    []int   `json:"v"`
	Es   [][]int `json:"es"`
}

type kase struct {
	ID        int      `json:"id"`
	Stream    string   `json:"stream"`
	IFSSet    bool     `json:"ifs_set"`
	IFS       []int    `json:"ifs"`
	IFSHex    string   `json:"ifs_hex"`
	Params    []string `json:"params_hex"`
	Vars      []string `json:"vars_hex"`
	Src       string   `json:"src"`      // the word as shell source
	Script    string   `json:"script"`   // the whole case as shell source
	Modelled  bool     `json:"modelled"` // parts are inside the Coq model's fragment
	Parts     []part   `json:"parts"`
	Fields    any      `json:"fields"` // [][]int from expand.Fields, or "P"/"E:.."
	FieldsS   string   `json:"fields_s"`
	Interp    string   `json:"interp"`
	Bash      string   `json:"bash"`
	Fails     []string `json:"fails"`
	Class     string   `json:"class"`
	Seq       int      `json:"seq"`        // seq stream: number of the sequence this step belongs to (else -1)
	SeqPos    int      `json:"seq_pos"`    // its position in the sequence
	SeqScript string   `json:"seq_script"` // the whole sequence as one script (one Runner, one expand.Config)
	NoOracle  string   `json:"no_oracle"`  // why bash is not consulted for this case ("" = it is)

	ifs    string
	params []string
	vars   []string

	scriptOnly bool   // a whole pinned script: interp vs bash only
	pinClass   string // its known-finding class, if it is the witness of one
}

const prelude = `p() { printf '%s' "$#"; printf '<%s>' "$@"; }`

// ---- generator -------------------------------------------------------------

var ifsChoices = []string{" \t\n", " ", "\n", "\t ", ":", ": ", " :", ":,", ", :", "é", "é ", "x", ":é\t", "€", "€: ", "ab", "-", " -\n", "/", "aé€ ", "1", "0 ", "-2"}

func genIFS(r *rand.Rand) (set bool, ifs string) {
	switch r.IntN(12) {
	case 0:
		return false, " \t\n"
	case 1:
		return true, ""
	case 2, 3:
		return true, " \t\n"
	default:
		return true, hx.Pick(r, ifsChoices)
	}
}

var plain = []string{"a", "b", "c", "x", "1", "é", "€", ":", ",", " ", "\t", "\n", "-", "/", "."}

// a value: IFS characters at the start, middle and end with high probability
func genValue(r *rand.Rand, ifs string) string {
	n := r.IntN(7)
	if r.IntN(8) == 0 {
		n = 0
	}
	ifsr := []rune(ifs)
	var sb strings.Builder
	for i := 0; i < n; i++ {
		if len(ifsr) > 0 && r.IntN(5) < 2 {
			sb.WriteRune(ifsr[r.IntN(len(ifsr))])
		} else {
			sb.WriteString(hx.Pick(r, plain))
		}
	}
	return sb.String()
}

// characters that may appear unquoted and unescaped in a literal
var litChars = []string{"a", "b", "c", "x", "1", "é", "€", ":", ",", "-", "/", ".", "_", "+", "%"}

func isModelledIFS(ifs string) bool {
	return utf8.ValidString(ifs) && !strings.ContainsRune(ifs, utf8.RuneError)
}

type gen struct {
	r    *rand.Rand
	k    *kase
	wild bool
}

func (g *gen) newVar(val string) string {
	g.k.vars = append(g.k.vars, val)
	return fmt.Sprintf("v%d", len(g.k.vars)-1)
}

func (g *gen) lit() (string, part) {
	r := g.r
	n := 1 + r.IntN(3)
	var src, val strings.Builder
	for i := 0; i < n; i++ {
		switch r.IntN(8) {
		case 0: // an escaped character: stays literal, never splits
			c := hx.Pick(r, []string{" ", "\t", ":", "a", "\\", "\"", "'", "$", "é"})
			src.WriteString("\\" + c)
			val.WriteString(c)
		default:
			c := hx.Pick(r, litChars)
			src.WriteString(c)
			val.WriteString(c)
		}
	}
	return src.String(), part{K: "lit", V: hxsplit.Runes(val.String())}
}

func (g *gen) sgl() (string, part) {
	v := genValue(g.r, g.k.ifs)
	v = strings.ReplaceAll(v, "'", "")
	return "'" + v + "'", part{K: "sgl", V: hxsplit.Runes(v)}
}

func (g *gen) dbl() (string, part) {
	r := g.r
	n := r.IntN(3)
	if r.IntN(4) == 0 {
		n = 0
	}
	var src strings.Builder
	p := part{K: "dbl", Vs: [][]int{}}
	src.WriteString("\"")
	lastLit := false
	for i := 0; i < n; i++ {
		if r.IntN(2) == 0 && !lastLit {
			v := genValue(r, g.k.ifs)
			if v == "" {
				v = "q"
			}
			src.WriteString(v)
			p.Vs = append(p.Vs, hxsplit.Runes(v))
			lastLit = true
		} else {
			v := genValue(r, g.k.ifs)
			name := g.newVar(v)
			src.WriteString("${" + name + "}")
			p.Vs = append(p.Vs, hxsplit.Runes(v))
			lastLit = false
		}
	}
	src.WriteString("\"")
	return src.String(), p
}

// "..." holding "$@" / "${@}" / "$*" next to other pieces
func (g *gen) dblmix() (string, part) {
	r := g.r
	n := 1 + r.IntN(3)
	var src strings.Builder
	p := part{K: "dblmix", Items: []ditem{}}
	src.WriteString("\"")
	lastLit := false
	hasList := false
	for i := 0; i < n; i++ {
		c := r.IntN(5)
		switch {
		case c < 2 || (i == n-1 && !hasList):
			src.WriteString(hx.Pick(r, []string{"$@", "${@}"}))
			p.Items = append(p.Items, ditem{List: true, Es: hxsplit.RunesList(g.k.params)})
			hasList, lastLit = true, false
		case c == 2 && !lastLit:
			v := genValue(r, g.k.ifs)
			if v == "" {
				v = "q"
			}
			src.WriteString(v)
			p.Items = append(p.Items, ditem{V: hxsplit.Runes(v)})
			lastLit = true
		case c == 3:
			src.WriteString("$*")
			if len(g.k.params) == 0 { // an empty string
				p.Items = append(p.Items, ditem{V: []int{}})
			} else { // a list of one element, the joined parameters
				p.Items = append(p.Items, ditem{List: true, Es: [][]int{hxsplit.Runes(joinFirst(g.k.ifs, g.k.params))}})
			}
			lastLit = false
		default:
			v := genValue(r, g.k.ifs)
			if r.IntN(2) == 0 {
				v = ""
			}
			name := g.newVar(v)
			src.WriteString("${" + name + "}")
			p.Items = append(p.Items, ditem{V: hxsplit.Runes(v)})
			lastLit = false
		}
	}
	src.WriteString("\"")
	// for classification: a quoted string that vanishes contributes nothing, like "$@" without parameters
	emptyList, allEmpty := false, true
	for _, it := range p.Items {
		if it.List && len(it.Es) == 0 {
			emptyList = true
		} else if it.List || len(it.V) > 0 {
			allEmpty = false
		}
	}
	if emptyList && allEmpty {
		p.ck = "at"
	}
	return src.String(), p
}

func joinFirst(ifs string, l []string) string {
	sep := ""
	if ifs != "" {
		sep = string([]rune(ifs)[0])
	}
	return strings.Join(l, sep)
}

func (g *gen) exp() (string, part) {
	v := genValue(g.r, g.k.ifs)
	name := g.newVar(v)
	return "${" + name + "}", part{K: "exp", V: hxsplit.Runes(v), ck: "split", cs: v}
}

func (g *gen) word() {
	r := g.r
	k := g.k
	n := 1 + r.IntN(4)
	var src strings.Builder
	prev := ""
	for i := 0; i < n; i++ {
		var s string
		var p part
		c := r.IntN(20)
		switch {
		case c < 3 && prev != "lit":
			s, p = g.lit()
		case c < 5:
			s, p = g.sgl()
		case c < 7:
			s, p = g.dbl()
		case c < 8:
			s, p = g.dblmix()
		case c < 14:
			s, p = g.exp()
		case c < 15: // arithmetic expansion: split like any unquoted expansion
			n := r.IntN(3000)
			if r.IntN(3) == 0 {
				n = r.IntN(30)
			}
			if r.IntN(4) == 0 {
				v := fmt.Sprintf("-%d", n+1)
				s, p = fmt.Sprintf("$((0-%d))", n+1), part{K: "exp", V: hxsplit.Runes(v), ck: "split", cs: v}
			} else {
				v := fmt.Sprintf("%d", n)
				s, p = fmt.Sprintf("$((%d))", n), part{K: "exp", V: hxsplit.Runes(v), ck: "split", cs: v}
			}
		case c < 16:
			s, p = hx.Pick(r, []string{`"$@"`, `"${@}"`}), part{K: "at", Vs: hxsplit.RunesList(k.params), ck: "at", celem: k.params}
		case c < 17:
			s, p = hx.Pick(r, []string{`"$*"`, `"${*}"`}), part{K: "star", Vs: hxsplit.RunesList(k.params)}
		case c < 19:
			s, p = hx.Pick(r, []string{`$@`, `$*`, `${@}`, `${*}`}), part{K: "ulist", Vs: hxsplit.RunesList(k.params), ck: "ulist", celem: k.params}
		default:
			if !g.wild {
				s, p = g.exp()
				break
			}
			k.Modelled = false
			switch r.IntN(4) {
			case 0: // command substitution (trailing newlines dropped)
				v := genValue(r, k.ifs)
				name := g.newVar(v)
				s, p = `$(printf '%s' "$`+name+`")`, part{K: "cmdsubst", ck: "split", cs: strings.TrimRight(v, "\n")}
			case 1:
				v := genValue(r, k.ifs)
				name := g.newVar(v)
				s, p = "`printf '%s' \"$"+name+"\"`", part{K: "cmdsubst", ck: "split", cs: strings.TrimRight(v, "\n")}
			case 2: // invalid UTF-8 in a value
				v := genValue(r, k.ifs) + hx.Pick(r, []string{"\xff", "\xc3", "\xe2\x82", "\x80"}) + genValue(r, k.ifs)
				name := g.newVar(v)
				s, p = "$"+name, part{K: "bytes", ck: "split", cs: v}
			default: // arrays
				s = hx.Pick(r, []string{`"${arr[@]}"`, `"${arr[*]}"`, `${arr[@]}`, `${arr[*]}`})
				p = part{K: "array", celem: k.params}
				switch {
				case !strings.HasPrefix(s, `"`):
					p.ck = "ulist"
				case strings.Contains(s, "@"):
					p.ck = "at"
				}
			}
		}
		if p.K == "lit" && i == 0 && strings.HasPrefix(s, "~") {
			s = "a" + s
		}
		src.WriteString(s)
		k.Parts = append(k.Parts, p)
		prev = p.K
	}
	k.Src = src.String()
}

// a sequence step: IFS changes between the steps of one shell / one expand.Config:
// custom value, then unset / empty / another value, then anything
func genSeqIFS(r *rand.Rand, pos int) (bool, string) {
	switch pos {
	case 0:
		return true, hx.Pick(r, []string{":", ",", ": ", "x", "-", ":,", "é", "1", "/"})
	case 1:
		switch r.IntN(4) {
		case 0, 1:
			return false, " \t\n"
		case 2:
			return true, ""
		default:
			return true, hx.Pick(r, []string{",", " ", "b", ";", " \t\n"})
		}
	default:
		return genIFS(r)
	}
}

func genCase(r *rand.Rand, id int, wild bool) *kase {
	return genCaseIFS(r, id, wild, -1)
}

func genCaseIFS(r *rand.Rand, id int, wild bool, seqPos int) *kase {
	k := &kase{ID: id, Stream: "gen", Modelled: true, Seq: -1}
	if wild {
		k.Stream = "wild"
	}
	if seqPos >= 0 {
		k.Stream = "seq"
		k.IFSSet, k.ifs = genSeqIFS(r, seqPos)
	} else {
		k.IFSSet, k.ifs = genIFS(r)
	}
	if wild && r.IntN(6) == 0 { // IFS with invalid UTF-8 or U+FFFD: outside the model
		k.IFSSet, k.ifs = true, hx.Pick(r, []string{"\xff", ":\xc3", "�", " \xe2\x82"})
		k.Modelled = false
	}
	np := r.IntN(4)
	for i := 0; i < np; i++ {
		k.params = append(k.params, genValue(r, k.ifs))
	}
	g := &gen{r: r, k: k, wild: wild}
	g.word()
	return k
}

// ---- running a case ----------------------------------------------------------

func (k *kase) finishScript() {
	if k.scriptOnly {
		k.Fails = []string{}
		k.Params, k.Vars, k.IFS = []string{}, []string{}, []int{}
		return
	}
	var sb strings.Builder
	if k.IFSSet {
		sb.WriteString("IFS=" + hxsplit.Ansi(k.ifs) + "; ")
	} else {
		sb.WriteString("unset IFS; ")
	}
	for i, v := range k.vars {
		fmt.Fprintf(&sb, "v%d=%s; ", i, hxsplit.Ansi(v))
	}
	sb.WriteString("set --")
	for _, p := range k.params {
		sb.WriteString(" " + hxsplit.Ansi(p))
	}
	sb.WriteString("; arr=(\"$@\"); ")
	sb.WriteString("p " + k.Src)
	k.Script = sb.String()
	k.IFS = hxsplit.Runes(k.ifs)
	k.IFSHex = hx.Hex(k.ifs)
	k.Params = hx.HexList(k.params)
	k.Vars = hx.HexList(k.vars)
	if k.Fails == nil {
		k.Fails = []string{}
	}
	if !isModelledIFS(k.ifs) {
		k.Modelled = false
	}
	for _, s := range append(append([]string{}, k.vars...), k.params...) {
		if !utf8.ValidString(s) {
			k.Modelled = false
		}
	}
}

type mapEnv map[string]expand.Variable

func (m mapEnv) Get(name string) expand.Variable { return m[name] }
func (m mapEnv) Each(f func(string, expand.Variable) bool) {
	for n, v := range m {
		if !f(n, v) {
			return
		}
	}
}

func encFields(n int, fields []string) string {
	var sb strings.Builder
	fmt.Fprintf(&sb, "%d", n)
	if n == 0 {
		sb.WriteString("<>") // printf '<%s>' without arguments
	}
	for _, f := range fields {
		sb.WriteString("<" + f + ">")
	}
	return sb.String()
}

func (k *kase) runExpand(shared *expand.Config) {
	env := mapEnv{}
	if k.IFSSet {
		env["IFS"] = expand.Variable{Set: true, Kind: expand.String, Str: k.ifs}
	}
	for i, v := range k.vars {
		env[fmt.Sprintf("v%d", i)] = expand.Variable{Set: true, Kind: expand.String, Str: v}
	}
	plist := append([]string{}, k.params...)
	env["@"] = expand.Variable{Set: true, Kind: expand.Indexed, List: plist}
	env["*"] = expand.Variable{Set: true, Kind: expand.Indexed, List: plist}
	env["arr"] = expand.Variable{Set: true, Kind: expand.Indexed, List: plist}
	f, err := syntax.NewParser().Parse(strings.NewReader("p "+k.Src), "")
	if err != nil {
		k.Fields, k.FieldsS = "E:parse:"+err.Error(), "E:parse"
		return
	}
	call, ok := f.Stmts[0].Cmd.(*syntax.CallExpr)
	if !ok || len(f.Stmts) != 1 || len(call.Args) != 2 {
		k.Fields, k.FieldsS = "E:shape", "E:shape"
		return
	}
	cfg := shared // a sequence reuses one Config with a changing environment, like the interpreter does
	if cfg == nil {
		cfg = &expand.Config{}
	}
	cfg.Env = env
	var fields []string
	var ferr error
	if p, msg := hx.Try(func() { fields, ferr = expand.Fields(cfg, call.Args[1]) }); p {
		k.Fields, k.FieldsS = "P", "PANIC:"+msg
		return
	}
	if ferr != nil {
		k.Fields, k.FieldsS = "E:"+ferr.Error(), "E:"+ferr.Error()
		return
	}
	k.FieldsS = encFields(len(fields), fields)
	if k.Modelled {
		k.Fields = hxsplit.RunesList(fields)
	} else {
		k.Fields = nil
	}
}

// bashUnreliable: configurations on which bash 5.2 itself misbehaves (it handles
// multi-byte IFS characters bytewise in places), so that it is no oracle:
//   - IFS holds a multi-byte character and IFS whitespace (after whitespace bash
//     skips one byte of the multi-byte delimiter and sees an extra empty field),
//   - a multi-byte IFS character occurs in quoted or literal text (bash splits it),
//   - invalid UTF-8 or U+FFFD in IFS.
func (k *kase) bashUnreliable() string {
	if !isModelledIFS(k.ifs) {
		return "invalid_utf8_ifs"
	}
	multi := ""
	for _, r := range k.ifs {
		if r >= 0x80 {
			multi += string(r)
		}
	}
	if multi == "" {
		return ""
	}
	if strings.ContainsAny(k.ifs, " \t\n") {
		return "multibyte_ifs_with_whitespace"
	}
	if k.Stream != "gen" {
		return "multibyte_ifs_unmodelled_word"
	}
	has := func(v []int) bool {
		for _, c := range v {
			if c >= 0x80 && strings.ContainsRune(multi, rune(c)) {
				return true
			}
		}
		return false
	}
	for _, p := range k.Parts {
		switch p.K {
		case "lit", "sgl":
			if has(p.V) {
				return "multibyte_ifs_in_quoted_text"
			}
		case "dblmix":
			for _, it := range p.Items {
				if has(it.V) {
					return "multibyte_ifs_in_quoted_text"
				}
				for _, v := range it.Es {
					if has(v) {
						return "multibyte_ifs_in_quoted_text"
					}
				}
			}
			if strings.Contains(k.Src, "$*") && []rune(k.ifs)[0] >= 0x80 {
				return "multibyte_ifs_in_quoted_text"
			}
		case "dbl", "at", "star":
			if p.K == "star" && len(p.Vs) > 1 && []rune(k.ifs)[0] >= 0x80 {
				return "multibyte_ifs_in_quoted_text" // "$*" joins with it
			}
			for _, v := range p.Vs {
				if has(v) {
					return "multibyte_ifs_in_quoted_text"
				}
			}
		}
	}
	return ""
}

// leadingWsThenNonWs: the word's expansion begins (before any literal or quoted
// text) with IFS whitespace followed by a non-whitespace IFS character, all coming
// from unquoted expansions.
func (k *kase) leadingWsThenNonWs() bool {
	isWs := func(c rune) bool {
		return (c == ' ' || c == '\t' || c == '\n') && strings.ContainsRune(k.ifs, c)
	}
	sawWs := false
	// returns 0 = continue, 1 = yes, 2 = no
	feed := func(v string) int {
		for _, c := range v {
			switch {
			case isWs(c):
				sawWs = true
			case c != utf8.RuneError && strings.ContainsRune(k.ifs, c):
				if sawWs {
					return 1
				}
				return 2
			default:
				return 2
			}
		}
		return 0
	}
	for _, p := range k.Parts {
		switch p.ck {
		case "split":
			if r := feed(p.cs); r != 0 {
				return r == 1
			}
		case "at":
			if len(p.celem) > 0 {
				return false
			}
		case "ulist":
			if k.ifs == "" {
				for _, v := range p.celem {
					if len(v) > 0 {
						return false
					}
				}
				continue
			}
			sep := string([]rune(k.ifs)[0])
			for i, v := range p.celem {
				if i > 0 {
					if r := feed(sep); r != 0 {
						return r == 1
					}
				}
				if r := feed(v); r != 0 {
					return r == 1
				}
			}
		default:
			return false
		}
	}
	return false
}

func (k *kase) hasListParam() bool {
	for _, at := range []string{"$@", "$*", "${@}", "${*}", "${arr[@]}", "${arr[*]}"} {
		if strings.Contains(k.Src, at) {
			return true
		}
	}
	return false
}

// oneMoreLeadingEmpty: got is want with one more empty field in front
func oneMoreLeadingEmpty(got, want string) bool {
	var ng, nw int
	var bg, bw string
	if _, err := fmt.Sscanf(got, "%d", &ng); err != nil {
		return false
	}
	if _, err := fmt.Sscanf(want, "%d", &nw); err != nil {
		return false
	}
	bg = got[strings.IndexByte(got, '<'):]
	bw = want[strings.IndexByte(want, '<'):]
	if nw == 0 {
		bw = ""
	}
	return ng == nw+1 && bg == "<>"+bw
}

// class of a failing case: narrow predicates on the input (and the failure
// signature) naming the mechanism
func (k *kase) classify() string {
	if c := classifySrc(k.Src); c != "" {
		return c
	}
	// bash splits a word that mentions $@ or $* without first skipping leading IFS
	// whitespace, so that " -x" with IFS=" -" loses its leading empty field there
	// (dash and POSIX, like the Go code, give the empty field)
	if k.Stream == "pinned" {
		if k.hasListParam() && k.ifs == " -" && oneMoreLeadingEmpty(k.Interp, k.Bash) {
			return "list_param_leading_ifs_whitespace_then_nonwhitespace"
		}
		return ""
	}
	if k.hasListParam() && k.leadingWsThenNonWs() && oneMoreLeadingEmpty(k.Interp, k.Bash) {
		return "list_param_leading_ifs_whitespace_then_nonwhitespace"
	}
	return ""
}

func classifySrc(src string) string {
	return ""
}

var pinned = []struct {
	ifsSet bool
	ifs    string
	params []string
	vars   []string
	src    string
}{
	{true, ":", nil, []string{"a::b:"}, "$v0"},
	{true, ":", nil, []string{":a"}, "$v0"},
	{true, ":", nil, []string{"::"}, "$v0"},
	{true, ":", nil, []string{":"}, "pre$v0$v0"},
	{true, ":", nil, []string{":"}, "$v0\"post\""},
	{true, ":", nil, []string{"a:"}, "$v0\"\""},
	{true, " \t\n", nil, []string{" a"}, "\"\"$v0"},
	{true, " \t\n", nil, []string{"a ", " b"}, "$v0\"\"$v1"},
	{true, " :", nil, []string{"a :: b"}, "$v0"},
	{true, " :", nil, []string{"a: :b"}, "$v0"},
	{true, " :", nil, []string{" :a"}, "$v0"},
	{true, " :", nil, []string{"a ", ":b"}, "$v0\"$@\"$v1"},
	// one delimiter straddling two adjacent unquoted expansions / list elements
	{true, " :", nil, []string{"a ", ":b"}, "$v0$v1"},
	{true, " :", nil, []string{"a  ", " : b"}, "$v0$v1"},
	{true, " :", nil, []string{"a ", ":b"}, "$v0$(printf '%s' \"$v1\")"},
	{true, " :", []string{"a ", ":b", " :c"}, nil, "$*"},
	{true, ": ", []string{"a ", ":b"}, nil, "${arr[@]}"},
	// empty IFS: empty elements of an unquoted list vanish, elements are not split
	{true, "", []string{"x", "", "z"}, nil, "$*"},
	{true, "", []string{"x", "", "", "y z"}, nil, "a$@"},
	{true, "", []string{"", "x", ""}, nil, "${arr[*]}"},
	{true, ":", []string{"a", "", "b"}, nil, "$@"},
	{true, ":", []string{"a", "", "b"}, nil, "$*"},
	{true, ": ", []string{"a", "", "b"}, nil, "$@"},
	{true, " :", []string{"a", "", "b"}, nil, "$@"},
	{true, ":", []string{"a:", "b"}, nil, "$@"},
	{true, "", []string{"a b", "", "c"}, nil, "$@"},
	{true, "", []string{"a b", "", "c"}, nil, "$*"},
	{true, "", []string{"a b", "", "c"}, nil, "\"$*\""},
	{true, "é:", []string{"1", "2"}, nil, "\"$*\""},
	{false, "", []string{"1", "2"}, nil, "\"$*\""},
	{true, "éx", nil, []string{"aébxéc"}, "$v0"},
	{true, ":", nil, []string{"a:b"}, "a:b$v0\"$v0\"'a:b'"},
	{true, ":", nil, []string{"a::b"}, "$(printf '%s' \"$v0\")"},
	{true, "1", nil, nil, "$((212))"},
	{true, "1", nil, nil, "x$((11))y\"$((212))\""},
	{true, "-", nil, nil, "$((0-5))"},
	{true, " \t\n", []string{"", ""}, nil, "a\"$@\"b"},
	{true, " \t\n", nil, nil, "\"$@\""},
	{true, " \t\n", nil, nil, "\"$@\"\"\""},
	// known finding: bash drops the leading empty field of " -x" in a word that mentions $@ or $*
	{true, " -", []string{"  -11"}, nil, "$@"},
	{true, " -", nil, []string{"  -11"}, "\"$@\"$v0"},
	// fixed (ac9f79b): "$@" next to other parts inside double quotes
	{true, " \t\n", nil, []string{""}, "\"$v0$@\""},
	{true, " \t\n", []string{"1", "2"}, nil, "x\"$@$@\"y"},
	{true, " \t\n", nil, nil, "\"$*$@\""},
	{true, " \t\n", nil, nil, "\"$*\""},
	{true, " \t\n", []string{""}, nil, "\"$*${u[@]}\""},
	{true, " \t\n", []string{"1", "2"}, nil, "\"a$@b\""},
	{true, " \t\n", []string{"1", "2"}, nil, "\"a${arr[@]}\""},
}

// whole scripts (interp vs bash): witnesses that need more than one word
var pinnedScripts = []struct{ script, class string }{
	// known finding: in assignment values and ${u:-word} words (expand.Literal / wordField with quoteNone)
	// the backslashes of unquoted literals are kept
	{`a=b\*c; p "$a"`, "literal_context_keeps_unquoted_backslash"},
	{`a=b\ c\"d; p "$a"`, "literal_context_keeps_unquoted_backslash"},
	{`unset u; p ${u:-a\*b}`, "literal_context_keeps_unquoted_backslash"},
	// the same contexts without backslashes agree with bash
	{`a=b*c' 'd"e  f"; p "$a"`, ""},
	{`unset u; IFS=:; p ${u:-a:b} "${u:-a:b}"`, ""},
	{`IFS=1; p $((212)) x$((11))y "$((212))"`, ""},
	{`read -a a <<< ""; p "${a[@]}"`, ""},
	// an empty brace alternative is no word at all (syntax fix 8ee2f44; an empty literal would be an empty field)
	{`x=' b'; p {,a} {,a}$x x{,a} {a,}{,b} ""{,a} {,}`, ""},
	{`IFS=:; set -- 1 2; a="x:y z"; p $a "$*"; IFS=' '; p $a "$*"; unset IFS; p $a "$*"; IFS=; p $a "$*" $*`, ""},
	// one shell, IFS changing between expansions
	{`IFS=:; a="x:y z"; p $a; unset IFS; p $a; IFS=; p $a; set -- 1 2; IFS=,; p "$*"; unset IFS; p "$*"`, ""},
}

func main() {
	o := hx.ParseArgs()
	defer hx.Flush()
	dir, err := os.MkdirTemp("", "c22h")
	if err != nil {
		panic(err)
	}
	defer os.RemoveAll(dir)
	var cases []*kase
	switch o.Mode {
	case "gen":
		r := hx.Rand(o.Seed, 22)
		for i := 0; i < o.N; i++ {
			cases = append(cases, genCase(r, i, false))
		}
	case "wild":
		r := hx.Rand(o.Seed, 2201)
		for i := 0; i < o.N; i++ {
			cases = append(cases, genCase(r, i, true))
		}
	case "seq":
		r := hx.Rand(o.Seed, 2202)
		for i := 0; i < o.N; i++ {
			n := 2 + r.IntN(2)
			for j := 0; j < n; j++ {
				k := genCaseIFS(r, len(cases), false, j)
				k.Seq, k.SeqPos = i, j
				cases = append(cases, k)
			}
		}
	case "pinned":
		for i, p := range pinned {
			k := &kase{ID: i, Stream: "pinned", Seq: -1, IFSSet: p.ifsSet, ifs: p.ifs, params: p.params, vars: p.vars, Src: p.src}
			if !p.ifsSet {
				k.ifs = " \t\n"
			}
			cases = append(cases, k)
		}
		for _, ps := range pinnedScripts {
			k := &kase{ID: len(cases), Stream: "pinned", Seq: -1, Script: "unset IFS u a x; set --; " + ps.script, Src: "(script)", scriptOnly: true, pinClass: ps.class}
			cases = append(cases, k)
		}
	default:
		panic("unknown mode")
	}
	// units: single cases, or the steps of one sequence (run by one bash, one Runner, one expand.Config)
	var units [][]*kase
	for _, k := range cases {
		k.finishScript()
		if k.Seq >= 0 && len(units) > 0 && units[len(units)-1][0].Seq == k.Seq {
			units[len(units)-1] = append(units[len(units)-1], k)
		} else {
			units = append(units, []*kase{k})
		}
	}
	bodies := make([]string, len(units))
	for i, u := range units {
		var parts []string
		for _, k := range u {
			parts = append(parts, k.Script)
		}
		bodies[i] = strings.Join(parts, "; printf '|'; ")
		if len(u) > 1 {
			for _, k := range u {
				k.SeqScript = bodies[i]
			}
		}
	}
	bash := hxsplit.Bash(dir, prelude, bodies)
	split := func(out string, n int) []string {
		l := strings.Split(out, "|")
		if len(l) != n {
			l = make([]string, n)
			for i := range l {
				l[i] = "UNSPLITTABLE:" + out
			}
		}
		return l
	}
	interpOut := map[*kase]string{}
	sharedCfg := map[*kase]*expand.Config{}
	bashCase := make([]string, len(cases))
	ci := 0
	for i, u := range units {
		bs := split(bash[i], len(u))
		var is []string
		var cfg *expand.Config
		if len(u) > 1 {
			is = split(hxsplit.RunInterp(dir, prelude+"\n"+bodies[i], 5*time.Second), len(u))
			cfg = &expand.Config{}
		}
		for j, k := range u {
			bashCase[ci] = bs[j]
			if is != nil {
				interpOut[k] = is[j]
			}
			sharedCfg[k] = cfg
			ci++
		}
	}
	for i, k := range cases {
		k.Bash = bashCase[i]
		if k.scriptOnly {
			k.Interp = hxsplit.RunInterp(dir, prelude+"\n"+k.Script, 5*time.Second)
			if k.Interp != k.Bash {
				k.Fails = append(k.Fails, "interp_fields_differ_from_bash")
				k.Class = k.pinClass
			}
			hx.Emit(k)
			continue
		}
		k.runExpand(sharedCfg[k])
		if out, ok := interpOut[k]; ok {
			k.Interp = out
		} else {
			k.Interp = hxsplit.RunInterp(dir, prelude+"\n"+k.Script, 5*time.Second)
		}
		k.NoOracle = k.bashUnreliable()
		cmdsubst := strings.Contains(k.Src, "$(") || strings.Contains(k.Src, "`")
		if k.NoOracle == "" {
			if k.Interp != k.Bash {
				k.Fails = append(k.Fails, "interp_fields_differ_from_bash")
			}
			if k.FieldsS != k.Bash && !cmdsubst {
				k.Fails = append(k.Fails, "expand_fields_differ_from_bash")
			}
		} else if k.Interp != k.FieldsS && !cmdsubst {
			k.Fails = append(k.Fails, "interp_and_expand_fields_differ")
		}
		if strings.HasPrefix(k.Interp, "PANIC") || k.Interp == "HANG" || k.Fields == "P" {
			k.Fails = append(k.Fails, "field_splitting_panics_or_hangs")
		}
		if len(k.Fails) > 0 {
			k.Class = k.classify()
		}
		hx.Emit(k)
	}
}
