// c13: syntax.Quote observations and the direct round-trip search.
//
// Modes:
//
//	table                         dump unicode.IsPrint as ranges over 0..0x10FFFF (for the Coq model's is_print)
//	gen -seed N -n N -tier T      cases: exhaustive short strings + N random biased strings; per string one JSON
//	                              line with Go's Quote result for the five variants (code leg) and the verdicts
//	                              of the search: parse shape + expand.Literal (all variants), printf in real
//	                              bash (LangBash) and dash (LangPOSIX), `type -t` keyword oracle (bash)
//	unq -seed N -n N              arbitrary quoted texts: what syntax.Parser+expand.Literal (five variants), bash and dash
//	                              make of them (tie of the model's unquote to the code and the shells)
//	one -in FILE                  same for the hex strings listed in FILE (one per line): witnesses / replay
package main

import (
	"bufio"
	"bytes"
	"context"
	"errors"
	"fmt"
	"math/rand/v2"
	"os"
	"os/exec"
	"path/filepath"
	"strconv"
	"strings"
	"time"
	"unicode"
	"unicode/utf8"

	"mvdan.cc/sh/v3/expand"
	"mvdan.cc/sh/v3/syntax"
	"verifharness/hx"
)

var langs = []syntax.LangVariant{syntax.LangBash, syntax.LangPOSIX, syntax.LangMirBSDKorn, syntax.LangBats, syntax.LangZsh}
var langNames = []string{"bash", "posix", "mksh", "bats", "zsh"}

type obs struct {
	S     string   `json:"s"`     // hex
	Q     []string `json:"q"`     // per variant: "Q:<hex>" | "E:<code>:<offs>" | "P" (panic)
	Fails []string `json:"fails"` // "<clause>@<variant>"
	Class string   `json:"class"`
	NT    bool     `json:"nt"` // non-trivial: some variant had to quote or refuse
}

func errCode(err error) string {
	var qe *syntax.QuoteError
	if !errors.As(err, &qe) {
		return "E:0:0"
	}
	code := 0
	switch qe.Message {
	case "shell strings cannot contain null bytes":
		code = 1
	case "POSIX shell lacks escape sequences":
		code = 2
	case "rune out of range":
		code = 3
	case "mksh cannot escape codepoints above 16 bits":
		code = 4
	}
	return fmt.Sprintf("E:%d:%d", code, qe.ByteOffset)
}

// specFails: the property's "fails only when" clause, computed directly (not via the model).
// invalid UTF-8 = a byte that does not start a valid encoding (DecodeRune gives RuneError with size 1).
func specFails(s string, li int) bool {
	if strings.IndexByte(s, 0) >= 0 {
		return true
	}
	for rem := s; len(rem) > 0; {
		r, size := utf8.DecodeRuneInString(rem)
		invalid := r == utf8.RuneError && size == 1
		if li == 1 && (invalid || !unicode.IsPrint(r)) {
			return true
		}
		if li == 2 && !invalid && !unicode.IsPrint(r) && r > 0xFFFD {
			return true
		}
		rem = rem[size:]
	}
	return false
}

func inertWord(w *syntax.Word) bool {
	if w == nil || len(w.Parts) == 0 {
		return false
	}
	for _, p := range w.Parts {
		switch p := p.(type) {
		case *syntax.Lit, *syntax.SglQuoted:
		case *syntax.DblQuoted:
			if p.Dollar {
				return false
			}
			for _, pp := range p.Parts {
				if _, ok := pp.(*syntax.Lit); !ok {
					return false
				}
			}
		default:
			return false
		}
	}
	return true
}

// parseCheck: `: <q>` must be one call with exactly two words, the second inert and expanding to s;
// Parser.Words on q alone must yield exactly one word.
func parseCheck(s, q string, li int) (fails []string) {
	lang := langs[li]
	var f *syntax.File
	var err error
	if p, msg := hx.Try(func() {
		f, err = syntax.NewParser(syntax.Variant(lang)).Parse(strings.NewReader(": "+q+"\n"), "")
	}); p {
		return []string{"parse_panics:" + msg}
	}
	if err != nil {
		return []string{"parse_error"}
	}
	if len(f.Stmts) != 1 {
		return []string{"parse_not_one_stmt"}
	}
	st := f.Stmts[0]
	ce, ok := st.Cmd.(*syntax.CallExpr)
	if !ok || len(ce.Assigns) != 0 || len(st.Redirs) != 0 || st.Negated || st.Background || st.Coprocess || len(st.Comments) != 0 {
		return []string{"parse_not_plain_call"}
	}
	if len(ce.Args) != 2 {
		return []string{"parse_not_one_word"}
	}
	w := ce.Args[1]
	if !inertWord(w) {
		return []string{"parse_word_not_literal_or_quoted"}
	}
	var lit string
	if p, msg := hx.Try(func() { lit, err = expand.Literal(nil, w) }); p {
		return []string{"expand_panics:" + msg}
	}
	if err != nil {
		fails = append(fails, "expand_error")
	} else if lit != s {
		fails = append(fails, "expand_literal_differs")
	}
	var flds []string
	if p, _ := hx.Try(func() { flds, err = expand.Fields(nil, w) }); p || err != nil || len(flds) != 1 || flds[0] != s {
		fails = append(fails, "expand_fields_differs")
	}
	n := 0
	var werr error
	if p, _ := hx.Try(func() {
		werr = syntax.NewParser(syntax.Variant(lang)).Words(strings.NewReader(q), func(w *syntax.Word) bool { n++; return true })
	}); p || werr != nil || n != 1 {
		fails = append(fails, "words_not_exactly_one")
	}
	return fails
}

type shellCase struct {
	idx    int    // index into the observation list
	li     int    // variant index
	line   string // script line
	expect string // expected chunk
	clause string
	neg    bool // the chunk must DIFFER from expect
}

// runShell runs the cases in as few shell processes as possible; returns the indices (into cs) that disagree.
func runShell(shell string, args []string, cs []shellCase, dir string) (bad []int, detail map[int]string, broken string) {
	detail = map[int]string{}
	start := 0
	for rounds := 0; start < len(cs); rounds++ {
		if rounds > 300 {
			return bad, detail, "too many shell restarts"
		}
		var sb bytes.Buffer
		for _, c := range cs[start:] {
			sb.WriteString(c.line)
			sb.WriteString("\nprintf '\\0'\n")
		}
		script := filepath.Join(dir, "script.sh")
		if err := os.WriteFile(script, sb.Bytes(), 0o600); err != nil {
			return bad, detail, err.Error()
		}
		ctx, cancel := context.WithTimeout(context.Background(), 120*time.Second)
		cmd := exec.CommandContext(ctx, shell, append(append([]string{}, args...), script)...)
		cmd.Env = []string{"LC_ALL=C.UTF-8", "PATH=/nonexistent-c13"}
		cmd.Dir = dir
		cmd.Stdin = nil
		out, _ := cmd.Output() // exit status is irrelevant; the output is compared
		cancel()
		chunks := bytes.Split(out, []byte("\x00\x00"))
		// the last element is what follows the final separator ("" on a clean run)
		n := len(cs) - start
		firstBad := -1
		for i := 0; i < n; i++ {
			if i >= len(chunks)-1 || (string(chunks[i]) == cs[start+i].expect) == cs[start+i].neg {
				firstBad = i
				if i < len(chunks) {
					detail[start+i] = hx.Hex(string(chunks[i]))
				} else {
					detail[start+i] = "no-output"
				}
				break
			}
		}
		if firstBad < 0 {
			break
		}
		bad = append(bad, start+firstBad)
		start += firstBad + 1
	}
	return bad, detail, ""
}

var metaTokens = []string{";", "\"", "'", "(", ")", "$", "|", "&", ">", "<", "`", " ", "\t", "\r", "\n", "\\", "#", "{", "}",
	"~", "*", "?", "[", "]", "=", "!", "%", "^", "+", "-", ",", ".", "/", ":", "@", "$(", "${", "$'", "\\'", "''", "\"\"", "\\\\", "\\n", "\\x41"}
var keywordTokens = []string{"!", "[[", "]]", "case", "coproc", "do", "done", "else", "esac", "fi", "for", "function", "if", "in",
	"select", "then", "time", "until", "while", "{", "}", "declare", "let", "export", "local", "test", "[", "@test", "always", "repeat", "foreach", "end"}
var multiTokens = []string{"é", "€", "😀", "\ufffd", "\u00ad", "\ufffe", "\uffff", "\u0080", "\u009f", "\u2028", "\U0010ffff", "\ue000",
	"\U00010000", "\u07ff", "\u0800", "\ud7ff", "ÿ", "\u00a0", "\u200b", "\U00086199", "\U000e0001"}
var invalidTokens = []string{"\xff", "\xc3", "\xe2\x82", "\xed\xa0\x80", "\xc0\x80", "\xf4\x90\x80\x80", "\x80", "\xbf", "\xf0\x9f\x98",
	"\xc1\xbf", "\xe0\x9f\xbf", "\xf5", "\xfe", "\xef\xbf", "\xf0\x8f\xbf\xbf"}
var ctrlTokens = []string{"\a", "\b", "\f", "\v", "\x1b", "\x01", "\x7f", "\x1c", "\n", "\t", "\r"}
var hexTokens = []string{"a", "f", "A", "F", "0", "9", "g", "G", "x", "u", "U", "aa", "1b"}
var plainTokens = []string{"a", "foo", "B", "z9", "_", "-x", "a.b", "/usr", "x:y", "a,b", "%s", "+1"}

// critical alphabet: every string of length <= 3 over it is in every run (all strategy interactions:
// quote characters, the four characters escaped inside "..", a hex digit after \xHH, multi-byte, invalid byte)
var critical = []string{"'", "\"", "\\", "`", "$", "a", "f", "\x1b", "\n", "é", "\xff", " ", "\u0080"}

func criticalStrings() []string {
	var out []string
	for _, a := range critical {
		out = append(out, a)
		for _, b := range critical {
			out = append(out, a+b)
			for _, c := range critical {
				out = append(out, a+b+c)
			}
		}
	}
	return out
}

// profile generators: strings that land in one given strategy
func genProfile(r *rand.Rand, prof int) string {
	var sb strings.Builder
	n := 2 + r.IntN(7)
	switch prof {
	case 0: // ".." strategy: a single quote, no non-printables, many characters that need a backslash
		pos := r.IntN(n)
		for i := 0; i < n; i++ {
			if i == pos {
				sb.WriteString("'")
			}
			sb.WriteString(hx.Pick(r, []string{"\"", "\\", "`", "$", "$(", "${", "a", "b", " ", "é", "€", "😀", "'", "!", "*", "\\n", "x"}))
		}
	case 1: // $'..' strategy: some non-printable, then hex digits / quotes / backslashes / runes of every width
		pos := r.IntN(n)
		for i := 0; i < n; i++ {
			if i == pos {
				sb.WriteString(hx.Pick(r, append(append([]string{}, ctrlTokens...), invalidTokens...)))
			}
			sb.WriteString(hx.Pick(r, []string{"a", "f", "0", "9", "A", "g", "'", "\\", "\"", "$", "`", "é", "\u0080", "\u00ad", "\ufffd", "\ufffe",
				"\U00010000", "\U000e0001", "\U0010ffff", "😀", "\xff", "\xc3", "\x01", "\x7f", "\n", " ", "x41", "u0041"}))
		}
	default: // '..' strategy / unquoted: printable, no single quote
		for i := 0; i < n; i++ {
			sb.WriteString(hx.Pick(r, append(append([]string{"a", "b", "é", "€", "\ufffd", "😀"}, metaTokens[:36]...), keywordTokens...)))
		}
		return strings.ReplaceAll(sb.String(), "'", "")
	}
	return sb.String()
}

func genString(r *rand.Rand) string {
	if p := r.IntN(8); p < 3 {
		return genProfile(r, p)
	}
	var sb strings.Builder
	n := 1 + r.IntN(6)
	if r.IntN(10) == 0 {
		n = 7 + r.IntN(10)
	}
	// a whole keyword sometimes
	if r.IntN(12) == 0 {
		return hx.Pick(r, keywordTokens)
	}
	for i := 0; i < n; i++ {
		switch r.IntN(16) {
		case 0, 1, 2:
			sb.WriteString(hx.Pick(r, metaTokens))
		case 3:
			sb.WriteString(hx.Pick(r, keywordTokens))
		case 4, 5:
			sb.WriteString(hx.Pick(r, multiTokens))
		case 6, 7:
			sb.WriteString(hx.Pick(r, invalidTokens))
		case 8, 9:
			sb.WriteString(hx.Pick(r, ctrlTokens))
		case 10, 11:
			sb.WriteString(hx.Pick(r, hexTokens))
		case 12:
			sb.WriteByte(byte(1 + r.IntN(255)))
		case 13:
			// a random valid rune
			var rr rune
			for {
				rr = rune(r.IntN(0x110000))
				if rr < 0xD800 || rr > 0xDFFF {
					break
				}
			}
			sb.WriteRune(rr)
		case 14:
			if r.IntN(6) == 0 {
				sb.WriteByte(0)
			} else {
				sb.WriteString("'")
			}
		default:
			sb.WriteString(hx.Pick(r, plainTokens))
		}
	}
	return sb.String()
}

func observeAll(strs []string) {
	dir, err := os.MkdirTemp("", "c13-*")
	if err != nil {
		panic(err)
	}
	defer os.RemoveAll(dir)
	os.Chmod(dir, 0o700)

	all := make([]obs, len(strs))
	var bashCases, dashCases []shellCase
	for i, s := range strs {
		o := obs{S: hx.Hex(s), Q: make([]string, len(langs))}
		hasNul := strings.IndexByte(s, 0) >= 0
		for li, lang := range langs {
			var q string
			var err error
			if p, _ := hx.Try(func() { q, err = syntax.Quote(s, lang) }); p {
				o.Q[li] = "P"
				o.Fails = append(o.Fails, "quote_panics@"+langNames[li])
				continue
			}
			if err != nil {
				o.Q[li] = errCode(err)
				o.NT = true
				if q != "" {
					o.Fails = append(o.Fails, "error_with_nonempty_result@"+langNames[li])
				}
				if !specFails(s, li) {
					o.Fails = append(o.Fails, "fails_on_representable_string@"+langNames[li])
					if li == 1 && strings.Contains(s, "\ufffd") && !specFails(strings.ReplaceAll(s, "\ufffd", "x"), li) {
						o.Class = "posix_valid_ufffd_refused"
					}
				}
				continue
			}
			o.Q[li] = "Q:" + hx.Hex(q)
			if q != s {
				o.NT = true
			}
			if specFails(s, li) {
				o.Fails = append(o.Fails, "succeeds_on_unrepresentable_string@"+langNames[li])
			}
			if hasNul {
				continue
			}
			pf := parseCheck(s, q, li)
			for _, f := range pf {
				o.Fails = append(o.Fails, f+"@"+langNames[li])
			}
			// only words the Go parser sees as one inert word go to a real shell (safety: nothing
			// else can run a command there), and only for the two variants with a shell here
			shapeOK := true
			for _, f := range pf {
				if strings.HasPrefix(f, "parse_") {
					shapeOK = false
				}
			}
			if !shapeOK {
				continue
			}
			switch li {
			case 0:
				bashCases = append(bashCases, shellCase{i, li, "printf '[%s]\\0' " + q, "[" + s + "]", "bash_printf_differs", false})
				if q == s {
					// unquoted result: bash itself must not consider it a reserved word
					bashCases = append(bashCases, shellCase{i, li, "type -t " + q + "; printf '\\0'", "keyword\n", "bash_says_unquoted_result_is_keyword", true})
				}
			case 1:
				dashCases = append(dashCases, shellCase{i, li, "printf '[%s]\\0' " + q, "[" + s + "]", "dash_printf_differs", false})
			}
		}
		all[i] = o
	}
	bad, det, broken := runShell("/usr/bin/bash", []string{"--norc", "--noprofile"}, bashCases, dir)
	for _, b := range bad {
		c := bashCases[b]
		all[c.idx].Fails = append(all[c.idx].Fails, c.clause+"@bash:"+det[b])
	}
	bad2, det2, broken2 := runShell("/usr/bin/dash", nil, dashCases, dir)
	for _, b := range bad2 {
		c := dashCases[b]
		all[c.idx].Fails = append(all[c.idx].Fails, c.clause+"@posix:"+det2[b])
	}
	for _, o := range all {
		hx.Emit(o)
	}
	hx.Emit(map[string]any{"summary": map[string]any{"strings": len(strs), "bash_cases": len(bashCases), "dash_cases": len(dashCases),
		"shell_broken": broken + broken2}})
}

// ---- unquote leg: arbitrary quoted texts, what the Go parser+expander and the real shells make of them

var unqParts = []string{"a", "b", "f", "0", "1", "7", "9", "x", "u", "U", "e", "E", "n", "t", "c", "?", "\\", "\\", "'", "\"", "$", "`",
	" ", "\n", "é", "\xff", "\xc3", "!", "-", "}", "]", "%", "^", "+", ",", ".", "/", ":", "@", "#", "~", "=", "{", "*", "\\x", "\\u", "\\U", "\\0",
	"\\x4", "\\x41", "\\u00e9", "\\U0001f600", "\\101", "\\777", "\\'", "\\\"", "\\$", "\\`", "\\\\", "\\\n", "$'", "''", "'$'"}

func genQuoted(r *rand.Rand) string {
	if r.IntN(3) == 0 {
		// a Quote output, possibly mutated
		s := genString(r)
		q, err := syntax.Quote(strings.ReplaceAll(s, "\x00", ""), langs[r.IntN(len(langs))])
		if err == nil {
			b := []byte(q)
			for k := r.IntN(3); k > 0 && len(b) > 0; k-- {
				i := r.IntN(len(b))
				switch r.IntN(3) {
				case 0:
					b = append(b[:i], b[i+1:]...)
				case 1:
					b = append(b[:i], append([]byte(hx.Pick(r, unqParts)), b[i:]...)...)
				default:
					p := hx.Pick(r, unqParts)
					b[i] = p[0]
				}
			}
			return string(b)
		}
	}
	var sb strings.Builder
	for n := 1 + r.IntN(3); n > 0; n-- {
		body := func() {
			for m := r.IntN(6); m > 0; m-- {
				sb.WriteString(hx.Pick(r, unqParts))
			}
		}
		switch r.IntN(5) {
		case 0:
			for m := 1 + r.IntN(3); m > 0; m-- {
				sb.WriteString(hx.Pick(r, []string{"a", "b", "0", "é", "!", "-", "}", "]", "%", "^", "+", ",", ".", "/", ":", "@", "\xff", "x"}))
			}
		case 1:
			sb.WriteString("'")
			body()
			sb.WriteString("'")
		case 2:
			sb.WriteString("\"")
			body()
			sb.WriteString("\"")
		default:
			sb.WriteString("$'")
			body()
			sb.WriteString("'")
		}
	}
	return strings.ReplaceAll(sb.String(), "\x00", "")
}

type uobs struct {
	Q    string   `json:"uq"`   // hex of the quoted text
	G    []string `json:"g"`    // per variant: "W:<hex>" (one inert word, expand.Literal) | "N"
	Bash string   `json:"bash"` // "W:<hex>" | "?" (not run / no clean output)
	Dash string   `json:"dash"`
}

func goWord(q string, li int) string {
	if strings.HasSuffix(q, "\\") {
		return "N" // would continue onto the next script line
	}
	var f *syntax.File
	var err error
	if p, _ := hx.Try(func() {
		f, err = syntax.NewParser(syntax.Variant(langs[li])).Parse(strings.NewReader(": "+q+"\n"), "")
	}); p || err != nil || len(f.Stmts) != 1 {
		return "N"
	}
	st := f.Stmts[0]
	ce, ok := st.Cmd.(*syntax.CallExpr)
	if !ok || len(ce.Assigns) != 0 || len(st.Redirs) != 0 || st.Negated || st.Background || st.Coprocess || len(st.Comments) != 0 ||
		len(f.Last) != 0 || len(ce.Args) != 2 || !inertWord(ce.Args[1]) {
		return "N"
	}
	var lit string
	if p, _ := hx.Try(func() { lit, err = expand.Literal(nil, ce.Args[1]) }); p || err != nil {
		return "N"
	}
	return "W:" + hx.Hex(lit)
}

// shellWords runs `printf '[%s]\0' <q>` for every q (batches; a batch with unexpected framing is re-run line by line).
func shellWords(shell string, args []string, qs []string, dir string) []string {
	res := make([]string, len(qs))
	run := func(lines []string) [][]byte {
		var sb bytes.Buffer
		for _, q := range lines {
			sb.WriteString("printf '[%s]\\0' " + q + "\nprintf '\\0'\n")
		}
		script := filepath.Join(dir, "u.sh")
		os.WriteFile(script, sb.Bytes(), 0o600)
		ctx, cancel := context.WithTimeout(context.Background(), 60*time.Second)
		defer cancel()
		cmd := exec.CommandContext(ctx, shell, append(append([]string{}, args...), script)...)
		cmd.Env = []string{"LC_ALL=C.UTF-8", "PATH=/nonexistent-c13"}
		cmd.Dir = dir
		out, _ := cmd.Output()
		ch := bytes.Split(out, []byte("\x00\x00"))
		return ch[:len(ch)-1]
	}
	one := func(ch []byte) string {
		if len(ch) >= 2 && ch[0] == '[' && ch[len(ch)-1] == ']' && !bytes.Contains(ch, []byte{0}) {
			return "W:" + hx.Hex(string(ch[1:len(ch)-1]))
		}
		return "?"
	}
	for start := 0; start < len(qs); start += 200 {
		end := min(start+200, len(qs))
		ch := run(qs[start:end])
		if len(ch) == end-start {
			for i := range ch {
				res[start+i] = one(ch[i])
			}
			continue
		}
		for i := start; i < end; i++ {
			c1 := run(qs[i : i+1])
			if len(c1) == 1 {
				res[i] = one(c1[0])
			} else {
				res[i] = "?"
			}
		}
	}
	return res
}

func unqAll(qs []string) {
	dir, err := os.MkdirTemp("", "c13u-*")
	if err != nil {
		panic(err)
	}
	defer os.RemoveAll(dir)
	all := make([]uobs, len(qs))
	var bq, dq []string
	var bi, di []int
	for i, q := range qs {
		o := uobs{Q: hx.Hex(q), G: make([]string, len(langs)), Bash: "?", Dash: "?"}
		for li := range langs {
			o.G[li] = goWord(q, li)
			if !utf8.ValidString(q) || syntax.IsKeyword(q) {
				// the Go lexer refuses invalid UTF-8 outright, and a whole unquoted reserved word (zsh: `}`) is
				// C13_keyword_or_meta's business: neither is comparable with the byte-level word model
				o.G[li] = "?"
			}
		}
		// only texts the Go parser sees as one inert word reach a real shell
		if strings.HasPrefix(o.G[0], "W") {
			bq, bi = append(bq, q), append(bi, i)
		}
		if strings.HasPrefix(o.G[1], "W") {
			dq, di = append(dq, q), append(di, i)
		}
		all[i] = o
	}
	for k, r := range shellWords("/usr/bin/bash", []string{"--norc", "--noprofile"}, bq, dir) {
		all[bi[k]].Bash = r
	}
	for k, r := range shellWords("/usr/bin/dash", nil, dq, dir) {
		all[di[k]].Dash = r
	}
	for _, o := range all {
		hx.Emit(o)
	}
}

// pinned reads the regression corpus: one Go string literal per line, '#' comments.
func pinned(path string) []string {
	if path == "" {
		return nil
	}
	f, err := os.Open(path)
	if err != nil {
		panic(err)
	}
	defer f.Close()
	var out []string
	sc := bufio.NewScanner(f)
	for sc.Scan() {
		line := strings.TrimSpace(sc.Text())
		if line == "" || strings.HasPrefix(line, "#") {
			continue
		}
		s, err := strconv.Unquote(line)
		if err != nil {
			panic(fmt.Sprintf("corpus line %q: %v", line, err))
		}
		out = append(out, s)
	}
	return out
}

func main() {
	o := hx.ParseArgs()
	defer hx.Flush()
	switch o.Mode {
	case "table":
		var ranges [][2]int
		lo := -1
		for r := rune(0); r <= unicode.MaxRune+1; r++ {
			p := r <= unicode.MaxRune && unicode.IsPrint(r)
			if p && lo < 0 {
				lo = int(r)
			}
			if !p && lo >= 0 {
				ranges = append(ranges, [2]int{lo, int(r) - 1})
				lo = -1
			}
		}
		hx.Emit(map[string]any{"ranges": ranges})
	case "gen":
		var strs []string
		strs = append(strs, "")
		for a := 0; a < 256; a++ {
			strs = append(strs, string([]byte{byte(a)}))
		}
		if o.Tier == "thorough" {
			for a := 0; a < 256; a++ {
				for b := 0; b < 256; b++ {
					strs = append(strs, string([]byte{byte(a), byte(b)}))
				}
			}
		} else {
			// rotating slice of the 2-byte strings: 8 first bytes spread over the byte range
			k := int(o.Seed % 32)
			for j := 0; j < 8; j++ {
				a := k + 32*j
				for b := 0; b < 256; b++ {
					strs = append(strs, string([]byte{byte(a), byte(b)}))
				}
			}
		}
		strs = append(pinned(o.In), strs...) // the regression corpus runs first
		strs = append(strs, criticalStrings()...)
		strs = append(strs, keywordTokens...)
		r := hx.Rand(o.Seed, 13)
		for i := 0; i < o.N; i++ {
			strs = append(strs, genString(r))
		}
		observeAll(strs)
	case "unq":
		r := hx.Rand(o.Seed, 1313)
		seen := map[string]bool{}
		var qs []string
		for i := 0; i < o.N; i++ {
			q := genQuoted(r)
			if q != "" && !seen[q] && !strings.Contains(q, "\x00") {
				seen[q] = true
				qs = append(qs, q)
			}
		}
		unqAll(qs)
	case "one":
		f, err := os.Open(o.In)
		if err != nil {
			panic(err)
		}
		var strs []string
		sc := bufio.NewScanner(f)
		for sc.Scan() {
			t := strings.TrimSpace(sc.Text())
			if t == "-" {
				strs = append(strs, "")
			} else if t != "" {
				strs = append(strs, hx.UnHex(t))
			}
		}
		observeAll(strs)
	}
}
