// c23: the read builtin and expand.ReadFields.
//
// A case is (IFS, input bytes, -r flag, target: k names 0..4 or -a).
// Per case the harness emits
//   - expand.ReadFields on the first logical line of the input (code leg of the
//     splitting model) and the values the interpreter assigns (code leg of the
//     builtin model),
//   - the values real bash assigns for the same shell text (search).
package main

import (
	"fmt"
	"math/rand/v2"
	"os"
	"path/filepath"
	"strings"
	"time"
	"unicode/utf8"

	"mvdan.cc/sh/v3/expand"
	"verifharness/hx"
	"verifharness/hxsplit"
)

type kase struct {
	ID       int    `json:"id"`
	Stream   string `json:"stream"`
	IFSSet   bool   `json:"ifs_set"`
	IFS      []int  `json:"ifs"`
	IFSHex   string `json:"ifs_hex"`
	Input    []int  `json:"input"`
	InputHex string `json:"input_hex"`
	Raw      bool   `json:"raw"`
	Array    bool   `json:"array"`
	K        int    `json:"k"` // number of names (ignored for -a)
	Script   string `json:"script"`
	Modelled bool   `json:"modelled"`
	// direct expand.ReadFields observations on the logical line: for n = -1, 0, 1, 2, 3, k
	Line      []int    `json:"line"`
	RFN       []int    `json:"rf_n"`
	RF        []any    `json:"rf"` // per n: [][]int or "P"
	Interp    string   `json:"interp"`
	Vals      [][]int  `json:"vals"` // parsed interp output: status, then values (nil if unparsable)
	Bash      string   `json:"bash"`
	Fails     []string `json:"fails"`
	Class     string   `json:"class"`
	Seq       int      `json:"seq"` // seq stream: number of the sequence this step belongs to (else -1)
	SeqPos    int      `json:"seq_pos"`
	SeqScript string   `json:"seq_script"` // the whole sequence as one script (one Runner, one expand.Config)
	NoOracle  string   `json:"no_oracle"`  // why bash is not consulted for this case ("" = it is)

	ifs   string
	input string
}

var ifsChoices = []string{" \t\n", " ", "\t ", ":", ": ", " :", ":,", ", :", "é", "x", "€", "ab", "-", " -", "/", "\\", ": \\", "é:"}

func genIFS(r *rand.Rand) (bool, string) {
	switch r.IntN(12) {
	case 0:
		return false, " \t\n"
	case 1:
		return true, ""
	case 2, 3, 4:
		return true, " \t\n"
	default:
		return true, hx.Pick(r, ifsChoices)
	}
}

var plain = []string{"a", "b", "c", "x", "1", "é", "€", ":", ",", " ", " ", "\t", "-", "/", ".", "\\", "\\", "\\ "}

func genLine(r *rand.Rand, ifs string) string {
	n := r.IntN(9)
	if r.IntN(10) == 0 {
		n = 0
	}
	ifsr := []rune(ifs)
	var sb strings.Builder
	for i := 0; i < n; i++ {
		if len(ifsr) > 0 && r.IntN(5) < 2 {
			sb.WriteRune(ifsr[r.IntN(len(ifsr))])
		} else {
			sb.WriteString(hx.Pick(r, plain))
		}
	}
	return sb.String()
}

func genInput(r *rand.Rand, ifs string) string {
	var sb strings.Builder
	sb.WriteString(genLine(r, ifs))
	for r.IntN(4) == 0 { // continuation candidates and further lines
		if r.IntN(2) == 0 {
			sb.WriteString("\\")
		}
		sb.WriteString("\n")
		sb.WriteString(genLine(r, ifs))
	}
	if r.IntN(5) > 0 {
		sb.WriteString("\n")
	}
	return sb.String()
}

// logicalLine mirrors what read consumes: up to the first newline that is not a
// continuation; reports whether the input ended inside an escape (bash's own
// behaviour there is erratic: it leaves a \001 in the value).
func logicalLine(input string, raw bool) (line string, danglingEsc bool) {
	var b []byte
	esc := false
	for i := 0; i < len(input); i++ {
		c := input[i]
		switch {
		case !raw && c == '\\':
			b = append(b, c)
			esc = !esc
		case !raw && c == '\n' && esc:
			b = b[:len(b)-1]
			esc = false
		case c == '\n':
			return string(b), false
		default:
			b = append(b, c)
			esc = false
		}
	}
	return string(b), esc
}

var names = []string{"a", "b", "c", "d"}

func (k *kase) finish(dir string) {
	k.IFS = hxsplit.Runes(k.ifs)
	k.IFSHex = hx.Hex(k.ifs)
	k.InputHex = hx.Hex(k.input)
	k.Modelled = utf8.ValidString(k.input) && utf8.ValidString(k.ifs) && !strings.ContainsRune(k.ifs, utf8.RuneError)
	if k.Modelled {
		k.Input = hxsplit.Runes(k.input)
	}
	file := fmt.Sprintf("in_%s_%d", k.Stream, k.ID)
	if err := os.WriteFile(filepath.Join(dir, file), []byte(k.input), 0o600); err != nil {
		panic(err)
	}
	var sb strings.Builder
	sb.WriteString("unset a b c d REPLY; ")
	if k.IFSSet {
		sb.WriteString("IFS=" + hxsplit.Ansi(k.ifs) + "; ")
	} else {
		sb.WriteString("unset IFS; ")
	}
	sb.WriteString("read")
	if k.Raw {
		sb.WriteString(" -r")
	}
	switch {
	case k.Array:
		sb.WriteString(" -a a < " + file + `; p "$?" "${#a[@]}" "${a[0]}" "${a[1]}" "${a[2]}" "${a[3]}" "${a[4]}" "${a[5]}" "${a[6]}" "${a[7]}" "${a[8]}" "${a[9]}"; q "${a[@]}"`)
	case k.K == 0:
		sb.WriteString(" < " + file + `; p "$?" "$REPLY"`)
	default:
		sb.WriteString(" " + strings.Join(names[:k.K], " ") + " < " + file + `; p "$?"`)
		for _, n := range names[:k.K] {
			sb.WriteString(` "$` + n + `"`)
		}
	}
	k.Script = sb.String()
	if k.Fails == nil {
		k.Fails = []string{}
	}
}

const prelude = `p() { printf '<%s>' "$@"; }; q() { printf '[%s]' "$#"; }`

func (k *kase) runReadFields(shared *expand.Config) {
	line, _ := logicalLine(k.input, k.Raw)
	if k.Modelled {
		k.Line = hxsplit.Runes(line)
	}
	env := expand.ListEnviron()
	if k.IFSSet {
		env = expand.ListEnviron("IFS=" + k.ifs)
	}
	k.RFN = []int{-1, []int{0, -7, 4}[k.ID%3], []int{1, 2, 3, 5, 1, 2}[k.ID%6]}
	for _, n := range k.RFN {
		var got []string
		cfg := shared // a sequence reuses one Config with a changing environment, like the interpreter does
		if cfg == nil {
			cfg = &expand.Config{}
		}
		cfg.Env = env
		if p, _ := hx.Try(func() { got = expand.ReadFields(cfg, line, n, k.Raw) }); p {
			k.RF = append(k.RF, "P")
			k.Fails = append(k.Fails, "readfields_panics")
			continue
		}
		if k.Modelled {
			k.RF = append(k.RF, hxsplit.RunesList(got))
		} else {
			k.RF = append(k.RF, nil)
		}
	}
}

// parse "<v1><v2>.." produced by p; values never contain '<' or '>'
func parseVals(s string) [][]int {
	var out [][]int
	if i := strings.IndexByte(s, '['); i >= 0 { // the [count] printed by q for -a
		s = s[:i]
	}
	for len(s) > 0 {
		if s[0] != '<' {
			return nil
		}
		j := strings.IndexByte(s, '>')
		if j < 0 {
			return nil
		}
		if !utf8.ValidString(s[1:j]) {
			return nil
		}
		out = append(out, hxsplit.Runes(s[1:j]))
		s = s[j+1:]
	}
	return out
}

func (k *kase) classify() string {
	return ""
}

// bashUnreliable: inputs on which bash 5.2 itself misbehaves, so that it is no oracle:
//   - the input ends inside an escape (bash leaves a \001 in the value),
//   - invalid UTF-8 in IFS or input (bash swallows the newline after an incomplete sequence, splits bytewise),
//   - a backslash-escaped multi-byte IFS character (bash splits it into bytes).
func (k *kase) bashUnreliable() string {
	line, dangling := logicalLine(k.input, k.Raw)
	if dangling {
		return "dangling_escape"
	}
	if !utf8.ValidString(k.input) || !utf8.ValidString(k.ifs) || strings.ContainsRune(k.ifs, utf8.RuneError) {
		return "invalid_utf8"
	}
	if !k.Raw && !k.Array && k.K >= 1 {
		// the last name takes a rest of the line that is nothing but (escaped) IFS white space:
		// bash strips it but leaves a \001 behind
		env := expand.ListEnviron()
		if k.IFSSet {
			env = expand.ListEnviron("IFS=" + k.ifs)
		}
		var all, some []string
		hx.Try(func() {
			all = expand.ReadFields(&expand.Config{Env: env}, line, -1, false)
			some = expand.ReadFields(&expand.Config{Env: env}, line, k.K, false)
		})
		if len(all) > k.K && len(some) == k.K && some[k.K-1] == "" {
			return "rest_is_escaped_blanks"
		}
	}
	if !k.Raw {
		prev := rune(0)
		for _, r := range line {
			if prev == '\\' && r >= 0x80 && strings.ContainsRune(k.ifs, r) {
				return "escaped_multibyte_ifs"
			}
			if prev == '\\' && r == '\\' {
				prev = 0
			} else {
				prev = r
			}
		}
	}
	return ""
}

// bytesPreserved: every assigned value is a substring of the logical line with
// its escaping backslashes removed (a law that needs no oracle).
func (k *kase) bytesPreserved() bool {
	line, _ := logicalLine(k.input, k.Raw)
	if !k.Raw {
		var b []byte
		esc := false
		for i := 0; i < len(line); i++ {
			if line[i] == '\\' && !esc {
				esc = true
				continue
			}
			b = append(b, line[i])
			esc = false
		}
		line = string(b)
	}
	s := k.Interp
	if i := strings.IndexByte(s, '['); i >= 0 {
		s = s[:i]
	}
	first := true
	for len(s) > 0 {
		if s[0] != '<' {
			return false
		}
		j := strings.IndexByte(s, '>')
		if j < 0 {
			return false
		}
		if !first && !(k.Array && s[1:j] != "" && strings.Trim(s[1:j], "0123456789") == "") && !strings.Contains(line, s[1:j]) {
			return false
		}
		first = false
		s = s[j+1:]
	}
	return true
}

var pinned = []struct {
	ifsSet bool
	ifs    string
	input  string
	raw    bool
	array  bool
	k      int
}{
	{true, ":", "x::y:z:\n", false, false, 3},
	{true, ":", "x::y:z:\n", false, false, 4},
	{true, ":", "x:\n", false, false, 1},
	{true, ":", "x::\n", false, false, 1},
	{true, ":", ":x\n", false, false, 1},
	{true, ":", ":\n", false, false, 1},
	{true, ":", ":\n", false, true, 1},
	{true, ":", "a::b:\n", false, true, 1},
	{true, " :", "a b ::\n", false, false, 2},
	{true, " :", "a b :\n", false, false, 2},
	{true, " :", " :x\n", false, false, 1},
	{true, " \t\n", "a\\ \n", false, false, 1},
	{true, " \t\n", "a\\ b c\\ \n", false, false, 2},
	{true, " \t\n", "  a\\ b  \n", false, false, 0},
	{true, " \t\n", "  a\\ b  \n", true, false, 0},
	{true, "", " a b \n", false, false, 2},
	{true, "\\", "x\\y\n", false, false, 2},
	{true, "\\", "x\\y\n", true, false, 2},
	{false, "", "  x   y z  \n", false, false, 2},
	{true, "é", "xéyéz\n", false, false, 2},
	{true, " \t\n", "x\xffy z\n", false, false, 2},
	{true, " \t\n", "a\\\nb c\nd\n", false, false, 2},
	{true, " \t\n", "a\\\nb c\nd\n", true, false, 2},
	{true, " \t\n", "a b", false, false, 2},
	{true, " \t\n", "", false, false, 2},
	{true, " \t\n", "a \\", false, false, 1},
	// a field ended by IFS white space, then two or more non-white-space IFS characters
	{true, " :", "x ::y\n", false, false, 3},
	{true, " :", "x ::y\n", false, true, 1},
	{true, " :", "x : :y\n", false, false, 4},
	{true, " :", "x  :: : y\n", true, true, 1},
	// a continuation followed directly by a newline or by another continuation
	{true, " \t\n", "a\\\n\nb\n", false, false, 2},
	{true, " \t\n", "\\\n\nb\n", false, false, 1},
	{true, " \t\n", "a\\\n\\\nb c\nd\n", false, false, 2},
	{true, " \t\n", "a\\\n\\\nb c\nd\n", false, false, 0},
	// bare read: an escaped backslash stays, with and without -r
	{true, " \t\n", "a\\\\b \\c\n", false, false, 0},
	{true, " \t\n", "a\\\\b \\c\n", true, false, 0},
	{true, " \t\n", "\\\\\n", false, false, 0},
	// the rest of the line consists of escaped blanks only: trimEnd lies before the field's start
	{true, " \t\n", "a \\  \\ \n", false, false, 2},
	{true, " \t\n", "\\  \\ \n", false, false, 1},
}

// genRest draws the input and the flags of a case whose IFS is already chosen
func genRest(r *rand.Rand, k *kase, wild bool) {
	k.input = genInput(r, k.ifs)
	if wild {
		pos := r.IntN(len(k.input) + 1)
		k.input = k.input[:pos] + hx.Pick(r, []string{"\xff", "\xc3", "\xe2\x82", "\x80"}) + k.input[pos:]
	}
	k.Raw = r.IntN(3) == 0
	k.Array = r.IntN(5) == 0
	k.K = r.IntN(5)
	if k.Array {
		k.K = 1
	}
	// bash leaves a \001 in the value when the input ends inside an escape
	if _, dangling := logicalLine(k.input, k.Raw); dangling {
		k.input += "\n"
	}
}

func main() {
	o := hx.ParseArgs()
	defer hx.Flush()
	dir, err := os.MkdirTemp("", "c23h")
	if err != nil {
		panic(err)
	}
	defer os.RemoveAll(dir)
	var cases []*kase
	switch o.Mode {
	case "gen", "wild":
		stream := uint64(23)
		if o.Mode == "wild" {
			stream = 2301
		}
		r := hx.Rand(o.Seed, stream)
		for i := 0; i < o.N; i++ {
			k := &kase{ID: i, Stream: o.Mode, Seq: -1}
			k.IFSSet, k.ifs = genIFS(r)
			if o.Mode == "wild" && r.IntN(4) == 0 {
				k.IFSSet, k.ifs = true, hx.Pick(r, []string{"\xff", ":\xc3", "\uFFFD"})
			}
			genRest(r, k, o.Mode == "wild")
			cases = append(cases, k)
		}
	case "seq":
		// sequences of reads in one shell / on one expand.Config while IFS changes in between:
		// a custom value, then unset / empty / another value, then anything
		r := hx.Rand(o.Seed, 2302)
		for i := 0; i < o.N; i++ {
			n := 2 + r.IntN(2)
			for j := 0; j < n; j++ {
				k := &kase{ID: len(cases), Stream: "seq", Seq: i, SeqPos: j}
				switch j {
				case 0:
					k.IFSSet, k.ifs = true, hx.Pick(r, []string{":", ",", ": ", "x", "-", ":,", "é", "/"})
				case 1:
					switch r.IntN(4) {
					case 0, 1:
						k.IFSSet, k.ifs = false, " \t\n"
					case 2:
						k.IFSSet, k.ifs = true, ""
					default:
						k.IFSSet, k.ifs = true, hx.Pick(r, []string{",", " ", "b", " \t\n"})
					}
				default:
					k.IFSSet, k.ifs = genIFS(r)
				}
				genRest(r, k, false)
				cases = append(cases, k)
			}
		}
	case "pinned":
		for i, p := range pinned {
			k := &kase{ID: i, Stream: "pinned", Seq: -1, IFSSet: p.ifsSet, ifs: p.ifs, input: p.input, Raw: p.raw, Array: p.array, K: p.k}
			if !p.ifsSet {
				k.ifs = " \t\n"
			}
			cases = append(cases, k)
		}
	default:
		panic("unknown mode")
	}
	// units: single cases, or the steps of one sequence (run by one bash, one Runner, one expand.Config)
	var units [][]*kase
	for _, k := range cases {
		k.finish(dir)
		if k.Seq >= 0 && len(units) > 0 && units[len(units)-1][0].Seq == k.Seq {
			units[len(units)-1] = append(units[len(units)-1], k)
		} else {
			units = append(units, []*kase{k})
		}
	}
	bodies := make([]string, len(units))
	for i, u := range units {
		var parts []string
		for _, k := range u {
			parts = append(parts, k.Script)
		}
		bodies[i] = strings.Join(parts, "; printf '|'; ")
		if len(u) > 1 {
			for _, k := range u {
				k.SeqScript = bodies[i]
			}
		}
	}
	bash := hxsplit.Bash(dir, prelude, bodies)
	split := func(out string, n int) []string {
		l := strings.Split(out, "|")
		if len(l) != n {
			l = make([]string, n)
			for i := range l {
				l[i] = "UNSPLITTABLE:" + out
			}
		}
		return l
	}
	bashCase := make([]string, 0, len(cases))
	interpOut := map[*kase]string{}
	sharedCfg := map[*kase]*expand.Config{}
	for i, u := range units {
		bashCase = append(bashCase, split(bash[i], len(u))...)
		if len(u) > 1 {
			is := split(hxsplit.RunInterp(dir, prelude+"\n"+bodies[i], 5*time.Second), len(u))
			cfg := &expand.Config{}
			for j, k := range u {
				interpOut[k] = is[j]
				sharedCfg[k] = cfg
			}
		}
	}
	for i, k := range cases {
		k.Bash = bashCase[i]
		k.runReadFields(sharedCfg[k])
		if out, ok := interpOut[k]; ok {
			k.Interp = out
		} else {
			k.Interp = hxsplit.RunInterp(dir, prelude+"\n"+k.Script, 5*time.Second)
		}
		if k.Modelled {
			k.Vals = parseVals(k.Interp)
		}
		k.NoOracle = k.bashUnreliable()
		if k.Interp != k.Bash && k.NoOracle == "" {
			k.Fails = append(k.Fails, "read_assigns_differently_from_bash")
		}
		if k.NoOracle != "" && !k.bytesPreserved() {
			k.Fails = append(k.Fails, "read_value_has_bytes_not_in_input")
		}
		if strings.HasPrefix(k.Interp, "PANIC") || k.Interp == "HANG" {
			k.Fails = append(k.Fails, "read_panics_or_hangs")
		}
		if len(k.Fails) > 0 {
			k.Class = k.classify()
		}
		hx.Emit(k)
	}
}
