// c21: parameter expansion.
//
//	gen     code leg: generated (state, ${...} word) pairs inside the modelled fragment, expanded by
//	        expand.Fields with a map-backed WriteEnviron; emits the Coq term of the input and of the Go
//	        observation (fields, assignment side effect, error class)
//	search  the wider generator: `printf '<%s>' WORD` in interp.Runner vs real bash 5.2
//	witness the pinned witnesses of the known findings / fixed defects
package main

import (
	"fmt"
	"math/rand/v2"
	"os"
	"sort"
	"strconv"
	"strings"
	"unicode"

	"mvdan.cc/sh/v3/expand"
	"mvdan.cc/sh/v3/syntax"
	"verifharness/hx"
	"verifharness/hxbash"
)

// ---------------------------------------------------------------- case structure

type Var struct {
	Kind string // "unset" "str" "idx" "assoc"
	Str  string
	List []string
	Idx  []int // nil = dense
	Keys []string
	Vals []string
}

type Part struct {
	K string // "lit" (unquoted source text), "sgl", "dbl", "var" ($p unquoted), "qvar" ("$p")
	S string
}

type PExp struct {
	Name  string
	Idx   string // "", "@", "*", "n" (IdxN), "k" (IdxK)
	IdxN  int
	IdxK  string
	Op    string // "", "len", "excl", "slice", "repl", "exp"
	Off   *int
	Len   *int
	All   bool
	Orig  []Part
	With  []Part
	ExpOp string
	Arg   []Part
}

type Case struct {
	V      Var      // variable "v"
	R      *string  // variable "r" (for indirection), nil = unset
	Params []string // positional parameters ($0 is "sh0")
	IFS    *string
	P      PExp
	Quoted bool
	Fam    string
	Two    int // 0: the word alone; 1: a plain expansion of the same subject in a later command; 2: in the same command
}

// ---------------------------------------------------------------- rendering to shell source

func renderParts(ps []Part, pvars *[]string) string {
	var sb strings.Builder
	for _, p := range ps {
		switch p.K {
		case "lit":
			sb.WriteString(p.S)
		case "sgl":
			sb.WriteString("'" + p.S + "'")
		case "dbl":
			sb.WriteString("\"" + p.S + "\"")
		case "var", "qvar":
			n := "p" + strconv.Itoa(len(*pvars))
			*pvars = append(*pvars, p.S)
			if p.K == "var" {
				sb.WriteString("${" + n + "}")
			} else {
				sb.WriteString("\"${" + n + "}\"")
			}
		}
	}
	return sb.String()
}

func num(n int) string {
	if n < 0 {
		return " " + strconv.Itoa(n)
	}
	return strconv.Itoa(n)
}

// word renders ${...}; pvars collects the values of p0, p1, ... used by var parts.
func (p PExp) word(pvars *[]string) string {
	var sb strings.Builder
	sb.WriteString("${")
	switch p.Op {
	case "len":
		sb.WriteString("#")
	case "excl":
		sb.WriteString("!")
	}
	sb.WriteString(p.Name)
	switch p.Idx {
	case "@", "*":
		sb.WriteString("[" + p.Idx + "]")
	case "n":
		sb.WriteString("[" + strconv.Itoa(p.IdxN) + "]")
	case "k":
		sb.WriteString("[" + p.IdxK + "]")
	}
	switch p.Op {
	case "slice":
		sb.WriteString(":")
		if p.Off != nil {
			sb.WriteString(num(*p.Off))
		}
		if p.Len != nil {
			sb.WriteString(":" + num(*p.Len))
		}
	case "repl":
		sb.WriteString("/")
		if p.All {
			sb.WriteString("/")
		}
		sb.WriteString(renderParts(p.Orig, pvars))
		if p.With != nil {
			sb.WriteString("/" + renderParts(p.With, pvars))
		}
	case "exp":
		sb.WriteString(p.ExpOp + renderParts(p.Arg, pvars))
	}
	sb.WriteString("}")
	return sb.String()
}

func (c Case) wordSrc(pvars *[]string) string {
	w := c.P.word(pvars)
	if c.Quoted {
		return "\"" + w + "\""
	}
	return w
}

func (c Case) isAssign() bool {
	return c.P.Op == "exp" && (c.P.ExpOp == ":=" || c.P.ExpOp == "=")
}

// a plain quoted expansion of the subject of the case (to see whether the first expansion changed it)
func (c Case) plainAgain() string {
	switch {
	case c.P.Name == "@" || c.P.Name == "*":
		return "\"$@\""
	case c.P.Name == "r":
		return "\"${r-UNSET}\""
	case c.V.Kind == "idx" || c.V.Kind == "assoc":
		if c.V.Kind == "assoc" && len(c.V.Keys) > 1 {
			return "\"${#v[@]}\"" // the order of the values is unspecified
		}
		return "\"${v[@]}\""
	case c.P.Name == "v":
		return "\"${v-UNSET}\""
	default:
		return "\"$@\""
	}
}

// script for interp/bash: setup; printf '<%s>' WORD; for assignments the value of v afterwards.
func (c Case) script() string {
	var pv []string
	w := c.wordSrc(&pv)
	var sb strings.Builder
	sb.WriteString("set -f\n")
	switch c.V.Kind {
	case "unset":
		sb.WriteString("unset v\n")
	case "str":
		sb.WriteString("v=" + hxbash.SQ(c.V.Str) + "\n")
	case "idx":
		sb.WriteString("v=(")
		for i, e := range c.V.List {
			if c.V.Idx != nil {
				fmt.Fprintf(&sb, "[%d]=", c.V.Idx[i])
			}
			sb.WriteString(hxbash.SQ(e) + " ")
		}
		sb.WriteString(")\n")
	case "assoc":
		sb.WriteString("declare -A v=(")
		for i, k := range c.V.Keys {
			sb.WriteString("[" + hxbash.SQ(k) + "]=" + hxbash.SQ(c.V.Vals[i]) + " ")
		}
		sb.WriteString(")\n")
	}
	if c.R != nil {
		sb.WriteString("r=" + hxbash.SQ(*c.R) + "\n")
	}
	for i, v := range pv {
		fmt.Fprintf(&sb, "p%d=%s\n", i, hxbash.SQ(v))
	}
	if c.Params != nil {
		sb.WriteString("set --")
		for _, p := range c.Params {
			sb.WriteString(" " + hxbash.SQ(p))
		}
		sb.WriteString("\n")
	}
	if c.IFS != nil {
		sb.WriteString("IFS=" + hxbash.SQ(*c.IFS) + "\n")
	}
	// the number of fields, then the fields (printf alone cannot tell zero fields from one empty field)
	sb.WriteString("f() { printf '%s:' \"$#\"; printf '<%s>' \"$@\"; }\n")
	switch c.Two {
	case 1:
		sb.WriteString("f " + w + "\nprintf '|'\nf " + c.plainAgain() + "\n")
	case 2:
		sb.WriteString("f " + w + " " + c.plainAgain() + "\n")
	default:
		sb.WriteString("f " + w + "\n")
	}
	if c.isAssign() {
		sb.WriteString("printf '|<%s>' \"${v-UNSET}\"\n")
	}
	return sb.String()
}

// ---------------------------------------------------------------- generators

var valAlpha = []string{"a", "b", "c", "A", "B", "*", "?", "[", "]", "\\", "/", " ", "  ", "\t", "\n", "é", "X", ".", "ab", "a b", "-", "#", "%"}
var patAlpha = []string{"*", "?", "a", "b", "c", "A", "\\*", "\\?", "\\a", "\\\\", "\\/", "é", "X", " "}
var patAlphaWide = []string{"*", "?", "[", "]", "a", "b", "\\", "/", "[ab]", "[!a]", "[a-c]", "-", "!"}
var argAlpha = []string{"a", "b", "Z", " ", "*", "?", "d e", "é", "[", "x"}

func genStr(r *rand.Rand, alpha []string, max int) string {
	n := r.IntN(max + 1)
	var sb strings.Builder
	for i := 0; i < n; i++ {
		sb.WriteString(hx.Pick(r, alpha))
	}
	return sb.String()
}

func genVal(r *rand.Rand) string {
	switch r.IntN(10) {
	case 0:
		return ""
	case 1:
		return hx.Pick(r, []string{"abc", "aXbXc", "a b", " a  b ", "héllo", "a*b", "abab", "ab\nab", "b\nab", "[ab]", "a\\b", "*", "-5", "ABC", "aaa", "#ab%"})
	default:
		return genStr(r, valAlpha, 6)
	}
}

// valid only: a trailing lone backslash in unquoted source would escape the closing brace
func fixLit(s string) string {
	n := 0
	for i := len(s) - 1; i >= 0 && s[i] == '\\'; i-- {
		n++
	}
	if n%2 == 1 {
		return s + "\\"
	}
	return s
}


// a pattern derived from the subject's value, so that it matches with a choice of matches
// (several occurrences of the anchor character, * at either side)
func litPart(c rune) Part {
	switch {
	case c == '\\':
		return Part{"lit", "\\\\"}
	case c == '/':
		return Part{"lit", "\\/"}
	case c >= 'a' && c <= 'z' || c >= 'A' && c <= 'Z' || c == 'é':
		return Part{"lit", string(c)}
	default:
		return Part{"dbl", string(c)}
	}
}

func genPatFromValue(r *rand.Rand, c Case) []Part {
	val := c.V.Str
	switch {
	case c.V.Kind == "idx" && len(c.V.List) > 0:
		val = hx.Pick(r, c.V.List)
	case c.V.Kind == "assoc" && len(c.V.Vals) > 0:
		val = hx.Pick(r, c.V.Vals)
	case c.Params != nil && len(c.Params) > 0:
		val = hx.Pick(r, c.Params)
	}
	rs := []rune(val)
	if len(rs) == 0 {
		return []Part{{"lit", "*"}}
	}
	ch := rs[r.IntN(len(rs))]
	star, any := Part{"lit", "*"}, Part{"lit", "?"}
	switch r.IntN(8) {
	case 0:
		return []Part{star, litPart(ch)}
	case 1:
		return []Part{litPart(ch), star}
	case 2:
		return []Part{star, litPart(ch), star}
	case 3:
		return []Part{any, litPart(ch)}
	case 4:
		return []Part{litPart(ch), any, star}
	case 5:
		return []Part{star, any}
	case 6:
		i := r.IntN(len(rs))
		j := i + 1 + r.IntN(len(rs)-i)
		var ps []Part
		for _, x := range rs[i:j] {
			ps = append(ps, litPart(x))
		}
		return ps
	default:
		return []Part{litPart(rs[0]), star, litPart(rs[len(rs)-1])}
	}
}

// pattern parts; wide = include brackets etc. (outside the modelled fragment)
func genPat(r *rand.Rand, wide, quotedOuter bool) []Part {
	var ps []Part
	n := 1 + r.IntN(3)
	if r.IntN(8) == 0 {
		n = 0
	}
	for i := 0; i < n; i++ {
		alpha := patAlpha
		if wide {
			alpha = patAlphaWide
		}
		k := r.IntN(10)
		switch {
		case k < 6:
			s := ""
			m := 1 + r.IntN(2)
			for j := 0; j < m; j++ {
				s += hx.Pick(r, alpha)
			}
			s = strings.ReplaceAll(s, "/", "\\/") // an unquoted slash would end the pattern of ${v/p/r}
			s = strings.ReplaceAll(s, "\\\\/", "\\/")
			if s == "\\" {
				s = "\\\\"
			}
			ps = append(ps, Part{"lit", fixLit(s)})
		case k == 6 && !quotedOuter:
			ps = append(ps, Part{"sgl", genStr(r, []string{"*", "?", "a", "b", "[", " "}, 2)})
		case k == 7:
			ps = append(ps, Part{"dbl", genStr(r, []string{"*", "?", "a", "b", "[", " "}, 2)})
		case k == 8:
			ps = append(ps, Part{"var", genStr(r, alpha, 3)})
		default:
			ps = append(ps, Part{"qvar", genStr(r, []string{"*", "?", "a", "b", "\\", "["}, 2)})
		}
	}
	if ps == nil {
		ps = []Part{}
	}
	return ps
}

// argument word of the default family / replacement text: no backslashes (quote removal of
// unquoted backslashes in Literal context belongs to C22), quotes only when the outer is unquoted.
func genArg(r *rand.Rand, quotedOuter bool) []Part {
	var ps []Part
	n := r.IntN(3)
	for i := 0; i < n; i++ {
		switch k := r.IntN(8); {
		case k < 5:
			s := genStr(r, argAlpha, 2)
			s = strings.TrimLeft(s, "~")
			ps = append(ps, Part{"lit", s})
		case k == 5 && !quotedOuter:
			ps = append(ps, Part{"sgl", genStr(r, argAlpha, 2)})
		case k == 6 && !quotedOuter: // "${v-"x"}": nested double quotes are parsed differently by bash
			ps = append(ps, Part{"dbl", genStr(r, argAlpha, 2)})
		default:
			ps = append(ps, Part{"var", genStr(r, argAlpha, 3)})
		}
	}
	if ps == nil {
		ps = []Part{}
	}
	return ps
}

func ip(n int) *int { return &n }

func genCase(r *rand.Rand, wide bool) Case {
	var c Case
	c.Quoted = r.IntN(2) == 0
	// subject
	subj := r.IntN(10)
	switch {
	case subj < 5: // scalar v
		switch r.IntN(6) {
		case 0:
			c.V = Var{Kind: "unset"}
		case 1:
			c.V = Var{Kind: "str", Str: ""}
		default:
			c.V = Var{Kind: "str", Str: genVal(r)}
		}
		c.P.Name = "v"
		if r.IntN(8) == 0 {
			c.P.Idx = hx.Pick(r, []string{"@", "*", "n", "n"})
			c.P.IdxN = r.IntN(2)
		}
	case subj < 7: // indexed array
		n := r.IntN(4)
		c.V = Var{Kind: "idx", List: []string{}}
		sparse := r.IntN(3) == 0 && n > 0
		k := 0
		for i := 0; i < n; i++ {
			c.V.List = append(c.V.List, genVal(r))
			if sparse {
				k += r.IntN(3)
				if i == 0 && k == 0 && n == 1 {
					k = 1 + r.IntN(3)
				}
				c.V.Idx = append(c.V.Idx, k)
				k++
			}
		}
		if sparse { // canonical: dense index lists are nil
			dense := true
			for i, x := range c.V.Idx {
				if x != i {
					dense = false
				}
			}
			if dense {
				c.V.Idx = nil
			}
		}
		c.P.Name = "v"
		c.P.Idx = hx.Pick(r, []string{"@", "@", "*", "*", "n", "n", ""})
		c.P.IdxN = r.IntN(7) - 2
	case subj < 8: // associative
		n := r.IntN(3)
		c.V = Var{Kind: "assoc", Keys: []string{}, Vals: []string{}}
		keys := []string{"a", "b", "k1", "0", "1"}
		r.Shuffle(len(keys), func(i, j int) { keys[i], keys[j] = keys[j], keys[i] })
		for i := 0; i < n; i++ {
			c.V.Keys = append(c.V.Keys, keys[i])
			c.V.Vals = append(c.V.Vals, genVal(r))
		}
		c.P.Name = "v"
		c.P.Idx = hx.Pick(r, []string{"@", "*", "k", "k", "n", ""})
		c.P.IdxK = hx.Pick(r, keys)
		c.P.IdxN = r.IntN(2)
	default: // positional
		n := r.IntN(4)
		c.Params = []string{}
		for i := 0; i < n; i++ {
			c.Params = append(c.Params, genVal(r))
		}
		c.V = Var{Kind: "unset"}
		c.P.Name = hx.Pick(r, []string{"@", "@", "*", "*", "1", "2", "3"})
	}
	// IFS: default mostly; "" (no splitting) anywhere; ":" only when quoted (non-whitespace IFS splitting is C22's)
	switch r.IntN(8) {
	case 0:
		c.IFS = new(string)
	case 1:
		if c.Quoted {
			s := hx.Pick(r, []string{":", ":,", "x ", "-"}) // (a multi-byte first IFS character makes bash 5.2 emit broken bytes)
			c.IFS = &s
		}
	}
	// operator
	fam := hx.Pick(r, []string{"plain", "default", "default", "default", "len", "slice", "slice", "remove", "remove", "remove", "replace", "replace", "replace", "case", "indirect", "transform"})
	c.Fam = fam
	switch fam {
	case "plain":
	case "default":
		c.P.Op = "exp"
		c.P.ExpOp = hx.Pick(r, []string{":-", "-", ":=", "=", ":?", "?", ":+", "+"})
		c.P.Arg = genArg(r, c.Quoted)
	case "len":
		c.P.Op = "len"
	case "slice":
		c.P.Op = "slice"
		if r.IntN(10) > 0 {
			c.P.Off = ip(r.IntN(12) - 5)
		} else {
			c.P.Off = nil
		}
		if r.IntN(2) == 0 {
			c.P.Len = ip(r.IntN(10) - 4)
		}
		if c.P.Off == nil && c.P.Len == nil {
			c.P.Off = ip(1)
		}
	case "remove":
		c.P.Op = "exp"
		c.P.ExpOp = hx.Pick(r, []string{"#", "##", "%", "%%"})
		c.P.Arg = genPat(r, wide && r.IntN(2) == 0, c.Quoted)
		if r.IntN(2) == 0 {
			c.P.Arg = genPatFromValue(r, c)
		}
	case "replace":
		c.P.Op = "repl"
		c.P.All = r.IntN(3) == 0
		c.P.Orig = genPat(r, wide && r.IntN(2) == 0, c.Quoted)
		if r.IntN(2) == 0 {
			c.P.Orig = genPatFromValue(r, c)
		}
		if !c.P.All && r.IntN(3) == 0 {
			c.P.Orig = append([]Part{{"lit", hx.Pick(r, []string{"#", "%"})}}, c.P.Orig...)
		}
		if r.IntN(6) > 0 {
			c.P.With = genArg(r, c.Quoted)
		}
	case "case":
		c.P.Op = "exp"
		c.P.ExpOp = hx.Pick(r, []string{"^", "^^", ",", ",,"})
		switch r.IntN(3) {
		case 0:
			c.P.Arg = []Part{}
		case 1:
			c.P.Arg = []Part{{"lit", hx.Pick(r, []string{"a", "?", "*", "b", "A", "é", "\\a"})}}
		default:
			c.P.Arg = genPat(r, wide, c.Quoted)
			if r.IntN(2) == 0 {
				c.P.Arg = genPatFromValue(r, c)[:1]
			}
		}
	case "indirect":
		c.P.Op = "excl"
		if c.P.Name == "v" && c.P.Idx == "" && r.IntN(2) == 0 {
			// ${!r} with r naming v / something unset / empty
			c.P.Name = "r"
			s := hx.Pick(r, []string{"v", "v", "v", "nope", "", "1", "IFS"})
			if r.IntN(8) > 0 {
				c.R = &s
			}
		}
	case "transform":
		c.P.Op = "exp"
		c.P.ExpOp = "@"
		c.P.Arg = []Part{{"lit", hx.Pick(r, []string{"Q", "U", "L", "u"})}}
	}
	return c
}


// ---------------------------------------------------------------- sampling domain
//
// Classes of inputs on which the pinned tree is known to differ from bash are kept out of
// the random generator (BUILDERS: restrict the domain rather than widen a class); each has
// a pinned witness in the "witness" mode and an entry in known_findings.jsonl.

func (c Case) listSubject() bool {
	p := c.P
	return p.Name == "@" || p.Name == "*" || p.Idx == "@" || p.Idx == "*"
}

func (c Case) isDefaultFam() bool {
	if c.P.Op != "exp" {
		return false
	}
	switch c.P.ExpOp {
	case ":-", "-", ":=", "=", ":?", "?", ":+", "+":
		return true
	}
	return false
}

func hasQuotedIFS(ps []Part) bool {
	for _, p := range ps {
		if p.K != "lit" && p.K != "var" && (p.S == "" || strings.ContainsAny(p.S, " \t\n")) {
			return true
		}
	}
	return false
}

func (c Case) inDomain() bool {
	p := c.P
	list := c.listSubject()
	// default family on $@ $* ${a[@]} ${a[*]}: class default_op_on_list_subject
	if c.isDefaultFam() && list {
		return false
	}
	// ${v=w} only on a scalar/unset v without index (element and positional assignment: not covered)
	if c.isAssign() && !(p.Name == "v" && p.Idx == "" && (c.V.Kind == "unset" || c.V.Kind == "str")) {
		return false
	}
	// negative subscripts: only in range, only on indexed arrays (out of range: class negative_index_out_of_range;
	// on associative arrays the interpreter panics: reported to C28)
	if p.Idx == "n" && p.IdxN < 0 && c.V.Kind != "assoc" { // (on an associative array -1 is just a key that is not set)
		if c.V.Kind != "idx" {
			return false
		}
		max := len(c.V.List) - 1
		if c.V.Idx != nil {
			max = c.V.Idx[len(c.V.Idx)-1]
		}
		if p.IdxN+max+1 < 0 {
			return false
		}
	}
	if p.Idx == "k" && c.V.Kind != "assoc" {
		return false // arithmetic on a name: C20
	}
	if p.Op == "excl" {
		switch {
		case p.Name == "r":
			// the value must be a valid name or r unset (class indirect_invalid_name)
			if c.R != nil && *c.R != "v" && *c.R != "nope" {
				return false
			}
		case p.Name == "v" && (p.Idx == "@" || p.Idx == "*") && (c.V.Kind == "idx" || c.V.Kind == "assoc"):
			if !c.Quoted && c.IFS != nil {
				return false
			}
		default:
			return false
		}
	}
	if p.Op == "slice" && list && p.Name == "v" && (c.V.Kind == "str" || c.V.Kind == "unset") {
		return false // class scalar_list_slice: a scalar sliced as a one-element list
	}
	if p.Op == "slice" && list {
		if c.V.Kind == "assoc" && p.Name == "v" {
			return false // class assoc_slice_ignored
		}
		if p.Len != nil && *p.Len < 0 {
			return false // class list_slice_negative_length
		}
	}
	// the order of the values of an associative array is unspecified
	if c.V.Kind == "assoc" && p.Name == "v" && (p.Idx == "@" || p.Idx == "*") && len(c.V.Keys) > 1 {
		return false
	}
	// class unquoted_list_op_null_ifs
	if !c.Quoted && c.IFS != nil && *c.IFS == "" && list && (p.Op == "repl" || p.Op == "exp") {
		return false
	}
	// a backslash that comes out of an unquoted expansion inside a pattern (bash treats it differently
	// from a backslash written in the pattern; C17's "backslash from expansion" corner)
	pats := [][]Part{}
	switch {
	case p.Op == "repl":
		pats = append(pats, p.Orig)
	case p.Op == "exp" && !c.isDefaultFam() && p.ExpOp != "@":
		pats = append(pats, p.Arg)
	}
	for _, ps := range pats {
		unq := ""
		for _, q := range ps {
			if q.K == "var" && strings.Contains(q.S, "\\") {
				return false
			}
			if q.K == "lit" || q.K == "var" {
				unq += q.S
			}
		}
		// an unmatched [ next to bracket expressions is pattern parsing proper (C17)
		if strings.Count(unq, "[") != strings.Count(unq, "]") && (strings.Count(unq, "[") > 1 || strings.ContainsAny(unq, "*?")) {
			return false
		}
		// a bracket expression whose first member is "]" ( []...] [!]...] [^]...] ): bracket parsing proper (C17)
		if strings.Contains(unq, "[]") || strings.Contains(unq, "[!]") || strings.Contains(unq, "[^]") {
			return false
		}
	}
	// ${v^^''}: a word that is present but expands to nothing (bash: matches nothing; interp: like no word)
	if p.Op == "exp" && strings.ContainsAny(p.ExpOp, "^,") && len(p.Arg) > 0 {
		all := ""
		for _, q := range p.Arg {
			all += q.S
		}
		if all == "" {
			return false
		}
	}
	// ${!r} naming an associative array (bash: element "0"; interp: empty)
	if p.Op == "excl" && p.Name == "r" && c.R != nil && *c.R == "v" && c.V.Kind == "assoc" {
		return false
	}
	// class assoc_empty_list_op: an empty associative array with [@]/[*] and an operator whose pattern matches ""
	if c.V.Kind == "assoc" && len(c.V.Keys) == 0 && p.Name == "v" && (p.Idx == "@" || p.Idx == "*") && (p.Op == "repl" || p.Op == "exp") {
		return false
	}
	// bash 5.2 quirk (not a finding): ${v/*\*/X} and ${v/*"*"/X} never match (quick-reject in match_upattern when the
	// pattern starts with * and ends with an escaped *); the search stays away from replace patterns of that shape
	if p.Op == "repl" && len(p.Orig) >= 2 {
		first, last := p.Orig[0], p.Orig[len(p.Orig)-1]
		startsStar := (first.K == "lit" || first.K == "var") && strings.HasPrefix(strings.TrimLeft(first.S, "#%"), "*")
		endsQStar := (last.K != "lit" && last.K != "var" && strings.HasSuffix(last.S, "*")) || ((last.K == "lit" || last.K == "var") && strings.HasSuffix(last.S, "\\*"))
		if startsStar && endsQStar {
			return false
		}
	}
	if p.Op == "repl" && len(p.Orig) == 1 && (p.Orig[0].K == "lit" || p.Orig[0].K == "var") {
		t := strings.TrimLeft(p.Orig[0].S, "#%")
		if strings.HasPrefix(t, "*") && strings.HasSuffix(t, "\\*") {
			return false
		}
	}
	// class transform_on_list_subject
	if p.Op == "exp" && p.ExpOp == "@" && list {
		return false
	}
	// class quoted_default_word_split
	if !c.Quoted && c.isDefaultFam() && hasQuotedIFS(p.Arg) {
		return false
	}
	return true
}

func normParts(ps []Part) []Part {
	if ps == nil {
		return nil
	}
	out := []Part{}
	for _, p := range ps {
		if p.K == "lit" && p.S == "" {
			continue
		}
		if n := len(out); n > 0 && p.K == "lit" && out[n-1].K == "lit" {
			out[n-1].S += p.S
			continue
		}
		out = append(out, p)
	}
	return out
}

func genDomCase(r *rand.Rand, wide bool) Case {
	for {
		c := genCase(r, wide)
		c.P.Arg, c.P.Orig, c.P.With = normParts(c.P.Arg), normParts(c.P.Orig), normParts(c.P.With)
		if c.P.Op == "repl" && len(c.P.Orig) == 0 {
			// ${v//w} and ${v///} are read as pattern "w" resp. "/": an empty pattern cannot be followed by anything
			c.P.With, c.P.All = nil, false
		}
		if c.inDomain() {
			// two-step cases: mostly for list subjects with an operator, where an element-wise operator
			// could write into the variable's own list
			if !c.isAssign() && !(c.P.Op == "exp" && (c.P.ExpOp == ":?" || c.P.ExpOp == "?")) {
				if c.P.Op == "excl" {
					// an indirection error is fatal in the interpreter and per command in bash (runner, C26): no second step
				} else if c.listSubject() || c.V.Kind == "idx" {
					c.Two = r.IntN(3)
				} else if r.IntN(4) == 0 {
					c.Two = 1 + r.IntN(2)
				}
			}
			return c
		}
	}
}

// ---------------------------------------------------------------- fragment of the Coq model

func simplePatText(s string) bool {
	// * ? literals, backslash escapes; no brackets, no extglob parens
	for i := 0; i < len(s); i++ {
		switch s[i] {
		case '[', ']', '(', ')', '|', '{', '}', '+', '@', '!', '^', '$', '.':
			return false
		case '\\':
			if i+1 >= len(s) {
				return false
			}
			i++
			if strings.IndexByte("[](){}|+@!^$.", s[i]) >= 0 {
				return false
			}
		}
	}
	return true
}

func partsSimple(ps []Part, pattern bool) bool {
	for _, p := range ps {
		switch p.K {
		case "lit", "var":
			if pattern && !simplePatText(p.S) {
				return false
			}
			if !pattern && strings.ContainsAny(p.S, "\\~") {
				return false
			}
		case "sgl", "dbl", "qvar":
			if strings.ContainsAny(p.S, "\\$`\"") && p.K != "sgl" && p.K != "qvar" {
				return false
			}
			if pattern && strings.ContainsAny(p.S, "]()|{}+@!^$.") {
				return false
			}
		}
	}
	return true
}

func (c Case) inModel() bool {
	p := c.P
	switch p.Op {
	case "repl":
		if !partsSimple(p.Orig, true) || !partsSimple(p.With, false) {
			return false
		}
	case "exp":
		switch p.ExpOp {
		case "#", "##", "%", "%%", "^", "^^", ",", ",,":
			if !partsSimple(p.Arg, true) {
				return false
			}
		default:
			if !partsSimple(p.Arg, false) {
				return false
			}
		}
	case "excl":
		// ${!v[@]} on an associative array iterates a Go map in random order
		if c.V.Kind == "assoc" && (p.Idx == "@" || p.Idx == "*") && len(c.V.Keys) > 1 {
			return false
		}
	}

	if p.Idx == "k" && c.V.Kind != "assoc" {
		return false
	}
	return true
}

// ---------------------------------------------------------------- Coq rendering

func cStr(s string) string {
	var sb strings.Builder
	sb.WriteByte('[')
	for i, r := range []rune(s) {
		if i > 0 {
			sb.WriteByte(';')
		}
		sb.WriteString(strconv.Itoa(int(r)))
	}
	sb.WriteByte(']')
	return sb.String()
}

func cStrList(l []string) string {
	xs := make([]string, len(l))
	for i, s := range l {
		xs[i] = cStr(s)
	}
	return "[" + strings.Join(xs, ";") + "]"
}

func cZ(n int) string { return fmt.Sprintf("(%d)%%Z", n) }

func cOptZ(p *int) string {
	if p == nil {
		return "None"
	}
	return "(Some " + cZ(*p) + ")"
}

func cVar(v Var) string {
	switch v.Kind {
	case "unset":
		return "VUnset"
	case "str":
		return "(VStr " + cStr(v.Str) + ")"
	case "idx":
		ix := "None"
		if v.Idx != nil {
			xs := make([]string, len(v.Idx))
			for i, x := range v.Idx {
				xs[i] = cZ(x)
			}
			ix = "(Some [" + strings.Join(xs, ";") + "])"
		}
		return "(VIdx " + cStrList(v.List) + " " + ix + ")"
	case "assoc":
		xs := make([]string, len(v.Keys))
		for i := range v.Keys {
			xs[i] = "(" + cStr(v.Keys[i]) + "," + cStr(v.Vals[i]) + ")"
		}
		return "(VAssoc [" + strings.Join(xs, ";") + "])"
	}
	panic("kind")
}

func cParts(ps []Part) string {
	xs := make([]string, len(ps))
	for i, p := range ps {
		k := map[string]string{"lit": "WLit", "sgl": "WQuo", "dbl": "WQuo", "var": "WLit", "qvar": "WQuo"}[p.K]
		xs[i] = "(" + k + " " + cStr(p.S) + ")"
	}
	return "[" + strings.Join(xs, ";") + "]"
}

var expOpNames = map[string]string{":-": "DefUnsetOrNull", "-": "DefUnset", ":=": "AsgUnsetOrNull", "=": "AsgUnset",
	":?": "ErrUnsetOrNull", "?": "ErrUnset", ":+": "AltUnsetOrNull", "+": "AltUnset",
	"#": "RemSP", "##": "RemLP", "%": "RemSS", "%%": "RemLS", "^": "UpFirst", "^^": "UpAll", ",": "LowFirst", ",,": "LowAll", "@": "OtherOp"}

func cPExp(p PExp) string {
	idx := "INone"
	switch p.Idx {
	case "@":
		idx = "IAt"
	case "*":
		idx = "IStar"
	case "n":
		idx = "(INum " + cZ(p.IdxN) + ")"
	case "k":
		idx = "(IKey " + cStr(p.IdxK) + ")"
	}
	op := "PNone"
	switch p.Op {
	case "len":
		op = "PLength"
	case "excl":
		op = "PExcl"
	case "slice":
		op = "(PSlice " + cOptZ(p.Off) + " " + cOptZ(p.Len) + ")"
	case "repl":
		w := "[]"
		if p.With != nil {
			w = cParts(p.With)
		}
		op = fmt.Sprintf("(PRepl %v %s %s)", p.All, cParts(p.Orig), w)
	case "exp":
		op = "(PExp " + expOpNames[p.ExpOp] + " " + cParts(p.Arg) + ")"
	}
	return "(mkP " + cStr(p.Name) + " " + idx + " " + op + ")"
}

// the environment the code leg serves: v, r, IFS, positional parameters the way interp exposes them
func (c Case) envVars() map[string]expand.Variable {
	m := map[string]expand.Variable{}
	switch c.V.Kind {
	case "str":
		m["v"] = expand.Variable{Set: true, Kind: expand.String, Str: c.V.Str}
	case "idx":
		m["v"] = expand.Variable{Set: true, Kind: expand.Indexed, List: append([]string{}, c.V.List...), Indexes: c.V.Idx}
	case "assoc":
		mm := map[string]string{}
		for i, k := range c.V.Keys {
			mm[k] = c.V.Vals[i]
		}
		m["v"] = expand.Variable{Set: true, Kind: expand.Associative, Map: mm}
	}
	if c.R != nil {
		m["r"] = expand.Variable{Set: true, Kind: expand.String, Str: *c.R}
	}
	if c.IFS != nil {
		m["IFS"] = expand.Variable{Set: true, Kind: expand.String, Str: *c.IFS}
	}
	if c.Params != nil {
		m["@"] = expand.Variable{Set: true, Kind: expand.Indexed, List: append([]string{}, c.Params...)}
		m["*"] = expand.Variable{Set: true, Kind: expand.Indexed, List: append([]string{}, c.Params...)}
		m["#"] = expand.Variable{Set: true, Kind: expand.String, Str: strconv.Itoa(len(c.Params))}
		for i, p := range c.Params {
			m[strconv.Itoa(i+1)] = expand.Variable{Set: true, Kind: expand.String, Str: p}
		}
	}
	m["0"] = expand.Variable{Set: true, Kind: expand.String, Str: "sh0"}
	return m
}

type mapEnv struct {
	m       map[string]expand.Variable
	setName string // name of the last Set call ("" = none)
}

func (e *mapEnv) Get(name string) expand.Variable { return e.m[name] }
func (e *mapEnv) Each(f func(string, expand.Variable) bool) {
	names := make([]string, 0, len(e.m))
	for n := range e.m {
		names = append(names, n)
	}
	sort.Strings(names)
	for _, n := range names {
		if !f(n, e.m[n]) {
			return
		}
	}
}
func (e *mapEnv) Set(name string, vr expand.Variable) error {
	e.setName = name
	if !vr.IsSet() {
		delete(e.m, name)
	} else {
		e.m[name] = vr
	}
	return nil
}

func cGoVar(vr expand.Variable) string {
	if !vr.Set {
		return "VUnset"
	}
	switch vr.Kind {
	case expand.String:
		return "(VStr " + cStr(vr.Str) + ")"
	case expand.Indexed:
		return cVar(Var{Kind: "idx", List: vr.List, Idx: vr.Indexes})
	case expand.Associative:
		v := Var{Kind: "assoc"}
		for k := range vr.Map {
			v.Keys = append(v.Keys, k)
		}
		sort.Strings(v.Keys)
		for _, k := range v.Keys {
			v.Vals = append(v.Vals, vr.Map[k])
		}
		return cVar(v)
	}
	return "VUnset"
}

func cEnv(m map[string]expand.Variable, c Case) string {
	names := make([]string, 0, len(m))
	for n := range m {
		names = append(names, n)
	}
	sort.Strings(names)
	xs := []string{}
	for _, n := range names {
		if n == "v" {
			xs = append(xs, "("+cStr(n)+","+cVar(c.V)+")") // keep the generated key order of an associative array
		} else {
			xs = append(xs, "("+cStr(n)+","+cGoVar(m[n])+")")
		}
	}
	return "[" + strings.Join(xs, ";") + "]"
}

type genRow struct {
	Src   string `json:"src"`
	Fam   string `json:"fam"`
	In    string `json:"coq_in"`  // (env, pexp, quoted)
	Obs   string `json:"coq_obs"` // pres term
	Runes []int    `json:"runes"` // every rune that occurs: [r, upper, lower, ...]
	Quote []string `json:"quote"` // [s, syntax.Quote(s)] Coq terms for every candidate value

}

func observe(c Case) genRow {
	var pv []string
	src := c.wordSrc(&pv)
	row := genRow{Src: src, Fam: c.Fam}
	env := &mapEnv{m: c.envVars()}
	for i, v := range pv {
		env.m["p"+strconv.Itoa(i)] = expand.Variable{Set: true, Kind: expand.String, Str: v}
	}
	before := cEnv(c.envVars(), c)
	row.In = "(" + before + "," + cPExp(c.P) + "," + fmt.Sprint(c.Quoted) + ")"
	var words []*syntax.Word
	p := syntax.NewParser(syntax.Variant(syntax.LangBash))
	for w, err := range p.WordsSeq(strings.NewReader(src)) {
		if err != nil {
			row.Obs = "PARSE:" + err.Error()
			return row
		}
		words = append(words, w)
	}
	if len(words) != 1 {
		row.Obs = "PARSE:words"
		return row
	}
	before_v := env.m["v"]
	var fields []string
	var err error
	cfg := &expand.Config{Env: env}
	if pan, msg := hx.Try(func() { fields, err = expand.Fields(cfg, words...) }); pan {
		row.Obs = "OPanic"
		_ = msg
		return row
	}
	if err != nil {
		switch e := err.(type) {
		case expand.UnsetParameterError:
			row.Obs = "(OErrUnset " + cStr(e.Message) + ")"
		default:
			msg := err.Error()
			if strings.HasSuffix(msg, ": substring expression < 0") {
				msg = "substring expression < 0"
			}
			code := map[string]int{"invalid indirect expansion": 2, "negative array index": 3, "substring expression < 0": 4}[msg]
			if code == 0 {
				row.Obs = "OTHERERR:" + err.Error()
			} else {
				row.Obs = fmt.Sprintf("(OErr %d)", code)
			}
		}
		return row
	}
	upd := "None"
	_ = before_v
	// the expansion must not write into the variables' own lists (aliasing): re-read every list variable
	for name, orig := range c.envVars() {
		if orig.Kind == expand.Indexed && env.setName != name {
			now := env.m[name]
			if cGoVar(now) != cGoVar(orig) {
				upd = "(Some (" + cStr(name) + "," + cGoVar(now) + "))" // the model says None: reported as a mismatch
			}
		}
	}
	if env.setName != "" {
		upd = "(Some (" + cStr(env.setName) + "," + cGoVar(env.m[env.setName]) + "))"
	}
	if fields == nil {
		fields = []string{}
	}
	row.Obs = "(OOk (" + cStrList(fields) + ", " + upd + "))"
	if c.isTransformQ() {
		cands := append(append(append([]string{c.V.Str}, c.V.List...), c.V.Vals...), c.Params...)
		for _, s := range cands {
			if q, err := syntax.Quote(s, syntax.LangBash); err == nil {
				row.Quote = append(row.Quote, cStr(s), cStr(q))
			}
		}
	}
	seen := map[rune]bool{}
	for _, s := range append(append([]string{}, fields...), row.Src, c.V.Str, strings.Join(c.V.List, ""), strings.Join(c.V.Vals, ""), strings.Join(c.Params, ""), strings.Join(pv, "")) {
		for _, r := range s {
			if !seen[r] {
				seen[r] = true
				row.Runes = append(row.Runes, int(r), int(unicode.ToUpper(r)), int(unicode.ToLower(r)))
			}
		}
	}
	return row
}

// ---------------------------------------------------------------- search: interp vs bash

type searchRow struct {
	Script string   `json:"script"`
	Fam    string   `json:"fam"`
	Interp string   `json:"interp"`
	Bash   string   `json:"bash"`
	Fails  []string `json:"fails"`
	Class  string   `json:"class"`
	InMod  bool     `json:"in_model"`
	Expect string   `json:"expect,omitempty"`
}

// pinned witnesses: known findings (expected to differ from bash, attributed to the class by being
// this exact pinned input) and repaired defects (expected to agree with bash; a difference is a violation)
var witnesses = []struct{ Class, Script string }{
	{"default_op_on_list_subject", "set -- a b\nprintf '<%s>' \"${*+x}\""},
	{"default_op_on_list_subject", "v=(a '')\nprintf '<%s>' \"${v[*]:+x}\""},
	{"quoted_default_word_split", "unset v\nprintf '<%s>' ${v-'d e'}"},
	{"quoted_default_word_empty", "v=\nprintf '<%s>' ${v:-\"\"}"},
	{"scalar_list_slice", "v=\nprintf '<%s>' \"${v[@]: -4}\""},
	{"assoc_empty_list_op", "declare -A v=()\nprintf '<%s>' \"${v[*]/*/x}\""},
	{"indirect_invalid_name", "v='b a'\nprintf '<%s>' \"${!v}\""},
	{"unquoted_list_op_null_ifs", "set -- a b\nIFS=\nprintf '<%s>' ${@%c}"},
	{"transform_on_list_subject", "set -- Ab Cd\nprintf '<%s>' \"${@@L}\""},
	{"assoc_slice_ignored", "declare -A v=([k]=x)\nprintf '<%s>' \"${v[@]:3}\""},
	{"list_slice_negative_length", "set -- a b c\nprintf '<%s>' \"${@:1:-1}\""},
	{"negative_index_out_of_range", "v=()\nprintf '<%s>' \"${v[-1]}\""},
	{"assign_positional", "set -- a\nprintf '<%s>' \"${2=x}\""},
	{"case_op_empty_quoted_pattern", "v=ab\nprintf '<%s>' \"${v^^''}\""},
	{"indirect_to_assoc", "declare -A v=([0]=z)\nr=v\nprintf '<%s>' \"${!r}\""},
	{"indexed_keys_of_element", "v=([1]=a [3]=b)\nprintf '<%s>' \"${!v[0]}\""},
	// repaired by fix: commits
	{"", "v='*ab'\nprintf '<%s>' \"${v##\"*\"}\" \"${v#'*'}\""},
	{"", "v='*ab'\np='*'\nprintf '<%s>' \"${v##\"$p\"}\""},
	{"", "v='b\nab'\nprintf '<%s>' \"${v%*b}\""},
	{"", "v=abcabc\nprintf '<%s>' \"${v/#a/Z}\" \"${v/%c/Z}\" \"${v/#b/Z}\" \"${v/#/Z}\" \"${v/%/Z}\" \"${v//#a/Z}\" \"${v/\\#a/Z}\""},
	{"", "v=abab\nx='#a'\nprintf '<%s>' \"${v/$x/Z}\" \"${v/\"$x\"/Z}\""},
	{"", "unset v\nprintf '<%s>' \"${v/*/Z}\" \"${v@Q}\""},
	{"", "v=\nprintf '<%s>' \"${v/*/Z}\" \"${v@Q}\""},
	{"", "v=abc\nprintf '<%s>' \"${v:2:-2}\""},
	{"", "v=abc\nprintf '<%s>' \"${v:0:-4}\""},
	{"", "v=\nprintf '<%s>' \"${v:0:-1}\""},
	{"", "v=abc\nprintf '<%s>' \"${v:5:-1}\" \"${v: -5: -1}\" \"${v:1:-1}\" \"${v: -2:1}\""},
	{"", "declare -A v=([a]=1 [b]=2)\ndeclare -A z=()\nprintf '<%s>' \"${#v[@]}\" \"${#z[@]}\""},
	{"", "v=abc\nprintf '<%s>' \"${v/}\" \"${v//}\""},
	{"", "declare -A v=()\nprintf '<%s>' \"${v[@]}\" \"${!v[@]}\""},
	// pinned regression inputs (ordinary inputs; one or two per mechanism that a seeded change once broke)
	{"", "v=([1]=x [5]=y [9]=z)\nprintf '<%s>' \"${v[@]: -5}\" \"${v[@]: -9:2}\" \"${v[@]:5}\""},
	{"", "v=abc\nprintf '<%s>' \"${v:1:-2}\" \"${v:0:-3}\" \"${v:3:-0}\""},
	{"", "v=(foo bar)\nprintf '<%s>' \"${v[@]^}\" \"${v[@]}\"\nprintf '<%s>' \"${v[@]}\""},
	{"", "set -- foo bar\nprintf '<%s>' \"${@^^}\"\nprintf '<%s>' \"$@\" \"${*,,}\" \"$*\""},
}

func runWitnesses(scratch string) []searchRow {
	srcs := make([]string, len(witnesses))
	sub := make([]bool, len(witnesses))
	for i, w := range witnesses {
		srcs[i] = "set -f\nf() { printf '%s:' \"$#\"; printf '<%s>' \"$@\"; }\n" + strings.ReplaceAll(w.Script, "printf '<%s>' ", "f ") + "\n"
		sub[i] = true
	}
	bres, err := hxbash.Bash(srcs, nil, sub, "set +f; unset v r IFS p x z; set --; BASH_ARGV0=gosh", scratch)
	if err != nil {
		fmt.Fprintln(os.Stderr, "bash:", err)
		os.Exit(3)
	}
	rows := make([]searchRow, len(witnesses))
	for i, w := range witnesses {
		in := hxbash.Interp(srcs[i], scratch)
		io, bo := in.Out, bres[i].Out
		if in.Failed || (in.Out == "" && strings.TrimSpace(in.Err) != "") {
			io = "ERROR"
		}
		if in.Kind == "panic" {
			io = "PANIC " + in.Err
		}
		if bres[i].Failed {
			bo = "ERROR"
		}
		row := searchRow{Script: srcs[i], Fam: "witness", Interp: io, Bash: bo, Expect: "agrees"}
		if w.Class != "" {
			row.Expect = "differs"
		}
		if io != bo {
			row.Fails = []string{"fields_differ_from_bash"}
			row.Class = w.Class
		}
		rows[i] = row
	}
	return rows
}

// documented @Q difference: strings that need no quoting are left unquoted by the interpreter
func normQ(c Case, bash string) string {
	return bash
}

func (c Case) isTransformQ() bool {
	return c.P.Op == "exp" && c.P.ExpOp == "@" && len(c.P.Arg) == 1 && c.P.Arg[0].S == "Q"
}

// stripSimpleQuotes rewrites bash's @Q output 'word' -> word for words that need no quoting
// (the one documented difference), field by field inside <...>.
func stripSimpleQuotes(out string) string {
	var sb strings.Builder
	i := 0
	for i < len(out) {
		if out[i] == '\'' {
			j := strings.IndexByte(out[i+1:], '\'')
			if j > 0 {
				w := out[i+1 : i+1+j]
				plain := true
				for _, r := range w {
					if strings.ContainsRune(";\"'()$|&><` \t\r\n\\#{~*?[=", r) || !unicode.IsPrint(r) {
						plain = false
					}
				}
				switch w {
				case "", "if", "then", "else", "elif", "fi", "for", "while", "until", "do", "done", "case", "esac", "in", "function", "select", "time", "!", "}", "[[", "]]", "coproc":
					plain = false
				}
				if plain {
					sb.WriteString(w)
					i += j + 2
					continue
				}
			}
		}
		sb.WriteByte(out[i])
		i++
	}
	return sb.String()
}

func classify(c Case, in, ba hxbash.Result) string {
	return ""
}

func runSearch(cases []Case, scratch string) []searchRow {
	srcs := make([]string, len(cases))
	for i, c := range cases {
		srcs[i] = c.script()
	}
	sub := make([]bool, len(cases))
	for i, c := range cases {
		// only ${v:?w} / ${v?w} terminate a non-interactive bash; everything else is sourced in the main shell
		sub[i] = c.P.Op == "exp" && (c.P.ExpOp == ":?" || c.P.ExpOp == "?")
	}
	bres, err := hxbash.Bash(srcs, nil, sub, "set +f; unset v r IFS p0 p1 p2 p3 p4 p5; set --; BASH_ARGV0=gosh", scratch)
	if err != nil {
		fmt.Fprintln(os.Stderr, "bash:", err)
		os.Exit(3)
	}
	rows := make([]searchRow, len(cases))
	for i, c := range cases {
		in := hxbash.Interp(srcs[i], scratch)
		ba := bres[i]
		row := searchRow{Script: srcs[i], Fam: c.Fam, InMod: c.inModel()}
		io, bo := in.Out, ba.Out
		if in.Failed || (in.Out == "" && strings.TrimSpace(in.Err) != "") {
			// an expansion error: the interpreter reports it on stderr; whether the status of the
			// command is then non-zero is the runner's business (C26), not compared here
			io = "ERROR"
		}
		if ba.Failed {
			bo = "ERROR"
		}
		if in.Kind == "panic" {
			io = "PANIC " + in.Err
		}
		if in.Kind == "timeout" {
			io = "TIMEOUT"
		}
		if in.Kind == "parse" {
			io = "PARSE " + in.Err
		}
		if c.isTransformQ() {
			bo = stripSimpleQuotes(bo)
			io = stripSimpleQuotes(io)
		}
		row.Interp, row.Bash = io, bo
		if io != bo {
			row.Fails = []string{"fields_differ_from_bash"}
			row.Class = classify(c, in, ba)
		}
		rows[i] = row
	}
	return rows
}

func main() {
	o := hx.ParseArgs()
	defer hx.Flush()
	switch o.Mode {
	case "gen":
		r := hx.Rand(o.Seed, 21)
		n := 0
		// pinned regression inputs for the code leg (every seed)
		sparse := Var{Kind: "idx", List: []string{"x", "y", "z"}, Idx: []int{1, 5, 9}}
		arr := Var{Kind: "idx", List: []string{"foo", "bar"}}
		for _, c := range []Case{
			{V: sparse, P: PExp{Name: "v", Idx: "@", Op: "slice", Off: ip(-5)}, Quoted: true, Fam: "pinned"},
			{V: sparse, P: PExp{Name: "v", Idx: "@", Op: "slice", Off: ip(-9), Len: ip(2)}, Quoted: true, Fam: "pinned"},
			{V: sparse, P: PExp{Name: "v", Idx: "*", Op: "slice", Off: ip(-1)}, Quoted: false, Fam: "pinned"},
			{V: Var{Kind: "str", Str: "abc"}, P: PExp{Name: "v", Op: "slice", Off: ip(1), Len: ip(-2)}, Quoted: true, Fam: "pinned"},
			{V: Var{Kind: "str", Str: "abc"}, P: PExp{Name: "v", Op: "slice", Off: ip(0), Len: ip(-3)}, Quoted: true, Fam: "pinned"},
			{V: arr, P: PExp{Name: "v", Idx: "@", Op: "exp", ExpOp: "^", Arg: []Part{}}, Quoted: true, Fam: "pinned"},
			{V: arr, P: PExp{Name: "v", Idx: "*", Op: "exp", ExpOp: "^^", Arg: []Part{}}, Quoted: false, Fam: "pinned"},
			{V: Var{Kind: "unset"}, Params: []string{"foo", "bar"}, P: PExp{Name: "@", Op: "exp", ExpOp: "^^", Arg: []Part{}}, Quoted: true, Fam: "pinned"},
			{V: arr, P: PExp{Name: "v", Idx: "@", Op: "exp", ExpOp: "#", Arg: []Part{{"lit", "?"}}}, Quoted: true, Fam: "pinned"},
			{V: arr, P: PExp{Name: "v", Idx: "@", Op: "repl", Orig: []Part{{"lit", "o"}}, With: []Part{{"lit", "0"}}, All: true}, Quoted: true, Fam: "pinned"},
		} {
			hx.Emit(observe(c))
		}
		for n < o.N {
			c := genDomCase(r, false)
			if !c.inModel() {
				continue
			}
			hx.Emit(observe(c))
			n++
		}
	case "witness":
		scratch, err := os.MkdirTemp("", "c21w")
		if err != nil {
			panic(err)
		}
		defer os.RemoveAll(scratch)
		for _, row := range runWitnesses(scratch) {
			hx.Emit(row)
		}
	case "search":
		r := hx.Rand(o.Seed, 2100)
		scratch, err := os.MkdirTemp("", "c21s")
		if err != nil {
			panic(err)
		}
		defer os.RemoveAll(scratch)
		var cases []Case
		for i := 0; i < o.N; i++ {
			if o.Tier == "raw" {
				cases = append(cases, genCase(r, true))
			} else {
				cases = append(cases, genDomCase(r, true))
			}
		}
		for _, row := range runSearch(cases, scratch) {
			hx.Emit(row)
		}
	}
}
