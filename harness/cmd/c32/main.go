// c32: concurrent shell features. Built with -race by checks/c32.py. Generated
// programs start background jobs, pipelines, process and command substitutions
// and Runner.Subshell copies that mutate variables (arrays, maps, functions,
// aliases, directory stack) while the parent keeps mutating the same names; the
// CallHandler/ExecHandler of the harness sleep/yield randomly at every command
// (scheduling perturbation that needs no change of the code under test). A race
// report kills the worker (GORACE halt_on_error) and is attributed to the case.
// Mode `wait`: `wait gN` must return job N's status under random completion order.
package main

import (
	"context"
	"encoding/json"
	"fmt"
	"math/rand/v2"
	"os"
	"runtime"
	"strings"
	"sync"
	"time"

	"mvdan.cc/sh/v3/interp"
	"verifharness/hx"
	"verifharness/hxc27"
)

type Out struct {
	ID     int      `json:"id"`
	Mode   string   `json:"mode"`
	Prog   string   `json:"prog"`
	Fails  []string `json:"fails"`
	Class  string   `json:"class"`
	Race   string   `json:"race,omitempty"`
	Hang   bool     `json:"hang,omitempty"`
	Panic  string   `json:"panic,omitempty"`
	Want   string   `json:"want,omitempty"`
	Got    string   `json:"got,omitempty"`
	RaceOn bool     `json:"race_build"`
}

// interleave yields at every command: a short random sleep or a Gosched
var yieldMu sync.Mutex
var yieldRand *rand.Rand

func yield() {
	yieldMu.Lock()
	k := yieldRand.IntN(8)
	yieldMu.Unlock()
	switch k {
	case 0:
		time.Sleep(time.Duration(50+k*37) * time.Microsecond)
	case 1, 2:
		time.Sleep(200 * time.Microsecond)
	case 3:
		time.Sleep(time.Millisecond)
	default:
		runtime.Gosched()
	}
}

func joinYield(ops []hxc27.Op) string {
	// `:` between operations: plain assignments do not reach the CallHandler
	var parts []string
	for _, o := range ops {
		parts = append(parts, hxc27.Render([]hxc27.Op{o}, ""))
	}
	s := strings.Join(parts, "; :; ")
	if s == "" {
		return ":"
	}
	return s
}

func flatOps(g *hxc27.Gen, n int) []hxc27.Op {
	var out []hxc27.Op
	for len(out) < n {
		if g.R.IntN(4) == 0 {
			out = append(out, g.OtherOp())
		} else {
			out = append(out, g.VarOp())
		}
	}
	return out
}

// genProg: concurrent constructs at top level, inside a function body, started
// by a function that returns while they run, or started inside a foreground
// subshell that they outlive; the shell that keeps running assigns the same
// names meanwhile. Jobs also read (a `__snap` walks the whole environment).
func genProg(g *hxc27.Gen, r *rand.Rand) (string, bool) {
	pre := joinYield(flatOps(g, 2+r.IntN(4)))
	place := r.IntN(5) // 0,1 top level; 2 whole thing in a function; 3 started by a function that returns; 4 started in ( )
	var parts, starts, after []string
	n := 1 + r.IntN(3)
	for i := 0; i < n; i++ {
		c := joinYield(flatOps(g, 1+r.IntN(4)))
		if r.IntN(2) == 0 {
			c += fmt.Sprintf("; __snap j%d", i)
		}
		p := joinYield(flatOps(g, 1+r.IntN(3)))
		if place >= 3 {
			// only constructs that do not block the shell that starts them
			if r.IntN(3) == 0 {
				starts = append(starts, ": > >( "+c+" )")
			} else {
				starts = append(starts, "{ "+c+"; } &")
			}
			after = append(after, p)
			continue
		}
		switch r.IntN(6) {
		case 0:
			parts = append(parts, "{ "+c+"; } &", p)
		case 1:
			parts = append(parts, "{ "+c+"; } | { "+p+"; }")
		case 2:
			parts = append(parts, "__drain < <( "+c+" )", p)
		case 3:
			parts = append(parts, ": > >( "+c+" )", p)
		case 4:
			parts = append(parts, "{ : \"$( "+c+" )\"; "+c+"; } &", ": \"$( "+p+" )\"", p)
		default:
			parts = append(parts, "{ { "+c+"; } & "+c+"; wait; } &", p)
		}
	}
	var prog []string
	prog = append(prog, pre)
	switch place {
	case 2:
		loc := "local l=1; local -a la=(x y)"
		prog = append(prog, "w() { "+loc+"\n"+strings.Join(parts, "\n")+"\nl=2; la+=(z)\nwait\n}", "w a b")
	case 3:
		prog = append(prog, "w() { local l=1\n"+strings.Join(starts, "\n")+"\n}", "w a b", strings.Join(after, "\n"), "wait")
	case 4:
		prog = append(prog, "( "+strings.Join(starts, "\n")+"\n)", strings.Join(after, "\n"), "__spin 6")
	default:
		prog = append(prog, strings.Join(parts, "\n"), "wait")
	}
	prog = append(prog, "__snap end")
	return strings.Join(prog, "\n"), false
}

// ---- deterministic visibility check ---------------------------------------------
// A concurrent copy must keep seeing the state it was started with: the shell that
// keeps running changes everything AFTER starting it and only then opens the gate
// the copy waits at. Its snapshot must equal the one taken right before it started.
const visPre = "x=before; arr=(a b); declare -A m=([k]=v); y=1; export e=1; fold() { echo 1; }; fold2() { echo 2; }; alias al=old; set -- p q"
const visAfter = "unset -f fold2; x=after; arr[0]=changed; arr+=(new); m[k]=changed; m[j]=new; unset y; z=new; e=2; fold() { echo 2; }; fnew() { :; }; alias al=new; unalias al; set -- changed; shopt -s extglob"
const visJob = "__gate_wait g; __snap job; __gate_open d"

type visCase struct{ name, prog string }

func visCases(d1 string) []visCase {
	after := visAfter + "; cd " + d1
	sync := "__gate_open g; __gate_wait d"
	var out []visCase
	type con struct {
		name, start string
		blocking    bool
	}
	cons := []con{
		{"bg", "{ " + visJob + "; } &", false},
		{"procout", ": > >( " + visJob + " )", false},
		{"bg_nested", "{ { " + visJob + "; } & wait; } &", false},
		{"bg_cmdsubst", "{ : \"$( " + visJob + " )\"; } &", false},
	}
	for _, c := range cons {
		out = append(out,
			visCase{c.name + "/top", visPre + "\n__snap pre\n" + c.start + "\n" + after + "\n" + sync + "\nwait"},
			visCase{c.name + "/func", visPre + "\nw() { local l=lbefore; local -a la=(x)\n__snap pre\n" + c.start + "\n" + after + "; l=lafter; la+=(y)\n" + sync + "\nwait\n}\nw"},
			visCase{c.name + "/func_returns", visPre + "\nw() { local l=lbefore\n__snap pre\n" + c.start + "\n}\nw\n" + after + "\n" + sync + "\nwait"},
			visCase{c.name + "/nested_func_returns", visPre + "\nw1() { w2() { local l=lbefore\n__snap pre\n" + c.start + "\n}; w2; x=mid; arr+=(mid); }\nw1\n" + after + "\n" + sync + "\nwait"},
			visCase{c.name + "/fg_subshell_outlived", visPre + "\n( __snap pre\n" + c.start + "\n)\n" + after + "\n" + sync},
			visCase{c.name + "/cmdsubst_outlived", visPre + "\n: \"$( __snap pre\n" + c.start + "\n)\"\n" + after + "\n" + sync},
			visCase{c.name + "/func_in_fg_subshell", visPre + "\n( w() { local l=lbefore\n__snap pre\n" + c.start + "\n}; w; " + after + "\n" + sync + "\nwait )"},
		)
	}
	// blocking constructs: the running shell is the other side of the construct
	out = append(out,
		visCase{"pipe/top", visPre + "\n__snap pre\n{ " + visJob + "; } | { " + after + "; " + sync + "; }"},
		visCase{"pipe/func", visPre + "\nw() { local l=lbefore\n__snap pre\n{ " + visJob + "; } | { " + after + "; l=lafter; " + sync + "; }\n}\nw"},
		visCase{"procin/top", visPre + "\n__snap pre\n{ " + after + "; " + sync + "; __drain; } < <( " + visJob + " )"},
		visCase{"procin/func", visPre + "\nw() { local l=lbefore\n__snap pre\n{ " + after + "; l=lafter; " + sync + "; __drain; } < <( " + visJob + " )\n}\nw"},
	)
	return out
}

func sameView(a, b hxc27.Snap) string {
	a.InFunc, b.InFunc = false, false
	ja, _ := json.Marshal(a)
	jb, _ := json.Marshal(b)
	if string(ja) == string(jb) {
		return ""
	}
	var diff []string
	am := map[string]string{}
	for _, v := range a.Vars {
		j, _ := json.Marshal(v)
		am[v.Name] = string(j)
	}
	for _, v := range b.Vars {
		j, _ := json.Marshal(v)
		if am[v.Name] != string(j) {
			diff = append(diff, "var "+hx.UnHex(v.Name))
		}
		delete(am, v.Name)
	}
	for n := range am {
		diff = append(diff, "var "+hx.UnHex(n)+" missing")
	}
	cmp := func(what string, x, y any) {
		jx, _ := json.Marshal(x)
		jy, _ := json.Marshal(y)
		if string(jx) != string(jy) {
			diff = append(diff, what)
		}
	}
	cmp("funcs", a.Funcs, b.Funcs)
	cmp("alias", a.Alias, b.Alias)
	cmp("opts", a.Opts, b.Opts)
	cmp("dir", a.Dir, b.Dir)
	cmp("dirstack", a.DirStack, b.DirStack)
	cmp("params", a.Params, b.Params)
	return strings.Join(diff, ",")
}

// corpusLines reads a pinned corpus file (relative to /verif), skipping comments.
func corpusLines(rel string) []string {
	var out []string
	for _, p := range []string{rel, "/verif/" + rel} {
		b, err := os.ReadFile(p)
		if err != nil {
			continue
		}
		for _, ln := range strings.Split(string(b), "\n") {
			if ln != "" && !strings.HasPrefix(ln, "#") {
				out = append(out, ln)
			}
		}
		break
	}
	return out
}

func main() {
	o := hx.ParseArgs()
	defer hx.Flush()
	if o.Mode == "worker" {
		yieldRand = hx.Rand(uint64(os.Getpid()), 32)
		hxc27.WorkerMain(o.In, yield)
		return
	}
	scratch, dirs := hxc27.MakeScratch("c32_")
	defer os.RemoveAll(scratch)
	pool := &hxc27.Pool{Scratch: scratch, RaceHalt: true}
	defer pool.Close()
	switch o.Mode {
	case "gen":
		r := hx.Rand(o.Seed, 32)
		g := &hxc27.Gen{R: r, Dirs: dirs}
		for i := 0; i < o.N; i++ {
			out := Out{ID: i, Mode: "gen", RaceOn: hxc27.RaceEnabled}
			c := hxc27.Case{ID: i}
			if i%5 == 4 {
				// Runner.Subshell copies used concurrently with their parent
				pre := joinYield(flatOps(g, 2+r.IntN(4)))
				c.Steps = []hxc27.Step{{Src: pre}}
				out.Prog = pre
				for k := 1 + r.IntN(3); k > 0; k-- {
					cs := joinYield(flatOps(g, 2+r.IntN(4)))
					c.Steps = append(c.Steps, hxc27.Step{Src: cs, Sub: true, Async: true})
					out.Prog += "\n### go Subshell(): " + cs
				}
				ps := joinYield(flatOps(g, 2+r.IntN(4)))
				c.Steps = append(c.Steps, hxc27.Step{Src: ps})
				out.Prog += "\n### parent: " + ps
			} else {
				out.Prog, _ = genProg(g, r)
				c.Steps = []hxc27.Step{{Src: out.Prog}}
			}
			res := pool.Run(c)
			out.Hang, out.Panic = res.Hang, ""
			if strings.Contains(res.Panic, "DATA RACE") {
				out.Race = res.Panic
				out.Fails = append(out.Fails, "data_race")
			} else if res.Panic != "" {
				out.Panic = res.Panic
			}
			hx.Emit(out)
		}
	case "vis":
		cases := visCases(dirs[1])
		for i, vc := range cases {
			out := Out{ID: i, Mode: "vis", Prog: vc.prog, Want: vc.name, RaceOn: hxc27.RaceEnabled}
			res := pool.Run(hxc27.Case{ID: i, Steps: []hxc27.Step{{Src: vc.prog}}})
			pre, ok0 := res.Snaps["pre"]
			job, ok1 := res.Snaps["job"]
			switch {
			case strings.Contains(res.Panic, "DATA RACE"):
				out.Race = res.Panic
				out.Fails = append(out.Fails, "data_race")
			case res.Panic != "":
				out.Panic = res.Panic
			case res.Hang || !ok0 || !ok1:
				out.Hang = res.Hang
				out.Fails = append(out.Fails, "vis_case_did_not_complete")
			default:
				if d := sameView(pre, job); d != "" {
					out.Got = d
					out.Fails = append(out.Fails, "job_sees_later_parent_write")
				}
			}
			hx.Emit(out)
		}
		// Runner.Subshell copy run in a goroutine, gated the same way
		{
			i := len(cases)
			prog := visPre + "; __snap pre ### go Subshell(): " + visJob + " ### " + visAfter
			out := Out{ID: i, Mode: "vis", Prog: prog, Want: "api/top", RaceOn: hxc27.RaceEnabled}
			res := pool.Run(hxc27.Case{ID: i, Steps: []hxc27.Step{{Src: visPre + "; __snap pre"}, {Src: visJob, Sub: true, Async: true},
				{Src: visAfter + "; cd " + dirs[1] + "; __gate_open g; __gate_wait d"}}})
			pre, ok0 := res.Snaps["pre"]
			job, ok1 := res.Snaps["job"]
			switch {
			case strings.Contains(res.Panic, "DATA RACE"):
				out.Race = res.Panic
				out.Fails = append(out.Fails, "data_race")
			case res.Panic != "":
				out.Panic = res.Panic
			case res.Hang || !ok0 || !ok1:
				out.Fails = append(out.Fails, "vis_case_did_not_complete")
			default:
				if d := sameView(pre, job); d != "" {
					out.Got = d
					out.Fails = append(out.Fails, "job_sees_later_parent_write")
				}
			}
			hx.Emit(out)
		}
	case "wait":
		// wait gN returns job N's status whatever the completion order
		r := hx.Rand(o.Seed, 3200)
		// pinned regression corpus first (corpus/c32/regress.txt): fixed wait orders
		for k, ln := range corpusLines("corpus/c32/regress.txt") {
			f := strings.SplitN(ln, "\t", 2)
			if len(f) != 2 {
				continue
			}
			out := Out{ID: 100000 + k, Mode: "wait", Prog: strings.ReplaceAll(f[1], "\\n", "\n"), Want: f[0], RaceOn: hxc27.RaceEnabled}
			res := pool.Run(hxc27.Case{ID: out.ID, Steps: []hxc27.Step{{Src: out.Prog}}})
			out.Hang = res.Hang
			out.Got = strings.Join(strings.Fields(hx.UnHex(res.Out)), " ")
			switch {
			case strings.Contains(res.Panic, "DATA RACE"):
				out.Race = res.Panic
				out.Fails = append(out.Fails, "data_race")
			case res.Panic != "":
				out.Panic = res.Panic
			case res.Hang:
				out.Fails = append(out.Fails, "wait_hangs")
			case out.Got != out.Want:
				out.Fails = append(out.Fails, "wait_wrong_status")
			}
			hx.Emit(out)
		}
		for i := 0; i < o.N; i++ {
			n := 2 + r.IntN(4)
			var sb strings.Builder
			var want []string
			st := make([]int, n)
			for j := 0; j < n; j++ {
				st[j] = r.IntN(200)
				fmt.Fprintf(&sb, "{ __spin %d; :; exit %d; } &\n", r.IntN(4), st[j])
			}
			order := r.Perm(n)
			for _, j := range order {
				fmt.Fprintf(&sb, "wait g%d; echo \"$?\"\n", j+1)
				want = append(want, fmt.Sprint(st[j]))
			}
			// waiting again for a finished job returns the same status; an unknown job is an error
			j := r.IntN(n)
			fmt.Fprintf(&sb, "wait g%d; echo \"$?\"\nwait g%d 2>/dev/null; echo \"$?\"\n", j+1, n+1+r.IntN(3))
			want = append(want, fmt.Sprint(st[j]), "1")
			out := Out{ID: i, Mode: "wait", Prog: sb.String(), RaceOn: hxc27.RaceEnabled}
			res := pool.Run(hxc27.Case{ID: i, Steps: []hxc27.Step{{Src: out.Prog}}})
			out.Hang = res.Hang
			out.Want = strings.Join(want, " ")
			out.Got = strings.Join(strings.Fields(hx.UnHex(res.Out)), " ")
			switch {
			case strings.Contains(res.Panic, "DATA RACE"):
				out.Race = res.Panic
				out.Fails = append(out.Fails, "data_race")
			case res.Panic != "":
				out.Panic = res.Panic
			case res.Hang:
				out.Fails = append(out.Fails, "wait_hangs")
			case out.Got != out.Want:
				out.Fails = append(out.Fails, "wait_wrong_status")
			}
			hx.Emit(out)
		}
	default:
		fmt.Fprintln(os.Stderr, "unknown mode")
		os.Exit(2)
	}
	_ = context.Background
	_ = interp.IsBuiltin
}
