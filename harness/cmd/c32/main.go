// c32: concurrent shell features. Built with -race by checks/c32.py. Generated
// programs start background jobs, pipelines, process and command substitutions
// and Runner.Subshell copies that mutate variables (arrays, maps, functions,
// aliases, directory stack) while the parent keeps mutating the same names; the
// CallHandler/ExecHandler of the harness sleep/yield randomly at every command
// (scheduling perturbation that needs no change of the code under test). A race
// report kills the worker (GORACE halt_on_error) and is attributed to the case.
// Mode `wait`: `wait gN` must return job N's status under random completion order.
package main

import (
	"context"
	"fmt"
	"math/rand/v2"
	"os"
	"runtime"
	"strings"
	"sync"
	"time"

	"mvdan.cc/sh/v3/interp"
	"verifharness/hx"
	"verifharness/hxc27"
)

type Out struct {
	ID     int      `json:"id"`
	Mode   string   `json:"mode"`
	Prog   string   `json:"prog"`
	Fails  []string `json:"fails"`
	Class  string   `json:"class"`
	Race   string   `json:"race,omitempty"`
	Hang   bool     `json:"hang,omitempty"`
	Panic  string   `json:"panic,omitempty"`
	Want   string   `json:"want,omitempty"`
	Got    string   `json:"got,omitempty"`
	RaceOn bool     `json:"race_build"`
}

// interleave yields at every command: a short random sleep or a Gosched
var yieldMu sync.Mutex
var yieldRand *rand.Rand

func yield() {
	yieldMu.Lock()
	k := yieldRand.IntN(8)
	yieldMu.Unlock()
	switch k {
	case 0:
		time.Sleep(time.Duration(50+k*37) * time.Microsecond)
	case 1, 2:
		time.Sleep(200 * time.Microsecond)
	case 3:
		time.Sleep(time.Millisecond)
	default:
		runtime.Gosched()
	}
}

func joinYield(ops []hxc27.Op) string {
	// `:` between operations: plain assignments do not reach the CallHandler
	var parts []string
	for _, o := range ops {
		parts = append(parts, hxc27.Render([]hxc27.Op{o}, ""))
	}
	s := strings.Join(parts, "; :; ")
	if s == "" {
		return ":"
	}
	return s
}

func flatOps(g *hxc27.Gen, n int) []hxc27.Op {
	var out []hxc27.Op
	for len(out) < n {
		if g.R.IntN(4) == 0 {
			out = append(out, g.OtherOp())
		} else {
			out = append(out, g.VarOp())
		}
	}
	return out
}

func genProg(g *hxc27.Gen, r *rand.Rand) (string, bool) {
	pre := joinYield(flatOps(g, 2+r.IntN(4)))
	var parts []string
	parts = append(parts, pre)
	api := false
	n := 1 + r.IntN(3)
	for i := 0; i < n; i++ {
		c := joinYield(flatOps(g, 1+r.IntN(4)))
		p := joinYield(flatOps(g, 1+r.IntN(3)))
		switch r.IntN(6) {
		case 0:
			parts = append(parts, "{ "+c+"; } &", p)
		case 1:
			parts = append(parts, "{ "+c+"; } | { "+p+"; }")
		case 2:
			parts = append(parts, "__drain < <( "+c+" )", p)
		case 3:
			parts = append(parts, ": > >( "+c+" )", p)
		case 4:
			parts = append(parts, "{ : \"$( "+c+" )\"; "+c+"; } &", ": \"$( "+p+" )\"", p)
		default:
			parts = append(parts, "{ { "+c+"; } & "+c+"; wait; } &", p)
		}
	}
	parts = append(parts, "wait", "__snap end")
	return strings.Join(parts, "\n"), api
}

func main() {
	o := hx.ParseArgs()
	defer hx.Flush()
	if o.Mode == "worker" {
		yieldRand = hx.Rand(uint64(os.Getpid()), 32)
		hxc27.WorkerMain(o.In, yield)
		return
	}
	scratch, dirs := hxc27.MakeScratch("c32_")
	defer os.RemoveAll(scratch)
	pool := &hxc27.Pool{Scratch: scratch, RaceHalt: true}
	defer pool.Close()
	switch o.Mode {
	case "gen":
		r := hx.Rand(o.Seed, 32)
		g := &hxc27.Gen{R: r, Dirs: dirs}
		for i := 0; i < o.N; i++ {
			out := Out{ID: i, Mode: "gen", RaceOn: hxc27.RaceEnabled}
			c := hxc27.Case{ID: i}
			if i%5 == 4 {
				// Runner.Subshell copies used concurrently with their parent
				pre := joinYield(flatOps(g, 2+r.IntN(4)))
				c.Steps = []hxc27.Step{{Src: pre}}
				out.Prog = pre
				for k := 1 + r.IntN(3); k > 0; k-- {
					cs := joinYield(flatOps(g, 2+r.IntN(4)))
					c.Steps = append(c.Steps, hxc27.Step{Src: cs, Sub: true, Async: true})
					out.Prog += "\n### go Subshell(): " + cs
				}
				ps := joinYield(flatOps(g, 2+r.IntN(4)))
				c.Steps = append(c.Steps, hxc27.Step{Src: ps})
				out.Prog += "\n### parent: " + ps
			} else {
				out.Prog, _ = genProg(g, r)
				c.Steps = []hxc27.Step{{Src: out.Prog}}
			}
			res := pool.Run(c)
			out.Hang, out.Panic = res.Hang, ""
			if strings.Contains(res.Panic, "DATA RACE") {
				out.Race = res.Panic
				out.Fails = append(out.Fails, "data_race")
			} else if res.Panic != "" {
				out.Panic = res.Panic
			}
			hx.Emit(out)
		}
	case "wait":
		// wait gN returns job N's status whatever the completion order
		r := hx.Rand(o.Seed, 3200)
		for i := 0; i < o.N; i++ {
			n := 2 + r.IntN(4)
			var sb strings.Builder
			var want []string
			st := make([]int, n)
			for j := 0; j < n; j++ {
				st[j] = r.IntN(200)
				fmt.Fprintf(&sb, "{ __spin %d; :; exit %d; } &\n", r.IntN(4), st[j])
			}
			order := r.Perm(n)
			for _, j := range order {
				fmt.Fprintf(&sb, "wait g%d; echo \"$?\"\n", j+1)
				want = append(want, fmt.Sprint(st[j]))
			}
			// waiting again for a finished job returns the same status; an unknown job is an error
			j := r.IntN(n)
			fmt.Fprintf(&sb, "wait g%d; echo \"$?\"\nwait g%d 2>/dev/null; echo \"$?\"\n", j+1, n+1+r.IntN(3))
			want = append(want, fmt.Sprint(st[j]), "1")
			out := Out{ID: i, Mode: "wait", Prog: sb.String(), RaceOn: hxc27.RaceEnabled}
			res := pool.Run(hxc27.Case{ID: i, Steps: []hxc27.Step{{Src: out.Prog}}})
			out.Hang = res.Hang
			out.Want = strings.Join(want, " ")
			out.Got = strings.Join(strings.Fields(hx.UnHex(res.Out)), " ")
			switch {
			case strings.Contains(res.Panic, "DATA RACE"):
				out.Race = res.Panic
				out.Fails = append(out.Fails, "data_race")
			case res.Panic != "":
				out.Panic = res.Panic
			case res.Hang:
				out.Fails = append(out.Fails, "wait_hangs")
			case out.Got != out.Want:
				out.Fails = append(out.Fails, "wait_wrong_status")
			}
			hx.Emit(out)
		}
	default:
		fmt.Fprintln(os.Stderr, "unknown mode")
		os.Exit(2)
	}
	_ = context.Background
	_ = interp.IsBuiltin
}
