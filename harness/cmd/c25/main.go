// c25: shell.Expand and shell.Fields.
//
//	gen     code leg: shell.Expand / shell.Fields on generated strings x environments (empty = unset);
//	        emits Coq terms of the input and of the Go result
//	search  the same API results vs real bash 5.2: here-document text for Expand
//	        (read -r -d '' <<EOF), `f ARGS` with set -f for Fields
package main

import (
	"fmt"
	"math/rand/v2"
	"os"
	"strconv"
	"strings"

	"mvdan.cc/sh/v3/shell"
	"verifharness/hx"
	"verifharness/hxbash"
)

var toksModel = []string{"a", "b", "ab", " ", "  ", "\t", "$x", "$y", "$z", "${x}", "${y}", "$x_", "'q r'", "'$x'", "''", "\"\"", "\"d $x e\"", "\"$y\"", "\"${z}\"",
	"\\$", "\\\\", "\\a", "\\\"", "\\ ", "~", "~/p", "$", "é", "-", ".", "/", ":", "\"\\$x\\a\\\"\"", "\"$\"", "x", "_"}
var toksWide = []string{"{a,b}", "$((1+2))", "${x:-d}", "${#x}", "*", "?", "a=b", "#c", "${z:+w}", "{1..3}", "$'t'", "\"~\"", "a{b,c}d", "$((2*3))", "\\~", "[", "!", "${x%b}", "${y-d}", "${z+w}", "\"${y-d}\""}
var toksBad = []string{"\"", "'", "${x", "${", "${x!}", "\"a", "'b", "${x "}

type Env map[string]string

var vals = []string{"", "", "v", "a b", " p  q ", "*", "é", "a\tb", "x y z", "-n"}

func genEnv(r *rand.Rand) Env {
	return Env{"x": hx.Pick(r, vals), "y": hx.Pick(r, vals), "z": hx.Pick(r, vals), "x_": hx.Pick(r, vals), "HOME": "/h"}
}

func genStr(r *rand.Rand, wide bool, doc bool) (string, bool) {
	n := 1 + r.IntN(6)
	var sb strings.Builder
	bad := false
	for i := 0; i < n; i++ {
		switch k := r.IntN(20); {
		case k == 0 && wide:
			sb.WriteString(hx.Pick(r, toksBad))
			bad = true
		case k < 4 && wide:
			sb.WriteString(hx.Pick(r, toksWide))
		case k == 4 && doc:
			sb.WriteString("\n")
		default:
			sb.WriteString(hx.Pick(r, toksModel))
		}
	}
	return sb.String(), bad
}

func cStr(s string) string {
	var sb strings.Builder
	sb.WriteByte('[')
	for i, r := range []rune(s) {
		if i > 0 {
			sb.WriteByte(';')
		}
		sb.WriteString(strconv.Itoa(int(r)))
	}
	sb.WriteByte(']')
	return sb.String()
}

func cStrs(l []string) string {
	xs := make([]string, len(l))
	for i, s := range l {
		xs[i] = cStr(s)
	}
	return "[" + strings.Join(xs, ";") + "]"
}

func cEnv(e Env) string {
	var xs []string
	for _, k := range []string{"HOME", "x", "x_", "y", "z"} {
		xs = append(xs, "("+cStr(k)+","+cStr(e[k])+")")
	}
	return "[" + strings.Join(xs, ";") + "]"
}

type genRow struct {
	S      string `json:"s"`
	In     string `json:"coq_in"`
	Fields string `json:"coq_fields"`
	Expand string `json:"coq_expand"`
}

func observe(s string, e Env) genRow {
	row := genRow{S: s, In: "(" + cEnv(e) + "," + cStr(s) + ")"}
	envf := func(n string) string { return e[n] }
	var f []string
	var err error
	if pan, _ := hx.Try(func() { f, err = shell.Fields(s, envf) }); pan {
		row.Fields = "PANIC"
	} else if err != nil {
		row.Fields = "SErr"
	} else {
		if f == nil {
			f = []string{}
		}
		row.Fields = "(SOk " + cStrs(f) + ")"
	}
	var x string
	if pan, _ := hx.Try(func() { x, err = shell.Expand(s, envf) }); pan {
		row.Expand = "PANIC"
	} else if err != nil {
		row.Expand = "EErr"
	} else {
		row.Expand = "(EOk " + cStr(x) + ")"
	}
	return row
}

type searchRow struct {
	Kind   string   `json:"kind"`
	S      string   `json:"s"`
	Env    Env      `json:"env"`
	Go     string   `json:"go"`
	Bash   string   `json:"bash"`
	Fails  []string `json:"fails"`
	Class  string   `json:"class"`
	Expect string   `json:"expect,omitempty"`
}

func envSetup(e Env) string {
	var sb strings.Builder
	sb.WriteString("unset x y z x_\n")
	for _, k := range []string{"x", "y", "z", "x_", "HOME"} {
		if e[k] != "" { // empty means unset
			sb.WriteString(k + "=" + hxbash.SQ(e[k]) + "\n")
		}
	}
	return sb.String()
}

func fieldsScript(s string, e Env) string {
	return envSetup(e) + "set -f\nf() { printf '%s:' \"$#\"; printf '<%s>' \"$@\"; }\nf " + s + "\n"
}

func expandScript(s string, e Env) string {
	// the text as here-document body; read keeps it byte for byte (the final newline belongs to the here-document)
	return envSetup(e) + "IFS= read -r -d '' out <<__EOF__\n" + s + "\n__EOF__\nprintf '%s' \"$out\"\n"
}

type scase struct {
	kind, s string
	e       Env
	class   string
	pinned  bool
}

// sampling domain: classes of inputs with a known difference are kept out of the random stream
func inDomain(kind, s string, e Env) bool {
	// special parameters ($$ $? $- $1 ...) are not part of the env function
	for i := 0; i+1 < len(s); i++ {
		if s[i] == '$' && strings.IndexByte("$?!#@*-0123456789", s[i+1]) >= 0 {
			return false
		}
	}
	// bash 5.2 does not field-split a word that contains a lone unquoted $ (x='a b'; f $x$ gives one field);
	// the search stays away from it (kept in the model and the code leg)
	if kind == "fields" {
		for i := 0; i < len(s); i++ {
			if s[i] == '\\' {
				i++
				continue
			}
			if s[i] == '$' && (i+1 == len(s) || !(s[i+1] == '_' || s[i+1] == '{' || s[i+1] == '(' || s[i+1] == '\'' || s[i+1] == '"' || s[i+1] >= 'a' && s[i+1] <= 'z' || s[i+1] >= 'A' && s[i+1] <= 'Z')) {
				return false
			}
		}
	}
	// $_ is a special variable of bash; "~:" is expanded by bash (tilde prefix before a colon), not by the API
	for i := 0; i < len(s); i++ {
		if s[i] == '~' && (i == 0 || s[i-1] == ' ' || s[i-1] == '\t') && i+1 < len(s) && !strings.ContainsRune("/ \t\"'$\\", rune(s[i+1])) && kind == "fields" {
			return false // ~user ~- ~+ ~: are outside the API's tilde expansion (HOME only)
		}
	}
	if strings.Contains(s, "~:") {
		return false
	}
	for i := 0; i+1 < len(s); i++ {
		if s[i] == '$' && s[i+1] == '_' && (i+2 == len(s) || !(s[i+2] == '_' || s[i+2] >= 'a' && s[i+2] <= 'z' || s[i+2] >= 'A' && s[i+2] <= 'Z' || s[i+2] >= '0' && s[i+2] <= '9')) {
			return false
		}
	}
	// a trailing backslash would continue the line of the bash script
	n := 0
	for i := len(s) - 1; i >= 0 && s[i] == '\\'; i-- {
		n++
	}
	if n%2 == 1 {
		return false
	}
	// class brace_after_param_name: bash expands braces textually first, so $y{a,b} reads $ya $yb
	for i := 0; i < len(s); i++ {
		if s[i] == '$' {
			j := i + 1
			for j < len(s) && (s[j] == '_' || s[j] >= 'a' && s[j] <= 'z' || s[j] >= 'A' && s[j] <= 'Z' || s[j] >= '0' && s[j] <= '9') {
				j++
			}
			if j > i+1 && j < len(s) && s[j] == '{' && kind == "fields" {
				return false
			}
		}
	}
	return true
}

var witnesses = []scase{
	{kind: "fields", s: "$y{a,b}", e: Env{"y": "v", "HOME": "/h"}, class: "brace_after_param_name", pinned: true},
	// pinned regression inputs (ordinary inputs; one or two per mechanism that a seeded change once broke)
	{kind: "fields", s: "$((1 ^ 3 & 2)) $((6 & 3 ^ 5)) $((1 | 2 ^ 3 & 1))", e: Env{"HOME": "/h"}, pinned: true},
	{kind: "expand", s: "$((1 ^ 3 & 2)) $((6 & 3 ^ 5))", e: Env{"HOME": "/h"}, pinned: true},
	{kind: "fields", s: "${x//#/X} ${x//%a/Y} ${x/#/B} ${x/%/E}", e: Env{"x": "#a#", "HOME": "/h"}, pinned: true},
	{kind: "expand", s: "${x//#/X} ${x//%a/Y}", e: Env{"x": "#a#", "HOME": "/h"}, pinned: true},
	{kind: "fields", s: "\\~ \\~/x ~\\/z ~ ~/x a~ \"~\"", e: Env{"HOME": "/h"}, pinned: true},
}

func runSearch(cases []scase, scratch string) []searchRow {
	srcs := make([]string, len(cases))
	sub := make([]bool, len(cases))
	for i, c := range cases {
		if c.kind == "fields" {
			srcs[i] = fieldsScript(c.s, c.e)
		} else {
			srcs[i] = expandScript(c.s, c.e)
		}
	}
	bres, err := hxbash.Bash(srcs, nil, sub, "set +f; unset x y z x_ out IFS; HOME=/h", scratch)
	if err != nil {
		fmt.Fprintln(os.Stderr, "bash:", err)
		os.Exit(3)
	}
	rows := make([]searchRow, len(cases))
	for i, c := range cases {
		envf := func(n string) string { return c.e[n] }
		var g string
		if c.kind == "fields" {
			var f []string
			var err error
			if pan, msg := hx.Try(func() { f, err = shell.Fields(c.s, envf) }); pan {
				g = "PANIC " + msg
			} else if err != nil {
				g = "ERROR"
			} else {
				g = strconv.Itoa(len(f)) + ":"
				for _, x := range f {
					g += "<" + x + ">"
				}
				if len(f) == 0 {
					g += "<>"
				}
			}
		} else {
			var x string
			var err error
			if pan, msg := hx.Try(func() { x, err = shell.Expand(c.s, envf) }); pan {
				g = "PANIC " + msg
			} else if err != nil {
				g = "ERROR"
			} else {
				g = x + "\n"
			}
		}
		b := bres[i].Out
		if bres[i].Failed || (c.kind == "expand" && b == "") {
			// a here-document that cannot be expanded leaves $out empty; a successful one ends in a newline
			b = "ERROR"
		}
		row := searchRow{Kind: c.kind, S: c.s, Env: c.e, Go: g, Bash: b}
		if c.pinned {
			row.Expect = "agrees"
			if c.class != "" {
				row.Expect = "differs"
			}
		}
		if g != b {
			row.Fails = []string{c.kind + "_differs_from_bash"}
			row.Class = c.class
		}
		rows[i] = row
	}
	return rows
}

func main() {
	o := hx.ParseArgs()
	defer hx.Flush()
	switch o.Mode {
	case "gen":
		r := hx.Rand(o.Seed, 25)
		// pinned regression inputs for the code leg (every seed)
		for _, s := range []string{"\\~ \\~/x ~\\/z ~ ~/x a~ \"~\"", "~/p \"$x\"$x '' $y", "$x\\$\\a${x}\""} {
			hx.Emit(observe(s, Env{"x": "a b", "HOME": "/h"}))
		}
		for i := 0; i < o.N; i++ {
			s, _ := genStr(r, false, i%3 == 0)
			if i%11 == 0 { // the malformed stream: unclosed quotes and ${
				s += hx.Pick(r, []string{"\"", "'", "${x", "\"$x", "${", "'a", "\"\\"})
			}
			hx.Emit(observe(s, genEnv(r)))
		}
	case "search", "witness":
		scratch, err := os.MkdirTemp("", "c25s")
		if err != nil {
			panic(err)
		}
		defer os.RemoveAll(scratch)
		var cases []scase
		if o.Mode == "witness" {
			cases = witnesses
		} else {
			r := hx.Rand(o.Seed, 2500)
			for len(cases) < o.N {
				kind := "fields"
				if r.IntN(3) == 0 {
					kind = "expand"
				}
				s, _ := genStr(r, true, kind == "expand")
				e := genEnv(r)
				if o.Tier != "raw" && !inDomain(kind, s, e) {
					continue
				}
				cases = append(cases, scase{kind: kind, s: s, e: e})
			}
		}
		for _, row := range runSearch(cases, scratch) {
			hx.Emit(row)
		}
	}
}
