// c33: indexed (sparse) arrays.
//
//	prim   code leg 1: internal.SetIndexedElem / DeleteIndexedElem / CanonicalIndexes / IndexedMax,
//	       Variable.indexedVal / indexedKeys and sliceElems (through expand.Fields) on generated
//	       representations, well-formed and malformed (unsorted / wrong-length Indexes), panic-safe.
//	hist   code leg 2: random operation histories run statement by statement in an interp.Runner;
//	       after every step the stored expand.Variable (Kind, Str, List, Indexes incl. nil-ness) and
//	       the result of a few expansions over it are dumped.  The check compares with the Coq model.
//	shell  search: the same kind of histories as shell programs (top level, function, subshell,
//	       command substitution, two arrays), run in-process by interp (context timeout) with the
//	       output the Go-side reference map predicts; the check runs the programs in bash 5.2.
//	kf     the pinned witnesses of the known findings.
package main

import (
	"bytes"
	"context"
	"fmt"
	"math/rand/v2"
	"os"
	"sort"
	"strconv"
	"strings"
	"time"

	"mvdan.cc/sh/v3/expand"
	"mvdan.cc/sh/v3/interp"
	"mvdan.cc/sh/v3/syntax"
	"verifharness/hx"
)

// ---------------------------------------------------------------- operations

type elem struct {
	HasIdx bool   `json:"i"`
	K      int    `json:"k"`
	V      string `json:"v"` // hex in JSON output (see opJSON)
}

type op struct {
	Kind  string // setelem appelem unsetelem assignarr appendarr assignstr appendstr unsetall default
	K     int
	V     string
	Es    []elem
	Colon bool
	X     string // subscript as written when it is an arithmetic expression over i, j, k ("" = the literal K)
	Pre   string // statements that set index variables, run before the operation
}

type opJSON struct {
	Kind  string `json:"kind"`
	K     int    `json:"k"`
	V     string `json:"v"`
	Es    []elem `json:"es,omitempty"`
	Colon bool   `json:"colon,omitempty"`
}

func (o op) json() opJSON {
	j := opJSON{Kind: o.Kind, K: o.K, V: hx.Hex(o.V), Colon: o.Colon}
	for _, e := range o.Es {
		j.Es = append(j.Es, elem{e.HasIdx, e.K, hx.Hex(e.V)})
	}
	return j
}

func sq(s string) string { return "'" + s + "'" } // values never contain a single quote

func (o op) sub() string {
	if o.X != "" {
		return o.X
	}
	return strconv.Itoa(o.K)
}

func (o op) stmt(nm string) string {
	if o.Pre != "" {
		p := o
		p.Pre = ""
		return o.Pre + "; " + p.stmt(nm)
	}
	es := func() string {
		var parts []string
		for _, e := range o.Es {
			if e.HasIdx {
				parts = append(parts, fmt.Sprintf("[%d]=%s", e.K, sq(e.V)))
			} else {
				parts = append(parts, sq(e.V))
			}
		}
		return strings.Join(parts, " ")
	}
	switch o.Kind {
	case "setelem":
		return fmt.Sprintf("%s[%s]=%s", nm, o.sub(), sq(o.V))
	case "appelem":
		return fmt.Sprintf("%s[%s]+=%s", nm, o.sub(), sq(o.V))
	case "unsetelem":
		return fmt.Sprintf("unset '%s[%s]'", nm, o.sub())
	case "assignarr":
		return fmt.Sprintf("%s=(%s)", nm, es())
	case "appendarr":
		return fmt.Sprintf("%s+=(%s)", nm, es())
	case "assignstr":
		return fmt.Sprintf("%s=%s", nm, sq(o.V))
	case "appendstr":
		return fmt.Sprintf("%s+=%s", nm, sq(o.V))
	case "unsetall":
		return "unset " + nm
	case "default":
		c := ""
		if o.Colon {
			c = ":"
		}
		return fmt.Sprintf(": \"${%s[%d]%s=%s}\"", nm, o.K, c, o.V)
	}
	panic("bad op " + o.Kind)
}

// ---------------------------------------------------------------- Go-side reference map (bash's rules)

type ref struct {
	kind int // 0 unset, 1 string, 2 array
	str  string
	m    map[int]string
}

func (r ref) clone() ref {
	c := ref{kind: r.kind, str: r.str, m: map[int]string{}}
	for k, v := range r.m {
		c.m[k] = v
	}
	return c
}

func (r ref) base() map[int]string {
	m := map[int]string{}
	switch r.kind {
	case 1:
		m[0] = r.str
	case 2:
		for k, v := range r.m {
			m[k] = v
		}
	}
	return m
}

func maxKey(m map[int]string) int {
	mx := -1
	for k := range m {
		if k > mx {
			mx = k
		}
	}
	return mx
}

func keysOf(m map[int]string) []int {
	ks := make([]int, 0, len(m))
	for k := range m {
		ks = append(ks, k)
	}
	sort.Ints(ks)
	return ks
}

func resolve(m map[int]string, k int) (int, bool) {
	if k < 0 {
		k += maxKey(m) + 1
		if k < 0 {
			return 0, false
		}
	}
	return k, true
}

// apply returns the new reference value and whether bash reports an error for the operation
// (the value is then what bash leaves behind).
func (r ref) apply(o op) (ref, bool) {
	n := r.clone()
	assign := func(m map[int]string) (map[int]string, bool) {
		idx := maxKey(m) + 1
		for _, e := range o.Es {
			if e.HasIdx {
				k, ok := resolve(m, e.K)
				if !ok {
					return m, true
				}
				idx = k
			}
			m[idx] = e.V
			idx++
		}
		return m, false
	}
	switch o.Kind {
	case "setelem", "appelem":
		m := r.base()
		k, ok := resolve(m, o.K)
		if !ok {
			return r, true
		}
		if o.Kind == "appelem" {
			m[k] = m[k] + o.V
		} else {
			m[k] = o.V
		}
		return ref{kind: 2, m: m}, false
	case "unsetelem":
		switch r.kind {
		case 0:
			return r, false
		case 1:
			if o.K == 0 {
				return ref{m: map[int]string{}}, false
			}
			return r, true
		}
		k, ok := resolve(n.m, o.K)
		if !ok {
			return r, true
		}
		delete(n.m, k)
		return n, false
	case "assignarr":
		m, e := assign(map[int]string{})
		return ref{kind: 2, m: m}, e
	case "appendarr":
		m, e := assign(r.base())
		return ref{kind: 2, m: m}, e
	case "assignstr":
		if r.kind == 2 {
			n.m[0] = o.V
			return n, false
		}
		return ref{kind: 1, str: o.V, m: map[int]string{}}, false
	case "appendstr":
		if r.kind == 2 {
			n.m[0] += o.V
			return n, false
		}
		return ref{kind: 1, str: r.str + o.V, m: map[int]string{}}, false
	case "unsetall":
		return ref{m: map[int]string{}}, false
	case "default":
		m := r.base()
		k, ok := resolve(map[int]string(r.m), o.K)
		if r.kind != 2 && o.K < 0 {
			ok = false
		}
		if !ok {
			return r, true
		}
		cur, set := m[k]
		if !set || (o.Colon && cur == "") {
			m[k] = o.V
			return ref{kind: 2, m: m}, false
		}
		return r, false
	}
	panic("bad op")
}

// ---------------------------------------------------------------- generators

var vals = []string{"p", "q", "r", "s", "", "x y", "zz", "*", "7"}
var dvals = []string{"p", "q", "d", "", "x y"} // values usable inside "${a[k]=v}"

func genIndex(r *rand.Rand, cur ref, allowBad bool) int {
	m := cur.base()
	mx := maxKey(m)
	switch r.IntN(12) {
	case 0, 1, 2, 3:
		return r.IntN(6)
	case 4:
		return mx + 1
	case 5:
		return mx + 2 + r.IntN(3)
	case 6:
		return 8 + r.IntN(30)
	case 7, 8:
		// negative, in range
		if mx >= 0 {
			return -1 - r.IntN(mx+1)
		}
		if allowBad {
			return -1
		}
		return 0
	case 9:
		if allowBad {
			return -(mx + 2 + r.IntN(3))
		}
		return r.IntN(4)
	default:
		ks := keysOf(m)
		if len(ks) > 0 {
			return ks[r.IntN(len(ks))]
		}
		return r.IntN(3)
	}
}

func genElems(r *rand.Rand, cur ref, allowBad bool) []elem {
	n := r.IntN(5)
	if r.IntN(10) == 0 {
		n = 5 + r.IntN(4)
	}
	es := make([]elem, n)
	// indices inside a compound assignment are resolved against the array being built, so
	// only non-negative explicit indices are generated unless errors are allowed
	for i := range es {
		es[i].V = hx.Pick(r, vals)
		if r.IntN(3) == 0 {
			es[i].HasIdx = true
			es[i].K = r.IntN(9)
			if r.IntN(6) == 0 {
				es[i].K = 10 + r.IntN(20)
			}
			if allowBad && r.IntN(8) == 0 {
				es[i].K = -1 - r.IntN(4)
			}
		}
	}
	return es
}

// ---- subscripts with side effects: arithmetic expressions over the index variables i, j, k.
// bash evaluates the subscript of a[..]=v, a[..]+=v, unset 'a[..]' and ${a[..]} exactly once.

type ivars [3]int

var ivNames = [3]string{"i", "j", "k"}

const ivInit = "i=0; j=2; k=5"

func ivStart() ivars { return ivars{0, 2, 5} }

func (iv ivars) String() string { return fmt.Sprintf("%d,%d,%d", iv[0], iv[1], iv[2]) }

// genIdxExpr returns an expression, its value, and the variables after evaluating it once.
func genIdxExpr(r *rand.Rand, iv ivars) (string, int, ivars) {
	x := r.IntN(3)
	n := ivNames[x]
	v := iv[x]
	switch r.IntN(11) {
	case 0, 1:
		iv[x] = v + 1
		return n + "++", v, iv
	case 2:
		iv[x] = v + 1
		return "++" + n, v + 1, iv
	case 3:
		iv[x] = v - 1
		return n + "--", v, iv
	case 4:
		iv[x] = v - 1
		return "--" + n, v - 1, iv
	case 5:
		iv[x] = v + 2
		return n + "+=2", v + 2, iv
	case 6:
		iv[x] = v - 3
		return n + "-=3", v - 3, iv
	case 7:
		iv[x] = v + 1
		return n + "=" + n + "+1", v + 1, iv
	case 8:
		y := r.IntN(3)
		iv[x] = iv[y] + 1
		return n + "=" + ivNames[y] + "+1", iv[x], iv
	case 9:
		return n, v, iv
	default:
		return n + "+1", v + 1, iv
	}
}

// withExpr rewrites the subscript of an element operation as a side-effecting expression (sometimes after
// moving an index variable), when the expression's value is usable: any value when errors are allowed,
// otherwise a non-negative one up to 40 or a negative one inside the array.
func withExpr(r *rand.Rand, o op, cur ref, iv *ivars, allowBad bool) op {
	switch o.Kind {
	case "setelem", "appelem":
	case "unsetelem":
		if cur.kind != 2 {
			return o // on a scalar the subscript is compared as text, on an unset name it is not evaluated
		}
	default:
		return o
	}
	if r.IntN(5) < 2 {
		return o
	}
	mx := maxKey(cur.base())
	for try := 0; try < 4; try++ {
		w := *iv
		pre := ""
		if r.IntN(3) == 0 {
			x := r.IntN(3)
			w[x] = r.IntN(mx+4) - 1
			if r.IntN(4) == 0 {
				w[x] = -1 - r.IntN(3)
			}
			pre = fmt.Sprintf("%s=%d", ivNames[x], w[x])
		}
		e, v, w2 := genIdxExpr(r, w)
		ok := v >= -45 && v <= 45
		if !allowBad {
			ok = (v >= 0 && v <= 40) || (v < 0 && v+mx+1 >= 0)
		}
		if ok {
			o.K, o.X, o.Pre = v, e, pre
			*iv = w2
			return o
		}
	}
	return o
}

func genOp(r *rand.Rand, cur ref, allowBad bool) op {
	switch r.IntN(20) {
	case 0, 1, 2, 3, 4:
		return op{Kind: "setelem", K: genIndex(r, cur, allowBad), V: hx.Pick(r, vals)}
	case 5, 6:
		return op{Kind: "appelem", K: genIndex(r, cur, allowBad), V: hx.Pick(r, vals)}
	case 7, 8, 9, 10:
		return op{Kind: "unsetelem", K: genIndex(r, cur, allowBad)}
	case 11, 12:
		return op{Kind: "assignarr", Es: genElems(r, cur, allowBad)}
	case 13, 14, 15:
		return op{Kind: "appendarr", Es: genElems(r, cur, allowBad)}
	case 16:
		return op{Kind: "assignstr", V: hx.Pick(r, vals)}
	case 17:
		return op{Kind: "appendstr", V: hx.Pick(r, vals)}
	case 18:
		if r.IntN(3) == 0 {
			return op{Kind: "unsetall"}
		}
		return op{Kind: "setelem", K: genIndex(r, cur, allowBad), V: hx.Pick(r, vals)}
	default:
		return op{Kind: "default", K: genIndex(r, cur, allowBad), V: hx.Pick(r, dvals), Colon: r.IntN(2) == 0}
	}
}

// ---------------------------------------------------------------- running interp

func newRunner(out *bytes.Buffer) *interp.Runner {
	r, err := interp.New(interp.StdIO(nil, out, out), interp.Env(expand.ListEnviron("PATH=/nonexistent", "HOME=/nonexistent")),
		interp.ExecHandlers(func(next interp.ExecHandlerFunc) interp.ExecHandlerFunc {
			return func(ctx context.Context, args []string) error {
				return fmt.Errorf("external command refused: %s", args[0])
			}
		}))
	if err != nil {
		panic(err)
	}
	return r
}

func parse(src string) *syntax.File {
	f, err := syntax.NewParser(syntax.Variant(syntax.LangBash)).Parse(strings.NewReader(src), "")
	if err != nil {
		panic(fmt.Sprintf("generated program does not parse: %v\n%s", err, src))
	}
	return f
}

// runProg runs a whole program in a fresh runner; returns combined output, "P:<msg>" on panic, "T" on timeout.
func runProg(src string) string {
	var out bytes.Buffer
	f := parse(src)
	done := make(chan string, 1)
	go func() {
		p, msg := hx.Try(func() {
			r := newRunner(&out)
			ctx, cancel := context.WithTimeout(context.Background(), 5*time.Second)
			defer cancel()
			r.Run(ctx, f)
		})
		if p {
			done <- "P:" + msg
		} else {
			done <- ""
		}
	}()
	select {
	case s := <-done:
		if s != "" {
			return s
		}
		return out.String()
	case <-time.After(8 * time.Second):
		return "T"
	}
}

// ---------------------------------------------------------------- mode prim

type mapEnv map[string]expand.Variable

func (m mapEnv) Get(name string) expand.Variable { return m[name] }
func (m mapEnv) Each(f func(string, expand.Variable) bool) {
	for k, v := range m {
		if !f(k, v) {
			return
		}
	}
}

type fieldsRes struct {
	P   bool     `json:"p,omitempty"`
	Err string   `json:"err,omitempty"`
	F   []string `json:"f"` // hex
}

func expandWord(vr expand.Variable, word string) fieldsRes {
	var res fieldsRes
	p := syntax.NewParser(syntax.Variant(syntax.LangBash))
	var w *syntax.Word
	for ww := range p.WordsSeq(strings.NewReader(word)) {
		w = ww
		break
	}
	if w == nil {
		panic("word does not parse: " + word)
	}
	cfg := &expand.Config{Env: mapEnv{"a": vr}}
	pn, _ := hx.Try(func() {
		fs, err := expand.Fields(cfg, w)
		if err != nil {
			res.Err = err.Error()
			return
		}
		res.F = hx.HexList(fs)
	})
	if pn {
		res = fieldsRes{P: true}
	}
	if res.F == nil {
		res.F = []string{}
	}
	return res
}

type repJSON struct {
	P    bool     `json:"p,omitempty"`
	List []string `json:"list"`
	Idx  []int    `json:"idx"` // meaningful when !Nil
	Nil  bool     `json:"nil"` // Indexes == nil
}

func rep(list []string, idx []int) repJSON {
	r := repJSON{List: hx.HexList(list), Idx: idx, Nil: idx == nil}
	if r.Idx == nil {
		r.Idx = []int{}
	}
	return r
}

func cloneS(l []string) []string { return append([]string{}, l...) }
func cloneI(l []int) []int {
	if l == nil {
		return nil
	}
	return append([]int{}, l...)
}

func genRep(r *rand.Rand) ([]string, []int) {
	n := r.IntN(7)
	list := make([]string, n)
	for i := range list {
		list[i] = hx.Pick(r, vals)
	}
	switch r.IntN(10) {
	case 0, 1, 2:
		return list, nil
	case 3, 4, 5, 6, 7:
		// well-formed sparse (possibly dense-but-non-nil: violates "nil iff dense")
		idx := make([]int, n)
		k := 0
		for i := range idx {
			k += r.IntN(3)
			if r.IntN(5) == 0 {
				k += r.IntN(10)
			}
			idx[i] = k
			k++
		}
		return list, idx
	case 8:
		// wrong length
		m := r.IntN(8)
		idx := make([]int, m)
		k := 0
		for i := range idx {
			k += r.IntN(3)
			idx[i] = k
			k++
		}
		return list, idx
	default:
		// unsorted / duplicates / negatives
		idx := make([]int, n)
		for i := range idx {
			idx[i] = r.IntN(8) - 1
		}
		return list, idx
	}
}

func modePrim(o hx.Opts) {
	r := hx.Rand(o.Seed, 3301)
	for i := 0; i < o.N; i++ {
		list, idx := genRep(r)
		k := r.IntN(10) - 2
		if r.IntN(8) == 0 {
			k = 10 + r.IntN(20)
		}
		v := hx.Pick(r, vals)
		row := map[string]any{"in": rep(list, idx), "k": k, "v": hx.Hex(v)}
		// set
		{
			var l2 []string
			var i2 []int
			if p, _ := hx.Try(func() { l2, i2 = expand.VerifSetIndexedElem(cloneS(list), cloneI(idx), k, v) }); p {
				row["set"] = repJSON{P: true, List: []string{}, Idx: []int{}}
			} else {
				row["set"] = rep(l2, i2)
			}
		}
		{
			var l2 []string
			var i2 []int
			if p, _ := hx.Try(func() { l2, i2 = expand.VerifDeleteIndexedElem(cloneS(list), cloneI(idx), k) }); p {
				row["del"] = repJSON{P: true, List: []string{}, Idx: []int{}}
			} else {
				row["del"] = rep(l2, i2)
			}
		}
		row["max"] = expand.VerifIndexedMax(list, idx)
		c := expand.VerifCanonicalIndexes(cloneI(idx))
		row["canon_nil"] = c == nil
		vr := expand.Variable{Set: true, Kind: expand.Indexed, List: list, Indexes: idx}
		{
			var s string
			var ok bool
			if p, _ := hx.Try(func() { s, ok = vr.VerifIndexedVal(k) }); p {
				row["val"] = "P"
			} else if ok {
				row["val"] = "S:" + hx.Hex(s)
			} else {
				row["val"] = "N"
			}
		}
		{
			var ks []string
			if p, _ := hx.Try(func() { ks = vr.VerifIndexedKeys() }); p {
				row["keys"] = "P"
			} else {
				row["keys"] = strings.Join(ks, ",")
			}
		}
		off, ln := r.IntN(12)-4, r.IntN(9)-2
		if r.IntN(6) == 0 {
			off = -(5 + r.IntN(30))
		}
		row["off"], row["len"] = off, ln
		row["sl2"] = expandWord(vr, fmt.Sprintf("\"${a[@]: %d:%d}\"", off, ln))
		row["sl1"] = expandWord(vr, fmt.Sprintf("\"${a[@]: %d}\"", off))
		hx.Emit(row)
	}
}

// ---------------------------------------------------------------- mode hist

type varJSON struct {
	Kind string   `json:"kind"` // U S A  (? = something else)
	Set  bool     `json:"set"`
	Str  string   `json:"str"`
	List []string `json:"list"`
	Idx  []int    `json:"idx"`
	Nil  bool     `json:"nil"`
}

func dumpVar(vr expand.Variable) varJSON {
	v := varJSON{Set: vr.Set, Str: hx.Hex(vr.Str), List: hx.HexList(vr.List), Idx: vr.Indexes, Nil: vr.Indexes == nil}
	if v.Idx == nil {
		v.Idx = []int{}
	}
	switch {
	case vr.Kind == expand.Unknown && !vr.Set:
		v.Kind = "U"
	case vr.Kind == expand.String && vr.Set:
		v.Kind = "S"
	case vr.Kind == expand.Indexed && vr.Set:
		v.Kind = "A"
	default:
		v.Kind = "?"
	}
	return v
}

type stepJSON struct {
	Op    opJSON    `json:"op"`
	Stmt  string    `json:"stmt"`
	P     bool      `json:"p,omitempty"` // the runner panicked
	Err   bool      `json:"err"`         // error reported (stderr output or non-zero status)
	Var   varJSON   `json:"var"`
	RK    int       `json:"rk"`   // index read by ${a[rk]}
	Read  fieldsRes `json:"read"` // "${a[rk]}"
	Keys  fieldsRes `json:"keys"` // "${!a[@]}" (arrays only)
	Count fieldsRes `json:"count"`
	Off   int       `json:"off"`
	Len   int       `json:"len"`
	Sl2   fieldsRes `json:"sl2"`
	Sl1   fieldsRes `json:"sl1"`
	RX    string    `json:"rx,omitempty"` // the read's subscript when it is an expression (run in the runner)
	IvOK  bool      `json:"ivok"`         // the index variables are what one evaluation of each subscript leaves
	IvGot string    `json:"ivgot"`
	IvExp string    `json:"ivexp"`
}

// runStmts runs every statement of src in the runner; panicked / error.
func runStmts(run *interp.Runner, src string) (bool, error) {
	f := parse(src + "\n")
	var err error
	p, _ := hx.Try(func() {
		ctx, cancel := context.WithTimeout(context.Background(), 5*time.Second)
		defer cancel()
		for _, st := range f.Stmts {
			if e := run.Run(ctx, st); e != nil && err == nil {
				err = e
			}
		}
	})
	return p, err
}

func modeHist(o hx.Opts) {
	r := hx.Rand(o.Seed, 3302)
	for i := 0; i < o.N; i++ {
		n := 1 + r.IntN(20)
		var out bytes.Buffer
		run := newRunner(&out)
		cur := ref{m: map[int]string{}}
		var steps []stepJSON
		dead := false
		iv := ivStart()
		runStmts(run, ivInit)
		for j := 0; j < n && !dead; j++ {
			op := withExpr(r, genOp(r, cur, true), cur, &iv, true)
			st := stepJSON{Op: op.json(), Stmt: op.stmt("a")}
			out.Reset()
			// the statements that move an index variable are not part of the operation's error flag
			if op.Pre != "" {
				runStmts(run, op.Pre)
				out.Reset()
			}
			bare := op
			bare.Pre = ""
			p, err := runStmts(run, bare.stmt("a"))
			if p {
				st.P = true
				dead = true
				steps = append(steps, st)
				break
			}
			st.Err = err != nil || out.Len() > 0
			vr := run.Vars["a"]
			st.Var = dumpVar(vr)
			cur, _ = cur.apply(op)
			st.RK = genIndex(r, cur, true)
			if cur.kind == 2 && r.IntN(3) == 0 {
				// a read with a side-effecting subscript, through the runner
				e, v, w := genIdxExpr(r, iv)
				st.RK, st.RX, iv = v, e, w
				out.Reset()
				pp, rerr := runStmts(run, fmt.Sprintf("rd=\"${a[%s]}\"", e))
				switch {
				case pp:
					st.Read = fieldsRes{P: true, F: []string{}}
				case rerr != nil || out.Len() > 0:
					st.Read = fieldsRes{Err: "error", F: []string{}}
				default:
					st.Read = fieldsRes{F: []string{hx.Hex(run.Vars["rd"].Str)}}
				}
			} else {
				st.Read = expandWord(vr, fmt.Sprintf("\"${a[%d]}\"", st.RK))
			}
			st.IvGot = run.Vars["i"].Str + "," + run.Vars["j"].Str + "," + run.Vars["k"].Str
			st.IvExp = iv.String()
			st.IvOK = st.IvGot == st.IvExp
			if vr.Kind == expand.Indexed {
				st.Keys = expandWord(vr, "\"${!a[@]}\"")
				st.Count = expandWord(vr, "${#a[@]}")
				st.Off, st.Len = r.IntN(12)-4, r.IntN(7)
				if r.IntN(8) == 0 {
					st.Off = -(5 + r.IntN(40))
				}
				st.Sl2 = expandWord(vr, fmt.Sprintf("\"${a[@]: %d:%d}\"", st.Off, st.Len))
				st.Sl1 = expandWord(vr, fmt.Sprintf("\"${a[@]: %d}\"", st.Off))
			}
			steps = append(steps, st)
		}
		hx.Emit(map[string]any{"steps": steps})
	}
}

// ---------------------------------------------------------------- mode shell

// show renders the observation statement for array nm given what the reference predicts,
// and the output bash must print for it.
func show(r *rand.Rand, nm string, cur ref, iv *ivars) (stmt, want string) {
	var sb, wb strings.Builder
	m := cur.base()
	ks := keysOf(m)
	wr := func(l []string) {
		if len(l) == 0 {
			wb.WriteString("<>") // printf with no arguments still prints the format once
		}
		for _, s := range l {
			wb.WriteString("<" + s + ">")
		}
	}
	valsOf := func(ks []int) []string {
		l := make([]string, len(ks))
		for i, k := range ks {
			l[i] = m[k]
		}
		return l
	}
	fmt.Fprintf(&sb, "printf '<%%s>' \"${%s[@]}\"; ", nm)
	wr(valsOf(ks))
	if cur.kind == 2 {
		// "${!a[@]}" of an unset variable is KF-C33-3, of a scalar it is C21's topic; not sampled
		fmt.Fprintf(&sb, "printf '|'; printf '<%%s>' \"${!%s[@]}\"; ", nm)
		wb.WriteString("|")
		kk := make([]string, len(ks))
		for i, k := range ks {
			kk[i] = strconv.Itoa(k)
		}
		wr(kk)
	}
	fmt.Fprintf(&sb, "printf '|%%s|' \"${#%s[@]}\"; ", nm)
	fmt.Fprintf(&wb, "|%d|", len(ks))
	fmt.Fprintf(&sb, "printf '<%%s>' \"$%s\"; ", nm)
	wr([]string{m[0]})
	// element reads: non-negative any; negative only in range
	mx := maxKey(m)
	for t := 0; t < 2; t++ {
		k := r.IntN(mx + 3)
		if cur.kind == 2 && mx >= 0 && r.IntN(2) == 0 {
			k = -1 - r.IntN(mx+1)
		}
		sub := strconv.Itoa(k)
		if cur.kind == 2 && r.IntN(3) == 0 {
			// a read whose subscript has a side effect; usable values only (see withExpr)
			for try := 0; try < 4; try++ {
				e, v, w := genIdxExpr(r, *iv)
				if (v >= 0 && v <= 40) || (v < 0 && v+mx+1 >= 0) {
					sub, k, *iv = e, v, w
					break
				}
			}
		}
		fmt.Fprintf(&sb, "printf '<%%s>' \"${%s[%s]}\"; ", nm, sub)
		kk, _ := resolve(m, k)
		wr([]string{m[kk]})
	}
	// slices; length >= 0 (a negative length is KF-C33-2)
	for t := 0; t < 2; t++ {
		off := r.IntN(mx+4) - 1
		if r.IntN(3) == 0 {
			off = -r.IntN(mx + 4)
		}
		var sel []int
		from, ok := off, true
		if off < 0 {
			from = off + mx + 1
			ok = from >= 0
		}
		if ok {
			for _, k := range ks {
				if k >= from {
					sel = append(sel, k)
				}
			}
		}
		if cur.kind != 2 {
			// slicing a scalar or an unset name as an array is not C33's topic
			continue
		}
		if r.IntN(2) == 0 {
			ln := r.IntN(4)
			fmt.Fprintf(&sb, "printf '|'; printf '<%%s>' \"${%s[@]: %d:%d}\"; ", nm, off, ln)
			if ln < len(sel) {
				sel = sel[:ln]
			}
		} else {
			fmt.Fprintf(&sb, "printf '|'; printf '<%%s>' \"${%s[@]: %d}\"; ", nm, off)
		}
		wb.WriteString("|")
		wr(valsOf(sel))
	}
	// the index variables, after all the subscripts evaluated so far
	sb.WriteString("printf '|%s,%s,%s' \"$i\" \"$j\" \"$k\"; echo")
	wb.WriteString("|" + iv.String() + "\n")
	return sb.String(), wb.String()
}

type shellCase struct {
	Src   string `json:"src"`
	Ctx   string `json:"ctx"`
	Want  string `json:"want"` // what the reference map predicts (hex)
	Got   string `json:"got"`  // interp output (hex)
	Nops  int    `json:"nops"`
	Class string `json:"class"` // known-finding class of the input ("" = none)
}

// genShell builds one program. ctx: top, func, funclocal, subshell, cmdsubst, two
func genShell(r *rand.Rand, ctx string) shellCase {
	var src, want strings.Builder
	cur := ref{m: map[int]string{}}
	other := ref{m: map[int]string{}}
	nops := 0
	iv := ivStart() // the index variables of the current shell (a subshell works on a copy)
	src.WriteString(ivInit + "\n")
	emitOps := func(nm string, st *ref, n int, indent string) {
		for j := 0; j < n; j++ {
			var o op
			for {
				o = genOp(r, *st, false)
				// unset 'a[k]' of an unset name: bash complains inside functions ("not an array variable"
				// for an unset local), trivial elsewhere; not sampled
				if _, bad := st.apply(o); !bad && !(o.Kind == "unsetelem" && st.kind == 0) {
					break
				}
			}
			// "${s[k]=v}" with k<0 on a scalar/unset name: not sampled (bash itself is erratic there)
			o = withExpr(r, o, *st, &iv, false)
			*st, _ = st.apply(o)
			src.WriteString(indent + o.stmt(nm) + "\n")
			nops++
			if r.IntN(3) == 0 {
				s, w := show(r, nm, *st, &iv)
				src.WriteString(indent + s + "\n")
				want.WriteString(w)
			}
		}
	}
	showNow := func(nm string, st ref, indent string) {
		s, w := show(r, nm, st, &iv)
		src.WriteString(indent + s + "\n")
		want.WriteString(w)
	}
	n := 1 + r.IntN(20)
	switch ctx {
	case "top":
		emitOps("a", &cur, n, "")
		showNow("a", cur, "")
	case "func":
		// the function works on the global array
		pre := r.IntN(n + 1)
		emitOps("a", &cur, pre, "")
		src.WriteString("f() {\n")
		emitOps("a", &cur, n-pre, "  ")
		showNow("a", cur, "  ")
		src.WriteString("}\nf\n")
		showNow("a", cur, "")
	case "funclocal":
		// a local array shadows the global one and disappears on return
		pre := r.IntN(n + 1)
		emitOps("a", &cur, pre, "")
		// (a naked `local a` keeps the outer value in interp, a defect of `local`, not of arrays)
		src.WriteString("f() {\n  local a=()\n")
		loc := ref{kind: 2, m: map[int]string{}}
		emitOps("a", &loc, n-pre, "  ")
		showNow("a", loc, "  ")
		src.WriteString("}\nf\n")
		showNow("a", cur, "")
	case "subshell":
		pre := r.IntN(n + 1)
		emitOps("a", &cur, pre, "")
		sub := cur.clone()
		ivParent := iv
		src.WriteString("(\n")
		emitOps("a", &sub, n-pre, "  ")
		showNow("a", sub, "  ")
		src.WriteString(")\n")
		iv = ivParent         // what the subshell did to i, j, k stays there
		showNow("a", cur, "") // the parent is unchanged
		emitOps("a", &cur, r.IntN(4), "")
		showNow("a", cur, "")
	case "cmdsubst":
		pre := r.IntN(n + 1)
		emitOps("a", &cur, pre, "")
		sub := cur.clone()
		src.WriteString("out=$(\n")
		var keep strings.Builder
		keep.WriteString(want.String())
		want.Reset()
		ivParent := iv
		emitOps("a", &sub, n-pre, "  ")
		showNow("a", sub, "  ")
		iv = ivParent
		inner := want.String()
		want.Reset()
		want.WriteString(keep.String())
		src.WriteString(")\nprintf '%s\\n' \"$out\"\n")
		want.WriteString(strings.TrimRight(inner, "\n") + "\n")
		showNow("a", cur, "")
	case "two":
		for k := 0; k < n; k++ {
			switch r.IntN(6) {
			case 0:
				src.WriteString("b=(\"${a[@]}\")\n")
				m := cur.base()
				nb := ref{kind: 2, m: map[int]string{}}
				for i, kk := range keysOf(m) {
					nb.m[i] = m[kk]
				}
				other = nb
				nops++
			case 1:
				// append a slice of b to a
				m := other.base()
				if other.kind != 2 {
					emitOps("b", &other, 1, "")
					continue
				}
				off := r.IntN(4)
				ln := r.IntN(3)
				fmt.Fprintf(&src, "a+=(\"${b[@]:%d:%d}\")\n", off, ln)
				var sel []string
				for _, kk := range keysOf(m) {
					if kk >= off && len(sel) < ln {
						sel = append(sel, m[kk])
					}
				}
				am := cur.base()
				idx := maxKey(am) + 1
				for _, s := range sel {
					am[idx] = s
					idx++
				}
				cur = ref{kind: 2, m: am}
				nops++
			case 2:
				emitOps("b", &other, 1, "")
			default:
				emitOps("a", &cur, 1, "")
			}
		}
		showNow("a", cur, "")
		showNow("b", other, "")
	}
	c := shellCase{Src: src.String(), Ctx: ctx, Nops: nops}
	got := runProg(c.Src)
	c.Want = hx.Hex(want.String())
	c.Got = hx.Hex(got)
	return c
}

var ctxs = []string{"top", "top", "func", "funclocal", "subshell", "subshell", "cmdsubst", "two"}

func modeShell(o hx.Opts) {
	r := hx.Rand(o.Seed, 3303)
	for i := 0; i < o.N; i++ {
		hx.Emit(genShell(r, ctxs[i%len(ctxs)]))
	}
}

// ---------------------------------------------------------------- mode kf: pinned programs

type kfCase struct {
	ID    string `json:"id"`
	Class string `json:"class"`
	Src   string `json:"src"`
	Got   string `json:"got"`
}

func modeKF(in string) {
	for _, c := range []kfCase{
		{ID: "KF-C33-1", Class: "neg_index_read_out_of_range", Src: "a=()\necho \"<${a[-1]}>\"\necho after\n"},
		{ID: "KF-C33-1", Class: "neg_index_read_out_of_range", Src: "a=(p q)\necho \"<${a[-3]}>\"\necho after\n"},
		{ID: "KF-C33-2", Class: "array_slice_negative_length", Src: "a=(p q r s t)\necho \"<${a[@]:1:-1}>\"\necho after\n"},
		{ID: "KF-C33-3", Class: "keys_of_unset_variable", Src: "unset d\necho \"<${!d[@]}>\"\necho after\n"},
		{ID: "KF-C33-4", Class: "default_assign_negative_subscript_on_scalar", Src: "a=x\n: \"${a[-1]=v}\"\necho \"<${a[@]}>\"\n"},
		{ID: "fixed-3b21339", Class: "", Src: "unset a\na[3]=y\nunset a\na+=(1 2)\necho \"<${a[@]}> <${!a[@]}>\"\n"},
		{ID: "fixed-d483f41", Class: "", Src: "a=(p q r)\na[2]+=x\na[5]+=y\necho \"<${a[@]}> <${!a[@]}>\"\n"},
		{ID: "fixed-d35f0af", Class: "", Src: "a=(x y)\n(a+=z)\necho \"<${a[@]}>\"\n"},
	} {
		c.Got = hx.Hex(runProg(c.Src))
		hx.Emit(c)
	}
	// the pinned regression corpus (-in corpus/c33/regress.txt): blocks "### name" + program
	if in == "" {
		return
	}
	data, err := os.ReadFile(in)
	if err != nil {
		panic(err)
	}
	var cur *kfCase
	flush := func() {
		if cur != nil && strings.TrimSpace(cur.Src) != "" {
			cur.Got = hx.Hex(runProg(cur.Src))
			hx.Emit(*cur)
		}
	}
	for _, line := range strings.Split(string(data), "\n") {
		if name, ok := strings.CutPrefix(line, "### "); ok {
			flush()
			cur = &kfCase{ID: "pinned:" + strings.TrimSpace(name)}
			continue
		}
		if cur != nil {
			cur.Src += line + "\n"
		}
	}
	flush()
}

func main() {
	o := hx.ParseArgs()
	defer hx.Flush()
	switch o.Mode {
	case "prim":
		modePrim(o)
	case "hist":
		modeHist(o)
	case "shell":
		modeShell(o)
	case "kf":
		modeKF(o.In)
	default:
		panic("unknown mode " + o.Mode)
	}
}
