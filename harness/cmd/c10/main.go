// c10: parse errors are well-formed and incompleteness is reported.
//
//	c10 prefix -seed S -n N [-tier T] <repo>   every line-boundary prefix of every valid program
//	                                          (repo test-table literals + generated programs) x 5 variants
//	c10 pos    -seed S -n N [-tier T] <repo>   error positions of invalid inputs (corpus, all byte prefixes,
//	                                          seeded byte mutations), Quote errors
//	c10 core   -seed S -n N                   core token programs: every token-boundary cut (code leg data)
//	c10 one    -in FILE                       replay: Go-quoted sources, one per line
//
// Output: one JSON line per failing case (prefix/pos) or per case (core), then {"summary":{...}}.
package main

import (
	"bufio"
	"fmt"
	"io"
	"math/rand/v2"
	"os"
	"regexp"
	"strconv"
	"strings"

	"mvdan.cc/sh/v3/syntax"
	"verifharness/hx"
	"verifharness/hxgram"
)

var allEntryPoints bool

var langs = []syntax.LangVariant{syntax.LangBash, syntax.LangPOSIX, syntax.LangMirBSDKorn, syntax.LangBats, syntax.LangZsh}

type perr struct {
	Ok   bool
	Msg  string
	Inc  bool
	Kind string // ParseError | LangError | other
	Offs uint
	Line uint
	Col  uint
	Pnc  bool
}

func parse(src string, lang syntax.LangVariant) (e perr) {
	return parseVia(lang, func(p *syntax.Parser) error {
		_, err := p.Parse(strings.NewReader(src), "")
		return err
	})
}

// pauseReader returns (0, nil) once when it reaches the split point, as the io.Reader contract allows.
type pauseReader struct {
	data   string
	pos    int
	split  int
	paused bool
}

func (r *pauseReader) Read(b []byte) (int, error) {
	if r.pos == r.split && !r.paused {
		r.paused = true
		return 0, nil
	}
	if r.pos >= len(r.data) {
		return 0, io.EOF
	}
	end := len(r.data)
	if r.pos < r.split {
		end = r.split
	}
	n := copy(b, r.data[r.pos:end])
	r.pos += n
	return n, nil
}

// entry points other than Parse(r, ""): their first error must carry the same verdict
func parseNamed(src string, lang syntax.LangVariant) perr {
	return parseVia(lang, func(p *syntax.Parser) error {
		_, err := p.Parse(strings.NewReader(src), "script.sh")
		return err
	})
}

func parseStmtsSeq(src string, lang syntax.LangVariant) perr {
	return parseVia(lang, func(p *syntax.Parser) error {
		var first error
		for _, err := range p.StmtsSeq(strings.NewReader(src)) {
			if err != nil && first == nil {
				first = err
			}
		}
		return first
	})
}

func parseInteractive(src string, lang syntax.LangVariant) perr {
	return parseVia(lang, func(p *syntax.Parser) error {
		var first error
		for _, err := range p.InteractiveSeq(strings.NewReader(src)) {
			if err != nil && first == nil {
				first = err
			}
		}
		return first
	})
}

func parseVia(lang syntax.LangVariant, f func(*syntax.Parser) error) (e perr) {
	var err error
	if p, pm := hx.Try(func() {
		err = f(syntax.NewParser(syntax.Variant(lang)))
	}); p {
		return perr{Pnc: true, Msg: "PANIC: " + pm}
	}
	if err == nil {
		return perr{Ok: true}
	}
	e.Msg = err.Error()
	e.Inc = syntax.IsIncomplete(err)
	switch x := err.(type) {
	case syntax.ParseError:
		e.Kind, e.Offs, e.Line, e.Col = "ParseError", x.Pos.Offset(), x.Pos.Line(), x.Pos.Col()
	case syntax.LangError:
		e.Kind, e.Offs, e.Line, e.Col = "LangError", x.Pos.Offset(), x.Pos.Line(), x.Pos.Col()
	default:
		e.Kind = fmt.Sprintf("%T", err)
	}
	return e
}

type fail struct {
	Clause string `json:"clause"`
	Src    string `json:"src"` // the parsed input (the prefix, for the prefix clause)
	Whole  string `json:"whole,omitempty"`
	Lang   string `json:"lang"`
	Err    string `json:"err"`
	Class  string `json:"class,omitempty"`
	Detail string `json:"detail,omitempty"`
	Origin string `json:"origin,omitempty"` // corpus | gen | witness | mut
}

// ---------------------------------------------------------------- prefix clause

// lineCuts returns the proper prefixes of src that end right after a '\n'.
func lineCuts(src string) []string {
	var out []string
	for i := 0; i < len(src)-1; i++ {
		if src[i] == '\n' {
			out = append(out, src[:i+1])
		}
	}
	return out
}

type counters struct {
	Programs   int `json:"programs"`
	ValidPairs int `json:"valid_program_variant_pairs"`
	Cuts       int `json:"cuts"`
	CutOK      int `json:"cut_parses"`
	CutInc     int `json:"cut_incomplete"`
	CutBad     int `json:"cut_plain_error"`
	Multi      int `json:"multi_line_valid_programs"`
	Parses     int `json:"parses"`
	PosErrs    int `json:"errors_checked"`
	PosBad     int `json:"pos_bad"`
	EntryBad   int `json:"entry_point_bad"`
	Paused     int `json:"paused_reader_parses"`
}

func checkPrefixes(src, origin string, c *counters, emit func(fail)) {
	c.Programs++
	cuts := lineCuts(src)
	multi := false
	for _, lang := range langs {
		c.Parses++
		if w := parse(src, lang); !w.Ok {
			if w.Pnc {
				emit(fail{Clause: "parse_panics", Src: src, Lang: lang.String(), Err: w.Msg, Origin: origin})
			}
			continue
		}
		c.ValidPairs++
		if len(cuts) > 0 {
			multi = true
		}
		for _, q := range cuts {
			c.Cuts++
			c.Parses++
			e := parse(q, lang)
			switch {
			case e.Ok:
				c.CutOK++
			case e.Inc:
				c.CutInc++
			default:
				c.CutBad++
				f := fail{Clause: "prefix_error_not_incomplete", Src: q, Whole: src, Lang: lang.String(), Err: e.Msg, Origin: origin}
				f.Class = classifyPrefix(q, e)
				emit(f)
			}
			if !e.Ok {
				checkPos(q, lang, e, origin, c, emit)
			}
			// the same prefix through the other entry points: Parse with a file name, StmtsSeq, InteractiveSeq
			// (every cut of the witnesses and fixed enumerations; every 4th cut elsewhere; thorough: all)
			if !allEntryPoints && origin != "witness" && origin != "enum-hdoc-line" && c.Cuts%4 != 0 {
				continue
			}
			for _, alt := range []struct {
				name string
				res  perr
			}{{"Parse(r, \"script.sh\")", parseNamed(q, lang)}, {"StmtsSeq", parseStmtsSeq(q, lang)}, {"InteractiveSeq", parseInteractive(q, lang)}} {
				c.Parses++
				a := alt.res
				if a.Ok != e.Ok || a.Inc != e.Inc || (!a.Ok && (a.Offs != e.Offs || a.Line != e.Line || a.Col != e.Col)) {
					c.EntryBad++
					emit(fail{Clause: "entry_point_verdict_differs", Src: q, Whole: src, Lang: lang.String(), Err: a.Msg,
						Detail: fmt.Sprintf("%s: ok=%v incomplete=%v pos=%d:%d vs Parse(r, \"\"): ok=%v incomplete=%v pos=%d:%d (%s)", alt.name, a.Ok, a.Inc, a.Line, a.Col, e.Ok, e.Inc, e.Line, e.Col, e.Msg), Origin: origin})
				}
			}
		}
	}
	if multi {
		c.Multi++
	}
}

// classifyPrefix: narrow class of a prefix failure, decided on the input and the failure signature.
func classifyPrefix(q string, e perr) string {
	// KF-C10-1: a here-document opened on a line that continues with a `let` clause: letClause reads the
	// newline while its nested lexer state still hides the pending here-document, so the body is not read
	// there; the prefix ending at that line fails with a plain "unclosed here-document" from Parse's final
	// doHeredocs (outside any open statement).
	if strings.Contains(e.Msg, "unclosed here-document") {
		line := strings.TrimRight(q, "\n")
		if i := strings.LastIndexByte(line, '\n'); i >= 0 {
			line = line[i+1:]
		}
		if i := strings.Index(line, "<<"); i >= 0 && letAfter.MatchString(line[i:]) {
			return "heredoc_pending_across_let_clause"
		}
	}
	return ""
}

var letAfter = regexp.MustCompile(`(^|[\s;&|(])let\s`)

// ---------------------------------------------------------------- position clause

func checkPos(src string, lang syntax.LangVariant, e perr, origin string, c *counters, emit func(fail)) {
	if e.Ok || e.Pnc {
		return
	}
	if e.Kind != "ParseError" && e.Kind != "LangError" {
		return // read errors etc. carry no position
	}
	c.PosErrs++
	bad := ""
	n := uint(len(src))
	nlines := uint(strings.Count(src, "\n")) + 1
	switch {
	case e.Line == 0 || e.Col == 0:
		bad = "invalid position (line or column 0)"
	case e.Offs > n:
		bad = fmt.Sprintf("offset %d > len %d", e.Offs, n)
	case e.Line > nlines:
		bad = fmt.Sprintf("line %d > %d lines", e.Line, nlines)
	default:
		// the line the offset falls in must be the reported line
		wantLine := uint(strings.Count(src[:e.Offs], "\n")) + 1
		lineStart := uint(strings.LastIndexByte(src[:e.Offs], '\n') + 1)
		lineEnd := n
		if i := strings.IndexByte(src[e.Offs:], '\n'); i >= 0 {
			lineEnd = e.Offs + uint(i)
		}
		if e.Line != wantLine {
			bad = fmt.Sprintf("line %d but offset %d is on line %d", e.Line, e.Offs, wantLine)
		} else if e.Col > lineEnd-lineStart+1 {
			bad = fmt.Sprintf("col %d beyond its line of %d bytes", e.Col, lineEnd-lineStart)
		}
	}
	if bad != "" {
		c.PosBad++
		emit(fail{Clause: "error_pos_outside_input", Src: src, Lang: lang.String(), Err: e.Msg, Detail: bad, Origin: origin})
	}
}

// ---------------------------------------------------------------- multi-line program generator

type bld struct {
	r    *rand.Rand
	sb   strings.Builder
	pend []string // bodies (with terminator lines) of here-documents opened on the current line
	hd   int
}

func (b *bld) w(s string) { b.sb.WriteString(s) }

func (b *bld) nl() {
	b.w("\n")
	for _, p := range b.pend {
		b.w(p)
	}
	b.pend = nil
}

func (b *bld) name() string { return hx.Pick(b.r, []string{"a", "b", "foo", "x", "cat", "echo"}) }

func (b *bld) word(d int) {
	multi := len(b.pend) == 0 && b.r.IntN(3) == 0 // a newline inside a word must not precede pending heredoc bodies
	switch b.r.IntN(14) {
	case 0:
		if multi {
			b.w("'q\nr'")
		} else {
			b.w("'q r'")
		}
	case 1:
		if multi {
			b.w("\"d $x\ne\"")
		} else {
			b.w(`"d $x"`)
		}
	case 2:
		if d > 0 {
			b.w("$(")
			if multi {
				b.stmts(d-1, true)
			} else {
				b.w(b.name() + " " + b.name())
			}
			b.w(")")
		} else {
			b.w("$x")
		}
	case 3:
		if d > 0 && multi {
			b.w("`")
			b.w(b.name())
			b.nl()
			b.w(b.name())
			b.w("`")
		} else {
			b.w("`" + b.name() + "`")
		}
	case 4:
		if multi {
			b.w("${x:-a\nb}")
		} else {
			b.w("${x:-a}")
		}
	case 5:
		if multi {
			b.w("\"$(a\nb)\"")
		} else {
			b.w(`"$(a)"`)
		}
	case 6:
		if multi {
			b.w("a\\\nb")
		} else {
			b.w("a\\ b")
		}
	case 7:
		if multi {
			b.w("$((1 +\n2))")
		} else {
			b.w("$((1+2))")
		}
	case 8:
		if multi {
			b.w("$'a\nb'")
		} else {
			b.w("$x")
		}
	default:
		b.w(b.name())
	}
}

func (b *bld) heredoc() {
	b.hd++
	delim := hx.Pick(b.r, []string{"EOF", "E", "END"}) + strconv.Itoa(b.hd%3)
	op := "<<"
	tab := ""
	if b.r.IntN(4) == 0 {
		op, tab = "<<-", "\t"
	}
	q := b.r.IntN(6)
	switch q {
	case 0:
		b.w(op + "'" + delim + "'")
	case 1:
		b.w(op + `"` + delim + `"`)
	case 2:
		b.w(op + `\` + delim)
	default:
		b.w(op + delim)
	}
	var body strings.Builder
	n := b.r.IntN(3)
	for i := 0; i < n; i++ {
		body.WriteString(tab)
		body.WriteString(hx.Pick(b.r, []string{"body", "$x and `y`", "", "a \\", "  $(c) ", "'", "EOFX", ")"}))
		body.WriteString("\n")
	}
	body.WriteString(tab + delim + "\n")
	b.pend = append(b.pend, body.String())
}

func (b *bld) simple(d int) {
	if b.r.IntN(6) == 0 {
		b.w("v=")
		b.word(d)
		b.w(" ")
	}
	b.w(b.name())
	n := b.r.IntN(3)
	for i := 0; i < n; i++ {
		b.w(" ")
		b.word(d)
	}
	for b.r.IntN(5) == 0 {
		b.w(" ")
		if b.r.IntN(2) == 0 {
			b.heredoc()
		} else {
			b.w(hx.Pick(b.r, []string{">", "<", ">>", "2>"}))
			b.w("f")
		}
	}
}

// sepNl writes a list separator that may be or contain a newline.
func (b *bld) sepNl() {
	switch b.r.IntN(5) {
	case 0:
		b.w("; ")
	case 1:
		b.w(" &")
		b.nl()
	case 2:
		b.w(";")
		b.nl()
	default:
		b.nl()
	}
}

func (b *bld) comment() {
	if b.r.IntN(8) == 0 {
		b.w(" # c 'x \"y")
		b.nl()
	}
}

func (b *bld) command(d int) {
	if d <= 0 || b.r.IntN(2) == 0 {
		b.simple(d)
		return
	}
	switch b.r.IntN(9) {
	case 0:
		b.w("(")
		if b.r.IntN(2) == 0 {
			b.nl()
		}
		b.stmts(d-1, true)
		b.w(")")
	case 1:
		b.w("{ ")
		if b.r.IntN(2) == 0 {
			b.nl()
		}
		b.stmts(d-1, false)
		b.sepOrNl()
		b.w("}")
	case 2, 3:
		b.w("if ")
		b.stmts(d-1, false)
		b.sepOrNl()
		b.w("then")
		b.nlOrSp()
		b.stmts(d-1, false)
		b.sepOrNl()
		if b.r.IntN(4) == 0 {
			b.w("elif ")
			b.stmts(d-1, false)
			b.sepOrNl()
			b.w("then ")
			b.stmts(d-1, false)
			b.sepOrNl()
		}
		if b.r.IntN(3) == 0 {
			b.w("else")
			b.nlOrSp()
			b.stmts(d-1, false)
			b.sepOrNl()
		}
		b.w("fi")
	case 4:
		b.w(hx.Pick(b.r, []string{"while ", "until "}))
		b.stmts(d-1, false)
		b.sepOrNl()
		b.w("do")
		b.nlOrSp()
		b.stmts(d-1, false)
		b.sepOrNl()
		b.w("done")
	case 5:
		b.w("for i in ")
		b.word(0)
		b.sepOrNl()
		b.w("do")
		b.nlOrSp()
		b.stmts(d-1, false)
		b.sepOrNl()
		b.w("done")
	case 6:
		b.w("case ")
		b.word(0)
		b.w(" in")
		b.nlOrSp()
		n := b.r.IntN(3)
		for i := 0; i < n; i++ {
			b.w(hx.Pick(b.r, []string{"a) ", "(b|c) ", "*)", "'q') "}))
			if b.r.IntN(3) == 0 {
				b.nl()
			}
			b.stmts(d-1, true)
			if b.r.IntN(3) == 0 {
				b.nl()
			} else {
				b.w(" ")
			}
			b.w(";;")
			b.nlOrSp()
		}
		b.w("esac")
	case 7:
		b.w(hx.Pick(b.r, []string{"f() ", "g () ", "function h ", "function k() "}))
		if b.r.IntN(3) == 0 {
			b.nl()
		}
		b.w("{ ")
		b.stmts(d-1, false)
		b.sepOrNl()
		b.w("}")
	default:
		switch b.r.IntN(4) {
		case 0:
			b.w("[[ a == b &&")
			b.nlOrSp()
			b.w("-n $x ]]")
		case 1:
			b.w("((x = 1 +")
			b.nlOrSp()
			b.w("2))")
		case 2:
			b.w("arr=(a")
			b.nlOrSp()
			b.w("b)")
		default:
			b.w("declare -a y=(")
			b.nlOrSp()
			b.w("1 2)")
		}
	}
	if b.r.IntN(8) == 0 {
		b.w(" ")
		b.heredoc()
	}
}

func (b *bld) nlOrSp() {
	if b.r.IntN(2) == 0 {
		b.nl()
	} else {
		b.w(" ")
	}
}

// sepOrNl terminates a list before a closing reserved word.
func (b *bld) sepOrNl() {
	if b.r.IntN(2) == 0 {
		b.nl()
	} else {
		b.w("; ")
	}
}

func (b *bld) pipeline(d int) {
	if b.r.IntN(10) == 0 {
		b.w("! ")
	}
	b.command(d)
	for b.r.IntN(5) == 0 {
		b.w(" |")
		b.nlOrSp()
		b.command(d)
	}
}

func (b *bld) andor(d int) {
	b.pipeline(d)
	for b.r.IntN(5) == 0 {
		b.w(hx.Pick(b.r, []string{" &&", " ||"}))
		b.nlOrSp()
		b.pipeline(d)
	}
}

// stmts writes a non-empty statement list without a terminator after the last statement
// (unless trailing is set, in which case it may add one).
func (b *bld) stmts(d int, trailing bool) {
	b.andor(d)
	for b.r.IntN(3) == 0 {
		b.sepNl()
		b.comment()
		b.andor(d)
	}
	if trailing && b.r.IntN(3) == 0 {
		b.sepNl()
	}
}

func genProgram(r *rand.Rand) string {
	b := &bld{r: r}
	n := 1 + r.IntN(4)
	for i := 0; i < n; i++ {
		b.andor(1 + r.IntN(3))
		if i < n-1 || r.IntN(4) > 0 || len(b.pend) > 0 {
			b.comment()
			b.nl()
		}
	}
	return b.sb.String()
}

// ---------------------------------------------------------------- inputs

func corpus(repo string) []string {
	c, err := hxgram.Corpus(repo+"/syntax/filetests_test.go", repo+"/syntax/parser_test.go", repo+"/syntax/printer_test.go")
	if err != nil {
		panic(err)
	}
	return c
}

// fixed witnesses of the known divergences and their neighbours (always run)
var witnesses = []string{
	"$(foo <<'EOF'\nbar\nEOF\n)\n",
	"foo <<'EOF'\nbar\nEOF\n",
	"`foo <<\\EOF\nbar\nEOF\n`\n",
	"(foo <<\"EOF\"\nbar\nEOF\n)\n",
	"{ foo <<-'EOF'\n\tbar\n\tEOF\n}\n",
	"if foo <<'EOF'\nbar\nEOF\nthen x; fi\n",
	"foo <<EOF\nbar\nEOF\n",
	"foo <<'A' <<'B'\na\nA\nb\nB\n",
	"a <<EOF || [[ a == b ]]\n(\nEOF\n", // fixed 0009ad8
	"a <<EOF || let 1\nb\nEOF\n",        // KF-C10-1
}

// readQuoted reads a file of Go-quoted strings, one per line
func readQuoted(path string) []string {
	f, err := os.Open(path)
	if err != nil {
		return nil
	}
	defer f.Close()
	var out []string
	sc := bufio.NewScanner(f)
	sc.Buffer(make([]byte, 1<<20), 1<<20)
	for sc.Scan() {
		if s, err := strconv.Unquote(sc.Text()); err == nil {
			out = append(out, s)
		}
	}
	return out
}

func main() {
	o := hx.ParseArgs()
	defer hx.Flush()
	repo := "/repo"
	regress, regressPos := "", ""
	for _, a := range o.Args {
		switch {
		case strings.HasPrefix(a, "regress="):
			regress = a[len("regress="):]
		case strings.HasPrefix(a, "regress_pos="):
			regressPos = a[len("regress_pos="):]
		default:
			repo = a
		}
	}
	var c counters
	nfail := 0
	emit := func(f fail) {
		nfail++
		if nfail <= 400 || f.Class == "" {
			hx.Emit(f)
		}
	}
	classes := map[string]int{}
	emitC := func(f fail) {
		classes[f.Clause+"/"+f.Class]++
		emit(f)
	}
	allEntryPoints = o.Tier == "thorough"
	switch o.Mode {
	case "core":
		// code-leg data for coq/Syntax/CoreGrammar.v: core token programs, their cuts and mutations
		per := 6
		if o.Tier == "thorough" {
			per = 40
		}
		hxgram.CoreMain(o.Seed, o.N, per)
		return
	case "prefix":
		for _, s := range witnesses {
			checkPrefixes(s, "witness", &c, emitC)
		}
		// pinned regression corpus (corpus/c10/regress.txt): runs first, on every seed and tier
		for _, s := range readQuoted(regress) {
			checkPrefixes(s, "witness", &c, emitC)
		}
		for _, s := range corpus(repo) {
			checkPrefixes(s, "corpus", &c, emitC)
		}
		for _, s := range hxgram.HdocPrograms(false) {
			checkPrefixes(s, "enum-hdoc-line", &c, emitC)
		}
		r := hx.Rand(o.Seed, 10)
		for i := 0; i < o.N; i++ {
			checkPrefixes(genProgram(r), "gen", &c, emitC)
		}
		// core token programs (the fragment of the Coq model), rendered one token list per program
		g := &hxgram.Gen{R: hx.Rand(o.Seed, 1010)}
		for i := 0; i < o.N/2; i++ {
			checkPrefixes(hxgram.Render(g.Program(1+g.R.IntN(3)))+"\n", "gen-core", &c, emitC)
		}
	case "pos":
		cs := corpus(repo)
		for _, s := range cs {
			for _, lang := range langs {
				c.Parses++
				checkPos(s, lang, parse(s, lang), "corpus", &c, emitC)
			}
		}
		r := hx.Rand(o.Seed, 1011)
		// readers that return (0, nil) once at a split point: same error, same position, inside the input
		// (the pinned corpus/c10/regress_pos.txt first, every split point)
		pinned := readQuoted(regressPos)
		for i, s := range append(pinned, cs...) {
			for _, lang := range langs {
				base := parse(s, lang)
				if base.Ok || base.Pnc {
					continue
				}
				var splits []int
				if i < len(pinned) || len(s) <= 48 || o.Tier == "thorough" {
					for k := 0; k <= len(s); k++ {
						splits = append(splits, k)
					}
				} else {
					splits = []int{r.IntN(len(s) + 1), r.IntN(len(s) + 1), int(base.Offs) % (len(s) + 1)}
				}
				for _, k := range splits {
					c.Parses++
					c.Paused++
					pe := parseVia(lang, func(p *syntax.Parser) error {
						_, err := p.Parse(&pauseReader{data: s, split: k}, "")
						return err
					})
					checkPos(s, lang, pe, "paused-reader", &c, emitC)
					if pe.Ok != base.Ok || pe.Msg != base.Msg || pe.Offs != base.Offs || pe.Inc != base.Inc {
						c.PosBad++
						emitC(fail{Clause: "error_differs_under_pausing_reader", Src: s, Lang: lang.String(), Err: pe.Msg,
							Detail: fmt.Sprintf("reader returning (0,nil) once at byte %d: offset %d incomplete=%v; strings.Reader: %s offset %d incomplete=%v", k, pe.Offs, pe.Inc, base.Msg, base.Offs, base.Inc), Origin: "paused-reader"})
					}
				}
			}
		}
		// every byte prefix of every corpus item (thorough) or of a seeded slice of it (quick)
		step := 1
		if o.Tier != "thorough" {
			step = 8
		}
		off := r.IntN(step)
		for i := off; i < len(cs); i += step {
			s := cs[i]
			for k := 0; k < len(s); k++ {
				for _, lang := range langs {
					c.Parses++
					checkPos(s[:k], lang, parse(s[:k], lang), "corpus-prefix", &c, emitC)
				}
			}
		}
		// seeded byte mutations
		special := []string{"'", `"`, "`", "$(", "${", "$((", "(", ")", "{", "}", ";", ";;", "&", "|", "<<", "<<-", "\n", "\\", "\\\n", "\r\n",
			"\x00", "\x80", "\xff", "é", "if ", " then ", " fi", " do ", " done", " esac", "[[ ", " ]]", "((", "))", "<(", "#", "=", "=(", "[", "]"}
		for i := 0; i < o.N; i++ {
			s := []byte(cs[r.IntN(len(cs))])
			nm := 1 + r.IntN(2)
			for m := 0; m < nm; m++ {
				pos := r.IntN(len(s) + 1)
				switch r.IntN(4) {
				case 0:
					if len(s) > 0 {
						pos = r.IntN(len(s))
						s = append(s[:pos:pos], s[pos+1:]...)
					}
				case 1:
					if len(s) > 0 {
						s = s[:r.IntN(len(s))]
					}
				default:
					ins := special[r.IntN(len(special))]
					s = append(s[:pos:pos], append([]byte(ins), s[pos:]...)...)
				}
			}
			for _, lang := range langs {
				c.Parses++
				checkPos(string(s), lang, parse(string(s), lang), "mut", &c, emitC)
			}
		}
		// Quote errors: position (byte offset) inside the input
		for i := 0; i < o.N; i++ {
			var sb strings.Builder
			n := r.IntN(6)
			for k := 0; k < n; k++ {
				sb.WriteString(hx.Pick(r, []string{"a", " ", "\x00", "\x80", "é", "'", "\n", "\xff", "$", "\x7f", " "}))
			}
			s := sb.String()
			for _, lang := range langs {
				_, err := syntax.Quote(s, lang)
				if qe, ok := err.(*syntax.QuoteError); ok {
					c.PosErrs++
					if qe.ByteOffset < 0 || qe.ByteOffset >= len(s) {
						c.PosBad++
						emitC(fail{Clause: "quote_error_pos_outside_input", Src: s, Lang: lang.String(), Err: err.Error(),
							Detail: fmt.Sprintf("ByteOffset %d len %d", qe.ByteOffset, len(s))})
					}
				}
			}
		}
	case "one":
		f, err := os.Open(o.In)
		if err != nil {
			panic(err)
		}
		sc := bufio.NewScanner(f)
		sc.Buffer(make([]byte, 1<<20), 1<<20)
		for sc.Scan() {
			s, err := strconv.Unquote(sc.Text())
			if err != nil {
				continue
			}
			checkPrefixes(s, "replay", &c, emitC)
			for _, lang := range langs {
				e := parse(s, lang)
				checkPos(s, lang, e, "replay", &c, emitC)
				hx.Emit(map[string]any{"src": s, "lang": lang.String(), "ok": e.Ok, "err": e.Msg, "incomplete": e.Inc})
			}
		}
	}
	hx.Emit(map[string]any{"summary": c, "failures": nfail, "classes": classes})
}
