// c19: pathname expansion.
//
//	gen     code leg: expand.Fields with Config.ReadDir2 served from a generated in-memory tree (no disk)
//	        on glob words of the modelled fragment; emits Coq terms of the input and of the Go result
//	search  the same kind of trees materialised in a scratch directory; `printf '%s\n' WORD` in
//	        interp.Runner vs real bash 5.2 under the same shopt set
//	witness pinned witnesses of known findings / repaired defects
package main

import (
	"fmt"
	"io/fs"
	"math/rand/v2"
	"os"
	"path/filepath"
	"sort"
	"strconv"
	"strings"
	"syscall"
	"time"

	"mvdan.cc/sh/v3/expand"
	"mvdan.cc/sh/v3/syntax"
	"verifharness/hx"
	"verifharness/hxbash"
)

// ---------------------------------------------------------------- trees (flat: path -> kind)

type Ent struct {
	Path []string // components from the root
	Kind string   // "f" file, "d" dir, "l" symlink
	Tgt  []string // symlink target: absolute components (may not exist)
}

type Tree []Ent

func (t Tree) kind(p []string) (Ent, bool) {
	if len(p) == 0 {
		return Ent{Kind: "d"}, true
	}
	for _, e := range t {
		if eq(e.Path, p) {
			return e, true
		}
	}
	return Ent{}, false
}

func eq(a, b []string) bool {
	if len(a) != len(b) {
		return false
	}
	for i := range a {
		if a[i] != b[i] {
			return false
		}
	}
	return true
}

var errNotDir = &fs.PathError{Op: "readdir", Err: syscall.ENOTDIR}
var errNotExist = &fs.PathError{Op: "open", Err: syscall.ENOENT}

// resolve follows symlinks in every component (like the kernel for open(2))
func (t Tree) resolve(comps []string, fuel int) ([]string, error) {
	cur := []string{}
	for _, c := range comps {
		if c == "" || c == "." {
			continue
		}
		if k, _ := t.kind(cur); k.Kind != "d" {
			return nil, errNotDir
		}
		next := append(append([]string{}, cur...), c)
		e, ok := t.kind(next)
		if !ok {
			return nil, errNotExist
		}
		if e.Kind == "l" {
			if fuel == 0 {
				return nil, errNotExist
			}
			r, err := t.resolve(e.Tgt, fuel-1)
			if err != nil {
				return nil, err
			}
			cur = r
		} else {
			cur = next
		}
	}
	return cur, nil
}

type memEntry struct {
	name string
	kind string
}

func (m memEntry) Name() string { return m.name }
func (m memEntry) IsDir() bool  { return m.kind == "d" }
func (m memEntry) Type() fs.FileMode {
	switch m.kind {
	case "d":
		return fs.ModeDir
	case "l":
		return fs.ModeSymlink
	}
	return 0
}
func (m memEntry) Info() (fs.FileInfo, error) { return memInfo{m}, nil }

type memInfo struct{ e memEntry }

func (i memInfo) Name() string       { return i.e.name }
func (i memInfo) Size() int64        { return 0 }
func (i memInfo) Mode() fs.FileMode  { return i.e.Type() | 0o644 }
func (i memInfo) ModTime() time.Time { return time.Time{} }
func (i memInfo) IsDir() bool        { return i.e.kind == "d" }
func (i memInfo) Sys() any           { return nil }

func (t Tree) readDir(path string) ([]fs.DirEntry, error) {
	p, err := t.resolve(strings.Split(path, "/"), 8)
	if err != nil {
		return nil, err
	}
	if k, _ := t.kind(p); k.Kind != "d" {
		return nil, errNotDir
	}
	var out []fs.DirEntry
	for _, e := range t {
		if len(e.Path) == len(p)+1 && eq(e.Path[:len(p)], p) {
			out = append(out, memEntry{e.Path[len(p)], e.Kind})
		}
	}
	sort.Slice(out, func(i, j int) bool { return out[i].Name() < out[j].Name() })
	return out, nil
}

var namePool = []string{"a", "b", "ab", "A", ".h", ".x", "x", "ax", "b.t", "é", "d", "dd", "sub", "a b", "*s", "B", ".a", "-",
	"a\\b", "a\\bc", "x\\", "abc", "?q", "[z", "]z", "a*b", "a[b]", "d\\e"}

func genTree(r *rand.Rand, rich bool) Tree {
	var t Tree
	var addDir func(prefix []string, depth int)
	addDir = func(prefix []string, depth int) {
		n := 2 + r.IntN(5)
		names := append([]string{}, namePool...)
		if !rich {
			names = names[:13]
		}
		r.Shuffle(len(names), func(i, j int) { names[i], names[j] = names[j], names[i] })
		var here []string
		used := map[string]bool{}
		// a family of sibling directories whose names are in prefix relation with a next character that sorts
		// before '/' (space - . + ,): per-directory sorted listings are then not globally sorted
		if depth < 2 && r.IntN(3) == 0 {
			base := hx.Pick(r, []string{"a", "k", "d"})
			sufs := []string{"", ".d", "-b", " b", "+c", ",x"}
			r.Shuffle(len(sufs), func(i, j int) { sufs[i], sufs[j] = sufs[j], sufs[i] })
			for _, sf := range sufs[:3+r.IntN(4)] {
				nm := base + sf
				used[nm] = true
				p := append(append([]string{}, prefix...), nm)
				t = append(t, Ent{Path: p, Kind: "d"})
				t = append(t, Ent{Path: append(append([]string{}, p...), "f"), Kind: "f"})
				if r.IntN(2) == 0 {
					t = append(t, Ent{Path: append(append([]string{}, p...), "x"), Kind: "f"})
				}
				here = append(here, nm)
			}
		}
		for i := 0; i < n && i < len(names); i++ {
			if used[names[i]] {
				continue
			}
			p := append(append([]string{}, prefix...), names[i])
			switch k := r.IntN(10); {
			case k < 5:
				t = append(t, Ent{Path: p, Kind: "f"})
			case k < 8 && depth < 2:
				t = append(t, Ent{Path: p, Kind: "d"})
				addDir(p, depth+1)
			case k < 8:
				t = append(t, Ent{Path: p, Kind: "d"})
			default:
				// symlink to an earlier sibling (file or dir) or dangling; never to an ancestor: no loops
				var tgt []string
				if len(here) > 0 && r.IntN(4) > 0 {
					tgt = append(append([]string{}, prefix...), hx.Pick(r, here))
				} else {
					tgt = append(append([]string{}, prefix...), "nonexistent")
				}
				t = append(t, Ent{Path: p, Kind: "l", Tgt: tgt})
				continue
			}
			here = append(here, names[i])
		}
	}
	addDir(nil, 0)
	return t
}

func (t Tree) materialise(root string) error {
	for _, e := range t {
		p := filepath.Join(append([]string{root}, e.Path...)...)
		switch e.Kind {
		case "d":
			if err := os.MkdirAll(p, 0o755); err != nil {
				return err
			}
		case "f":
			if err := os.WriteFile(p, nil, 0o644); err != nil {
				return err
			}
		case "l":
			// relative target: the sibling's name
			if err := os.Symlink(e.Tgt[len(e.Tgt)-1], p); err != nil {
				return err
			}
		}
	}
	return nil
}

// ---------------------------------------------------------------- words and options

type Opts struct{ Dot, Null, Star, NoCase, Ext, NoGlob bool }

func (o Opts) shopt() string {
	var sb strings.Builder
	add := func(b bool, s string) {
		if b {
			sb.WriteString(s + "\n")
		}
	}
	add(o.Dot, "shopt -s dotglob")
	add(o.Null, "shopt -s nullglob")
	add(o.Star, "shopt -s globstar")
	add(o.NoCase, "shopt -s nocaseglob")
	add(o.Ext, "shopt -s extglob")
	add(o.NoGlob, "set -f")
	return sb.String()
}

func genOpts(r *rand.Rand, model bool) Opts {
	o := Opts{Dot: r.IntN(4) == 0, Null: r.IntN(4) == 0, Star: r.IntN(2) == 0, NoGlob: r.IntN(12) == 0}
	if !model {
		o.NoCase = r.IntN(5) == 0
		o.Ext = r.IntN(4) == 0
	}
	return o
}

var compsModel = []string{"*", "*", "?", "??", "a*", "*b", "?x", ".*", ".?", "*.*", "**", "**", "a", "d", "dd", "sub", ".", "", "x", "*a*", "d*", "a?", "a**", "*?"}
// quoted parts holding each metacharacter alone (backslash included), next to unquoted wildcards
var compsQuoted = []string{"'a\\b'*", "\"a\\\\b\"*", "*'\\'", "*'\\'*", "'d\\'?", "*'\\'[ef]", "'?'*", "*'?'*", "\"?\"q", "'['*", "*'['*", "']'*", "*\"]\"*", "'*'*", "a'*'?", "*'*'*",
	"'a['*", "?'\\'*", "'x\\'", "*\"\\\\\"", "[ad]'\\'*"}
var compsWide = []string{"[ab]*", "[!a]*", "[a-c]", "\\*", "\"*\"", "'?'x", "[[:upper:]]*", "[[:lower:]]", "@(a|b)", "!(a)", "*(a|b)", "+(d)", "..", "[.]h", "\"a b\"", "a\\ b", "*\"*\"s", "[*]s", "é", "?(a)b", "{a,b}*"}

// multi-component words whose non-final component matches several siblings
var wordsPrefixFamily = []string{"a*/f", "a*/", "k*/?", "d*/f", "a*/*", "*/f", "k*/f", "a?*/f", "./a*/f", "*/a*/f", "d*/", "k*/x", "*/k*/?", "a*/.", "?*/f"}

func genWord(r *rand.Rand, wide bool) string {
	if r.IntN(5) == 0 {
		return hx.Pick(r, wordsPrefixFamily)
	}
	n := 1 + r.IntN(3)
	if r.IntN(3) == 0 {
		n = 1
	}
	var cs []string
	for i := 0; i < n; i++ {
		if wide && r.IntN(4) == 0 {
			cs = append(cs, hx.Pick(r, compsQuoted))
		} else if wide && r.IntN(3) == 0 {
			cs = append(cs, hx.Pick(r, compsWide))
		} else {
			cs = append(cs, hx.Pick(r, compsModel))
		}
	}
	w := strings.Join(cs, "/")
	if w == "" || strings.HasPrefix(w, "/") {
		w = "*" + w // relative words only
	}
	return w
}

// ---------------------------------------------------------------- Coq rendering

func cStr(s string) string {
	var sb strings.Builder
	sb.WriteByte('[')
	for i, r := range []rune(s) {
		if i > 0 {
			sb.WriteByte(';')
		}
		sb.WriteString(strconv.Itoa(int(r)))
	}
	sb.WriteByte(']')
	return sb.String()
}

func cStrs(l []string) string {
	xs := make([]string, len(l))
	for i, s := range l {
		xs[i] = cStr(s)
	}
	return "[" + strings.Join(xs, ";") + "]"
}

func cTree(t Tree) string {
	xs := make([]string, len(t))
	for i, e := range t {
		k := "KFile"
		switch e.Kind {
		case "d":
			k = "KDir"
		case "l":
			k = "(KLink " + cStrs(e.Tgt) + ")"
		}
		xs[i] = "(" + cStrs(e.Path) + "," + k + ")"
	}
	return "[" + strings.Join(xs, ";") + "]"
}

func cOpts(o Opts) string {
	return fmt.Sprintf("(mkO %v %v %v %v)", o.Dot, o.Null, o.Star, o.NoGlob)
}

type genRow struct {
	Word string `json:"word"`
	Opts string `json:"opts"`
	In   string `json:"coq_in"`
	Obs  string `json:"coq_obs"`
	NRes int    `json:"nres"`
}

func observe(t Tree, word string, o Opts) genRow {
	row := genRow{Word: word, Opts: fmt.Sprintf("%+v", o)}
	row.In = "(" + cTree(t) + "," + cStr(word) + "," + cOpts(o) + ")"
	var words []*syntax.Word
	for w, err := range syntax.NewParser(syntax.Variant(syntax.LangBash)).WordsSeq(strings.NewReader(word)) {
		if err != nil {
			row.Obs = "PARSE:" + err.Error()
			return row
		}
		words = append(words, w)
	}
	cfg := &expand.Config{
		Env:      expand.ListEnviron("PWD=/"),
		GlobStar: o.Star, DotGlob: o.Dot, NullGlob: o.Null,
	}
	if !o.NoGlob {
		cfg.ReadDir2 = t.readDir
	}
	var fields []string
	var err error
	if pan, _ := hx.Try(func() { fields, err = expand.Fields(cfg, words...) }); pan {
		row.Obs = "GPanic"
		return row
	}
	if err != nil {
		row.Obs = "GErr"
		return row
	}
	if fields == nil {
		fields = []string{}
	}
	row.NRes = len(fields)
	row.Obs = "(GOk " + cStrs(fields) + ")"
	return row
}

// ---------------------------------------------------------------- search

type searchRow struct {
	Script string   `json:"script"`
	Tree   string   `json:"tree"`
	Interp string   `json:"interp"`
	Bash   string   `json:"bash"`
	Fails  []string `json:"fails"`
	Class  string   `json:"class"`
	Expect string   `json:"expect,omitempty"`
}

func (t Tree) String() string {
	var xs []string
	for _, e := range t {
		s := strings.Join(e.Path, "/")
		switch e.Kind {
		case "d":
			s += "/"
		case "l":
			s += "->" + e.Tgt[len(e.Tgt)-1]
		}
		xs = append(xs, s)
	}
	return strings.Join(xs, " ")
}

const resetText = "shopt -u dotglob nullglob globstar nocaseglob extglob; set +f"

func compare(srcs, dirs []string, trees []string, classes []string, scratch string) []searchRow {
	bres, err := hxbash.Bash(srcs, dirs, nil, resetText, scratch)
	if err != nil {
		fmt.Fprintln(os.Stderr, "bash:", err)
		os.Exit(3)
	}
	rows := make([]searchRow, len(srcs))
	for i := range srcs {
		in := hxbash.Interp(srcs[i], dirs[i])
		io, bo := in.Out, bres[i].Out
		if in.Kind != "" {
			io = "[" + in.Kind + "] " + in.Err
		}
		row := searchRow{Script: srcs[i], Tree: trees[i], Interp: io, Bash: bo}
		if classes != nil {
			row.Expect = "agrees"
			if classes[i] != "" {
				row.Expect = "differs"
			}
		}
		if io != bo {
			row.Fails = []string{"paths_differ_from_bash"}
			if classes != nil {
				row.Class = classes[i]
			}
		}
		rows[i] = row
	}
	return rows
}

// unquoteComp removes the quotes of a word component and reports whether an unquoted * ? [ remains
func unquoteComp(c string) (string, bool) {
	var sb strings.Builder
	q, meta := byte(0), false
	for i := 0; i < len(c); i++ {
		b := c[i]
		switch {
		case q == 0 && (b == '\'' || b == '"'):
			q = b
		case q != 0 && b == q:
			q = 0
		case q == '"' && b == '\\' && i+1 < len(c) && strings.IndexByte("\\\"$`", c[i+1]) >= 0:
			i++
			sb.WriteByte(c[i])
		default:
			if q == 0 && (b == '*' || b == '?' || b == '[') {
				meta = true
			}
			sb.WriteByte(b)
		}
	}
	return sb.String(), meta
}

func hasUnquotedBackslash(w string) bool {
	q := byte(0)
	for i := 0; i < len(w); i++ {
		c := w[i]
		switch {
		case q == 0 && (c == '\'' || c == '"'):
			q = c
		case q != 0 && c == q:
			q = 0
		case q == '"' && c == '\\':
			i++ // an escape inside double quotes: still quoted text
		case q == 0 && c == '\\':
			return true
		}
	}
	return false
}

// sampling domain of the search: classes of words on which the pinned tree is known to differ
// from bash are kept out (each has a pinned witness)
func inDomain(word string, o Opts, t Tree) bool {
	if hasUnquotedBackslash(word) {
		return false // class unquoted_backslash_meta (an unquoted \* globs as *); quoted backslashes stay in
	}
	if strings.Contains(word, "[[:") {
		return false // character classes: C17 (non-ASCII letters), class nocase_charclass
	}
	for _, op := range []string{"@(", "!(", "*(", "+(", "?("} {
		if strings.Contains(word, op) {
			return false // class extglob_only_pattern; extglob matching itself is C17's
		}
	}
	comps := strings.Split(word, "/")
	nup := 0
	for _, c := range comps {
		if c == ".." {
			nup++
		}
	}
	if nup > 1 {
		return false // would leave the per-tree scratch directory (harness artefact: the driver files live above it)
	}
	for i, c := range comps {
		if lit, meta := unquoteComp(c); i > 0 && !meta {
			// class literal_component_dangling_symlink: a literal component (possibly quoted, like "?"q) after a
			// glob one names a dangling symlink
			for _, e := range t {
				if e.Kind == "l" && e.Path[len(e.Path)-1] == lit {
					if _, err := t.resolve(e.Path, 8); err != nil {
						return false
					}
				}
			}
		}
		if c == "" && i > 0 && i < len(comps)-1 {
			return false // class double_slash_kept: bash keeps "//" after a literal component
		}
		if c == "**" && i > 0 && i < len(comps)-1 && o.Star {
			// class globstar_symlink_after_prefix: bash 5.2 follows symlinks to directories below "**" when the
			// "**" has a directory prefix and more components follow (./**/x finds ./ldir/x), but not for a leading "**"
			for _, e := range t {
				if e.Kind == "l" {
					if p, err := t.resolve(e.Path, 8); err == nil {
						if k, _ := t.kind(p); k.Kind == "d" {
							return false
						}
					}
				}
			}
		}
		if c == "**" && i > 0 && o.Star {
			prev := comps[i-1]
			if prev == "**" {
				return false // class globstar_repeated
			}
			for _, q := range comps[:i] {
				if strings.ContainsAny(q, "*?[") {
					return false // class globstar_after_glob_component (also with . components in between)
				}
			}
		}
	}
	return true
}

var witnessTree = Tree{
	{Path: []string{"a"}, Kind: "f"}, {Path: []string{"ax"}, Kind: "f"}, {Path: []string{".x"}, Kind: "f"}, {Path: []string{".hid"}, Kind: "f"},
	{Path: []string{"A"}, Kind: "f"}, {Path: []string{"b.txt"}, Kind: "f"}, {Path: []string{"*s"}, Kind: "f"},
	{Path: []string{"dir"}, Kind: "d"}, {Path: []string{"dir", "x"}, Kind: "f"}, {Path: []string{"dir", ".y"}, Kind: "f"},
	{Path: []string{"dir", "sub"}, Kind: "d"}, {Path: []string{"dir", "sub", "z"}, Kind: "f"},
	{Path: []string{"ldir"}, Kind: "l", Tgt: []string{"dir"}}, {Path: []string{"lfile"}, Kind: "l", Tgt: []string{"a"}},
	{Path: []string{"broken"}, Kind: "l", Tgt: []string{"nonexistent"}},
	{Path: []string{"dir", "dangling"}, Kind: "l", Tgt: []string{"dir", "nonexistent"}},
	{Path: []string{"dir", "lsub"}, Kind: "l", Tgt: []string{"dir", "sub"}},
	// names with a backslash, and the same names without it
	{Path: []string{"a\\b"}, Kind: "f"}, {Path: []string{"a\\bc"}, Kind: "f"}, {Path: []string{"ab"}, Kind: "f"}, {Path: []string{"abc"}, Kind: "f"},
	{Path: []string{"x\\"}, Kind: "f"},
	// sibling directories in prefix relation, next character below '/'
	{Path: []string{"k"}, Kind: "d"}, {Path: []string{"k", "f"}, Kind: "f"},
	{Path: []string{"k.d"}, Kind: "d"}, {Path: []string{"k.d", "f"}, Kind: "f"},
	{Path: []string{"k-b"}, Kind: "d"}, {Path: []string{"k-b", "f"}, Kind: "f"},
	{Path: []string{"k b"}, Kind: "d"}, {Path: []string{"k b", "f"}, Kind: "f"},
}

var witnesses = []struct{ Class, Script string }{
	{"unquoted_backslash_meta", "printf '%s\\n' \\*"},
	{"nocase_charclass", "shopt -s nocaseglob\nprintf '%s\\n' [[:upper:]]"},
	{"extglob_only_pattern", "shopt -s extglob\nprintf '%s\\n' @(a|b)"},
	{"globstar_after_glob_component", "shopt -s globstar\nprintf '%s\\n' d*/**"},
	{"globstar_repeated", "shopt -s globstar\nprintf '%s\\n' **/**"},
	{"double_slash_kept", "printf '%s\\n' dir//*"},
	{"", "shopt -s -o noglob\nprintf '%s\\n' a*\nshopt -u -o noglob\nprintf '%s\\n' a*\nset -f\nshopt -u -o noglob\nprintf '%s\\n' a*"},
	// pinned regression inputs (ordinary inputs; one or two per mechanism that a seeded change once broke)
	{"", "shopt -s globstar\nprintf '%s\\n' dir/**/"},
	{"", "printf '%s\\n' 'a\\b'* *'\\' \"a\\\\b\"?"},
	{"", "printf '%s\\n' \"b*\"* 'y['* \"what?\"*.txt 'back\\slash'*"},
	{"", "set -f\nshopt -s nullglob\nprintf '%s\\n' *.x end"},
	{"", "set -f\nshopt -s globstar\nprintf '%s\\n' dir/** none/**/"},
	{"", "printf '%s\\n' k*/f k*/ ./k*/?"},
	{"globstar_symlink_after_prefix", "shopt -s globstar\nprintf '%s\\n' ./**/x"},
	{"literal_component_dangling_symlink", "printf '%s\\n' */\"dangling\""},
	{"literal_component_dangling_symlink", "printf '%s\\n' */dangling"},
	// repaired by fix: commits
	{"", "printf '%s\\n' ?x"},
	{"", "printf '%s\\n' [!a]*"},
	{"", "printf '%s\\n' ?hid .?"},
	{"", "shopt -s globstar\nprintf '%s\\n' **"},
	{"", "shopt -s globstar\nprintf '%s\\n' **/ **/x ldir/**"},
	{"", "shopt -s globstar dotglob\nprintf '%s\\n' **"},
}

// option toggles in every spelling, each immediately followed by a glob word in the same shell
var toggles = []string{"set -f", "set +f", "set -o noglob", "set +o noglob", "shopt -s -o noglob", "shopt -u -o noglob",
	"shopt -so noglob", "shopt -uo noglob",
	"shopt -s nullglob", "shopt -u nullglob", "shopt -s dotglob", "shopt -u dotglob", "shopt -s globstar", "shopt -u globstar",
	"shopt -s nocaseglob", "shopt -u nocaseglob", "shopt -s extglob", "shopt -u extglob"}

func genSeq(r *rand.Rand, t Tree) string {
	var sb strings.Builder
	n := 2 + r.IntN(3)
	for i := 0; i < n; i++ {
		tg := hx.Pick(r, toggles)
		if r.IntN(2) == 0 { // noglob spellings are the interesting ones
			tg = toggles[r.IntN(8)]
		}
		var w string
		for {
			w = genWord(r, false)
			// in the domain whatever the options are at that point
			if inDomain(w, Opts{Star: true}, t) && inDomain(w, Opts{}, t) && !strings.Contains(w, "**") {
				break
			}
		}
		sb.WriteString(tg + "\nprintf '%s\\n' " + w + "\n")
	}
	return sb.String()
}

func main() {
	o := hx.ParseArgs()
	defer hx.Flush()
	switch o.Mode {
	case "gen":
		r := hx.Rand(o.Seed, 19)
		n := 0
		// pinned regression inputs of the modelled fragment, on the witness tree, under every option set of the model
		for _, w := range []string{"k*/f", "k*/", "./k*/?", "**/", "dir/**/", "**", "**/x", "ldir/**", "?x", "*.*", "*/x", "*/dangling", "nomatch*"} {
			for m := 0; m < 16; m++ {
				hx.Emit(observe(witnessTree, w, Opts{Dot: m&1 != 0, Null: m&2 != 0, Star: m&4 != 0, NoGlob: m&8 != 0}))
			}
		}
		for n < o.N {
			t := genTree(r, false)
			for k := 0; k < 25 && n < o.N; k++ {
				hx.Emit(observe(t, genWord(r, false), genOpts(r, true)))
				n++
			}
		}
	case "search", "witness":
		scratch, err := os.MkdirTemp("", "c19s")
		if err != nil {
			panic(err)
		}
		defer os.RemoveAll(scratch)
		var srcs, dirs, trees, classes []string
		if o.Mode == "witness" {
			root := filepath.Join(scratch, "wt", "w")
			os.MkdirAll(root, 0o755)
			if err := witnessTree.materialise(root); err != nil {
				panic(err)
			}
			for _, w := range witnesses {
				srcs = append(srcs, w.Script+"\n")
				dirs = append(dirs, root)
				trees = append(trees, witnessTree.String())
				classes = append(classes, w.Class)
			}
		} else {
			r := hx.Rand(o.Seed, 1900)
			nt := 0
			for len(srcs) < o.N {
				t := genTree(r, true)
				root := filepath.Join(scratch, "t"+strconv.Itoa(nt), "w") // ".." sees only "w"
				nt++
				os.MkdirAll(root, 0o755)
				if err := t.materialise(root); err != nil {
					panic(err)
				}
				for k := 0; k < 40 && len(srcs) < o.N; k++ {
					if k%5 == 4 {
						srcs = append(srcs, genSeq(r, t))
						dirs = append(dirs, root)
						trees = append(trees, t.String())
						continue
					}
					word, op := genWord(r, true), genOpts(r, false)
					if o.Tier != "raw" && !inDomain(word, op, t) {
						continue
					}
					srcs = append(srcs, op.shopt()+"printf '%s\\n' "+word+"\n")
					dirs = append(dirs, root)
					trees = append(trees, t.String())
				}
			}
		}
		for _, row := range compare(srcs, dirs, trees, classes, scratch) {
			hx.Emit(row)
		}
	}
}
