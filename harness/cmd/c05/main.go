// c05: search harness for property C05 (see hxfmt.Run and checks/c05.py).
//   c05 search -tier quick|thorough -seed N   whole-language search over the fixed enumeration
//   c05 one -in FILE                          replay one case {"src":hex,"lang":..,"opts":..,"simplify":..}
package main

import (
	"verifharness/hx"
	"verifharness/hxfmt"
)

func main() {
	o := hx.ParseArgs()
	defer hx.Flush()
	hxfmt.Main("C05", o)
}
