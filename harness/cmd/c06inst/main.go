// c06inst: build-time instrumentation for the C06 progress check. It never
// touches the repo: it reads <repo>/syntax/{lexer,parser,parser_arithm}.go,
// writes instrumented copies into -out and an overlay.json for `go build -overlay`.
//
// Inserted statements (all refer to variables of syntax/verif_hooks_c06.go):
//
//	func (p *Parser) next() { VerifNextCount++; ...
//	func (p *Parser) rune() rune { VerifRuneCount++; ...
//	for ... { VerifLoopCount++; ...        (every for/range body in the three files)
//	L: ...; goto L                         (every label that is the target of a goto: VerifLoopCount++ after the label)
//
// usage: c06inst inst -in <repo> [-out dir]   (hx flag conventions: -in = repo dir, first extra arg = out dir)
package main

import (
	"encoding/json"
	"fmt"
	"go/ast"
	"go/parser"
	"go/token"
	"os"
	"path/filepath"
	"sort"

	"verifharness/hx"
)

type ins struct {
	off  int
	text string
}

func main() {
	o := hx.ParseArgs()
	repo := o.In
	if repo == "" {
		repo = "/repo"
	}
	if len(o.Args) < 1 {
		fmt.Fprintln(os.Stderr, "need output dir")
		os.Exit(2)
	}
	outDir := o.Args[0]
	os.MkdirAll(outDir, 0o755)
	overlay := map[string]map[string]string{"Replace": {}}
	report := map[string]any{}
	nNext, nRune, nLoop, nGoto := 0, 0, 0, 0
	for _, name := range []string{"lexer.go", "parser.go", "parser_arithm.go"} {
		path := filepath.Join(repo, "syntax", name)
		src, err := os.ReadFile(path)
		if err != nil {
			fmt.Fprintln(os.Stderr, err)
			os.Exit(1)
		}
		fset := token.NewFileSet()
		af, err := parser.ParseFile(fset, path, src, parser.SkipObjectResolution)
		if err != nil {
			fmt.Fprintln(os.Stderr, err)
			os.Exit(1)
		}
		var edits []ins
		off := func(p token.Pos) int { return fset.Position(p).Offset }
		gotoTargets := map[string]bool{}
		ast.Inspect(af, func(n ast.Node) bool {
			if b, ok := n.(*ast.BranchStmt); ok && b.Tok == token.GOTO && b.Label != nil {
				gotoTargets[b.Label.Name] = true
			}
			return true
		})
		ast.Inspect(af, func(n ast.Node) bool {
			switch n := n.(type) {
			case *ast.FuncDecl:
				if n.Recv != nil && n.Body != nil && len(n.Recv.List) == 1 {
					if st, ok := n.Recv.List[0].Type.(*ast.StarExpr); ok {
						if id, ok := st.X.(*ast.Ident); ok && id.Name == "Parser" {
							switch n.Name.Name {
							case "next":
								edits = append(edits, ins{off(n.Body.Lbrace) + 1, " VerifNextCount++;"})
								nNext++
							case "rune":
								edits = append(edits, ins{off(n.Body.Lbrace) + 1, " VerifRuneCount++;"})
								nRune++
							}
						}
					}
				}
			case *ast.ForStmt:
				edits = append(edits, ins{off(n.Body.Lbrace) + 1, " VerifLoopCount++;"})
				nLoop++
			case *ast.RangeStmt:
				edits = append(edits, ins{off(n.Body.Lbrace) + 1, " VerifLoopCount++;"})
				nLoop++
			case *ast.LabeledStmt:
				switch n.Stmt.(type) {
				case *ast.ForStmt, *ast.RangeStmt, *ast.SwitchStmt, *ast.TypeSwitchStmt, *ast.SelectStmt:
					// the label may be a break/continue target: leave it attached; the loop body is counted anyway
					return true
				}
				if gotoTargets[n.Label.Name] {
					// "L:" + "\n" stmt  ->  "L: VerifLoopCount++;" stmt
					edits = append(edits, ins{off(n.Colon) + 1, " VerifLoopCount++;"})
					nGoto++
				}
			}
			return true
		})
		sort.Slice(edits, func(i, j int) bool { return edits[i].off > edits[j].off })
		out := append([]byte{}, src...)
		for _, e := range edits {
			out = append(out[:e.off:e.off], append([]byte(e.text), out[e.off:]...)...)
		}
		dst := filepath.Join(outDir, name)
		if err := os.WriteFile(dst, out, 0o644); err != nil {
			fmt.Fprintln(os.Stderr, err)
			os.Exit(1)
		}
		// the instrumented copy must still parse
		if _, err := parser.ParseFile(token.NewFileSet(), dst, nil, 0); err != nil {
			fmt.Fprintln(os.Stderr, "instrumented file does not parse:", err)
			os.Exit(1)
		}
		overlay["Replace"][path] = dst
	}
	b, _ := json.MarshalIndent(overlay, "", " ")
	os.WriteFile(filepath.Join(outDir, "overlay.json"), b, 0o644)
	report["next_sites"], report["rune_sites"], report["loop_sites"], report["goto_label_sites"] = nNext, nRune, nLoop, nGoto
	hx.Emit(report)
	hx.Flush()
}
