// c11: "Language variants gate their features consistently".
//
//	c11 search  per input: (posix) a tree accepted under LangPOSIX holds no non-POSIX node kind/flag;
//	            (bats) accepted as bash => accepted as bats with the same tree;
//	            (recover) valid input parses identically under RecoverErrors(1,2,3,100), every variant
//	c11 gates   go/ast over <repo>/syntax/*.go: every `X.lang.in(SET)` / `checkLang(pos, SET, ...)` call site with
//	            its variant set, and every other use of a `.lang` field -> rows for coq/Gen/LangSets.v
//	c11 kinds   the flag table of the POSIX tree checker -> rows for coq/Gen/LangSets.v
package main

import (
	"fmt"
	"go/ast"
	goparser "go/parser"
	"go/token"
	"os"
	"path/filepath"
	"reflect"
	"sort"
	"strconv"
	"strings"
	"time"

	"mvdan.cc/sh/v3/syntax"
	"verifharness/hx"
	hs "verifharness/hxc06"
)

// ---------------------------------------------------------------- POSIX tree checker

type flagDef struct {
	Name     string
	NonPOSIX bool
}

// the flag table: index = flag id. Kinds that POSIX has come first (NonPOSIX=false) so that trees are not trivial.
var flagTable = []flagDef{
	{"File", false}, {"Stmt", false}, {"CallExpr", false}, {"Word", false}, {"Lit", false}, {"SglQuoted", false}, {"DblQuoted", false},
	{"ParamExp", false}, {"CmdSubst", false}, {"ArithmExp", false}, {"Redirect", false}, {"Assign", false}, {"IfClause", false},
	{"WhileClause", false}, {"ForClause", false}, {"CaseClause", false}, {"Block", false}, {"Subshell", false}, {"BinaryCmd", false},
	{"FuncDecl", false}, {"Comment", false}, {"other", false},
	// ---- non-POSIX node kinds
	{"TestClause [[ ]]", true}, {"ArithmCmd (( ))", true}, {"ArrayExpr", true}, {"ProcSubst", true}, {"ExtGlob", true},
	{"LetClause", true}, {"DeclClause", true}, {"CoprocClause", true}, {"TimeClause", true}, {"TestDecl @test", true},
	{"CStyleLoop", true}, {"BraceExp", true}, {"FlagsArithm", true},
	// ---- non-POSIX flags on POSIX node kinds
	{"SglQuoted.Dollar $''", true}, {"DblQuoted.Dollar $\"\"", true}, {"FuncDecl.RsrvWord function", true}, {"FuncDecl.anonymous/multi-name", true},
	{"ForClause.Select", true}, {"ForClause.Braces", true}, {"CaseClause.Braces", true},
	{"BinaryCmd |&", true}, {"Stmt.Coprocess |&", true}, {"Stmt.Disown &! &|", true},
	{"Redirect <<<", true}, {"Redirect &>", true}, {"Redirect &>>", true}, {"Redirect zsh clobber forms", true}, {"Redirect {varname}", true},
	{"CaseItem ;&", true}, {"CaseItem ;;&", true}, {"CaseItem ;|", true},
	{"Assign.Append +=", true}, {"Assign.Index a[i]=", true}, {"Assign.Array =()", true},
	{"ParamExp.Excl ${!a}", true}, {"ParamExp.Width ${%a}", true}, {"ParamExp.IsSet ${+a}", true}, {"ParamExp.Flags ${(f)a}", true},
	{"ParamExp.Split/GlobSubst/RcExpand", true}, {"ParamExp.NestedParam", true}, {"ParamExp.Index ${a[i]}", true},
	{"ParamExp.Modifiers ${a:h}", true}, {"ParamExp.Slice ${a:1:2}", true}, {"ParamExp.Repl ${a/x/y}", true}, {"ParamExp.Names ${!a*}", true},
	{"ParamExp.Exp case/@/zsh operator", true},
	{"ArithmExp.Bracket $[ ]", true}, {"ArithmExp.Unsigned $((# ))", true}, {"CmdSubst.TempFile ${ ;}", true}, {"CmdSubst.ReplyVar ${| ;}", true},
}

var flagID = func() map[string]int {
	m := map[string]int{}
	for i, f := range flagTable {
		m[f.Name] = i
	}
	return m
}()

func id(name string) int {
	i, ok := flagID[name]
	if !ok {
		panic("flag " + name)
	}
	return i
}

// nodeFlags: the kind of the node plus every non-POSIX flag set on it.
func nodeFlags(n syntax.Node) []int {
	var fl []int
	add := func(s string) { fl = append(fl, id(s)) }
	switch x := n.(type) {
	case *syntax.File:
		add("File")
	case *syntax.Stmt:
		add("Stmt")
		if x.Coprocess {
			add("Stmt.Coprocess |&")
		}
		if x.Disown {
			add("Stmt.Disown &! &|")
		}
	case *syntax.CallExpr:
		add("CallExpr")
	case *syntax.Word:
		add("Word")
	case *syntax.Lit:
		add("Lit")
	case *syntax.Comment:
		add("Comment")
	case *syntax.SglQuoted:
		add("SglQuoted")
		if x.Dollar {
			add("SglQuoted.Dollar $''")
		}
	case *syntax.DblQuoted:
		add("DblQuoted")
		if x.Dollar {
			add("DblQuoted.Dollar $\"\"")
		}
	case *syntax.CmdSubst:
		add("CmdSubst")
		if x.TempFile {
			add("CmdSubst.TempFile ${ ;}")
		}
		if x.ReplyVar {
			add("CmdSubst.ReplyVar ${| ;}")
		}
	case *syntax.ArithmExp:
		add("ArithmExp")
		if x.Bracket {
			add("ArithmExp.Bracket $[ ]")
		}
		if x.Unsigned {
			add("ArithmExp.Unsigned $((# ))")
		}
	case *syntax.ParamExp:
		add("ParamExp")
		if x.Excl {
			add("ParamExp.Excl ${!a}")
		}
		if x.Width {
			add("ParamExp.Width ${%a}")
		}
		if x.IsSet {
			add("ParamExp.IsSet ${+a}")
		}
		if x.Flags != nil {
			add("ParamExp.Flags ${(f)a}")
		}
		if x.Split != syntax.OptUnset || x.GlobSubst != syntax.OptUnset || x.RcExpand != syntax.OptUnset {
			add("ParamExp.Split/GlobSubst/RcExpand")
		}
		if x.NestedParam != nil {
			add("ParamExp.NestedParam")
		}
		if x.Index != nil {
			add("ParamExp.Index ${a[i]}")
		}
		if len(x.Modifiers) > 0 {
			add("ParamExp.Modifiers ${a:h}")
		}
		if x.Slice != nil {
			add("ParamExp.Slice ${a:1:2}")
		}
		if x.Repl != nil {
			add("ParamExp.Repl ${a/x/y}")
		}
		if x.Names != 0 {
			add("ParamExp.Names ${!a*}")
		}
		if x.Exp != nil {
			switch x.Exp.Op {
			case syntax.AlternateUnset, syntax.AlternateUnsetOrNull, syntax.DefaultUnset, syntax.DefaultUnsetOrNull,
				syntax.ErrorUnset, syntax.ErrorUnsetOrNull, syntax.AssignUnset, syntax.AssignUnsetOrNull,
				syntax.RemSmallSuffix, syntax.RemLargeSuffix, syntax.RemSmallPrefix, syntax.RemLargePrefix:
			default:
				add("ParamExp.Exp case/@/zsh operator")
			}
		}
	case *syntax.Redirect:
		add("Redirect")
		switch x.Op {
		case syntax.WordHdoc:
			add("Redirect <<<")
		case syntax.RdrAll:
			add("Redirect &>")
		case syntax.AppAll:
			add("Redirect &>>")
		case syntax.AppClob, syntax.RdrAllClob, syntax.AppAllClob:
			add("Redirect zsh clobber forms")
		}
		if x.N != nil && strings.HasPrefix(x.N.Value, "{") {
			add("Redirect {varname}")
		}
	case *syntax.Assign:
		add("Assign")
		if x.Append {
			add("Assign.Append +=")
		}
		if x.Index != nil {
			add("Assign.Index a[i]=")
		}
		if x.Array != nil {
			add("Assign.Array =()")
		}
	case *syntax.IfClause:
		add("IfClause")
	case *syntax.WhileClause:
		add("WhileClause")
	case *syntax.ForClause:
		add("ForClause")
		if x.Select {
			add("ForClause.Select")
		}
		if x.Braces {
			add("ForClause.Braces")
		}
	case *syntax.CaseClause:
		add("CaseClause")
		if x.Braces {
			add("CaseClause.Braces")
		}
	case *syntax.CaseItem:
		add("other")
		switch x.Op {
		case syntax.Fallthrough:
			add("CaseItem ;&")
		case syntax.Resume:
			add("CaseItem ;;&")
		case syntax.ResumeKorn:
			add("CaseItem ;|")
		}
	case *syntax.Block:
		add("Block")
	case *syntax.Subshell:
		add("Subshell")
	case *syntax.BinaryCmd:
		add("BinaryCmd")
		if x.Op == syntax.PipeAll {
			add("BinaryCmd |&")
		}
	case *syntax.FuncDecl:
		add("FuncDecl")
		if x.RsrvWord {
			add("FuncDecl.RsrvWord function")
		}
		if x.Name == nil || len(x.Names) > 0 {
			add("FuncDecl.anonymous/multi-name")
		}
	case *syntax.TestClause:
		add("TestClause [[ ]]")
	case *syntax.ArithmCmd:
		add("ArithmCmd (( ))")
	case *syntax.ArrayExpr:
		add("ArrayExpr")
	case *syntax.ProcSubst:
		add("ProcSubst")
	case *syntax.ExtGlob:
		add("ExtGlob")
	case *syntax.LetClause:
		add("LetClause")
	case *syntax.DeclClause:
		add("DeclClause")
	case *syntax.CoprocClause:
		add("CoprocClause")
	case *syntax.TimeClause:
		add("TimeClause")
	case *syntax.TestDecl:
		add("TestDecl @test")
	case *syntax.CStyleLoop:
		add("CStyleLoop")
	case *syntax.BraceExp:
		add("BraceExp")
	case *syntax.FlagsArithm:
		add("FlagsArithm")
	default:
		add("other")
	}
	return fl
}

// gtree: the generic tree handed to the Coq twin: "(f1,f2,..;child child ..)".
type gnode struct {
	flags []int
	kids  []*gnode
}

func toGeneric(root syntax.Node) *gnode {
	top := &gnode{}
	stack := []*gnode{top}
	syntax.Walk(root, func(n syntax.Node) bool {
		if n == nil {
			stack = stack[:len(stack)-1]
			return true
		}
		g := &gnode{flags: nodeFlags(n)}
		par := stack[len(stack)-1]
		par.kids = append(par.kids, g)
		stack = append(stack, g)
		return true
	})
	if len(top.kids) == 1 {
		return top.kids[0]
	}
	return top
}

func (g *gnode) coq(sb *strings.Builder) {
	sb.WriteString("(G [")
	for i, f := range g.flags {
		if i > 0 {
			sb.WriteByte(';')
		}
		sb.WriteString(strconv.Itoa(f))
	}
	sb.WriteString("] [")
	for i, k := range g.kids {
		if i > 0 {
			sb.WriteByte(';')
		}
		k.coq(sb)
	}
	sb.WriteString("])")
}

func (g *gnode) size() int {
	n := 1
	for _, k := range g.kids {
		n += k.size()
	}
	return n
}

func (g *gnode) nonPosix(out map[int]bool) {
	for _, f := range g.flags {
		if flagTable[f].NonPOSIX {
			out[f] = true
		}
	}
	for _, k := range g.kids {
		k.nonPosix(out)
	}
}

// ---------------------------------------------------------------- search

type obs struct {
	ID       string   `json:"id"`
	Hex      string   `json:"hex"`
	Accepted []string `json:"accepted"` // variants that accept the input (no recovery)
	PosixBad []string `json:"posix_bad,omitempty"`
	GTree    string   `json:"gtree,omitempty"` // generic tree of the POSIX parse (sampled, small ones) for the Coq twin
	GoPosix  *bool    `json:"go_posix_only,omitempty"`
	GTreeB   string   `json:"gtree_bash,omitempty"` // generic tree of the bash parse: exercises the `false` verdict of the checker
	GoBash   *bool    `json:"go_bash_posix_only,omitempty"`
	Fails    []string `json:"fails,omitempty"`
	Class    string   `json:"class,omitempty"`
	Note     string   `json:"note,omitempty"`
}

func parse(src string, cfg hs.Cfg) (f *syntax.File, err error, pan string) {
	defer func() {
		if r := recover(); r != nil {
			pan = fmt.Sprint(r)
		}
	}()
	f, err = cfg.New().Parse(strings.NewReader(src), "")
	return
}

// atTestWord: the bash tree holds the whole word `@test` among the words of a simple command (first word, or a later word
// that bats reaches as a statement start, e.g. after `coproc NAME`).
func atTestWord(f *syntax.File) bool {
	found := false
	syntax.Walk(f, func(n syntax.Node) bool {
		if ce, ok := n.(*syntax.CallExpr); ok {
			for _, w := range ce.Args {
				if w.Lit() == "@test" {
					found = true
				}
			}
		}
		return !found
	})
	return found
}

// batsKeywordClass: the disagreement is due to the `@test` keyword and nothing else: the bash tree has `@test` as a command word
// AND renaming that word makes bash and bats agree again.
func batsKeywordClass(src string, fb *syntax.File, keep bool) bool {
	if !atTestWord(fb) {
		return false
	}
	src2 := strings.ReplaceAll(src, "@test", "@tesu")
	f1, e1, p1 := parse(src2, hs.Cfg{Lang: syntax.LangBash, Keep: keep})
	f2, e2, p2 := parse(src2, hs.Cfg{Lang: syntax.LangBats, Keep: keep})
	return p1 == "" && p2 == "" && e1 == nil && e2 == nil && reflect.DeepEqual(f1, f2)
}

func searchCase(idStr, src string, keep bool, wantTree bool) obs {
	o := obs{ID: idStr, Hex: hx.Hex(src)}
	hs.SetCurrent("search " + o.Hex)
	trees := map[syntax.LangVariant]*syntax.File{}
	for _, l := range hs.Langs {
		f, err, pan := parse(src, hs.Cfg{Lang: l, Keep: keep})
		if pan != "" {
			o.Note = "Parse panicked (C06's business)"
			return o
		}
		if err == nil {
			trees[l] = f
			o.Accepted = append(o.Accepted, l.String())
		}
	}
	// (posix)
	if f := trees[syntax.LangPOSIX]; f != nil {
		g := toGeneric(f)
		bad := map[int]bool{}
		g.nonPosix(bad)
		var names []string
		for k := range bad {
			names = append(names, flagTable[k].Name)
		}
		sort.Strings(names)
		o.PosixBad = names
		for _, n := range names {
			o.Fails = append(o.Fails, "posix_accepts_nonposix:"+n)
		}
		if wantTree && g.size() <= 120 {
			var sb strings.Builder
			g.coq(&sb)
			o.GTree = sb.String()
			ok := len(names) == 0
			o.GoPosix = &ok
		}
	}
	if fb := trees[syntax.LangBash]; fb != nil && wantTree {
		if g := toGeneric(fb); g.size() <= 120 {
			bad := map[int]bool{}
			g.nonPosix(bad)
			var sb strings.Builder
			g.coq(&sb)
			o.GTreeB = sb.String()
			ok := len(bad) == 0
			o.GoBash = &ok
		}
	}
	// (bats)
	if fb := trees[syntax.LangBash]; fb != nil {
		ft, err, _ := parse(src, hs.Cfg{Lang: syntax.LangBats, Keep: keep})
		if err != nil {
			o.Fails = append(o.Fails, "bash_accepted_bats_rejected")
			o.Note += " bats err: " + err.Error()
		} else if !reflect.DeepEqual(fb, ft) {
			o.Fails = append(o.Fails, "bash_bats_trees_differ")
		}
		if (err != nil || !reflect.DeepEqual(fb, ft)) && batsKeywordClass(src, fb, keep) {
			o.Class = "bats_test_keyword"
		}
	}
	// (recover)
	for l, f := range trees {
		for _, n := range []int{1, 2, 3, 100} {
			fr, err, pan := parse(src, hs.Cfg{Lang: l, Keep: keep, Recover: n})
			if pan != "" {
				o.Fails = append(o.Fails, "recover_panics")
				continue
			}
			if err != nil {
				o.Fails = append(o.Fails, fmt.Sprintf("recover_rejects_valid_input:%s:%d", l, n))
				o.Note += " " + err.Error()
			} else if !reflect.DeepEqual(f, fr) {
				o.Fails = append(o.Fails, fmt.Sprintf("recover_changes_valid_tree:%s:%d", l, n))
			}
		}
	}
	return o
}

// ---------------------------------------------------------------- gates

type gateRow struct {
	File    string   `json:"file"`
	Line    int      `json:"line"`
	Func    string   `json:"func"`
	Kind    string   `json:"kind"` // in | notin | checkLang | ungated | wrapper
	Set     []string `json:"set"`  // variant names; nil when not constant
	Mask    int      `json:"mask"`
	Feature string   `json:"feature,omitempty"`
	Expr    string   `json:"expr"`
}

type constEnv struct {
	vals  map[string]int
	specs map[string]ast.Expr
}

func (c *constEnv) eval(e ast.Expr, depth int) (int, bool) {
	if depth > 20 {
		return 0, false
	}
	switch x := e.(type) {
	case *ast.Ident:
		if v, ok := c.vals[x.Name]; ok {
			return v, true
		}
		if s, ok := c.specs[x.Name]; ok {
			return c.eval(s, depth+1)
		}
	case *ast.ParenExpr:
		return c.eval(x.X, depth+1)
	case *ast.BinaryExpr:
		a, ok1 := c.eval(x.X, depth+1)
		b, ok2 := c.eval(x.Y, depth+1)
		if ok1 && ok2 {
			switch x.Op {
			case token.OR:
				return a | b, true
			case token.AND:
				return a & b, true
			case token.AND_NOT:
				return a &^ b, true
			case token.XOR:
				return a ^ b, true
			}
		}
	}
	return 0, false
}

func maskNames(m int) []string {
	var out []string
	for _, l := range hs.Langs {
		if m&int(l) != 0 {
			out = append(out, l.String())
		}
	}
	return out
}

func exprStr(fset *token.FileSet, src []byte, e ast.Node) string {
	s := string(src[fset.Position(e.Pos()).Offset:fset.Position(e.End()).Offset])
	if len(s) > 120 {
		s = s[:120]
	}
	return s
}

func gates() {
	dir := filepath.Join(hs.RepoDir(), "syntax")
	ents, err := os.ReadDir(dir)
	if err != nil {
		panic(err)
	}
	env := &constEnv{vals: map[string]int{}, specs: map[string]ast.Expr{}}
	// the exported constants come from the running code
	env.vals["LangBash"], env.vals["LangPOSIX"], env.vals["LangMirBSDKorn"] = int(syntax.LangBash), int(syntax.LangPOSIX), int(syntax.LangMirBSDKorn)
	env.vals["LangBats"], env.vals["LangZsh"], env.vals["LangAuto"] = int(syntax.LangBats), int(syntax.LangZsh), int(syntax.LangAuto)
	type parsed struct {
		name string
		src  []byte
		fset *token.FileSet
		af   *ast.File
	}
	var files []parsed
	for _, e := range ents {
		n := e.Name()
		if !strings.HasSuffix(n, ".go") || strings.HasSuffix(n, "_test.go") || strings.HasPrefix(n, "verif_") {
			continue
		}
		src, err := os.ReadFile(filepath.Join(dir, n))
		if err != nil {
			panic(err)
		}
		fset := token.NewFileSet()
		af, err := goparser.ParseFile(fset, n, src, 0)
		if err != nil {
			panic(err)
		}
		files = append(files, parsed{n, src, fset, af})
		for _, d := range af.Decls {
			if gd, ok := d.(*ast.GenDecl); ok && gd.Tok == token.CONST {
				for _, sp := range gd.Specs {
					vs := sp.(*ast.ValueSpec)
					for i, nm := range vs.Names {
						if i < len(vs.Values) {
							if _, exported := env.vals[nm.Name]; !exported {
								env.specs[nm.Name] = vs.Values[i]
							}
						}
					}
				}
			}
		}
	}
	isLangSel := func(e ast.Expr) bool {
		se, ok := e.(*ast.SelectorExpr)
		return ok && se.Sel.Name == "lang"
	}
	for _, pf := range files {
		for _, d := range pf.af.Decls {
			fd, ok := d.(*ast.FuncDecl)
			if !ok || fd.Body == nil {
				continue
			}
			fname := fd.Name.Name
			accounted := map[ast.Node]bool{} // .lang selectors that belong to a recognised gate
			negated := map[ast.Node]bool{}
			ast.Inspect(fd.Body, func(n ast.Node) bool {
				if u, ok := n.(*ast.UnaryExpr); ok && u.Op == token.NOT {
					negated[u.X] = true
				}
				return true
			})
			ast.Inspect(fd.Body, func(n ast.Node) bool {
				ce, ok := n.(*ast.CallExpr)
				if !ok {
					return true
				}
				se, ok := ce.Fun.(*ast.SelectorExpr)
				if !ok {
					return true
				}
				row := gateRow{File: pf.name, Line: pf.fset.Position(ce.Pos()).Line, Func: fname, Expr: exprStr(pf.fset, pf.src, ce)}
				switch {
				case se.Sel.Name == "in" && len(ce.Args) == 1 && (isLangSel(se.X) || isIdent(se.X, "lang")):
					accounted[se.X] = true
					row.Kind = "in"
					if negated[ce] {
						row.Kind = "notin"
					}
					if m, ok := env.eval(ce.Args[0], 0); ok {
						row.Mask, row.Set = m, maskNames(m)
					} else if fname == "checkLang" {
						row.Kind = "wrapper" // p.lang.in(langSet) with the caller's set
					} else {
						row.Kind = "ungated" // a set that is not a compile-time constant
					}
					hx.Emit(row)
				case se.Sel.Name == "checkLang" && len(ce.Args) >= 3:
					row.Kind = "checkLang"
					if m, ok := env.eval(ce.Args[1], 0); ok {
						row.Mask, row.Set = m, maskNames(m)
					} else {
						row.Kind = "ungated"
					}
					if bl, ok := ce.Args[2].(*ast.BasicLit); ok {
						row.Feature, _ = strconv.Unquote(bl.Value)
					}
					hx.Emit(row)
				}
				return true
			})
			// every other read of a `.lang` field
			ast.Inspect(fd.Body, func(n ast.Node) bool {
				switch x := n.(type) {
				case *ast.AssignStmt:
					// p.lang = l in an option function: configuration, not a gate
					for _, l := range x.Lhs {
						if isLangSel(l) {
							accounted[l] = true
						}
					}
				case *ast.KeyValueExpr:
					// LangUsed: p.lang (error reporting)
					if k, ok := x.Key.(*ast.Ident); ok && k.Name == "LangUsed" && isLangSel(x.Value) {
						accounted[x.Value] = true
					}
				case *ast.SelectorExpr:
					if x.Sel.Name == "lang" && !accounted[x] {
						hx.Emit(gateRow{File: pf.name, Line: pf.fset.Position(x.Pos()).Line, Func: fname, Kind: "ungated", Expr: exprStr(pf.fset, pf.src, x)})
					}
				}
				return true
			})
		}
	}
}

func isIdent(e ast.Expr, name string) bool {
	id, ok := e.(*ast.Ident)
	return ok && id.Name == name
}

func main() {
	o := hx.ParseArgs()
	defer hx.Flush()
	if o.Tier == "thorough" {
		hs.Guard(40*time.Minute, 3<<30)
	} else {
		hs.Guard(8*time.Minute, 3<<30)
	}
	switch o.Mode {
	case "search":
		corpus := hs.Corpus(4000)
		parts := 4
		if o.Tier == "thorough" {
			parts = 1
		}
		r := hx.Rand(o.Seed, 1101)
		k := 0
		for i, s := range hs.Regress("c11") { // minimised regression inputs run first
			hx.Emit(searchCase(fmt.Sprintf("regress:%d", i), s, true, true))
			hx.Emit(searchCase(fmt.Sprintf("regress:%d", i), s, false, false))
		}
		for i, s := range hs.Always() {
			hx.Emit(searchCase(fmt.Sprintf("pinned:%d", i), s, i%2 == 0, false))
		}
		for i, s := range corpus {
			if parts > 1 && uint64(i)%uint64(parts) != o.Seed%uint64(parts) {
				continue
			}
			k++
			hx.Emit(searchCase(fmt.Sprintf("corpus:%d", i), s, r.IntN(2) == 0, k%6 == 0))
		}
		for si, stream := range []string{"gen", "genposix", "mut", "mutgen", "word"} {
			rr := hx.Rand(o.Seed, 1110+uint64(si))
			for i := 0; i < o.N; i++ {
				src := hs.ByName(rr, stream, corpus)
				if stream == "word" {
					src = "echo " + src
				}
				hx.Emit(searchCase(fmt.Sprintf("%s:%d:%d", stream, o.Seed, i), src, rr.IntN(2) == 0, i%4 == 0))
			}
		}
	case "gates":
		gates()
	case "kinds":
		for i, f := range flagTable {
			hx.Emit(map[string]any{"id": i, "name": f.Name, "nonposix": f.NonPOSIX})
		}
	}
}
