// c34: ListEnviron / FuncEnviron observations on generated pair lists.
// Per case it emits the Go observation (for the code leg, compared with the
// Coq model) and the verdict of a direct map-spec comparison (the search).
package main

import (
	"math/rand/v2"
	"sort"
	"strings"

	"mvdan.cc/sh/v3/expand"
	"verifharness/hx"
)

type eachPair struct{ N, V string }

type obs struct {
	Pairs []string `json:"pairs"` // hex
	Name  string   `json:"name"`  // hex
	Get   string   `json:"get"`   // "P" panic | "N" unset | "S:<hex>"
	Each  []string `json:"each"`  // flattened name,value hex; ["P"] on panic
	Fails []string `json:"fails"` // property clauses that fail on this case
	Class string   `json:"class"` // known-finding class attribution ("" if none; C34 has no open finding)
}

var alphabet = []string{"A", "B", "a", "A1", "A=", "=", "", "AB", "A.", "A_", "Z", "A\x00", "é", "A<", "A>", "A\xff"}

func genName(r *rand.Rand) string {
	switch r.IntN(10) {
	case 0:
		return ""
	case 1, 2, 3:
		return hx.Pick(r, []string{"A", "B", "AB", "A1", "A_", "a", "PATH", "A.", "A-", "A~", "B0"})
	default:
		n := 1 + r.IntN(3)
		var sb strings.Builder
		for i := 0; i < n; i++ {
			sb.WriteString(hx.Pick(r, []string{"A", "B", "1", "_", ".", "~", "a", "<", ">", "\x00", "\xff", "é", "-", "0"}))
		}
		return sb.String()
	}
}

func genPair(r *rand.Rand) string {
	switch r.IntN(12) {
	case 0:
		return genName(r) // no '='
	case 1:
		return "=" + genName(r) // empty name
	case 2:
		return genName(r) + "=" + genName(r) + "=" + genName(r) // '=' in value
	case 3:
		return genName(r) + "="
	default:
		return genName(r) + "=" + genName(r)
	}
}

func specMap(pairs []string) map[string]string {
	m := map[string]string{}
	for _, p := range pairs {
		name, val, ok := strings.Cut(p, "=")
		if !ok || name == "" {
			continue
		}
		m[name] = val
	}
	return m
}

func observe(pairs []string, name string) obs {
	o := obs{Pairs: hx.HexList(pairs), Name: hx.Hex(name)}
	var env expand.Environ
	if p, _ := hx.Try(func() { env = expand.ListEnviron(pairs...) }); p {
		o.Get, o.Each = "P", []string{"P"}
		o.Fails = append(o.Fails, "construct_panics")
		return o
	}
	m := specMap(pairs)
	// Get
	var vr expand.Variable
	if p, _ := hx.Try(func() { vr = env.Get(name) }); p {
		o.Get = "P"
		o.Fails = append(o.Fails, "get_panics")
	} else if !vr.IsSet() {
		o.Get = "N"
		if _, ok := m[name]; ok {
			o.Fails = append(o.Fails, "get_misses_given_name")
		}
	} else {
		o.Get = "S:" + hx.Hex(vr.Str)
		want, ok := m[name]
		if !ok {
			o.Fails = append(o.Fails, "get_finds_name_never_given")
		} else if want != vr.Str || vr.Kind != expand.String || !vr.Exported {
			o.Fails = append(o.Fails, "get_wrong_value")
		}
	}
	// Each
	var got []eachPair
	if p, _ := hx.Try(func() {
		env.Each(func(n string, v expand.Variable) bool {
			got = append(got, eachPair{n, v.Str})
			return true
		})
	}); p {
		o.Each = []string{"P"}
		o.Fails = append(o.Fails, "each_panics")
		return o
	}
	o.Each = []string{}
	seen := map[string]int{}
	var names []string
	for _, e := range got {
		o.Each = append(o.Each, hx.Hex(e.N), hx.Hex(e.V))
		seen[e.N]++
		names = append(names, e.N)
		if want, ok := m[e.N]; !ok || want != e.V {
			o.Fails = append(o.Fails, "each_wrong_binding")
		}
	}
	for n := range m {
		if seen[n] != 1 {
			o.Fails = append(o.Fails, "each_not_exactly_once")
			break
		}
	}
	if len(got) != len(m) {
		o.Fails = append(o.Fails, "each_count")
	}
	if !sort.StringsAreSorted(names) {
		o.Fails = append(o.Fails, "each_not_sorted")
	}
	// early stop
	cnt := 0
	env.Each(func(string, expand.Variable) bool { cnt++; return false })
	if cnt > 1 {
		o.Fails = append(o.Fails, "each_ignores_stop")
	}
	return o
}

func main() {
	o := hx.ParseArgs()
	defer hx.Flush()
	switch o.Mode {
	case "gen":
		r := hx.Rand(o.Seed, 34)
		for i := 0; i < o.N; i++ {
			n := r.IntN(7)
			if i%50 == 0 {
				n = 8 + r.IntN(24)
			}
			pairs := make([]string, n)
			for j := range pairs {
				pairs[j] = genPair(r)
			}
			var name string
			switch {
			case n > 0 && r.IntN(3) > 0:
				name, _, _ = strings.Cut(pairs[r.IntN(n)], "=")
			case n > 0 && r.IntN(6) == 0:
				name = pairs[r.IntN(n)] // a whole pair as name: contains '='
			default:
				name = genName(r)
			}
			hx.Emit(observe(pairs, name))
		}
	case "func":
		// FuncEnviron: empty value means unset
		r := hx.Rand(o.Seed, 3400)
		for i := 0; i < o.N; i++ {
			val := genName(r)
			name := genName(r)
			env := expand.FuncEnviron(func(string) string { return val })
			vr := env.Get(name)
			ob := map[string]any{"val": hx.Hex(val), "set": vr.IsSet(), "str": hx.Hex(vr.Str)}
			if vr.IsSet() != (val != "") || vr.Str != val {
				ob["fails"] = []string{"func_empty_unset"}
			}
			hx.Emit(ob)
		}
	case "one":
		// replay: -in file with {"pairs":[hex],"name":hex}
		panic("use check --replay")
	}
}
