// c04: Simplify preserves behaviour.
//
//	code    real syntax.Simplify on sub-trees of parsed programs (and on synthetic trees) that
//	        lie in the modelled fragment; emits the tree before/after as Coq terms plus the
//	        returned bool, for comparison with coq/Syntax/Simplify.v inside the kernel.
//	search  whole programs: Simplify's bool == tree changed; the simplified tree prints,
//	        re-parses and prints to the same text; the exported sub-trees survive the round
//	        trip; printed original vs printed simplified behave the same under interp.Runner
//	        (worker subprocesses) and under bash.
//	worker  interp worker (see hxbeh).
package main

import (
	"bytes"
	"fmt"
	"math/rand/v2"
	"os"
	"strings"

	"mvdan.cc/sh/v3/syntax"
	"mvdan.cc/sh/v3/syntax/typedjson"
	"verifharness/hx"
	"verifharness/hxbeh"
)

// ---------------------------------------------------------------- export to Coq terms

func coqStr(s string) string {
	var sb strings.Builder
	sb.WriteByte('[')
	for i := 0; i < len(s); i++ {
		if i > 0 {
			sb.WriteByte(';')
		}
		fmt.Fprintf(&sb, "%d", s[i])
	}
	sb.WriteByte(']')
	return sb.String()
}

// coqList renders a structural list with cons cells (nested [..;..] notations parse very slowly).
func coqList(items []string) string {
	if len(items) == 0 {
		return "nil"
	}
	return "(" + strings.Join(items, " :: ") + " :: nil)"
}

func coqBool(b bool) string {
	if b {
		return "true"
	}
	return "false"
}

// paramFlags returns the fragment encoding of a ParamExp without sub-nodes.
func paramFlags(pe *syntax.ParamExp) (flags uint64, ok bool) {
	if pe.Param == nil || pe.Flags != nil || pe.Split != syntax.OptUnset || pe.GlobSubst != syntax.OptUnset ||
		pe.RcExpand != syntax.OptUnset || pe.NestedParam != nil || pe.Index != nil || len(pe.Modifiers) != 0 ||
		pe.Slice != nil || pe.Repl != nil || pe.Exp != nil {
		return 0, false
	}
	if pe.Excl {
		flags |= 1
	}
	if pe.Length {
		flags |= 2
	}
	if pe.Width {
		flags |= 4
	}
	if pe.IsSet {
		flags |= 8
	}
	flags += 64 * uint64(pe.Names)
	return flags, true
}

func exportParam(ctor string, pe *syntax.ParamExp) (string, bool) {
	fl, ok := paramFlags(pe)
	if !ok {
		return "", false
	}
	return fmt.Sprintf("(%s %s %d %s)", ctor, coqBool(pe.Short), fl, coqStr(pe.Param.Value)), true
}

func exportWord(w *syntax.Word) (string, bool) {
	var parts []string
	for _, p := range w.Parts {
		switch p := p.(type) {
		case *syntax.Lit:
			parts = append(parts, "(WLit "+coqStr(p.Value)+")")
		case *syntax.SglQuoted:
			parts = append(parts, fmt.Sprintf("(WSgl %s %s)", coqBool(p.Dollar), coqStr(p.Value)))
		case *syntax.DblQuoted:
			var ds []string
			for _, q := range p.Parts {
				switch q := q.(type) {
				case *syntax.Lit:
					ds = append(ds, "(DLit "+coqStr(q.Value)+")")
				case *syntax.ParamExp:
					s, ok := exportParam("DParam", q)
					if !ok {
						return "", false
					}
					ds = append(ds, s)
				default:
					return "", false
				}
			}
			parts = append(parts, fmt.Sprintf("(WDbl %s %s)", coqBool(p.Dollar), coqList(ds)))
		case *syntax.ParamExp:
			s, ok := exportParam("WParam", p)
			if !ok {
				return "", false
			}
			parts = append(parts, s)
		default:
			return "", false
		}
	}
	return coqList(parts), true
}

func unAritCode(op syntax.UnAritOperator) uint64 {
	switch op {
	case syntax.Inc:
		return 0
	case syntax.Dec:
		return 1
	}
	return 100 + uint64(op)
}

var assignOps = []syntax.BinAritOperator{syntax.AddAssgn, syntax.SubAssgn, syntax.MulAssgn, syntax.QuoAssgn,
	syntax.RemAssgn, syntax.AndAssgn, syntax.OrAssgn, syntax.XorAssgn, syntax.ShlAssgn, syntax.ShrAssgn,
	syntax.AndBoolAssgn, syntax.OrBoolAssgn, syntax.XorBoolAssgn, syntax.PowAssgn}

func binAritCode(op syntax.BinAritOperator) uint64 {
	switch op {
	case syntax.Assgn:
		return 0
	case syntax.TernQuest:
		return 20
	case syntax.TernColon:
		return 21
	case syntax.AndArit:
		return 22
	case syntax.OrArit:
		return 23
	case syntax.Pow:
		return 24
	}
	for i, a := range assignOps {
		if a == op {
			return uint64(1 + i)
		}
	}
	return 100 + uint64(op)
}

func exportArith(e syntax.ArithmExpr) (string, bool) {
	switch e := e.(type) {
	case *syntax.Word:
		s, ok := exportWord(e)
		return "(AWord " + s + ")", ok
	case *syntax.ParenArithm:
		s, ok := exportArith(e.X)
		return "(AParen " + s + ")", ok
	case *syntax.UnaryArithm:
		s, ok := exportArith(e.X)
		return fmt.Sprintf("(AUn %d %s %s)", unAritCode(e.Op), coqBool(e.Post), s), ok
	case *syntax.BinaryArithm:
		x, ok1 := exportArith(e.X)
		y, ok2 := exportArith(e.Y)
		return fmt.Sprintf("(ABin %d %s %s)", binAritCode(e.Op), x, y), ok1 && ok2
	}
	return "", false
}

func unTestCode(op syntax.UnTestOperator) uint64 {
	switch op {
	case syntax.TsNot:
		return 0
	case syntax.TsEmpStr:
		return 1
	case syntax.TsNempStr:
		return 2
	}
	return 100 + uint64(op)
}

func binTestCode(op syntax.BinTestOperator) uint64 {
	switch op {
	case syntax.TsMatchShort:
		return 0
	case syntax.TsMatch:
		return 1
	case syntax.TsNoMatch:
		return 2
	case syntax.TsReMatch:
		return 3
	case syntax.AndTest:
		return 4
	case syntax.OrTest:
		return 5
	}
	return 100 + uint64(op)
}

func exportTest(e syntax.TestExpr) (string, bool) {
	switch e := e.(type) {
	case *syntax.Word:
		s, ok := exportWord(e)
		return "(TWord " + s + ")", ok
	case *syntax.ParenTest:
		s, ok := exportTest(e.X)
		return "(TParen " + s + ")", ok
	case *syntax.UnaryTest:
		s, ok := exportTest(e.X)
		return fmt.Sprintf("(TUn %d %s)", unTestCode(e.Op), s), ok
	case *syntax.BinaryTest:
		x, ok1 := exportTest(e.X)
		y, ok2 := exportTest(e.Y)
		return fmt.Sprintf("(TBin %d %s %s)", binTestCode(e.Op), x, y), ok1 && ok2
	}
	return "", false
}

// statement skeleton: subshell nesting, every other command an opaque numbered leaf.
// The skeleton is rebuilt as a fresh Go tree so that Simplify's bool is about the
// skeleton only.
type skel struct {
	coq string
	go_ *syntax.Subshell
}

func stmtPlain(st *syntax.Stmt) bool {
	return !(st.Negated || st.Background || st.Coprocess || st.Disown || len(st.Redirs) > 0)
}

func skeleton(stmts []*syntax.Stmt, next *int) (string, []*syntax.Stmt) {
	var cs []string
	var out []*syntax.Stmt
	for _, st := range stmts {
		ns := &syntax.Stmt{Negated: !stmtPlain(st)}
		var c string
		if sub, ok := st.Cmd.(*syntax.Subshell); ok {
			inner, gos := skeleton(sub.Stmts, next)
			c = "(CSub " + inner + ")"
			ns.Cmd = &syntax.Subshell{Stmts: gos}
		} else {
			*next++
			c = fmt.Sprintf("(COther %d)", *next)
			ns.Cmd = &syntax.CallExpr{Args: []*syntax.Word{{Parts: []syntax.WordPart{&syntax.Lit{Value: fmt.Sprintf("c%d", *next)}}}}}
		}
		cs = append(cs, fmt.Sprintf("(St %s %s)", coqBool(stmtPlain(st)), c))
		out = append(out, ns)
	}
	return coqList(cs), out
}

func exportSkel(stmts []*syntax.Stmt) string {
	var cs []string
	for _, st := range stmts {
		var c string
		if sub, ok := st.Cmd.(*syntax.Subshell); ok {
			c = "(CSub " + exportSkel(sub.Stmts) + ")"
		} else if ce, ok := st.Cmd.(*syntax.CallExpr); ok && len(ce.Args) == 1 {
			c = "(COther " + strings.TrimPrefix(ce.Args[0].Lit(), "c") + ")"
		} else {
			c = "(COther 0)"
		}
		cs = append(cs, fmt.Sprintf("(St %s %s)", coqBool(stmtPlain(st)), c))
	}
	return coqList(cs)
}

// ---------------------------------------------------------------- code leg cases

type codeCase struct {
	K   string `json:"k"`   // arith | test | word | cmd
	P   bool   `json:"p"`   // arith: removeParens at the top
	I   bool   `json:"i"`   // arith: inlineSimpleParams at the top
	B   string `json:"b"`   // Coq term before
	A   string `json:"a"`   // Coq term after
	M   bool   `json:"m"`   // Simplify's result
	Src string `json:"src"` // printed form of the sub-tree before (for humans)
	Syn bool   `json:"syn"` // synthetic tree (not from the parser)
	KF3 bool   `json:"kf3"` // arith: Go class predicate arith_dollar_param_after_side_effect on the tree before
	KF4 bool   `json:"kf4"` // arith: Go class predicate (tree part) arith_dollar_exponent_unevaluated
}

func printNode(n syntax.Node) string {
	var buf bytes.Buffer
	if p, _ := hx.Try(func() { syntax.NewPrinter().Print(&buf, n) }); p {
		return "<printer panic>"
	}
	return buf.String()
}

func simplifyTry(n syntax.Node) (m bool, panicked bool) {
	panicked, _ = hx.Try(func() { m = syntax.Simplify(n) })
	return
}

func arithCase(x syntax.ArithmExpr, parens, inline, syn bool) *codeCase {
	b, ok := exportArith(x)
	if !ok {
		return nil
	}
	c := &codeCase{K: "arith", P: parens, I: inline, B: b, Syn: syn, KF3: rootDollarAfterSideEffect(x), KF4: nodeDollarExponent(x)}
	var after func() syntax.ArithmExpr
	var holder syntax.Node
	switch {
	case parens && inline:
		h := &syntax.ArithmExp{X: x}
		holder, after = h, func() syntax.ArithmExpr { return h.X }
	case parens:
		h := &syntax.Assign{Name: &syntax.Lit{Value: "x"}, Index: x}
		holder, after = h, func() syntax.ArithmExpr { return h.Index }
	default:
		h := &syntax.CStyleLoop{Cond: x}
		holder, after = h, func() syntax.ArithmExpr { return h.Cond }
	}
	c.Src = printNode(&syntax.ArithmExp{X: x})
	m, p := simplifyTry(holder)
	if p {
		c.A, c.M = "PANIC", false
		return c
	}
	a, ok := exportArith(after())
	if !ok {
		a = "UNEXPORTABLE"
	}
	c.A, c.M = a, m
	return c
}

func testCase(x syntax.TestExpr, syn bool) *codeCase {
	b, ok := exportTest(x)
	if !ok {
		return nil
	}
	h := &syntax.TestClause{X: x}
	c := &codeCase{K: "test", B: b, Syn: syn, Src: printNode(h)}
	m, p := simplifyTry(h)
	if p {
		c.A = "PANIC"
		return c
	}
	a, ok := exportTest(h.X)
	if !ok {
		a = "UNEXPORTABLE"
	}
	c.A, c.M = a, m
	return c
}

func wordCase(w *syntax.Word, syn bool) *codeCase {
	b, ok := exportWord(w)
	if !ok {
		return nil
	}
	c := &codeCase{K: "word", B: b, Syn: syn, Src: printNode(w)}
	m, p := simplifyTry(w)
	if p {
		c.A = "PANIC"
		return c
	}
	a, ok := exportWord(w)
	if !ok {
		a = "UNEXPORTABLE"
	}
	c.A, c.M = a, m
	return c
}

func cmdCase(stmts []*syntax.Stmt, syn bool) *codeCase {
	n := 0
	b, gos := skeleton(stmts, &n)
	h := &syntax.Subshell{Stmts: gos}
	c := &codeCase{K: "cmd", B: "(CSub " + b + ")", Syn: syn, Src: printNode(h)}
	m, p := simplifyTry(h)
	if p {
		c.A = "PANIC"
		return c
	}
	c.A, c.M = "(CSub "+exportSkel(h.Stmts)+")", m
	return c
}

// collect the roots of a parsed file, on a second parse of the same source so that the
// first tree stays intact.
func collect(f *syntax.File, emit func(*codeCase)) {
	// Each root is wrapped in a fresh holder and simplified alone, in place, in this
	// (otherwise unused) tree.  An exported root is not descended into; a root outside the
	// fragment is, so that the words and holders inside it are still used.
	arithRoot := func(x syntax.ArithmExpr, parens, inline bool) bool {
		if x == nil {
			return false
		}
		if c := arithCase(x, parens, inline, false); c != nil {
			emit(c)
			return true
		}
		return false
	}
	syntax.Walk(f, func(n syntax.Node) bool {
		switch n := n.(type) {
		case *syntax.ArithmExp:
			return !arithRoot(n.X, true, true)
		case *syntax.ArithmCmd:
			return !arithRoot(n.X, true, true)
		case *syntax.CStyleLoop:
			arithRoot(n.Init, false, false)
			arithRoot(n.Cond, false, false)
			arithRoot(n.Post, false, false)
		case *syntax.LetClause:
			for _, e := range n.Exprs {
				arithRoot(e, false, false)
			}
		case *syntax.Assign:
			if n.Index != nil {
				arithRoot(n.Index, true, false)
			}
		case *syntax.ParamExp:
			if n.Index != nil {
				arithRoot(n.Index, true, false)
			}
			if n.Slice != nil {
				arithRoot(n.Slice.Offset, true, true)
				arithRoot(n.Slice.Length, true, true)
			}
		case *syntax.TestClause:
			if c := testCase(n.X, false); c != nil {
				emit(c)
				return false
			}
		case *syntax.Subshell:
			emit(cmdCase(n.Stmts, false))
		case *syntax.CmdSubst:
			emit(cmdCase(n.Stmts, false))
		case *syntax.Word:
			if c := wordCase(n, false); c != nil {
				emit(c)
				return false
			}
		}
		return true
	})
}

// ---------------------------------------------------------------- synthetic trees

type synth struct{ r *rand.Rand }

func lit(s string) *syntax.Lit { return &syntax.Lit{Value: s} }

func (s synth) dqLit() string {
	var sb strings.Builder
	n := s.r.IntN(5)
	for i := 0; i < n; i++ {
		sb.WriteString(hx.Pick(s.r, []string{`\\`, `\$`, `\"`, "\\`", `\n`, `\a`, "'", "$", `"`, "`", "a", "b ", "é", `\\\\`, `\\b`, `\'`, "\\\n", "x"}))
	}
	return sb.String()
}

func (s synth) param() *syntax.ParamExp {
	pe := &syntax.ParamExp{Short: s.r.IntN(2) == 0, Param: lit(hx.Pick(s.r, []string{"a", "b", "_x", "A1", "1", "#", "?", "@", "*", "a-b", "_", "é", ""}))}
	switch s.r.IntN(8) {
	case 0:
		pe.Length, pe.Short = true, false
	case 1:
		pe.Excl, pe.Short = true, false
	case 2:
		pe.Width, pe.Short = true, false
	}
	return pe
}

func (s synth) word() *syntax.Word {
	n := 1
	if s.r.IntN(4) == 0 {
		n = s.r.IntN(4)
	}
	w := &syntax.Word{}
	for i := 0; i < n; i++ {
		switch s.r.IntN(8) {
		case 0:
			w.Parts = append(w.Parts, lit(hx.Pick(s.r, []string{"a", "1", "x_y", "0x1f", "*", "a\\b"})))
		case 1:
			w.Parts = append(w.Parts, &syntax.SglQuoted{Dollar: s.r.IntN(3) == 0, Value: s.dqLit()})
		case 2, 3:
			w.Parts = append(w.Parts, &syntax.DblQuoted{Dollar: s.r.IntN(4) == 0, Parts: []syntax.WordPart{lit(s.dqLit())}})
		case 4:
			w.Parts = append(w.Parts, &syntax.DblQuoted{Dollar: s.r.IntN(4) == 0, Parts: []syntax.WordPart{s.param()}})
		case 5:
			w.Parts = append(w.Parts, &syntax.DblQuoted{Parts: []syntax.WordPart{lit(s.dqLit()), s.param()}})
		case 6:
			w.Parts = append(w.Parts, &syntax.DblQuoted{})
		default:
			w.Parts = append(w.Parts, s.param())
		}
	}
	return w
}

func (s synth) arith(d int) syntax.ArithmExpr {
	if d <= 0 || s.r.IntN(5) == 0 {
		return s.word()
	}
	if s.r.IntN(6) == 0 {
		// an operand $v next to an operator that writes v (or another name): KF-C04-3's class and its complement
		name := hx.Pick(s.r, []string{"a", "b"})
		ref := hx.Pick(s.r, []string{"a", "b", "a"})
		lhs := &syntax.Word{Parts: []syntax.WordPart{lit(name)}}
		var mod syntax.ArithmExpr
		if s.r.IntN(2) == 0 {
			mod = &syntax.UnaryArithm{Op: hx.Pick(s.r, []syntax.UnAritOperator{syntax.Inc, syntax.Dec}), Post: s.r.IntN(2) == 0, X: lhs}
		} else {
			mod = &syntax.BinaryArithm{Op: hx.Pick(s.r, []syntax.BinAritOperator{syntax.Assgn, syntax.AddAssgn, syntax.ShlAssgn}), X: lhs, Y: s.arith(d - 1)}
		}
		use := &syntax.Word{Parts: []syntax.WordPart{&syntax.ParamExp{Short: s.r.IntN(2) == 0, Param: lit(ref)}}}
		return &syntax.BinaryArithm{Op: hx.Pick(s.r, []syntax.BinAritOperator{syntax.Comma, syntax.Add, syntax.AndArit}), X: mod, Y: use}
	}
	switch s.r.IntN(6) {
	case 0, 1:
		return &syntax.ParenArithm{X: s.arith(d - 1)}
	case 2:
		return &syntax.UnaryArithm{Op: hx.Pick(s.r, []syntax.UnAritOperator{syntax.Not, syntax.Minus, syntax.Plus, syntax.BitNegation, syntax.Inc, syntax.Dec}), Post: s.r.IntN(2) == 0, X: s.arith(d - 1)}
	default:
		return &syntax.BinaryArithm{Op: hx.Pick(s.r, []syntax.BinAritOperator{syntax.Add, syntax.Mul, syntax.Assgn, syntax.AddAssgn, syntax.TernQuest, syntax.TernColon, syntax.Comma, syntax.AndArit, syntax.Eql, syntax.Pow, syntax.ShlAssgn}), X: s.arith(d - 1), Y: s.arith(d - 1)}
	}
}

func (s synth) test(d int) syntax.TestExpr {
	if d <= 0 || s.r.IntN(5) == 0 {
		return s.word()
	}
	switch s.r.IntN(8) {
	case 0:
		return &syntax.ParenTest{X: s.test(d - 1)}
	case 1, 2, 3:
		return &syntax.UnaryTest{Op: hx.Pick(s.r, []syntax.UnTestOperator{syntax.TsNot, syntax.TsNot, syntax.TsNot, syntax.TsEmpStr, syntax.TsNempStr, syntax.TsExists, syntax.TsVarSet}), X: s.test(d - 1)}
	default:
		return &syntax.BinaryTest{Op: hx.Pick(s.r, []syntax.BinTestOperator{syntax.TsMatchShort, syntax.TsMatch, syntax.TsNoMatch, syntax.TsReMatch, syntax.AndTest, syntax.OrTest, syntax.TsEql, syntax.TsBefore}), X: s.test(d - 1), Y: s.test(d - 1)}
	}
}

func (s synth) stmts(d int) []*syntax.Stmt {
	n := 1
	if s.r.IntN(3) == 0 {
		n = s.r.IntN(4)
	}
	var out []*syntax.Stmt
	for i := 0; i < n; i++ {
		st := &syntax.Stmt{}
		switch s.r.IntN(8) {
		case 0:
			st.Negated = true
		case 1:
			st.Background = true
		case 2:
			st.Redirs = []*syntax.Redirect{{Op: syntax.RdrOut, Word: &syntax.Word{Parts: []syntax.WordPart{lit("f")}}}}
		}
		if d > 0 && s.r.IntN(3) > 0 {
			st.Cmd = &syntax.Subshell{Stmts: s.stmts(d - 1)}
		} else {
			st.Cmd = &syntax.CallExpr{Args: []*syntax.Word{{Parts: []syntax.WordPart{lit("x")}}}}
		}
		out = append(out, st)
	}
	return out
}

// ---------------------------------------------------------------- search

type searchCase struct {
	Src    string   `json:"src"`
	From   string   `json:"from"` // gen | corpus | witness
	Mod    bool     `json:"mod"`  // Simplify's result
	Fails  []string `json:"fails"`
	Class  string   `json:"class"`
	Detail string   `json:"detail"`
	Ran    bool     `json:"ran"` // behavioural comparison executed
	Feats  []string `json:"feats,omitempty"`
	Orig   string   `json:"orig,omitempty"` // printed original
	Simp   string   `json:"simp,omitempty"` // printed simplified
}

func parse(src string) (*syntax.File, error) {
	return syntax.NewParser(syntax.Variant(syntax.LangBash), syntax.KeepComments(true)).Parse(strings.NewReader(src), "")
}

func encode(f *syntax.File) string {
	var buf bytes.Buffer
	typedjson.Encode(&buf, f)
	return buf.String()
}

func rootsOf(f *syntax.File) []string {
	var out []string
	skip := map[*syntax.Word]bool{} // here-document bodies: <<- indentation is the printer's to choose
	syntax.Walk(f, func(n syntax.Node) bool {
		switch n := n.(type) {
		case *syntax.Redirect:
			if n.Hdoc != nil {
				skip[n.Hdoc] = true
			}
		case *syntax.ArithmExp:
			if s, ok := exportArith(n.X); ok {
				out = append(out, s)
			}
		case *syntax.ArithmCmd:
			if s, ok := exportArith(n.X); ok {
				out = append(out, s)
			}
		case *syntax.TestClause:
			if s, ok := exportTest(n.X); ok {
				out = append(out, s)
			}
		case *syntax.Word:
			if skip[n] {
				return false
			}
			if s, ok := exportWord(n); ok {
				out = append(out, s)
			}
		}
		return true
	})
	return out
}

func squash(s string) string {
	s = strings.ReplaceAll(s, "\\\n", "")
	return strings.Map(func(r rune) rune {
		switch r {
		case ' ', '\t', '\n', ';':
			return -1
		}
		return r
	}, s)
}

// structural prepares one search case: the law checks that need no execution. It returns
// the two program texts to compare behaviourally ("" when there is nothing to run).
func structural(c *searchCase) (orig, simp string) {
	f, err := parse(c.Src)
	if err != nil {
		return "", ""
	}
	fail := func(cl, detail string) {
		c.Fails = append(c.Fails, cl)
		if c.Detail == "" {
			c.Detail = detail
		}
	}
	before := encode(f)
	orig = printNode(f)
	m, p := simplifyTry(f)
	if p {
		fail("simplify_panics", "")
		return "", ""
	}
	c.Mod = m
	after := encode(f)
	if m != (before != after) {
		fail("modified_iff", fmt.Sprintf("Simplify returned %v, tree changed = %v", m, before != after))
	}
	simp = printNode(f)
	if simp == "<printer panic>" {
		fail("simplified_print_panics", "")
		return "", ""
	}
	f2, err := parse(simp)
	if err != nil {
		fail("simplified_does_not_reparse", err.Error())
		return "", ""
	}
	// The simplified tree keeps the positions of removed nodes, so its layout may differ
	// from that of its re-parsed self (printer idempotence on such trees is not part of this
	// property): compare the two texts up to layout (blanks, newlines, `;`, line continuations).
	if again := printNode(f2); squash(again) != squash(simp) {
		fail("simplified_reparse_prints_differently", again)
	}
	r1, r2 := rootsOf(f), rootsOf(f2)
	if strings.Join(r1, "\n") != strings.Join(r2, "\n") {
		fail("simplified_reparse_tree_differs", "")
	}
	// simplifying a second time must find nothing that a single pass could have... (not a
	// property clause: the negation merge needs two passes; only recorded)
	c.Orig, c.Simp = orig, simp
	if !m || orig == simp {
		return "", ""
	}
	return orig, simp
}

// class predicates of the known findings (narrow, on the input tree)

// assocIndexInline: an index expression of an assignment or parameter expansion contains
// (below its top) a `$name` operand that Simplify inlines, and the program declares an
// associative array.
func assocIndexInline(src string) bool {
	f, err := parse(src)
	if err != nil {
		return false
	}
	assoc := false
	hit := false
	var hasDollarOperand func(x syntax.ArithmExpr, top bool) bool
	hasDollarOperand = func(x syntax.ArithmExpr, top bool) bool {
		switch x := x.(type) {
		case *syntax.Word:
			if top || len(x.Parts) != 1 {
				return false
			}
			pe, ok := x.Parts[0].(*syntax.ParamExp)
			if !ok {
				return false
			}
			fl, ok := paramFlags(pe)
			return ok && fl == 0 && syntax.ValidName(pe.Param.Value)
		case *syntax.ParenArithm:
			return hasDollarOperand(x.X, false)
		case *syntax.BinaryArithm:
			return hasDollarOperand(x.X, false) || hasDollarOperand(x.Y, false)
		case *syntax.UnaryArithm:
			return hasDollarOperand(x.X, true)
		}
		return false
	}
	syntax.Walk(f, func(n syntax.Node) bool {
		switch n := n.(type) {
		case *syntax.DeclClause:
			for _, a := range n.Args {
				if a.Name == nil && a.Value != nil && strings.Contains(a.Value.Lit(), "A") && strings.HasPrefix(a.Value.Lit(), "-") {
					assoc = true
				}
			}
		case *syntax.Assign:
			if n.Index != nil && hasDollarOperand(n.Index, true) {
				hit = true
			}
		case *syntax.ParamExp:
			if n.Index != nil && hasDollarOperand(n.Index, true) {
				hit = true
			}
		}
		return true
	})
	return assoc && hit
}

// dollarExponent: some ** in the program has an inlinable `$name` operand in its exponent
// (Coq twin of the per-root version: KF/C04KF.v kf_dollar_exponent).
func dollarExponent(src string) bool {
	f, err := parse(src)
	if err != nil {
		return false
	}
	return nodeDollarExponent(f)
}

func nodeDollarExponent(f syntax.Node) bool {
	hit := false
	syntax.Walk(f, func(n syntax.Node) bool {
		if b, ok := n.(*syntax.BinaryArithm); ok && b.Op == syntax.Pow {
			syntax.Walk(b.Y, func(m syntax.Node) bool {
				if w, ok := m.(*syntax.Word); ok && len(w.Parts) == 1 {
					if pe, ok := w.Parts[0].(*syntax.ParamExp); ok {
						if fl, ok := paramFlags(pe); ok && fl == 0 && syntax.ValidName(pe.Param.Value) {
							hit = true
						}
					}
				}
				return true
			})
		}
		return true
	})
	return hit
}

// rootDollarAfterSideEffect is the class predicate on one arithmetic root (Coq twin:
// KF/C04KF.v kf_dollar_param_after_side_effect).
func rootDollarAfterSideEffect(x syntax.ArithmExpr) bool {
	if x == nil {
		return false
	}
	inlined := map[string]bool{}
	modified := map[string]bool{}
	syntax.Walk(x, func(n syntax.Node) bool {
		switch n := n.(type) {
		case *syntax.Word:
			if len(n.Parts) == 1 {
				if pe, ok := n.Parts[0].(*syntax.ParamExp); ok {
					if fl, ok := paramFlags(pe); ok && fl == 0 && syntax.ValidName(pe.Param.Value) {
						inlined[pe.Param.Value] = true
					}
				}
			}
		case *syntax.UnaryArithm:
			if n.Op == syntax.Inc || n.Op == syntax.Dec {
				if w, ok := n.X.(*syntax.Word); ok {
					modified[w.Lit()] = true
				}
			}
		case *syntax.BinaryArithm:
			if binAritCode(n.Op) < 20 {
				if w, ok := n.X.(*syntax.Word); ok {
					modified[w.Lit()] = true
				}
			}
		}
		return true
	})
	for name := range inlined {
		if modified[name] {
			return true
		}
	}
	return false
}

// dollarParamAfterSideEffect: some arithmetic expression of the program contains both a
// `$name` operand that Simplify inlines and an operator that modifies the same name
// (++ -- or an assignment operator).
func dollarParamAfterSideEffect(src string) bool {
	f, err := parse(src)
	if err != nil {
		return false
	}
	hit := false
	checkRoot := func(x syntax.ArithmExpr) {
		if rootDollarAfterSideEffect(x) {
			hit = true
		}
	}
	syntax.Walk(f, func(n syntax.Node) bool {
		switch n := n.(type) {
		case *syntax.ArithmExp:
			checkRoot(n.X)
		case *syntax.ArithmCmd:
			checkRoot(n.X)
		case *syntax.LetClause:
			for _, e := range n.Exprs {
				checkRoot(e)
			}
		case *syntax.CStyleLoop:
			checkRoot(n.Init)
			checkRoot(n.Cond)
			checkRoot(n.Post)
		case *syntax.ParamExp:
			if n.Slice != nil {
				checkRoot(n.Slice.Offset)
				checkRoot(n.Slice.Length)
			}
			checkRoot(n.Index)
		case *syntax.Assign:
			checkRoot(n.Index)
		}
		return true
	})
	return hit
}

// subshellLevelObserved: the program reads BASH_SUBSHELL inside a subshell that
// inlineSubshell collapses (a lone plain subshell directly inside a subshell or $( )).
func subshellLevelObserved(src string) bool {
	f, err := parse(src)
	if err != nil || !strings.Contains(src, "BASH_SUBSHELL") {
		return false
	}
	hit := false
	lone := func(stmts []*syntax.Stmt) bool {
		if len(stmts) != 1 || !stmtPlain(stmts[0]) {
			return false
		}
		_, ok := stmts[0].Cmd.(*syntax.Subshell)
		return ok
	}
	syntax.Walk(f, func(n syntax.Node) bool {
		switch n := n.(type) {
		case *syntax.Subshell:
			if lone(n.Stmts) && strings.Contains(printNode(n), "BASH_SUBSHELL") {
				hit = true
			}
		case *syntax.CmdSubst:
			if lone(n.Stmts) && strings.Contains(printNode(n), "BASH_SUBSHELL") {
				hit = true
			}
		}
		return true
	})
	return hit
}

func main() {
	if len(os.Args) > 1 && os.Args[1] == "worker" {
		hxbeh.WorkerMain()
		return
	}
	o := hx.ParseArgs()
	defer hx.Flush()
	defer hxbeh.Cleanup()
	switch o.Mode {
	case "code":
		r := hx.Rand(o.Seed, 4)
		emitted := 0
		seen := map[string]bool{}
		emit := func(c *codeCase) {
			key := c.K + fmt.Sprint(c.P, c.I) + c.B
			if seen[key] {
				return
			}
			seen[key] = true
			hx.Emit(c)
			emitted++
		}
		// parsed programs, rich in the rewritten constructs; also the repository's simplify tests' shapes
		for _, src := range []string{
			"$((a + ((b - c))))", "${foo[(1)]}", "${foo:(1):(2)}", "a[(1)]=2", "$(($a + ${b}))", "$((${!a} + ${#b}))",
			`[[ "$foo" == "bar" ]]`, `[[ (-z "$foo") ]]`, `[[ "a b" > "$c" ]]`, `[[ ! -n $foo ]]`, `[[ ! ! -e a && ! -z $b ]]`,
			`[[ (! a == b) || (! c != d) ]]`, `[[ foo = bar ]]`, `[[ foo =~ "$bar" ]]`, `[[ "$foo" =~ bar ]]`, "( ( (sts)))", "( (sts) >f)",
			`echo "fo\$o" "fo\"o" "f'o\\o" "fo\no" $"a\\b" "a\\b" fo"o"bar "\\\\"`, "(\n\tx\n\t(sts)\n)", "$( (sts))",
			`[[ ! a = b ]]`, `[[ ! ( ! a ) ]]`, `for ((i = (0); ($i < 3); i++)); do :; done`, `let "a = ($b)" (c)`,
		} {
			if f, err := parse(src); err == nil {
				collect(f, emit)
			}
		}
		// the pinned regression corpus also feeds the model-vs-code comparison
		for _, src := range hxbeh.ReadRegress("c04") {
			if f, err := parse(src); err == nil {
				collect(f, emit)
			}
		}
		for i := 0; emitted < o.N*3/4 && i < o.N*4; i++ {
			g := hxbeh.NewGen(r, true, i%3 == 0)
			src := g.Program(2 + r.IntN(3))
			f, err := parse(src)
			if err != nil {
				continue
			}
			collect(f, emit)
		}
		s := synth{r}
		for i := 0; emitted < o.N && i < o.N*4; i++ {
			var c *codeCase
			switch r.IntN(8) {
			case 0, 1, 2:
				mode := r.IntN(3)
				c = arithCase(s.arith(1+r.IntN(4)), mode <= 1, mode == 0, true)
			case 3, 4, 5:
				c = testCase(s.test(1+r.IntN(4)), true)
			case 6:
				c = wordCase(s.word(), true)
			default:
				c = cmdCase(s.stmts(1+r.IntN(4)), true)
			}
			if c != nil {
				emit(c)
			}
		}
	case "search":
		r := hx.Rand(o.Seed, 40)
		var cases []*searchCase
		// pinned witnesses of the listed findings (known_findings.jsonl) and of the fixed one
		for _, w := range []string{
			"echo $\"a\\\\b\"\n",
			"declare -A x; i=3; x[$i+1]=v; echo \"${!x[@]}\"\n",
			"declare -A x; i=3; x[$i+1]=v; echo \"${x[3+1]}\"\n",
			"( (echo $BASH_SUBSHELL) )\n",
			"c=-2; echo $((++c, $c))\n",
			"a=-2; echo $((1 ? 5 : 2 ** $a))\n",
		} {
			cases = append(cases, &searchCase{Src: w, From: "witness"})
		}
		for _, src := range hxbeh.ReadRegress("c04") {
			cases = append(cases, &searchCase{Src: src, From: "regress"})
		}
		for _, src := range hxbeh.InterpTestPrograms() {
			cases = append(cases, &searchCase{Src: src, From: "corpus"})
		}
		for i := 0; i < o.N; i++ {
			g := hxbeh.NewGen(r, true, i%4 == 0)
			src := g.Program(2 + r.IntN(4))
			c := &searchCase{Src: src, From: "gen"}
			for k := range g.Feats {
				c.Feats = append(c.Feats, k)
			}
			cases = append(cases, c)
		}
		var toRun []string
		type pair struct{ o, s string }
		pairs := map[*searchCase]pair{}
		for _, c := range cases {
			if strings.HasSuffix(strings.TrimRight(c.Src, "\n"), "\\") {
				continue
			}
			orig, simp := structural(c)
			if orig == "" {
				continue
			}
			if c.From != "witness" && c.From != "regress" { // pinned by hand and harmless
				if ok, _ := hxbeh.SafeText(c.Src); !ok {
					continue
				}
				f, err := parse(c.Src)
				if err != nil {
					continue
				}
				if ok, _ := hxbeh.SafeProgram(f); !ok {
					continue
				}
			}
			pairs[c] = pair{orig, simp}
			toRun = append(toRun, orig, simp)
		}
		jobs := hxbeh.RunAll(toRun, 8, true, true)
		for _, c := range cases {
			p, ok := pairs[c]
			if ok {
				c.Ran = true
				jo, js := jobs[p.o], jobs[p.s]
				if jo.Interp != js.Interp {
					c.Fails = append(c.Fails, "behaviour_interp")
					c.Detail += fmt.Sprintf(" interp: %q/%d/%s vs %q/%d/%s", jo.Interp.Out, jo.Interp.Status, jo.Interp.Note, js.Interp.Out, js.Interp.Status, js.Interp.Note)
				}
				if jo.Bash != js.Bash {
					c.Fails = append(c.Fails, "behaviour_bash")
					c.Detail += fmt.Sprintf(" bash: %q/%d/%s vs %q/%d/%s", jo.Bash.Out, jo.Bash.Status, jo.Bash.Note, js.Bash.Out, js.Bash.Status, js.Bash.Note)
				}
			}
			if len(c.Fails) > 0 {
				onlyBash := true
				for _, f := range c.Fails {
					if f != "behaviour_bash" {
						onlyBash = false
					}
				}
				if onlyBash && assocIndexInline(c.Src) {
					c.Class = "assoc_index_param_inlined"
				} else if onlyBash && subshellLevelObserved(c.Src) {
					c.Class = "bash_subshell_level_observed"
				} else if onlyBash && dollarParamAfterSideEffect(c.Src) {
					c.Class = "arith_dollar_param_after_side_effect"
				} else if onlyBash && ok && dollarExponent(c.Src) &&
					strings.Contains(hxbeh.BashStderr(p.o), "exponent less than 0") &&
					!strings.Contains(hxbeh.BashStderr(p.s), "exponent less than 0") {
					c.Class = "arith_dollar_exponent_unevaluated"
				}
			}
			if len(c.Fails) == 0 {
				c.Orig, c.Simp = "", ""
			}
			hx.Emit(c)
		}
	case "one":
		// replay: -in FILE with the program text
		b, err := os.ReadFile(o.In)
		if err != nil {
			panic(err)
		}
		c := &searchCase{Src: string(b), From: "replay"}
		orig, simp := structural(c)
		if orig != "" {
			jobs := hxbeh.RunAll([]string{orig, simp}, 2, true, true)
			c.Detail += fmt.Sprintf(" interp: %+v vs %+v; bash: %+v vs %+v", jobs[orig].Interp, jobs[simp].Interp, jobs[orig].Bash, jobs[simp].Bash)
		}
		hx.Emit(c)
	}
}
