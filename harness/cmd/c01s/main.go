// c01s: code leg of the level-S (statements) MiniSh model of C01/C02
// (coq/Syntax/MiniAst.v, MiniPrinter.v, MiniParser.v).
//
//	c01s stmts -seed N -n N [-tier quick|thorough]
//
// Generates fragment programs from the grammar
//
//	list := andor ((";" | "&" | newline) andor)*      andor := pipe (("&&" | "||") pipe)*
//	pipe := ["!"] cmd ("|" cmd)*                       cmd := words | { list } | ( list )
//	      | if list then list (elif list then list)* [else list] fi | while/until list do list done
//
// with a random source layout (`;` or newlines, newlines after operators and keywords,
// extra blanks), parses them with the real parser (LangBash), exports the tree
// restricted to the fragment as a Coq term, prints it with the real printer under the
// modelled option sets and re-parses the output with the real parser.  One JSON line
// per case; checks/c01.py evaluates the model on the same data inside the Coq kernel:
//
//	print_file o tree = out (bytes), parse_file out = Some reparse, parse_file src = Some tree
//
// and the harness itself reports reparse != tree (a concrete C01 failure).
package main

import (
	"fmt"
	"math/rand/v2"
	"strings"

	"mvdan.cc/sh/v3/syntax"
	"verifharness/hx"
	"verifharness/hxfmt"
)

type Case struct {
	ID      int    `json:"id"`
	Src     string `json:"src"`      // hex: generated source
	Tree    string `json:"tree"`     // Coq term of type MiniAst.file
	Opts    string `json:"opts"`     // printer options used
	Mode    string `json:"mode"`     // "single" | "default"
	Out     string `json:"out"`      // hex: Printer output
	Reparse string `json:"reparse"`  // Coq term: tree the real parser reads back from Out
	Same    bool   `json:"same"`     // Reparse == Tree
	Err     string `json:"err,omitempty"`
	Nodes   int    `json:"nodes"`
	Canon   bool   `json:"canon"`    // Src is in the canonical multi-line layout
	PTree   string `json:"ptree,omitempty"`  // Coq term of type MiniPos.pfile: the tree with the lines of Src
	PTree2  string `json:"ptree2,omitempty"` // the same for the re-parse of Out
	Ind     int    `json:"ind"`
	Bnl     bool   `json:"bnl"`
	Idem    bool   `json:"idem"` // real Print(Parse(Out)) == Out
}

// ---------------------------------------------------------------- export

type exporter struct {
	ok    bool
	why   string
	nodes int
}

func (e *exporter) bad(why string) string {
	if e.ok {
		e.ok = false
		e.why = why
	}
	return "SNil"
}

func coqBytes(s string) string {
	var sb strings.Builder
	sb.WriteByte('[')
	for i := 0; i < len(s); i++ {
		if i > 0 {
			sb.WriteByte(';')
		}
		fmt.Fprintf(&sb, "%d", s[i])
	}
	sb.WriteByte(']')
	return sb.String()
}

func coqBool(b bool) string {
	if b {
		return "true"
	}
	return "false"
}

// litOK: the Lit value is inside the level-W model (see hxfmt legs.go: no `[`, no unescaped
// metacharacter, no escaped newline) and, at level S, carries no lone trailing backslash.
func litOK(v string, inDq bool) bool {
	if v == "" {
		return false
	}
	for i := 0; i < len(v); i++ {
		c := v[i]
		if c == '\\' {
			if i+1 >= len(v) || v[i+1] == '\n' {
				return false
			}
			i++
			continue
		}
		if c == '$' || c == '`' || c == '[' {
			return false
		}
		if inDq {
			if c == '"' {
				return false
			}
		} else if strings.IndexByte(" \t\n\r;&|()<>\"'", c) >= 0 {
			return false
		}
	}
	return true
}

func (e *exporter) word(w *syntax.Word) string {
	var sb strings.Builder
	sb.WriteByte('(')
	for i, p := range w.Parts {
		switch p := p.(type) {
		case *syntax.Lit:
			if !litOK(p.Value, false) || strings.HasPrefix(p.Value, "#") {
				e.bad("lit")
			}
			fmt.Fprintf(&sb, "Lit %s :: ", coqBytes(p.Value))
		case *syntax.SglQuoted:
			fmt.Fprintf(&sb, "Sgl %s %s :: ", coqBool(p.Dollar), coqBytes(p.Value))
		case *syntax.DblQuoted:
			fmt.Fprintf(&sb, "Dbl %s (", coqBool(p.Dollar))
			for _, q := range p.Parts {
				switch q := q.(type) {
				case *syntax.Lit:
					if !litOK(q.Value, true) {
						e.bad("qlit")
					}
					fmt.Fprintf(&sb, "QLit %s :: ", coqBytes(q.Value))
				case *syntax.ParamExp:
					if !hxfmt.IsSimpleParam(q) {
						e.bad("qparam")
						continue
					}
					fmt.Fprintf(&sb, "QParam %s %s :: ", coqBool(q.Short), coqBytes(q.Param.Value))
				default:
					e.bad("qpart")
				}
			}
			sb.WriteString("nil) :: ")
		case *syntax.ParamExp:
			if !hxfmt.IsSimpleParam(p) {
				e.bad("param")
				continue
			}
			fmt.Fprintf(&sb, "Param %s %s :: ", coqBool(p.Short), coqBytes(p.Param.Value))
		default:
			e.bad("part")
		}
		_ = i
	}
	sb.WriteString("nil)")
	return sb.String()
}

func (e *exporter) stmts(ss []*syntax.Stmt, last []syntax.Comment) string {
	if len(last) > 0 {
		e.bad("comments")
	}
	var sb strings.Builder
	for _, s := range ss {
		fmt.Fprintf(&sb, "(SCons %s ", e.stmt(s))
	}
	sb.WriteString("SNil")
	sb.WriteString(strings.Repeat(")", len(ss)))
	return sb.String()
}

func (e *exporter) stmt(s *syntax.Stmt) string {
	e.nodes++
	if len(s.Comments) > 0 || len(s.Redirs) > 0 || s.Coprocess || s.Disown || s.Cmd == nil {
		e.bad("stmt")
		return "(Stmt false (Call nil) false)"
	}
	return fmt.Sprintf("(Stmt %s %s %s)", coqBool(s.Negated), e.cmd(s.Cmd), coqBool(s.Background))
}

func (e *exporter) els(ic *syntax.IfClause) string {
	if ic == nil {
		return "NoElse"
	}
	if len(ic.CondLast) > 0 || len(ic.ThenLast) > 0 || len(ic.Last) > 0 {
		e.bad("comments")
	}
	if ic.ThenPos.IsValid() {
		return fmt.Sprintf("(Elif %s %s %s)", e.stmts(ic.Cond, nil), e.stmts(ic.Then, nil), e.els(ic.Else))
	}
	if len(ic.Cond) > 0 || ic.Else != nil {
		e.bad("else shape")
	}
	return fmt.Sprintf("(Else %s)", e.stmts(ic.Then, nil))
}

func (e *exporter) cmd(c syntax.Command) string {
	switch c := c.(type) {
	case *syntax.CallExpr:
		if len(c.Assigns) > 0 || len(c.Args) == 0 {
			e.bad("assign")
			return "(Call nil)"
		}
		var sb strings.Builder
		sb.WriteString("(Call (")
		for _, w := range c.Args {
			sb.WriteString(e.word(w))
			sb.WriteString(" :: ")
		}
		sb.WriteString("nil))")
		return sb.String()
	case *syntax.Block:
		return fmt.Sprintf("(Block %s)", e.stmts(c.Stmts, c.Last))
	case *syntax.Subshell:
		return fmt.Sprintf("(Subshell %s)", e.stmts(c.Stmts, c.Last))
	case *syntax.IfClause:
		if len(c.CondLast) > 0 || len(c.ThenLast) > 0 || len(c.Last) > 0 {
			e.bad("comments")
		}
		return fmt.Sprintf("(IfClause %s %s %s)", e.stmts(c.Cond, nil), e.stmts(c.Then, nil), e.els(c.Else))
	case *syntax.WhileClause:
		if len(c.CondLast) > 0 || len(c.DoLast) > 0 {
			e.bad("comments")
		}
		return fmt.Sprintf("(WhileClause %s %s %s)", coqBool(c.Until), e.stmts(c.Cond, nil), e.stmts(c.Do, nil))
	case *syntax.BinaryCmd:
		op := ""
		switch c.Op {
		case syntax.AndStmt:
			op = "AndStmt"
		case syntax.OrStmt:
			op = "OrStmt"
		case syntax.Pipe:
			op = "Pipe"
		default:
			e.bad("binop")
			op = "Pipe"
		}
		return fmt.Sprintf("(Binary %s %s %s)", op, e.stmt(c.X), e.stmt(c.Y))
	}
	e.bad(fmt.Sprintf("cmd %T", c))
	return "(Call nil)"
}

// ---------------------------------------------------------------- export with lines (MiniPos.pfile)

func (e *exporter) pstmts(ss []*syntax.Stmt) string {
	var sb strings.Builder
	for _, s := range ss {
		fmt.Fprintf(&sb, "(PCons %s ", e.pstmt(s))
	}
	sb.WriteString("PNil")
	sb.WriteString(strings.Repeat(")", len(ss)))
	return sb.String()
}

func (e *exporter) pstmt(s *syntax.Stmt) string {
	if s.Cmd == nil {
		e.bad("stmt")
		return "PNil"
	}
	return fmt.Sprintf("(PStmt %d%%nat %s %s %s %d%%nat)", s.Pos().Line(), coqBool(s.Negated), e.pcmd(s.Cmd), coqBool(s.Background), s.End().Line())
}

func (e *exporter) pels(ic *syntax.IfClause, fi uint) string {
	if ic == nil {
		return fmt.Sprintf("(PNoElse %d%%nat)", fi)
	}
	if ic.ThenPos.IsValid() {
		return fmt.Sprintf("(PElif %d%%nat %s %d%%nat %s %s)", ic.Position.Line(), e.pstmts(ic.Cond), ic.ThenPos.Line(), e.pstmts(ic.Then), e.pels(ic.Else, fi))
	}
	return fmt.Sprintf("(PElse %d%%nat %s %d%%nat)", ic.Position.Line(), e.pstmts(ic.Then), fi)
}

func (e *exporter) pcmd(c syntax.Command) string {
	switch c := c.(type) {
	case *syntax.CallExpr:
		if len(c.Args) == 0 {
			e.bad("assign")
			return "(PCall 0%nat nil)"
		}
		l := c.Args[0].Pos().Line()
		var sb strings.Builder
		fmt.Fprintf(&sb, "(PCall %d%%nat (", l)
		for _, w := range c.Args {
			if w.Pos().Line() != l || w.End().Line() != l {
				e.bad("multi-line call")
			}
			sb.WriteString(e.word(w))
			sb.WriteString(" :: ")
		}
		sb.WriteString("nil))")
		return sb.String()
	case *syntax.Block:
		return fmt.Sprintf("(PBlock %d%%nat %s %d%%nat)", c.Lbrace.Line(), e.pstmts(c.Stmts), c.Rbrace.Line())
	case *syntax.Subshell:
		return fmt.Sprintf("(PSubshell %d%%nat %s %d%%nat)", c.Lparen.Line(), e.pstmts(c.Stmts), c.Rparen.Line())
	case *syntax.IfClause:
		return fmt.Sprintf("(PIf %d%%nat %s %d%%nat %s %s)", c.Position.Line(), e.pstmts(c.Cond), c.ThenPos.Line(), e.pstmts(c.Then), e.pels(c.Else, c.FiPos.Line()))
	case *syntax.WhileClause:
		return fmt.Sprintf("(PWhile %s %d%%nat %s %d%%nat %s %d%%nat)", coqBool(c.Until), c.WhilePos.Line(), e.pstmts(c.Cond), c.DoPos.Line(), e.pstmts(c.Do), c.DonePos.Line())
	case *syntax.BinaryCmd:
		op := "Pipe"
		switch c.Op {
		case syntax.AndStmt:
			op = "AndStmt"
		case syntax.OrStmt:
			op = "OrStmt"
		}
		return fmt.Sprintf("(PBinary %s %s %d%%nat %s)", op, e.pstmt(c.X), c.OpPos.Line(), e.pstmt(c.Y))
	}
	e.bad(fmt.Sprintf("cmd %T", c))
	return "(PCall 0%nat nil)"
}

// pexport: only after export(f) accepted the tree
func pexport(f *syntax.File) (string, bool, string) {
	e := &exporter{ok: true}
	t := e.pstmts(f.Stmts)
	return t, e.ok, e.why
}

func export(f *syntax.File) (string, int, bool, string) {
	e := &exporter{ok: true}
	t := e.stmts(f.Stmts, f.Last)
	return t, e.nodes, e.ok, e.why
}

// ---------------------------------------------------------------- generator

var cmdNames = []string{"a", "b", "foo", "echo", "x1", "-", ":", "true", "'q r'", "\"$x\"", "$c", "\\if", "iff", "{a", "a}", "fi_", "\"if\"", "'{'", "!a", "./p", "done1", "\\{", "${c}x", "a,b", "1"}
var argPool = []string{"a", "b", "-n", "x=1", "'a b'", "\"$x y\"", "$1", "${foo}", "if", "then", "}", "{", "!", "fi", "do", "a\\ b", "\\;", "*.c", "~", "\\&", "'&'", "\"|\"", "$#", "$?", "\"a\"b'c'", "%", "é"}

type gen struct {
	r      *rand.Rand
	layout bool // random layout (newlines); false = one line
	canon  bool // canonical multi-line layout: the layout of the default printer's own output
	lastN  int  // number of statements of the list generated last
}

func (g *gen) wordText(first bool) string {
	r := g.r
	if r.IntN(4) > 0 {
		if first {
			return hx.Pick(r, cmdNames)
		}
		return hx.Pick(r, argPool)
	}
	for try := 0; try < 20; try++ {
		w := hxfmt.GenWord(r)
		txt, err := hxfmt.Print(syntax.NewPrinter(), w)
		if err != nil || txt == "" || strings.ContainsAny(txt, "\n[") || strings.HasSuffix(txt, "\\") {
			continue
		}
		if first && (strings.Contains(txt, "=") || syntax.IsKeyword(txt) || txt == "{}" || txt == "!") {
			continue
		}
		return txt
	}
	return "w"
}

func (g *gen) sp() string {
	if g.canon {
		return " "
	}
	if g.layout && g.r.IntN(8) == 0 {
		return "  "
	}
	return " "
}

// nl: a place where a newline may stand for a blank
func (g *gen) nl() string {
	if g.canon {
		return " "
	}
	if g.layout && g.r.IntN(3) == 0 {
		if g.r.IntN(4) == 0 {
			return "\n\n"
		}
		return "\n"
	}
	return g.sp()
}

// term: `;` or newline (or both) before a closing reserved word; bg = the list ended in `&`
func (g *gen) term(bg bool) string {
	if bg {
		return g.nl()
	}
	if g.layout && g.r.IntN(3) == 0 {
		return "\n"
	}
	if g.layout && g.r.IntN(6) == 0 {
		return " ;\n"
	}
	return ";" + g.sp()
}

func (g *gen) call() string {
	n := 1 + g.r.IntN(3)
	if g.r.IntN(3) == 0 {
		n = 1
	}
	ws := make([]string, n)
	for i := range ws {
		ws[i] = g.wordText(i == 0)
	}
	return strings.Join(ws, g.sp())
}

// list returns the text of a statement list and whether it ended in `&`
func (g *gen) list(depth int, max int) (string, bool) {
	n := 1
	if g.r.IntN(3) == 0 {
		n += g.r.IntN(max)
	}
	var sb strings.Builder
	bg := false
	for i := 0; i < n; i++ {
		if i > 0 {
			if g.canon {
				sb.WriteString("\n")
			} else if bg {
				sb.WriteString(g.nl())
			} else if g.layout && g.r.IntN(2) == 0 {
				sb.WriteString("\n")
			} else {
				sb.WriteString(";" + g.nl())
			}
		}
		sb.WriteString(g.andor(depth))
		bg = g.r.IntN(6) == 0
		if bg {
			sb.WriteString(g.sp() + "&")
		}
	}
	g.lastN = n
	return sb.String(), bg
}

// canonical layout pieces
func (g *gen) ccond(depth int) string {
	c, bg := g.body(depth)
	if g.lastN == 1 {
		if bg {
			return " " + c + " "
		}
		return " " + c + "; "
	}
	return "\n" + c + "\n"
}

func (g *gen) cbody(depth int) string {
	b, _ := g.body(depth)
	return "\n" + b + "\n"
}

func (g *gen) canonCmd(depth int, k int) string {
	switch {
	case k < 5:
		return "{" + g.cbody(depth) + "}"
	case k < 7:
		return "(" + g.cbody(depth) + ")"
	case k < 9:
		s := "if" + g.ccond(depth) + "then" + g.cbody(depth)
		for g.r.IntN(3) == 0 {
			s += "elif" + g.ccond(depth) + "then" + g.cbody(depth)
		}
		if g.r.IntN(3) == 0 {
			s += "else" + g.cbody(depth)
		}
		return s + "fi"
	default:
		kw := "while"
		if g.r.IntN(2) == 0 {
			kw = "until"
		}
		return kw + g.ccond(depth) + "do" + g.cbody(depth) + "done"
	}
}

func (g *gen) andor(depth int) string {
	s := g.pipe(depth)
	for g.r.IntN(4) == 0 {
		op := "&&"
		if g.r.IntN(2) == 0 {
			op = "||"
		}
		s += g.sp() + op + g.nl() + g.pipe(depth)
	}
	return s
}

func (g *gen) pipe(depth int) string {
	s := ""
	if g.r.IntN(7) == 0 {
		s = "!" + g.sp()
	}
	s += g.cmd(depth)
	for g.r.IntN(5) == 0 {
		s += g.sp() + "|" + g.nl() + g.cmd(depth)
	}
	return s
}

func (g *gen) body(depth int) (string, bool) { return g.list(depth-1, 3) }

func (g *gen) cmd(depth int) string {
	k := g.r.IntN(10)
	if depth <= 0 || k < 4 {
		return g.call()
	}
	if g.canon {
		return g.canonCmd(depth, k)
	}
	switch {
	case k < 5:
		b, bg := g.body(depth)
		return "{" + g.nl() + b + g.term(bg) + "}"
	case k < 7:
		b, bg := g.body(depth)
		open := "("
		if strings.HasPrefix(b, "(") || (g.layout && g.r.IntN(4) == 0) {
			open += g.nl()
		}
		cl := ")"
		if bg && g.r.IntN(2) == 0 || g.layout && g.r.IntN(5) == 0 {
			cl = g.nl() + ")"
		} else if strings.HasSuffix(b, ")") && g.r.IntN(2) == 0 {
			cl = " )"
		}
		return open + b + cl
	case k < 9:
		c, cbg := g.body(depth)
		t, tbg := g.body(depth)
		s := "if" + g.nl() + c + g.term(cbg) + "then" + g.nl() + t
		for g.r.IntN(3) == 0 {
			c2, c2bg := g.body(depth)
			t2, t2bg := g.body(depth)
			s += g.term(tbg) + "elif" + g.nl() + c2 + g.term(c2bg) + "then" + g.nl() + t2
			tbg = t2bg
		}
		if g.r.IntN(3) == 0 {
			e, ebg := g.body(depth)
			s += g.term(tbg) + "else" + g.nl() + e
			tbg = ebg
		}
		return s + g.term(tbg) + "fi"
	default:
		c, cbg := g.body(depth)
		b, bbg := g.body(depth)
		kw := "while"
		if g.r.IntN(2) == 0 {
			kw = "until"
		}
		return kw + g.nl() + c + g.term(cbg) + "do" + g.nl() + b + g.term(bbg) + "done"
	}
}

// pinned programs: the separator cases the model is about
var pinned = []string{
	"( (a) )", "((a) )\n", "( (a); b )", "( (a) | b )", "( a | (b) )", "( (a) && (b) )", "(a; (b))", "( ( (a) ) )",
	"( (a) & )", "(\n(a)\n)", "( ! (a) )", "(a &)", "if a; then b; elif c; then d; else e; fi",
	"a && b || c | d &", "{ a; { b; }; }", "{ a & }", "if a & then b & fi", "while a; do b; done", "until a & do b & done",
	"! a | b && ! c", "a | b | c", "a && b && c", "{ (a) }", "if (a); then (b); fi", "! { a; }", "a\nb\n\nc", "a &\nb", "a; b; c",
	"if a; b; then c; d; fi", "if if a; then b; fi; then c; fi", "{ a; } && { b; } | (c)", "a |\nb &&\nc", "x 'if' then fi", "a }",
	"", "\n", "a", "if a; then b; else if c; then d; fi; fi", "( (a) || b ) | c", "(a) | (b)", "( (a) | (b) )",
}

func optsFor(i int) (string, []syntax.PrinterOption) {
	switch i % 5 {
	case 1:
		return "single,i4", []syntax.PrinterOption{syntax.SingleLine(true), syntax.Indent(4)}
	case 2:
		return "single,bn", []syntax.PrinterOption{syntax.SingleLine(true), syntax.BinaryNextLine(true)}
	case 3:
		return "single,ci,sr,fn", []syntax.PrinterOption{syntax.SingleLine(true), syntax.SwitchCaseIndent(true), syntax.SpaceRedirects(true), syntax.FunctionNextLine(true)}
	case 4:
		return "single,i2,bn", []syntax.PrinterOption{syntax.SingleLine(true), syntax.Indent(2), syntax.BinaryNextLine(true)}
	}
	return "single", []syntax.PrinterOption{syntax.SingleLine(true)}
}

func runCase(id int, src string, stats map[string]int) {
	f, err := hxfmt.Parse(src, syntax.LangBash, false)
	if err != nil {
		stats["src_parse_error"]++
		return
	}
	tree, nodes, ok, why := export(f)
	if !ok {
		stats["outside:"+why]++
		return
	}
	name, po := optsFor(id)
	c := Case{ID: id, Src: hx.Hex(src), Tree: tree, Opts: name, Mode: "single", Nodes: nodes}
	out, err := hxfmt.Print(syntax.NewPrinter(po...), f)
	if err != nil {
		c.Err = "print: " + err.Error()
		hx.Emit(c)
		return
	}
	c.Out = hx.Hex(out)
	f2, err := hxfmt.Parse(out, syntax.LangBash, false)
	if err != nil {
		c.Err = "reparse: " + err.Error()
		hx.Emit(c)
		return
	}
	rp, _, ok2, why2 := export(f2)
	if !ok2 {
		c.Err = "reparse outside the fragment: " + why2
		hx.Emit(c)
		return
	}
	c.Reparse = rp
	c.Same = rp == tree
	stats["cases"]++
	hx.Emit(c)
}

// ---------------------------------------------------------------- level S+: one simple command with assignments and redirections

func (e *exporter) xcall(f *syntax.File) string {
	if len(f.Stmts) != 1 || len(f.Last) > 0 {
		e.bad("not one statement")
		return ""
	}
	st := f.Stmts[0]
	ce, isCall := st.Cmd.(*syntax.CallExpr)
	if !isCall || st.Negated || st.Background || st.Coprocess || st.Disown || len(st.Comments) > 0 {
		e.bad("not a plain simple command")
		return ""
	}
	var sb strings.Builder
	sb.WriteString("(mkX (")
	var lastEnd syntax.Pos
	for _, a := range ce.Assigns {
		if a.Name == nil || a.Append || a.Naked || a.Index != nil || a.Array != nil || !syntax.ValidName(a.Name.Value) {
			e.bad("assign kind")
			return ""
		}
		val := "nil"
		if a.Value != nil {
			val = e.word(a.Value)
		}
		fmt.Fprintf(&sb, "mkA %s %s :: ", coqBytes(a.Name.Value), val)
		lastEnd = a.End()
	}
	sb.WriteString("nil) (")
	for _, w := range ce.Args {
		sb.WriteString(e.word(w))
		sb.WriteString(" :: ")
		lastEnd = w.End()
	}
	sb.WriteString("nil) (")
	for _, r := range st.Redirs {
		op := ""
		switch r.Op {
		case syntax.RdrOut:
			op = "RdrOut"
		case syntax.AppOut:
			op = "AppOut"
		case syntax.RdrIn:
			op = "RdrIn"
		case syntax.DplOut:
			op = "DplOut"
		default:
			e.bad("redirect op")
			return ""
		}
		n := ""
		if r.N != nil {
			n = r.N.Value
			for i := 0; i < len(n); i++ {
				if n[i] < '0' || n[i] > '9' {
					e.bad("redirect fd")
				}
			}
		}
		if r.Hdoc != nil || r.Word == nil || !r.Pos().After(lastEnd) && r.Pos() != lastEnd {
			e.bad("redirect position")
			return ""
		}
		fmt.Fprintf(&sb, "mkR %s %s %s :: ", coqBytes(n), op, e.word(r.Word))
	}
	sb.WriteString("nil))")
	if st.Pos().Line() != st.End().Line() {
		e.bad("multi-line simple command")
	}
	return sb.String()
}

var xNames = []string{"x", "y_1", "A", "_v"}
var xVals = []string{"", "1", "'a b'", "\"$y\"", "$z", "a=b", "é", "\\;", "${q}w", "-n"}
var xTargets = []string{"f", "/dev/null", "'a b'", "\"$x\"", "$f", "log.txt", "a=b", "2"}
var xFds = []string{"", "", "2", "1", "10"}

func (g *gen) xcmd() string {
	r := g.r
	var parts []string
	na, nw, nr := r.IntN(3), r.IntN(4), r.IntN(4)
	if r.IntN(3) == 0 {
		na = 0
	}
	if nw == 0 && na == 0 {
		nw = 1
	}
	for i := 0; i < na; i++ {
		parts = append(parts, hx.Pick(r, xNames)+"="+hx.Pick(r, xVals))
	}
	for i := 0; i < nw; i++ {
		parts = append(parts, g.wordText(i == 0))
	}
	for i := 0; i < nr; i++ {
		op := hx.Pick(r, []string{">", ">>", "<", ">&"})
		t := hx.Pick(r, xTargets)
		if op == ">&" {
			t = hx.Pick(r, []string{"1", "2", "-"})
		}
		sp := ""
		if r.IntN(3) == 0 {
			sp = " "
		}
		parts = append(parts, hx.Pick(r, xFds)+op+sp+t)
	}
	return strings.Join(parts, g.sp())
}

var xPinned = []string{"a >f", "x=1", "x=", "x=1 y=2 a b", "a 2>&1", "a >>f <g 2>/dev/null", "x='a b' >f", "a b x=1", "x=1 >f", "a 10>f", "a 2 >f", "a >&-", "x=a=b c", "a > f"}

func runX(id int, src string, stats map[string]int) {
	f, err := hxfmt.Parse(src, syntax.LangBash, false)
	if err != nil {
		stats["src_parse_error"]++
		return
	}
	e := &exporter{ok: true}
	tree := e.xcall(f)
	if !e.ok {
		stats["xoutside:"+e.why]++
		return
	}
	sr := id%2 == 1
	single := (id/2)%2 == 1
	name := "default"
	var po []syntax.PrinterOption
	if single {
		name = "single"
		po = append(po, syntax.SingleLine(true))
	}
	if sr {
		name += ",sr"
		po = append(po, syntax.SpaceRedirects(true))
	}
	c := Case{ID: id, Src: hx.Hex(src), Tree: tree, Opts: name, Mode: "xcall", Bnl: sr}
	pr := syntax.NewPrinter(po...)
	out, err := hxfmt.Print(pr, f)
	if err != nil {
		c.Err = "print: " + err.Error()
		hx.Emit(c)
		return
	}
	c.Out = hx.Hex(out)
	f2, err := hxfmt.Parse(out, syntax.LangBash, false)
	if err != nil {
		c.Err = "reparse: " + err.Error()
		hx.Emit(c)
		return
	}
	e2 := &exporter{ok: true}
	rp := e2.xcall(f2)
	if !e2.ok {
		c.Err = "reparse outside the fragment: " + e2.why
		hx.Emit(c)
		return
	}
	c.Reparse = rp
	c.Same = rp == tree
	out2, err := hxfmt.Print(pr, f2)
	c.Idem = err == nil && out2 == out
	stats["cases_xcall"]++
	hx.Emit(c)
}

func defaultOptsFor(i int) (string, int, bool, []syntax.PrinterOption) {
	switch i % 4 {
	case 1:
		return "i4", 4, false, []syntax.PrinterOption{syntax.Indent(4)}
	case 2:
		return "bn", 0, true, []syntax.PrinterOption{syntax.BinaryNextLine(true)}
	case 3:
		return "i2,bn", 2, true, []syntax.PrinterOption{syntax.Indent(2), syntax.BinaryNextLine(true)}
	}
	return "default", 0, false, nil
}

// runDefault: the default (multi-line) printer on the tree WITH the lines of src.
func runDefault(id int, src string, canon bool, stats map[string]int) {
	f, err := hxfmt.Parse(src, syntax.LangBash, false)
	if err != nil {
		stats["src_parse_error"]++
		return
	}
	tree, nodes, ok, why := export(f)
	if !ok {
		stats["outside:"+why]++
		return
	}
	ptree, ok, why := pexport(f)
	if !ok {
		stats["outside:"+why]++
		return
	}
	name, ind, bnl, po := defaultOptsFor(id)
	c := Case{ID: id, Src: hx.Hex(src), Tree: tree, PTree: ptree, Opts: name, Mode: "default", Nodes: nodes, Canon: canon, Ind: ind, Bnl: bnl}
	pr := syntax.NewPrinter(po...)
	out, err := hxfmt.Print(pr, f)
	if err != nil {
		c.Err = "print: " + err.Error()
		hx.Emit(c)
		return
	}
	c.Out = hx.Hex(out)
	f2, err := hxfmt.Parse(out, syntax.LangBash, false)
	if err != nil {
		c.Err = "reparse: " + err.Error()
		hx.Emit(c)
		return
	}
	rp, _, ok2, why2 := export(f2)
	if !ok2 {
		c.Err = "reparse outside the fragment: " + why2
		hx.Emit(c)
		return
	}
	c.Reparse = rp
	c.Same = rp == tree
	if pt2, ok3, _ := pexport(f2); ok3 {
		c.PTree2 = pt2
	}
	out2, err := hxfmt.Print(pr, f2)
	c.Idem = err == nil && out2 == out
	stats["cases_default"]++
	hx.Emit(c)
}

func main() {
	o := hx.ParseArgs()
	defer hx.Flush()
	if o.Mode != "stmts" {
		fmt.Println(`{"error":"unknown mode"}`)
		return
	}
	stats := map[string]int{}
	id := 0
	for _, p := range pinned {
		runCase(id, p, stats)
		id++
	}
	r := hx.Rand(o.Seed, 301)
	g := &gen{r: r}
	for i := 0; i < o.N; i++ {
		g.layout = i%3 != 0
		depth := 1 + r.IntN(3)
		src, _ := g.list(depth, 3)
		if o.Tier == "quick" {
			// the kernel evaluation costs ~0.1 ms per source byte and case: keep programs small
			for try := 0; len(src) > 160 && try < 50; try++ {
				src, _ = g.list(1+r.IntN(2), 2)
			}
			if len(src) > 160 {
				continue
			}
		}
		if r.IntN(4) > 0 {
			src += "\n"
		}
		runCase(id, src, stats)
		id++
	}
	// default (multi-line) printer: pinned programs as written, generated programs in random and in canonical layout
	for _, p := range pinned {
		runDefault(id, p, false, stats)
		id++
	}
	gd := &gen{r: hx.Rand(o.Seed, 302)}
	for i := 0; i < o.N; i++ {
		gd.canon = i%2 == 0
		gd.layout = !gd.canon
		src, _ := gd.list(1+gd.r.IntN(3), 3)
		if o.Tier == "quick" {
			for try := 0; len(src) > 160 && try < 50; try++ {
				src, _ = gd.list(1+gd.r.IntN(2), 2)
			}
			if len(src) > 160 {
				continue
			}
		}
		src += "\n"
		runDefault(id, src, gd.canon, stats)
		id++
	}
	// level S+: one simple command with assignments and redirections per file
	for _, p := range xPinned {
		for k := 0; k < 4; k++ {
			runX(id, p+"\n", stats)
			id++
		}
	}
	gx := &gen{r: hx.Rand(o.Seed, 303)}
	for i := 0; i < o.N/2; i++ {
		src := gx.xcmd() + "\n"
		runX(id, src, stats)
		id++
	}
	hx.Emit(map[string]any{"summary": stats})
}
