// c17: observations of pattern.Regexp and the interpreter's matcher on
// enumerated / generated shell patterns.
//
//	enum  -n MAXLEN -seed S -tier T   search rows: pattern, strings, Go match bits per bash-comparable config
//	code  ...                         code-leg rows: regexp text + error per mode, regexp match bits
package main

import (
	"math/rand/v2"
	"strings"

	"verifharness/hx"
	"verifharness/hxpat"

	"mvdan.cc/sh/v3/pattern"
)

const (
	ES  = pattern.EntireString
	EXT = pattern.ExtendedOperators
	NC  = pattern.NoGlobCase
)

type searchRow struct {
	P     string               `json:"p"`    // hex
	Strs  []string             `json:"strs"` // hex
	FStrs []string             `json:"fstrs"`
	Cfg   map[string]hxpat.Res `json:"cfg"`
	Src   string               `json:"src"`
}

func searchObserve(p, src string) searchRow {
	strs := hxpat.Strings(p, 3, 5, false)
	fstrs := hxpat.Strings(p, 3, 5, true)
	row := searchRow{P: hx.Hex(p), Strs: hx.HexList(strs), FStrs: hx.HexList(fstrs), Src: src, Cfg: map[string]hxpat.Res{}}
	row.Cfg["ext"] = hxpat.ViaMatcher(p, ES|EXT, strs)      // bash: [[ s == p ]] / case with extglob
	row.Cfg["noext"] = hxpat.ViaRegexp(p, ES, strs)         // bash: case with shopt -u extglob
	row.Cfg["fold"] = hxpat.ViaMatcher(p, ES|EXT|NC, fstrs) // bash: nocasematch
	return row
}

type codeRow struct {
	P     []int         `json:"p"`
	M     int           `json:"m"`
	Obs   hxpat.CodeObs `json:"obs"`
	Alpha []int         `json:"alpha"`          // test strings = all strings of length <= 3 over alpha (hxpat.StringsOver order)
	Bits  string        `json:"bits"`           // regexp.MatchString per string ("" unless obs.k == ok)
	MObs  string        `json:"mobs,omitempty"` // ExtendedPatternMatcher: bits | "E" error | "P" panic ("" = not observed)
	Src   string        `json:"src"`
}

const (
	FN  = pattern.Filenames
	SH  = pattern.Shortest
	NGS = pattern.NoGlobStar
	GLD = pattern.GlobLeadingDot
)

var codeModes = []pattern.Mode{0, ES, ES | EXT, ES | FN, ES | FN | NGS, ES | FN | GLD, ES | NC, ES | EXT | NC, FN, EXT, SH, SH | FN | ES | EXT}

func codeObserve(p string, m pattern.Mode, src string) codeRow {
	return codeObserveCap(p, m, src, 4)
}

func codeObserveCap(p string, m pattern.Mode, src string, maxAlpha int) codeRow {
	var extra []rune
	if m&FN != 0 && maxAlpha >= 4 {
		extra = []rune{'/', '.'}
	}
	alpha := hxpat.Alpha(p, maxAlpha, m&NC != 0, extra...)
	strs := hxpat.StringsOver(alpha, 3)
	row := codeRow{P: hxpat.Runes(p), M: int(m), Src: src, Alpha: hxpat.Runes(string(alpha))}
	obs, rx := hxpat.ObserveRegexp(p, m)
	row.Obs = obs
	if rx != nil {
		row.Bits = hxpat.MatchBits(rx.MatchString, strs)
	}
	if m&EXT != 0 && m&ES != 0 {
		r := hxpat.ViaMatcher(p, m, strs)
		switch {
		case strings.HasPrefix(r.Err, "PANIC"):
			row.MObs = "P"
		case r.Err != "":
			row.MObs = "E"
		default:
			row.MObs = r.Bits
		}
	}
	return row
}

func codeRows(p, src string, r *rand.Rand) {
	for _, m := range codeModes {
		hx.Emit(codeObserve(p, m, src))
	}
	for i := 0; i < 2; i++ {
		hx.Emit(codeObserve(p, pattern.Mode(r.IntN(128)), src))
	}
}

// sweepForms: the rune as a plain literal (unless it is a glob metacharacter), escaped, quoted by QuoteMeta, and
// the escaped form embedded between literals.
func sweepForms(c rune) []string {
	var out []string
	if !strings.ContainsRune("*?[\\", c) {
		out = append(out, string(c))
	}
	return append(out, "\\"+string(c), pattern.QuoteMeta(string(c), 0), "a"+pattern.QuoteMeta(string(c), 0)+"b")
}

type sweepRow struct {
	P      string `json:"p"` // hex
	M      int    `json:"m"`
	Clause string `json:"clause"`
	Detail string `json:"detail"`
	Class  string `json:"class,omitempty"` // known-finding class attribution ("" if none)
}

// sweepLaw: for every rune c, every form p of "the literal c" and every one of the 128 modes: Regexp returns an
// expression that compiles, accepts the literal text, and (EntireString) rejects everything else tried.
// Emits only failing rows and a summary.
func sweepLaw() {
	n := 0
	for _, c := range hxpat.SweepRunes() {
		forms := sweepForms(c)
		for fi, p := range forms {
			want := string(c)
			if fi == len(forms)-1 {
				want = "a" + string(c) + "b"
			}
			others := []string{"", want + want, want + "a", "a" + want, "a", "ab", "a" + string(c), string(c) + "b"}
			for m := pattern.Mode(0); m < 128; m++ {
				n++
				obs, rx := hxpat.ObserveRegexp(p, m)
				if rx == nil {
					hx.Emit(sweepRow{P: hx.Hex(p), M: int(m), Clause: "literal_does_not_compile_or_errors", Detail: obs.K + " " + obs.Msg})
					continue
				}
				if !rx.MatchString(want) {
					hx.Emit(sweepRow{P: hx.Hex(p), M: int(m), Clause: "literal_does_not_match_itself", Detail: string(hxpat.RunesToString(obs.Text))})
					continue
				}
				if m&ES != 0 {
					for _, t := range others {
						if m&NC != 0 && strings.EqualFold(t, want) {
							continue
						}
						if t != want && rx.MatchString(t) {
							hx.Emit(sweepRow{P: hx.Hex(p), M: int(m), Clause: "literal_matches_other_string", Detail: t})
							break
						}
					}
				}
			}
		}
	}
	hx.Emit(map[string]any{"summary": map[string]int{"cases": n}})
}

// starLaw: in Filenames mode only an exact "**" path element is globstar; a run of three or more stars means the same as
// one star (bash).  For every path pattern containing such a run and every Filenames mode combination, the expression
// must accept the same path strings as the pattern with the runs collapsed.  Emits failing rows and a summary.
func starLaw(tier string, seed uint64) {
	strs := hxpat.PathStrings()
	n := 0
	for l := 1; l <= 3; l++ {
		np := hxpat.NumPaths(l)
		for i := 0; i < np; i++ {
			if l == 3 && tier != "thorough" && uint64(i%8) != seed%8 {
				continue
			}
			p := hxpat.PathPattern(l, i)
			q := hxpat.CollapseStarRuns(p)
			if q == p {
				continue
			}
			for _, m := range []pattern.Mode{ES | FN, ES | FN | GLD, ES | FN | NGS, ES | FN | EXT, ES | FN | NC} {
				n++
				a := hxpat.ViaRegexp(p, m, strs)
				b := hxpat.ViaRegexp(q, m, strs)
				if a.Bits != b.Bits || a.Err != b.Err {
					d, found := "", false
					for k := range strs {
						if k < len(a.Bits) && k < len(b.Bits) && a.Bits[k] != b.Bits[k] {
							if !found {
								d, found = strs[k], true
							}
							if !strings.Contains("/"+strs[k], "/.") { // prefer a difference that does not involve a dot name
								d = strs[k]
								break
							}
						}
					}
					// known finding: the third star of a run is emitted as [^/]* and lets the element start with a dot
					class := ""
					if m&GLD == 0 && a.Err == "" && b.Err == "" {
						for _, comp := range strings.Split(d, "/") {
							if strings.HasPrefix(comp, ".") {
								class = "star_run_leaks_leading_dot"
							}
						}
					}
					hx.Emit(sweepRow{P: hx.Hex(p), M: int(m), Clause: "star_run_is_not_a_single_star", Class: class,
						Detail: "collapsed=" + q + " differs on " + d + " " + a.Err + b.Err})
				}
			}
		}
	}
	hx.Emit(map[string]any{"summary": map[string]int{"cases": n}})
}

func main() {
	o := hx.ParseArgs()
	defer hx.Flush()
	switch o.Mode {
	case "enum":
		// exhaustive short patterns; -n = max length; quick tier visits all of
		// length < n and the seed-th eighth of length n; thorough visits all.
		for l := 1; l <= o.N; l++ {
			np := hxpat.NumPatterns(l)
			for i := 0; i < np; i++ {
				if l == o.N && o.Tier != "thorough" && l >= 3 && uint64(i%8) != o.Seed%8 {
					continue
				}
				hx.Emit(searchObserve(hxpat.Pattern(l, i), "enum"))
			}
		}
	case "tokens":
		// a pinned list (fixed PRNG seed): the seed only rotates which eighth the quick tier visits
		r := hx.Rand(17, 17)
		for i := 0; i < o.N; i++ {
			p := hxpat.GenTokens(r, 5)
			if o.Tier != "thorough" && uint64(i%8) != o.Seed%8 {
				continue
			}
			hx.Emit(searchObserve(p, "tokens"))
		}
	case "code":
		// code leg: every pattern of length <= 1, seed-rotated 1/8 of length 2 and 1/192 of length 3 (thorough: all, all, 1/4), and -n token patterns
		r := hx.Rand(o.Seed, 1700)
		for l := 0; l <= 3; l++ {
			np := hxpat.NumPatterns(l)
			for i := 0; i < np; i++ {
				if l == 2 && o.Tier != "thorough" && uint64(i%8) != o.Seed%8 {
					continue
				}
				if l == 3 && (o.Tier != "thorough" && uint64(i%192) != o.Seed%192 || o.Tier == "thorough" && uint64(i%4) != o.Seed%4) {
					continue
				}
				codeRows(hxpat.Pattern(l, i), "enum", r)
			}
		}
		for i := 0; i < o.N; i++ {
			codeRows(hxpat.GenTokens(r, 5), "tokens", r)
		}
		// bracket expressions: all with <= 1 element, a seed-rotated slice with 2 (thorough: all) and with 3 (thorough only)
		focus := []pattern.Mode{ES, ES | EXT | NC, ES | FN}
		for l := 0; l <= 3; l++ {
			nb := hxpat.NumBrackets(l)
			for i := 0; i < nb; i++ {
				if l == 2 && o.Tier != "thorough" && uint64(i%32) != o.Seed%32 {
					continue
				}
				if l == 3 && (o.Tier != "thorough" || uint64(i%16) != o.Seed%16) {
					continue
				}
				p := hxpat.Bracket(l, i)
				for _, m := range focus {
					hx.Emit(codeObserve(p, m, "brackets"))
				}
				hx.Emit(codeObserve(p, pattern.Mode(r.IntN(128)), "brackets"))
			}
		}
		// class names (valid, substrings, misspellings): a seed-rotated eighth (thorough: all)
		for i, name := range hxpat.ClassNames() {
			if o.Tier != "thorough" && uint64(i%8) != o.Seed%8 {
				continue
			}
			for _, p := range hxpat.ClassPatterns(name) {
				hx.Emit(codeObserve(p, ES, "classes"))
				hx.Emit(codeObserve(p, pattern.Mode(r.IntN(128)), "classes"))
			}
		}
		// every ASCII rune (and a few multi-byte) as literal, escaped, and quoted by QuoteMeta
		for _, c := range hxpat.SweepRunes() {
			for _, p := range sweepForms(c) {
				hx.Emit(codeObserveCap(p, ES, "sweep", 2))
				hx.Emit(codeObserveCap(p, pattern.Mode(r.IntN(128)), "sweep", 2))
			}
		}
		// Filenames-mode path patterns (star runs of length 1..4 alone / glued to text, dot names): all with <= 2
		// elements, a seed-rotated slice with 3 (thorough: a quarter)
		fnModes := []pattern.Mode{ES | FN, ES | FN | GLD, ES | FN | NGS, FN | SH}
		for l := 1; l <= 3; l++ {
			np := hxpat.NumPaths(l)
			for i := 0; i < np; i++ {
				if l == 2 && o.Tier != "thorough" && uint64(i%8) != o.Seed%8 {
					continue
				}
				if l == 3 && (o.Tier != "thorough" && uint64(i%512) != o.Seed%512 || o.Tier == "thorough" && uint64(i%4) != o.Seed%4) {
					continue
				}
				p := hxpat.PathPattern(l, i)
				for _, m := range fnModes {
					hx.Emit(codeObserve(p, m, "paths"))
				}
			}
		}
	case "starpairs":
		// relative path patterns with a run of >= 3 stars and their collapsed form, for the bash pathname-expansion oracle
		for l := 1; l <= 3; l++ {
			np := hxpat.NumPaths(l)
			for i := 0; i < np; i++ {
				if l == 3 && o.Tier != "thorough" && uint64(i%8) != o.Seed%8 {
					continue
				}
				p := hxpat.PathPattern(l, i)
				q := hxpat.CollapseStarRuns(p)
				if q != p && !strings.HasPrefix(p, "/") {
					hx.Emit(map[string]string{"p": p, "q": q})
				}
			}
		}
	case "starlaw":
		starLaw(o.Tier, o.Seed)
	case "brackets":
		for l := 0; l <= 3; l++ {
			nb := hxpat.NumBrackets(l)
			for i := 0; i < nb; i++ {
				if l == 2 && o.Tier != "thorough" && uint64(i%4) != o.Seed%4 {
					continue
				}
				if l == 3 && o.Tier != "thorough" {
					continue
				}
				hx.Emit(searchObserve(hxpat.Bracket(l, i), "brackets"))
			}
		}
		for _, name := range hxpat.ClassNames() {
			for _, p := range hxpat.ClassPatterns(name) {
				hx.Emit(searchObserve(p, "classes"))
			}
		}
		for _, c := range hxpat.SweepRunes() {
			if c == 0x1f {
				continue // the oracle file's string separator
			}
			for _, p := range sweepForms(c) {
				hx.Emit(searchObserve(p, "sweep"))
			}
		}
	case "sweep":
		sweepLaw()
	case "codelist":
		r := hx.Rand(o.Seed, 1700)
		for _, p := range o.Args {
			codeRows(p, "list", r)
		}
	case "list":
		for _, p := range o.Args {
			hx.Emit(searchObserve(p, "list"))
		}
	}
}
