// c17: observations of pattern.Regexp and the interpreter's matcher on
// enumerated / generated shell patterns.
//
//	enum  -n MAXLEN -seed S -tier T   search rows: pattern, strings, Go match bits per bash-comparable config
//	code  ...                         code-leg rows: regexp text + error per mode, regexp match bits
package main

import (
	"math/rand/v2"
	"strings"

	"verifharness/hx"
	"verifharness/hxpat"

	"mvdan.cc/sh/v3/pattern"
)

const (
	ES  = pattern.EntireString
	EXT = pattern.ExtendedOperators
	NC  = pattern.NoGlobCase
)

type searchRow struct {
	P     string               `json:"p"`    // hex
	Strs  []string             `json:"strs"` // hex
	FStrs []string             `json:"fstrs"`
	Cfg   map[string]hxpat.Res `json:"cfg"`
	Src   string               `json:"src"`
}

func searchObserve(p, src string) searchRow {
	strs := hxpat.Strings(p, 3, 5, false)
	fstrs := hxpat.Strings(p, 3, 5, true)
	row := searchRow{P: hx.Hex(p), Strs: hx.HexList(strs), FStrs: hx.HexList(fstrs), Src: src, Cfg: map[string]hxpat.Res{}}
	row.Cfg["ext"] = hxpat.ViaMatcher(p, ES|EXT, strs)      // bash: [[ s == p ]] / case with extglob
	row.Cfg["noext"] = hxpat.ViaRegexp(p, ES, strs)         // bash: case with shopt -u extglob
	row.Cfg["fold"] = hxpat.ViaMatcher(p, ES|EXT|NC, fstrs) // bash: nocasematch
	return row
}

type codeRow struct {
	P     []int         `json:"p"`
	M     int           `json:"m"`
	Obs   hxpat.CodeObs `json:"obs"`
	Alpha []int         `json:"alpha"`          // test strings = all strings of length <= 3 over alpha (hxpat.StringsOver order)
	Bits  string        `json:"bits"`           // regexp.MatchString per string ("" unless obs.k == ok)
	MObs  string        `json:"mobs,omitempty"` // ExtendedPatternMatcher: bits | "E" error | "P" panic ("" = not observed)
	Src   string        `json:"src"`
}

const (
	FN  = pattern.Filenames
	SH  = pattern.Shortest
	NGS = pattern.NoGlobStar
	GLD = pattern.GlobLeadingDot
)

var codeModes = []pattern.Mode{0, ES, ES | EXT, ES | FN, ES | FN | NGS, ES | FN | GLD, ES | NC, ES | EXT | NC, FN, EXT, SH, SH | FN | ES | EXT}

func codeObserve(p string, m pattern.Mode, src string) codeRow {
	var extra []rune
	if m&FN != 0 {
		extra = []rune{'/', '.'}
	}
	alpha := hxpat.Alpha(p, 4, m&NC != 0, extra...)
	strs := hxpat.StringsOver(alpha, 3)
	row := codeRow{P: hxpat.Runes(p), M: int(m), Src: src, Alpha: hxpat.Runes(string(alpha))}
	obs, rx := hxpat.ObserveRegexp(p, m)
	row.Obs = obs
	if rx != nil {
		row.Bits = hxpat.MatchBits(rx.MatchString, strs)
	}
	if m&EXT != 0 && m&ES != 0 {
		r := hxpat.ViaMatcher(p, m, strs)
		switch {
		case strings.HasPrefix(r.Err, "PANIC"):
			row.MObs = "P"
		case r.Err != "":
			row.MObs = "E"
		default:
			row.MObs = r.Bits
		}
	}
	return row
}

func codeRows(p, src string, r *rand.Rand) {
	for _, m := range codeModes {
		hx.Emit(codeObserve(p, m, src))
	}
	for i := 0; i < 2; i++ {
		hx.Emit(codeObserve(p, pattern.Mode(r.IntN(128)), src))
	}
}

func main() {
	o := hx.ParseArgs()
	defer hx.Flush()
	switch o.Mode {
	case "enum":
		// exhaustive short patterns; -n = max length; quick tier visits all of
		// length < n and the seed-th eighth of length n; thorough visits all.
		for l := 1; l <= o.N; l++ {
			np := hxpat.NumPatterns(l)
			for i := 0; i < np; i++ {
				if l == o.N && o.Tier != "thorough" && l >= 3 && uint64(i%8) != o.Seed%8 {
					continue
				}
				hx.Emit(searchObserve(hxpat.Pattern(l, i), "enum"))
			}
		}
	case "tokens":
		// a pinned list (fixed PRNG seed): the seed only rotates which eighth the quick tier visits
		r := hx.Rand(17, 17)
		for i := 0; i < o.N; i++ {
			p := hxpat.GenTokens(r, 5)
			if o.Tier != "thorough" && uint64(i%8) != o.Seed%8 {
				continue
			}
			hx.Emit(searchObserve(p, "tokens"))
		}
	case "code":
		// code leg: every pattern of length <= 1, seed-rotated 1/8 of length 2 and 1/192 of length 3 (thorough: all, all, 1/4), and -n token patterns
		r := hx.Rand(o.Seed, 1700)
		for l := 0; l <= 3; l++ {
			np := hxpat.NumPatterns(l)
			for i := 0; i < np; i++ {
				if l == 2 && o.Tier != "thorough" && uint64(i%8) != o.Seed%8 {
					continue
				}
				if l == 3 && (o.Tier != "thorough" && uint64(i%192) != o.Seed%192 || o.Tier == "thorough" && uint64(i%4) != o.Seed%4) {
					continue
				}
				codeRows(hxpat.Pattern(l, i), "enum", r)
			}
		}
		for i := 0; i < o.N; i++ {
			codeRows(hxpat.GenTokens(r, 5), "tokens", r)
		}
	case "codelist":
		r := hx.Rand(o.Seed, 1700)
		for _, p := range o.Args {
			codeRows(p, "list", r)
		}
	case "list":
		for _, p := range o.Args {
			hx.Emit(searchObserve(p, "list"))
		}
	}
}
