// c17: observations of pattern.Regexp and the interpreter's matcher on
// enumerated / generated shell patterns.
//
//	enum  -n MAXLEN -seed S -tier T   search rows: pattern, strings, Go match bits per bash-comparable config
//	code  ...                         code-leg rows: regexp text + error per mode, regexp match bits
package main

import (
	"verifharness/hx"
	"verifharness/hxpat"

	"mvdan.cc/sh/v3/pattern"
)

const (
	ES  = pattern.EntireString
	EXT = pattern.ExtendedOperators
	NC  = pattern.NoGlobCase
)

type searchRow struct {
	P     string               `json:"p"`    // hex
	Strs  []string             `json:"strs"` // hex
	FStrs []string             `json:"fstrs"`
	Cfg   map[string]hxpat.Res `json:"cfg"`
	Src   string               `json:"src"`
}

func searchObserve(p, src string) searchRow {
	strs := hxpat.Strings(p, 3, 4, false)
	fstrs := hxpat.Strings(p, 3, 4, true)
	row := searchRow{P: hx.Hex(p), Strs: hx.HexList(strs), FStrs: hx.HexList(fstrs), Src: src, Cfg: map[string]hxpat.Res{}}
	row.Cfg["ext"] = hxpat.ViaMatcher(p, ES|EXT, strs)        // bash: [[ s == p ]] / case with extglob
	row.Cfg["noext"] = hxpat.ViaRegexp(p, ES, strs)            // bash: case with shopt -u extglob
	row.Cfg["fold"] = hxpat.ViaMatcher(p, ES|EXT|NC, fstrs)   // bash: nocasematch
	return row
}

func main() {
	o := hx.ParseArgs()
	defer hx.Flush()
	switch o.Mode {
	case "enum":
		// exhaustive short patterns; -n = max length; quick tier visits all of
		// length < n and the seed-th eighth of length n; thorough visits all.
		for l := 1; l <= o.N; l++ {
			np := hxpat.NumPatterns(l)
			for i := 0; i < np; i++ {
				if l == o.N && o.Tier != "thorough" && l >= 3 && uint64(i%8) != o.Seed%8 {
					continue
				}
				hx.Emit(searchObserve(hxpat.Pattern(l, i), "enum"))
			}
		}
	case "tokens":
		r := hx.Rand(o.Seed, 17)
		for i := 0; i < o.N; i++ {
			hx.Emit(searchObserve(hxpat.GenTokens(r, 5), "tokens"))
		}
	case "list":
		for _, p := range o.Args {
			hx.Emit(searchObserve(p, "list"))
		}
	}
}
