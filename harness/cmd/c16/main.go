// c16: brace expansion. Per word (a single literal) it observes the real code
// (syntax.SplitBraces: flag, part tree, Printer output; expand.BracesSeq;
// expand.Fields with an empty environment), computes the Go-side port of bash's
// algorithm (spec.go), asks real bash 5.2 (many words per process), and emits
//   - one JSON line per word selected for the in-kernel Coq comparison ("coq":1),
//   - one JSON line per word on which some clause of the property fails,
//   - a final {"summary":...} line with the counters.
package main

import (
	"bytes"
	"fmt"
	"math/big"
	"math/rand/v2"
	"os"
	"os/exec"
	"path/filepath"
	"strconv"
	"strings"
	"time"

	"mvdan.cc/sh/v3/expand"
	"mvdan.cc/sh/v3/syntax"
	"verifharness/hx"
)

// ---------------------------------------------------------------- observation of the code

type jpart struct {
	L *string   `json:"l,omitempty"` // hex of a Lit value
	S bool      `json:"s,omitempty"` // BraceExp.Sequence
	E [][]jpart `json:"e,omitempty"` // BraceExp.Elems
	B bool      `json:"b,omitempty"` // is a BraceExp
}

func toJ(parts []syntax.WordPart) []jpart {
	out := []jpart{}
	for _, p := range parts {
		switch p := p.(type) {
		case *syntax.Lit:
			h := hx.Hex(p.Value)
			out = append(out, jpart{L: &h})
		case *syntax.BraceExp:
			j := jpart{B: true, S: p.Sequence, E: [][]jpart{}}
			for _, e := range p.Elems {
				j.E = append(j.E, toJ(e.Parts))
			}
			out = append(out, j)
		default:
			h := "ff"
			out = append(out, jpart{L: &h})
		}
	}
	return out
}

func render(parts []syntax.WordPart) string {
	var sb strings.Builder
	for _, p := range parts {
		switch p := p.(type) {
		case *syntax.Lit:
			sb.WriteString(p.Value)
		case *syntax.BraceExp:
			sb.WriteByte('{')
			for i, e := range p.Elems {
				if i > 0 {
					if p.Sequence {
						sb.WriteString("..")
					} else {
						sb.WriteByte(',')
					}
				}
				sb.WriteString(render(e.Parts))
			}
			sb.WriteByte('}')
		}
	}
	return sb.String()
}

func printWord(w *syntax.Word) (string, bool) {
	var buf bytes.Buffer
	var err error
	if p, _ := hx.Try(func() { err = syntax.NewPrinter().Print(&buf, w) }); p {
		return "", false
	}
	if err != nil {
		return "", false
	}
	return buf.String(), true
}

type obs struct {
	Word          string     `json:"word"` // hex
	Coq           int        `json:"coq,omitempty"`
	Flag          bool       `json:"flag"`
	Tree          []jpart    `json:"tree"`
	Exp           [][]string `json:"exp"`    // BracesSeq: per word the hex Lit values; nil when error/panic
	ExpErr        string     `json:"experr"` // "" | "E" (limit error) | "P" (panic)
	Fields        []string   `json:"fields"` // expand.Fields, hex; nil on error
	FErr          string     `json:"ferr"`
	Spec          []string   `json:"spec"` // Go-side spec, raw words, hex; nil when many
	Many          bool       `json:"many"`
	Bash          []string   `json:"bash,omitempty"` // hex, when asked
	Feat          string     `json:"feat"`
	Fails         []string   `json:"fails,omitempty"`
	Class         string     `json:"class,omitempty"`
	Stream        string     `json:"stream"`
	rawWord       string
	rawExp        []string
	rawFld        []string
	rawSpec       []string
	noBash        bool
	fieldsSkipped bool
	feat          feat
}

func observe(w string, stream string) *obs {
	o := &obs{Word: hx.Hex(w), Stream: stream, rawWord: w}
	word := &syntax.Word{Parts: []syntax.WordPart{&syntax.Lit{Value: w}}}
	origPrinted, okp0 := printWord(word)
	if p, _ := hx.Try(func() { o.Flag = syntax.SplitBraces(word) }); p {
		o.Fails = append(o.Fails, "split_panics")
		return o
	}
	o.Tree = toJ(word.Parts)
	// clause 1: printed form unchanged (own renderer and the real Printer)
	if render(word.Parts) != w {
		o.Fails = append(o.Fails, "split_changes_text")
	}
	if pr, ok := printWord(word); !ok || !okp0 {
		o.Fails = append(o.Fails, "printer_fails_after_split")
	} else if pr != origPrinted {
		o.Fails = append(o.Fails, "printer_output_changes_after_split")
	}
	// clause 2: flag <-> a BraceExp exists
	if o.Flag != treeHasBrace(word.Parts) {
		o.Fails = append(o.Fails, "split_flag_wrong")
	}
	// expansion via BracesSeq on the split word
	if p, _ := hx.Try(func() {
		for bw, err := range expand.BracesSeq(nil, word) {
			if err != nil {
				o.ExpErr = "E"
				o.Exp, o.rawExp = nil, nil
				return
			}
			lits := []string{}
			for _, part := range bw.Parts {
				if l, ok := part.(*syntax.Lit); ok {
					lits = append(lits, hx.Hex(l.Value))
				} else {
					lits = append(lits, "!!")
				}
			}
			o.Exp = append(o.Exp, lits)
			o.rawExp = append(o.rawExp, render(bw.Parts))
		}
	}); p {
		o.ExpErr = "P"
		o.Exp, o.rawExp = nil, nil
		o.Fails = append(o.Fails, "expand_panics")
	}
	if o.ExpErr == "" && o.Exp == nil {
		o.Exp = [][]string{}
	}
	// spec
	sp, many := braceExpand(w, &o.feat)
	o.Many = many
	o.Feat = o.feat.String()
	if !many {
		o.rawSpec = sp
		o.Spec = hx.HexList(sp)
	}
	// expand.Fields on a fresh word, empty environment (for over-limit words only every 4th: it repeats the 16385 yields)
	manySeen++
	if many && manySeen%4 != 0 {
		o.FErr = "E"
		o.fieldsSkipped = true
	} else {
		w2 := &syntax.Word{Parts: []syntax.WordPart{&syntax.Lit{Value: w}}}
		if p, _ := hx.Try(func() {
			f, err := expand.Fields(&expand.Config{}, w2)
			if err != nil {
				o.FErr = "E"
				if !strings.Contains(err.Error(), "brace expansion would exceed") {
					o.FErr = "E:" + err.Error()
				}
				return
			}
			o.rawFld = append([]string{}, f...)
			o.Fields = hx.HexList(o.rawFld)
		}); p {
			o.FErr = "P"
			o.Fails = append(o.Fails, "fields_panics")
		}
	}
	// words bash cannot be given on a line of their own
	if n := len(w) - len(strings.TrimRight(w, `\`)); n%2 == 1 {
		o.noBash = true
	}
	if many || o.feat.zpadWide {
		o.noBash = true
	}
	// a letter range crossing Z..a produces '[', '\\', ']', '^', '_', '`': bash would re-read some of them as quoting
	if o.feat.crossCase {
		o.noBash = true
	}
	return o
}

func treeHasBrace(parts []syntax.WordPart) bool {
	for _, p := range parts {
		if _, ok := p.(*syntax.BraceExp); ok {
			return true
		}
	}
	return false
}

func eqList(a, b []string) bool {
	if len(a) != len(b) {
		return false
	}
	for i := range a {
		if a[i] != b[i] {
			return false
		}
	}
	return true
}

// judge fills Fails/Class for the expansion clauses once bash's answer (if any) is known.
func judge(o *obs, bash []string, haveBash bool) {
	if haveBash {
		o.Bash = hx.HexList(bash)
	}
	// oracle: Go-side spec vs bash (a disagreement is a defect of the check, reported as such)
	if haveBash && !o.Many && !eqList(fieldsOf(o.rawSpec), bash) {
		o.Fails = append(o.Fails, "ORACLE_spec_differs_from_bash")
	}
	// limit clause: error exactly when the list would exceed the limit
	if o.Many {
		if o.ExpErr != "E" {
			o.Fails = append(o.Fails, "no_error_above_limit")
		}
		if o.FErr != "E" {
			o.Fails = append(o.Fails, "fields_no_error_above_limit")
		}
	} else {
		if o.ExpErr == "E" {
			o.Fails = append(o.Fails, "error_below_limit")
		} else if o.ExpErr == "" && !eqList(o.rawExp, o.rawSpec) {
			o.Fails = append(o.Fails, "expansion_differs_from_spec")
		}
		want := fieldsOf(o.rawSpec)
		if haveBash {
			want = bash
		}
		if o.FErr == "E" {
			o.Fails = append(o.Fails, "fields_error_below_limit")
		} else if strings.HasPrefix(o.FErr, "E:") {
			o.Fails = append(o.Fails, "fields_other_error")
		} else if o.FErr == "" && !eqList(o.rawFld, want) {
			if haveBash {
				o.Fails = append(o.Fails, "fields_differ_from_bash")
			} else {
				o.Fails = append(o.Fails, "fields_differ_from_spec")
			}
		}
	}
	if len(o.Fails) > 0 {
		o.Class = classify(o)
	}
}

// classify attributes a failing word to a known-finding class: only the
// expansion-differs clauses, only when the named bash mechanism was exercised
// by this word, and only when Go's answer is what the mechanism explains.
func classify(o *obs) string {
	for _, f := range o.Fails {
		switch f {
		case "expansion_differs_from_spec", "fields_differ_from_bash", "fields_differ_from_spec":
		case "error_below_limit", "fields_error_below_limit":
			// Go expanding something bash keeps literal (or the reverse) can also move the word across the limit
			if !o.feat.seqGuard && !o.feat.failedSeqNested && !o.feat.skippedClose && !o.feat.nestedComma {
				return ""
			}
		default:
			return ""
		}
	}
	switch {
	case o.feat.seqGuard:
		return "bash_seq_overflow_guard_literal"
	case o.feat.skippedClose:
		return "bash_close_brace_needs_comma"
	case o.feat.nestedComma:
		return "bash_nested_comma_only"
	case o.feat.failedSeqNested:
		return "bash_failed_seq_keeps_nested_braces"
	}
	return ""
}

// ---------------------------------------------------------------- bash

var scratch string

// runBash returns, per word, the list of arguments bash passes to a function.
func runBash(words []string) ([][]string, error) {
	var sb strings.Builder
	sb.WriteString("f() { printf '%s\\n' \"$#\" \"$@\"; }\n")
	for _, w := range words {
		sb.WriteString("f ")
		sb.WriteString(w)
		sb.WriteByte('\n')
	}
	script := filepath.Join(scratch, "b.sh")
	if err := os.WriteFile(script, []byte(sb.String()), 0o600); err != nil {
		return nil, err
	}
	cmd := exec.Command("env", "-i", "LC_ALL=C.UTF-8", "PATH=/usr/bin:/bin", "timeout", "120",
		"bash", "--norc", "--noprofile", script)
	cmd.Dir = scratch
	var stderr bytes.Buffer
	cmd.Stderr = &stderr
	outb, err := cmd.Output()
	if err != nil {
		return nil, fmt.Errorf("bash: %v: %s", err, stderr.String())
	}
	if stderr.Len() > 0 {
		return nil, fmt.Errorf("bash stderr: %.300s", stderr.String())
	}
	lines := strings.Split(string(outb), "\n")
	res := make([][]string, 0, len(words))
	pos := 0
	for range words {
		if pos >= len(lines) {
			return nil, fmt.Errorf("bash output too short")
		}
		n, err := strconv.Atoi(lines[pos])
		if err != nil {
			return nil, fmt.Errorf("bash output desync at line %d: %q", pos, lines[pos])
		}
		pos++
		if pos+n > len(lines) {
			return nil, fmt.Errorf("bash output too short")
		}
		res = append(res, append([]string{}, lines[pos:pos+n]...))
		pos += n
	}
	return res, nil
}

// ---------------------------------------------------------------- generators

const alpha11 = `{},.-\019az`

func exhaustive(alpha string, n int, f func(string)) {
	buf := make([]byte, n)
	var rec func(i int)
	rec = func(i int) {
		if i == n {
			f(string(buf))
			return
		}
		for k := 0; k < len(alpha); k++ {
			buf[i] = alpha[k]
			rec(i + 1)
		}
	}
	rec(0)
}

var edgeNums = []string{
	"9223372036854775807", "9223372036854775806", "-9223372036854775808", "-9223372036854775807",
	"9223372036854775808", "-9223372036854775809", "9223372036854775800", "-9223372036854775800",
	"4611686018427387904", "-4611686018427387904", "18446744073709551616", "0", "-0", "+0", "1", "-1", "+1",
	"00", "01", "-01", "007", "-007", "+07", "010", "0010", "16384", "16383", "16385", "99999999999999999999",
}

func genNum(r *rand.Rand) string {
	switch r.IntN(10) {
	case 0, 1:
		return hx.Pick(r, edgeNums)
	case 2:
		// near an int64 limit
		d := r.IntN(40)
		if r.IntN(2) == 0 {
			return bigAdd("9223372036854775807", -d)
		}
		return bigAdd("-9223372036854775808", d)
	case 3:
		return strings.Repeat("0", 1+r.IntN(3)) + strconv.Itoa(r.IntN(120))
	case 4:
		return "-" + strings.Repeat("0", r.IntN(3)) + strconv.Itoa(r.IntN(120))
	default:
		return strconv.Itoa(r.IntN(60) - 20)
	}
}

func genStep(r *rand.Rand) string {
	switch r.IntN(10) {
	case 0:
		return "0"
	case 1:
		return "-" + strconv.Itoa(1+r.IntN(5))
	case 2:
		return hx.Pick(r, edgeNums)
	case 3:
		return "+" + strconv.Itoa(r.IntN(4))
	default:
		return strconv.Itoa(1 + r.IntN(7))
	}
}

func genLetter(r *rand.Rand, upper bool) string {
	if upper {
		return string(rune('A' + r.IntN(26)))
	}
	return string(rune('a' + r.IntN(26)))
}

func genPlain(r *rand.Rand) string {
	n := r.IntN(3)
	var sb strings.Builder
	for i := 0; i < n; i++ {
		sb.WriteString(hx.Pick(r, []string{"a", "z", "0", "1", "9", "-", ".", "b", "x", "+", "_", "A", "Z"}))
	}
	return sb.String()
}

// genStruct: a mostly well-formed word from the grammar
//
//	word := (plain | group)*   group := '{' alt (',' alt)+ '}' | '{' seq '}'   alt := word (depth-limited)
func genStruct(r *rand.Rand, depth int) string {
	var sb strings.Builder
	n := 1 + r.IntN(3)
	for i := 0; i < n; i++ {
		switch k := r.IntN(10); {
		case k < 3 || depth <= 0:
			sb.WriteString(genPlain(r))
		case k < 7:
			m := 2 + r.IntN(3)
			if r.IntN(12) == 0 {
				m = 1
			}
			sb.WriteByte('{')
			for j := 0; j < m; j++ {
				if j > 0 {
					sb.WriteByte(',')
				}
				sb.WriteString(genStruct(r, depth-1-r.IntN(2)))
			}
			sb.WriteByte('}')
		default:
			sb.WriteString(genSeq(r))
		}
	}
	return sb.String()
}

func genSeq(r *rand.Rand) string {
	var a, b string
	switch r.IntN(8) {
	case 0, 1:
		up := r.IntN(4) == 0
		a, b = genLetter(r, up), genLetter(r, up)
	case 2:
		a, b = genNum(r), genLetter(r, false) // mixed: invalid
	default:
		a, b = genNum(r), genNum(r)
		if r.IntN(3) == 0 || (len(a) > 8 && r.IntN(8) != 0) {
			// a short range next to a
			if v, err := strconv.ParseInt(a, 10, 64); err == nil {
				d := int64(r.IntN(30) - 15)
				if s := v + d; (d >= 0) == (s >= v) {
					b = strconv.FormatInt(s, 10)
				}
			}
		}
	}
	s := "{" + a + ".." + b
	switch r.IntN(6) {
	case 0, 1:
		s += ".." + genStep(r)
	case 2:
		if r.IntN(4) == 0 {
			s += ".." + genStep(r) + ".." + genStep(r)
		}
	}
	return s + "}"
}

// mutate: one random edit with a metacharacter (the malformed stream)
func mutate(r *rand.Rand, s string) string {
	meta := []string{"{", "}", ",", ".", "..", "\\", "-", "0", "a"}
	if s == "" {
		return hx.Pick(r, meta)
	}
	i := r.IntN(len(s) + 1)
	switch r.IntN(3) {
	case 0:
		return s[:i] + hx.Pick(r, meta) + s[i:]
	case 1:
		if i < len(s) {
			return s[:i] + s[i+1:]
		}
		return s
	default:
		if i < len(s) {
			return s[:i] + hx.Pick(r, meta) + s[i+1:]
		}
		return s + hx.Pick(r, meta)
	}
}

func bigAdd(a string, d int) string {
	v, _ := new(big.Int).SetString(a, 10)
	return v.Add(v, big.NewInt(int64(d))).String()
}

// pinned inputs: the repository's own test literals, the witnesses of the fixed
// defects and of the listed findings, and hand-picked edge cases.
var pinned = []string{
	"a{b", "a}b", "{a,b{c,d}", "{a{b", "a{}", "a{b}", "a{b,c}", "a{b,c}d{e,f}g", "a{b{x,y},c}d", "a{1,2,3,4,5}",
	"a{1..", "a{1..4", "a{1..4}", "a{1..2}b{4..5}c", "a{c..f}", "a{-..f}", "a{3..-}", "a{1..10..3}", "a{1..4..0}",
	"a{4..1}", "a{4..1..-2}", "a{4..1..1}", "a{d..k..3}", "a{d..k..n}", "a{k..d..-2}", "a{f..c}", "a{1..2..3..4}",
	"{,a}", "{a,}", "x{a,}", "{,}", "{,,}", "{a,b\\", "{}", "{a}", "{1..2,3}", "{1,2..3}", "{a..1}",
	"{9223372036854775806..9223372036854775807}", "{-9223372036854775807..-9223372036854775808}",
	"{-5..-10..-9223372036854775808}", "{1..3..-9223372036854775808}", "{3..1..-9223372036854775808}",
	"{-9223372036854775808..9223372036854775807}", "{-9223372036854775808..9223372036854775807..9223372036854775807}",
	"{0..9223372036854775807..4611686018427387904}", "{1..9223372036854775807..9223372036854775806}",
	"{-01..1}", "{+1..3}", "{1..+3}", "{01..-1}", "{-1..010}", "{00..-0}", "{1..3..+1}", "{1..3..}", "{1..3..a}", "{0x1..3}",
	"{{a,b}..c}", "{1..{2,3}}", "{a..c}{", "{a,b}{", "{a}b,c}", "{},a}", "a{},b}", "{a},}", "x{a},}", "{{a,b}}",
	"{a..}", "{..}", "{..,}", "{a..b}c,d}", "{a,b}{c", "{a{b,c}", "{1..x}{a,b}", "{1..x}", "{a..b..}", "{a..b..c}",
	"{..+_{j..u}}1", "{..{a,b}}x", "{1..2}..3}", "{a,b}}", "{a,{b}", "{a..b,c}", "{a,b..c}", "{9223372036854775808..1}", "\\{a,b}", "{a\\,b}", "{a,b\\}",
	"{a\\,b,c}", "{1\\..3}", "a\\{1,2}b", "a{1,2\\}b", "a{1\\,2,3}b", "a{1\\}2,3}b", "\\{\\{iriname\\}\\}",
	"{1..16384}", "{1..16385}", "{0..16383}", "{1..128}{1..128}", "{1..128}{1..129}", "{a,b,c,d}{1..4096}", "{a,b,c,d}{1..4097}",
	"{1..100000}", "a{0..9999999999}b", "{1..100}{1..100}{1..100}", "{1..1000000000..1}", "{001..100}", "{-100..100..7}",
	"{a..z}", "{z..a..3}", "{A..Z..5}", "{a..z..0}", "{1..-1..0}", "{a,b}{1..3}{x..z}", "{{1..3},{a..c}}", "{{a,b},{c,d}}{e,f}",
}

func main() {
	o := hx.ParseArgs()
	defer hx.Flush()
	var err error
	scratch, err = os.MkdirTemp("", "c16-")
	if err != nil {
		panic(err)
	}
	defer os.RemoveAll(scratch)
	switch o.Mode {
	case "run":
		run(o)
	case "one":
		// replay of given words (hex args)
		var ws []*obs
		for _, h := range o.Args {
			ws = append(ws, observe(hx.UnHex(h), "replay"))
		}
		finishBatch(ws, true)
		for _, w := range ws {
			w.Coq = 1
			hx.Emit(w)
		}
	default:
		panic("unknown mode")
	}
}

type counters struct {
	Words, Bash, Coq, Nontrivial, Many, Failing int
	PerStream                                   map[string]int
	ObserveMs                                   map[string]float64
	BashMs                                      float64
}

var cnt = counters{PerStream: map[string]int{}, ObserveMs: map[string]float64{}}
var seen = map[string]bool{}
var manySeen int

// finishBatch asks bash about the batch and judges every word.
func finishBatch(batch []*obs, emitAll bool) {
	var ask []string
	var idx []int
	for i, b := range batch {
		if !b.noBash {
			ask = append(ask, b.rawWord)
			idx = append(idx, i)
		}
	}
	answers := map[int][]string{}
	if len(ask) > 0 {
		t0 := time.Now()
		res, err := runBash(ask)
		cnt.BashMs += float64(time.Since(t0).Microseconds()) / 1000
		if err != nil {
			hx.Emit(map[string]any{"harness_error": err.Error()})
			hx.Flush()
			os.Exit(3)
		}
		for k, i := range idx {
			answers[i] = res[k]
		}
		cnt.Bash += len(ask)
	}
	for i, b := range batch {
		a, ok := answers[i]
		judge(b, a, ok)
		if b.Many {
			cnt.Many++
		}
		if b.Flag {
			cnt.Nontrivial++
		}
		if len(b.Fails) > 0 {
			cnt.Failing++
			hx.Emit(b)
		} else if b.Coq == 1 && !emitAll {
			hx.Emit(b)
			cnt.Coq++
		}
	}
}

func run(o hx.Opts) {
	thorough := o.Tier == "thorough"
	var batch []*obs
	flush := func() {
		if len(batch) > 0 {
			finishBatch(batch, false)
			batch = batch[:0]
		}
	}
	coqBudget := map[string]int{}
	add := func(w, stream string, coqEvery int, coqMax int) {
		if seen[w] || w == "" {
			return
		}
		seen[w] = true
		t0 := time.Now()
		ob := observe(w, stream)
		cnt.ObserveMs[stream] += float64(time.Since(t0).Microseconds()) / 1000
		cnt.Words++
		cnt.PerStream[stream]++
		// in-kernel comparison: a deterministic subsample per stream; only words whose
		// expansion the kernel can enumerate quickly
		if coqEvery > 0 && cnt.PerStream[stream]%coqEvery == 0 && coqBudget[stream] < coqMax &&
			(ob.Many && len(w) < 40 && smallMany(ob) || !ob.Many && len(ob.rawSpec) <= 300) {
			ob.Coq = 1
			coqBudget[stream]++
		}
		batch = append(batch, ob)
		if len(batch) >= 20000 {
			flush()
		}
	}
	// 0. the pinned regression corpus (corpus/c16/regress.txt, relative to /verif), always first, all of it
	for _, dir := range []string{"corpus/c16/regress.txt", "../corpus/c16/regress.txt", "/verif/corpus/c16/regress.txt"} {
		data, err := os.ReadFile(dir)
		if err != nil {
			continue
		}
		for _, line := range strings.Split(string(data), "\n") {
			line = strings.TrimRight(line, "\r")
			if line == "" || strings.HasPrefix(line, "#") {
				continue
			}
			add(line, "regress", 1, 1000)
		}
		break
	}
	// 1. pinned
	for _, w := range pinned {
		add(w, "pinned", 1, 1000)
	}
	// 2. exhaustive short words over the 11-character alphabet
	rot := int(o.Seed % 8)
	for n := 1; n <= 5; n++ {
		k := 0
		exhaustive(alpha11, n, func(w string) {
			k++
			if !strings.Contains(w, "{") {
				// no brace: SplitBraces returns early; keep a thin slice of these
				if k%16 != rot {
					return
				}
			}
			if !thorough && n == 5 && k%8 != rot {
				return
			}
			every := 40
			if thorough {
				every = 12
			}
			add(w, "exh"+strconv.Itoa(n), every, 1500)
		})
	}
	// 3. exhaustive length 6..7 over small alphabets that can spell sequences and nesting
	type ex struct {
		alpha string
		n     int
	}
	exs := []ex{{"{}.1a", 6}, {"{},a", 7}, {"{}.,1", 7}, {"{}.-19", 6}, {"{}.,\\a", 6}}
	if thorough {
		exs = append(exs, ex{"{}.1a", 8}, ex{"{},a", 9}, ex{"{}.,1a", 7}, ex{"{}.,\\1a", 6}, ex{"{}.-01", 7})
	}
	for _, e := range exs {
		k := 0
		exhaustive(e.alpha, e.n, func(w string) {
			k++
			if !strings.Contains(w, "{") {
				return
			}
			if !thorough && k%4 != rot%4 {
				return
			}
			add(w, "exhsmall", 150, 1200)
		})
	}
	// 4. structured random words, and mutations of them
	r := hx.Rand(o.Seed, 16)
	for i := 0; i < o.N; i++ {
		w := genStruct(r, 3)
		if len(w) > 120 {
			continue
		}
		add(w, "struct", 2, 2500)
		if i%3 == 0 {
			add(mutate(r, w), "mutated", 2, 1200)
		}
		if i%5 == 0 {
			add(genSeq(r), "seq", 1, 1500)
		}
		if i%11 == 0 {
			add(genPlain(r)+genSeq(r)+genSeq(r)+genPlain(r), "seq", 1, 1500)
		}
	}
	flush()
	hx.Emit(map[string]any{"summary": cnt})
}

// smallMany: an over-limit word whose model evaluation stays cheap (one big factor, no big product)
func smallMany(o *obs) bool {
	return strings.Count(o.rawWord, "..") <= 2
}
